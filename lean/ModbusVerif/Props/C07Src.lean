import ModbusVerif.Lemmas.GoEvalTransportLemmas
import ModbusVerif.Props.C05Src
import ModbusVerif.Props.C07
/-
  C07, source tie for the I/O call order of the two client transports: the calls
  `tcpTransport.ExecuteRequest` (+ `readResponse`) and `rtuTransport.ExecuteRequest` make, as
  rendered by the translator (`Gen.gs_tcpTransport_ExecuteRequest`, `Gen.gs_tcpTransport_readResponse`,
  `Gen.gs_rtuTransport_ExecuteRequest`, `Gen.gs_discard`, regenerated from /repo on every run), are
  EVALUATED (`GoEval.exec` / `GoEval.execW`) for all values and compared with the trace model
  `Io.mbapTrace` / `Io.rtuTrace` (Model/IoTrace.lean), about which Props/C07.lean proves the
  deadline discipline and the time bounds.

  1. `C07S_texts`: the calls of the five terms in program order with the text of their arguments
     (static, `bindCalls`): ONE `SetDeadline` in `tcpTransport.ExecuteRequest`, in front of the
     `Write`; NONE in `readResponse` (its only call is `tt.readMBAPFrame`) and none in
     `readRTUFrame`; TWO in `rtuTransport.ExecuteRequest`; one (500 µs) in `discard`.
  2. `C07S_mbap_calls`: every run of the MBAP exchange performs `SetDeadline`, `Write`, then frame
     reads only; `C07S_mbap_skeleton`: that is the skeleton of `Io.mbapTrace`.
  3. `C07S_rtu_calls`: the calls of every run of `rtuTransport.ExecuteRequest`, with their
     argument values, for every behaviour of link and clock; `C07S_rtu_skeleton`: they are the
     event skeleton of `Io.rtuTrace`, including the durations of the three sleeps.

  The RTU world (`rtuWorld`) has to answer `time.Now()` twice and
  `rt.link.SetDeadline(time.Now().Add(rt.timeout))` twice, with different results for the same
  arguments: `GoEval.execW` (Lemmas/GoEvalTransportLemmas.lean), the evaluator with an oracle that
  sees the call log, is used (`execFromW_const`: same function as `exec` on stateless oracles).

  Skeleton (`Tok`): `sd` = a `SetDeadline`, `sl ns` = `time.Sleep(ns)` (a negative argument
  returns at once: 0), `wr` = `Write`, `rd` = one or more consecutive reads. The trace model lists
  the individual `Read` calls of each `io.ReadFull`; a frame read (`tt.readMBAPFrame()`,
  `rt.readRTUFrame()`) is a group of them (Props/C02SrcFrames.lean ties the frame readers to the
  model reads), so consecutive reads are merged on both sides (`collapse`). `discard(link)` is
  `SetDeadline(500 µs); io.ReadFull` (`C07S_texts`, from `Gen.gs_discard`): `[sd, rd]`.
  `time.Since`, `time.Now`, `ts.Add` are clock arithmetic, not link events.
-/
set_option linter.unusedSimpArgs false
set_option linter.unusedVariables false

namespace Modbus.Props.C07
open Modbus Modbus.Gen Modbus.GoEval Modbus.Io

/-! ## 1. the text of the terms -/

/-- the calls of the five functions in program order (all paths), with the source text of
    their leaf arguments (`none`: a compound expression, see `C07S_sleep_args`) -/
theorem C07S_texts :
    callTextsOf gs_tcpTransport_ExecuteRequest =
      [("tt.socket.SetDeadline", [some "time.Now().Add(tt.timeout)"]),
       ("tt.socket.Write", [some "tt.assembleMBAPFrame(tt.lastTxnId, req)"]),
       ("tt.readResponse", [])] ∧
    callTextsOf gs_tcpTransport_readResponse = [("tt.readMBAPFrame", [])] ∧
    callTextsOf gs_rtuTransport_ExecuteRequest =
      [("rt.link.SetDeadline", [some "time.Now().Add(rt.timeout)"]),
       ("time.Since", [some "rt.lastActivity.Add(rt.t35)"]),
       ("time.Sleep", [none]),
       ("time.Now", []),
       ("rt.link.Write", [some "rt.assembleRTUFrame(req)"]),
       ("ts.Add", [none]),
       ("time.Sleep", [some "rt.lastActivity.Add(rt.t35).Sub(time.Now())"]),
       ("rt.link.SetDeadline", [some "time.Now().Add(rt.timeout)"]),
       ("rt.readRTUFrame", []),
       ("time.Sleep", [none]),
       ("discard", [some "rt.link"]),
       ("time.Now", [])] ∧
    callTextsOf gs_discard =
      [("link.SetDeadline", [some "time.Now().Add(500 * time.Microsecond)"]),
       ("io.ReadFull", [some "link", some "rxbuf"])] ∧
    (callTextsOf gs_rtuTransport_readRTUFrame).map (·.1) =
      ["io.ReadFull", "expectedResponseLenth", "io.ReadFull", "crc.init", "crc.add"] ∧
    (callTextsOf gs_tcpTransport_readMBAPFrame).map (·.1) =
      ["io.ReadFull", "bytesToUint16", "bytesToUint16", "io.ReadFull"] := by
  decide +kernel

/-- the three compound arguments: `t * (-1)`, `time.Duration(n) * rt.t1`, and
    `time.Duration(maxRTUFrameLength) * rt.t1` with the constant folded to the literal 256 by the
    Go type checker - the value of `maxRTUFrameLength` in `Gen.intConsts`, and
    `Timing.maxRTUFrameLength` of the model; the targets of `ts.Add` and of the final `time.Now` -/
theorem C07S_sleep_args :
    (bindCalls gs_rtuTransport_ExecuteRequest).map (fun c => (c.1, c.2.1)) =
      [(["err"], "rt.link.SetDeadline"), (["t"], "time.Since"), ([], "time.Sleep"),
       (["ts"], "time.Now"), (["n", "err"], "rt.link.Write"), (["rt.lastActivity"], "ts.Add"),
       ([], "time.Sleep"), (["err"], "rt.link.SetDeadline"), (["res", "err"], "rt.readRTUFrame"),
       ([], "time.Sleep"), ([], "discard"), (["rt.lastActivity"], "time.Now")] ∧
    ((bindCalls gs_rtuTransport_ExecuteRequest).map (·.2.2))[2]? =
      some [.bin "*" .i64 (.var "t" .i64) (.lit (-1) .i64)] ∧
    ((bindCalls gs_rtuTransport_ExecuteRequest).map (·.2.2))[5]? =
      some [.bin "*" .i64 (.conv .i64 (.var "n" .int)) (.var "rt.t1" .i64)] ∧
    ((bindCalls gs_rtuTransport_ExecuteRequest).map (·.2.2))[9]? =
      some [.bin "*" .i64 (.lit 256 .i64) (.var "rt.t1" .i64)] ∧
    intConst? "maxRTUFrameLength" = some 256 ∧ Timing.maxRTUFrameLength = 256 ∧
    opaques gs_rtuTransport_ExecuteRequest = [] := by
  refine ⟨by rfl, by rfl, by rfl, by rfl, by decide, rfl, by rfl⟩

/-! ## skeletons -/

inductive Tok
  | sd | sl (ns : Nat) | wr | rd
  deriving DecidableEq, Repr

/-- an event of the trace model -/
def opTok : Io.Op → Tok
  | .setDeadline _ => .sd
  | .write _ => .wr
  | .read _ _ => .rd
  | .readEnd _ => .rd
  | .sleep ns => .sl ns

/-- merge consecutive reads -/
def collapse : List Tok → List Tok
  | [] => []
  | a :: t =>
    match a, collapse t with
    | .rd, .rd :: r => .rd :: r
    | a, r => a :: r

/-- duration of a `time.Sleep(d)`: `d` ns, nothing for `d ≤ 0` -/
def sleepNs : List Val → Nat
  | [.int d] => d.toNat
  | _ => 0

/-- the link events of a performed call -/
def callToks (c : String × List Val) : List Tok :=
  if c.1 = "rt.link.SetDeadline" ∨ c.1 = "tt.socket.SetDeadline" then [.sd]
  else if c.1 = "time.Sleep" then [.sl (sleepNs c.2)]
  else if c.1 = "rt.link.Write" ∨ c.1 = "tt.socket.Write" then [.wr]
  else if c.1 = "rt.readRTUFrame" ∨ c.1 = "tt.readMBAPFrame" then [.rd]
  else if c.1 = "discard" then [.sd, .rd]
  else []

/-- skeleton of a call log / of a model trace -/
def skeleton (cs : Calls) : List Tok := collapse (cs.flatMap callToks)
def opSkeleton (ops : List Io.Op) : List Tok := collapse (ops.map opTok)

theorem collapse_cons_ne (a : Tok) (l : List Tok) (h : a ≠ .rd) :
    collapse (a :: l) = a :: collapse l := by
  cases a <;> first | rfl | exact absurd rfl h

/-- a non-empty block of reads in front of something that does not start with a read -/
theorem collapse_rd_block : ∀ (R : List Tok), R ≠ [] → (∀ x ∈ R, x = .rd) → ∀ (l : List Tok),
    (∀ r, collapse l ≠ .rd :: r) → collapse (R ++ l) = .rd :: collapse l := by
  intro R
  induction R with
  | nil => intro h; exact absurd rfl h
  | cons x R ih =>
    intro _ hall l hl
    have hx : x = .rd := hall x List.mem_cons_self
    subst hx
    cases R with
    | nil =>
      simp only [List.cons_append, List.nil_append, collapse]
      cases hc : collapse l with
      | nil => rfl
      | cons b r =>
        cases b with
        | rd => exact absurd hc (hl r)
        | _ => rfl
    | cons y R =>
      have := ih (by simp) (fun z hz => hall z (List.mem_cons_of_mem _ hz)) l hl
      simp only [List.cons_append] at this ⊢
      simp only [collapse] at this ⊢
      rw [this]

theorem map_opTok_reads {ops : List Io.Op} (h : ∀ op ∈ ops, op.isRead = true) :
    ∀ x ∈ ops.map opTok, x = .rd := by
  intro x hx
  obtain ⟨op, hop, rfl⟩ := List.mem_map.mp hx
  have := h op hop
  cases op <;> first | rfl | simp [Io.Op.isRead] at this

theorem rfTrace_ne_nil {n : Nat} (a : Nat) (h : n ≠ 0) : rfTrace n a ≠ [] := by
  unfold rfTrace
  rw [if_neg h]
  split
  · simp
  · split <;> simp

/-! ## 2. MBAP -/

open Modbus.Props.C05 in
/-- **the calls of every run of the MBAP exchange** (`C05.mbapExchange`: `ExecuteRequest` with
    `readResponse` run against any list of frame-read outcomes; any link behaviour, any
    outstanding id, fuel ≥ `outs.length + 12`): exactly one
    `SetDeadline([time.Now().Add(tt.timeout)])`, first; if it succeeded one
    `Write([tt.assembleMBAPFrame(tt.lastTxnId, req)])`; if that succeeded `m ≥ 1` frame reads and
    NOTHING else - no deadline is armed while frames are skipped, however many. -/
theorem C07S_mbap_calls (io : C05.MbapIO) (outs : List C05.Out) (last : U16) (fuel : Nat)
    (hf : outs.length + 12 ≤ fuel) :
    let x := C05.mbapExchange io outs last fuel
    x.linkCalls =
      C05.sdCall ::
        (if io.sdErr ≠ "nil" then []
         else C05.wrCall ::
           (if io.wrErr ≠ "nil" then []
            else List.replicate
              (match C05.pick (last + 1) outs with
               | some (k, _) => k + 1
               | none => outs.length) C05.rdCall)) := by
  intro x
  by_cases h1 : io.sdErr = "nil"
  · by_cases h2 : io.wrErr = "nil"
    · have h := C05.C05S_exchange_mbap io outs last fuel hf h1 h2
      simp only [h1, h2, ne_eq, not_true_eq_false, if_false]
      cases hp : C05.pick (last + 1) outs with
      | none => rw [hp] at h; exact h.1
      | some ko => obtain ⟨k, o⟩ := ko; rw [hp] at h; exact h.2.2.2.2.1
    · have h := C05.C05S_execute_mbap io none last fuel (by omega)
      simp only [h1, h2, ne_eq, not_true_eq_false, not_false_eq_true, if_false, if_true,
        C05.exObs, Prod.mk.injEq] at h
      have hh : (exec (C05.exOracle io none) fuel gs_tcpTransport_ExecuteRequest (C05.tcpEnv last)).how
          ≠ .stoppedAt "tt.readResponse" [] := by rw [h.1]; exact fun h => nomatch h
      simp only [x, C05.mbapExchange, hh, if_false, C05.Exchange.linkCalls, h.2.1, h1, h2, ne_eq,
        not_true_eq_false, not_false_eq_true, if_true]
  · have h := C05.C05S_execute_mbap io none last fuel (by omega)
    simp only [h1, ne_eq, not_false_eq_true, if_true, C05.exObs, Prod.mk.injEq] at h
    have hh : (exec (C05.exOracle io none) fuel gs_tcpTransport_ExecuteRequest (C05.tcpEnv last)).how
        ≠ .stoppedAt "tt.readResponse" [] := by rw [h.1]; exact fun h => nomatch h
    simp only [x, C05.mbapExchange, hh, if_false, C05.Exchange.linkCalls, h.2.1, h1, ne_eq,
      not_false_eq_true, if_true]

theorem mbapFrameStep_ops_ne_nil (txn : U16) (s : Bytes) : (mbapFrameStep txn s).ops ≠ [] := by
  have h7 : ∀ a, rfTrace Mbap.mbapHeaderLength a ≠ [] := fun a => rfTrace_ne_nil a (by decide)
  unfold mbapFrameStep
  split
  · simp only
    repeat' split
    all_goals simp [Step.ops, h7]
  · simp [Step.ops, h7]

theorem mbapReads_ne_nil (txn : U16) (s : Bytes) : mbapReads txn s ≠ [] := by
  rw [mbapReads_eq]
  have := mbapFrameStep_ops_ne_nil txn s
  cases hst : mbapFrameStep txn s with
  | stop ops => rw [hst] at this; exact this
  | next ops rest => rw [hst] at this; simp only [Step.ops] at this; simp [this]

theorem skeleton_replicate_rd (k : Nat) (f : String) (hf : callToks (f, []) = [.rd]) :
    collapse ((List.replicate (k + 1) (f, ([] : List Val))).flatMap callToks) = [.rd] := by
  have : (List.replicate (k + 1) (f, ([] : List Val))).flatMap callToks =
      List.replicate (k + 1) Tok.rd ++ [] := by
    induction k with
    | zero => simp [List.replicate, hf]
    | succ k ih =>
      rw [List.replicate_succ, List.flatMap_cons, ih, hf]
      simp [List.replicate_succ]
  rw [this, collapse_rd_block _ (by simp [List.replicate_succ]) (by
    intro x hx; exact (List.mem_replicate.mp hx).2) [] (by intro r h; simp [collapse] at h)]
  rfl

/-- **the MBAP call sequence is the skeleton of `Io.mbapTrace`**: link accepting deadline and
    write, at least one frame read performed (always the case, `C07S_mbap_calls`): for every
    timeout, frame length, id and stream of the model, both are `SetDeadline, Write, reads`. -/
theorem C07S_mbap_skeleton (io : C05.MbapIO) (outs : List C05.Out) (last : U16) (fuel : Nat)
    (hf : outs.length + 12 ≤ fuel) (h1 : io.sdErr = "nil") (h2 : io.wrErr = "nil")
    (hne : outs ≠ []) (T L : Nat) (txn : U16) (s : Bytes) :
    skeleton (C05.mbapExchange io outs last fuel).linkCalls = [.sd, .wr, .rd] ∧
    opSkeleton (mbapTrace T L txn s) = [.sd, .wr, .rd] := by
  constructor
  · have h := C07S_mbap_calls io outs last fuel hf
    simp only [h1, h2, ne_eq, not_true_eq_false, if_false] at h
    rw [h]
    obtain ⟨m, hm⟩ : ∃ m, (match C05.pick (last + 1) outs with
        | some (k, _) => k + 1
        | none => outs.length) = m + 1 := by
      cases C05.pick (last + 1) outs with
      | some ko => exact ⟨ko.1, rfl⟩
      | none =>
        cases outs with
        | nil => exact absurd rfl hne
        | cons a t => exact ⟨t.length, rfl⟩
    rw [hm]
    unfold skeleton
    rw [List.flatMap_cons, List.flatMap_cons]
    have e1 : callToks C05.sdCall = [.sd] := by decide
    have e2 : callToks C05.wrCall = [.wr] := by decide
    rw [e1, e2]
    simp only [List.cons_append, List.nil_append]
    rw [collapse_cons_ne _ _ (by decide), collapse_cons_ne _ _ (by decide), C05.rdCall,
      skeleton_replicate_rd m "tt.readMBAPFrame" (by decide)]
  · unfold opSkeleton mbapTrace
    simp only [List.map_cons, opTok]
    rw [collapse_cons_ne _ _ (by decide), collapse_cons_ne _ _ (by decide)]
    have := collapse_rd_block ((mbapReads txn s).map opTok)
      (by simp [mbapReads_ne_nil]) (map_opTok_reads (mbapReads_isRead txn s)) []
      (by intro r h; simp [collapse] at h)
    rw [List.append_nil] at this
    rw [this]; rfl

/-! ## 3. RTU -/

/-- the opaque leaves -/
def dlLeaf : String := "time.Now().Add(rt.timeout)"
def la35Leaf : String := "rt.lastActivity.Add(rt.t35)"
def frLeaf : String := "rt.assembleRTUFrame(req)"
def subLeaf : String := "rt.lastActivity.Add(rt.t35).Sub(time.Now())"

/-- what link and clock answer during one call -/
structure RtuIO where
  sd1 : String     -- result of the first `SetDeadline`
  t : Int          -- `time.Since(rt.lastActivity.Add(rt.t35))`
  ts : Int         -- the first `time.Now()`
  n : Int          -- `Write`: bytes written
  wrErr : String   --          error
  sd2 : String     -- result of the second `SetDeadline`
  res : String     -- `readRTUFrame`: pdu
  err : String     --                 error
  fin : Int        -- the final `time.Now()`

/-- answers depend on the log: the `SetDeadline` after the `Write` is the second one, the
    `time.Now()` after `readRTUFrame` is the final one; `ts.Add(d)` = `ts + d`, `ts` being what the
    first `time.Now()` returned -/
def rtuWorld (io : RtuIO) : World := fun cs f args =>
  if f = "rt.link.SetDeadline" then
    some [.sym (if wasCalled "rt.link.Write" cs = true then io.sd2 else io.sd1)]
  else if f = "time.Since" then some [.int io.t]
  else if f = "time.Sleep" then some []
  else if f = "time.Now" then
    some [.int (if wasCalled "rt.readRTUFrame" cs = true then io.fin else io.ts)]
  else if f = "rt.link.Write" then some [.int io.n, .sym io.wrErr]
  else if f = "ts.Add" then some [plusVal (.int io.ts) (args.headD .unk)]
  else if f = "rt.readRTUFrame" then some [.sym io.res, .sym io.err]
  else if f = "discard" then some []
  else none

/-- values of the integer leaves: `rt.lastActivity.Add(rt.t35)`, `rt.t1`,
    `rt.lastActivity.Add(rt.t35).Sub(time.Now())` (read once, at the second sleep), and the
    initial `rt.lastActivity` -/
structure RtuVals where
  la35 : Int
  t1 : Int
  post : Int
  la : Int

def rtuEnv (v : RtuVals) : Env :=
  [(dlLeaf, .sym dlLeaf), (la35Leaf, .int v.la35), (frLeaf, .sym frLeaf), (subLeaf, .int v.post),
   ("rt.t1", .int v.t1), ("rt.link", .sym "rt.link"), ("rt.lastActivity", .int v.la),
   ("res", .sym "nil"), ("err", .sym "nil")]

/-- no int64 overflow in `t * (-1)`, `time.Duration(n) * rt.t1`, `256 * rt.t1` -/
structure InRange (io : RtuIO) (v : RtuVals) : Prop where
  t0 : -9223372036854775808 < io.t
  t1 : io.t < 9223372036854775808
  n0 : -9223372036854775808 ≤ io.n
  n1 : io.n < 9223372036854775808
  p0 : -9223372036854775808 ≤ io.n * v.t1
  p1 : io.n * v.t1 < 9223372036854775808
  r0 : -9223372036854775808 ≤ 256 * v.t1
  r1 : 256 * v.t1 < 9223372036854775808

/-- `err == ErrBadCRC || err == ErrProtocolError || err == ErrShortFrame` -/
def isResync (err : String) : Bool :=
  decide (err = "ErrBadCRC") || decide (err = "ErrProtocolError") || decide (err = "ErrShortFrame")

/-- how, calls, `rt.lastActivity`, `res`, `err` -/
def rtuObs (r : Res) : End × Calls × Val × Val × Val :=
  (r.how, r.calls, Env.read r.env "rt.lastActivity", Env.read r.env "res", Env.read r.env "err")
theorem rtuObs_ite (p : Prop) [Decidable p] (x y : Res) :
    rtuObs (if p then x else y) = if p then rtuObs x else rtuObs y := by split <;> exact id rfl
theorem rtuObs_mk (env how cs) : rtuObs ⟨env, how, cs⟩ =
    (how, cs, Env.read env "rt.lastActivity", Env.read env "res", Env.read env "err") := by
  exact id rfl

def sdCall : String × List Val := ("rt.link.SetDeadline", [.sym dlLeaf])

/-- the calls of `rtuTransport.ExecuteRequest`, in order, with their argument values -/
def rtuCalls (io : RtuIO) (v : RtuVals) : Calls :=
  sdCall ::
  (if io.sd1 ≠ "nil" then [] else
   ("time.Since", [.int v.la35]) ::
   ((if io.t < 0 then [("time.Sleep", [.int (-io.t)])] else []) ++
    ("time.Now", []) :: ("rt.link.Write", [.sym frLeaf]) ::
    (if io.wrErr ≠ "nil" then [] else
     ("ts.Add", [.int (io.n * v.t1)]) :: ("time.Sleep", [.int v.post]) :: sdCall ::
     (if io.sd2 ≠ "nil" then [] else
      ("rt.readRTUFrame", []) ::
      ((if isResync io.err = true then
          [("time.Sleep", [.int (256 * v.t1)]), ("discard", [.sym "rt.link"])] else []) ++
       (if io.err ≠ "ErrRequestTimedOut" then [("time.Now", [])] else []))))))

/-- `rt.lastActivity` when the call returns -/
def rtuLast (io : RtuIO) (v : RtuVals) : Int :=
  if io.sd1 ≠ "nil" then v.la else if io.wrErr ≠ "nil" then v.la
  else if io.sd2 ≠ "nil" then io.ts + io.n * v.t1
  else if io.err ≠ "ErrRequestTimedOut" then io.fin else io.ts + io.n * v.t1

/-- `(res, err)` returned -/
def rtuRes (io : RtuIO) : String × String :=
  if io.sd1 ≠ "nil" then ("nil", io.sd1) else if io.wrErr ≠ "nil" then ("nil", io.wrErr)
  else if io.sd2 ≠ "nil" then ("nil", io.sd2) else (io.res, io.err)

theorem rtu_20 (io : RtuIO) (v : RtuVals) (hr : InRange io v) :
    rtuObs (execW (rtuWorld io) 20 gs_rtuTransport_ExecuteRequest (rtuEnv v)) =
      (.returned, rtuCalls io v, .int (rtuLast io v), .sym (rtuRes io).1, .sym (rtuRes io).2) := by
  have hw1 : wrap .i64 (io.t * -1) = -io.t := by
    rw [wrap_i64 (by have := hr.t1; omega) (by have := hr.t0; omega)]; omega
  have hw2 : wrap .i64 io.n = io.n := wrap_i64 hr.n0 hr.n1
  have hw3 : wrap .i64 (io.n * v.t1) = io.n * v.t1 := wrap_i64 hr.p0 hr.p1
  have hw4 : wrap .i64 (256 * v.t1) = 256 * v.t1 := wrap_i64 hr.r0 hr.r1
  go_evalW_nowrap [gs_rtuTransport_ExecuteRequest, rtuWorld, rtuEnv, dlLeaf, la35Leaf, frLeaf,
    subLeaf, hw1, hw2, hw3, hw4, rtuObs_ite, rtuObs_mk]
  simp only [rtuCalls, rtuLast, rtuRes, isResync, sdCall, dlLeaf, frLeaf, ne_eq]
  repeat' split
  all_goals first | rfl | contradiction | (simp_all; done) | (simp_all; rfl)

/-- **the calls of `rtuTransport.ExecuteRequest`**, for every behaviour of the link and the clock
    (`io`), all values of the integer leaves (`v`, no int64 overflow: `InRange`), fuel ≥ 20.
    The function returns; the calls it performed, with their argument values, are `rtuCalls io v`:
      `SetDeadline([time.Now().Add(rt.timeout)])` (error → return);
      `time.Since([rt.lastActivity.Add(rt.t35)])` = `t`; `time.Sleep([-t])` iff `t < 0`;
      `time.Now()` = `ts`; `Write([rt.assembleRTUFrame(req)])` = `(n, err)` (error → return,
        `rt.lastActivity` untouched);
      `ts.Add([n * rt.t1])`, assigned to `rt.lastActivity` (= `ts + n·t1`);
      `time.Sleep([rt.lastActivity.Add(rt.t35).Sub(time.Now())])`;
      the SECOND `SetDeadline([time.Now().Add(rt.timeout)])` (error → return);
      `rt.readRTUFrame()` = `(res, err)`;
      iff `err ∈ {ErrBadCRC, ErrProtocolError, ErrShortFrame}`: `time.Sleep([256 * rt.t1])`, then
        `discard([rt.link])`;
      iff `err != ErrRequestTimedOut`: `time.Now()`, assigned to `rt.lastActivity` - after the
        sleep and the flush. -/
theorem C07S_rtu_calls (io : RtuIO) (v : RtuVals) (hr : InRange io v) (fuel : Nat) (hf : 20 ≤ fuel) :
    let r := execW (rtuWorld io) fuel gs_rtuTransport_ExecuteRequest (rtuEnv v)
    r.how = .returned ∧ r.calls = rtuCalls io v ∧
    Env.read r.env "rt.lastActivity" = .int (rtuLast io v) ∧
    Env.read r.env "res" = .sym (rtuRes io).1 ∧ Env.read r.env "err" = .sym (rtuRes io).2 := by
  intro r
  have h20 := rtu_20 io v hr
  have hm : r = execW (rtuWorld io) 20 gs_rtuTransport_ExecuteRequest (rtuEnv v) :=
    execW_mono _ 20 fuel _ _ hf (by
      have := congrArg (fun x => x.1) h20
      simp only [rtuObs] at this
      rw [this]; exact fun h => nomatch h)
  rw [hm]
  simp only [rtuObs, Prod.mk.injEq] at h20
  exact h20

/-! ### the skeleton of `Io.rtuTrace` -/

/-- the model's resynchronisation cases -/
def IsResyncResult (r : Except Err Pdu) : Prop :=
  r = .error .badCRC ∨ r = .error .protocolError ∨ r = .error .shortFrame

instance (r : Except Err Pdu) : Decidable (IsResyncResult r) := by
  unfold IsResyncResult; infer_instance

theorem rtuTail_of_resync {rate : Nat} {r : Except Err Pdu} (rest : Bytes) (h : IsResyncResult r) :
    rtuTail rate (r, rest) = resyncOps rate rest.length := by
  rcases h with h | h | h <;> subst h <;> rfl

theorem rtuTail_of_not_resync {rate : Nat} {r : Except Err Pdu} (rest : Bytes)
    (h : ¬ IsResyncResult r) : rtuTail rate (r, rest) = [] := by
  cases r with
  | ok p => rfl
  | error x =>
    cases x <;> first | rfl | exact absurd (by simp [IsResyncResult]) h

theorem rtuReadOps_ne_nil (s : Bytes) : rtuReadOps s ≠ [] := by
  unfold rtuReadOps
  intro h
  have := List.append_eq_nil_iff.mp h
  exact rfTrace_ne_nil s.length (by decide) this.1

/-- the skeleton of the model trace: `sd, [sl w], wr, sl post, sd, rd, [sl 256·t1, sd, rd]` -/
theorem opSkeleton_rtuTrace (T rate L w post : Nat) (s : Bytes) (e : Ending) :
    opSkeleton (rtuTrace T rate L w post s e) =
      .sd :: ((if w > 0 then [.sl w] else []) ++
        [.wr, .sl post, .sd, .rd] ++
        (if IsResyncResult (Rtu.readFrame s e).1 then
          [.sl (Timing.maxRTUFrameLength * Timing.t1 rate), .sd, .rd] else [])) := by
  have hR := collapse_rd_block ((rtuReadOps s).map opTok) (by simp [rtuReadOps_ne_nil])
    (map_opTok_reads (rtuReadOps_isRead s))
  have htail : collapse ((rtuReadOps s).map opTok ++ (rtuTail rate (Rtu.readFrame s e)).map opTok) =
      .rd :: (if IsResyncResult (Rtu.readFrame s e).1 then
          [.sl (Timing.maxRTUFrameLength * Timing.t1 rate), .sd, .rd] else []) := by
    cases hrf : Rtu.readFrame s e with
    | mk res rest =>
      by_cases hc : IsResyncResult res
      · rw [rtuTail_of_resync rest hc]
        simp only [hc, if_true, resyncOps, List.map_append, List.map_cons, List.map_nil,
          List.cons_append, List.nil_append, opTok]
        have hF := collapse_rd_block ((rfTrace Rtu.discardLen rest.length).map opTok)
          (by simp [rfTrace_ne_nil rest.length (by decide : Rtu.discardLen ≠ 0)])
          (map_opTok_reads (rfTrace_isRead _ _)) [] (by intro r h; simp [collapse] at h)
        rw [List.append_nil] at hF
        rw [hR _ (by
          intro r h
          rw [collapse_cons_ne _ _ (by simp)] at h
          cases h)]
        rw [collapse_cons_ne _ _ (by simp), collapse_cons_ne _ _ (by simp), hF]
        rfl
      · rw [rtuTail_of_not_resync rest hc]
        simp only [hc, if_false, List.map_nil, List.append_nil]
        have := hR [] (by intro r h; simp [collapse] at h)
        rw [List.append_nil] at this
        rw [this]; simp [collapse]
  unfold opSkeleton rtuTrace
  by_cases hw : w > 0
  · simp only [hw, if_true, List.map_append, List.map_cons, List.map_nil, List.cons_append,
      List.nil_append, List.append_assoc, opTok]
    rw [collapse_cons_ne _ _ (by simp), collapse_cons_ne _ _ (by simp),
      collapse_cons_ne _ _ (by simp), collapse_cons_ne _ _ (by simp),
      collapse_cons_ne _ _ (by simp), htail]
  · simp only [hw, if_false, List.map_append, List.map_cons, List.map_nil, List.cons_append,
      List.nil_append, List.append_assoc, opTok]
    rw [collapse_cons_ne _ _ (by simp), collapse_cons_ne _ _ (by simp),
      collapse_cons_ne _ _ (by simp), collapse_cons_ne _ _ (by simp), htail]

/-- the skeleton of the calls of a complete run: same shape -/
theorem skeleton_rtuCalls (io : RtuIO) (v : RtuVals)
    (h1 : io.sd1 = "nil") (h2 : io.wrErr = "nil") (h3 : io.sd2 = "nil") :
    skeleton (rtuCalls io v) =
      .sd :: ((if io.t < 0 then [.sl (-io.t).toNat] else []) ++
        [.wr, .sl v.post.toNat, .sd, .rd] ++
        (if isResync io.err = true then [.sl (256 * v.t1).toNat, .sd, .rd] else [])) := by
  unfold skeleton rtuCalls
  simp only [h1, h2, h3, ne_eq, not_true_eq_false, if_false]
  by_cases hto : io.err = "ErrRequestTimedOut"
  · have hr : isResync "ErrRequestTimedOut" = false := by decide
    by_cases ht : io.t < 0 <;>
      simp [ht, hr, hto, callToks, sdCall, sleepNs, collapse]
  · by_cases ht : io.t < 0 <;> by_cases hr : isResync io.err = true <;>
      simp [ht, hr, hto, callToks, sdCall, sleepNs, collapse]

/-- **the call sequence of `rtuTransport.ExecuteRequest` is the event skeleton of `Io.rtuTrace`**,
    for all values: link accepting both deadlines and the write (the model has no such
    failures), `rt.t1 = Timing.t1 rate`, the model's pre-transmission wait `waitNs = -t` (0 unless
    `t < 0`) and post-transmission sleep `postNs` = the argument of the second sleep (0 when
    negative), and `readRTUFrame`'s error in the resynchronisation class exactly when the model's
    `Rtu.readFrame s e` is (`hcls`; `C07S_resync_class` shows it for `errSym`): for every timeout,
    frame length, stream and ending
      `sd, [sl (-t)], wr, sl post, sd, rd, [sl (256·t1), sd, rd]`
    on both sides - same events, same order, same sleep durations, the optional parts present
    in the same cases (`t < 0` ⇔ `waitNs > 0`). -/
theorem C07S_rtu_skeleton (io : RtuIO) (v : RtuVals) (hr : InRange io v) (fuel : Nat)
    (hf : 20 ≤ fuel) (h1 : io.sd1 = "nil") (h2 : io.wrErr = "nil") (h3 : io.sd2 = "nil")
    (T rate L : Nat) (s : Bytes) (e : Ending) (ht1 : v.t1 = (Timing.t1 rate : Nat))
    (hcls : isResync io.err = true ↔ IsResyncResult (Rtu.readFrame s e).1) :
    skeleton (execW (rtuWorld io) fuel gs_rtuTransport_ExecuteRequest (rtuEnv v)).calls =
      opSkeleton (rtuTrace T rate L (-io.t).toNat v.post.toNat s e) := by
  rw [(C07S_rtu_calls io v hr fuel hf).2.1, skeleton_rtuCalls io v h1 h2 h3, opSkeleton_rtuTrace]
  have e1 : (-io.t).toNat > 0 ↔ io.t < 0 := by omega
  have e2 : (256 * v.t1).toNat = Timing.maxRTUFrameLength * Timing.t1 rate := by
    rw [ht1, Timing.maxRTUFrameLength]; omega
  by_cases ht : io.t < 0 <;> by_cases hc : isResync io.err = true
  · simp [ht, hc, e1.mpr ht, hcls.mp hc, e2]
  · have : ¬ IsResyncResult (Rtu.readFrame s e).1 := fun h => hc (hcls.mpr h)
    simp [ht, hc, e1.mpr ht, this]
  · have : ¬ (-io.t).toNat > 0 := fun h => ht (e1.mp h)
    simp [ht, hc, this, hcls.mp hc, e2]
  · have h' : ¬ IsResyncResult (Rtu.readFrame s e).1 := fun h => hc (hcls.mpr h)
    have : ¬ (-io.t).toNat > 0 := fun h => ht (e1.mp h)
    simp [ht, hc, this, h']

/-- the errors `Rtu.readFrame` can produce -/
theorem rtu_readFrame_err {s : Bytes} {e : Ending} {x : Err} {rest : Bytes}
    (h : Rtu.readFrame s e = (.error x, rest)) :
    x = .shortFrame ∨ x = .protocolError ∨ x = .badCRC ∨ x = e.err := by
  have herl : ∀ a b y, Rtu.expectedResponseLength a b = .error y → y = .protocolError := by
    intro a b y
    simp only [Rtu.expectedResponseLength]
    repeat' split
    all_goals intro h; first | (injection h with h; exact h.symm) | exact nomatch h
  unfold Rtu.readFrame at h
  split at h
  · split at h <;> injection h with h _ <;> injection h with h <;> simp [← h]
  · split at h
    · rename_i err herr
      injection h with h _; injection h with h
      subst h; right; left; exact herl _ _ _ herr
    · simp only at h
      split at h
      · injection h with h _; injection h with h; simp [← h]
      · split at h
        · split at h
          · injection h with h _; injection h with h; simp [← h]
          · split at h <;> injection h with h _ <;> injection h with h <;> simp [← h]
        · split at h
          · injection h with h _; cases h
          · injection h with h _; injection h with h; simp [← h]

/-- with the symbols of `GoEval.errSym` the class hypothesis of `C07S_rtu_skeleton` holds:
    `err` names a resynchronisation error exactly when the model's result is one -/
theorem C07S_resync_class (s : Bytes) (e : Ending) :
    isResync (match (Rtu.readFrame s e).1 with | .ok _ => "nil" | .error x => errSym x) = true ↔
      IsResyncResult (Rtu.readFrame s e).1 := by
  cases hrf : Rtu.readFrame s e with
  | mk res rest =>
    cases res with
    | ok p => simp [isResync, IsResyncResult]
    | error x =>
      rcases rtu_readFrame_err hrf with h | h | h | h
      · subst h; simp [isResync, IsResyncResult, errSym_shortFrame]
      · subst h; simp [isResync, IsResyncResult, errSym_protocolError]
      · subst h; simp [isResync, IsResyncResult, errSym_badCRC]
      · subst h; cases e <;> simp [isResync, IsResyncResult, Ending.err, errSym]

/-! ### concrete runs (kernel-evaluated) -/

def demoIO (err : String) (t : Int) : RtuIO :=
  ⟨"nil", t, 1000, 8, "nil", "nil", "pdu", err, 99000⟩
def demoVals : RtuVals := ⟨500, 572916, 1750000, 100⟩

/-- a good reply, the line idle long enough: two deadlines, one sleep, `lastActivity := fin` -/
example : rtuObs (execW (rtuWorld (demoIO "nil" 10)) 20 gs_rtuTransport_ExecuteRequest (rtuEnv demoVals)) =
    (.returned,
     [sdCall, ("time.Since", [.int 500]), ("time.Now", []), ("rt.link.Write", [.sym frLeaf]),
      ("ts.Add", [.int (8 * 572916)]), ("time.Sleep", [.int 1750000]), sdCall,
      ("rt.readRTUFrame", []), ("time.Now", [])],
     .int 99000, .sym "pdu", .sym "nil") := by decide +kernel

/-- a bad CRC 0.25 ms after the last activity: pre-sleep, and the resynchronisation tail
    `Sleep(256·t1)`, `discard` in front of the final `time.Now()` -/
example : (rtuObs (execW (rtuWorld (demoIO "ErrBadCRC" (-250000))) 20 gs_rtuTransport_ExecuteRequest
      (rtuEnv demoVals))).2.1 =
    [sdCall, ("time.Since", [.int 500]), ("time.Sleep", [.int 250000]), ("time.Now", []),
     ("rt.link.Write", [.sym frLeaf]), ("ts.Add", [.int (8 * 572916)]),
     ("time.Sleep", [.int 1750000]), sdCall, ("rt.readRTUFrame", []),
     ("time.Sleep", [.int 146666496]), ("discard", [.sym "rt.link"]), ("time.Now", [])] := by
  decide +kernel

/-- the timeout sentinel: no final `time.Now()`, `lastActivity` stays `ts + n·t1` -/
example : (rtuObs (execW (rtuWorld (demoIO "ErrRequestTimedOut" 10)) 20 gs_rtuTransport_ExecuteRequest
      (rtuEnv demoVals))).2.2.1 = .int (1000 + 8 * 572916) := by decide +kernel

/-- sensitivity (the code before fix c501b6a had ONE deadline): dropping the second
    `SetDeadline` from the generated term changes the skeleton -/
def dropSecondDeadline : GStmt → GStmt
  | .seq (.bindCall ["err"] "rt.link.SetDeadline" _) (.seq (.ite _ .ret .skip)
      r@(.seq (.bindCall ["res", "err"] "rt.readRTUFrame" []) _)) => r
  | .seq a b => .seq a (dropSecondDeadline b)
  | s => s

example : skeleton (execW (rtuWorld (demoIO "nil" 10)) 20 gs_rtuTransport_ExecuteRequest
      (rtuEnv demoVals)).calls = [.sd, .wr, .sl 1750000, .sd, .rd] ∧
    skeleton (execW (rtuWorld (demoIO "nil" 10)) 20 (dropSecondDeadline gs_rtuTransport_ExecuteRequest)
      (rtuEnv demoVals)).calls = [.sd, .wr, .sl 1750000, .rd] := by decide +kernel

end Modbus.Props.C07

#print axioms Modbus.Props.C07.C07S_texts
#print axioms Modbus.Props.C07.C07S_sleep_args
#print axioms Modbus.Props.C07.C07S_mbap_calls
#print axioms Modbus.Props.C07.C07S_mbap_skeleton
#print axioms Modbus.Props.C07.C07S_rtu_calls
#print axioms Modbus.Props.C07.opSkeleton_rtuTrace
#print axioms Modbus.Props.C07.C07S_rtu_skeleton
#print axioms Modbus.Props.C07.C07S_resync_class
