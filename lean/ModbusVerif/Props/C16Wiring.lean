import ModbusVerif.Model.Skeleton
import ModbusVerif.Model.Config
import ModbusVerif.Generated.Facts
/-
  C16 (wiring half): what `Open()` actually builds per transport type, decided on the skeleton
  extracted from /repo's current source, equals `Config.openWiring` (which the C16 theorems relate to
  the documented scheme table).
-/
namespace Modbus.Props.C16
open Modbus Skel

set_option maxRecDepth 100000

/-- observed wiring of one `Open()` case when every error test is negative -/
def observed (kind : String) : String × String × String :=
  let tr := exec Gen.skeleton_ModbusClient_Open kind [false, false, false]
  let socket :=
    if called tr "newSerialPortWrapper" then "serial"
    else if called tr "tls.DialWithDialer" then "tls"
    else if calledWith tr "net.DialTimeout" "\"tcp\"" then "tcp"
    else if calledWith tr "net.DialTimeout" "\"udp\"" then "udp"
    else "?"
  let framing :=
    if called tr "newRTUTransport" && !called tr "newTCPTransport" then "rtu"
    else if called tr "newTCPTransport" && !called tr "newRTUTransport" then "mbap"
    else "?"
  let wrapper :=
    if called tr "newUDPSockWrapper" then "udpSockWrapper"
    else if called tr "newTLSSockWrapper" then "tlsSockWrapper"
    else if called tr "newSerialPortWrapper" then "serialPortWrapper"
    else ""
  (socket, framing, wrapper)

def modelWiring (k : Client.Kind) : String × String × String :=
  let w := Config.openWiring k
  (w.1.name, w.2.1.name, w.2.2)

theorem C16_open_wiring_from_source :
    observed "1" = modelWiring .rtu ∧ observed "2" = modelWiring .rtuOverTcp ∧
    observed "3" = modelWiring .rtuOverUdp ∧ observed "4" = modelWiring .tcp ∧
    observed "5" = modelWiring .tcpTls ∧ observed "6" = modelWiring .udp := by decide +kernel

/-- every case installs a transport only when no error test fired, and an unknown type installs none -/
theorem C16_open_installs_transport_iff_no_error :
    (∀ k ∈ ["1", "2", "3", "4", "6"], ∀ e : Bool,
        assigned (exec Gen.skeleton_ModbusClient_Open k [e]) "mc.transport" = !e) ∧
    assigned (exec Gen.skeleton_ModbusClient_Open "7" []) "mc.transport" = false := by decide +kernel

#print axioms C16_open_wiring_from_source
#print axioms C16_open_installs_transport_iff_no_error
end Modbus.Props.C16
