import ModbusVerif.Lemmas.ClientReqLemmas
/-
  Property C01.

  "Every client read/write call either transmits exactly one request frame whose bytes equal the
   Modbus encoding of that operation (function code, big-endian address and quantity, byte count,
   data laid out per the configured byte/word order, configured unit id, wrapped in the MBAP
   header or RTU CRC of the selected transport), or fails with the unexpected-parameters error
   without transmitting a single byte. Local rejection happens exactly when the arguments break
   protocol limits: a quantity of zero or above the per-function maximum (2000 coils read,
   1968 coils written, 125 registers read, 123 registers written), an end address beyond 0xFFFF,
   or an unknown register type."

  Model under test: `Modbus.Client` (`ModbusVerif/Model/Client.lean`): `Op.core` (typed wrapper),
  `Core.request` (local checks + PDU), `frameFor` (MBAP / RTU framing), `Op.requestFrame`,
  `Op.run`. `none` stands for a Go run-time panic.

  Specification: `Modbus.Spec.request` (`ModbusVerif/Spec/Request.lean`), written from the Modbus
  application protocol; it shares only the argument *types* with the model.

  Quantifiers: all 30 constructors of `Client.Op` (every public read/write method), every 16-bit
  address and quantity, every argument list of every length (`List`, unbounded; lengths ≥ 65536
  and register totals that overflow 16 bits included), every value, every unit id, every
  transaction counter, all six transports; byte order and word order range over the two values
  `SetEncoding` can store (`≠ .invalid`).

  Only statements live here; the proofs are in `Lemmas/ClientReqLemmas.lean`.
-/
namespace Modbus.Props.C01
open Modbus Modbus.Client Modbus.ClientReq

/-! ## 1. what would be put on the wire is exactly the specified request -/

/-- For every operation the wrapper never panics, and either refuses locally or produces exactly
    the frame of the specification -/
theorem C01_emits_spec (op : Op) (cfg : Cfg) (st : TState)
    (he : cfg.endian ≠ .invalid) (hw : cfg.word ≠ .invalid) :
    op.requestFrame cfg st = some (Spec.request cfg st op) :=
  requestFrame_eq_spec op cfg st he hw

/-! ## 2. local rejection happens exactly when the protocol limits are broken -/

theorem C01_reject_iff (op : Op) (cfg : Cfg) (st : TState)
    (he : cfg.endian ≠ .invalid) (hw : cfg.word ≠ .invalid) :
    op.requestFrame cfg st = some (.error .unexpectedParameters) ↔ Spec.breaksLimits op = true := by
  rw [C01_emits_spec op cfg st he hw, Option.some.injEq, request_error_iff]
  exact ⟨fun h => h.1, fun h => ⟨h, rfl⟩⟩

/-- no other error can come out of the request side -/
theorem C01_reject_only_unexpected (op : Op) (cfg : Cfg) (st : TState)
    (he : cfg.endian ≠ .invalid) (hw : cfg.word ≠ .invalid) (e : Err)
    (h : op.requestFrame cfg st = some (.error e)) : e = .unexpectedParameters := by
  rw [C01_emits_spec op cfg st he hw, Option.some.injEq, request_error_iff] at h
  exact h.2

/-- accepted calls: the frame is the wrapped PDU of the specification -/
theorem C01_accept_iff (op : Op) (cfg : Cfg) (st : TState)
    (he : cfg.endian ≠ .invalid) (hw : cfg.word ≠ .invalid) :
    (∃ f, op.requestFrame cfg st = some (.ok f)) ↔ Spec.breaksLimits op = false := by
  rw [C01_emits_spec op cfg st he hw]
  unfold Spec.request
  cases Spec.breaksLimits op <;> simp

/-- the limits, spelled out (all arithmetic in `Nat`, nothing wraps) -/
theorem C01_limits_spelled_out (op : Op) :
    Spec.breaksLimits op = true ↔
      (Spec.items op = 0 ∨ Spec.items op > Spec.limit op
        ∨ (Spec.addr op).toNat + Spec.items op - 1 > 0xFFFF ∨ Spec.regTypeOk op = false) := by
  simp [Spec.breaksLimits, or_assoc]

/-! ## 3. a whole call writes that frame exactly once, or nothing at all -/

/-- whatever the peer answers (`arrivals`, ending `e`): either nothing is written, the call
    reports unexpected-parameters and the transport state (transaction counter, pending input) is
    untouched; or the single frame written is the frame of the specification -/
theorem C01_one_write_or_none (op : Op) (cfg : Cfg) (st : TState)
    (he : cfg.endian ≠ .invalid) (hw : cfg.word ≠ .invalid) (arrivals : Bytes) (e : Ending) :
    let r := op.run cfg st arrivals e
    (r.written = none ∧ r.result = some (.error .unexpectedParameters) ∧ r.state = st) ∨
    (∃ f, r.written = some f ∧ Spec.request cfg st op = .ok f) :=
  run_one_write_or_none op cfg st he hw arrivals e

/-- the two alternatives are decided by the limits alone -/
theorem C01_written_iff (op : Op) (cfg : Cfg) (st : TState)
    (he : cfg.endian ≠ .invalid) (hw : cfg.word ≠ .invalid) (arrivals : Bytes) (e : Ending) :
    (op.run cfg st arrivals e).written = none ↔ Spec.breaksLimits op = true :=
  run_written_none_iff op cfg st he hw arrivals e

/-! ## 4. no field of an accepted request wraps around -/

/-- on the MBAP transports the payload is at most 251 bytes (≤ 252), the frame is
    8 + payload bytes long and its 16-bit length field is exactly 2 + payload length, i.e. the
    number of bytes that follow it -/
theorem C01_len_field_exact (op : Op) (cfg : Cfg) (st : TState)
    (he : cfg.endian ≠ .invalid) (hw : cfg.word ≠ .invalid)
    (hk : cfg.kind = .tcp ∨ cfg.kind = .tcpTls ∨ cfg.kind = .udp)
    (hacc : Spec.breaksLimits op = false) :
    let pl := (Spec.pdu cfg op).2
    pl.length ≤ 252 ∧
    ∃ f, op.requestFrame cfg st = some (.ok f) ∧ f.length = 8 + pl.length ∧
      (mk16 (f.getD 4 0) (f.getD 5 0)).toNat = 2 + pl.length ∧
      (mk16 (f.getD 4 0) (f.getD 5 0)).toNat = f.length - 6 :=
  len_field_exact op cfg st he hw hk hacc

/-- the quantity field holds the mathematical item count; for the multiple writes (fc 15 / 16)
    the byte-count byte equals the data length (≤ 246) and the data follow it -/
theorem C01_count_fields_exact (op : Op) (cfg : Cfg) (hacc : Spec.breaksLimits op = false) :
    (u16OfNat (Spec.items op)).toNat = Spec.items op ∧
    (Spec.data cfg op).length ≤ 246 ∧
    (byteOfNat (Spec.data cfg op).length).toNat = (Spec.data cfg op).length ∧
    ((Spec.fn op = .writeMultipleCoils ∨ Spec.fn op = .writeMultipleRegisters) →
      (Spec.pdu cfg op).2 = be16 (Spec.addr op) ++ be16 (u16OfNat (Spec.items op))
        ++ [byteOfNat (Spec.data cfg op).length] ++ Spec.data cfg op) :=
  count_fields_exact op cfg hacc

/-- every accepted frame fits the transport's maximum (260 bytes MBAP, 256 bytes RTU) -/
theorem C01_frame_fits (op : Op) (cfg : Cfg) (st : TState) (f : Bytes)
    (h : Spec.request cfg st op = .ok f) :
    f.length ≤ (if cfg.kind = .tcp ∨ cfg.kind = .tcpTls ∨ cfg.kind = .udp then 260 else 256) :=
  frame_fits op cfg st f h

/-! ## 5. non-vacuity -/

def exRtu : Cfg := { kind := .rtuOverTcp, unitId := 0x11, endian := .little, word := .highFirst }
def exTcp : Cfg := { kind := .tcp, unitId := 0x11, endian := .big, word := .lowFirst }
def exSt : TState := { lastTxn := 7, pending := [] }

-- 65539 coils: the 16-bit quantity would be 3, the call is nevertheless rejected
example : u16OfNat 65539 = 3 := by decide
example : Spec.breaksLimits (.writeCoils 0 (List.replicate 65539 true)) = true := by
  simp only [Spec.breaksLimits, Spec.items, Spec.limit, Spec.fn, Spec.Fn.limit, Spec.addr,
      Spec.regTypeOk, Spec.regType?, List.length_replicate]; decide
example : (Op.writeCoils 0 (List.replicate 65539 true)).requestFrame exTcp exSt
    = some (.error .unexpectedParameters) :=
  (C01_reject_iff _ exTcp exSt (by decide) (by decide)).mpr
    (by simp only [Spec.breaksLimits, Spec.items, Spec.limit, Spec.fn, Spec.Fn.limit, Spec.addr,
      Spec.regTypeOk, Spec.regType?, List.length_replicate]; decide)
-- exactly 65536 coils (16-bit quantity 0) and 32768 registers (16-bit byte length 0)
example : Spec.breaksLimits (.writeCoils 0 (List.replicate 65536 true)) = true := by
  simp only [Spec.breaksLimits, Spec.items, Spec.limit, Spec.fn, Spec.Fn.limit, Spec.addr,
      Spec.regTypeOk, Spec.regType?, List.length_replicate]; decide
example : Spec.breaksLimits (.writeRegisters 0 (List.replicate 32769 0)) = true := by
  simp only [Spec.breaksLimits, Spec.items, Spec.limit, Spec.fn, Spec.Fn.limit, Spec.addr,
      Spec.regTypeOk, Spec.regType?, List.length_replicate]; decide
-- 32769 32-bit values = 65538 registers (2 after 16-bit truncation)
example : Spec.breaksLimits (.readUint32s 0 32769 0) = true := by decide
example : (Op.readUint32s 0 32769 0).requestFrame exTcp exSt = some (.error .unexpectedParameters) := by
  decide
example : Spec.breaksLimits (.readUint64s 0 16385 1) = true := by decide
-- limits are tight
example : Spec.breaksLimits (.readCoils 0 2000) = false ∧ Spec.breaksLimits (.readCoils 0 2001) = true := by
  decide
example : Spec.breaksLimits (.readRegisters 0 125 1) = false ∧
    Spec.breaksLimits (.readRegisters 0 126 1) = true := by decide
example : Spec.breaksLimits (.readRegisters 0 1 2) = true := by decide
example : Spec.breaksLimits (.readCoils 0xf830 2000) = false ∧
    Spec.breaksLimits (.readCoils 0xf831 2000) = true := by decide
example : Spec.breaksLimits (.writeUint64 0xfffc 0) = false ∧
    Spec.breaksLimits (.writeUint64 0xfffd 0) = true := by decide
example : Spec.breaksLimits (.writeBytes 0 []) = true ∧ Spec.breaksLimits (.writeBytes 0 [1]) = false := by
  decide
example : Spec.breaksLimits (.writeCoils 0 (List.replicate 1968 true)) = false := by
  simp only [Spec.breaksLimits, Spec.items, Spec.limit, Spec.fn, Spec.Fn.limit, Spec.addr,
      Spec.regTypeOk, Spec.regType?, List.length_replicate]; decide
example : Spec.breaksLimits (.writeCoils 0 (List.replicate 1969 true)) = true := by
  simp only [Spec.breaksLimits, Spec.items, Spec.limit, Spec.fn, Spec.Fn.limit, Spec.addr,
      Spec.regTypeOk, Spec.regType?, List.length_replicate]; decide
/-- a 1968-coil write is accepted by the model -/
example : ∃ f, (Op.writeCoils 0 (List.replicate 1968 true)).requestFrame exTcp exSt = some (.ok f) :=
  (C01_accept_iff _ exTcp exSt (by decide) (by decide)).mpr
    (by simp only [Spec.breaksLimits, Spec.items, Spec.limit, Spec.fn, Spec.Fn.limit, Spec.addr,
      Spec.regTypeOk, Spec.regType?, List.length_replicate]; decide)

-- concrete frames (specification and model, evaluated independently)
example : Spec.request exRtu exSt (.writeUint32s 0x0100 [0x7fc00001#32])
    = .ok [0x11, 0x10, 0x01, 0x00, 0x00, 0x02, 0x04, 0xc0, 0x7f, 0x01, 0x00, 0xa6, 0xb7] := by
  decide +kernel
example : (Op.writeUint32s 0x0100 [0x7fc00001#32]).requestFrame exRtu exSt
    = some (.ok [0x11, 0x10, 0x01, 0x00, 0x00, 0x02, 0x04, 0xc0, 0x7f, 0x01, 0x00, 0xa6, 0xb7]) := by
  decide +kernel
example : Spec.request exTcp exSt (.writeUint32s 0x0100 [0x7fc00001#32])
    = .ok [0x00, 0x08, 0x00, 0x00, 0x00, 0x0b, 0x11, 0x10, 0x01, 0x00, 0x00, 0x02, 0x04,
           0x00, 0x01, 0x7f, 0xc0] := by decide +kernel
example : Spec.request exTcp exSt (.writeBytes 0xfffe [1, 2, 3])
    = .ok [0x00, 0x08, 0x00, 0x00, 0x00, 0x0b, 0x11, 0x10, 0xff, 0xfe, 0x00, 0x02, 0x04, 1, 2, 3, 0] := by
  decide +kernel
example : Spec.request { exTcp with endian := .little } exSt (.writeBytes 0xfffe [1, 2, 3])
    = .ok [0x00, 0x08, 0x00, 0x00, 0x00, 0x0b, 0x11, 0x10, 0xff, 0xfe, 0x00, 0x02, 0x04, 2, 1, 0, 3] := by
  decide +kernel
-- the transaction id wraps from 0xffff to 0
example : Spec.request exTcp { lastTxn := 0xffff, pending := [] } (.readCoils 0xf830 2000)
    = .ok [0x00, 0x00, 0x00, 0x00, 0x00, 0x06, 0x11, 0x01, 0xf8, 0x30, 0x07, 0xd0] := by
  decide +kernel
-- the `≠ .invalid` hypotheses are needed: an out-of-range word order is not the documented layout
example : (Op.writeUint32 0 0x11223344#32).requestFrame { exTcp with endian := .little, word := .invalid } exSt
    ≠ some (Spec.request { exTcp with endian := .little, word := .invalid } exSt (.writeUint32 0 0x11223344#32)) := by
  decide +kernel
-- a whole call: rejected → nothing written, state untouched; accepted → the frame
example : (Op.run (.readRegisters 0 126 0) exTcp exSt [] .timeout)
    = { written := none, result := some (.error .unexpectedParameters), state := exSt } := by
  decide +kernel
example : (Op.run (.readRegisters 0x0010 1 0) exTcp exSt [] .timeout).written
    = some [0x00, 0x08, 0x00, 0x00, 0x00, 0x06, 0x11, 0x03, 0x00, 0x10, 0x00, 0x01] := by
  decide +kernel

end Modbus.Props.C01

#print axioms Modbus.Props.C01.C01_emits_spec
#print axioms Modbus.Props.C01.C01_reject_iff
#print axioms Modbus.Props.C01.C01_reject_only_unexpected
#print axioms Modbus.Props.C01.C01_accept_iff
#print axioms Modbus.Props.C01.C01_limits_spelled_out
#print axioms Modbus.Props.C01.C01_one_write_or_none
#print axioms Modbus.Props.C01.C01_written_iff
#print axioms Modbus.Props.C01.C01_len_field_exact
#print axioms Modbus.Props.C01.C01_count_fields_exact
#print axioms Modbus.Props.C01.C01_frame_fits
