import ModbusVerif.Model.Server
import ModbusVerif.Spec.ServerSpec
import ModbusVerif.Lemmas.ServerLemmas
/-
  Property C13, server half.

  "A cut-off exchange never counts as success and never reaches a handler": if the byte stream
  ends (orderly close, reset or read timeout) anywhere strictly inside a request frame, the
  server makes no handler call for that frame, writes nothing for it, does not panic and ends the
  session with the read error; what it did for the complete frames received before the cut is
  exactly what it does for them alone. If the whole frame arrived before the stream ends, the
  handler of a valid request runs exactly once.

  Quantifiers: every handler, every request PDU that fits a frame (payload ≤ 252; valid or not),
  every cut offset k < |frame|, every ending, every list of complete frames in front.
  Only statements live here; the proofs are in `Lemmas/ServerLemmas.lean` / `Lemmas/MbapLemmas.lean`.
-/
namespace Modbus.Props.C13
open Modbus Modbus.Server

variable {σ : Type}

/-- core statement: a strict prefix of a frame, alone on the connection: the session ends with
    the short-read error of the ending, the handler state is untouched, no call, no response,
    no panic -/
theorem C13_server_cut (h : Handler σ) (st : σ) (txn : U16) (req : Pdu) (e : Ending) (k : Nat)
    (hp : req.payload.length ≤ 252) (hk : k < (Mbap.assemble txn req).length) :
    Server.run h st ((Mbap.assemble txn req).take k) e =
      (st, [.ended (Strm.shortErr (if k < 7 then k else k - 7) e)]) := by
  have hst : (Mbap.assemble txn req).take k ++ (Mbap.assemble txn req).drop k =
      Mbap.assembleProto 0 txn req := by
    rw [List.take_append_drop, Mbap.assemble_eq_assembleProto]
  have ht : (Mbap.assemble txn req).drop k ≠ [] := by
    intro h0
    have := congrArg List.length h0
    simp only [List.length_drop, List.length_nil] at this
    omega
  have hl : ((Mbap.assemble txn req).take k).length = k := by
    rw [List.length_take]; omega
  have := Mbap.readFrame_strict_prefix e hp hst ht
  rw [hl] at this
  exact run_of_err h st this

/-- the error is the read error of the ending: timeout, EOF / unexpected EOF, or i/o error -/
theorem C13_server_cut_err (e : Ending) (n : Nat) :
    Strm.shortErr n e = .ioTimeout ∨ Strm.shortErr n e = .ioEOF ∨
    Strm.shortErr n e = .ioUnexpectedEOF ∨ Strm.shortErr n e = .ioOther := by
  unfold Strm.shortErr
  cases e <;> split <;> simp [Ending.err]

/-- complete frames `pre`, then a frame cut at `k`: exactly the run on `pre` alone, up to the
    error value of the final `ended` event (when the session gets that far at all: if a frame
    of `pre` made the server close the connection, the two runs are equal) -/
theorem C13_server_prefix_exact (h : Handler σ) (st : σ) (pre : List (U16 × Pdu)) (txn : U16)
    (req : Pdu) (e : Ending) (k : Nat) (hpre : ∀ f ∈ pre, f.2.payload.length ≤ 252)
    (hp : req.payload.length ≤ 252) (hk : k < (Mbap.assemble txn req).length) :
    Server.run h st (Server.frames pre ++ (Mbap.assemble txn req).take k) e =
      Server.run h st (Server.frames pre) e ∨
    ∃ st' evs,
      Server.run h st (Server.frames pre ++ (Mbap.assemble txn req).take k) e =
        (st', evs ++ [.ended (Strm.shortErr (if k < 7 then k else k - 7) e)]) ∧
      Server.run h st (Server.frames pre) e = (st', evs ++ [.ended e.err]) ∧
      (∀ ev ∈ evs, ev.isEnded = false) := by
  have := run_frames_tail h e ((Mbap.assemble txn req).take k) [] _ _
    (fun st => C13_server_cut h st txn req e k hp hk) (fun st => run_nil h st e) pre st hpre
  simpa only [List.append_nil] using this

/-- hence: same handler state, same calls, same responses, same close — no handler call and no
    response for the cut frame -/
theorem C13_server_prefix (h : Handler σ) (st : σ) (pre : List (U16 × Pdu)) (txn : U16)
    (req : Pdu) (e : Ending) (k : Nat) (hpre : ∀ f ∈ pre, f.2.payload.length ≤ 252)
    (hp : req.payload.length ≤ 252) (hk : k < (Mbap.assemble txn req).length) :
    (Server.run h st (Server.frames pre ++ (Mbap.assemble txn req).take k) e).1 =
      (Server.run h st (Server.frames pre) e).1 ∧
    (Server.run h st (Server.frames pre ++ (Mbap.assemble txn req).take k) e).2.filter
        (fun ev => !ev.isEnded) =
      (Server.run h st (Server.frames pre) e).2.filter (fun ev => !ev.isEnded) := by
  rcases C13_server_prefix_exact h st pre txn req e k hpre hp hk with heq | ⟨st', evs, ha, hb, _⟩
  · rw [heq]; exact ⟨rfl, rfl⟩
  · rw [ha, hb]
    simp [List.filter_append, Event.isEnded]

/-- and no panic (C03_no_panic holds for every input; restated for the cut stream) -/
theorem C13_server_prefix_no_panic (h : Handler σ) (st : σ) (pre : List (U16 × Pdu)) (txn : U16)
    (req : Pdu) (e : Ending) (k : Nat) :
    Event.panic ∉ (Server.run h st (Server.frames pre ++ (Mbap.assemble txn req).take k) e).2 := by
  intro hm
  exact run_events h (P := fun ev => ev ≠ .panic) (by simp) (by simp) (by simp) (by simp) st _ _ hm rfl

/-- `k = |frame|`: the whole frame of a valid request arrived and then the stream ends:
    the handler is called exactly once — answered (then the session ends with the read error),
    or, finding F8, closed without response when the handler returned `ErrProtocolError` -/
theorem C13_server_full (h : Handler σ) (st : σ) (txn : U16) (req : Pdu) (e : Ending) (r : HReq)
    (hp : req.payload.length ≤ 252)
    (hv : Spec.classify req.unit req.fc req.payload = .valid r) :
    ((Spec.invoke h st r).2 ≠ .error .protocolError ∧
      Server.run h st (Mbap.assemble txn req) e =
        ((Spec.invoke h st r).1,
          [.call r, .respond (Mbap.assemble txn (Spec.replyPdu req r (Spec.invoke h st r).2)),
           .ended e.err])) ∨
    ((Spec.invoke h st r).2 = .error .protocolError ∧
      Server.run h st (Mbap.assemble txn req) e = ((Spec.invoke h st r).1, [.call r, .closed])) := by
  have e0 : Mbap.assemble txn req = Mbap.assemble txn req ++ [] := (List.append_nil _).symm
  by_cases hne : (Spec.invoke h st r).2 = .error .protocolError
  · right
    refine ⟨hne, ?_⟩
    rw [e0, run_frame h st txn req [] e hp, frameStep_f8 h st txn req _ r hv hne]
  · left
    refine ⟨hne, ?_⟩
    rw [e0, run_frame h st txn req [] e hp, frameStep_spec h st txn req _
      (by intro r' hr'; rw [hv] at hr'; injection hr' with hr'; subst hr'; exact hne)]
    simp [Spec.staysOpen, Spec.serverEvents, hv, mbapFrame_eq, run_nil]

/-- exactly one call in both cases -/
theorem C13_server_full_one_call (h : Handler σ) (st : σ) (txn : U16) (req : Pdu) (e : Ending)
    (r : HReq) (hp : req.payload.length ≤ 252)
    (hv : Spec.classify req.unit req.fc req.payload = .valid r) :
    (Server.run h st (Mbap.assemble txn req) e).2.filter Event.isCall = [.call r] := by
  rcases C13_server_full h st txn req e r hp hv with ⟨_, he⟩ | ⟨_, he⟩ <;> rw [he] <;> rfl

/-- a complete frame that is not a valid request: no call -/
theorem C13_server_full_no_call (h : Handler σ) (st : σ) (txn : U16) (req : Pdu) (e : Ending)
    (hp : req.payload.length ≤ 252)
    (hv : ∀ r, Spec.classify req.unit req.fc req.payload ≠ .valid r) :
    (Server.run h st (Mbap.assemble txn req) e).2.filter Event.isCall = [] := by
  have e0 : Mbap.assemble txn req = Mbap.assemble txn req ++ [] := (List.append_nil _).symm
  rw [e0, run_frame h st txn req [] e hp, frameStep_spec h st txn req _
    (by intro r hr; exact absurd hr (hv r))]
  cases hc : Spec.classify req.unit req.fc req.payload with
  | valid r => exact absurd hc (hv r)
  | unsupported => simp [Spec.staysOpen, Spec.serverEvents, hc, run_nil, Event.isCall]
  | addrRange => simp [Spec.staysOpen, Spec.serverEvents, hc, run_nil, Event.isCall]
  | malformed => simp [Spec.staysOpen, Spec.serverEvents, hc, Event.isCall]

/-! ## non-vacuity -/

-- every cut of a read-holding-registers request (12 bytes), three endings: no call
-- (EOF exactly between two reads — before the header or before the body — is a plain EOF)
example : ∀ k ∈ List.range 12,
    Server.run (constHandler (.ok []) (.ok [0x1234, 0x5678])) ()
      ((Mbap.assemble 0x0001 ⟨0x01, 0x03, [0x00, 0x00, 0x00, 0x02]⟩).take k) .eof =
    ((), [.ended (if k = 0 ∨ k = 7 then .ioEOF else .ioUnexpectedEOF)]) := by decide
example : ∀ k ∈ List.range 12,
    Server.run (constHandler (.ok []) (.ok [0x1234, 0x5678])) ()
      ((Mbap.assemble 0x0001 ⟨0x01, 0x03, [0x00, 0x00, 0x00, 0x02]⟩).take k) .timeout =
    ((), [.ended .ioTimeout]) := by decide
example : ∀ k ∈ List.range 12,
    Server.run (constHandler (.ok []) (.ok [0x1234, 0x5678])) ()
      ((Mbap.assemble 0x0001 ⟨0x01, 0x03, [0x00, 0x00, 0x00, 0x02]⟩).take k) .reset =
    ((), [.ended .ioOther]) := by decide
-- the 7-byte header alone: EOF before the first body byte is a plain EOF of the second read
example :
    Server.run (constHandler (.ok []) (.ok [])) ()
      ((Mbap.assemble 0x0001 ⟨0x01, 0x03, [0x00, 0x00, 0x00, 0x02]⟩).take 7) .eof =
    ((), [.ended .ioEOF]) := by decide
-- the full frame: one call, one response
example :
    Server.run (constHandler (.ok []) (.ok [0x1234, 0x5678])) ()
      (Mbap.assemble 0x0001 ⟨0x01, 0x03, [0x00, 0x00, 0x00, 0x02]⟩) .eof =
    ((), [.call (.holding 0x01 0 2 false []),
          .respond [0x00, 0x01, 0x00, 0x00, 0x00, 0x07, 0x01, 0x03, 0x04, 0x12, 0x34, 0x56, 0x78],
          .ended .ioEOF]) := by decide
-- one complete frame, then a cut one: the first is served, the second never reaches the handler
example :
    Server.run (constHandler (.ok []) (.ok [0xBEEF])) ()
      (Server.frames [(0x0001, ⟨0x01, 0x03, [0x00, 0x00, 0x00, 0x01]⟩)] ++
        (Mbap.assemble 0x0002 ⟨0x01, 0x06, [0x00, 0x00, 0x12, 0x34]⟩).take 11) .reset =
    ((), [.call (.holding 0x01 0 1 false []),
          .respond [0x00, 0x01, 0x00, 0x00, 0x00, 0x05, 0x01, 0x03, 0x02, 0xBE, 0xEF],
          .ended .ioOther]) := by decide

#print axioms C13_server_cut
#print axioms C13_server_cut_err
#print axioms C13_server_prefix_exact
#print axioms C13_server_prefix
#print axioms C13_server_prefix_no_panic
#print axioms C13_server_full
#print axioms C13_server_full_one_call
#print axioms C13_server_full_no_call

end Modbus.Props.C13
