import ModbusVerif.Lemmas.GoEvalServerLemmas
import ModbusVerif.Props.C03
/-
  C03, source tie: ONE iteration of the request loop of the CURRENT `handleTransport` (server.go),
  as rendered by the translator (`Gen.gs_ModbusServer_handleTransport`, regenerated on every run), is
  EVALUATED by `Modbus.GoEval` for ALL request PDUs and proved to agree with the hand-written
  specification `Spec.classify` (Spec/ServerSpec.lean) and, through `Server.handle_eq`, with the model
  `Server.handle` about which `Props/C03.lean` proves the property.

  Setting (definitions in `Lemmas/GoEvalServerLemmas.lean`, read its header):
  * environment `reqEnv unit fc payload a0 q0 n`: the leaves of the request returned by
    `t.ReadRequest()`; `req.payload[i]` is bound for i < len(payload) only, the slices
    `req.payload[0:2]`, `req.payload[2:4]` only when they are within the length (a read outside is
    `unk`: stuck = the Go panic); `addr`, `quantity` start with ARBITRARY values `a0`, `q0` (they are
    function-level variables: left-overs of earlier requests); `n` is the length of the slice a
    handler returns.
  * oracle `srvOracle payload hans`: `t.ReadRequest ↦ (req, nil)`; `bytesToUint16(BIG_ENDIAN, s)` ↦
    `mk16` of the two bytes of the slice; the handler methods answer `hans`; `t.Close`,
    `t.WriteResponse` are undefined (the iteration is cut there).
  * observation `sverdict`: `atHandler callee literal unit addr qty` (cut AT the first handler
    call) | `closes err calls` (`t.Close()` reached: no response) | `writes res err calls`
    (`t.WriteResponse(res)` reached) | `other`.

  NOTE on the rendering: `addr = bytesToUint16(BIG_ENDIAN, req.payload[0:2])` is rendered as a
  `bindCall` (callee `bytesToUint16`, arguments `1`, leaf `req.payload[0:2]`), not as a call leaf;
  the decoded value therefore comes from the oracle, keyed by the value of the slice leaf.

  Results (all for EVERY unit id, function code, payload of any length < 2^62, any left-over
  `addr` / `quantity`, any fuel ≥ 80).
  1. `C03S_validation` — the run cut at the handler has exactly the verdict the specification's
     class prescribes (`expectV`):
        valid r      ↦ atHandler (HandleCoils | HandleDiscreteInputs | HandleHoldingRegisters |
                                  HandleInputRegisters as r says) (the request literal of this
                                  function code) unit addr qty        — the model's decoded values
        malformed    ↦ closes ErrProtocolError, no handler call       (connection closed, no response)
        addrRange    ↦ writes (exception literal built from err) with err = ErrIllegalDataAddress
        unsupported  ↦ writes (the exIllegalFunction literal) with err = nil
     `C03S_valid_reaches_handler`, `C03S_reaches_handler_iff`, `C03S_error_symbols`,
     `C03S_handler_calls` (invalid ⇒ no handler call at all; valid ⇒ exactly one, the right one)
     spell this out; `C03S_request_literals` / `C03S_literal_fields` tie the literal passed at each
     of the 8 call sites to the generated field table `Gen.handlerCalls` (the table of
     `C15X_handler_call_table`: UnitId = req.unitId, Addr = addr, Quantity = quantity | 1, IsWrite,
     Args); `C03S_single_write_args` gives the values entering `Args` of function codes 5 and 6;
     `C03S_read_error_returns`: the other exit of the loop head.
  2. `C03S_limits` (the check statements of the generated term, literally, with the constants
     2000 / 125 / 1968 / 123, 4 / 6, the 32-bit range expression, `expectedLen`), `C03S_limits_range_32bit`
     (no wrap), `C03S_limits_expectedLen_*`, `C03S_limits_bytecount` (8-bit compare without
     truncation), and the verdict in plain arithmetic per function code: `C03S_limits_read` (1–4),
     `C03S_limits_fc5`, `C03S_limits_fc6`, `C03S_limits_write_multiple` (15, 16), `C03S_limits_size`,
     `C03S_limits_other_fc`.
  3. `C03S_after_handler` — the handler returned (n items, err): the verdict is `expectA`;
     `C03S_after_handler_model` relates it to `Server.handle` (respond normal / exception / close).
     FINDING F8 is visible and NOT hidden: a handler returning `ErrProtocolError` makes the server
     close the connection without a response (`C03S_F8`, `C03S_F8_counterexample`).
  4. Sensitivity: `C03S_sensitive_7d0`, `C03S_sensitive_trailing`.

  No disagreement between the Go logic and `Spec.classify` exists for any input (that is what
  `C03S_validation` says); the only deviation from `Spec.serverEvents` is F8.

  Limits of what is evaluated (inherent in the rendering):
  * text-keyed leaves: `req.functionCode`, `len(req.payload)`, `req.payload[i]` are leaves of their
    own; the environment states their values as of after `t.ReadRequest()` returned `req` (`req` is
    assigned there and at `req = nil` behind the cut). `len(coils)` / `len(regs)` stand for the length
    of the slice the handler returns (`n`). Only `req.payload[2]`, `[3]`, `[4]` are ever read.
    (`GoEval.staleReads` does not finish on this term in reasonable time under `#eval`; the
    statement above is by inspection of the leaf list: err, nil, req.functionCode,
    len(req.payload), quantity, addr, len(coils), resCount, res.payload[0], req.payload[2..4],
    expectedLen, len(regs), res and the three error constants.)
  * `req.unitId` occurs only inside the request / response literals (`UnitId: req.unitId`): the unit
    id is tied textually (`C03S_literal_fields`), not through a computation.
  * the positive response's payload is built by opaque `append(…)` leaves and `encodeBools` /
    `uint16sToBytes`: its CONTENT is not evaluated here (C05, C06, C17); which literal is written,
    and with which `err`, is.
-/
set_option linter.unusedSimpArgs false
set_option linter.unusedVariables false
set_option maxRecDepth 10000

namespace Modbus.Props.C03
open Modbus Modbus.Gen Modbus.GoEval Modbus.GoEval.Srv Modbus.Server

/-! ## what the specification's class means for a run -/

/-- the Go method a decoded request must go to -/
def calleeOf : HReq → String
  | .coils .. => "ms.handler.HandleCoils"
  | .discrete .. => "ms.handler.HandleDiscreteInputs"
  | .holding .. => "ms.handler.HandleHoldingRegisters"
  | .input .. => "ms.handler.HandleInputRegisters"
def unitOf : HReq → Byte
  | .coils u .. | .discrete u .. | .holding u .. | .input u .. => u
def addrOf : HReq → U16
  | .coils _ a .. | .discrete _ a .. | .holding _ a .. | .input _ a .. => a

/-- the request literal at the call site of function code `fc` -/
def reqLit (fc : Byte) : String :=
  if fc = 1 then litCoilsRead else if fc = 2 then litDiscrete else if fc = 3 then litHoldingRead
  else if fc = 4 then litInput else if fc = 5 then litCoil1 else if fc = 6 then litReg1
  else if fc = 15 then litCoilsWrite else litRegsWrite

/-- verdict of the run cut at the handler, as prescribed by the class of the request -/
def expectV (fc : Byte) : Spec.ReqClass → SVerdict
  | .valid r => .atHandler (calleeOf r) (.sym (reqLit fc)) (.int (unitOf r).toNat) (.int (addrOf r).toNat)
      (.int (Spec.qtyOf r).toNat)
  | .malformed => .closes (.sym "ErrProtocolError") []
  | .addrRange => .writes (.sym litPduException) (.sym "ErrIllegalDataAddress") []
  | .unsupported => .writes (.sym litPduIllegalFn) (.sym "nil") []

/-- verdict of the whole iteration when the handler returns `n` items and the error `herr`
    (`"nil"`: none). The third line of the `valid` case is finding F8. -/
def expectA (fc : Byte) (n : Int) (herr : String) : Spec.ReqClass → SVerdict
  | .valid r =>
    if herr = "nil" then
      if Spec.isWrite r = false ∧ n ≠ (Spec.qtyOf r).toNat then
        .writes (.sym litPduException) (.sym "ErrServerDeviceFailure") [(calleeOf r, [.sym (reqLit fc)])]
      else
        .writes (.sym (if Spec.isWrite r = true then litPduEcho else litPduData)) (.sym "nil")
          [(calleeOf r, [.sym (reqLit fc)])]
    else if herr = "ErrProtocolError" then
      .closes (.sym "ErrProtocolError") [(calleeOf r, [.sym (reqLit fc)])]
    else .writes (.sym litPduException) (.sym herr) [(calleeOf r, [.sym (reqLit fc)])]
  | .malformed => .closes (.sym "ErrProtocolError") []
  | .addrRange => .writes (.sym litPduException) (.sym "ErrIllegalDataAddress") []
  | .unsupported => .writes (.sym litPduIllegalFn) (.sym "nil") []

/-! ## helper lemmas -/

theorem expectV_valid (fc r) : expectV fc (.valid r) = .atHandler (calleeOf r) (.sym (reqLit fc))
    (.int (unitOf r).toNat) (.int (addrOf r).toNat) (.int (Spec.qtyOf r).toNat) := rfl
theorem expectV_malformed (fc) : expectV fc .malformed = .closes (.sym "ErrProtocolError") [] := rfl
theorem expectV_addrRange (fc) : expectV fc .addrRange =
    .writes (.sym litPduException) (.sym "ErrIllegalDataAddress") [] := rfl
theorem expectV_unsupported (fc) : expectV fc .unsupported = .writes (.sym litPduIllegalFn) (.sym "nil") [] := rfl
theorem expectV_ite (fc) (p : Prop) [Decidable p] (x y) :
    expectV fc (if p then x else y) = if p then expectV fc x else expectV fc y := by
  split <;> rfl

theorem expectA_valid (fc n herr r) : expectA fc n herr (.valid r) =
    if herr = "nil" then
      if Spec.isWrite r = false ∧ n ≠ (Spec.qtyOf r).toNat then
        .writes (.sym litPduException) (.sym "ErrServerDeviceFailure") [(calleeOf r, [.sym (reqLit fc)])]
      else
        .writes (.sym (if Spec.isWrite r = true then litPduEcho else litPduData)) (.sym "nil")
          [(calleeOf r, [.sym (reqLit fc)])]
    else if herr = "ErrProtocolError" then
      .closes (.sym "ErrProtocolError") [(calleeOf r, [.sym (reqLit fc)])]
    else .writes (.sym litPduException) (.sym herr) [(calleeOf r, [.sym (reqLit fc)])] := rfl
theorem expectA_malformed (fc n herr) : expectA fc n herr .malformed = .closes (.sym "ErrProtocolError") [] := rfl
theorem expectA_addrRange (fc n herr) : expectA fc n herr .addrRange =
    .writes (.sym litPduException) (.sym "ErrIllegalDataAddress") [] := rfl
theorem expectA_unsupported (fc n herr) : expectA fc n herr .unsupported =
    .writes (.sym litPduIllegalFn) (.sym "nil") [] := rfl
theorem expectA_ite (fc n herr) (p : Prop) [Decidable p] (x y) :
    expectA fc n herr (if p then x else y) = if p then expectA fc n herr x else expectA fc n herr y := by
  split <;> rfl

theorem byte_eq_lit (c : Byte) (k : Nat) (hk : k < 256) : (c = BitVec.ofNat 8 k) ↔ ((c.toNat : Int) = k) := by
  constructor
  · intro h; subst h; simp [BitVec.toNat_ofNat]; omega
  · intro h; apply BitVec.eq_of_toNat_eq; simp [BitVec.toNat_ofNat]; omega
theorem byte_eq_255 (c : Byte) : (c = 255) = ((c.toNat : Int) = 255) := propext (byte_eq_lit c 255 (by decide))
theorem byte_eq_0 (c : Byte) : (c = 0) = ((c.toNat : Int) = 0) := propext (byte_eq_lit c 0 (by decide))

theorem wrapInt_id {x : Int} (h0 : -9223372036854775808 ≤ x) (h1 : x < 9223372036854775808) :
    (x + 9223372036854775808) % 18446744073709551616 - 9223372036854775808 = x := by omega

/-- reduce the specification side of a per-case lemma -/
syntax "spec_side" : tactic
macro_rules
  | `(tactic| spec_side) => `(tactic|
    (try simp only [Spec.classify, BitVec.reduceEq, ↓reduceIte, or_false, false_or, or_true, true_or]
     try simp only [Spec.checkQtyRange, Spec.qtyLimit, BitVec.reduceEq, ↓reduceIte, or_false, false_or,
       or_true, true_or]
     try simp only [expectV_ite, expectA_ite]
     try simp only [expectV_valid, expectV_malformed, expectV_addrRange, expectV_unsupported, expectA_valid,
       expectA_malformed, expectA_addrRange, expectA_unsupported, String.reduceEq, ↓reduceIte]
     try simp only [calleeOf, unitOf, addrOf, Spec.qtyOf, Spec.isWrite, reqLit, BitVec.reduceEq,
      ↓reduceIte, or_false, false_or, or_true, true_or, and_true, true_and, and_false,
      false_and, mk16_eq_word, Bool.or_eq_true, Bool.and_eq_true, decide_eq_true_eq,
      byte_eq_255, byte_eq_0, BitVec.reduceToNat, Int.cast_ofNat_Int, Bool.false_eq_true,
      Bool.true_eq_false, ne_eq]))

/-- close the leaves of the two `if` trees -/
syntax "close_leaves" : tactic
macro_rules
  | `(tactic| close_leaves) => `(tactic|
    (repeat' split
     all_goals first
       | rfl
       | (exfalso; omega)
       | (exfalso; simp only [Spec.coilLen, List.length_cons] at *; omega)
       | (subst_vars; rfl)
       | (exfalso; simp_all; done)
       | (exfalso; simp_all; omega)))

/-! ## per-case runs at fuel 80 -/

/-! ### payload of the wrong size: function codes 1–6 want exactly 4 bytes, 15 / 16 at least 6 -/

theorem run_short4 (fcv : Int) (hfc : fcv = 1 ∨ fcv = 2 ∨ fcv = 3 ∨ fcv = 4 ∨ fcv = 5 ∨ fcv = 6)
    (pl : Bytes) (hans) (u len a0 q0 n : Int) (dyn : Env) (h : ¬ len = 4) :
    sverdict (exec (srvOracle pl hans) 80 gs_ModbusServer_handleTransport (reqEnvL u fcv len a0 q0 n dyn))
      = .closes (.sym "ErrProtocolError") [] := by
  rcases hfc with rfl | rfl | rfl | rfl | rfl | rfl
  · srv_eval [srvArm12, h]
  · srv_eval [srvArm12, h]
  · srv_eval [srvArm34, h]
  · srv_eval [srvArm34, h]
  · srv_eval [srvArm5, h]
  · srv_eval [srvArm6, h]

theorem run_short6 (fcv : Int) (hfc : fcv = 15 ∨ fcv = 16)
    (pl : Bytes) (hans) (u len a0 q0 n : Int) (dyn : Env) (h : len < 6) :
    sverdict (exec (srvOracle pl hans) 80 gs_ModbusServer_handleTransport (reqEnvL u fcv len a0 q0 n dyn))
      = .closes (.sym "ErrProtocolError") [] := by
  rcases hfc with rfl | rfl
  · srv_eval [srvArm15, h]
  · srv_eval [srvArm16, h]

/-- any other function code: the `default` case -/
theorem run_other (fcv : Int) (h1 : ¬ fcv = 1) (h2 : ¬ fcv = 2) (h3 : ¬ fcv = 3) (h4 : ¬ fcv = 4)
    (h5 : ¬ fcv = 5) (h6 : ¬ fcv = 6) (h15 : ¬ fcv = 15) (h16 : ¬ fcv = 16)
    (pl : Bytes) (hans) (u len a0 q0 n : Int) (dyn : Env) :
    sverdict (exec (srvOracle pl hans) 80 gs_ModbusServer_handleTransport (reqEnvL u fcv len a0 q0 n dyn))
      = .writes (.sym litPduIllegalFn) (.sym "nil") [] := by
  srv_eval [srvArmDef, h1, h2, h3, h4, h5, h6, h15, h16]

/-! ### function codes 1–6 with a 4-byte payload -/

/-- prepare a 4-byte case -/
syntax "four_case" " [" Lean.Parser.Tactic.simpLemma,* "]" : tactic
set_option hygiene false in
macro_rules
  | `(tactic| four_case [$ls,*]) => `(tactic|
    (rw [dynEnv_cons4, payloadLeaves_nil]
     srv_eval [$ls,*]
     spec_side
     all_goals (
       have := (Spec.word a b).isLt
       have := (Spec.word c d).isLt
       close_leaves)))

theorem v_fc1 (u a b c d : Byte) (a0 q0 n : Int) :
    sverdict (exec (srvOracle [a, b, c, d] none) 80 gs_ModbusServer_handleTransport
      (reqEnvL u.toNat 1 4 a0 q0 n (dynEnv [a, b, c, d]))) = expectV 1 (Spec.classify u 1 [a, b, c, d]) := by
  four_case [srvArm12]
theorem v_fc2 (u a b c d : Byte) (a0 q0 n : Int) :
    sverdict (exec (srvOracle [a, b, c, d] none) 80 gs_ModbusServer_handleTransport
      (reqEnvL u.toNat 2 4 a0 q0 n (dynEnv [a, b, c, d]))) = expectV 2 (Spec.classify u 2 [a, b, c, d]) := by
  four_case [srvArm12]
theorem v_fc3 (u a b c d : Byte) (a0 q0 n : Int) :
    sverdict (exec (srvOracle [a, b, c, d] none) 80 gs_ModbusServer_handleTransport
      (reqEnvL u.toNat 3 4 a0 q0 n (dynEnv [a, b, c, d]))) = expectV 3 (Spec.classify u 3 [a, b, c, d]) := by
  four_case [srvArm34]
theorem v_fc4 (u a b c d : Byte) (a0 q0 n : Int) :
    sverdict (exec (srvOracle [a, b, c, d] none) 80 gs_ModbusServer_handleTransport
      (reqEnvL u.toNat 4 4 a0 q0 n (dynEnv [a, b, c, d]))) = expectV 4 (Spec.classify u 4 [a, b, c, d]) := by
  four_case [srvArm34]
theorem v_fc5 (u a b c d : Byte) (a0 q0 n : Int) :
    sverdict (exec (srvOracle [a, b, c, d] none) 80 gs_ModbusServer_handleTransport
      (reqEnvL u.toNat 5 4 a0 q0 n (dynEnv [a, b, c, d]))) = expectV 5 (Spec.classify u 5 [a, b, c, d]) := by
  four_case [srvArm5]
theorem v_fc6 (u a b c d : Byte) (a0 q0 n : Int) :
    sverdict (exec (srvOracle [a, b, c, d] none) 80 gs_ModbusServer_handleTransport
      (reqEnvL u.toNat 6 4 a0 q0 n (dynEnv [a, b, c, d]))) = expectV 6 (Spec.classify u 6 [a, b, c, d]) := by
  four_case [srvArm6]

/-- the same with the handler answering: split on what `herr` is first -/
syntax "four_case_a" " [" Lean.Parser.Tactic.simpLemma,* "]" : tactic
set_option hygiene false in
macro_rules
  | `(tactic| four_case_a [$ls,*]) => `(tactic|
    (rw [dynEnv_cons4, payloadLeaves_nil]
     have := (Spec.word a b).isLt
     have := (Spec.word c d).isLt
     by_cases hn : herr = "nil"
     · subst hn
       srv_eval [$ls,*]
       spec_side
       all_goals close_leaves
     · by_cases hp : herr = "ErrProtocolError"
       · subst hp
         srv_eval [$ls,*]
         spec_side
         all_goals close_leaves
       · srv_eval [hn, hp, $ls,*]
         spec_side
         simp only [hn, hp, ↓reduceIte]
         all_goals close_leaves))

theorem a_fc1 (u a b c d : Byte) (a0 q0 n : Int) (herr : String) :
    sverdict (exec (srvOracle [a, b, c, d] (some [.sym "result", .sym herr])) 80 gs_ModbusServer_handleTransport
      (reqEnvL u.toNat 1 4 a0 q0 n (dynEnv [a, b, c, d]))) = expectA 1 n herr (Spec.classify u 1 [a, b, c, d]) := by
  four_case_a [srvArm12]
theorem a_fc2 (u a b c d : Byte) (a0 q0 n : Int) (herr : String) :
    sverdict (exec (srvOracle [a, b, c, d] (some [.sym "result", .sym herr])) 80 gs_ModbusServer_handleTransport
      (reqEnvL u.toNat 2 4 a0 q0 n (dynEnv [a, b, c, d]))) = expectA 2 n herr (Spec.classify u 2 [a, b, c, d]) := by
  four_case_a [srvArm12]
theorem a_fc3 (u a b c d : Byte) (a0 q0 n : Int) (herr : String) :
    sverdict (exec (srvOracle [a, b, c, d] (some [.sym "result", .sym herr])) 80 gs_ModbusServer_handleTransport
      (reqEnvL u.toNat 3 4 a0 q0 n (dynEnv [a, b, c, d]))) = expectA 3 n herr (Spec.classify u 3 [a, b, c, d]) := by
  four_case_a [srvArm34]
theorem a_fc4 (u a b c d : Byte) (a0 q0 n : Int) (herr : String) :
    sverdict (exec (srvOracle [a, b, c, d] (some [.sym "result", .sym herr])) 80 gs_ModbusServer_handleTransport
      (reqEnvL u.toNat 4 4 a0 q0 n (dynEnv [a, b, c, d]))) = expectA 4 n herr (Spec.classify u 4 [a, b, c, d]) := by
  four_case_a [srvArm34]
theorem a_fc5 (u a b c d : Byte) (a0 q0 n : Int) (herr : String) :
    sverdict (exec (srvOracle [a, b, c, d] (some [.sym "result", .sym herr])) 80 gs_ModbusServer_handleTransport
      (reqEnvL u.toNat 5 4 a0 q0 n (dynEnv [a, b, c, d]))) = expectA 5 n herr (Spec.classify u 5 [a, b, c, d]) := by
  four_case_a [srvArm5]
theorem a_fc6 (u a b c d : Byte) (a0 q0 n : Int) (herr : String) :
    sverdict (exec (srvOracle [a, b, c, d] (some [.sym "result", .sym herr])) 80 gs_ModbusServer_handleTransport
      (reqEnvL u.toNat 6 4 a0 q0 n (dynEnv [a, b, c, d]))) = expectA 6 n herr (Spec.classify u 6 [a, b, c, d]) := by
  four_case_a [srvArm6]

/-! ### function codes 15 / 16 with at least 6 bytes of payload -/

syntax "long_case" " [" Lean.Parser.Tactic.simpLemma,* "]" : tactic
set_option hygiene false in
macro_rules
  | `(tactic| long_case [$ls,*]) => `(tactic|
    (rw [dynEnv_cons4, payloadLeaves_cons4]
     have hq := (mk16 c d).isLt
     have h0 : (0:Int) ≤ (↑(mk16 c d).toNat + 9223372036854775808) % 18446744073709551616 - 9223372036854775808 := by
       omega
     have := (Spec.word a b).isLt
     have := (Spec.word c d).isLt
     have := e.isLt
     srv_eval [tdiv_of_nonneg _ h0, tmod_natCast_left, $ls,*]
     spec_side
     try simp only [↓reduceIte, String.reduceEq, $ls,*]
     all_goals (
       try simp (disch := omega) only [wrapInt_id]
       close_leaves)))

theorem v_fc15 (u a b c d e f : Byte) (rest : Bytes) (a0 q0 n : Int) (hr : rest.length < 2 ^ 62) :
    sverdict (exec (srvOracle (a :: b :: c :: d :: e :: f :: rest) none) 80 gs_ModbusServer_handleTransport
      (reqEnvL u.toNat 15 (rest.length + 6) a0 q0 n (dynEnv (a :: b :: c :: d :: e :: f :: rest))))
      = expectV 15 (Spec.classify u 15 (a :: b :: c :: d :: e :: f :: rest)) := by
  long_case [srvArm15]
theorem v_fc16 (u a b c d e f : Byte) (rest : Bytes) (a0 q0 n : Int) (hr : rest.length < 2 ^ 62) :
    sverdict (exec (srvOracle (a :: b :: c :: d :: e :: f :: rest) none) 80 gs_ModbusServer_handleTransport
      (reqEnvL u.toNat 16 (rest.length + 6) a0 q0 n (dynEnv (a :: b :: c :: d :: e :: f :: rest))))
      = expectV 16 (Spec.classify u 16 (a :: b :: c :: d :: e :: f :: rest)) := by
  long_case [srvArm16]
theorem a_fc15_nil (u a b c d e f : Byte) (rest : Bytes) (a0 q0 n : Int) (hr : rest.length < 2 ^ 62) :
    sverdict (exec (srvOracle (a :: b :: c :: d :: e :: f :: rest) (some [.sym "result", .sym "nil"])) 80
      gs_ModbusServer_handleTransport
      (reqEnvL u.toNat 15 (rest.length + 6) a0 q0 n (dynEnv (a :: b :: c :: d :: e :: f :: rest))))
      = expectA 15 n "nil" (Spec.classify u 15 (a :: b :: c :: d :: e :: f :: rest)) := by
  long_case [srvArm15]
theorem a_fc15_pe (u a b c d e f : Byte) (rest : Bytes) (a0 q0 n : Int) (herr : String)
    (hp : herr = "ErrProtocolError") (hr : rest.length < 2 ^ 62) :
    sverdict (exec (srvOracle (a :: b :: c :: d :: e :: f :: rest) (some [.sym "result", .sym herr])) 80
      gs_ModbusServer_handleTransport
      (reqEnvL u.toNat 15 (rest.length + 6) a0 q0 n (dynEnv (a :: b :: c :: d :: e :: f :: rest))))
      = expectA 15 n herr (Spec.classify u 15 (a :: b :: c :: d :: e :: f :: rest)) := by
  have hn : ¬ herr = "nil" := by rw [hp]; decide
  have hp' : (herr = "ErrProtocolError") = True := eq_true hp
  long_case [srvArm15, hn, hp']
theorem a_fc15_err (u a b c d e f : Byte) (rest : Bytes) (a0 q0 n : Int) (herr : String)
    (hn : ¬ herr = "nil") (hp : ¬ herr = "ErrProtocolError") (hr : rest.length < 2 ^ 62) :
    sverdict (exec (srvOracle (a :: b :: c :: d :: e :: f :: rest) (some [.sym "result", .sym herr])) 80
      gs_ModbusServer_handleTransport
      (reqEnvL u.toNat 15 (rest.length + 6) a0 q0 n (dynEnv (a :: b :: c :: d :: e :: f :: rest))))
      = expectA 15 n herr (Spec.classify u 15 (a :: b :: c :: d :: e :: f :: rest)) := by
  long_case [srvArm15, hn, hp]
theorem a_fc15 (u a b c d e f : Byte) (rest : Bytes) (a0 q0 n : Int) (herr : String) (hr : rest.length < 2 ^ 62) :
    sverdict (exec (srvOracle (a :: b :: c :: d :: e :: f :: rest) (some [.sym "result", .sym herr])) 80
      gs_ModbusServer_handleTransport
      (reqEnvL u.toNat 15 (rest.length + 6) a0 q0 n (dynEnv (a :: b :: c :: d :: e :: f :: rest))))
      = expectA 15 n herr (Spec.classify u 15 (a :: b :: c :: d :: e :: f :: rest)) := by
  by_cases hn : herr = "nil"
  · subst hn; exact a_fc15_nil u a b c d e f rest a0 q0 n hr
  · by_cases hp : herr = "ErrProtocolError"
    · exact a_fc15_pe u a b c d e f rest a0 q0 n herr hp hr
    · exact a_fc15_err u a b c d e f rest a0 q0 n herr hn hp hr
theorem a_fc16_nil (u a b c d e f : Byte) (rest : Bytes) (a0 q0 n : Int) (hr : rest.length < 2 ^ 62) :
    sverdict (exec (srvOracle (a :: b :: c :: d :: e :: f :: rest) (some [.sym "result", .sym "nil"])) 80
      gs_ModbusServer_handleTransport
      (reqEnvL u.toNat 16 (rest.length + 6) a0 q0 n (dynEnv (a :: b :: c :: d :: e :: f :: rest))))
      = expectA 16 n "nil" (Spec.classify u 16 (a :: b :: c :: d :: e :: f :: rest)) := by
  long_case [srvArm16]
theorem a_fc16_pe (u a b c d e f : Byte) (rest : Bytes) (a0 q0 n : Int) (herr : String)
    (hp : herr = "ErrProtocolError") (hr : rest.length < 2 ^ 62) :
    sverdict (exec (srvOracle (a :: b :: c :: d :: e :: f :: rest) (some [.sym "result", .sym herr])) 80
      gs_ModbusServer_handleTransport
      (reqEnvL u.toNat 16 (rest.length + 6) a0 q0 n (dynEnv (a :: b :: c :: d :: e :: f :: rest))))
      = expectA 16 n herr (Spec.classify u 16 (a :: b :: c :: d :: e :: f :: rest)) := by
  have hn : ¬ herr = "nil" := by rw [hp]; decide
  have hp' : (herr = "ErrProtocolError") = True := eq_true hp
  long_case [srvArm16, hn, hp']
theorem a_fc16_err (u a b c d e f : Byte) (rest : Bytes) (a0 q0 n : Int) (herr : String)
    (hn : ¬ herr = "nil") (hp : ¬ herr = "ErrProtocolError") (hr : rest.length < 2 ^ 62) :
    sverdict (exec (srvOracle (a :: b :: c :: d :: e :: f :: rest) (some [.sym "result", .sym herr])) 80
      gs_ModbusServer_handleTransport
      (reqEnvL u.toNat 16 (rest.length + 6) a0 q0 n (dynEnv (a :: b :: c :: d :: e :: f :: rest))))
      = expectA 16 n herr (Spec.classify u 16 (a :: b :: c :: d :: e :: f :: rest)) := by
  long_case [srvArm16, hn, hp]
theorem a_fc16 (u a b c d e f : Byte) (rest : Bytes) (a0 q0 n : Int) (herr : String) (hr : rest.length < 2 ^ 62) :
    sverdict (exec (srvOracle (a :: b :: c :: d :: e :: f :: rest) (some [.sym "result", .sym herr])) 80
      gs_ModbusServer_handleTransport
      (reqEnvL u.toNat 16 (rest.length + 6) a0 q0 n (dynEnv (a :: b :: c :: d :: e :: f :: rest))))
      = expectA 16 n herr (Spec.classify u 16 (a :: b :: c :: d :: e :: f :: rest)) := by
  by_cases hn : herr = "nil"
  · subst hn; exact a_fc16_nil u a b c d e f rest a0 q0 n hr
  · by_cases hp : herr = "ErrProtocolError"
    · exact a_fc16_pe u a b c d e f rest a0 q0 n herr hp hr
    · exact a_fc16_err u a b c d e f rest a0 q0 n herr hn hp hr

/-! ## all cases together (fuel 80) -/

theorem len4 (pl : Bytes) (h : pl.length = 4) : ∃ a b c d, pl = [a, b, c, d] := by
  rcases pl with _ | ⟨a, _ | ⟨b, _ | ⟨c, _ | ⟨d, _ | ⟨e, t⟩⟩⟩⟩⟩ <;> simp at h
  exact ⟨a, b, c, d, rfl⟩

theorem len6 (pl : Bytes) (h : 6 ≤ pl.length) : ∃ a b c d e f rest, pl = a :: b :: c :: d :: e :: f :: rest := by
  rcases pl with _ | ⟨a, _ | ⟨b, _ | ⟨c, _ | ⟨d, _ | ⟨e, _ | ⟨f, t⟩⟩⟩⟩⟩⟩ <;> simp at h
  exact ⟨a, b, c, d, e, f, t, rfl⟩

theorem classify_ne4 (u fc : Byte) (pl : Bytes)
    (hfc : fc = 1 ∨ fc = 2 ∨ fc = 3 ∨ fc = 4 ∨ fc = 5 ∨ fc = 6) (h : pl.length ≠ 4) :
    Spec.classify u fc pl = .malformed := by
  rcases pl with _ | ⟨a, _ | ⟨b, _ | ⟨c, _ | ⟨d, _ | ⟨e, t⟩⟩⟩⟩⟩ <;>
  rcases hfc with rfl | rfl | rfl | rfl | rfl | rfl <;>
  first | (exfalso; exact h rfl) | rfl

theorem classify_lt6 (u fc : Byte) (pl : Bytes) (hfc : fc = 15 ∨ fc = 16) (h : pl.length < 6) :
    Spec.classify u fc pl = .malformed := by
  rcases pl with _ | ⟨a, _ | ⟨b, _ | ⟨c, _ | ⟨d, _ | ⟨e, _ | ⟨f, t⟩⟩⟩⟩⟩⟩ <;>
  rcases hfc with rfl | rfl <;>
  first | (exfalso; simp at h; omega) | rfl

theorem byte_toNat_ne (fc : Byte) (k : Nat) (hk : k < 256) (h : fc ≠ BitVec.ofNat 8 k) :
    ¬ ((fc.toNat : Int) = k) := fun h' => h ((byte_eq_lit fc k hk).mpr h')

theorem len_cast6 {α : Type} (a b c d e f : α) (rest : List α) :
    (((a :: b :: c :: d :: e :: f :: rest).length : Nat) : Int) = (rest.length : Int) + 6 := by
  simp only [List.length_cons]; omega

/-- the six 4-byte function codes and the two long ones, or none of them -/
theorem fc_cases (fc : Byte) :
    (fc = 1 ∨ fc = 2 ∨ fc = 3 ∨ fc = 4 ∨ fc = 5 ∨ fc = 6) ∨ (fc = 15 ∨ fc = 16) ∨
    (fc ≠ 1 ∧ fc ≠ 2 ∧ fc ≠ 3 ∧ fc ≠ 4 ∧ fc ≠ 5 ∧ fc ≠ 6 ∧ fc ≠ 15 ∧ fc ≠ 16) := by
  by_cases h1 : fc = 1; · exact .inl (.inl h1)
  by_cases h2 : fc = 2; · exact .inl (.inr (.inl h2))
  by_cases h3 : fc = 3; · exact .inl (.inr (.inr (.inl h3)))
  by_cases h4 : fc = 4; · exact .inl (.inr (.inr (.inr (.inl h4))))
  by_cases h5 : fc = 5; · exact .inl (.inr (.inr (.inr (.inr (.inl h5)))))
  by_cases h6 : fc = 6; · exact .inl (.inr (.inr (.inr (.inr (.inr h6)))))
  by_cases h15 : fc = 15; · exact .inr (.inl (.inl h15))
  by_cases h16 : fc = 16; · exact .inr (.inl (.inr h16))
  exact .inr (.inr ⟨h1, h2, h3, h4, h5, h6, h15, h16⟩)

theorem validation_80 (u fc : Byte) (pl : Bytes) (a0 q0 n : Int) (hp : pl.length < 2 ^ 62) :
    sverdict (exec (srvOracle pl none) 80 gs_ModbusServer_handleTransport (reqEnv u fc pl a0 q0 n))
      = expectV fc (Spec.classify u fc pl) := by
  unfold reqEnv
  rcases fc_cases fc with hfc | hfc | hfc
  · by_cases hl : pl.length = 4
    · obtain ⟨a, b, c, d, rfl⟩ := len4 pl hl
      rcases hfc with rfl | rfl | rfl | rfl | rfl | rfl
      · exact v_fc1 u a b c d a0 q0 n
      · exact v_fc2 u a b c d a0 q0 n
      · exact v_fc3 u a b c d a0 q0 n
      · exact v_fc4 u a b c d a0 q0 n
      · exact v_fc5 u a b c d a0 q0 n
      · exact v_fc6 u a b c d a0 q0 n
    · rw [classify_ne4 u fc pl hfc hl, expectV_malformed]
      refine run_short4 _ ?_ pl none _ _ a0 q0 n _ (by omega)
      rcases hfc with rfl | rfl | rfl | rfl | rfl | rfl <;> simp
  · by_cases hl : pl.length < 6
    · rw [classify_lt6 u fc pl hfc hl, expectV_malformed]
      refine run_short6 _ ?_ pl none _ _ a0 q0 n _ (by omega)
      rcases hfc with rfl | rfl <;> simp
    · obtain ⟨a, b, c, d, e, f, rest, rfl⟩ := len6 pl (by omega)
      have hr : rest.length < 2 ^ 62 := by simp only [List.length_cons] at hp; omega
      rw [len_cast6]
      rcases hfc with rfl | rfl
      · exact v_fc15 u a b c d e f rest a0 q0 n hr
      · exact v_fc16 u a b c d e f rest a0 q0 n hr
  · obtain ⟨h1, h2, h3, h4, h5, h6, h15, h16⟩ := hfc
    rw [(C03_unsupported_iff u fc pl).mpr ⟨h1, h2, h3, h4, h5, h6, h15, h16⟩, expectV_unsupported]
    exact run_other _ (byte_toNat_ne fc 1 (by decide) h1) (byte_toNat_ne fc 2 (by decide) h2)
      (byte_toNat_ne fc 3 (by decide) h3) (byte_toNat_ne fc 4 (by decide) h4)
      (byte_toNat_ne fc 5 (by decide) h5) (byte_toNat_ne fc 6 (by decide) h6)
      (byte_toNat_ne fc 15 (by decide) h15) (byte_toNat_ne fc 16 (by decide) h16) pl none _ _ a0 q0 n _

theorem after_80 (u fc : Byte) (pl : Bytes) (a0 q0 n : Int) (herr : String) (hp : pl.length < 2 ^ 62) :
    sverdict (exec (srvOracle pl (some [.sym "result", .sym herr])) 80 gs_ModbusServer_handleTransport
      (reqEnv u fc pl a0 q0 n)) = expectA fc n herr (Spec.classify u fc pl) := by
  unfold reqEnv
  rcases fc_cases fc with hfc | hfc | hfc
  · by_cases hl : pl.length = 4
    · obtain ⟨a, b, c, d, rfl⟩ := len4 pl hl
      rcases hfc with rfl | rfl | rfl | rfl | rfl | rfl
      · exact a_fc1 u a b c d a0 q0 n herr
      · exact a_fc2 u a b c d a0 q0 n herr
      · exact a_fc3 u a b c d a0 q0 n herr
      · exact a_fc4 u a b c d a0 q0 n herr
      · exact a_fc5 u a b c d a0 q0 n herr
      · exact a_fc6 u a b c d a0 q0 n herr
    · rw [classify_ne4 u fc pl hfc hl, expectA_malformed]
      refine run_short4 _ ?_ pl _ _ _ a0 q0 n _ (by omega)
      rcases hfc with rfl | rfl | rfl | rfl | rfl | rfl <;> simp
  · by_cases hl : pl.length < 6
    · rw [classify_lt6 u fc pl hfc hl, expectA_malformed]
      refine run_short6 _ ?_ pl _ _ _ a0 q0 n _ (by omega)
      rcases hfc with rfl | rfl <;> simp
    · obtain ⟨a, b, c, d, e, f, rest, rfl⟩ := len6 pl (by omega)
      have hr : rest.length < 2 ^ 62 := by simp only [List.length_cons] at hp; omega
      rw [len_cast6]
      rcases hfc with rfl | rfl
      · exact a_fc15 u a b c d e f rest a0 q0 n herr hr
      · exact a_fc16 u a b c d e f rest a0 q0 n herr hr
  · obtain ⟨h1, h2, h3, h4, h5, h6, h15, h16⟩ := hfc
    rw [(C03_unsupported_iff u fc pl).mpr ⟨h1, h2, h3, h4, h5, h6, h15, h16⟩, expectA_unsupported]
    exact run_other _ (byte_toNat_ne fc 1 (by decide) h1) (byte_toNat_ne fc 2 (by decide) h2)
      (byte_toNat_ne fc 3 (by decide) h3) (byte_toNat_ne fc 4 (by decide) h4)
      (byte_toNat_ne fc 5 (by decide) h5) (byte_toNat_ne fc 6 (by decide) h6)
      (byte_toNat_ne fc 15 (by decide) h15) (byte_toNat_ne fc 16 (by decide) h16) pl _ _ _ a0 q0 n _

/-! ## MAIN 1: validation = `Spec.classify`, any fuel ≥ 80 -/

theorem expectV_ne_other (fc c) : expectV fc c ≠ .other := by
  cases c <;> exact fun h => nomatch h

theorem expectA_ne_other (fc n herr c) : expectA fc n herr c ≠ .other := by
  cases c
  · rw [expectA_valid]; repeat' split
    all_goals exact fun h => nomatch h
  all_goals exact fun h => nomatch h

/-- MAIN (validation). For EVERY request PDU (unit id, function code, payload of any length),
    whatever `addr` / `quantity` hold from earlier requests, and every fuel ≥ 80: one iteration of
    the generated `handleTransport`, cut at the handler call, has exactly the verdict the
    specification's class of the PDU prescribes. -/
theorem C03S_validation (unit fc : Byte) (payload : Bytes) (a0 q0 n : Int)
    (hp : payload.length < 2 ^ 62) (fuel : Nat) (hf : 80 ≤ fuel) :
    sverdict (exec (srvOracle payload none) fuel gs_ModbusServer_handleTransport
      (reqEnv unit fc payload a0 q0 n)) = expectV fc (Spec.classify unit fc payload) := by
  have h80 := validation_80 unit fc payload a0 q0 n hp
  rw [exec_mono _ 80 fuel _ _ hf (sverdict_not_outOfFuel _ (by rw [h80]; exact expectV_ne_other _ _))]
  exact h80

/-- MAIN (whole iteration). The same with the handler answering (`n` items, error `herr`). -/
theorem C03S_after_handler (unit fc : Byte) (payload : Bytes) (a0 q0 n : Int) (herr : String)
    (hp : payload.length < 2 ^ 62) (fuel : Nat) (hf : 80 ≤ fuel) :
    sverdict (exec (srvOracle payload (some [.sym "result", .sym herr])) fuel gs_ModbusServer_handleTransport
      (reqEnv unit fc payload a0 q0 n)) = expectA fc n herr (Spec.classify unit fc payload) := by
  have h80 := after_80 unit fc payload a0 q0 n herr hp
  rw [exec_mono _ 80 fuel _ _ hf (sverdict_not_outOfFuel _ (by rw [h80]; exact expectA_ne_other _ _ _ _))]
  exact h80

/-! ### spelled out -/

/-- the unit id in a decoded request is the PDU's -/
theorem classify_unit {u fc : Byte} {pl : Bytes} {r : HReq} (h : Spec.classify u fc pl = .valid r) :
    unitOf r = u := by
  simp only [Spec.classify, Spec.checkQtyRange] at h
  repeat' split at h
  all_goals first
    | (cases h; done)
    | (injection h with h; subst h; rfl)
    | (injection h with h; subst h; repeat' split
       all_goals rfl)

/-- valid requests: the run reaches the RIGHT handler, passing the request literal of this
    function code, with `req.unitId`, `addr` and the `Quantity:` field holding the decoded values -/
theorem C03S_valid_reaches_handler (unit fc : Byte) (payload : Bytes) (a0 q0 n : Int)
    (hp : payload.length < 2 ^ 62) (fuel : Nat) (hf : 80 ≤ fuel) (r : HReq)
    (hv : Spec.classify unit fc payload = .valid r) :
    sverdict (exec (srvOracle payload none) fuel gs_ModbusServer_handleTransport
      (reqEnv unit fc payload a0 q0 n)) =
      .atHandler (calleeOf r) (.sym (reqLit fc)) (.int unit.toNat) (.int (addrOf r).toNat)
        (.int (Spec.qtyOf r).toNat) := by
  rw [C03S_validation unit fc payload a0 q0 n hp fuel hf, hv, expectV_valid, classify_unit hv]

/-- a handler call is reached exactly for the PDUs the specification classifies as valid -/
theorem C03S_reaches_handler_iff (unit fc : Byte) (payload : Bytes) (a0 q0 n : Int)
    (hp : payload.length < 2 ^ 62) (fuel : Nat) (hf : 80 ≤ fuel) :
    (∃ callee arg un ad q, sverdict (exec (srvOracle payload none) fuel gs_ModbusServer_handleTransport
      (reqEnv unit fc payload a0 q0 n)) = .atHandler callee arg un ad q) ↔
    ∃ r, Spec.classify unit fc payload = .valid r := by
  rw [C03S_validation unit fc payload a0 q0 n hp fuel hf]
  cases hc : Spec.classify unit fc payload with
  | valid r => exact ⟨fun _ => ⟨r, rfl⟩, fun _ => ⟨_, _, _, _, _, rfl⟩⟩
  | malformed => exact ⟨fun ⟨_, _, _, _, _, h⟩ => (nomatch h), fun ⟨_, h⟩ => (nomatch h)⟩
  | addrRange => exact ⟨fun ⟨_, _, _, _, _, h⟩ => (nomatch h), fun ⟨_, h⟩ => (nomatch h)⟩
  | unsupported => exact ⟨fun ⟨_, _, _, _, _, h⟩ => (nomatch h), fun ⟨_, h⟩ => (nomatch h)⟩

/-- the Go error symbols and the specification's classes correspond one to one:
      malformed   ⇔ err = ErrProtocolError, `t.Close()`, no response, no handler call
      addrRange   ⇔ err = ErrIllegalDataAddress, the exception response built from `err` is written
      unsupported ⇔ err = nil, the `exIllegalFunction` response of the `default` case is written -/
theorem C03S_error_symbols (unit fc : Byte) (payload : Bytes) (a0 q0 n : Int)
    (hp : payload.length < 2 ^ 62) (fuel : Nat) (hf : 80 ≤ fuel) :
    let v := sverdict (exec (srvOracle payload none) fuel gs_ModbusServer_handleTransport
      (reqEnv unit fc payload a0 q0 n))
    (Spec.classify unit fc payload = .malformed ↔ v = .closes (.sym "ErrProtocolError") []) ∧
    (Spec.classify unit fc payload = .addrRange ↔
      v = .writes (.sym litPduException) (.sym "ErrIllegalDataAddress") []) ∧
    (Spec.classify unit fc payload = .unsupported ↔ v = .writes (.sym litPduIllegalFn) (.sym "nil") []) := by
  intro v
  have hv : v = expectV fc (Spec.classify unit fc payload) := C03S_validation unit fc payload a0 q0 n hp fuel hf
  rw [hv]
  cases Spec.classify unit fc payload <;> simp [expectV]

/-- the handler calls a finished iteration performed -/
def hcOf : SVerdict → Calls
  | .closes _ c => c
  | .writes _ _ c => c
  | _ => []

theorem hcOf_closes (e c) : hcOf (.closes e c) = c := rfl
theorem hcOf_writes (r e c) : hcOf (.writes r e c) = c := rfl
theorem hcOf_ite (p : Prop) [Decidable p] (x y : SVerdict) :
    hcOf (if p then x else y) = if p then hcOf x else hcOf y := by split <;> rfl

/-- invalid requests never reach a handler: with the handlers answering, the whole iteration
    performs NO handler call unless the PDU is valid, and then exactly one, of the right handler -/
theorem C03S_handler_calls (unit fc : Byte) (payload : Bytes) (a0 q0 n : Int) (herr : String)
    (hp : payload.length < 2 ^ 62) (fuel : Nat) (hf : 80 ≤ fuel) :
    hcOf (sverdict (exec (srvOracle payload (some [.sym "result", .sym herr])) fuel
      gs_ModbusServer_handleTransport (reqEnv unit fc payload a0 q0 n))) =
    match Spec.classify unit fc payload with
    | .valid r => [(calleeOf r, [.sym (reqLit fc)])]
    | _ => [] := by
  rw [C03S_after_handler unit fc payload a0 q0 n herr hp fuel hf]
  cases Spec.classify unit fc payload with
  | valid r => simp only [expectA_valid, hcOf_ite, hcOf_closes, hcOf_writes, ite_self]
  | malformed => rfl
  | addrRange => rfl
  | unsupported => rfl


/-- the other exit of the loop head: `t.ReadRequest()` fails (any non-nil error `e`): the function
    returns at once; nothing is decoded, no handler is called, nothing is written -/
theorem C03S_read_error_returns (e : String) (he : e ≠ "nil") (env : Env) (fuel : Nat) (hf : 8 ≤ fuel) :
    let r := exec (fun f _ => if f = "t.ReadRequest" then some [.sym "nil", .sym e] else none) fuel
      gs_ModbusServer_handleTransport (("nil", .sym "nil") :: env)
    r.how = .returned ∧ r.calls = [("t.ReadRequest", [])] := by
  intro r
  have h8 : exec (fun f _ => if f = "t.ReadRequest" then some [.sym "nil", .sym e] else none) 8
      gs_ModbusServer_handleTransport (("nil", .sym "nil") :: env) =
      ⟨Env.write (Env.write (("nil", .sym "nil") :: env) "req" (.sym "nil")) "err" (.sym e), .returned,
        [("t.ReadRequest", [])]⟩ := by
    rw [srv_frame]
    go_eval [frameWith, he, ne_eq, not_false_eq_true]
  have : r = _ := exec_mono _ 8 fuel _ _ hf (by rw [h8]; exact fun h => nomatch h)
  rw [this, h8]
  exact ⟨rfl, rfl⟩
/-! ## the request literals and the generated field table -/

/-- the text of a composite literal rebuilt from its field table -/
def litText (ty : String) (fields : List (String × String)) : String :=
  "&" ++ ty ++ "{ " ++ String.join (fields.map (fun f => f.1 ++ ": " ++ f.2 ++ ", ")) ++ "}"

/-- handler `bindCall`s of a statement in program order: callee and the text of its single argument leaf -/
def handlerSites (s : GStmt) : List (String × Option String) :=
  ((bindCalls s).filter (fun c => hasSub c.2.1 "ms.handler.")).map
    (fun c => (c.2.1, match c.2.2 with | [e] => leafText? e | _ => none))

set_option maxRecDepth 100000 in
/-- the eight handler call sites of the generated term (program order: fc 1, 2, 5, 15, 3, 4, 6, 16): the
    callee and the request literal passed; and each literal is, field for field, the row of the
    generated table `Gen.handlerCalls` (about which `C15X_handler_call_table` and
    `C15X_role_reaches_every_handler` state: UnitId = req.unitId, Addr = addr, Quantity = quantity | 1,
    IsWrite, Args) -/
theorem C03S_request_literals :
    handlerSites gs_ModbusServer_handleTransport =
      [("ms.handler.HandleCoils", some litCoilsRead), ("ms.handler.HandleDiscreteInputs", some litDiscrete),
       ("ms.handler.HandleCoils", some litCoil1), ("ms.handler.HandleCoils", some litCoilsWrite),
       ("ms.handler.HandleHoldingRegisters", some litHoldingRead),
       ("ms.handler.HandleInputRegisters", some litInput),
       ("ms.handler.HandleHoldingRegisters", some litReg1),
       ("ms.handler.HandleHoldingRegisters", some litRegsWrite)] ∧
    handlerCalls.map (fun c => ("ms.handler." ++ c.2.1, some (litText c.2.2.1 c.2.2.2))) =
      handlerSites gs_ModbusServer_handleTransport ∧
    [reqLit 1, reqLit 2, reqLit 5, reqLit 15, reqLit 3, reqLit 4, reqLit 6, reqLit 16] =
      [litCoilsRead, litDiscrete, litCoil1, litCoilsWrite, litHoldingRead, litInput, litReg1, litRegsWrite] := by
  decide +kernel

set_option maxRecDepth 100000 in
/-- the fields of each request literal, read off the generated table row it is built from
    (`C03S_request_literals`: literal = `litText` of the row): unit id, address, quantity, write flag,
    arguments. The same rows are the subject of `C15X_handler_call_table` (Props/C15Ext.lean) and
    `C15X_role_reaches_every_handler`. -/
theorem C03S_literal_fields :
    (handlerCalls.map (fun c => (litText c.2.2.1 c.2.2.2, c.2.2.2.lookup "UnitId", c.2.2.2.lookup "Addr",
      c.2.2.2.lookup "Quantity", c.2.2.2.lookup "IsWrite", c.2.2.2.lookup "Args")) ==
    [(litCoilsRead, some "req.unitId", some "addr", some "quantity", some "false", some "nil"),
     (litDiscrete, some "req.unitId", some "addr", some "quantity", none, none),
     (litCoil1, some "req.unitId", some "addr", some "1", some "true", some "[]bool{(req.payload[2] == 0xff)}"),
     (litCoilsWrite, some "req.unitId", some "addr", some "quantity", some "true",
        some "decodeBools(quantity, req.payload[5:])"),
     (litHoldingRead, some "req.unitId", some "addr", some "quantity", some "false", some "nil"),
     (litInput, some "req.unitId", some "addr", some "quantity", none, none),
     (litReg1, some "req.unitId", some "addr", some "1", some "true", some "[]uint16{value}"),
     (litRegsWrite, some "req.unitId", some "addr", some "quantity", some "true",
        some "bytesToUint16s(BIG_ENDIAN, req.payload[5:])")]) = true := by
  decide +kernel

/-- observation for the `Args` of function code 5 / 6: how the run ended and one leaf -/
def obsLeaf (k : String) (r : Res) : End × Val := (r.how, Env.read r.env k)
theorem obsLeaf_ite (k) (p : Prop) [Decidable p] (x y : Res) :
    obsLeaf k (if p then x else y) = if p then obsLeaf k x else obsLeaf k y := by split <;> rfl
theorem obsLeaf_mk (k env how cs) : obsLeaf k ⟨env, how, cs⟩ = (how, Env.read env k) := rfl

/-- function codes 5 and 6: the values entering `Args`. At the call,
    fc 5: `req.payload[2]` is the third payload byte, which is 0xFF or 0x00 (else the run closes), so
          `[]bool{(req.payload[2] == 0xff)}` is the model's `[v1 == 0xFF]`;
    fc 6: the local `value` (argument `[]uint16{value}`) is `mk16` of bytes 2, 3: the model's `[word v1 v0]`. -/
theorem C03S_single_write_args (unit a1 a0 v1 v0 : Byte) (a0' q0 n : Int) :
    obsLeaf "req.payload[2]" (exec (srvOracle [a1, a0, v1, v0] none) 80 gs_ModbusServer_handleTransport
        (reqEnv unit 5 [a1, a0, v1, v0] a0' q0 n)) =
      (if (v1 = 0xFF ∨ v1 = 0x00) ∧ v0 = 0x00 then
         (.stoppedAt "ms.handler.HandleCoils" [.sym litCoil1], .int v1.toNat)
       else (.stoppedAt "t.Close" [], .int v1.toNat)) ∧
    obsLeaf "value" (exec (srvOracle [a1, a0, v1, v0] none) 80 gs_ModbusServer_handleTransport
        (reqEnv unit 6 [a1, a0, v1, v0] a0' q0 n)) =
      (.stoppedAt "ms.handler.HandleHoldingRegisters" [.sym litReg1], .int (mk16 v1 v0).toNat) := by
  unfold reqEnv
  simp only [BitVec.reduceToNat, List.length_cons, List.length_nil, Nat.reduceAdd, Int.cast_ofNat_Int]
  rw [dynEnv_cons4, payloadLeaves_nil]
  constructor
  · srv_eval [srvArm5, obsLeaf_ite, obsLeaf_mk]
    simp only [byte_eq_255, byte_eq_0, Bool.or_eq_true, Bool.and_eq_true, decide_eq_true_eq]
    repeat' split
    all_goals first | rfl | (exfalso; omega)
  · srv_eval [srvArm6, obsLeaf_ite, obsLeaf_mk]

/-! ## MAIN 2: the numeric limits -/

/-- `quantity > lim || quantity == 0` (16-bit) -/
def qtyCheckCond (lim : Int) : GExpr :=
  .or (.cmp ">" (.var "quantity" .u16) (.lit lim .u16)) (.cmp "==" (.var "quantity" .u16) (.lit 0 .u16))
/-- `uint32(addr) + uint32(quantity) - 1 > 0xffff` (32-bit) -/
def rangeCheckCond : GExpr :=
  .cmp ">" (.bin "-" .u32 (.bin "+" .u32 (.conv .u32 (.var "addr" .u16)) (.conv .u32 (.var "quantity" .u16)))
    (.lit 1 .u32)) (.lit 65535 .u32)
/-- `if c { err = ErrProtocolError; break }` -/
def protoGuard (c : GExpr) : GStmt :=
  .ite c (.seq (.assign "err" (.var "ErrProtocolError" .other)) .brk) .skip
/-- `if c { err = ErrIllegalDataAddress; break }` -/
def addrGuard (c : GExpr) : GStmt :=
  .ite c (.seq (.assign "err" (.var "ErrIllegalDataAddress" .other)) .brk) .skip

/-- the checks as they stand in the generated term, statement by statement (arms 1/2, 3/4, 15, 16:
    0 payload length, 3 quantity limits, 4 address range; arm 15: 5–6 expectedLen, 7 byte count,
    8 data length; arm 16: 5 expectedLen, 6 byte count, 7 data length), and the specification's
    limits: the constants are the same -/
theorem C03S_limits :
    nthS 0 srvArm12 = protoGuard (.cmp "!=" (.var "len(req.payload)" .int) (.lit 4 .int)) ∧
    nthS 0 srvArm34 = protoGuard (.cmp "!=" (.var "len(req.payload)" .int) (.lit 4 .int)) ∧
    nthS 0 srvArm5 = protoGuard (.cmp "!=" (.var "len(req.payload)" .int) (.lit 4 .int)) ∧
    nthS 0 srvArm6 = protoGuard (.cmp "!=" (.var "len(req.payload)" .int) (.lit 4 .int)) ∧
    nthS 0 srvArm15 = protoGuard (.cmp "<" (.var "len(req.payload)" .int) (.lit 6 .int)) ∧
    nthS 0 srvArm16 = protoGuard (.cmp "<" (.var "len(req.payload)" .int) (.lit 6 .int)) ∧
    nthS 3 srvArm12 = protoGuard (qtyCheckCond 2000) ∧ nthS 3 srvArm34 = protoGuard (qtyCheckCond 125) ∧
    nthS 3 srvArm15 = protoGuard (qtyCheckCond 1968) ∧ nthS 3 srvArm16 = protoGuard (qtyCheckCond 123) ∧
    nthS 4 srvArm12 = addrGuard rangeCheckCond ∧ nthS 4 srvArm34 = addrGuard rangeCheckCond ∧
    nthS 4 srvArm15 = addrGuard rangeCheckCond ∧ nthS 4 srvArm16 = addrGuard rangeCheckCond ∧
    nthS 5 srvArm15 = .assign "expectedLen" (.bin "/" .int (.conv .int (.var "quantity" .u16)) (.lit 8 .int)) ∧
    nthS 6 srvArm15 = .ite (.cmp "!=" (.bin "%" .u16 (.var "quantity" .u16) (.lit 8 .u16)) (.lit 0 .u16))
      (.assign "expectedLen" (.bin "+" .int (.var "expectedLen" .int) (.lit 1 .int))) .skip ∧
    nthS 7 srvArm15 = protoGuard (.cmp "!=" (.var "req.payload[4]" .u8) (.conv .u8 (.var "expectedLen" .int))) ∧
    nthS 8 srvArm15 = protoGuard (.cmp "!=" (.bin "-" .int (.var "len(req.payload)" .int) (.lit 5 .int))
      (.var "expectedLen" .int)) ∧
    nthS 5 srvArm16 = .assign "expectedLen" (.bin "*" .int (.conv .int (.var "quantity" .u16)) (.lit 2 .int)) ∧
    nthS 6 srvArm16 = protoGuard (.cmp "!=" (.var "req.payload[4]" .u8) (.conv .u8 (.var "expectedLen" .int))) ∧
    nthS 7 srvArm16 = protoGuard (.cmp "!=" (.bin "-" .int (.var "len(req.payload)" .int) (.lit 5 .int))
      (.var "expectedLen" .int)) ∧
    Spec.qtyLimit 1 = 2000 ∧ Spec.qtyLimit 2 = 2000 ∧ Spec.qtyLimit 3 = 125 ∧ Spec.qtyLimit 4 = 125 ∧
    Spec.qtyLimit 15 = 1968 ∧ Spec.qtyLimit 16 = 123 ∧ (0x7b0 : Nat) = 1968 ∧ (0x7b : Nat) = 123 := by
  refine ⟨rfl, rfl, rfl, rfl, rfl, rfl, rfl, rfl, rfl, rfl, rfl, rfl, rfl, rfl, rfl, rfl, rfl, rfl, rfl, rfl, rfl,
    rfl, rfl, rfl, rfl, rfl, rfl, rfl, rfl⟩

/-- the address-range check is evaluated in 32 bits and does not wrap: for every 16-bit address and
    every quantity ≥ 1 it is the mathematical `addr + quantity - 1 > 0xFFFF` … -/
theorem C03S_limits_range_32bit (a q : Nat) (ha : a < 65536) (hq : q < 65536) (hq1 : 1 ≤ q) :
    eval [("addr", .int a), ("quantity", .int q)] rangeCheckCond = .ofBool (decide (a + q - 1 > 0xFFFF)) := by
  go_eval [rangeCheckCond]
  simp only [ofBool_inj, decide_eq_decide]
  omega

/-- … whereas for quantity 0 and address 0 the 32-bit subtraction wraps to 0xFFFFFFFF: this is why the
    `quantity == 0` test comes first (it does, statement 3 before statement 4) -/
theorem C03S_limits_range_zero_qty :
    eval [("addr", .int 0), ("quantity", .int 0)] rangeCheckCond = .ofBool true := by decide

/-- and in 16 bits (the conversions dropped) the check could never fire: the evaluator tells the
    two apart -/
theorem C03S_limits_range_16bit_variant (a q : Nat) (ha : a < 65536) (hq : q < 65536) :
    eval [("addr", .int a), ("quantity", .int q)]
      (.cmp ">" (.bin "-" .u16 (.bin "+" .u16 (.var "addr" .u16) (.var "quantity" .u16)) (.lit 1 .u16))
        (.lit 65535 .u16)) = .ofBool false := by
  go_eval []
  simp only [ofBool_inj, decide_eq_false_iff_not]
  omega

/-- value of `expectedLen` after a run -/
def expLenOf (r : Res) : Val := Env.read r.env "expectedLen"
theorem expLenOf_ite (p : Prop) [Decidable p] (x y : Res) :
    expLenOf (if p then x else y) = if p then expLenOf x else expLenOf y := by split <;> rfl
theorem expLenOf_mk (env how cs) : expLenOf ⟨env, how, cs⟩ = Env.read env "expectedLen" := rfl

/-- fc 15: `expectedLen` as computed by statements 5–6 is `quantity/8`, plus one when
    `quantity%8 != 0`: the specification's `coilLen` -/
theorem C03S_limits_expectedLen_fc15 (q : Nat) (hq : q < 65536) :
    expLenOf (exec (fun _ _ => none) 8 (.seq (nthS 5 srvArm15) (nthS 6 srvArm15)) [("quantity", .int q)])
      = .int ((q / 8 + if q % 8 ≠ 0 then 1 else 0 : Nat) : Int) ∧
    (q / 8 + if q % 8 ≠ 0 then 1 else 0) = Spec.coilLen q := by
  constructor
  · rw [C03S_limits.2.2.2.2.2.2.2.2.2.2.2.2.2.2.1, C03S_limits.2.2.2.2.2.2.2.2.2.2.2.2.2.2.2.1]
    have h0 : (0:Int) ≤ ((q:Int) + 9223372036854775808) % 18446744073709551616 - 9223372036854775808 := by omega
    go_eval [tdiv_of_nonneg _ h0, tmod_natCast_left, Int.reduceEq, Int.reduceLT, expLenOf_ite, expLenOf_mk, ne_eq]
    repeat' split
    all_goals (simp only [Val.int.injEq]; omega)
  · unfold Spec.coilLen; split <;> omega

/-- fc 16: `expectedLen = int(quantity) * 2` -/
theorem C03S_limits_expectedLen_fc16 (q : Nat) (hq : q < 65536) :
    expLenOf (exec (fun _ _ => none) 8 (nthS 5 srvArm16) [("quantity", .int q)]) = .int ((2 * q : Nat) : Int) := by
  rw [C03S_limits.2.2.2.2.2.2.2.2.2.2.2.2.2.2.2.2.2.2.1]
  go_eval [expLenOf_ite, expLenOf_mk]
  simp only [Val.int.injEq]; omega

/-- no truncation in `uint8(expectedLen)`: within the quantity limits `expectedLen` ≤ 246 -/
theorem C03S_limits_expectedLen_fits (q : Nat) :
    (q ≤ 1968 → Spec.coilLen q ≤ 246 ∧ wrap .u8 (Spec.coilLen q) = Spec.coilLen q) ∧
    (q ≤ 123 → 2 * q ≤ 246 ∧ wrap .u8 ((2 * q : Nat) : Int) = ((2 * q : Nat) : Int)) := by
  constructor
  · intro h
    have : Spec.coilLen q ≤ 246 := by unfold Spec.coilLen; omega
    exact ⟨this, wrap_u8 (by omega) (by omega)⟩
  · intro h
    exact ⟨by omega, wrap_u8 (by omega) (by omega)⟩

/-- the byte-count test `req.payload[4] != uint8(expectedLen)` (8 bits) and the data-length test
    `len(req.payload) - 5 != expectedLen` of fc 15 / 16, for an `expectedLen` L ≤ 246: plain `≠` -/
theorem C03S_limits_bytecount (bc len L : Nat) (hbc : bc < 256) (hL : L ≤ 246) (hlen : len < 2 ^ 62) :
    eval [("req.payload[4]", .int bc), ("expectedLen", .int L), ("len(req.payload)", .int len)]
      (iC (nthS 7 srvArm15)) = .ofBool (decide (bc ≠ L)) ∧
    eval [("req.payload[4]", .int bc), ("expectedLen", .int L), ("len(req.payload)", .int len)]
      (iC (nthS 8 srvArm15)) = .ofBool (decide ((len : Int) - 5 ≠ L)) ∧
    iC (nthS 6 srvArm16) = iC (nthS 7 srvArm15) ∧ iC (nthS 7 srvArm16) = iC (nthS 8 srvArm15) := by
  rw [C03S_limits.2.2.2.2.2.2.2.2.2.2.2.2.2.2.2.2.1, C03S_limits.2.2.2.2.2.2.2.2.2.2.2.2.2.2.2.2.2.1]
  refine ⟨?_, ?_, rfl, rfl⟩
  · go_eval [protoGuard, iC]
    simp only [ofBool_inj, decide_eq_decide]
    omega
  · go_eval [protoGuard, iC]
    simp only [ofBool_inj, decide_eq_decide]
    omega

/-! ### the verdict of the run in plain arithmetic, function code by function code -/

/-- fc 1, 2 (limit 2000) and 3, 4 (limit 125), payload `a1 a0 q1 q0`; A, Q the big-endian fields -/
theorem C03S_limits_read (unit fc a1 a0 q1 q0 : Byte) (hfc : fc = 1 ∨ fc = 2 ∨ fc = 3 ∨ fc = 4)
    (A Q : Nat) (hA : A = (mk16 a1 a0).toNat) (hQ : Q = (mk16 q1 q0).toNat)
    (a0' q0' n : Int) (fuel : Nat) (hf : 80 ≤ fuel) :
    sverdict (exec (srvOracle [a1, a0, q1, q0] none) fuel gs_ModbusServer_handleTransport
      (reqEnv unit fc [a1, a0, q1, q0] a0' q0' n)) =
    if Q = 0 ∨ Q > (if fc = 1 ∨ fc = 2 then 2000 else 125) then .closes (.sym "ErrProtocolError") []
    else if A + Q - 1 > 0xFFFF then .writes (.sym litPduException) (.sym "ErrIllegalDataAddress") []
    else .atHandler
      (if fc = 1 then "ms.handler.HandleCoils" else if fc = 2 then "ms.handler.HandleDiscreteInputs"
       else if fc = 3 then "ms.handler.HandleHoldingRegisters" else "ms.handler.HandleInputRegisters")
      (.sym (reqLit fc)) (.int unit.toNat) (.int A) (.int Q) := by
  rw [C03S_validation unit fc _ a0' q0' n (by simp) fuel hf]
  subst hA hQ
  rcases hfc with rfl | rfl | rfl | rfl
  all_goals (
    spec_side
    close_leaves)

/-- fc 5: value must be FF00 or 0000; quantity 1 -/
theorem C03S_limits_fc5 (unit a1 a0 v1 v0 : Byte) (a0' q0' n : Int) (fuel : Nat) (hf : 80 ≤ fuel) :
    sverdict (exec (srvOracle [a1, a0, v1, v0] none) fuel gs_ModbusServer_handleTransport
      (reqEnv unit 5 [a1, a0, v1, v0] a0' q0' n)) =
    if (v1 = 0xFF ∨ v1 = 0x00) ∧ v0 = 0x00 then
      .atHandler "ms.handler.HandleCoils" (.sym litCoil1) (.int unit.toNat) (.int (mk16 a1 a0).toNat) (.int 1)
    else .closes (.sym "ErrProtocolError") [] := by
  rw [C03S_validation unit 5 _ a0' q0' n (by simp) fuel hf]
  simp only [Spec.classify, BitVec.reduceEq, ↓reduceIte, or_false, false_or, expectV_ite, expectV_valid,
    expectV_malformed, calleeOf, unitOf, addrOf, Spec.qtyOf, reqLit, mk16_eq_word, BitVec.reduceToNat,
    Int.cast_ofNat_Int]

/-- fc 6: any value; quantity 1 -/
theorem C03S_limits_fc6 (unit a1 a0 v1 v0 : Byte) (a0' q0' n : Int) (fuel : Nat) (hf : 80 ≤ fuel) :
    sverdict (exec (srvOracle [a1, a0, v1, v0] none) fuel gs_ModbusServer_handleTransport
      (reqEnv unit 6 [a1, a0, v1, v0] a0' q0' n)) =
    .atHandler "ms.handler.HandleHoldingRegisters" (.sym litReg1) (.int unit.toNat) (.int (mk16 a1 a0).toNat)
      (.int 1) := by
  rw [C03S_validation unit 6 _ a0' q0' n (by simp) fuel hf]
  simp only [Spec.classify, BitVec.reduceEq, ↓reduceIte, or_false, false_or, expectV_ite, expectV_valid,
    expectV_malformed, calleeOf, unitOf, addrOf, Spec.qtyOf, reqLit, mk16_eq_word, BitVec.reduceToNat,
    Int.cast_ofNat_Int]

/-- fc 15 (limit 0x7b0 = 1968) and fc 16 (limit 0x7b = 123), payload `a1 a0 q1 q0 bc d ds…`:
    quantity limits, THEN address range, THEN byte count = expectedLen and number of data bytes =
    expectedLen, with expectedLen = quantity/8 (+1 if quantity%8 ≠ 0) resp. 2·quantity -/
theorem C03S_limits_write_multiple (unit fc a1 a0 q1 q0 bc d : Byte) (ds : Bytes) (hfc : fc = 15 ∨ fc = 16)
    (A Q : Nat) (hA : A = (mk16 a1 a0).toNat) (hQ : Q = (mk16 q1 q0).toNat) (hds : ds.length < 2 ^ 61)
    (a0' q0' n : Int) (fuel : Nat) (hf : 80 ≤ fuel) :
    sverdict (exec (srvOracle (a1 :: a0 :: q1 :: q0 :: bc :: d :: ds) none) fuel gs_ModbusServer_handleTransport
      (reqEnv unit fc (a1 :: a0 :: q1 :: q0 :: bc :: d :: ds) a0' q0' n)) =
    if Q = 0 ∨ Q > (if fc = 15 then 1968 else 123) then .closes (.sym "ErrProtocolError") []
    else if A + Q - 1 > 0xFFFF then .writes (.sym litPduException) (.sym "ErrIllegalDataAddress") []
    else if bc.toNat = (if fc = 15 then Q / 8 + (if Q % 8 ≠ 0 then 1 else 0) else 2 * Q) ∧
        ds.length + 1 = (if fc = 15 then Q / 8 + (if Q % 8 ≠ 0 then 1 else 0) else 2 * Q) then
      .atHandler (if fc = 15 then "ms.handler.HandleCoils" else "ms.handler.HandleHoldingRegisters")
        (.sym (reqLit fc)) (.int unit.toNat) (.int A) (.int Q)
    else .closes (.sym "ErrProtocolError") [] := by
  rw [C03S_validation unit fc _ a0' q0' n (by simp only [List.length_cons]; omega) fuel hf]
  subst hA hQ
  rcases hfc with rfl | rfl
  all_goals (
    spec_side
    close_leaves)

/-- payloads of the wrong size: closed, whatever the content -/
theorem C03S_limits_size (unit fc : Byte) (payload : Bytes) (hp : payload.length < 2 ^ 62)
    (h : ((fc = 1 ∨ fc = 2 ∨ fc = 3 ∨ fc = 4 ∨ fc = 5 ∨ fc = 6) ∧ payload.length ≠ 4) ∨
         ((fc = 15 ∨ fc = 16) ∧ payload.length < 6))
    (a0' q0' n : Int) (fuel : Nat) (hf : 80 ≤ fuel) :
    sverdict (exec (srvOracle payload none) fuel gs_ModbusServer_handleTransport
      (reqEnv unit fc payload a0' q0' n)) = .closes (.sym "ErrProtocolError") [] := by
  rw [C03S_validation unit fc _ a0' q0' n hp fuel hf]
  rcases h with ⟨hfc, hl⟩ | ⟨hfc, hl⟩
  · rw [classify_ne4 unit fc payload hfc hl]; rfl
  · rw [classify_lt6 unit fc payload hfc hl]; rfl

/-- every other function code, whatever the payload: illegal function, answered (not closed) -/
theorem C03S_limits_other_fc (unit fc : Byte) (payload : Bytes) (hp : payload.length < 2 ^ 62)
    (h : fc ≠ 1 ∧ fc ≠ 2 ∧ fc ≠ 3 ∧ fc ≠ 4 ∧ fc ≠ 5 ∧ fc ≠ 6 ∧ fc ≠ 15 ∧ fc ≠ 16)
    (a0' q0' n : Int) (fuel : Nat) (hf : 80 ≤ fuel) :
    sverdict (exec (srvOracle payload none) fuel gs_ModbusServer_handleTransport
      (reqEnv unit fc payload a0' q0' n)) = .writes (.sym litPduIllegalFn) (.sym "nil") [] := by
  rw [C03S_validation unit fc _ a0' q0' n hp fuel hf, (C03_unsupported_iff unit fc payload).mpr h]; rfl

/-! ## MAIN 3: after the handler — relation to `Server.handle` -/

/-- the symbol standing for a model error value in a run: the Go identifier of the package's error
    constants; any other (non-modbus) error value is some symbol that is neither `nil` nor a constant
    (the server only ever compares `err` with `nil` and `ErrProtocolError`) -/
def errSym : Err → String
  | .configuration => "ErrConfigurationError"
  | .requestTimedOut => "ErrRequestTimedOut"
  | .illegalFunction => "ErrIllegalFunction"
  | .illegalDataAddress => "ErrIllegalDataAddress"
  | .illegalDataValue => "ErrIllegalDataValue"
  | .serverDeviceFailure => "ErrServerDeviceFailure"
  | .acknowledge => "ErrAcknowledge"
  | .serverDeviceBusy => "ErrServerDeviceBusy"
  | .memoryParityError => "ErrMemoryParityError"
  | .gwPathUnavailable => "ErrGWPathUnavailable"
  | .gwTargetFailedToRespond => "ErrGWTargetFailedToRespond"
  | .badCRC => "ErrBadCRC"
  | .shortFrame => "ErrShortFrame"
  | .protocolError => "ErrProtocolError"
  | .badUnitId => "ErrBadUnitId"
  | .badTransactionId => "ErrBadTransactionId"
  | .unknownProtocolId => "ErrUnknownProtocolId"
  | .unexpectedParameters => "ErrUnexpectedParameters"
  | .unknownException _ => "unknown-exception"
  | .ioTimeout => "io-timeout"
  | .ioEOF => "io-eof"
  | .ioUnexpectedEOF => "io-unexpected-eof"
  | .ioOther => "io-other"

theorem errSym_ne_nil (e : Err) : errSym e ≠ "nil" := by cases e <;> simp [errSym]
theorem errSym_eq_pe (e : Err) : errSym e = "ErrProtocolError" ↔ e = .protocolError := by
  cases e <;> simp [errSym]
/-- it is the model's name of the error (`Err.name`) for every error but the parametrised one -/
theorem errSym_name (e : Err) (h : ∀ c, e ≠ .unknownException c) : errSym e = e.name := by
  cases e <;> first | rfl | exact absurd rfl (h _)

/-- what the handler returned, as the oracle presents it: `n` = length of the result slice,
    `herr` = the symbol of the error (`"nil"`: none). With an error the slice is arbitrary. -/
def Answers (res : Spec.HResult) (n : Int) (herr : String) : Prop :=
  match res with
  | .bits l => n = l.length ∧ herr = "nil"
  | .regs l => n = l.length ∧ herr = "nil"
  | .error e => herr = errSym e

/-- the three things the server can do after a handler returned -/
inductive AfterClass
  | close                 -- `t.Close()`, no response
  | normal                -- positive response
  | exc (e : Err)         -- exception response, code `mapErrorToExceptionCode(e)`
  deriving DecidableEq, Repr

/-- … according to the specification / model (`handleSpec`), F8 included -/
def modelClass (r : HReq) : Spec.HResult → AfterClass
  | .error e => if e = .protocolError then .close else .exc e
  | .bits l => if Spec.isWrite r = false ∧ l.length ≠ (Spec.qtyOf r).toNat then .exc .serverDeviceFailure else .normal
  | .regs l => if Spec.isWrite r = false ∧ l.length ≠ (Spec.qtyOf r).toNat then .exc .serverDeviceFailure else .normal

/-- the model's action of each class -/
def classAction (req : Pdu) (r : HReq) (res : Spec.HResult) : AfterClass → Action
  | .close => .close
  | .normal => .respond (Spec.replyPdu req r res)
  | .exc e => exception req (mapError e)

/-- the verdict of the Go run of each class: one call of the right handler with the right literal, then
    close: `err = ErrProtocolError`, `t.Close()`;
    normal: `err = nil`, `t.WriteResponse` of the positive-response literal (echo for writes, data for reads);
    exc e: `t.WriteResponse` of the literal `{… 0x80 | fc, mapErrorToExceptionCode(err)}` with `err` = e -/
def goVerdict (fc : Byte) (r : HReq) : AfterClass → SVerdict
  | .close => .closes (.sym "ErrProtocolError") [(calleeOf r, [.sym (reqLit fc)])]
  | .normal => .writes (.sym (if Spec.isWrite r = true then litPduEcho else litPduData)) (.sym "nil")
      [(calleeOf r, [.sym (reqLit fc)])]
  | .exc e => .writes (.sym litPduException) (.sym (errSym e)) [(calleeOf r, [.sym (reqLit fc)])]

/-- MAIN (after the handler, against the model). A valid request `r`, any handler `h`, any state:
    let `res` be what the matching handler returns (`Spec.invoke`) and let the oracle present it
    (`Answers`). Then
    (1) the Go iteration does what the class `modelClass r res` says (`goVerdict`), and
    (2) the model `Server.handle` made the call `r` and its action is the action of the same class.
    (The exception CODE is `mapErrorToExceptionCode(err)` in Go, `Server.mapError e` in the model: tied
    by `Tie/Tables.lean: error_table_model`; the positive response's PAYLOAD is built by opaque `append`
    leaves: not evaluated here, see C05/C06/C17.) -/
theorem C03S_after_handler_model {σ : Type} (h : Handler σ) (st : σ) (unit fc : Byte) (payload : Bytes)
    (hp : payload.length < 2 ^ 62) (r : HReq) (hv : Spec.classify unit fc payload = .valid r)
    (a0 q0 n : Int) (herr : String) (hans : Answers (Spec.invoke h st r).2 n herr)
    (fuel : Nat) (hf : 80 ≤ fuel) :
    sverdict (exec (srvOracle payload (some [.sym "result", .sym herr])) fuel gs_ModbusServer_handleTransport
      (reqEnv unit fc payload a0 q0 n)) = goVerdict fc r (modelClass r (Spec.invoke h st r).2) ∧
    (Server.handle h st ⟨unit, fc, payload⟩).2.1 = some r ∧
    (Server.handle h st ⟨unit, fc, payload⟩).2.2 =
      classAction ⟨unit, fc, payload⟩ r (Spec.invoke h st r).2 (modelClass r (Spec.invoke h st r).2) := by
  rw [C03S_after_handler unit fc payload a0 q0 n herr hp fuel hf, hv, expectA_valid, handle_eq]
  simp only [handleSpec, hv]
  generalize (Spec.invoke h st r).2 = res at hans
  refine ⟨?_, ?_⟩
  · cases res with
    | bits l =>
      obtain ⟨rfl, rfl⟩ := hans
      simp only [modelClass, ↓reduceIte]
      have : ((l.length : Int) ≠ ((Spec.qtyOf r).toNat : Int)) ↔ l.length ≠ (Spec.qtyOf r).toNat := by omega
      simp only [this]
      split <;> rfl
    | regs l =>
      obtain ⟨rfl, rfl⟩ := hans
      simp only [modelClass, ↓reduceIte]
      have : ((l.length : Int) ≠ ((Spec.qtyOf r).toNat : Int)) ↔ l.length ≠ (Spec.qtyOf r).toNat := by omega
      simp only [this]
      split <;> rfl
    | error e =>
      simp only [Answers] at hans
      subst hans
      simp only [modelClass, errSym_ne_nil, ↓reduceIte, errSym_eq_pe]
      split <;> rfl
  · cases res with
    | bits l =>
      simp only [modelClass, reduceCtorEq, ↓reduceIte]
      split
      · rename_i hc
        simp only [classAction, Spec.replyPdu, hc.1, Bool.false_eq_true, ↓reduceIte, hc.2, exception_eq, mapError, and_self]
      · rename_i hc
        simp only [classAction, and_self]
    | regs l =>
      simp only [modelClass, reduceCtorEq, ↓reduceIte]
      split
      · rename_i hc
        simp only [classAction, Spec.replyPdu, hc.1, Bool.false_eq_true, ↓reduceIte, hc.2, exception_eq, mapError, and_self]
      · rename_i hc
        simp only [classAction, and_self]
    | error e =>
      simp only [modelClass]
      by_cases he : e = .protocolError
      · subst he; simp [classAction]
      · have : Spec.HResult.error e ≠ .error .protocolError := fun h' => he (by injection h')
        simp only [this, he, ↓reduceIte, classAction, Spec.replyPdu, exception_eq, mapError_eq, and_self]
/-- FINDING F8, as the source has it: a VALID request whose handler returns `ErrProtocolError`: the
    handler is called (once, the right one), then the server closes the connection and writes NO
    response — the handler's error value is indistinguishable from the server's own validation
    failure. (`Spec.serverEvents` asks for exception 04; the model `Server.handle` reproduces the
    behaviour of the source: `C03_frame_step_f8`.) -/
theorem C03S_F8 (unit fc : Byte) (payload : Bytes) (hp : payload.length < 2 ^ 62) (r : HReq)
    (hv : Spec.classify unit fc payload = .valid r) (a0 q0 n : Int) (fuel : Nat) (hf : 80 ≤ fuel) :
    sverdict (exec (srvOracle payload (some [.sym "result", .sym "ErrProtocolError"])) fuel
      gs_ModbusServer_handleTransport (reqEnv unit fc payload a0 q0 n)) =
      .closes (.sym "ErrProtocolError") [(calleeOf r, [.sym (reqLit fc)])] := by
  rw [C03S_after_handler unit fc payload a0 q0 n _ hp fuel hf, hv, expectA_valid, if_neg (by decide), if_pos rfl]

/-- the input of `C03_handler_protocol_error_counterexample` (unit 1, read 2 holding registers at 0),
    on both sides: the Go iteration closes after calling HandleHoldingRegisters; the model's session
    is `[call, closed]` -/
theorem C03S_F8_counterexample :
    sverdict (exec (srvOracle [0x00, 0x00, 0x00, 0x02] (some [.sym "result", .sym "ErrProtocolError"])) 80
      gs_ModbusServer_handleTransport (reqEnv 0x01 0x03 [0x00, 0x00, 0x00, 0x02] 0 0 0)) =
      .closes (.sym "ErrProtocolError") [("ms.handler.HandleHoldingRegisters", [.sym litHoldingRead])] ∧
    Server.run (constHandler (.ok []) (.error .protocolError)) ()
      (Mbap.assemble 0x0001 ⟨0x01, 0x03, [0x00, 0x00, 0x00, 0x02]⟩) .eof =
      ((), [.call (.holding 0x01 0 2 false []), .closed]) := by
  refine ⟨?_, C03_handler_protocol_error_counterexample⟩
  rw [C03S_F8 0x01 0x03 _ (by decide) (.holding 0x01 0 2 false []) (by decide) 0 0 0 80 (Nat.le_refl _)]
  rfl

/-! ## 4. sensitivity: two previously seeded defects, on hand-made variants of the sub-terms -/

/-- statement 3 of the fc-15 arm is the quantity check with the limit 0x7b0 (`C03S_limits`); the
    variant has 0x7d0 = 2000 there, everything else is the generated term -/
def variant7d0 : GStmt :=
  frameWith srvArm12 srvArm5 (setNth 3 (protoGuard (qtyCheckCond 2000)) srvArm15) srvArm34 srvArm6 srvArm16 srvArmDef

/-- quantities 1969 … 1976 with byte count 247 and 247 data bytes (a 252-byte payload): the variant
    hands them to HandleCoils; the generated source closes the connection; the specification says
    malformed -/
theorem C03S_sensitive_7d0 (unit a1 a0 q1 q0 d : Byte) (ds : Bytes) (hds : ds.length = 246)
    (hQ : 1969 ≤ (mk16 q1 q0).toNat ∧ (mk16 q1 q0).toNat ≤ 1976)
    (hA : (mk16 a1 a0).toNat + (mk16 q1 q0).toNat - 1 ≤ 0xFFFF) (a0' q0' n : Int) :
    sverdict (exec (srvOracle (a1 :: a0 :: q1 :: q0 :: 247 :: d :: ds) none) 80 variant7d0
      (reqEnv unit 15 (a1 :: a0 :: q1 :: q0 :: 247 :: d :: ds) a0' q0' n)) =
      .atHandler "ms.handler.HandleCoils" (.sym litCoilsWrite) (.int unit.toNat) (.int (mk16 a1 a0).toNat)
        (.int (mk16 q1 q0).toNat) ∧
    sverdict (exec (srvOracle (a1 :: a0 :: q1 :: q0 :: 247 :: d :: ds) none) 80 gs_ModbusServer_handleTransport
      (reqEnv unit 15 (a1 :: a0 :: q1 :: q0 :: 247 :: d :: ds) a0' q0' n)) = .closes (.sym "ErrProtocolError") [] ∧
    Spec.classify unit 15 (a1 :: a0 :: q1 :: q0 :: 247 :: d :: ds) = .malformed := by
  have hcl : Spec.classify unit 15 (a1 :: a0 :: q1 :: q0 :: 247 :: d :: ds) = .malformed := by
    have := mk16_eq_word q1 q0
    simp only [Spec.classify, BitVec.reduceEq, ↓reduceIte, or_false, false_or, Spec.checkQtyRange, Spec.qtyLimit,
      ← mk16_eq_word]
    rw [if_pos (by omega)]
  refine ⟨?_, ?_, hcl⟩
  · unfold reqEnv variant7d0
    rw [len_cast6, dynEnv_cons4, payloadLeaves_cons4]
    simp only [BitVec.reduceToNat, Int.cast_ofNat_Int, hds]
    have hq := (mk16 q1 q0).isLt
    have h0 : (0:Int) ≤ (↑(mk16 q1 q0).toNat + 9223372036854775808) % 18446744073709551616 - 9223372036854775808 := by
      omega
    srv_eval [srvArm15, protoGuard, qtyCheckCond, tdiv_of_nonneg _ h0, tmod_natCast_left]
    have := (mk16 a1 a0).isLt
    simp (disch := omega) only [wrapInt_id]
    simp only [Bool.or_eq_true, decide_eq_true_eq]
    repeat' split
    all_goals first | (exfalso; omega) | rfl
  · rw [C03S_validation unit 15 _ a0' q0' n (by simp only [List.length_cons]; omega) 80 (Nat.le_refl _), hcl]
    rfl

/-- statement 7 of the fc-16 arm is `len(req.payload) - 5 != expectedLen`; the variant has `<` -/
def variantTrailing : GStmt :=
  frameWith srvArm12 srvArm5 srvArm15 srvArm34 srvArm6
    (setNth 7 (protoGuard (.cmp "<" (.bin "-" .int (.var "len(req.payload)" .int) (.lit 5 .int))
      (.var "expectedLen" .int))) srvArm16) srvArmDef

/-- write ONE register (byte count 2) followed by any non-empty trailing garbage: the variant hands
    the request to HandleHoldingRegisters; the generated source closes; the specification says
    malformed -/
theorem C03S_sensitive_trailing (unit a1 a0 d1 d0 x : Byte) (xs : Bytes) (hxs : xs.length < 2 ^ 60)
    (a0' q0' n : Int) :
    sverdict (exec (srvOracle (a1 :: a0 :: 0 :: 1 :: 2 :: d1 :: d0 :: x :: xs) none) 80 variantTrailing
      (reqEnv unit 16 (a1 :: a0 :: 0 :: 1 :: 2 :: d1 :: d0 :: x :: xs) a0' q0' n)) =
      .atHandler "ms.handler.HandleHoldingRegisters" (.sym litRegsWrite) (.int unit.toNat)
        (.int (mk16 a1 a0).toNat) (.int 1) ∧
    sverdict (exec (srvOracle (a1 :: a0 :: 0 :: 1 :: 2 :: d1 :: d0 :: x :: xs) none) 80
      gs_ModbusServer_handleTransport
      (reqEnv unit 16 (a1 :: a0 :: 0 :: 1 :: 2 :: d1 :: d0 :: x :: xs) a0' q0' n)) =
      .closes (.sym "ErrProtocolError") [] ∧
    Spec.classify unit 16 (a1 :: a0 :: 0 :: 1 :: 2 :: d1 :: d0 :: x :: xs) = .malformed := by
  have hw : (Spec.word 0 1).toNat = 1 := by decide
  have hcl : Spec.classify unit 16 (a1 :: a0 :: 0 :: 1 :: 2 :: d1 :: d0 :: x :: xs) = .malformed := by
    have := (Spec.word a1 a0).isLt
    simp only [Spec.classify, BitVec.reduceEq, ↓reduceIte, or_false, false_or, Spec.checkQtyRange, Spec.qtyLimit, hw]
    rw [if_neg (by omega), if_neg (by omega), if_neg (by simp only [List.length_cons]; omega)]
  refine ⟨?_, ?_, hcl⟩
  · unfold reqEnv variantTrailing
    rw [len_cast6, dynEnv_cons4, payloadLeaves_cons4]
    have hm : (mk16 0 1).toNat = 1 := by decide
    simp only [BitVec.reduceToNat, Int.cast_ofNat_Int, List.length_cons]
    have := (mk16 a1 a0).isLt
    srv_eval [srvArm16, protoGuard, hm]
    simp (disch := omega) only [wrapInt_id]
    simp only [Bool.or_eq_true, decide_eq_true_eq]
    repeat' split
    all_goals first | (exfalso; omega) | rfl
  · rw [C03S_validation unit 16 _ a0' q0' n (by simp only [List.length_cons]; omega) 80 (Nat.le_refl _), hcl]
    rfl

end Modbus.Props.C03

#print axioms Modbus.Props.C03.C03S_validation
#print axioms Modbus.Props.C03.C03S_after_handler
#print axioms Modbus.Props.C03.C03S_valid_reaches_handler
#print axioms Modbus.Props.C03.C03S_reaches_handler_iff
#print axioms Modbus.Props.C03.C03S_error_symbols
#print axioms Modbus.Props.C03.C03S_handler_calls
#print axioms Modbus.Props.C03.C03S_read_error_returns
#print axioms Modbus.Props.C03.C03S_request_literals
#print axioms Modbus.Props.C03.C03S_literal_fields
#print axioms Modbus.Props.C03.C03S_single_write_args
#print axioms Modbus.Props.C03.C03S_limits
#print axioms Modbus.Props.C03.C03S_limits_range_32bit
#print axioms Modbus.Props.C03.C03S_limits_range_zero_qty
#print axioms Modbus.Props.C03.C03S_limits_range_16bit_variant
#print axioms Modbus.Props.C03.C03S_limits_expectedLen_fc15
#print axioms Modbus.Props.C03.C03S_limits_expectedLen_fc16
#print axioms Modbus.Props.C03.C03S_limits_expectedLen_fits
#print axioms Modbus.Props.C03.C03S_limits_bytecount
#print axioms Modbus.Props.C03.C03S_limits_read
#print axioms Modbus.Props.C03.C03S_limits_fc5
#print axioms Modbus.Props.C03.C03S_limits_fc6
#print axioms Modbus.Props.C03.C03S_limits_write_multiple
#print axioms Modbus.Props.C03.C03S_limits_size
#print axioms Modbus.Props.C03.C03S_limits_other_fc
#print axioms Modbus.Props.C03.C03S_after_handler_model
#print axioms Modbus.Props.C03.C03S_F8
#print axioms Modbus.Props.C03.C03S_F8_counterexample
#print axioms Modbus.Props.C03.C03S_sensitive_7d0
#print axioms Modbus.Props.C03.C03S_sensitive_trailing
#print axioms Modbus.GoEval.Srv.srv_frame
#print axioms Modbus.GoEval.Srv.litQuantity
