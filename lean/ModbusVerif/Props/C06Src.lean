import ModbusVerif.Lemmas.GoEvalCrcLemmas
import ModbusVerif.Props.C06
/-
  C06, source tie for crc.go: the four methods of `crc` — `init`, `add`, `value`, `isEqual` — as
  rendered by the translator (`Gen.gs_crc_init`, `Gen.gs_crc_add`, `Gen.gs_crc_value`,
  `Gen.gs_crc_isEqual`, regenerated from /repo on every run) and the two encoding.go helpers they
  call (`Gen.gs_uint16ToBytes`, `Gen.gs_bytesToUint16`) are EVALUATED by `Modbus.GoEval` with Go's
  `uint16` / `uint8` / `int` semantics and proved equal, for EVERY state and EVERY byte string (no
  bound on its length other than Go's `int`), to the hand-written model `Modbus.Crc`
  (Model/Crc.lean), about which Props/C06*.lean prove the property (CRC-16/MODBUS, detection of
  corruption).

  What is proved
  1. `C06S_init`     `gs_crc_init` from any environment, any oracle, fuel ≥ 2: returns, `c.crc` is
                     `65535 = Crc.init.toNat`, no call.
  2. `C06S_add_round` ONE round of the loop body of `gs_crc_add` (the body IS the generated one:
                     `C06S_add_shape`, `rfl`), for every state `s : U16`, byte `b`, index `k < n < 2^63`,
                     from any environment holding them (`c.crc = s.toNat`, `in[#i] = b.toNat`), with
                     any oracle answering the table look-up like `crcOracle`: `c.crc` becomes
                     `(Crc.step s b).toNat`, `#i` becomes `k + 1`, exactly one call is logged,
                     `index crcTable` with argument `(b ^^^ lo s).toNat`. The bit-level facts
                     (`crc_index_eq`, `crc_shr_eq`, `crc_xor16_eq` in Lemmas/GoEvalCrcLemmas) hold for
                     all states and bytes (no enumeration). `C06S_add_round_exit`: the round at
                     `#i = #len(in)` breaks, assigns nothing, calls nothing, reads no element.
  3. `C06S_add_loop` the WHOLE `crc.add`, instrumented (`C06S_instr`), for every `bs` with
                     `bs.length < 2^63`, every start state, every environment holding `len(in)` and
                     `c.crc`, every call history, every fuel ≥ len + 20: the run RETURNS (is never stuck,
                     never stops at a call: `C06S_add_no_panic`), `c.crc = (Crc.add s bs).toNat`, the
                     calls are `crcTrace` (probe of index k, then the table look-up of round k; a
                     final probe of `len`), the arguments of the table look-ups are exactly the
                     model's indices `crcIndices s bs` in order, nothing but the loop's own
                     variables is written.
  4. `C06S_value`    `gs_crc_value`: exactly one call, `uint16ToBytes` with `[2, s.toNat]`
                     (2 = `LITTLE_ENDIAN`), result bound to `value`; `C06S_uint16ToBytes_le`:
                     `gs_uint16ToBytes` run on those argument values makes exactly one call,
                     `binary.LittleEndian.PutUint16(make([]byte, 2), s.toNat)`, and returns that slice;
                     with the standard library's meaning of that call (`putLE16`, transcribed) the
                     bytes are `Crc.value s = le16 s`, low byte first (`C06S_value_bytes`).
  5. `C06S_isEqual_shape` (static, `rfl`), `C06S_isEqual`: `gs_bytesToUint16` run with endianness 2
                     makes exactly one call `binary.LittleEndian.Uint16(in)`; with the standard
                     library's meaning of that call on `[low, high]` (`leU16`, transcribed) and the
                     leaf of `gs_crc_isEqual` bound to the value that run returns, `yes` is
                     `Crc.isEqual s low high`.
  6. `C06S_crc16_src` `init`, then `add` over `bs`, then `value`, then `uint16ToBytes` on the logged
                     arguments: the bytes are `Crc.crc16 bs`. `C06S_crc16_reference`: the register
                     after `init; add` is the bit-serial reference CRC `Crc.refCrc bs`.
  7. `C06S_table_is_extracted` the oracle answers `index crcTable` from `Gen.crcTable` (the table
                     extracted from /repo), which equals the model's (`Tie.C06.crc_table`).
  8. sensitivity: five variants DERIVED from the generated terms (shift by 7, mask 0x0f, xor before
                     shift, init 0, no probe) give a different CRC on `01 03 00 00 00 01`; the true
                     term gives 0x0A84, bytes `84 0A`.

  What is modelled rather than derived from the generated terms
  * LEAF TEXTS. Leaves are keyed by their text. `in[#i]` means element `#i` of the parameter `in`:
    the probe `in[#i] := #in[#i](#i)` inserted by `withProbe` at the head of the loop body re-binds it
    from the byte list and the VALUE of `#i` before every round (`crcByteAt`; outside the list it
    binds `unk`, which is never read: the loop test comes first). `stripProbe` removes the probe
    again (`C06S_instr`); `C06S_sensitive_noProbe` shows why it is needed. `len(in)` is bound to
    `bs.length` by hypothesis. `#crcTable[index]` is bound by the RENDERED call `index crcTable`
    (not an instrumentation), after `index` is assigned and before it is read. `c.crc` is the field
    of the receiver: one key, assigned and read by name.
  * THE ORACLE'S ANSWERS. `index crcTable [v]` ↦ `Gen.crcTable[v]` for `0 ≤ v < 256`, refused
    otherwise (Go: `index` is a `byte`, the array has 256 entries; the loop theorem shows the
    refusal never happens). `uint16ToBytes` ↦ an opaque symbol (the bytes are obtained from the run
    of `gs_uint16ToBytes` on the logged arguments). `binary.LittleEndian.PutUint16` ↦ no result; its
    effect on the slice (`putLE16`) and the value of `binary.LittleEndian.Uint16` (`leU16`) are
    transcribed from encoding/binary. `make([]byte, 2)` and `[]byte{low, high}` are opaque symbols.
  * COMPOSITION. The callers (rtu_transport.go: `crc.init(); crc.add(…); crc.value()` /
    `crc.isEqual(…)`) are not evaluated here; `C06S_crc16_src` threads the environment (the receiver
    field `c.crc`) from one run to the next and passes the logged argument values to the callee.
  * `bs.length < 2^63`: `len(in)` is a Go `int`.
-/
set_option linter.unusedSimpArgs false
set_option linter.unusedVariables false
set_option maxRecDepth 100000

namespace Modbus.Props.C06
open Modbus Modbus.Gen Modbus.GoEval

/-! ## 0. static structure, instrumentation -/

/-- `crc.add` is: bound, index, `loop crcAddBody`, `return`; one (rendered) call, the table look-up
    with the value of `index`; no opaque statement -/
theorem C06S_add_shape :
    gs_crc_add = crcAddWith (.loop crcAddBody) ∧
    opaques gs_crc_add = [] ∧
    bindCalls gs_crc_add = [(["#crcTable[index]"], "index crcTable", [.var "index" .u8])] ∧
    assignedTo "c.crc" gs_crc_add =
      [.bin ">>" .u16 (.var "c.crc" .u16) (.lit 8 .int),
       .bin "^" .u16 (.var "c.crc" .u16) (.var "#crcTable[index]" .u16)] ∧
    assignedTo "index" gs_crc_add =
      [.bin "^" .u8 (.var "b" .u8) (.conv .u8 (.bin "&" .u16 (.var "c.crc" .u16) (.lit 255 .u16)))] ∧
    assignedTo "b" gs_crc_add = [.var "in[#i]" .u8] :=
  ⟨rfl, rfl, rfl, rfl, rfl, rfl⟩

/-- the term that is evaluated is the generated one with the probe at the head of the loop body;
    stripping the probe gives the generated term back -/
theorem C06S_instr :
    crcGs = withProbe "in[#i]" "#in[#i]" "#i" gs_crc_add ∧
    stripProbe "#in[#i]" crcGs = gs_crc_add ∧
    crcGs = crcAddWith (.loop (.seq (.bindCall ["in[#i]"] "#in[#i]" [.var "#i" .int]) crcAddBody)) :=
  ⟨rfl, strip_crcGs, rfl⟩

/-! ## 1. `init` -/

/-- **`crc.init`**: from any environment, with any oracle: returns, `c.crc = 0xffff`, no call -/
theorem C06S_init (o : Oracle) (env : Env) (cs : Calls) (fuel : Nat) (hf : 2 ≤ fuel) :
    execFrom o fuel gs_crc_init env cs = ⟨Env.write env "c.crc" (.int 65535), .returned, cs⟩ ∧
    Env.read? (execFrom o fuel gs_crc_init env cs).env "c.crc" = some (.int (Crc.init.toNat : Int)) ∧
    (65535 : Int) = (Crc.init.toNat : Int) := by
  have h := crc_init_run o env cs fuel hf
  refine ⟨h, ?_, rfl⟩
  rw [h]
  simp only [read?_write, ↓reduceIte]
  rfl

/-! ## 2. one round of the loop body -/

/-- **one round = `Crc.step`**, for every state, byte and index. Oracle: any that answers the table
    look-up from the table (`crcOracle bs` does: `C06S_table_is_extracted`). -/
theorem C06S_add_round (o : Oracle)
    (ho : ∀ n : Nat, n < 256 → o "index crcTable" [.int (n : Int)] =
      some [.int (((Crc.table[n]!).toNat : Nat) : Int)])
    (n k : Nat) (s : U16) (b : Byte) (env : Env) (cs : Calls) (hn : n < 2^63) (hk : k < n)
    (h1 : Env.read? env "#i" = some (.int (k : Int)))
    (h2 : Env.read? env "#len(in)" = some (.int (n : Int)))
    (h3 : Env.read? env "c.crc" = some (.int (s.toNat : Int)))
    (h4 : Env.read? env "in[#i]" = some (.int (b.toNat : Int)))
    (fuel : Nat) (hf : 10 ≤ fuel) :
    let r := execFrom o fuel crcAddBody env cs
    r.how = .fell ∧
    Env.read? r.env "c.crc" = some (.int ((Crc.step s b).toNat : Int)) ∧
    Env.read? r.env "#i" = some (.int ((k + 1 : Nat) : Int)) ∧
    r.calls = cs ++ [("index crcTable", [.int ((b ^^^ lo s).toNat : Int)])] ∧
    Env.read? r.env "index" = some (.int ((b ^^^ lo s).toNat : Int)) ∧
    r.env = crcEnvRound env k b s := by
  have h := execFrom_ge _ (crc_add_round o ho n k s b env cs hn hk h1 h2 h3 h4) (fun h => nomatch h)
    fuel hf
  simp only [h]
  refine ⟨trivial, ?_, ?_, rfl, ?_, trivial⟩ <;>
    simp only [crcEnvRound, read?_write, String.reduceEq, ↓reduceIte]

/-- the same for `crcOracle bs`, at an index inside `bs` whose element is `b` -/
theorem C06S_add_round' (bs : Bytes) (k : Nat) (s : U16) (env : Env) (cs : Calls)
    (hn : bs.length < 2^63) (hk : k < bs.length)
    (h1 : Env.read? env "#i" = some (.int (k : Int)))
    (h2 : Env.read? env "#len(in)" = some (.int (bs.length : Int)))
    (h3 : Env.read? env "c.crc" = some (.int (s.toNat : Int)))
    (h4 : Env.read? env "in[#i]" = some (.int (bs[k].toNat : Int)))
    (fuel : Nat) (hf : 10 ≤ fuel) :
    let r := execFrom (crcOracle bs) fuel crcAddBody env cs
    r.how = .fell ∧
    Env.read? r.env "c.crc" = some (.int ((Crc.step s bs[k]).toNat : Int)) ∧
    Env.read? r.env "#i" = some (.int ((k + 1 : Nat) : Int)) ∧
    r.calls = cs ++ [("index crcTable", [.int ((bs[k] ^^^ lo s).toNat : Int)])] := by
  obtain ⟨a, b, c, d, _⟩ := C06S_add_round (crcOracle bs) (crcOracle_table bs) bs.length k s bs[k] env cs
    hn hk h1 h2 h3 h4 fuel hf
  exact ⟨a, b, c, d⟩

/-- the exit round: `#i = #len(in)`: `break`; nothing assigned, no call, `in[#i]` not needed -/
theorem C06S_add_round_exit (o : Oracle) (n : Nat) (env : Env) (cs : Calls)
    (h1 : Env.read? env "#i" = some (.int (n : Int)))
    (h2 : Env.read? env "#len(in)" = some (.int (n : Int))) (fuel : Nat) (hf : 10 ≤ fuel) :
    execFrom o fuel crcAddBody env cs = ⟨env, .broke, cs⟩ :=
  execFrom_ge _ (crc_add_round_exit o n env cs h1 h2) (fun h => nomatch h) fuel hf

/-! ## 3. the whole `crc.add` -/

/-- **`crc.add` = `Crc.add`**, for every byte string. From any environment holding `len(in)` and
    `c.crc = s`, any call history, every fuel ≥ len + 20: the instrumented generated term RETURNS,
    `c.crc` is `(Crc.add s bs).toNat`, the calls are `crcTrace 0 bs s`, the arguments of the table
    look-ups are the model's indices in order (one per byte, all below 256), and no key outside
    `crcWritten` / `#len(in)` is changed. -/
theorem C06S_add_loop (bs : Bytes) (hn : bs.length < 2^63) (s : U16) (env : Env) (cs : Calls)
    (hlen : Env.read? env "len(in)" = some (.int (bs.length : Int)))
    (hcrc : Env.read? env "c.crc" = some (.int (s.toNat : Int)))
    (fuel : Nat) (hf : bs.length + 20 ≤ fuel) :
    let r := execFrom (crcOracle bs) fuel crcGs env cs
    r.how = .returned ∧
    Env.read? r.env "c.crc" = some (.int ((Crc.add s bs).toNat : Int)) ∧
    r.calls = cs ++ crcTrace 0 bs s ∧
    crcTableArgs (crcTrace 0 bs s) = (crcIndices s bs).map (fun (i : Nat) => [Val.int (i : Int)]) ∧
    (crcIndices s bs).length = bs.length ∧ (∀ i ∈ crcIndices s bs, i < 256) ∧
    (∀ x, x ∉ crcWritten → x ≠ "#len(in)" → Env.read? r.env x = Env.read? env x) := by
  obtain ⟨env', hrun, hc, hfr⟩ := crc_run bs hn s env cs hlen hcrc fuel (by omega)
  simp only [hrun]
  exact ⟨trivial, hc, trivial, crcTrace_tableArgs bs 0 s, crcIndices_length bs s, crcIndices_lt bs s, hfr⟩

/-- run from the minimal environment, empty call history: the look-ups logged are exactly the
    model's indices -/
theorem C06S_add_lookups (bs : Bytes) (hn : bs.length < 2^63) (s : U16) (fuel : Nat)
    (hf : bs.length + 20 ≤ fuel) :
    let r := exec (crcOracle bs) fuel crcGs [("len(in)", .int (bs.length : Int)), ("c.crc", .int (s.toNat : Int))]
    r.how = .returned ∧ Env.read r.env "c.crc" = .int ((Crc.add s bs).toNat : Int) ∧
    r.argsOf "index crcTable" = (crcIndices s bs).map (fun (i : Nat) => [Val.int (i : Int)]) := by
  obtain ⟨h1, h2, h3, h4, _⟩ := C06S_add_loop bs hn s
    [("len(in)", .int (bs.length : Int)), ("c.crc", .int (s.toNat : Int))] []
    (by simp only [read?_cons, ↓reduceIte]) (by simp only [read?_cons, String.reduceEq, ↓reduceIte])
    fuel hf
  refine ⟨h1, ?_, ?_⟩
  · simp only [exec_def, read_def, h2, Option.getD_some]
  · simp only [exec_def, Res.argsOf, h3, List.nil_append]
    exact h4

/-- **no byte string makes the run stuck**: for every fuel the run is neither stuck (an absent
    `in[#i]`, an integer panic) nor stopped at a call (the table look-up refused: index outside
    0..255); with fuel ≥ len + 20 it returns -/
theorem C06S_add_no_panic (bs : Bytes) (hn : bs.length < 2^63) (s : U16) (env : Env) (cs : Calls)
    (hlen : Env.read? env "len(in)" = some (.int (bs.length : Int)))
    (hcrc : Env.read? env "c.crc" = some (.int (s.toNat : Int))) (fuel : Nat) :
    (∀ t, (execFrom (crcOracle bs) fuel crcGs env cs).how ≠ .stuckAt t) ∧
    (∀ f a, (execFrom (crcOracle bs) fuel crcGs env cs).how ≠ .stoppedAt f a) ∧
    (bs.length + 20 ≤ fuel → (execFrom (crcOracle bs) fuel crcGs env cs).how = .returned) := by
  have hbig : ∀ m, bs.length + 20 ≤ m → (execFrom (crcOracle bs) m crcGs env cs).how = .returned :=
    fun m hm => (C06S_add_loop bs hn s env cs hlen hcrc m hm).1
  have key : ∀ e : End, e ≠ .outOfFuel → e ≠ .returned →
      (execFrom (crcOracle bs) fuel crcGs env cs).how ≠ e := by
    intro e h1 h2 h
    have hm := execFrom_mono (crcOracle bs) fuel (max fuel (bs.length + 20)) crcGs env cs
      (Nat.le_max_left _ _) (by rw [h]; exact h1)
    have := hbig (max fuel (bs.length + 20)) (Nat.le_max_right _ _)
    rw [hm, h] at this
    exact h2 this
  exact ⟨fun t => key _ (fun h => nomatch h) (fun h => nomatch h),
    fun f a => key _ (fun h => nomatch h) (fun h => nomatch h), hbig fuel⟩

/-! ## 4. `value` -/

/-- **`crc.value`**: exactly one call, `uint16ToBytes(LITTLE_ENDIAN = 2, c.crc)`; its first result is
    bound to `value`; returns. Any oracle that answers that call. -/
theorem C06S_value (o : Oracle) (s : U16) (rs : List Val) (env : Env) (cs : Calls)
    (ho : o "uint16ToBytes" [.int 2, .int (s.toNat : Int)] = some rs)
    (hcrc : Env.read? env "c.crc" = some (.int (s.toNat : Int))) (fuel : Nat) (hf : 2 ≤ fuel) :
    execFrom o fuel gs_crc_value env cs =
      ⟨Env.write env "value" (rs.headD .unk), .returned,
        cs ++ [("uint16ToBytes", [.int 2, .int (s.toNat : Int)])]⟩ ∧
    intConst? "LITTLE_ENDIAN" = some 2 :=
  ⟨crc_value_run o _ rs env cs ho hcrc fuel hf, by decide +kernel⟩

/-- the environment in which a callee with parameters `(endianness, in)` is entered, given the
    argument values of the call; `make([]byte, 2)` is an opaque symbol -/
def u16Env (args : List Val) : Env :=
  [("endianness", args.headD .unk), ("in", args.tail.headD .unk),
   ("make([]byte, 2)", .sym "make([]byte, 2)")]

/-- **`uint16ToBytes(LITTLE_ENDIAN, v)`** (encoding.go) run on the argument values `[2, v]`: exactly
    one call, `binary.LittleEndian.PutUint16(out, v)` with `out` the fresh `make([]byte, 2)`; `out` is
    returned. (`BIG_ENDIAN` = 1 would call `binary.BigEndian.PutUint16`.) -/
theorem C06S_uint16ToBytes_le (o : Oracle) (v : Int) (cs : Calls)
    (ho : o "binary.LittleEndian.PutUint16" [.sym "make([]byte, 2)", .int v] = some [])
    (fuel : Nat) (hf : 8 ≤ fuel) :
    execFrom o fuel gs_uint16ToBytes (u16Env [.int 2, .int v]) cs =
      ⟨Env.write (u16Env [.int 2, .int v]) "out" (.sym "make([]byte, 2)"), .returned,
        cs ++ [("binary.LittleEndian.PutUint16", [.sym "make([]byte, 2)", .int v])]⟩ :=
  crc_uint16ToBytes_le o (.int v) (.sym "make([]byte, 2)") _ cs ho
    (by simp only [u16Env, read?_cons, List.headD_cons, ↓reduceIte])
    (by simp only [u16Env, read?_cons, List.headD_cons, List.tail_cons, String.reduceEq, ↓reduceIte])
    (by simp only [u16Env, read?_cons, String.reduceEq, ↓reduceIte]) fuel hf

/-- **the bytes of `crc.value`**: `crc.value` calls `uint16ToBytes` with `[2, s]`; `uint16ToBytes` run
    on THOSE argument values calls `binary.LittleEndian.PutUint16(make([]byte, 2), s)` and returns the
    slice; `PutUint16` stores `putLE16 s` (`b[0] = byte(v); b[1] = byte(v >> 8)`, transcribed from
    encoding/binary), and that is `Crc.value s = le16 s = [lo s, hi s]`, low byte first. -/
theorem C06S_value_bytes (bs : Bytes) (s : U16) (env : Env)
    (hcrc : Env.read? env "c.crc" = some (.int (s.toNat : Int))) (fuel : Nat) (hf : 8 ≤ fuel) :
    let r1 := exec (crcOracle bs) fuel gs_crc_value env
    r1.how = .returned ∧ r1.calls = [("uint16ToBytes", [.int 2, .int (s.toNat : Int)])] ∧
    ∀ args, r1.argsOf "uint16ToBytes" = [args] →
      let r2 := exec (crcOracle bs) fuel gs_uint16ToBytes (u16Env args)
      r2.how = .returned ∧
      r2.calls = [("binary.LittleEndian.PutUint16", [.sym "make([]byte, 2)", .int (s.toNat : Int)])] ∧
      Env.read r2.env "out" = .sym "make([]byte, 2)" ∧
      putLE16 s.toNat = Crc.value s ∧ Crc.value s = [lo s, hi s] := by
  have h1 := (C06S_value (crcOracle bs) s [.sym "uint16ToBytes(LITTLE_ENDIAN, c.crc)"] env [] rfl hcrc
    fuel (by omega)).1
  have h1' : exec (crcOracle bs) fuel gs_crc_value env = _ := h1
  simp only [h1', List.nil_append]
  refine ⟨trivial, trivial, ?_⟩
  intro args hargs
  have ha : args = [.int 2, .int (s.toNat : Int)] := by
    have : [[Val.int 2, Val.int (s.toNat : Int)]] = [args] := hargs
    simp only [List.cons.injEq, and_true] at this
    exact this.symm
  subst ha
  have h2 := C06S_uint16ToBytes_le (crcOracle bs) (s.toNat : Int) [] rfl fuel hf
  have h2' : exec (crcOracle bs) fuel gs_uint16ToBytes (u16Env [.int 2, .int (s.toNat : Int)]) = _ := h2
  simp only [h2', List.nil_append]
  exact ⟨trivial, trivial, by simp only [read_def, read?_write, ↓reduceIte, Option.getD_some],
    putLE16_eq s, rfl⟩

/-! ## 5. `isEqual` -/

/-- static: `crc.isEqual` assigns `yes` the comparison of the leaf
    `bytesToUint16(LITTLE_ENDIAN, []byte{low, high})` with `c.crc`, and returns; nothing else -/
theorem C06S_isEqual_shape :
    gs_crc_isEqual =
      .seq (.assign "yes" (.cmp "==" (.call "bytesToUint16(LITTLE_ENDIAN, []byte{low, high})" .u16)
        (.var "c.crc" .u16))) .ret ∧
    assignedTo "yes" gs_crc_isEqual =
      [.cmp "==" (.call "bytesToUint16(LITTLE_ENDIAN, []byte{low, high})" .u16) (.var "c.crc" .u16)] ∧
    bindCalls gs_crc_isEqual = [] ∧ opaques gs_crc_isEqual = [] ∧
    intConst? "LITTLE_ENDIAN" = some 2 :=
  ⟨rfl, rfl, rfl, rfl, by decide +kernel⟩

/-- the environment in which `bytesToUint16(LITTLE_ENDIAN, []byte{low, high})` is entered -/
def b2uEnv : Env := [("endianness", .int 2), ("in", .sym "[]byte{low, high}")]

/-- **`crc.isEqual` = `Crc.isEqual`**. `bytesToUint16` (encoding.go) run with endianness
    `LITTLE_ENDIAN` on the slice `[]byte{low, high}` makes exactly one call,
    `binary.LittleEndian.Uint16(in)`, and returns its result; the oracle answers that call with
    `leU16 low high` (`uint16(b[0]) | uint16(b[1])<<8`, transcribed from encoding/binary), which is
    `(mk16 high low).toNat`. With the leaf of `gs_crc_isEqual` bound to the value that run returns,
    and `c.crc = s`, `crc.isEqual` returns with `yes = Crc.isEqual s low high` and no call. -/
theorem C06S_isEqual (o : Oracle) (s : U16) (low high : Byte)
    (ho : o "binary.LittleEndian.Uint16" [.sym "[]byte{low, high}"] = some [.int (leU16 low high : Int)])
    (fuel : Nat) (hf : 8 ≤ fuel) :
    let r1 := exec o fuel gs_bytesToUint16 b2uEnv
    r1.how = .returned ∧ r1.calls = [("binary.LittleEndian.Uint16", [.sym "[]byte{low, high}"])] ∧
    Env.read r1.env "out" = .int ((mk16 high low).toNat : Int) ∧
    ∀ (env : Env) (cs : Calls),
      Env.read? env "bytesToUint16(LITTLE_ENDIAN, []byte{low, high})" = some (Env.read r1.env "out") →
      Env.read? env "c.crc" = some (.int (s.toNat : Int)) →
      execFrom o fuel gs_crc_isEqual env cs =
        ⟨Env.write env "yes" (Val.ofBool (Crc.isEqual s low high)), .returned, cs⟩ := by
  have h1 := crc_bytesToUint16_le o (.sym "[]byte{low, high}") (.int (leU16 low high : Int)) b2uEnv [] ho
    (by simp only [b2uEnv, read?_cons, ↓reduceIte])
    (by simp only [b2uEnv, read?_cons, String.reduceEq, ↓reduceIte]) fuel hf
  have h1' : exec o fuel gs_bytesToUint16 b2uEnv = _ := h1
  have hout : Env.read (Env.write b2uEnv "out" (.int (leU16 low high : Int))) "out" =
      .int ((mk16 high low).toNat : Int) := by
    simp only [read_def, read?_write, ↓reduceIte, Option.getD_some, leU16_eq]
  simp only [h1', List.nil_append, hout]
  refine ⟨trivial, trivial, trivial, ?_⟩
  intro env cs hleaf hcrc
  rw [crc_isEqual_run o _ _ env cs hleaf hcrc fuel (by omega), crc_isEqual_decide]

/-! ## 6. `init; add; value` -/

/-- **the CRC of a byte string as the source computes it = `Crc.crc16`.** From any environment
    holding `len(in) = bs.length`: `crc.init` returns; `crc.add` run from the environment `init`
    left returns with `c.crc = (Crc.add Crc.init bs).toNat` after the look-ups `crcTrace`; `crc.value`
    run from the environment `add` left makes the one call `uint16ToBytes [2, that value]`;
    `uint16ToBytes` run on those arguments makes the one call
    `binary.LittleEndian.PutUint16(make([]byte, 2), that value)`; the bytes it stores (`putLE16`) are
    `Crc.crc16 bs`. -/
theorem C06S_crc16_src (bs : Bytes) (hn : bs.length < 2^63) (env : Env)
    (hlen : Env.read? env "len(in)" = some (.int (bs.length : Int)))
    (fuel : Nat) (hf : bs.length + 20 ≤ fuel) :
    let v : Int := ((Crc.add Crc.init bs).toNat : Int)
    let r1 := exec (crcOracle bs) fuel gs_crc_init env
    let r2 := exec (crcOracle bs) fuel crcGs r1.env
    let r3 := exec (crcOracle bs) fuel gs_crc_value r2.env
    let r4 := exec (crcOracle bs) fuel gs_uint16ToBytes (u16Env [.int 2, .int v])
    r1.how = .returned ∧ r1.calls = [] ∧
    r2.how = .returned ∧ r2.calls = crcTrace 0 bs Crc.init ∧ Env.read r2.env "c.crc" = .int v ∧
    r3.how = .returned ∧ r3.calls = [("uint16ToBytes", [.int 2, .int v])] ∧
    r4.how = .returned ∧
    r4.calls = [("binary.LittleEndian.PutUint16", [.sym "make([]byte, 2)", .int v])] ∧
    putLE16 (Crc.add Crc.init bs).toNat = Crc.crc16 bs := by
  intro v
  have h1 := crc_init_run (crcOracle bs) env [] fuel (by omega)
  have h1' : exec (crcOracle bs) fuel gs_crc_init env = _ := h1
  obtain ⟨env2, h2, hc2, hfr⟩ := crc_run bs hn Crc.init (Env.write env "c.crc" (.int 65535)) []
    (by simp only [read?_write, String.reduceEq, ↓reduceIte]; exact hlen)
    (by simp only [read?_write, ↓reduceIte]; rfl) fuel (by omega)
  have h2' : exec (crcOracle bs) fuel crcGs (Env.write env "c.crc" (.int 65535)) = _ := h2
  have h3 := crc_value_run (crcOracle bs) v [.sym "uint16ToBytes(LITTLE_ENDIAN, c.crc)"] env2 [] rfl hc2
    fuel (by omega)
  have h3' : exec (crcOracle bs) fuel gs_crc_value env2 = _ := h3
  have h4 := C06S_uint16ToBytes_le (crcOracle bs) v [] rfl fuel (by omega)
  have h4' : exec (crcOracle bs) fuel gs_uint16ToBytes (u16Env [.int 2, .int v]) = _ := h4
  simp only [h1', h2', h3', h4', List.nil_append]
  refine ⟨trivial, trivial, trivial, trivial, ?_, trivial, trivial, trivial, trivial, ?_⟩
  · simp only [read_def, hc2, Option.getD_some]; rfl
  · rw [putLE16_eq]; rfl

/-- the register after `init; add` is the bit-serial CRC-16/MODBUS of the specification
    (`Crc.refCrc`: reflected polynomial 0xA001, initial value 0xFFFF; Props/C06 `crc_eq_reference`) -/
theorem C06S_crc16_reference (bs : Bytes) (hn : bs.length < 2^63) (env : Env)
    (hlen : Env.read? env "len(in)" = some (.int (bs.length : Int)))
    (fuel : Nat) (hf : bs.length + 20 ≤ fuel) :
    Env.read (exec (crcOracle bs) fuel crcGs (exec (crcOracle bs) fuel gs_crc_init env).env).env "c.crc" =
      .int ((Crc.refCrc bs).toNat : Int) := by
  have h := (C06S_crc16_src bs hn env hlen fuel hf).2.2.2.2.1
  rw [← crc_eq_reference]
  exact h

/-! ## 7. the table -/

/-- **the oracle's table is the extracted one, and the extracted one is the model's**: `crcOracle`
    answers `index crcTable [v]` with `Gen.crcTable[v]` for `0 ≤ v < 256` and refuses every other
    argument list; `Gen.crcTable` (regenerated from crc.go) is `Crc.table` entry by entry. -/
theorem C06S_table_is_extracted (bs : Bytes) :
    (∀ v : Int, 0 ≤ v → v < 256 →
      crcOracle bs "index crcTable" [.int v] = some [.int ((Gen.crcTable[v.toNat]! : Nat) : Int)]) ∧
    (∀ v : Int, ¬ (0 ≤ v ∧ v < 256) → crcOracle bs "index crcTable" [.int v] = none) ∧
    (∀ x, crcOracle bs "index crcTable" [.sym x] = none) ∧ crcOracle bs "index crcTable" [.unk] = none ∧
    Gen.crcTable = Crc.table.toList.map BitVec.toNat ∧ Gen.crcTable.length = 256 ∧
    (∀ n, n < 256 → Gen.crcTable[n]! = (Crc.table[n]!).toNat) := by
  refine ⟨?_, ?_, fun x => rfl, rfl, Tie.C06.crc_table, ?_, genTable_eq⟩
  · intro v h0 h1
    simp only [crcOracle, String.reduceEq, ↓reduceIte, crcTableAnswer_int, h0, h1, and_self]
  · intro v h
    simp only [crcOracle, String.reduceEq, ↓reduceIte, crcTableAnswer_int, h]
  · rw [Tie.C06.crc_table, List.length_map, Array.length_toList, crcTable_size]

/-! ## 8. sensitivity: variants derived from the generated terms -/
section sensitivity

/-- apply `f` to every literal of an expression -/
def mapLitE (f : Int → GTy → Int) : GExpr → GExpr
  | .lit v t => .lit (f v t) t
  | .var x t => .var x t
  | .call x t => .call x t
  | .conv t e => .conv t (mapLitE f e)
  | .bin op t a b => .bin op t (mapLitE f a) (mapLitE f b)
  | .cmp op a b => .cmp op (mapLitE f a) (mapLitE f b)
  | .not e => .not (mapLitE f e)
  | .and a b => .and (mapLitE f a) (mapLitE f b)
  | .or a b => .or (mapLitE f a) (mapLitE f b)

/-- apply `f` to every literal of a statement -/
def mapLitS (f : Int → GTy → Int) : GStmt → GStmt
  | .seq a b => .seq (mapLitS f a) (mapLitS f b)
  | .assign x e => .assign x (mapLitE f e)
  | .bindCall ts g as => .bindCall ts g (as.map (mapLitE f))
  | .ite c t e => .ite (mapLitE f c) (mapLitS f t) (mapLitS f e)
  | .loop b => .loop (mapLitS f b)
  | s => s

/-- `c.crc >>= 7` (the only literal 8 of type `int` is the shift count) -/
def shift7 (v : Int) (t : GTy) : Int := if v = 8 ∧ t = .int then 7 else v
/-- `c.crc & 0x0f` -/
def mask0f (v : Int) (t : GTy) : Int := if v = 255 ∧ t = .u16 then 15 else v
/-- `c.crc = 0x0000` in `init` -/
def init0 (v : Int) (t : GTy) : Int := if v = 65535 ∧ t = .u16 then 0 else v

/-- `c.crc ^= crcTable[index]; c.crc >>= 8` instead of `c.crc >>= 8; c.crc ^= crcTable[index]` -/
def xorFirst : GStmt → GStmt
  | .seq (.assign x e1) (.seq (.bindCall ts g as) (.assign y e2)) =>
    .seq (.bindCall ts g as) (.seq (.assign y e2) (.assign x e1))
  | .seq a b => .seq (xorFirst a) (xorFirst b)
  | .ite c t e => .ite c (xorFirst t) (xorFirst e)
  | .loop b => .loop (xorFirst b)
  | s => s

/-- the variants differ from the evaluated term exactly where intended -/
theorem C06S_variants :
    mapLitS (fun v _ => v) crcGs = crcGs ∧
    assignedTo "c.crc" (mapLitS shift7 crcGs) =
      [.bin ">>" .u16 (.var "c.crc" .u16) (.lit 7 .int),
       .bin "^" .u16 (.var "c.crc" .u16) (.var "#crcTable[index]" .u16)] ∧
    assignedTo "index" (mapLitS mask0f crcGs) =
      [.bin "^" .u8 (.var "b" .u8) (.conv .u8 (.bin "&" .u16 (.var "c.crc" .u16) (.lit 15 .u16)))] ∧
    assignedTo "c.crc" (xorFirst crcGs) =
      [.bin "^" .u16 (.var "c.crc" .u16) (.var "#crcTable[index]" .u16),
       .bin ">>" .u16 (.var "c.crc" .u16) (.lit 8 .int)] ∧
    mapLitS init0 gs_crc_init = .seq (.assign "c.crc" (.lit 0 .u16)) .ret ∧
    bindCalls (mapLitS shift7 crcGs) = bindCalls crcGs ∧
    bindCalls (mapLitS mask0f crcGs) = bindCalls crcGs ∧
    bindCalls (xorFirst crcGs) = bindCalls crcGs :=
  ⟨rfl, rfl, rfl, rfl, rfl, rfl, rfl, rfl⟩

/-- the request `01 03 00 00 00 01` (read one holding register at 0 from unit 1) -/
def crcSample : Bytes := [0x01, 0x03, 0x00, 0x00, 0x00, 0x01]

/-- `init` (term `ini`), then `add` (term `add`) over `bs`: the final `c.crc` -/
def srcCrc (ini add : GStmt) (bs : Bytes) : Val :=
  Env.read (exec (crcOracle bs) 40 add
    (("len(in)", .int (bs.length : Int)) :: (exec (crcOracle bs) 5 ini []).env)).env "c.crc"

/-- **the true term on `01 03 00 00 00 01`**: CRC 0x0A84, i.e. bytes `84 0A` on the wire; the six
    table look-ups are at 254, 125, 64, 32, 241, 24; all of it agrees with the model -/
theorem C06S_sample_run :
    srcCrc gs_crc_init crcGs crcSample = .int 0x0A84 ∧
    putLE16 0x0A84 = [0x84, 0x0A] ∧
    Crc.crc16 crcSample = [0x84, 0x0A] ∧
    (exec (crcOracle crcSample) 40 crcGs [("len(in)", .int 6), ("c.crc", .int 65535)]).how = .returned ∧
    (exec (crcOracle crcSample) 40 crcGs [("len(in)", .int 6), ("c.crc", .int 65535)]).argsOf "index crcTable" =
      [[.int 254], [.int 125], [.int 64], [.int 32], [.int 241], [.int 24]] ∧
    crcIndices Crc.init crcSample = [254, 125, 64, 32, 241, 24] := by
  decide +kernel

/-- shift by 7 instead of 8 -/
theorem C06S_sensitive_shift7 :
    srcCrc gs_crc_init (mapLitS shift7 crcGs) crcSample ≠ srcCrc gs_crc_init crcGs crcSample ∧
    srcCrc gs_crc_init (mapLitS shift7 crcGs) crcSample = .int 18483 := by
  decide +kernel

/-- mask 0x0f instead of 0xff -/
theorem C06S_sensitive_mask0f :
    srcCrc gs_crc_init (mapLitS mask0f crcGs) crcSample ≠ srcCrc gs_crc_init crcGs crcSample ∧
    srcCrc gs_crc_init (mapLitS mask0f crcGs) crcSample = .int 49536 := by
  decide +kernel

/-- xor with the table entry before the shift -/
theorem C06S_sensitive_xorFirst :
    srcCrc gs_crc_init (xorFirst crcGs) crcSample ≠ srcCrc gs_crc_init crcGs crcSample ∧
    srcCrc gs_crc_init (xorFirst crcGs) crcSample = .int 14 := by
  decide +kernel

/-- initial value 0 instead of 0xffff -/
theorem C06S_sensitive_init0 :
    srcCrc (mapLitS init0 gs_crc_init) crcGs crcSample ≠ srcCrc gs_crc_init crcGs crcSample ∧
    srcCrc (mapLitS init0 gs_crc_init) crcGs crcSample = .int 4484 := by
  decide +kernel

/-- WITHOUT the probe the leaf `in[#i]` has one value for the whole run: with the first byte bound
    once, the generated loop feeds `01` six times — the reason for the instrumentation; and with
    nothing bound the run is stuck at the first read (`b` is `unk`, the table call is refused) -/
theorem C06S_sensitive_noProbe :
    Env.read (exec (crcOracle crcSample) 40 gs_crc_add
      [("in[#i]", .int 1), ("len(in)", .int 6), ("c.crc", .int 65535)]).env "c.crc" ≠ .int 0x0A84 ∧
    (exec (crcOracle crcSample) 40 gs_crc_add [("len(in)", .int 6), ("c.crc", .int 65535)]).how =
      .stoppedAt "index crcTable" [.unk] := by
  decide +kernel

/-- the oracle refuses an index outside the table; the model's indices never are (`C06S_add_loop`) -/
theorem C06S_sensitive_table_range :
    crcOracle crcSample "index crcTable" [.int 256] = none ∧
    crcOracle crcSample "index crcTable" [.int (-1)] = none ∧
    crcOracle crcSample "index crcTable" [.int 255] = some [.int 0x4040] ∧
    crcOracle crcSample "index crcTable" [.int 1] = some [.int 0xc0c1] := by
  decide +kernel

end sensitivity

/-! ## 9. concrete runs (kernel evaluation) -/

/-- empty input: the state is unchanged, the only call is the final probe -/
example : exec (crcOracle []) 20 crcGs [("len(in)", .int 0), ("c.crc", .int 65535)] =
    ⟨(exec (crcOracle []) 20 crcGs [("len(in)", .int 0), ("c.crc", .int 65535)]).env, .returned,
      [("#in[#i]", [.int 0])]⟩ ∧
    Env.read (exec (crcOracle []) 20 crcGs [("len(in)", .int 0), ("c.crc", .int 65535)]).env "c.crc" =
      .int 65535 := by decide +kernel
/-- too little fuel: out of fuel, not stuck -/
example : (exec (crcOracle crcSample) 8 crcGs [("len(in)", .int 6), ("c.crc", .int 65535)]).how =
    .outOfFuel := by decide +kernel
/-- a frame followed by its own CRC leaves the register at 0 -/
example : srcCrc gs_crc_init crcGs (crcSample ++ [0x84, 0x0A]) = .int 0 := by decide +kernel
/-- `isEqual` on the crcSample: leaf = 0x0A84 -/
example : Env.read (exec (crcOracle []) 5 gs_crc_isEqual
    [("bytesToUint16(LITTLE_ENDIAN, []byte{low, high})", .int (leU16 0x84 0x0A)), ("c.crc", .int 0x0A84)]).env
    "yes" = .int 1 := by decide +kernel
example : Env.read (exec (crcOracle []) 5 gs_crc_isEqual
    [("bytesToUint16(LITTLE_ENDIAN, []byte{low, high})", .int (leU16 0x0A 0x84)), ("c.crc", .int 0x0A84)]).env
    "yes" = .int 0 := by decide +kernel

end Modbus.Props.C06

#print axioms Modbus.Props.C06.C06S_add_shape
#print axioms Modbus.Props.C06.C06S_instr
#print axioms Modbus.Props.C06.C06S_init
#print axioms Modbus.Props.C06.C06S_add_round
#print axioms Modbus.Props.C06.C06S_add_round'
#print axioms Modbus.Props.C06.C06S_add_round_exit
#print axioms Modbus.Props.C06.C06S_add_loop
#print axioms Modbus.Props.C06.C06S_add_lookups
#print axioms Modbus.Props.C06.C06S_add_no_panic
#print axioms Modbus.Props.C06.C06S_value
#print axioms Modbus.Props.C06.C06S_uint16ToBytes_le
#print axioms Modbus.Props.C06.C06S_value_bytes
#print axioms Modbus.Props.C06.C06S_isEqual_shape
#print axioms Modbus.Props.C06.C06S_isEqual
#print axioms Modbus.Props.C06.C06S_crc16_src
#print axioms Modbus.Props.C06.C06S_crc16_reference
#print axioms Modbus.Props.C06.C06S_table_is_extracted
#print axioms Modbus.Props.C06.C06S_variants
#print axioms Modbus.Props.C06.C06S_sample_run
#print axioms Modbus.Props.C06.C06S_sensitive_shift7
#print axioms Modbus.Props.C06.C06S_sensitive_mask0f
#print axioms Modbus.Props.C06.C06S_sensitive_xorFirst
#print axioms Modbus.Props.C06.C06S_sensitive_init0
#print axioms Modbus.Props.C06.C06S_sensitive_noProbe
#print axioms Modbus.Props.C06.C06S_sensitive_table_range
