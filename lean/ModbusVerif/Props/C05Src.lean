import ModbusVerif.Lemmas.GoEvalTransportLemmas
import ModbusVerif.Lemmas.MbapLemmas
import ModbusVerif.Props.C05History
/-
  C05, source tie for the MBAP client transport: `tcpTransport.readResponse` (the skip loop) and
  `tcpTransport.ExecuteRequest`, as rendered by the translator (`Gen.gs_tcpTransport_readResponse`,
  `Gen.gs_tcpTransport_ExecuteRequest`, regenerated from /repo on every run), are EVALUATED and
  proved equal to the model (`Mbap.readResponse`, `Client.frameFor`, `TState.lastTxn`), about
  which Props/C05.lean and Props/C05History.lean prove the property.

  1. `C05S_readResponse`: the loop against ANY list of frame-read outcomes and any outstanding id.
     `C05S_readResponse_model`: the outcomes being the successive `Mbap.readFrame` results of a
     byte stream, the loop returns what `Mbap.readResponse` returns, after consuming the same bytes.
  2. `C05S_execute_mbap`: order of `SetDeadline`, the 16-bit increment, the single `Write`,
     `readResponse`; `C05S_txn_matches_model`: the counter equals `C05H_txn_advances`'.

  How the k-th `tt.readMBAPFrame()` gets the k-th answer: the calls have no arguments, a stateless
  `GoEval.Oracle` would answer them all alike. `GoEval.execW` (Lemmas/GoEvalTransportLemmas.lean)
  is `GoEval.exec` with an oracle that also sees the call log (`World := Calls → Oracle`;
  `execFromW_const`: same function on stateless oracles). `frameWorld outs` answers
  `tt.readMBAPFrame` with `outs[k]`, `k` = number of `tt.readMBAPFrame` calls already in the log,
  and does not answer when the list is exhausted (the run then ends `stoppedAt "tt.readMBAPFrame"`).
  The loop is unbounded: `rr_loop` is an induction on the outcomes still to come, one unrolling
  of `execFromW_loop` per outcome, fuel `outs.length + 8`; `execW_mono` gives every larger fuel.

  What is modelled (not derived from the generated terms):
  * the results of `tt.readMBAPFrame()` are `(res, txnId, err)` = a symbol, a `uint16`, a symbol
    (`"nil"` = nil; `Mbap.Frame.ok p t` ↦ `(nm p, t, nil)`, `.err x` ↦ `(nil, 0, errSym x)`;
    `readMBAPFrame` itself is tied to `Mbap.readFrame` in Props/C02SrcFrames.lean);
  * `tt.lastTxnId` is shared by `ExecuteRequest` and `readResponse` (a field of the receiver):
    the callee's environment takes it from the caller's environment at the call (`calleeEnv`);
  * the two opaque leaves of `ExecuteRequest` are bound to the symbols of their own text.
-/
set_option linter.unusedSimpArgs false
set_option linter.unusedVariables false

namespace Modbus.Props.C05
open Modbus Modbus.Gen Modbus.GoEval

/-! ## 1. the skip loop against a list of outcomes -/

/-- one result of `tt.readMBAPFrame()`: `(res, txnId, err)` -/
structure Out where
  res : String
  txn : U16
  err : String
  deriving DecidableEq, Repr

def Out.vals (o : Out) : List Val := [.sym o.res, .int o.txn.toNat, .sym o.err]

/-- the k-th `tt.readMBAPFrame()` is answered by `outs[k]`; nothing else is answered -/
def frameWorld (outs : List Out) : World := fun cs f _ =>
  if f = "tt.readMBAPFrame" then (outs[countCalls "tt.readMBAPFrame" cs]?).map Out.vals else none

def loopBody : GStmt → GStmt
  | .seq (.loop b) _ => b
  | _ => .skip

/-- the body of the `for` of `readResponse` -/
def rrBody : GStmt := loopBody gs_tcpTransport_readResponse

/-- `readResponse` is `for { body }; return` -/
theorem rr_shape : gs_tcpTransport_readResponse = .seq (.loop rrBody) .ret := by rfl

/-- environment of `readResponse`: the outstanding id and the zero-valued locals -/
def rrEnv (last : U16) : Env :=
  [("tt.lastTxnId", .int last.toNat), ("res", .sym "nil"), ("txnId", .int 0), ("err", .sym "nil")]

def bindOut (env : Env) (o : Out) : Env :=
  ((env.write "res" (.sym o.res)).write "txnId" (.int o.txn.toNat)).write "err" (.sym o.err)

/-- what the loop needs of its environment -/
structure RREnv (last : U16) (env : Env) : Prop where
  id : Env.read? env "tt.lastTxnId" = some (.int last.toNat)
  nil : Env.read? env "nil" = none
  upi : Env.read? env "ErrUnknownProtocolId" = none

theorem RREnv.bind {last env} (h : RREnv last env) (o : Out) : RREnv last (bindOut env o) := by
  constructor <;> simp [bindOut, read?_write, h.id, h.nil, h.upi]

theorem rrEnv_ok (last : U16) : RREnv last (rrEnv last) := by
  constructor <;> simp [rrEnv, read?_cons, read?_nil]

/-- how one round of the loop ends, READ OFF THE RUN (`rr_round`) -/
def roundEnd (last : U16) (o : Out) : End :=
  if o.err = "ErrUnknownProtocolId" then .continued
  else if o.err ≠ "nil" then .returned
  else if last ≠ o.txn then .continued else .broke

theorem u16_toNat_ne (a b : U16) : ((a.toNat : Int) ≠ (b.toNat : Int)) ↔ a ≠ b := by
  constructor
  · intro h e; exact h (by rw [e])
  · intro h e; exact h (BitVec.eq_of_toNat_eq (by omega))

def rdCall : String × List Val := ("tt.readMBAPFrame", [])

/-- one round, evaluated: the three results are bound, then the three `if`s of the source -/
theorem rr_round (outs : List Out) (last : U16) (o : Out) (m : Nat) (env : Env) (cs : Calls)
    (he : RREnv last env)
    (hk : outs[countCalls "tt.readMBAPFrame" cs]? = some o) :
    execFromW (frameWorld outs) (m + 6) rrBody env cs =
      ⟨bindOut env o, roundEnd last o, cs ++ [rdCall]⟩ := by
  go_evalW [rrBody, loopBody, gs_tcpTransport_readResponse, frameWorld, hk, he.id, he.nil, he.upi,
    Option.map_some, Out.vals, roundEnd, bindOut, u16_toNat_ne, rdCall]
  repeat' split
  all_goals rfl

theorem rr_round_none (outs : List Out) (m : Nat) (env : Env) (cs : Calls)
    (hk : outs[countCalls "tt.readMBAPFrame" cs]? = none) :
    execFromW (frameWorld outs) (m + 6) rrBody env cs =
      ⟨env, .stoppedAt "tt.readMBAPFrame" [], cs⟩ := by
  go_evalW [rrBody, loopBody, gs_tcpTransport_readResponse, frameWorld, hk, Option.map_none]

/-- the loop on the outcomes still to come -/
def loopSpec (last : U16) : List Out → Env → Calls → Res
  | [], env, cs => ⟨env, .stoppedAt "tt.readMBAPFrame" [], cs⟩
  | o :: rest, env, cs =>
    match roundEnd last o with
    | .continued => loopSpec last rest (bindOut env o) (cs ++ [rdCall])
    | .broke => ⟨bindOut env o, .fell, cs ++ [rdCall]⟩
    | h => ⟨bindOut env o, h, cs ++ [rdCall]⟩

theorem roundEnd_cases (last o) : roundEnd last o = .continued ∨ roundEnd last o = .returned ∨
    roundEnd last o = .broke := by
  unfold roundEnd; repeat' split
  all_goals simp

theorem drop_cons_inv {α} : ∀ (l : List α) (k : Nat) (o : α) (rest : List α),
    l.drop k = o :: rest → l[k]? = some o ∧ l.drop (k + 1) = rest := by
  intro l
  induction l with
  | nil => intro k o rest h; simp at h
  | cons a t ih =>
    intro k o rest h
    cases k with
    | zero => simp at h; simp [h.1, h.2]
    | succ k => simpa using ih k o rest (by simpa using h)

/-- the unbounded loop: induction on the outcomes still to come; one unrolling per outcome -/
theorem rr_loop (outs : List Out) (last : U16) : ∀ (rem : List Out) (env : Env) (cs : Calls),
    RREnv last env → outs.drop (countCalls "tt.readMBAPFrame" cs) = rem →
    execFromW (frameWorld outs) (rem.length + 7) (.loop rrBody) env cs = loopSpec last rem env cs := by
  intro rem
  induction rem with
  | nil =>
    intro env cs he hd
    have hk : outs[countCalls "tt.readMBAPFrame" cs]? = none := by
      rw [List.getElem?_eq_none_iff]; exact List.drop_eq_nil_iff.mp hd
    show execFromW (frameWorld outs) (6 + 1) (.loop rrBody) env cs = _
    rw [execFromW_loop, rr_round_none outs 0 env cs hk]
    rfl
  | cons o rest ih =>
    intro env cs he hd
    obtain ⟨hk, hd'⟩ := drop_cons_inv _ _ _ _ hd
    show execFromW (frameWorld outs) ((rest.length + 1 + 6) + 1) (.loop rrBody) env cs = _
    rw [execFromW_loop, rr_round outs last o (rest.length + 1) env cs he hk]
    have ih' := ih (bindOut env o) (cs ++ [rdCall]) (he.bind o)
      (by rw [rdCall, countCalls_snoc_same]; exact hd')
    simp only [loopSpec]
    rcases roundEnd_cases last o with h | h | h <;> rw [h]
    · rw [loopKW_continued]; exact ih'
    · rfl
    · rfl

/-- `for { … }; return` -/
def rrSpec (last : U16) (outs : List Out) (env : Env) : Res :=
  match (loopSpec last outs env []).how with
  | .fell => { loopSpec last outs env [] with how := .returned }
  | _ => loopSpec last outs env []

theorem loopSpec_how (last : U16) : ∀ (outs : List Out) (env : Env) (cs : Calls),
    (loopSpec last outs env cs).how = .fell ∨ (loopSpec last outs env cs).how = .returned ∨
    (loopSpec last outs env cs).how = .stoppedAt "tt.readMBAPFrame" [] := by
  intro outs
  induction outs with
  | nil => intro env cs; simp [loopSpec]
  | cons o rest ih =>
    intro env cs
    simp only [loopSpec]
    rcases roundEnd_cases last o with h | h | h <;> rw [h]
    · exact ih _ _
    · simp
    · simp

theorem rr_run (outs : List Out) (last : U16) (env : Env) (he : RREnv last env) :
    execW (frameWorld outs) (outs.length + 8) gs_tcpTransport_readResponse env =
      rrSpec last outs env := by
  rw [execW_def, rr_shape, execFromW_seq, rr_loop outs last outs env [] he rfl]
  unfold rrSpec
  generalize loopSpec last outs env [] = r
  obtain ⟨e, hw, c⟩ := r
  cases hw <;> rfl

theorem rrSpec_how (last : U16) (outs : List Out) (env : Env) :
    (rrSpec last outs env).how ≠ .outOfFuel := by
  unfold rrSpec
  rcases loopSpec_how last outs env [] with h | h | h <;> rw [h] <;> simp [h]

/-- every fuel from `outs.length + 8` on gives the same run -/
theorem rr_run_fuel (outs : List Out) (last : U16) (env : Env) (he : RREnv last env) (fuel : Nat)
    (hf : outs.length + 8 ≤ fuel) :
    execW (frameWorld outs) fuel gs_tcpTransport_readResponse env = rrSpec last outs env := by
  rw [execW_mono _ _ _ _ _ hf (by rw [rr_run outs last env he]; exact rrSpec_how last outs env),
    rr_run outs last env he]

/-! ### what the loop selects -/

/-- the two `continue`s of the source -/
def Out.skipped (last : U16) (o : Out) : Bool :=
  o.err == "ErrUnknownProtocolId" || (o.err == "nil" && o.txn != last)

/-- index and outcome of the first outcome that is not skipped -/
def pick (last : U16) : List Out → Option (Nat × Out)
  | [] => none
  | o :: t =>
    if o.skipped last = true then (pick last t).map (fun p => (p.1 + 1, p.2)) else some (0, o)

theorem roundEnd_continued (last : U16) (o : Out) :
    roundEnd last o = .continued ↔ o.skipped last = true := by
  unfold roundEnd Out.skipped
  by_cases h1 : o.err = "ErrUnknownProtocolId"
  · simp [h1]
  · by_cases h2 : o.err = "nil"
    · by_cases h3 : last = o.txn
      · simp [h1, h2, h3]
      · have h3' : ¬ o.txn = last := fun h => h3 h.symm
        simp [h1, h2, h3, h3']
    · simp [h1, h2]

theorem roundEnd_not_skipped (last : U16) (o : Out) (h : o.skipped last = false) :
    roundEnd last o = if o.err = "nil" then .broke else .returned := by
  unfold roundEnd
  unfold Out.skipped at h
  by_cases h1 : o.err = "ErrUnknownProtocolId"
  · simp [h1] at h
  · by_cases h2 : o.err = "nil"
    · by_cases h3 : last = o.txn
      · simp [h1, h2, h3]
      · have h3' : ¬ o.txn = last := fun h => h3 h.symm
        simp [h1, h2, h3'] at h
    · simp [h1, h2]

/-- the observable part of a finished loop: it ended at outcome `k` = `o` -/
structure Picked (r : Res) (cs : Calls) (k : Nat) (o : Out) : Prop where
  how : r.how = if o.err = "nil" then .fell else .returned
  calls : r.calls = cs ++ List.replicate (k + 1) rdCall
  res : Env.read r.env "res" = .sym o.res
  err : Env.read r.env "err" = .sym o.err
  txn : Env.read r.env "txnId" = .int o.txn.toNat

theorem loopSpec_pick (last : U16) : ∀ (outs : List Out) (env : Env) (cs : Calls),
    match pick last outs with
    | some (k, o) => Picked (loopSpec last outs env cs) cs k o
    | none => (loopSpec last outs env cs).how = .stoppedAt "tt.readMBAPFrame" [] ∧
        (loopSpec last outs env cs).calls = cs ++ List.replicate outs.length rdCall := by
  intro outs
  induction outs with
  | nil => intro env cs; simp [pick, loopSpec]
  | cons o rest ih =>
    intro env cs
    by_cases hs : o.skipped last = true
    · have hc := (roundEnd_continued last o).mpr hs
      have ih' := ih (bindOut env o) (cs ++ [rdCall])
      simp only [pick, hs, if_true, loopSpec, hc]
      cases hp : pick last rest with
      | none =>
        rw [hp] at ih'
        simp only [Option.map_none]
        refine ⟨ih'.1, ?_⟩
        rw [ih'.2, List.append_assoc]; rfl
      | some ko =>
        obtain ⟨k, o'⟩ := ko
        rw [hp] at ih'
        simp only [Option.map_some]
        exact ⟨ih'.how, by rw [ih'.calls, List.append_assoc]; rfl, ih'.res, ih'.err, ih'.txn⟩
    · have hs' : o.skipped last = false := by simpa using hs
      have hr := roundEnd_not_skipped last o hs'
      simp only [pick, hs, loopSpec]
      by_cases hn : o.err = "nil"
      · simp only [hn, if_true] at hr
        simp only [hr, if_false]
        exact ⟨by simp [hn], rfl, by simp [bindOut, Env.read, read?_write],
          by simp [bindOut, Env.read, read?_write], by simp [bindOut, Env.read, read?_write]⟩
      · simp only [hn, if_false] at hr
        simp only [hr, if_false]
        exact ⟨by simp [hn], rfl, by simp [bindOut, Env.read, read?_write],
          by simp [bindOut, Env.read, read?_write], by simp [bindOut, Env.read, read?_write]⟩

/-- `pick` is "the first outcome that is not skipped" -/
theorem pick_spec (last : U16) : ∀ (outs : List Out) (k : Nat) (o : Out),
    pick last outs = some (k, o) →
    outs[k]? = some o ∧ o.skipped last = false ∧
      ∀ j, j < k → ∃ oj, outs[j]? = some oj ∧ oj.skipped last = true := by
  intro outs
  induction outs with
  | nil => intro k o h; simp [pick] at h
  | cons a t ih =>
    intro k o h
    by_cases hs : a.skipped last = true
    · simp only [pick, hs, if_true] at h
      cases hp : pick last t with
      | none => rw [hp] at h; simp at h
      | some ko =>
        obtain ⟨k', o'⟩ := ko
        rw [hp] at h
        simp only [Option.map_some, Option.some.injEq, Prod.mk.injEq] at h
        obtain ⟨rfl, rfl⟩ := h
        obtain ⟨h1, h2, h3⟩ := ih k' o' hp
        refine ⟨by simpa using h1, h2, ?_⟩
        intro j hj
        cases j with
        | zero => exact ⟨a, rfl, hs⟩
        | succ j => simpa using h3 j (by omega)
    · simp only [pick, hs, Bool.false_eq_true, if_false, Option.some.injEq, Prod.mk.injEq] at h
      obtain ⟨rfl, rfl⟩ := h
      exact ⟨rfl, by simpa using hs, fun j hj => absurd hj (by omega)⟩

theorem pick_none (last : U16) : ∀ (outs : List Out),
    pick last outs = none ↔ ∀ o ∈ outs, o.skipped last = true := by
  intro outs
  induction outs with
  | nil => simp [pick]
  | cons a t ih =>
    by_cases hs : a.skipped last = true
    · simp only [pick, hs, if_true, Option.map_eq_none_iff, ih, List.mem_cons, forall_eq_or_imp,
        true_and]
    · simp [pick, hs]

/-- an outcome that is not skipped is an error other than ErrUnknownProtocolId, or a frame with
    the outstanding id -/
theorem not_skipped_iff (last : U16) (o : Out) :
    o.skipped last = false ↔
      (o.err ≠ "ErrUnknownProtocolId" ∧ o.err ≠ "nil") ∨ (o.err = "nil" ∧ o.txn = last) := by
  unfold Out.skipped
  by_cases h1 : o.err = "ErrUnknownProtocolId"
  · simp [h1]
  · by_cases h2 : o.err = "nil"
    · by_cases h3 : o.txn = last <;> simp [h1, h2, h3]
    · simp [h1, h2]

/-- **the skip loop of `tcpTransport.readResponse`, for every list of frame-read outcomes, every
    outstanding id `tt.lastTxnId = last`, every fuel ≥ `outs.length + 8`.**
    The k-th `tt.readMBAPFrame()` returns `outs[k]`.
    * The loop `continue`s exactly on `err == ErrUnknownProtocolId` and on
      (`err == nil` and `txnId != tt.lastTxnId`) (`Out.skipped`): with `k` the index of the first
      outcome that is not skipped (`pick`, `pick_spec`), the function RETURNS after exactly `k + 1`
      frame reads (and no other call) with `res`, `err` those of outcome `k`; that outcome is an
      error other than ErrUnknownProtocolId (returned as it is), or a frame whose id EQUALS the
      outstanding one. A frame with a foreign id is never returned, however many come first.
    * If every outcome is skipped, all `outs.length` outcomes are consumed and the loop asks for
      the next frame (the run stops at that call): it never falls out of the loop. -/
theorem C05S_readResponse (outs : List Out) (last : U16) (fuel : Nat)
    (hf : outs.length + 8 ≤ fuel) :
    let r := execW (frameWorld outs) fuel gs_tcpTransport_readResponse (rrEnv last)
    match pick last outs with
    | some (k, o) =>
        r.how = .returned ∧ r.calls = List.replicate (k + 1) rdCall ∧
        Env.read r.env "res" = .sym o.res ∧ Env.read r.env "err" = .sym o.err ∧
        outs[k]? = some o ∧ (∀ j, j < k → ∃ oj, outs[j]? = some oj ∧ oj.skipped last = true) ∧
        ((o.err ≠ "ErrUnknownProtocolId" ∧ o.err ≠ "nil") ∨ (o.err = "nil" ∧ o.txn = last))
    | none =>
        r.how = .stoppedAt "tt.readMBAPFrame" [] ∧ r.calls = List.replicate outs.length rdCall ∧
        ∀ o ∈ outs, o.skipped last = true := by
  intro r
  have hr : r = rrSpec last outs (rrEnv last) := rr_run_fuel outs last _ (rrEnv_ok last) fuel hf
  have hp := loopSpec_pick last outs (rrEnv last) []
  cases hpk : pick last outs with
  | none =>
    rw [hpk] at hp
    simp only
    have e : rrSpec last outs (rrEnv last) = loopSpec last outs (rrEnv last) [] := by
      unfold rrSpec; rw [hp.1]
    rw [hr, e]
    exact ⟨hp.1, by simpa using hp.2, (pick_none last outs).mp hpk⟩
  | some ko =>
    obtain ⟨k, o⟩ := ko
    rw [hpk] at hp
    simp only
    obtain ⟨h1, h2, h3⟩ := pick_spec last outs k o hpk
    have hh : (rrSpec last outs (rrEnv last)).how = .returned ∧
        (rrSpec last outs (rrEnv last)).calls = (loopSpec last outs (rrEnv last) []).calls ∧
        (rrSpec last outs (rrEnv last)).env = (loopSpec last outs (rrEnv last) []).env := by
      unfold rrSpec
      by_cases hn : o.err = "nil"
      · have := hp.how; simp only [hn, if_true] at this; rw [this]; exact ⟨rfl, rfl, rfl⟩
      · have := hp.how; simp only [hn, if_false] at this; rw [this]; exact ⟨this, rfl, rfl⟩
    rw [hr, hh.1, hh.2.1, hh.2.2]
    exact ⟨rfl, by simpa using hp.calls, hp.res, hp.err, h1, h3, (not_skipped_iff last o).mp h2⟩

/-- the seeded bug "give up after a bounded number of skipped frames"
    (`for skipped := 0; skipped < bound; skipped++ { … }`): the body of the generated term inside
    a bounded loop that falls through to the `return` -/
def boundedVariant (bound : Int) : GStmt :=
  .seq (.assign "skipped" (.lit 0 .int))
    (.seq (.loop (.ite (.cmp "<" (.var "skipped" .int) (.lit bound .int))
      (.seq (.assign "skipped" (.bin "+" .int (.var "skipped" .int) (.lit 1 .int))) rrBody)
      .brk)) .ret)

/-- sensitivity: two late replies (ids 7, 8) in front of the own one (id 9). The generated term
    skips both and returns the own frame after three reads; the bounded variant gives up after
    two and returns the SECOND FOREIGN frame with `err = nil`. -/
theorem C05S_unbounded_sensitivity :
    let outs : List Out := [⟨"late7", 7, "nil"⟩, ⟨"late8", 8, "nil"⟩, ⟨"own", 9, "nil"⟩]
    let good := execW (frameWorld outs) 20 gs_tcpTransport_readResponse (rrEnv 9)
    let bad := execW (frameWorld outs) 20 (boundedVariant 2) (rrEnv 9)
    (good.how, good.calls.length, Env.read good.env "res", Env.read good.env "err") =
      (.returned, 3, .sym "own", .sym "nil") ∧
    (bad.how, bad.calls.length, Env.read bad.env "res", Env.read bad.env "err") =
      (.returned, 2, .sym "late8", .sym "nil") := by
  decide +kernel

/-- more skipped frames than any fixed bound: ten foreign frames, then the own one -/
example : (execW (frameWorld (List.replicate 10 ⟨"late", 7, "nil"⟩ ++ [⟨"own", 9, "nil"⟩])) 30
      gs_tcpTransport_readResponse (rrEnv 9)).calls.length = 11 := by
  decide +kernel

/-! ### the outcomes of a byte stream: `Mbap.readResponse` -/

/-- `(res, txnId, err)` of a model frame result; `nm` names the PDUs -/
def outOf (nm : Pdu → String) : Mbap.Frame → Out
  | .ok p t => ⟨nm p, t, "nil"⟩
  | .err x => ⟨"nil", 0, errSym x⟩

/-- the results of `n` successive `Mbap.readFrame` calls on what is left of the stream -/
def frameSeq : Nat → Bytes → Ending → List (Mbap.Frame × Bytes)
  | 0, _, _ => []
  | n + 1, s, e => Mbap.readFrame s e :: frameSeq n (Mbap.readFrame s e).2 e

/-- the errors `Mbap.readFrame` can produce -/
def FrameErr (x : Err) : Prop :=
  x = .protocolError ∨ x = .unknownProtocolId ∨ x = .ioTimeout ∨ x = .ioEOF ∨
    x = .ioUnexpectedEOF ∨ x = .ioOther

theorem frameErr_short (n : Nat) (e : Ending) : FrameErr (Strm.shortErr n e) := by
  rcases shortErr_cases n e with h | h | h | h <;> rw [h] <;> simp [FrameErr]

theorem readFrame_err {s rest : Bytes} {e : Ending} {x : Err}
    (h : Mbap.readFrame s e = (.err x, rest)) : FrameErr x := by
  by_cases hu : x = .unknownProtocolId
  · subst hu; simp [FrameErr]
  by_cases h7 : s.length < 7
  · rw [Mbap.readFrame_short7 e h7] at h
    injection h with h1 _; injection h1 with h1; subst h1
    exact frameErr_short _ _
  · match s, h7 with
    | t0 :: t1 :: p0 :: p1 :: l0 :: l1 :: u :: tl, _ =>
      by_cases hbad : 254 < (mk16 l0 l1).toNat ∨ (mk16 l0 l1).toNat ≤ 1
      · rw [Mbap.readFrame_cons7_badlen e hbad] at h
        injection h with h1 _; injection h1 with h1; subst h1
        simp [FrameErr]
      · have h2 : 2 ≤ (mk16 l0 l1).toNat := by omega
        have h254 : (mk16 l0 l1).toNat ≤ 254 := by omega
        by_cases hs : tl.length < (mk16 l0 l1).toNat - 1
        · rw [Mbap.readFrame_cons7_short e h2 h254 hs] at h
          injection h with h1 _; injection h1 with h1; subst h1
          exact frameErr_short _ _
        · have hsplit : tl = tl.take ((mk16 l0 l1).toNat - 1) ++ tl.drop ((mk16 l0 l1).toNat - 1) :=
            (List.take_append_drop _ _).symm
          have hb : (tl.take ((mk16 l0 l1).toNat - 1)).length = (mk16 l0 l1).toNat - 1 := by
            rw [List.length_take]; omega
          rw [hsplit, Mbap.readFrame_cons7_ok e h2 h254 hb] at h
          injection h with h1 _
          split at h1
          · injection h1 with h1; exact absurd h1.symm hu
          · cases h1
    | [], h7 => simp at h7
    | [_], h7 => simp at h7
    | [_, _], h7 => simp at h7
    | [_, _, _], h7 => simp at h7
    | [_, _, _, _], h7 => simp at h7
    | [_, _, _, _, _], h7 => simp at h7
    | [_, _, _, _, _, _], h7 => simp at h7

/-- on those errors the symbols are faithful for the two tests of the loop -/
theorem errSym_tests {x : Err} (h : FrameErr x) :
    errSym x ≠ "nil" ∧ (errSym x = "ErrUnknownProtocolId" ↔ x = .unknownProtocolId) := by
  rcases h with h | h | h | h | h | h <;> subst h <;> refine ⟨by decide, ?_⟩ <;>
    constructor <;> intro h <;> first | rfl | (exact absurd h (by decide)) | cases h

/-- what `Mbap.readResponse` returns, as an outcome -/
def outOfResult (nm : Pdu → String) (last : U16) : Except Err Pdu → Out
  | .ok p => ⟨nm p, last, "nil"⟩
  | .error x => ⟨"nil", 0, errSym x⟩

/-- the model's skip loop selects from the successive `readFrame` results what `pick` selects
    from their outcomes; any number of results beyond the stream length will do -/
theorem pick_frameSeq (nm : Pdu → String) (last : U16) (e : Ending) :
    ∀ (n : Nat) (s : Bytes), s.length < n →
      ∃ k, pick last ((frameSeq n s e).map (fun fr => outOf nm fr.1)) =
          some (k, outOfResult nm last (Mbap.readResponse last s e).1) ∧
        ((frameSeq n s e)[k]?).map (·.2) = some (Mbap.readResponse last s e).2 := by
  intro n
  induction n with
  | zero => intro s h; omega
  | succ n ih =>
    intro s hn
    cases hrf : Mbap.readFrame s e with
    | mk f rest =>
      simp only [frameSeq, hrf, List.map_cons, pick]
      cases f with
      | ok p t =>
        rw [Mbap.readResponse_ok hrf]
        by_cases ht : t = last
        · subst ht
          refine ⟨0, ?_, by simp⟩
          simp [outOf, Out.skipped, outOfResult]
        · have hprog := Mbap.readFrame_progress hrf (Or.inr ⟨p, t, rfl⟩)
          obtain ⟨k, h1, h2⟩ := ih rest (by omega)
          refine ⟨k + 1, ?_, by simpa [ht] using h2⟩
          simp only [ht, if_false]
          have : (outOf nm (.ok p t)).skipped last = true := by simp [outOf, Out.skipped, ht]
          rw [if_pos this, h1]; rfl
      | err x =>
        have hx := errSym_tests (readFrame_err hrf)
        by_cases hu : x = .unknownProtocolId
        · subst hu
          have hprog := Mbap.readFrame_progress hrf (Or.inl rfl)
          obtain ⟨k, h1, h2⟩ := ih rest (by omega)
          rw [Mbap.readResponse_skipProto hrf]
          refine ⟨k + 1, ?_, by simpa using h2⟩
          have : (outOf nm (.err .unknownProtocolId)).skipped last = true := by
            simp [outOf, Out.skipped, errSym_unknownProtocolId]
          rw [if_pos this, h1]; rfl
        · rw [Mbap.readResponse_err hrf hu]
          refine ⟨0, ?_, by simp⟩
          have h1 : ¬ errSym x = "ErrUnknownProtocolId" := fun h => hu (hx.2.mp h)
          have : (outOf nm (.err x)).skipped last = false := by
            simp [outOf, Out.skipped, h1, hx.1]
          rw [this]; simp [outOf, outOfResult]

/-- **source loop = model loop.** For every byte stream `s`, ending `e`, outstanding id `last`
    and naming `nm` of PDUs: let the k-th `tt.readMBAPFrame()` return the outcome of the k-th
    `Mbap.readFrame` on what the previous ones left of the stream (`frameSeq`, `n > s.length`
    results: more than the loop can use, each consumed frame takes ≥ 8 bytes). Then
    `readResponse` returns; its `(res, err)` are those of `Mbap.readResponse last s e` (a PDU:
    `(nm p, nil)`; an error: `(nil, errSym x)`); it made `k + 1` frame reads and nothing else,
    where the k-th model frame read left exactly the remainder `(Mbap.readResponse last s e).2`
    unread. With Props/C05.lean (`C05_returned_has_own_id`): a returned PDU was framed with id
    `last`. -/
theorem C05S_readResponse_model (nm : Pdu → String) (last : U16) (s : Bytes) (e : Ending)
    (n fuel : Nat) (hn : s.length < n) (hf : n + 8 ≤ fuel) :
    let fs := frameSeq n s e
    let r := execW (frameWorld (fs.map (fun fr => outOf nm fr.1))) fuel
      gs_tcpTransport_readResponse (rrEnv last)
    r.how = .returned ∧
    Env.read r.env "res" = .sym (outOfResult nm last (Mbap.readResponse last s e).1).res ∧
    Env.read r.env "err" = .sym (outOfResult nm last (Mbap.readResponse last s e).1).err ∧
    ∃ k, r.calls = List.replicate (k + 1) rdCall ∧
      (fs[k]?).map (·.2) = some (Mbap.readResponse last s e).2 := by
  intro fs r
  have hlen : (fs.map (fun fr => outOf nm fr.1)).length = n := by
    have : ∀ (n : Nat) (s : Bytes), (frameSeq n s e).length = n := by
      intro n; induction n with
      | zero => intro s; rfl
      | succ n ih => intro s; simp [frameSeq, ih]
    simp [fs, this]
  have h := C05S_readResponse (fs.map (fun fr => outOf nm fr.1)) last fuel (by rw [hlen]; exact hf)
  obtain ⟨k, hk, hrest⟩ := pick_frameSeq nm last e n s hn
  simp only [fs] at h
  rw [hk] at h
  obtain ⟨h1, h2, h3, h4, _⟩ := h
  exact ⟨h1, h3, h4, k, h2, hrest⟩

example : outOfResult (fun _ => "pdu") 5 (.ok (Mbap.rsp03 1 2)) = ⟨"pdu", 5, "nil"⟩ := rfl

/-! ## 2. `tcpTransport.ExecuteRequest` -/

/-- the two opaque leaves -/
def dlLeaf : String := "time.Now().Add(tt.timeout)"
def frLeaf : String := "tt.assembleMBAPFrame(tt.lastTxnId, req)"

/-- the text of the term: the calls, in program order, with their argument expressions, and
    the one assignment to `tt.lastTxnId`: `tt.lastTxnId + 1` in uint16, which sits between the
    `SetDeadline` and the `Write` (`C05S_execute_mbap` shows the order on the runs) -/
theorem C05S_execute_text :
    bindCalls gs_tcpTransport_ExecuteRequest =
      [(["err"], "tt.socket.SetDeadline", [.call dlLeaf .other]),
       (["_", "err"], "tt.socket.Write", [.call frLeaf .other]),
       (["res", "err"], "tt.readResponse", [])] ∧
    assignedTo "tt.lastTxnId" gs_tcpTransport_ExecuteRequest =
      [.bin "+" .u16 (.var "tt.lastTxnId" .u16) (.lit 1 .u16)] ∧
    opaques gs_tcpTransport_ExecuteRequest = [] := by
  refine ⟨by rfl, by rfl, by rfl⟩

/-- what the link does: result of `SetDeadline`, results of `Write` -/
structure MbapIO where
  sdErr : String
  n : Int
  wrErr : String

/-- `rr`: the results of `tt.readResponse()` (`none`: the run stops at that call) -/
def exOracle (io : MbapIO) (rr : Option (Val × Val)) : Oracle := fun f _ =>
  if f = "tt.socket.SetDeadline" then some [.sym io.sdErr]
  else if f = "tt.socket.Write" then some [.int io.n, .sym io.wrErr]
  else if f = "tt.readResponse" then rr.map (fun p => [p.1, p.2])
  else none

/-- `tt.lastTxnId = last`; the leaves are bound to the symbols of their text -/
def tcpEnv (last : U16) : Env :=
  [("tt.lastTxnId", .int last.toNat), (dlLeaf, .sym dlLeaf), (frLeaf, .sym frLeaf),
   ("res", .sym "nil"), ("err", .sym "nil")]

/-- how, calls, `tt.lastTxnId`, `res`, `err` -/
def exObs (r : Res) : End × Calls × Val × Val × Val :=
  (r.how, r.calls, Env.read r.env "tt.lastTxnId", Env.read r.env "res", Env.read r.env "err")
theorem exObs_ite (p : Prop) [Decidable p] (x y : Res) :
    exObs (if p then x else y) = if p then exObs x else exObs y := by split <;> exact id rfl
theorem exObs_mk (env how cs) : exObs ⟨env, how, cs⟩ =
    (how, cs, Env.read env "tt.lastTxnId", Env.read env "res", Env.read env "err") := by exact id rfl

theorem u16_succ_toNat (x : U16) : ((x.toNat : Int) + 1) % 65536 = ((x + 1).toNat : Int) := by
  rw [BitVec.toNat_add]
  simp

def sdCall : String × List Val := ("tt.socket.SetDeadline", [.sym dlLeaf])
def wrCall : String × List Val := ("tt.socket.Write", [.sym frLeaf])

/-- the run up to (and, with `rr = some …`, beyond) the call of `readResponse` -/
def exSpec (io : MbapIO) (rr : Option (Val × Val)) (last : U16) : End × Calls × Val × Val × Val :=
  if io.sdErr ≠ "nil" then
    (.returned, [sdCall], .int last.toNat, .sym "nil", .sym io.sdErr)
  else if io.wrErr ≠ "nil" then
    (.returned, [sdCall, wrCall], .int (last + 1).toNat, .sym "nil", .sym io.wrErr)
  else match rr with
    | none => (.stoppedAt "tt.readResponse" [], [sdCall, wrCall], .int (last + 1).toNat,
        .sym "nil", .sym "nil")
    | some (a, b) => (.returned, [sdCall, wrCall, ("tt.readResponse", [])],
        .int (last + 1).toNat, a, b)

theorem ex_12 (io : MbapIO) (rr : Option (Val × Val)) (last : U16) :
    exObs (exec (exOracle io rr) 12 gs_tcpTransport_ExecuteRequest (tcpEnv last)) =
      exSpec io rr last := by
  by_cases h1 : io.sdErr = "nil"
  · by_cases h2 : io.wrErr = "nil"
    · cases rr with
      | none =>
        go_eval [gs_tcpTransport_ExecuteRequest, exOracle, tcpEnv, dlLeaf, frLeaf, exObs_ite, exObs_mk,
          Option.map_none, u16_succ_toNat, exSpec, sdCall, wrCall, h1, h2]
      | some ab =>
        obtain ⟨a, b⟩ := ab
        go_eval [gs_tcpTransport_ExecuteRequest, exOracle, tcpEnv, dlLeaf, frLeaf, exObs_ite, exObs_mk,
          Option.map_some, u16_succ_toNat, exSpec, sdCall, wrCall, h1, h2]
    · go_eval [gs_tcpTransport_ExecuteRequest, exOracle, tcpEnv, dlLeaf, frLeaf, exObs_ite, exObs_mk,
        u16_succ_toNat, exSpec, sdCall, wrCall, h1, h2, ne_eq, not_false_eq_true]
  · go_eval [gs_tcpTransport_ExecuteRequest, exOracle, tcpEnv, dlLeaf, frLeaf, exObs_ite, exObs_mk,
      u16_succ_toNat, exSpec, sdCall, wrCall, h1, ne_eq, not_false_eq_true]

theorem exSpec_how (io rr last) : (exSpec io rr last).1 ≠ .outOfFuel := by
  unfold exSpec
  repeat' split
  all_goals exact fun h => nomatch h

theorem ex_fuel (io : MbapIO) (rr : Option (Val × Val)) (last : U16) (fuel : Nat) (hf : 12 ≤ fuel) :
    exObs (exec (exOracle io rr) fuel gs_tcpTransport_ExecuteRequest (tcpEnv last)) =
      exSpec io rr last := by
  rw [exec_mono _ 12 fuel _ _ hf, ex_12]
  have := congrArg (fun x => x.1) (ex_12 io rr last)
  simp only [exObs] at this
  rw [this]; exact exSpec_how io rr last

/-- **`tcpTransport.ExecuteRequest`, for every outstanding id and every behaviour of the link**
    (fuel ≥ 12). The observation is (how the run ended, the calls performed with their argument
    values, `tt.lastTxnId`, `res`, `err`).
    * `SetDeadline([time.Now().Add(tt.timeout)])` comes first; if it fails the function returns
      that error, NOTHING is written and the id is NOT consumed (`tt.lastTxnId = last`).
    * Otherwise `tt.lastTxnId` becomes `last + 1` IN 16 BITS (the term's `+` is typed `u16`:
      65535 wraps to 0, `C05S_wrap`), THEN there is exactly one
      `Write([tt.assembleMBAPFrame(tt.lastTxnId, req)])` - the frame leaf is evaluated after the
      assignment, so it is built from the NEW id. A write error is returned; the id stays consumed.
    * Otherwise `tt.readResponse()` is called with `tt.lastTxnId = last + 1` (the run stopped at
      that call shows the environment the callee sees), and its results are returned unchanged. -/
theorem C05S_execute_mbap (io : MbapIO) (rr : Option (Val × Val)) (last : U16) (fuel : Nat)
    (hf : 12 ≤ fuel) :
    exObs (exec (exOracle io rr) fuel gs_tcpTransport_ExecuteRequest (tcpEnv last)) =
      if io.sdErr ≠ "nil" then
        (.returned, [sdCall], .int last.toNat, .sym "nil", .sym io.sdErr)
      else if io.wrErr ≠ "nil" then
        (.returned, [sdCall, wrCall], .int (last + 1).toNat, .sym "nil", .sym io.wrErr)
      else match rr with
        | none => (.stoppedAt "tt.readResponse" [], [sdCall, wrCall], .int (last + 1).toNat,
            .sym "nil", .sym "nil")
        | some (a, b) => (.returned, [sdCall, wrCall, ("tt.readResponse", [])],
            .int (last + 1).toNat, a, b) :=
  ex_fuel io rr last fuel hf

/-- the increment wraps: after 65535 comes 0 (run evaluated by the kernel) -/
theorem C05S_wrap :
    (exObs (exec (exOracle ⟨"nil", 12, "nil"⟩ none) 12 gs_tcpTransport_ExecuteRequest
      (tcpEnv 0xFFFF))).2.2.1 = .int 0 ∧
    (exObs (exec (exOracle ⟨"nil", 12, "nil"⟩ none) 12 gs_tcpTransport_ExecuteRequest
      (tcpEnv 0x1234))).2.2.1 = .int 0x1235 := by
  decide +kernel

/-- the id of the model: `Client.frameFor` on an MBAP kind uses `lastTxn + 1` for the frame and
    as the new counter - the value the run leaves in `tt.lastTxnId` before the `Write` -/
theorem C05S_frameFor {k : Client.Kind} (hk : k.isRtu = false) (st : Client.TState) (p : Pdu)
    (io : MbapIO) (rr) (fuel : Nat) (hf : 12 ≤ fuel) (hsd : io.sdErr = "nil") :
    (exObs (exec (exOracle io rr) fuel gs_tcpTransport_ExecuteRequest (tcpEnv st.lastTxn))).2.2.1
      = .int (Client.frameFor k st p).2.toNat ∧
    (Client.frameFor k st p).1 = Mbap.assemble (Client.frameFor k st p).2 p := by
  rw [C05S_execute_mbap io rr st.lastTxn fuel hf, ClientResp.frameFor_mbap hk]
  refine ⟨?_, rfl⟩
  simp only [hsd, ne_eq, not_true_eq_false, if_false]
  split
  · rfl
  · cases rr with
    | none => rfl
    | some ab => rfl

/-- **correspondence with `C05H_txn_advances`** (Props/C05History.lean). In the model every core
    call that passes the local checks leaves `lastTxn = st.lastTxn + 1` and writes
    `Mbap.assemble (st.lastTxn + 1) …`, whatever arrives and however the stream ends. The source
    agrees whenever `SetDeadline` succeeds: write error or not, whatever `readResponse` returns
    (`rr` arbitrary, `none` included), `tt.lastTxnId` ends as the model's `lastTxn`.
    (A failing `SetDeadline` - nothing written, id not consumed - is outside the model, which
    has no such failure.) -/
theorem C05S_txn_matches_model {c : Client.Core} {cfg : Client.Cfg} (st : Client.TState)
    (arrivals : Bytes) (e : Ending) (hk : cfg.kind.isRtu = false) {fc : Byte} {p : Bytes}
    (hreq : c.request = .ok (fc, p))
    (io : MbapIO) (rr) (fuel : Nat) (hf : 12 ≤ fuel) (hsd : io.sdErr = "nil") :
    (exObs (exec (exOracle io rr) fuel gs_tcpTransport_ExecuteRequest (tcpEnv st.lastTxn))).2.2.1
      = .int (c.exchange cfg st arrivals e).state.lastTxn.toNat ∧
    (c.exchange cfg st arrivals e).written =
      some (Mbap.assemble (c.exchange cfg st arrivals e).state.lastTxn ⟨cfg.unitId, fc, p⟩) := by
  obtain ⟨h1, h2⟩ := (C05H_txn_advances (c := c) (cfg := cfg) st arrivals e hk).1 fc p hreq
  rw [h1, h2]
  refine ⟨?_, rfl⟩
  have := (C05S_frameFor hk st ⟨cfg.unitId, fc, p⟩ io rr fuel hf hsd).1
  rw [ClientResp.frameFor_mbap hk] at this
  exact this

/-! ### the two functions composed -/

/-- the environment of the callee `readResponse`: the receiver field from the caller's
    environment at the call, zero-valued locals -/
def calleeEnv (caller : Env) : Env :=
  [("tt.lastTxnId", Env.read caller "tt.lastTxnId"), ("res", .sym "nil"), ("txnId", .int 0),
   ("err", .sym "nil")]

/-- `ExecuteRequest` with `readResponse` run against the outcomes `outs`:
    the run stopped at the call (`stop`), the callee's run (`inner`), the whole run (`outer`) -/
structure Exchange where
  stop : Res
  inner : Option Res
  outer : Res

def mbapExchange (io : MbapIO) (outs : List Out) (last : U16) (fuel : Nat) : Exchange :=
  let stop := exec (exOracle io none) fuel gs_tcpTransport_ExecuteRequest (tcpEnv last)
  if stop.how = .stoppedAt "tt.readResponse" [] then
    let inner := execW (frameWorld outs) fuel gs_tcpTransport_readResponse (calleeEnv stop.env)
    ⟨stop, some inner,
     exec (exOracle io (some (Env.read inner.env "res", Env.read inner.env "err"))) fuel
       gs_tcpTransport_ExecuteRequest (tcpEnv last)⟩
  else ⟨stop, none, stop⟩

/-- the calls on the link and the frame reads of a whole exchange, in order: the caller's calls
    up to `tt.readResponse()`, then the callee's -/
def Exchange.linkCalls (x : Exchange) : Calls :=
  match x.inner with
  | some inner => x.stop.calls ++ inner.calls
  | none => x.stop.calls

theorem calleeEnv_eq (io : MbapIO) (last : U16) (fuel : Nat) (hf : 12 ≤ fuel)
    (h1 : io.sdErr = "nil") (h2 : io.wrErr = "nil") :
    let stop := exec (exOracle io none) fuel gs_tcpTransport_ExecuteRequest (tcpEnv last)
    stop.how = .stoppedAt "tt.readResponse" [] ∧ stop.calls = [sdCall, wrCall] ∧
    calleeEnv stop.env = rrEnv (last + 1) := by
  have h := C05S_execute_mbap io none last fuel hf
  simp only [h1, h2, ne_eq, not_true_eq_false, if_false, exObs, Prod.mk.injEq] at h
  obtain ⟨ha, hb, hc, _, _⟩ := h
  exact ⟨ha, hb, by simp only [calleeEnv, hc, rrEnv]⟩

/-- **the whole exchange** against any list of frame-read outcomes (fuel ≥ `outs.length + 12`),
    the link accepting deadline and write: `readResponse` runs with `tt.lastTxnId = last + 1`, the
    id just put into the frame; when an outcome is selected (`pick`), `ExecuteRequest` returns
    its `(res, err)`; a returned frame carries the id `last + 1` of THIS request; the calls are
    `SetDeadline`, `Write`, then `k + 1` frame reads. -/
theorem C05S_exchange_mbap (io : MbapIO) (outs : List Out) (last : U16) (fuel : Nat)
    (hf : outs.length + 12 ≤ fuel) (h1 : io.sdErr = "nil") (h2 : io.wrErr = "nil") :
    let x := mbapExchange io outs last fuel
    match pick (last + 1) outs with
    | some (k, o) =>
        x.outer.how = .returned ∧ Env.read x.outer.env "res" = .sym o.res ∧
        Env.read x.outer.env "err" = .sym o.err ∧
        Env.read x.outer.env "tt.lastTxnId" = .int (last + 1).toNat ∧
        x.linkCalls = sdCall :: wrCall :: List.replicate (k + 1) rdCall ∧
        outs[k]? = some o ∧ (o.err = "nil" → o.txn = last + 1)
    | none =>
        x.linkCalls = sdCall :: wrCall :: List.replicate outs.length rdCall ∧
        (x.inner.map (·.how)) = some (.stoppedAt "tt.readMBAPFrame" []) := by
  intro x
  obtain ⟨ha, hb, hc⟩ := calleeEnv_eq io last fuel (by omega) h1 h2
  have hx : x = ⟨exec (exOracle io none) fuel gs_tcpTransport_ExecuteRequest (tcpEnv last),
      some (execW (frameWorld outs) fuel gs_tcpTransport_readResponse (rrEnv (last + 1))),
      exec (exOracle io (some
        (Env.read (execW (frameWorld outs) fuel gs_tcpTransport_readResponse (rrEnv (last + 1))).env "res",
         Env.read (execW (frameWorld outs) fuel gs_tcpTransport_readResponse (rrEnv (last + 1))).env "err")))
        fuel gs_tcpTransport_ExecuteRequest (tcpEnv last)⟩ := by
    simp only [x, mbapExchange, ha, if_true, hc]
  have hr := C05S_readResponse outs (last + 1) fuel (by omega)
  cases hp : pick (last + 1) outs with
  | none =>
    rw [hp] at hr
    simp only at hr ⊢
    rw [hx]
    simp only [Exchange.linkCalls, hb, hr.2.1, hr.1, Option.map_some]
    exact ⟨rfl, trivial⟩
  | some ko =>
    obtain ⟨k, o⟩ := ko
    rw [hp] at hr
    simp only at hr ⊢
    obtain ⟨r1, r2, r3, r4, r5, _, r7⟩ := hr
    have ho := C05S_execute_mbap io (some (.sym o.res, .sym o.err)) last fuel (by omega)
    simp only [h1, h2, ne_eq, not_true_eq_false, if_false, exObs, Prod.mk.injEq] at ho
    rw [hx]
    simp only [Exchange.linkCalls, hb, r2, r3, r4]
    refine ⟨ho.1, ho.2.2.2.1, ho.2.2.2.2, ho.2.2.1, rfl, r5, ?_⟩
    intro hn
    rcases r7 with ⟨_, h⟩ | ⟨_, h⟩
    · exact absurd hn h
    · exact h

/-! ### concrete runs (kernel-evaluated) -/

/-- id 0xFFFF outstanding → the request goes out with id 0; a late reply to 0xFFFF, a frame of a
    foreign protocol and the own reply arrive: the own reply (third frame) is returned -/
example :
    let x := mbapExchange ⟨"nil", 12, "nil"⟩
      [⟨"late", 0xFFFF, "nil"⟩, ⟨"nil", 0, "ErrUnknownProtocolId"⟩, ⟨"own", 0, "nil"⟩, ⟨"next", 1, "nil"⟩]
      0xFFFF 20
    exObs x.outer = (.returned, [sdCall, wrCall, ("tt.readResponse", [])], .int 0, .sym "own", .sym "nil")
      ∧ x.linkCalls = [sdCall, wrCall, rdCall, rdCall, rdCall] := by
  decide +kernel

/-- a timeout after two foreign frames is returned as it is -/
example :
    let x := mbapExchange ⟨"nil", 12, "nil"⟩
      [⟨"late", 7, "nil"⟩, ⟨"late", 8, "nil"⟩, ⟨"nil", 0, "net.timeout"⟩] 8 20
    exObs x.outer = (.returned, [sdCall, wrCall, ("tt.readResponse", [])], .int 9, .sym "nil",
      .sym "net.timeout") := by
  decide +kernel

end Modbus.Props.C05

#print axioms Modbus.Props.C05.C05S_readResponse
#print axioms Modbus.Props.C05.C05S_unbounded_sensitivity
#print axioms Modbus.Props.C05.C05S_readResponse_model
#print axioms Modbus.Props.C05.C05S_execute_text
#print axioms Modbus.Props.C05.C05S_execute_mbap
#print axioms Modbus.Props.C05.C05S_wrap
#print axioms Modbus.Props.C05.C05S_frameFor
#print axioms Modbus.Props.C05.C05S_txn_matches_model
#print axioms Modbus.Props.C05.C05S_exchange_mbap
