import ModbusVerif.Model.IoTrace
import ModbusVerif.Lemmas.IoLemmas
import ModbusVerif.Props.C02
import ModbusVerif.Props.C05
/-
  Property C07.

  "On every transport a client call returns within the configured timeout plus a small fixed
   margin (including the RTU resynchronisation delay) even if the peer stays silent, stalls
   mid-frame at any offset, trickles bytes forever, or floods well-formed frames with foreign
   transaction ids or garbage; total silence is reported as the request-timed-out error.
   Conversely, a valid reply that arrives before the timeout is never turned into a timeout."

  What is proved is the LOGIC of the transports, over the trace of I/O primitives
  (`Model/IoTrace.lean`: `SetDeadline`, `Write`, the `Read` calls of `io.ReadFull`, `Sleep`):
    * MBAP: one absolute deadline is armed once per exchange, before the first read, and never
      re-armed inside the skip loop. RTU (code since fix c501b6a): exactly two - one in front of
      the inter-frame sleeps and the `Write`, one behind them, immediately in front of the first
      read - and never one inside `readRTUFrame` (one more, 500 µs, for the final flush only);
    * every iteration of the skip loop consumes at least 8 bytes of input, so the loop cannot spin;
    * the trace and the value-level model (`Mbap.readResponse`, `Rtu.readFrame`/`afterRead`)
      agree on what is consumed;
    * under the assumptions A-deadline and A-sleep (`Io.durOk`) the call ends no later than
      `t0 + T` (MBAP) resp. `t0 + T + rtuMargin + dWrite` (RTU; `dWrite`: the time `Write` took,
      which A-deadline bounds by the first deadline), for EVERY byte stream and EVERY
      assignment of durations to the primitives.
  Quantifier: all byte streams `s` (any length: silence, truncation at any offset, floods of
  foreign frames, garbage), all transaction ids, all timeouts, all rates, all endings.

  Outside the theorems (assumptions, enforced by the Go runtime / the OS, not by the library):
    * A-deadline: a `Read`/`Write` started before the armed deadline returns no later than the
      deadline; started after it, it fails at once.
    * A-sleep: `time.Sleep(d)` returns after `d + lag`, `0 ≤ lag ≤ ε`.
    * local computation between two primitives takes no time in the model.
  The traces assume the stream is delivered as one chunk (this is what the correspondence
  harness does); for any other segmentation ("trickle") the reads of an exchange are still
  reads under the same single deadline, which is all the time bound uses
  (`C07_elapsed_any_reads`).

  Only statements live here; the proofs are in `Lemmas/IoLemmas.lean`.
-/
namespace Modbus.Props.C07
open Modbus Modbus.Io Modbus.Client Modbus.Spec

/-! ## 1. deadlines -/

/-- MBAP: the trace is `SetDeadline(T)`, `Write`, then `Read` calls only - however many frames
    are skipped, the deadline is armed exactly once, before the first read -/
theorem C07_single_deadline_mbap (T L : Nat) (txn : U16) (s : Bytes) :
    ∃ rest, mbapTrace T L txn s = .setDeadline T :: .write L :: rest ∧
      (∀ op ∈ rest, op.isRead = true) ∧
      countDeadlines (mbapTrace T L txn s) = 1 := by
  refine ⟨mbapReads txn s, rfl, mbapReads_isRead txn s, ?_⟩
  have := countDeadlines_reads (mbapReads_isRead txn s)
  simp only [countDeadlines, mbapTrace] at this ⊢
  rw [List.filter_cons_of_pos (by rfl), List.filter_cons_of_neg (by simp [Io.Op.isSetDeadline])]
  simp [this]

/-- RTU: `SetDeadline(T)` comes first; then sleeps and the write (`pre`); then `SetDeadline(T)`
    again; then the reads of `readRTUFrame` and nothing else - no deadline is armed between the
    first read and the end of `readRTUFrame`; then either nothing or the resynchronisation tail
    `Sleep(256·t1)`, `SetDeadline(500 µs)`, flush reads. Exactly two deadlines per exchange, a
    third one exactly when the exchange ends with the flush; that one comes after every frame
    read and is followed by the flush reads only. -/
theorem C07_deadlines_rtu (T rate L w post : Nat) (s : Bytes) (e : Ending) :
    ∃ pre reads tail,
      rtuTrace T rate L w post s e =
        .setDeadline T :: (pre ++ .setDeadline T :: (reads ++ tail)) ∧
      (∀ op ∈ pre, op.isSetDeadline = false ∧ op.isRead = false) ∧
      (∀ op ∈ reads, op.isRead = true) ∧
      (tail = [] ∨ ∃ flush, tail = .sleep (256 * Timing.t1 rate) :: .setDeadline 500000 :: flush ∧
        ∀ op ∈ flush, op.isRead = true) ∧
      countDeadlines (rtuTrace T rate L w post s e) = (if tail = [] then 2 else 3) := by
  refine ⟨rtuPre L w post, rtuReadOps s, rtuTail rate (Rtu.readFrame s e), rtuTrace_eq .., ?_,
    rtuReadOps_isRead s, ?_, countDeadlines_rtuTrace ..⟩
  · exact (rtuPre_spec L w post).1
  · rcases rtuTail_shape rate (Rtu.readFrame s e) with h | h
    · exact Or.inl h
    · exact Or.inr ⟨_, h, rfTrace_isRead _ _⟩

/-! ## 2. the skip loop cannot spin -/

/-- each skipped frame costs two `ReadFull`s and takes at least 8 bytes off the stream; the last
    iteration costs at most three `Read` calls -/
theorem C07_loop_progress (T L : Nat) (txn : U16) (s : Bytes) :
    ((mbapTrace T L txn s).filter Io.Op.isRead).length ≤ 2 * (s.length / 8 + 1) + 1 := by
  have h1 := mbapReads_length_le txn s
  have h2 := filter_isRead_reads (mbapReads_isRead txn s)
  simp only [mbapTrace]
  rw [List.filter_cons_of_neg (by simp [Io.Op.isRead]), List.filter_cons_of_neg (by simp [Io.Op.isRead]), h2]
  omega

/-- termination: the value-level loop and the trace both satisfy their fuel-free unfolding
    equation - the fuel-exhausted branches of `Mbap.readResponseAux` and `Io.mbapReadsAux` are
    unreachable (with any fuel above the stream length the same result comes out), because an
    iteration that goes round again has consumed at least 8 bytes -/
theorem C07_terminates (txn : U16) (s : Bytes) (e : Ending) :
    (Mbap.readResponse txn s e =
      match Mbap.readFrame s e with
      | (.err .unknownProtocolId, rest) => Mbap.readResponse txn rest e
      | (.err err, rest) => (.error err, rest)
      | (.ok p t, rest) => if t = txn then (.ok p, rest) else Mbap.readResponse txn rest e) ∧
    (mbapReads txn s =
      match mbapFrameStep txn s with
      | .stop ops => ops
      | .next ops rest => ops ++ mbapReads txn rest) ∧
    (∀ k, mbapReadsAux (s.length + 1 + k) txn s = some (mbapReads txn s)) ∧
    (∀ ops rest, mbapFrameStep txn s = .next ops rest → rest.length + 8 ≤ s.length) :=
  ⟨Mbap.readResponse_eq txn s e, mbapReads_eq txn s,
   fun _ => mbapReadsAux_eq_some (by omega), fun _ _ h => step_progress h⟩

/-- the loop decision of the trace is the loop decision of the value-level model: the trace goes
    round again exactly when `Mbap.readFrame` yields a frame that `readResponse` skips, and then
    continues on the same remainder -/
theorem C07_step_agrees (txn : U16) (s : Bytes) (e : Ending) :
    (mbapFrameStep txn s).rest? = cont txn (Mbap.readFrame s e) :=
  (step_spec txn s e).1

/-! ## 3. trace and value-level model agree on consumption -/

/-- MBAP, for every ending: the bytes the `Read` calls of the trace returned are exactly the
    bytes `Mbap.readResponse` took off the stream -/
theorem C07_trace_consumption (T L : Nat) (txn : U16) (s : Bytes) (e : Ending) :
    gotSum (mbapTrace T L txn s) = s.length - (Mbap.readResponse txn s e).2.length ∧
    (Mbap.readResponse txn s e).2.length ≤ s.length := by
  have := mbapReads_consumption txn e s
  rw [gotSum_mbapTrace]
  omega

/-- MBAP: the trace contains a `Read` answered by the stream's ending error exactly when the
    value-level result is that error (`shortErr k e`: the ending error, or io.ErrUnexpectedEOF
    for an EOF after `k > 0` bytes) - the error is produced where the trace has `readEnd` -/
theorem C07_readEnd_iff_stream_error (T L : Nat) (txn : U16) (s : Bytes) (e : Ending) :
    (∃ n, Io.Op.readEnd n ∈ mbapTrace T L txn s) ↔
      ∃ k, (Mbap.readResponse txn s e).1 = .error (Strm.shortErr k e) := by
  rw [← hasEnd_iff, hasEnd_mbapTrace]
  exact mbapReads_hasEnd txn e s

/-- RTU, for every ending: the same for `readRTUFrame` followed by the flush of `discard` -/
theorem C07_trace_consumption_rtu (T rate L w post : Nat) (s : Bytes) (e : Ending) :
    gotSum (rtuTrace T rate L w post s e) =
      s.length - (Rtu.afterRead (Rtu.readFrame s e)).2.length ∧
    (Rtu.afterRead (Rtu.readFrame s e)).2.length ≤ s.length := by
  have := rtu_consumption rate s e
  rw [gotSum_rtuTrace]
  omega

/-! ## 4. elapsed time, MBAP -/

/-- for every stream, every assignment of durations satisfying A-deadline / A-sleep (any `ε`)
    and whatever deadline was left armed by the previous exchange: the call ends no later than
    the single absolute deadline `t0 + T` -/
theorem C07_elapsed_mbap (ε T L t0 : Nat) (dl0 : Option Nat) (txn : U16) (s : Bytes)
    (durs : List (Io.Op × Nat)) (c' : Clock)
    (hmap : durs.map Prod.fst = mbapTrace T L txn s)
    (hrun : runClock ε { now := t0, deadline := dl0 } durs = some c') :
    c'.now ≤ t0 + T :=
  (elapsed_single_deadline (mbapTrace_io L txn s) hmap hrun).1

/-- the same for ANY sequence of reads and writes after the single `SetDeadline` - in
    particular for every segmentation of the stream into `Read` results (trickling peers) -/
theorem C07_elapsed_any_reads (ε T t0 : Nat) (dl0 : Option Nat) (ops : List Io.Op)
    (hio : ∀ op ∈ ops, op.isIO = true) (durs : List (Io.Op × Nat)) (c' : Clock)
    (hmap : durs.map Prod.fst = .setDeadline T :: ops)
    (hrun : runClock ε { now := t0, deadline := dl0 } durs = some c') :
    c'.now ≤ t0 + T :=
  (elapsed_single_deadline hio hmap hrun).1

/-! ## 5. elapsed time, RTU -/

/-- for every stream, ending and assignment of durations: the call ends no later than
    `t0 + T + rtuMargin rate w post ε + dWr`, where
    `rtuMargin = [w + ε if w > 0] + (post + ε) + (256·t1(rate) + ε) + 500000` and `dWr` is the
    time the `Write` of the run took. (Since fix c501b6a the timeout `T` is counted from the
    moment the request has left the line: the second `SetDeadline`, armed after the
    post-transmission sleep; so the time `Write` takes is no longer absorbed by `T`.)
    A-deadline bounds `dWr` by the FIRST deadline: `tW + dWr ≤ max tW (t0 + T)`, `tW` = the
    clock when `Write` is called, `t0 + w ≤ tW ≤ t0 + [w + ε]`. -/
theorem C07_elapsed_rtu (ε T rate L w post t0 : Nat) (dl0 : Option Nat) (s : Bytes) (e : Ending)
    (durs : List (Io.Op × Nat)) (c' : Clock)
    (hmap : durs.map Prod.fst = rtuTrace T rate L w post s e)
    (hrun : runClock ε { now := t0, deadline := dl0 } durs = some c') :
    ∃ tW dWr, (Io.Op.write L, dWr) ∈ durs ∧ t0 + w ≤ tW ∧
      tW ≤ t0 + (if w > 0 then w + ε else 0) ∧ tW + dWr ≤ max tW (t0 + T) ∧
      c'.now ≤ t0 + T + rtuMargin rate w post ε + dWr := by
  obtain ⟨tW, dWr, h1, h2, h3, h4, h5, _⟩ := elapsed_rtu hmap hrun
  exact ⟨tW, dWr, h1, h2, h3, h4, Nat.le_trans h5 (rtuMargin_bound h3)⟩

/-- with a bound `wmax` on the time a `Write` takes (the run's `Write` lasted at most `wmax`):
    the call ends by `t0 + T + rtuMargin rate w post ε + wmax` -/
theorem C07_elapsed_rtu_wmax (ε T rate L w post t0 wmax : Nat) (dl0 : Option Nat) (s : Bytes)
    (e : Ending) (durs : List (Io.Op × Nat)) (c' : Clock)
    (hmap : durs.map Prod.fst = rtuTrace T rate L w post s e)
    (hrun : runClock ε { now := t0, deadline := dl0 } durs = some c')
    (hwr : ∀ d, (Io.Op.write L, d) ∈ durs → d ≤ wmax) :
    c'.now ≤ t0 + T + rtuMargin rate w post ε + wmax := by
  obtain ⟨_, dWr, h1, _, _, _, h5⟩ := C07_elapsed_rtu ε T rate L w post t0 dl0 s e durs c' hmap hrun
  have := hwr dWr h1
  omega

/-- A-deadline alone (a `Write` may block until the first deadline expires): the reads end no
    later than `T` after the second deadline was armed, which is no later than
    `max (t0 + T) (t0 + [w + ε]) + (post + ε)`; without resynchronisation (reply accepted, or a
    plain i/o error such as a timeout on a silent line) the call ends there. In particular the
    call ends by `t0 + 2·T + rtuMargin`. -/
theorem C07_elapsed_rtu_sharp (ε T rate L w post t0 : Nat) (dl0 : Option Nat) (s : Bytes)
    (e : Ending) (durs : List (Io.Op × Nat)) (c' : Clock)
    (hmap : durs.map Prod.fst = rtuTrace T rate L w post s e)
    (hrun : runClock ε { now := t0, deadline := dl0 } durs = some c') :
    c'.now ≤ max (t0 + T) (t0 + (if w > 0 then w + ε else 0)) + (post + ε) + T +
      (256 * Timing.t1 rate + ε + 500000) ∧
    (rtuTail rate (Rtu.readFrame s e) = [] →
      c'.now ≤ max (t0 + T) (t0 + (if w > 0 then w + ε else 0)) + (post + ε) + T) ∧
    c'.now ≤ t0 + 2 * T + rtuMargin rate w post ε := by
  obtain ⟨tW, dWr, _, h2, h3, h4, h5, h6⟩ := elapsed_rtu hmap hrun
  have hm := rtuMargin_bound (T := T) (rate := rate) (post := post) (dWr := dWr) h3
  simp only [Timing.maxRTUFrameLength] at h5 hm
  generalize (if w > 0 then w + ε else 0) = w' at *
  generalize 256 * Timing.t1 rate = r at *
  generalize rtuMargin rate w post ε = m at *
  generalize (500000 : Nat) = k at *
  refine ⟨by omega, fun h => by have := h6 h; omega, by omega⟩

/-- the bound `t0 + T + rtuMargin` of the code before fix c501b6a no longer holds: a `Write`
    that blocks until the first deadline (T = 1000) is followed by a full second timeout -/
theorem C07_elapsed_rtu_old_bound_false :
    [(Io.Op.setDeadline 1000, 0), (.write 8, 1000), (.sleep 20, 27), (.setDeadline 1000, 0),
      (.readEnd 3, 1000)].map Prod.fst = rtuTrace 1000 19200 8 0 20 [] .timeout ∧
    runClock 7 ⟨0, none⟩
      [(.setDeadline 1000, 0), (.write 8, 1000), (.sleep 20, 27), (.setDeadline 1000, 0),
       (.readEnd 3, 1000)] = some ⟨2027, some 2027⟩ ∧
    ¬ (2027 ≤ max (0 + 1000) (0 + 0) + (20 + 7)) := by decide

/-- the margin is a decreasing function of the baud rate -/
theorem C07_rtuMargin_anti {r1 r2 : Nat} (h1 : 1 ≤ r1) (h : r1 ≤ r2) (w post ε : Nat) :
    rtuMargin r2 w post ε ≤ rtuMargin r1 w post ε :=
  rtuMargin_anti h1 h w post ε

/-- at the default 19200 baud: t1 = 572916 ns, 256·t1 = 146.666496 ms, plus the 500 µs flush -/
theorem C07_rtuMargin_19200 (w post ε : Nat) :
    rtuMargin 19200 w post ε = (if w > 0 then w + ε else 0) + post + 2 * ε + 147166496 :=
  rtuMargin_19200 w post ε

/-! ## 6. silence is a timeout; a reply that arrived is never a timeout -/

/-- all six transports (`cfg.kind` ranges over rtu, rtuovertcp, rtuoverudp, tcp, tcp+tls, udp):
    a peer that stays silent until the deadline yields ErrRequestTimedOut -/
theorem C07_silence_is_timeout_all (cfg : Cfg) (op : Client.Op) (c : Core) (fc : Byte)
    (payload : Bytes) (hcore : op.core cfg = some c) (hreq : c.request = .ok (fc, payload))
    (st : TState) (hp : st.pending = []) :
    (op.run cfg st [] .timeout).result = some (.error .requestTimedOut) :=
  C02.C02_silence_is_timeout hcore hreq hp

theorem C07_kinds_exhaustive (k : Kind) :
    k = .rtu ∨ k = .rtuOverTcp ∨ k = .rtuOverUdp ∨ k = .tcp ∨ k = .tcpTls ∨ k = .udp := by
  cases k <;> simp

/-- MBAP kinds: a valid reply present in the stream - behind any number of skippable frames,
    whatever follows it, HOWEVER the stream ends afterwards (timeout included) - is returned;
    it is never turned into a timeout; and no `Read` of the exchange hit the end of the stream -/
theorem C07_no_spurious_timeout_mbap {cfg : Cfg} {op : Client.Op} {c : Core} {fc : Byte}
    {payload : Bytes} (he : cfg.endian ≠ .invalid) (hw : cfg.word ≠ .invalid)
    (hk : cfg.kind.isRtu = false)
    (hcore : op.core cfg = some c) (hreq : c.request = .ok (fc, payload))
    {st : TState} {arrivals pre post : Bytes} {res : Pdu} (e : Ending)
    (hpre : Mbap.Skippable (st.lastTxn + 1) pre) (hpos : PositiveReply cfg op res)
    (hs : st.pending ++ arrivals = pre ++ Mbap.assemble (st.lastTxn + 1) res ++ post) :
    (op.run cfg st arrivals e).result = some (.ok (decodeReply cfg op res)) ∧
    (op.run cfg st arrivals e).result ≠ some (.error .requestTimedOut) ∧
    ∀ T L n, Io.Op.readEnd n ∉ mbapTrace T L (st.lastTxn + 1) (st.pending ++ arrivals) := by
  have h := (C02.C02_complete_mbap he hw hk hcore hreq e hpre hpos hs).1
  refine ⟨h, by rw [h]; simp, ?_⟩
  intro T L n hn
  have hlen := ClientResp.positive_length hcore hreq hpos
  have hend := (C07_readEnd_iff_stream_error T L (st.lastTxn + 1) (st.pending ++ arrivals) e).mp ⟨n, hn⟩
  rw [hs, ClientResp.readResponse_own res post e hpre hlen] at hend
  obtain ⟨k, hk'⟩ := hend
  cases hk'

/-- RTU kinds: a valid reply at the head of the stream is returned, however the stream ends -/
theorem C07_no_spurious_timeout_rtu {cfg : Cfg} {op : Client.Op} {c : Core} {fc : Byte}
    {payload : Bytes} (he : cfg.endian ≠ .invalid) (hw : cfg.word ≠ .invalid)
    (hk : cfg.kind.isRtu = true)
    (hcore : op.core cfg = some c) (hreq : c.request = .ok (fc, payload))
    {st : TState} {arrivals post : Bytes} {res : Pdu} (e : Ending)
    (hpos : PositiveReply cfg op res)
    (hs : st.pending ++ arrivals = Rtu.assemble res ++ post) :
    (op.run cfg st arrivals e).result = some (.ok (decodeReply cfg op res)) ∧
    (op.run cfg st arrivals e).result ≠ some (.error .requestTimedOut) := by
  have h := (C02.C02_complete_rtu he hw hk hcore hreq e hpos hs).1
  exact ⟨h, by rw [h]; simp⟩

/-! ## 7. floods and stalls end in the timeout error -/

/-- a stream made of foreign frames only, however many: the transport keeps skipping until the
    deadline fires and returns the i/o timeout; the public call reports ErrRequestTimedOut -
    not a hang, and not somebody else's reply -/
theorem C07_flood_is_timeout {txn : U16} {s : Bytes} (h : Mbap.Skippable txn s) :
    (Mbap.readResponse txn s .timeout).1 = .error .ioTimeout := by
  rw [C05.C05_foreign_never_returned .timeout h]; rfl

theorem C07_flood_is_timeout_client {cfg : Cfg} {op : Client.Op} {c : Core} {fc : Byte}
    {payload : Bytes} (hk : cfg.kind.isRtu = false)
    (hcore : op.core cfg = some c) (hreq : c.request = .ok (fc, payload))
    {st : TState} {arrivals : Bytes}
    (h : Mbap.Skippable (st.lastTxn + 1) (st.pending ++ arrivals)) :
    (op.run cfg st arrivals .timeout).result = some (.error .requestTimedOut) := by
  apply run_of_transport_timeout hcore hreq
  rw [ClientResp.frameFor_mbap hk, ClientResp.transportRead_mbap hk]
  exact C07_flood_is_timeout h

/-- MBAP kinds, stall at any offset: whenever some `Read` of the exchange is cut off by the
    deadline (the trace contains a `readEnd` - after 0 bytes, inside a header, inside a body,
    after any number of skipped frames), the public call reports ErrRequestTimedOut -/
theorem C07_stall_is_timeout_mbap {cfg : Cfg} {op : Client.Op} {c : Core} {fc : Byte}
    {payload : Bytes} (hk : cfg.kind.isRtu = false)
    (hcore : op.core cfg = some c) (hreq : c.request = .ok (fc, payload))
    {st : TState} {arrivals : Bytes} {T L n : Nat}
    (h : Io.Op.readEnd n ∈ mbapTrace T L (st.lastTxn + 1) (st.pending ++ arrivals)) :
    (op.run cfg st arrivals .timeout).result = some (.error .requestTimedOut) := by
  apply run_of_transport_timeout hcore hreq
  rw [ClientResp.frameFor_mbap hk, ClientResp.transportRead_mbap hk]
  obtain ⟨k, hk'⟩ := (C07_readEnd_iff_stream_error T L _ _ .timeout).mp ⟨n, h⟩
  rw [hk', shortErr_timeout]

/-! ## non-vacuity -/

/-- A-deadline / A-sleep are satisfiable for every trace -/
theorem C07_assumptions_satisfiable (ε : Nat) (t : List Io.Op) (c : Clock) :
    ∃ durs c', durs.map Prod.fst = t ∧ runClock ε c durs = some c' := by
  have h := minDurs_runs ε t c
  cases hr : runClock ε c (minDurs t) with
  | none => rw [hr] at h; cases h
  | some c' => exact ⟨minDurs t, c', minDurs_fst t, hr⟩

section examples

-- a valid reply:  sd:1000000 w:12 r:7:7 r:4:4
example : mbapTrace 1000000 12 0x1235 (Mbap.assemble 0x1235 (Mbap.rsp03 0xAB 0xCD)) =
    [.setDeadline 1000000, .write 12, .read 7 7, .read 4 4] := by decide

-- two stale frames, then the reply: still one deadline, six reads
example : mbapTrace 1000000 12 0x1235
    (Mbap.assemble 0x1233 (Mbap.rsp03 0 1) ++ Mbap.assemble 0x1234 (Mbap.rsp03 0 2) ++ Mbap.assemble 0x1235 (Mbap.rsp03 0xAB 0xCD)) =
    [.setDeadline 1000000, .write 12, .read 7 7, .read 4 4, .read 7 7, .read 4 4, .read 7 7, .read 4 4] := by
  decide

-- a stall after 9 bytes: the body read gets 2 of 4 bytes, the next Read is cut off by the deadline
example : mbapTrace 1000000 12 0x1235 ((Mbap.assemble 0x1235 (Mbap.rsp03 0xAB 0xCD)).take 9) =
    [.setDeadline 1000000, .write 12, .read 7 7, .read 4 2, .readEnd 2] := by decide
example : Mbap.readResponse 0x1235 ((Mbap.assemble 0x1235 (Mbap.rsp03 0xAB 0xCD)).take 9) .timeout =
    (.error .ioTimeout, []) := by decide

-- silence
example : mbapTrace 1000000 12 0x1235 [] = [.setDeadline 1000000, .write 12, .readEnd 7] := by decide

-- a flood of foreign frames ends with the Read that the deadline cuts off
example : mbapTrace 1000000 12 0x1235 (Mbap.assemble 0x1233 (Mbap.rsp03 0 1) ++ Mbap.assemble 0x1234 (Mbap.rsp03 0 2)) =
    [.setDeadline 1000000, .write 12, .read 7 7, .read 4 4, .read 7 7, .read 4 4, .readEnd 7] := by decide

-- garbage: an MBAP length field of 0xFFFF stops the exchange after the header
example : mbapTrace 1000000 12 0x1235 [0x12, 0x35, 0, 0, 0xFF, 0xFF, 1, 3, 2, 0, 0] =
    [.setDeadline 1000000, .write 12, .read 7 7] := by decide

-- RTU at 19200 baud, reply 01 03 02 00 0a 38 43 accepted: no resynchronisation, two deadlines
example : rtuTrace 1000000 19200 8 0 5916661 [0x01, 0x03, 0x02, 0x00, 0x0a, 0x38, 0x43] .timeout =
    [.setDeadline 1000000, .write 8, .sleep 5916661, .setDeadline 1000000, .read 3 3, .read 4 4] := by
  decide +kernel

-- RTU bad CRC with one pending byte: 256·t1 = 146666496 ns, then the 500 µs flush
example : rtuTrace 1000000 19200 8 250000 5916661 [0x01, 0x03, 0x02, 0x00, 0x0a, 0x38, 0x44, 0xFF] .timeout =
    [.setDeadline 1000000, .sleep 250000, .write 8, .sleep 5916661, .setDeadline 1000000,
     .read 3 3, .read 4 4,
     .sleep 146666496, .setDeadline 500000, .read 1024 1, .readEnd 1023] := by decide +kernel

-- RTU: silence is a plain timeout (no resynchronisation); a stall after 2 bytes is a short frame
example : rtuTrace 1000000 19200 8 0 5916661 [] .timeout =
    [.setDeadline 1000000, .write 8, .sleep 5916661, .setDeadline 1000000, .readEnd 3] := by decide
example : rtuTrace 1000000 19200 8 0 5916661 [0x01, 0x03] .timeout =
    [.setDeadline 1000000, .write 8, .sleep 5916661, .setDeadline 1000000, .read 3 2, .readEnd 1,
     .sleep 146666496, .setDeadline 500000, .readEnd 1024] := by decide

-- a concrete duration assignment satisfying A-deadline: the peer stalls, the last Read is cut
-- off exactly at the deadline t0 + T = 5 + 100
example : runClock 3 ⟨5, none⟩
    [(.setDeadline 100, 0), (.write 12, 1), (.read 7 7, 40), (.read 4 2, 10), (.readEnd 2, 49)] =
    some ⟨105, some 105⟩ := by decide
-- ... one nanosecond more violates A-deadline
example : runClock 3 ⟨5, none⟩
    [(.setDeadline 100, 0), (.write 12, 1), (.read 7 7, 40), (.read 4 2, 10), (.readEnd 2, 50)] =
    none := by decide

-- RTU, the bound `t0 + T + rtuMargin + dWr` of `C07_elapsed_rtu` is attained (ε = 7, T = 1000,
-- no initial wait): Write returns at the first deadline (dWr = 1000), every sleep oversleeps by
-- ε, the fragment arrives at the second deadline, the flush read waits 500 µs
example : runClock 7 ⟨0, none⟩
    [(.setDeadline 1000, 0), (.write 8, 1000), (.sleep 20, 27), (.setDeadline 1000, 0),
     (.read 3 2, 1000), (.readEnd 1, 0),
     (.sleep 146666496, 146666503), (.setDeadline 500000, 0), (.readEnd 1024, 500000)] =
    some ⟨1000 + rtuMargin 19200 0 20 7 + 1000, some (2027 + 146666503 + 500000)⟩ := by decide
example : rtuTrace 1000 19200 8 0 20 [0x01, 0x03] .timeout =
    [.setDeadline 1000, .write 8, .sleep 20, .setDeadline 1000, .read 3 2, .readEnd 1,
     .sleep 146666496, .setDeadline 500000, .readEnd 1024] := by decide
-- the usual case: Write returns at once; the silent line costs T after the post-send sleep
example : runClock 7 ⟨0, none⟩
    [(.setDeadline 1000, 0), (.write 8, 0), (.sleep 20, 27), (.setDeadline 1000, 0), (.readEnd 3, 1000)] =
    some ⟨1027, some 1027⟩ := by decide

example : rtuMargin 19200 0 0 0 = 147166496 := by decide
example : rtuMargin 9600 0 0 0 = 293833248 := by decide

end examples

end Modbus.Props.C07

#print axioms Modbus.Props.C07.C07_single_deadline_mbap
#print axioms Modbus.Props.C07.C07_deadlines_rtu
#print axioms Modbus.Props.C07.C07_loop_progress
#print axioms Modbus.Props.C07.C07_terminates
#print axioms Modbus.Props.C07.C07_step_agrees
#print axioms Modbus.Props.C07.C07_trace_consumption
#print axioms Modbus.Props.C07.C07_readEnd_iff_stream_error
#print axioms Modbus.Props.C07.C07_trace_consumption_rtu
#print axioms Modbus.Props.C07.C07_elapsed_mbap
#print axioms Modbus.Props.C07.C07_elapsed_any_reads
#print axioms Modbus.Props.C07.C07_elapsed_rtu
#print axioms Modbus.Props.C07.C07_elapsed_rtu_wmax
#print axioms Modbus.Props.C07.C07_elapsed_rtu_sharp
#print axioms Modbus.Props.C07.C07_elapsed_rtu_old_bound_false
#print axioms Modbus.Props.C07.C07_rtuMargin_anti
#print axioms Modbus.Props.C07.C07_rtuMargin_19200
#print axioms Modbus.Props.C07.C07_silence_is_timeout_all
#print axioms Modbus.Props.C07.C07_kinds_exhaustive
#print axioms Modbus.Props.C07.C07_no_spurious_timeout_mbap
#print axioms Modbus.Props.C07.C07_no_spurious_timeout_rtu
#print axioms Modbus.Props.C07.C07_flood_is_timeout
#print axioms Modbus.Props.C07.C07_flood_is_timeout_client
#print axioms Modbus.Props.C07.C07_stall_is_timeout_mbap
#print axioms Modbus.Props.C07.C07_assumptions_satisfiable
