import ModbusVerif.Props.C07Src
import ModbusVerif.Props.C19
/-
  C19, source tie for the clock bookkeeping of `rtuTransport.ExecuteRequest`: the generated term
  `Gen.gs_rtuTransport_ExecuteRequest` (regenerated from /repo on every run) is EVALUATED against
  a world with a SYMBOLIC CLOCK and the result is proved equal to `Timing.exchangeTimes`
  (Model/Timing.lean), about which Props/C19.lean proves the silent-interval theorems
  (`exchange_order`, `exchange_record`, `C19_silence_history`).

  The clock (`clockAt ev log`): a function of the calls performed so far. It starts at `ev.now`
  when `time.Since` is called and advances with every call by `callDur`:
    * `time.Sleep(d)` lasts `max d 0` (assumption A-sleep: at least `d`; `d ≤ 0` returns at once)
      plus the oversleep the environment chooses for that sleep: nothing for the
      pre-transmission sleep (its lag is `lag1`, charged to the `time.Now()` that follows),
      `lag2` for the post-transmission sleep, `lag3` for the resynchronisation sleep (with the
      `discard` that follows);
    * `time.Now()` returns the clock after `lag1` (first call: `ts`) resp. `lag4` (final call);
    * `Write` lasts `writeDur`, `readRTUFrame` lasts `readDur`; everything else takes no time.
  These are exactly the inputs `Timing.Events` gives the model. The world (`clockWorld`) answers
  `time.Since(x)` with `clock − x`, `time.Now()` with the clock, `ts.Add(d)` with `ts + d` (`ts` =
  what the first `time.Now()` returned). Because the answers depend on the call log the
  evaluator with a history-dependent oracle is used (`GoEval.execW`,
  Lemmas/GoEvalTransportLemmas.lean; `execFromW_const`: same function on stateless oracles).

  The integer leaves: `rt.lastActivity.Add(rt.t35)` = `la + t35`, read by `time.Since` before
  `rt.lastActivity` is assigned; `rt.t1`; `rt.lastActivity.Add(rt.t35).Sub(time.Now())` - read
  once, as the argument of the second sleep - is bound to `n·t1 + t35 − writeDur`, and
  `C19X_clock` PROVES that this is `(the value just assigned to rt.lastActivity) + t35 − (the
  clock at that moment)`, i.e. what Go computes there.

  `C19X_exchange`: calls (with the arguments of the three sleeps), `rt.lastActivity` at return and
  `ts`, for every rate, every previous `lastActivity`, every schedule `ev` and every link answer.
  `C19X_sleeps`: the arguments of `time.Sleep` alone. `C19X_clock`: the clock readings at the
  entry and the return of `readRTUFrame` and at the end are the model's `readStart`, `readEnd`,
  `finish`. `C19X_stamp_after_flush`: sensitivity to the order of the final stamp and the flush.
-/
set_option linter.unusedSimpArgs false
set_option linter.unusedVariables false

namespace Modbus.Props.C19
open Modbus Modbus.Gen Modbus.GoEval Modbus.Timing Modbus.Props.C07

/-! ### the clock -/

/-- what the link answers: error of `Write`, results of `readRTUFrame` -/
structure LinkAns where
  wrErr : String
  res : String
  err : String

def sleepArg : List Val → Int
  | [.int d] => d
  | _ => 0
theorem sleepArg_int (d) : sleepArg [.int d] = d := by exact id rfl

/-- duration of a call, given the calls performed before it -/
def callDur (ev : Events) (before : Calls) (c : String × List Val) : Int :=
  if c.1 = "time.Sleep" then
    max (sleepArg c.2) 0 +
      (if wasCalled "rt.readRTUFrame" before = true then (ev.lag3 : Int)
       else if wasCalled "rt.link.Write" before = true then (ev.lag2 : Int) else 0)
  else if c.1 = "time.Now" then
    (if wasCalled "rt.readRTUFrame" before = true then (ev.lag4 : Int) else (ev.lag1 : Int))
  else if c.1 = "rt.link.Write" then (ev.writeDur : Int)
  else if c.1 = "rt.readRTUFrame" then (ev.readDur : Int)
  else 0

def clockFrom (ev : Events) : Calls → Int → Calls → Int
  | _, c, [] => c
  | b, c, x :: t => clockFrom ev (b ++ [x]) (c + callDur ev b x) t

/-- the clock after the calls of a log -/
def clockAt (ev : Events) (cs : Calls) : Int := clockFrom ev [] ev.now cs

theorem clockFrom_nil (ev b c) : clockFrom ev b c [] = c := by exact id rfl
theorem clockFrom_cons (ev b c x t) :
    clockFrom ev b c (x :: t) = clockFrom ev (b ++ [x]) (c + callDur ev b x) t := by exact id rfl
theorem clockAt_def (ev cs) : clockAt ev cs = clockFrom ev [] ev.now cs := by exact id rfl
theorem callDur_def (ev before f a) : callDur ev before (f, a) =
    if f = "time.Sleep" then
      max (sleepArg a) 0 +
        (if wasCalled "rt.readRTUFrame" before = true then (ev.lag3 : Int)
         else if wasCalled "rt.link.Write" before = true then (ev.lag2 : Int) else 0)
    else if f = "time.Now" then
      (if wasCalled "rt.readRTUFrame" before = true then (ev.lag4 : Int) else (ev.lag1 : Int))
    else if f = "rt.link.Write" then (ev.writeDur : Int)
    else if f = "rt.readRTUFrame" then (ev.readDur : Int)
    else 0 := by exact id rfl

/-- the log up to and including the first call of `f` -/
def through (f : String) : Calls → Calls
  | [] => []
  | c :: t => if c.1 = f then [c] else c :: through f t
/-- the log before the first call of `f` -/
def before (f : String) : Calls → Calls
  | [] => []
  | c :: t => if c.1 = f then [] else c :: before f t
theorem through_nil (f) : through f [] = [] := by exact id rfl
theorem through_cons (f g a t) :
    through f ((g, a) :: t) = if g = f then [(g, a)] else (g, a) :: through f t := by exact id rfl
theorem before_nil (f) : before f [] = [] := by exact id rfl
theorem before_cons (f g a t) :
    before f ((g, a) :: t) = if g = f then [] else (g, a) :: before f t := by exact id rfl

def minusVal : Val → Val → Val
  | .int a, .int b => .int (a - b)
  | _, _ => .unk
theorem minusVal_int (a b) : minusVal (.int a) (.int b) = .int (a - b) := by exact id rfl

/-- link and clock: `time.Since(x)` = clock − x; `time.Now()` = the clock when it returns;
    `ts.Add(d)` = (what the first `time.Now()` returned) + d; both `SetDeadline`s succeed -/
def clockWorld (ev : Events) (a : LinkAns) : World := fun cs f args =>
  if f = "rt.link.SetDeadline" then some [.sym "nil"]
  else if f = "time.Since" then some [minusVal (.int (clockAt ev cs)) (args.headD .unk)]
  else if f = "time.Sleep" then some []
  else if f = "time.Now" then some [.int (clockAt ev (cs ++ [("time.Now", [])]))]
  else if f = "rt.link.Write" then some [.int ev.n, .sym a.wrErr]
  else if f = "ts.Add" then
    some [plusVal (.int (clockAt ev (through "time.Now" cs))) (args.headD .unk)]
  else if f = "rt.readRTUFrame" then some [.sym a.res, .sym a.err]
  else if f = "discard" then some []
  else none

/-- the integer leaves: `la + t35`, `t1`, `n·t1 + t35 − writeDur` (see `C19X_clock`), `la` -/
def clockVals (rate la : Nat) (ev : Events) : RtuVals :=
  { la35 := (la : Int) + (t35 rate : Nat), t1 := (t1 rate : Nat),
    post := (ev.n : Int) * (t1 rate : Nat) + (t35 rate : Nat) - (ev.writeDur : Nat), la := la }

/-- the model's classification of what `readRTUFrame` returned -/
def outcomeOf (err : String) : ReadOutcome :=
  if isResync err = true then .resync
  else if err = "ErrRequestTimedOut" then .timedOut else .heard

/-- the schedule's discrete choices are those of the link answers -/
structure Tie (ev : Events) (a : LinkAns) : Prop where
  wr : ev.writeErr = decide (a.wrErr ≠ "nil")
  out : ev.outcome = outcomeOf a.err

/-- everything fits an int64 (times < 2^62 ns ≈ 146 years on the monotonic clock) -/
structure ClockRange (rate la : Nat) (ev : Events) : Prop where
  now : ev.now < 2 ^ 62
  la : la + t35 rate < 2 ^ 62
  n : ev.n < 2 ^ 63
  nt1 : ev.n * t1 rate < 2 ^ 63

/-- how, calls, `rt.lastActivity`, `ts` -/
def xObs (r : Res) : End × Calls × Val × Val :=
  (r.how, r.calls, Env.read r.env "rt.lastActivity", Env.read r.env "ts")
theorem xObs_ite (p : Prop) [Decidable p] (x y : Res) :
    xObs (if p then x else y) = if p then xObs x else xObs y := by split <;> exact id rfl
theorem xObs_mk (env how cs) : xObs ⟨env, how, cs⟩ =
    (how, cs, Env.read env "rt.lastActivity", Env.read env "ts") := by exact id rfl

/-- the calls of one exchange, the arguments written with the model's `Times` -/
def xCalls (rate la : Nat) (ev : Events) (a : LinkAns) : Calls :=
  let T := exchangeTimes rate la ev
  sdCall :: ("time.Since", [.int ((la : Int) + (t35 rate : Nat))]) ::
  ((if ev.now < la + t35 rate then
      [("time.Sleep", [.int ((la : Int) + (t35 rate : Nat) - (ev.now : Nat))])] else []) ++
   ("time.Now", []) :: ("rt.link.Write", [.sym frLeaf]) ::
   (if a.wrErr ≠ "nil" then [] else
    ("ts.Add", [.int ((T.txEnd : Int) - (T.ts : Nat))]) ::
    ("time.Sleep", [.int ((T.txEnd : Int) + (t35 rate : Nat) - ((T.ts : Int) + (ev.writeDur : Nat)))]) ::
    sdCall :: ("rt.readRTUFrame", []) ::
    ((if isResync a.err = true then
        [("time.Sleep", [.int (256 * ((t1 rate : Nat) : Int))]), ("discard", [.sym "rt.link"])]
      else []) ++
     (if a.err ≠ "ErrRequestTimedOut" then [("time.Now", [])] else []))))

theorem t1_le (rate : Nat) : t1 rate ≤ 11000000000 := charTime_le rate

/-- evaluate one case: the conditions decided by the hypotheses in the list -/
syntax "clock_eval" " [" Lean.Parser.Tactic.simpLemma,* "]" : tactic
macro_rules
  | `(tactic| clock_eval [$ls,*]) => `(tactic|
    go_evalW_nowrap [gs_rtuTransport_ExecuteRequest, clockWorld, rtuEnv, clockVals, dlLeaf, la35Leaf,
      frLeaf, subLeaf, xObs_ite, xObs_mk, clockAt_def, clockFrom_nil, clockFrom_cons, callDur_def,
      through_nil, through_cons, before_nil, before_cons, minusVal_int, sleepArg_int, Int.add_zero,
      Int.zero_add, $ls,*])

theorem isResync_not_timeout {e : String} (h : isResync e = true) : e ≠ "ErrRequestTimedOut" := by
  intro he; subst he; exact absurd h (by decide)

/-- one case of `x_20`: evaluate the run with the conditions decided (`l`), unfold the model
    with its conditions decided (`m`), compare the integers -/
syntax "x_case" " [" Lean.Parser.Tactic.simpLemma,* "]" " [" Lean.Parser.Tactic.simpLemma,* "]" : tactic
macro_rules
  | `(tactic| x_case [$ls,*] [$ms,*]) => `(tactic|
    (clock_eval [$ls,*]
     simp only [xCalls, exchangeTimes, txStart, sdCall, dlLeaf, frLeaf, ne_eq, not_true_eq_false,
       not_false_eq_true, if_true, if_false, List.nil_append, List.cons_append, Bool.false_eq_true,
       $ms,*]
     simp only [Prod.mk.injEq, List.cons.injEq, Val.int.injEq, true_and, and_true, and_self]
     omega))

theorem x_20 (rate la : Nat) (ev : Events) (a : LinkAns) (ht : Tie ev a)
    (hr : ClockRange rate la ev) :
    xObs (execW (clockWorld ev a) 20 gs_rtuTransport_ExecuteRequest (rtuEnv (clockVals rate la ev))) =
      (.returned, xCalls rate la ev a, .int (exchangeTimes rate la ev).lastActivity',
       .int (exchangeTimes rate la ev).ts) := by
  have h1 := hr.now
  have h2 := hr.la
  have h3 := hr.nt1
  have h4 := t1_le rate
  have h5 := hr.n
  have hw1 : wrap .i64 (((ev.now : Int) - ((la : Int) + (t35 rate : Nat))) * -1) =
      -((ev.now : Int) - ((la : Int) + (t35 rate : Nat))) := by
    rw [wrap_i64 (by omega) (by omega)]; omega
  have hw2 : wrap .i64 (ev.n : Int) = ev.n := wrap_i64 (by omega) (by omega)
  have hw3 : wrap .i64 ((ev.n : Int) * (t1 rate : Nat)) = (ev.n : Int) * (t1 rate : Nat) := by
    rw [← Int.natCast_mul]; exact wrap_i64 (by omega) (by omega)
  have hw4 : wrap .i64 (256 * ((t1 rate : Nat) : Int)) = 256 * ((t1 rate : Nat) : Int) :=
    wrap_i64 (by omega) (by omega)
  have hmul : ((ev.n * t1 rate : Nat) : Int) = (ev.n : Int) * (t1 rate : Nat) := Int.natCast_mul _ _
  by_cases hN : ev.now < la + t35 rate
  · have hI : (ev.now : Int) - ((la : Int) + (t35 rate : Nat)) < 0 := by omega
    by_cases hwr : a.wrErr = "nil"
    · have hwE : ev.writeErr = false := by rw [ht.wr]; simp [hwr]
      by_cases hres : isResync a.err = true
      · have hoE : ev.outcome = .resync := by rw [ht.out]; simp [outcomeOf, hres]
        have hto := isResync_not_timeout hres
        have hres' := hres
        simp only [isResync] at hres'
        x_case [hw1, hw2, hw3, hw4, hI, hwr, hres', hto] [hN, hwr, hwE, hoE, hres, hto, hmul, maxRTUFrameLength]
      · have hres' := hres
        simp only [isResync] at hres'
        by_cases hto : a.err = "ErrRequestTimedOut"
        · have hoE : ev.outcome = .timedOut := by
            rw [ht.out]; unfold outcomeOf; rw [if_neg hres, if_pos hto]
          have hrt : isResync "ErrRequestTimedOut" = false := by decide
          x_case [hw1, hw2, hw3, hw4, hI, hwr, hto] [hN, hwr, hwE, hoE, hrt, hto, hmul]
        · have hoE : ev.outcome = .heard := by rw [ht.out]; simp [outcomeOf, hres, hto]
          x_case [hw1, hw2, hw3, hw4, hI, hwr, hres', hto] [hN, hwr, hwE, hoE, hres, hto, hmul]
    · have hwE : ev.writeErr = true := by rw [ht.wr]; simp [hwr]
      x_case [hw1, hw2, hw3, hw4, hI, hwr] [hN, hwr, hwE]
  · have hI : ¬ (ev.now : Int) - ((la : Int) + (t35 rate : Nat)) < 0 := by omega
    by_cases hwr : a.wrErr = "nil"
    · have hwE : ev.writeErr = false := by rw [ht.wr]; simp [hwr]
      by_cases hres : isResync a.err = true
      · have hoE : ev.outcome = .resync := by rw [ht.out]; simp [outcomeOf, hres]
        have hto := isResync_not_timeout hres
        have hres' := hres
        simp only [isResync] at hres'
        x_case [hw1, hw2, hw3, hw4, hI, hwr, hres', hto] [hN, hwr, hwE, hoE, hres, hto, hmul, maxRTUFrameLength]
      · have hres' := hres
        simp only [isResync] at hres'
        by_cases hto : a.err = "ErrRequestTimedOut"
        · have hoE : ev.outcome = .timedOut := by
            rw [ht.out]; unfold outcomeOf; rw [if_neg hres, if_pos hto]
          have hrt : isResync "ErrRequestTimedOut" = false := by decide
          x_case [hw1, hw2, hw3, hw4, hI, hwr, hto] [hN, hwr, hwE, hoE, hrt, hto, hmul]
        · have hoE : ev.outcome = .heard := by rw [ht.out]; simp [outcomeOf, hres, hto]
          x_case [hw1, hw2, hw3, hw4, hI, hwr, hres', hto] [hN, hwr, hwE, hoE, hres, hto, hmul]
    · have hwE : ev.writeErr = true := by rw [ht.wr]; simp [hwr]
      x_case [hw1, hw2, hw3, hw4, hI, hwr] [hN, hwr, hwE]

/-- **the clock bookkeeping of `rtuTransport.ExecuteRequest` is `Timing.exchangeTimes`.**
    For every rate, every previous `rt.lastActivity = la`, every schedule `ev` (call time, the
    five lags, `Write`'s byte count and duration, the duration of the read) and every link
    answer `a` (`Tie`: the model's `writeErr` / `outcome` are the classes of the symbols the link
    returned), no int64 overflow (`ClockRange`), fuel ≥ 20. With `T = exchangeTimes rate la ev`:
    the function returns, having performed exactly the calls `xCalls`, i.e.
    * `time.Since([la + t35])`, and `time.Sleep([la + t35 − now])` iff `now < la + t35`
      (the source computes `-(now − (la + t35))` and tests `t < 0`);
    * `ts = time.Now()` = `T.ts`; `Write`; on a write error return, `rt.lastActivity` untouched;
    * `ts.Add([T.txEnd − T.ts])` (= `n·t1`) assigned to `rt.lastActivity` (= `T.txEnd`);
    * `time.Sleep([T.txEnd + t35 − (T.ts + writeDur)])`: `lastActivity + t35 − now2`;
    * `SetDeadline`, `readRTUFrame`;
    * iff the error is ErrBadCRC / ErrProtocolError / ErrShortFrame: `time.Sleep([256·t1])`, then
      `discard`;
    * iff the error is not ErrRequestTimedOut: the final `time.Now()`, AFTER the flush,
      assigned to `rt.lastActivity`;
    and `rt.lastActivity` at return is `T.lastActivity'`. -/
theorem C19X_exchange (rate la : Nat) (ev : Events) (a : LinkAns) (ht : Tie ev a)
    (hr : ClockRange rate la ev) (fuel : Nat) (hf : 20 ≤ fuel) :
    let r := execW (clockWorld ev a) fuel gs_rtuTransport_ExecuteRequest (rtuEnv (clockVals rate la ev))
    r.how = .returned ∧ r.calls = xCalls rate la ev a ∧
    Env.read r.env "rt.lastActivity" = .int (exchangeTimes rate la ev).lastActivity' ∧
    Env.read r.env "ts" = .int (exchangeTimes rate la ev).ts := by
  intro r
  have h20 := x_20 rate la ev a ht hr
  have hm : r = execW (clockWorld ev a) 20 gs_rtuTransport_ExecuteRequest
      (rtuEnv (clockVals rate la ev)) :=
    execW_mono _ 20 fuel _ _ hf (by
      have := congrArg (fun x => x.1) h20
      simp only [xObs] at this
      rw [this]; exact fun h => nomatch h)
  rw [hm]
  simp only [xObs, Prod.mk.injEq] at h20
  exact h20

/-- the arguments of `time.Sleep`, in order -/
def xSleeps (rate la : Nat) (ev : Events) (a : LinkAns) : List (List Val) :=
  let T := exchangeTimes rate la ev
  (if ev.now < la + t35 rate then [[.int ((txStart ev.now la rate : Nat) - (ev.now : Nat))]] else []) ++
  (if a.wrErr ≠ "nil" then [] else
    [.int ((T.txEnd : Int) + (t35 rate : Nat) - ((T.ts : Int) + (ev.writeDur : Nat)))] ::
    (if ev.outcome = .resync then [[.int ((maxRTUFrameLength * t1 rate : Nat) : Int)]] else []))

/-- **the three sleeps**: `txStart − now` iff that is positive (the pre-transmission wait of
    `Timing.txStart`); `lastActivity + t35 − now2` with `lastActivity = T.txEnd`,
    `now2 = T.ts + writeDur`; `maxRTUFrameLength · t1` iff the outcome is `resync` -/
theorem C19X_sleeps (rate la : Nat) (ev : Events) (a : LinkAns) (ht : Tie ev a)
    (hr : ClockRange rate la ev) (fuel : Nat) (hf : 20 ≤ fuel) :
    Res.argsOf (execW (clockWorld ev a) fuel gs_rtuTransport_ExecuteRequest
      (rtuEnv (clockVals rate la ev))) "time.Sleep" = xSleeps rate la ev a := by
  have hc := (C19X_exchange rate la ev a ht hr fuel hf).2.1
  simp only [Res.argsOf, hc]
  have hres : ev.outcome = .resync ↔ isResync a.err = true := by
    rw [ht.out]; unfold outcomeOf
    by_cases h : isResync a.err = true
    · simp [h]
    · by_cases h2 : a.err = "ErrRequestTimedOut" <;> simp [h, h2]
  have hts : ((txStart ev.now la rate : Nat) : Int) - (ev.now : Nat) =
      if ev.now < la + t35 rate then (la : Int) + (t35 rate : Nat) - (ev.now : Nat) else 0 := by
    unfold txStart; split <;> omega
  have hmul : ((maxRTUFrameLength * t1 rate : Nat) : Int) = 256 * ((t1 rate : Nat) : Int) := by
    rw [maxRTUFrameLength]; omega
  have hrt : isResync "ErrRequestTimedOut" = false := by decide
  unfold xSleeps xCalls
  rw [hts, hmul]
  by_cases hN : ev.now < la + t35 rate <;> by_cases hwr : a.wrErr = "nil" <;>
    by_cases hrs : isResync a.err = true <;> by_cases hto : a.err = "ErrRequestTimedOut" <;>
    simp [hN, hwr, hrs, hto, hres, sdCall, hrt]

/-- one case of `C19X_clock` -/
syntax "clk_case" " [" Lean.Parser.Tactic.simpLemma,* "]" : tactic
macro_rules
  | `(tactic| clk_case [$ms,*]) => `(tactic|
    (simp only [xCalls, clockVals, exchangeTimes, txStart, sdCall, dlLeaf, frLeaf, ne_eq,
       not_true_eq_false, not_false_eq_true, if_true, if_false, List.nil_append, List.cons_append,
       Bool.false_eq_true, clockAt_def, clockFrom_nil, clockFrom_cons, callDur_def, through_nil,
       through_cons, before_nil, before_cons, sleepArg_int, wasCalled_nil, wasCalled_cons,
       String.reduceEq, decide_true, decide_false, Bool.or_false, Bool.false_or, Bool.true_or,
       Bool.or_true, ↓reduceIte, Int.add_zero, Int.zero_add, forall_const, false_implies,
       implies_true, and_true, true_and, $ms,*]
     omega))

/-- **the clock readings of the run are the model's `Times`**, and the leaf of the second sleep
    is what Go computes there. With `cs` the calls of the run (`C19X_exchange`) and
    `T = exchangeTimes rate la ev`: the clock when the first `time.Now()` returns is `T.ts`; if
    the write succeeded, the clock when `readRTUFrame` is entered is `T.readStart`, when it
    returns `T.readEnd`; the value bound to `rt.lastActivity.Add(rt.t35).Sub(time.Now())` is
    `T.txEnd + t35 −` (the clock after `ts.Add`, i.e. when the argument of the second sleep is
    evaluated); and when the error is not the timeout sentinel the clock at the end of the run -
    the value of the final `time.Now()` - is `T.finish`. -/
theorem C19X_clock (rate la : Nat) (ev : Events) (a : LinkAns) (ht : Tie ev a) :
    let cs := xCalls rate la ev a
    let T := exchangeTimes rate la ev
    clockAt ev (through "time.Now" cs) = T.ts ∧
    (a.wrErr = "nil" →
      clockAt ev (before "rt.readRTUFrame" cs) = T.readStart ∧
      clockAt ev (through "rt.readRTUFrame" cs) = T.readEnd ∧
      (clockVals rate la ev).post =
        (T.txEnd : Int) + (t35 rate : Nat) - clockAt ev (through "ts.Add" cs) ∧
      (a.err ≠ "ErrRequestTimedOut" → clockAt ev cs = T.finish)) := by
  intro cs T
  have hmul : ((ev.n * t1 rate : Nat) : Int) = (ev.n : Int) * (t1 rate : Nat) := Int.natCast_mul _ _
  have hrt : isResync "ErrRequestTimedOut" = false := by decide
  by_cases hN : ev.now < la + t35 rate
  · by_cases hwr : a.wrErr = "nil"
    · have hwE : ev.writeErr = false := by rw [ht.wr]; simp [hwr]
      by_cases hres : isResync a.err = true
      · have hoE : ev.outcome = .resync := by rw [ht.out]; simp [outcomeOf, hres]
        have hto := isResync_not_timeout hres
        simp only [cs, T]
        clk_case [hN, hwr, hwE, hoE, hres, hto, hmul, maxRTUFrameLength]
      · by_cases hto : a.err = "ErrRequestTimedOut"
        · have hoE : ev.outcome = .timedOut := by
            rw [ht.out]; unfold outcomeOf; rw [if_neg hres, if_pos hto]
          simp only [cs, T]
          clk_case [hN, hwr, hwE, hoE, hrt, hto, hmul]
        · have hoE : ev.outcome = .heard := by rw [ht.out]; simp [outcomeOf, hres, hto]
          simp only [cs, T]
          clk_case [hN, hwr, hwE, hoE, hres, hto, hmul]
    · have hwE : ev.writeErr = true := by rw [ht.wr]; simp [hwr]
      simp only [cs, T]
      clk_case [hN, hwr, hwE]
  · by_cases hwr : a.wrErr = "nil"
    · have hwE : ev.writeErr = false := by rw [ht.wr]; simp [hwr]
      by_cases hres : isResync a.err = true
      · have hoE : ev.outcome = .resync := by rw [ht.out]; simp [outcomeOf, hres]
        have hto := isResync_not_timeout hres
        simp only [cs, T]
        clk_case [hN, hwr, hwE, hoE, hres, hto, hmul, maxRTUFrameLength]
      · by_cases hto : a.err = "ErrRequestTimedOut"
        · have hoE : ev.outcome = .timedOut := by
            rw [ht.out]; unfold outcomeOf; rw [if_neg hres, if_pos hto]
          simp only [cs, T]
          clk_case [hN, hwr, hwE, hoE, hrt, hto, hmul]
        · have hoE : ev.outcome = .heard := by rw [ht.out]; simp [outcomeOf, hres, hto]
          simp only [cs, T]
          clk_case [hN, hwr, hwE, hoE, hres, hto, hmul]
    · have hwE : ev.writeErr = true := by rw [ht.wr]; simp [hwr]
      simp only [cs, T]
      clk_case [hN, hwr, hwE]

/-! ### histories: the recorded `rt.lastActivity` is threaded from call to call -/

def natOf : Val → Nat
  | .int v => v.toNat
  | _ => 0

/-- one call on a transport whose `rt.lastActivity` is `la` -/
def goExchange (rate fuel la : Nat) (ev : Events) (a : LinkAns) : Res :=
  execW (clockWorld ev a) fuel gs_rtuTransport_ExecuteRequest (rtuEnv (clockVals rate la ev))

/-- a sequence of calls; each starts from the `rt.lastActivity` the previous one left. Record:
    (`lastActivity` before, `ts`, `lastActivity` after) -/
def goHistory (rate fuel : Nat) : Nat → List (Events × LinkAns) → List (Nat × Nat × Nat)
  | _, [] => []
  | la, (ev, a) :: t =>
    let r := goExchange rate fuel la ev a
    (la, natOf (Env.read r.env "ts"), natOf (Env.read r.env "rt.lastActivity")) ::
      goHistory rate fuel (natOf (Env.read r.env "rt.lastActivity")) t

/-- the hypotheses of `C19X_exchange` along a history -/
def HistoryOK (rate : Nat) : Nat → List (Events × LinkAns) → Prop
  | _, [] => True
  | la, (ev, a) :: t =>
    Tie ev a ∧ ClockRange rate la ev ∧ HistoryOK rate (exchangeTimes rate la ev).lastActivity' t

/-- **histories**: for any sequence of calls the records of the evaluated source are those of
    `Timing.history` - so `C19_silence_history`, `C19_silence_bus`, `history_monotone` of
    Props/C19.lean speak about the source: transmission `i+1` starts (`ts`) no earlier than `t35`
    after the `rt.lastActivity` that call `i` left. -/
theorem C19X_history (rate fuel : Nat) (hf : 20 ≤ fuel) :
    ∀ (l : List (Events × LinkAns)) (la : Nat), HistoryOK rate la l →
      goHistory rate fuel la l =
        (history rate la (l.map (·.1))).map (fun p => (p.1, p.2.ts, p.2.lastActivity')) := by
  intro l
  induction l with
  | nil => intro la _; rfl
  | cons x t ih =>
    intro la h
    obtain ⟨ev, a⟩ := x
    obtain ⟨h1, h2, h3⟩ := h
    obtain ⟨_, _, e1, e2⟩ := C19X_exchange rate la ev a h1 h2 fuel hf
    simp only [goHistory, goExchange, e1, e2, natOf, Int.toNat_natCast, List.map_cons, history]
    rw [ih _ h3]

/-- ... in particular the silent interval between consecutive transmissions of the source -/
theorem C19X_silence (rate fuel : Nat) (hf : 20 ≤ fuel) (l : List (Events × LinkAns)) (la : Nat)
    (h : HistoryOK rate la l) (i : Nat) (hi : i + 1 < (goHistory rate fuel la l).length) :
    ((goHistory rate fuel la l)[i + 1]).2.1 ≥ ((goHistory rate fuel la l)[i]).2.2 + t35 rate := by
  have e := C19X_history rate fuel hf l la h
  have hi' : i + 1 < (history rate la (l.map (·.1))).length := by
    rw [e, List.length_map] at hi; exact hi
  have := C19_silence_history rate la (l.map (·.1)) i hi'
  simp only [e, List.getElem_map]
  exact this

/-! ### sensitivity and concrete runs (kernel-evaluated) -/

/-- the seeded bug "stamp `rt.lastActivity` BEFORE the flush": the last two statements in front
    of the `return` swapped -/
def stampBeforeFlush : GStmt → GStmt
  | .seq a (.seq b .ret) => .seq b (.seq a .ret)
  | .seq a r => .seq a (stampBeforeFlush r)
  | s => s

/-- 19200 bps, `lastActivity = 0`, call at 5 ms, 8 bytes written, a bad CRC 1 µs into the read -/
def demoEv : Events := { now := 5000000, n := 8, readDur := 1000, outcome := .resync, lag3 := 7 }
def demoAns : LinkAns := ⟨"nil", "nil", "ErrBadCRC"⟩

/-- the generated term records the clock AFTER `Sleep(256·t1)` and `discard`, as the model does;
    the variant that stamps first records `readEnd`, 256 character times (146.7 ms) too early -
    the next request could go out while the device is still sending -/
theorem C19X_stamp_after_flush :
    Tie demoEv demoAns ∧
    (exchangeTimes 19200 0 demoEv).lastActivity' = 11334328 + 256 * 572916 + 7 ∧
    Env.read (execW (clockWorld demoEv demoAns) 20 gs_rtuTransport_ExecuteRequest
      (rtuEnv (clockVals 19200 0 demoEv))).env "rt.lastActivity" = .int (11334328 + 256 * 572916 + 7) ∧
    Env.read (execW (clockWorld demoEv demoAns) 20 (stampBeforeFlush gs_rtuTransport_ExecuteRequest)
      (rtuEnv (clockVals 19200 0 demoEv))).env "rt.lastActivity" = .int 11334328 := by
  refine ⟨⟨by decide, by decide⟩, by decide, by decide +kernel, by decide +kernel⟩

/-- the three sleeps of that run: none before the transmission (the line was idle for 5 ms),
    `8·t1 + t35` after it, `256·t1` for the resynchronisation -/
example : Res.argsOf (execW (clockWorld demoEv demoAns) 20 gs_rtuTransport_ExecuteRequest
    (rtuEnv (clockVals 19200 0 demoEv))) "time.Sleep" =
    [[.int (8 * 572916 + 1750000)], [.int (256 * 572916)]] := by decide +kernel

/-- a call 1 ms after the last activity at 9600 bps waits for the rest of t3.5 -/
example : Res.argsOf (execW (clockWorld { now := 1000000, n := 8 } ⟨"nil", "pdu", "nil"⟩) 20
    gs_rtuTransport_ExecuteRequest (rtuEnv (clockVals 9600 0 { now := 1000000, n := 8 })))
    "time.Sleep" = [[.int 3010415], [.int (8 * 1145833 + 4010415)]] := by decide +kernel

/-- the timeout sentinel leaves the estimated end of the own frame -/
example : Env.read (execW (clockWorld { now := 5000000, n := 8, readDur := 300000000, outcome := .timedOut }
      ⟨"nil", "nil", "ErrRequestTimedOut"⟩) 20 gs_rtuTransport_ExecuteRequest
    (rtuEnv (clockVals 19200 0 { now := 5000000, n := 8, readDur := 300000000, outcome := .timedOut }))).env
    "rt.lastActivity" = .int (5000000 + 8 * 572916) := by decide +kernel

/-- two calls at 9600 bps (the example of Props/C19.lean), run through the source -/
example : goHistory 9600 20 0
    [({ now := 10000000, n := 8, readDur := 9000000 }, ⟨"nil", "pdu", "nil"⟩),
     ({ now := 32177079 + 1000000, n := 8 }, ⟨"nil", "pdu", "nil"⟩)] =
    [(0, 10000000, 32177079), (32177079, 32177079 + 4010415, 49364573)] := by decide +kernel

end Modbus.Props.C19

#print axioms Modbus.Props.C19.C19X_exchange
#print axioms Modbus.Props.C19.C19X_sleeps
#print axioms Modbus.Props.C19.C19X_clock
#print axioms Modbus.Props.C19.C19X_history
#print axioms Modbus.Props.C19.C19X_silence
#print axioms Modbus.Props.C19.C19X_stamp_after_flush
