import ModbusVerif.Model.Client
import ModbusVerif.Spec.Reply
import ModbusVerif.Lemmas.ClientRespLemmas
/-
  Property C02.

  "A client call succeeds only if the peer sent a well-formed reply to that very request -
   matching transaction (MBAP) or valid CRC (RTU), same unit id, same function code, byte count
   and length matching the requested quantity, and the address/quantity/value echoed for writes -
   and it then returns exactly the requested number of values, decoded from that reply under the
   configured byte/word order. A well-formed exception reply (from the addressed unit or gateway
   unit 255) yields the specific error of its exception code, every valid reply delivered within
   the timeout is accepted, and any other byte stream yields a non-nil error and never a panic."

  Quantifier: all 30 public operations × all arguments × all byte streams a peer can send.

  `Spec.PositiveReply`, `Spec.ExceptionReply`, `Spec.decodeReply`, `Spec.exceptionError`,
  `Spec.requestedCount` (Spec/Reply.lean) are the independent specification; `Client.*` is the
  model of the Go code; `none` in the model stands for a Go run-time panic. A request is
  "accepted locally" when `op.core cfg = some c` and `c.request = .ok (fc, payload)`.

  Only statements live here; the proofs are in `Lemmas/ClientRespLemmas.lean`.
-/
namespace Modbus.Props.C02
open Modbus Modbus.Client Modbus.Spec

variable {cfg : Cfg} {op : Op} {c : Core} {fc : Byte} {payload : Bytes}

/-! ## PDU level -/

/-- 1. soundness: a PDU that passes the unit-id rules, the validation of the call and the decoding
    of the typed wrapper is a well-formed positive reply to this request; the caller gets exactly
    the values the specification reads from it, and exactly as many as requested -/
theorem C02_sound_pdu (he : cfg.endian ≠ .invalid) (hw : cfg.word ≠ .invalid)
    (hcore : op.core cfg = some c) (hreq : c.request = .ok (fc, payload))
    {res res' : Pdu} {raw : Raw} {v : Val}
    (hu : unitCheck cfg.unitId (.ok res) = .ok res')
    (hval : c.validate fc res' = some (.ok raw)) (hdec : op.decode cfg raw = some v) :
    PositiveReply cfg op res ∧ v = decodeReply cfg op res ∧ valCount v = requestedCount op :=
  ClientResp.sound_pdu he hw hcore hreq hu hval hdec

/-- 2. completeness: every well-formed positive reply is accepted and decoded -/
theorem C02_complete_pdu (he : cfg.endian ≠ .invalid) (hw : cfg.word ≠ .invalid)
    (hcore : op.core cfg = some c) (hreq : c.request = .ok (fc, payload))
    {res : Pdu} (hpos : PositiveReply cfg op res) :
    unitCheck cfg.unitId (.ok res) = .ok res ∧
    ∃ raw, c.validate fc res = some (.ok raw) ∧
      op.decode cfg raw = some (decodeReply cfg op res) :=
  ClientResp.complete_pdu he hw hcore hreq hpos

/-- 3a. a well-formed exception reply, from the addressed unit or from unit 255, with any of the
    256 codes, passes the unit-id rules and makes the call fail with the error of that code -/
theorem C02_exception_pdu (hcore : op.core cfg = some c) (hreq : c.request = .ok (fc, payload))
    {res : Pdu} {code : Byte} (hex : ExceptionReply cfg op res code) :
    unitCheck cfg.unitId (.ok res) = .ok res ∧
    c.validate fc res = some (.error (exceptionError code)) :=
  ClientResp.exception_pdu hcore hreq hex

/-- 3b. the code-to-error table of the library is the one of the specification -/
theorem C02_exception_table : Client.mapException = Spec.exceptionError :=
  funext ClientResp.mapException_eq

/-- 4. no panic on any PDU, for every configuration (valid selectors or not), every function
    code and every response: validation yields a result, and whenever it succeeds the typed
    wrapper's decoding yields a result too -/
theorem C02_total_pdu (hcore : op.core cfg = some c) (fc : Byte) (res : Pdu) :
    c.validate fc res ≠ none ∧
    ∀ raw, c.validate fc res = some (.ok raw) → op.decode cfg raw ≠ none :=
  ⟨ClientResp.validate_ne_none c fc res, fun raw h =>
    ClientResp.decode_total (ClientResp.core_view hcore) raw (ClientResp.validate_ok_shape c fc res raw h)⟩

/-- the typed wrappers never panic before the request either -/
theorem C02_core_total (cfg : Cfg) (op : Op) : op.core cfg ≠ none :=
  ClientResp.core_ne_none cfg op

/-! ## transport level, MBAP kinds (tcp, tcp+tls, udp) -/

/-- 5. soundness: a successful call consumed, after whole foreign frames only, a frame with the
    outstanding transaction id (and protocol id 0) that carries a well-formed positive reply; the
    values are those of the specification; exactly the bytes up to the end of that frame are
    consumed -/
theorem C02_sound_mbap (he : cfg.endian ≠ .invalid) (hw : cfg.word ≠ .invalid)
    (hk : cfg.kind.isRtu = false)
    (hcore : op.core cfg = some c) (hreq : c.request = .ok (fc, payload))
    {st : TState} {arrivals : Bytes} {e : Ending} {v : Val}
    (h : (op.run cfg st arrivals e).result = some (.ok v)) :
    ∃ pre res post,
      st.pending ++ arrivals = pre ++ Mbap.assemble (st.lastTxn + 1) res ++ post ∧
      Mbap.Skippable (st.lastTxn + 1) pre ∧ PositiveReply cfg op res ∧
      v = decodeReply cfg op res ∧ valCount v = requestedCount op ∧
      (op.run cfg st arrivals e).state = ⟨st.lastTxn + 1, post⟩ :=
  ClientResp.sound_mbap he hw hk hcore hreq h

/-- 6. completeness: a well-formed positive reply that arrived, framed with the outstanding
    transaction id, is accepted - whatever frames of other transactions precede it, whatever
    follows it, and however the stream ends afterwards.
    (No bound on the payload length is needed: a well-formed reply has at most 251 bytes.) -/
theorem C02_complete_mbap (he : cfg.endian ≠ .invalid) (hw : cfg.word ≠ .invalid)
    (hk : cfg.kind.isRtu = false)
    (hcore : op.core cfg = some c) (hreq : c.request = .ok (fc, payload))
    {st : TState} {arrivals pre post : Bytes} {res : Pdu} (e : Ending)
    (hpre : Mbap.Skippable (st.lastTxn + 1) pre) (hpos : PositiveReply cfg op res)
    (hs : st.pending ++ arrivals = pre ++ Mbap.assemble (st.lastTxn + 1) res ++ post) :
    (op.run cfg st arrivals e).result = some (.ok (decodeReply cfg op res)) ∧
    (op.run cfg st arrivals e).state = ⟨st.lastTxn + 1, post⟩ :=
  ClientResp.complete_mbap he hw hk hcore hreq e hpre hpos hs

/-- 7. a well-formed exception reply that arrived yields the error of its code -/
theorem C02_exception_mbap (hk : cfg.kind.isRtu = false)
    (hcore : op.core cfg = some c) (hreq : c.request = .ok (fc, payload))
    {st : TState} {arrivals pre post : Bytes} {res : Pdu} {code : Byte} (e : Ending)
    (hpre : Mbap.Skippable (st.lastTxn + 1) pre) (hex : ExceptionReply cfg op res code)
    (hs : st.pending ++ arrivals = pre ++ Mbap.assemble (st.lastTxn + 1) res ++ post) :
    (op.run cfg st arrivals e).result = some (.error (exceptionError code)) ∧
    (op.run cfg st arrivals e).state = ⟨st.lastTxn + 1, post⟩ :=
  ClientResp.exception_mbap hk hcore hreq e hpre hex hs

/-! ## transport level, RTU kinds (rtu, rtuovertcp, rtuoverudp) -/

/-- soundness: a successful call read, at the head of the stream, a frame with a valid CRC whose
    length matches its function code and that carries a well-formed positive reply -/
theorem C02_sound_rtu (he : cfg.endian ≠ .invalid) (hw : cfg.word ≠ .invalid)
    (hk : cfg.kind.isRtu = true)
    (hcore : op.core cfg = some c) (hreq : c.request = .ok (fc, payload))
    {st : TState} {arrivals : Bytes} {e : Ending} {v : Val}
    (h : (op.run cfg st arrivals e).result = some (.ok v)) :
    ∃ res post,
      st.pending ++ arrivals = Rtu.assemble res ++ post ∧ Rtu.Consistent res ∧
      PositiveReply cfg op res ∧ v = decodeReply cfg op res ∧ valCount v = requestedCount op ∧
      (op.run cfg st arrivals e).state = ⟨st.lastTxn, post⟩ :=
  ClientResp.sound_rtu he hw hk hcore hreq h

/-- completeness: a well-formed positive reply framed with its CRC at the head of the stream is
    accepted, whatever follows. (`Rtu.Consistent res` need not be assumed: it follows from
    `PositiveReply`, see `C02_positive_consistent`.) -/
theorem C02_complete_rtu (he : cfg.endian ≠ .invalid) (hw : cfg.word ≠ .invalid)
    (hk : cfg.kind.isRtu = true)
    (hcore : op.core cfg = some c) (hreq : c.request = .ok (fc, payload))
    {st : TState} {arrivals post : Bytes} {res : Pdu} (e : Ending)
    (hpos : PositiveReply cfg op res)
    (hs : st.pending ++ arrivals = Rtu.assemble res ++ post) :
    (op.run cfg st arrivals e).result = some (.ok (decodeReply cfg op res)) ∧
    (op.run cfg st arrivals e).state = ⟨st.lastTxn, post⟩ :=
  ClientResp.complete_rtu he hw hk hcore hreq e hpos hs

theorem C02_positive_consistent
    (hcore : op.core cfg = some c) (hreq : c.request = .ok (fc, payload))
    {res : Pdu} (hpos : PositiveReply cfg op res) : Rtu.Consistent res :=
  ClientResp.positive_consistent hcore hreq hpos

theorem C02_exception_rtu (hk : cfg.kind.isRtu = true)
    (hcore : op.core cfg = some c) (hreq : c.request = .ok (fc, payload))
    {st : TState} {arrivals post : Bytes} {res : Pdu} {code : Byte} (e : Ending)
    (hex : ExceptionReply cfg op res code)
    (hs : st.pending ++ arrivals = Rtu.assemble res ++ post) :
    (op.run cfg st arrivals e).result = some (.error (exceptionError code)) ∧
    (op.run cfg st arrivals e).state = ⟨st.lastTxn, post⟩ :=
  ClientResp.exception_rtu hk hcore hreq e hex hs

/-! ## all six kinds -/

/-- 8. never a panic: for every configuration (valid selectors or not), operation (locally
    rejected ones included), transport state, byte stream and stream ending the call returns
    values or a definite error -/
theorem C02_total (cfg : Cfg) (op : Op) (st : TState) (arrivals : Bytes) (e : Ending) :
    (op.run cfg st arrivals e).result ≠ none :=
  ClientResp.run_total cfg op st arrivals e

/-- "any other byte stream yields a non-nil error" (MBAP): unless the stream contains, after
    whole foreign frames, an own frame with a well-formed positive reply, the call returns an error -/
theorem C02_other_is_error_mbap (he : cfg.endian ≠ .invalid) (hw : cfg.word ≠ .invalid)
    (hk : cfg.kind.isRtu = false)
    (hcore : op.core cfg = some c) (hreq : c.request = .ok (fc, payload))
    {st : TState} {arrivals : Bytes} {e : Ending}
    (hno : ¬ ∃ pre res post,
      st.pending ++ arrivals = pre ++ Mbap.assemble (st.lastTxn + 1) res ++ post ∧
      Mbap.Skippable (st.lastTxn + 1) pre ∧ PositiveReply cfg op res) :
    ∃ err, (op.run cfg st arrivals e).result = some (.error err) := by
  cases hr : (op.run cfg st arrivals e).result with
  | none => exact absurd hr (C02_total cfg op st arrivals e)
  | some r =>
    cases r with
    | error err => exact ⟨err, rfl⟩
    | ok v =>
      obtain ⟨pre, res, post, h1, h2, h3, _⟩ := C02_sound_mbap he hw hk hcore hreq hr
      exact absurd ⟨pre, res, post, h1, h2, h3⟩ hno

/-- the same for RTU -/
theorem C02_other_is_error_rtu (he : cfg.endian ≠ .invalid) (hw : cfg.word ≠ .invalid)
    (hk : cfg.kind.isRtu = true)
    (hcore : op.core cfg = some c) (hreq : c.request = .ok (fc, payload))
    {st : TState} {arrivals : Bytes} {e : Ending}
    (hno : ¬ ∃ res post,
      st.pending ++ arrivals = Rtu.assemble res ++ post ∧ PositiveReply cfg op res) :
    ∃ err, (op.run cfg st arrivals e).result = some (.error err) := by
  cases hr : (op.run cfg st arrivals e).result with
  | none => exact absurd hr (C02_total cfg op st arrivals e)
  | some r =>
    cases r with
    | error err => exact ⟨err, rfl⟩
    | ok v =>
      obtain ⟨res, post, h1, _, h3, _⟩ := C02_sound_rtu he hw hk hcore hreq hr
      exact absurd ⟨res, post, h1, h3⟩ hno

/-- 9. a peer that stays silent until the deadline: ErrRequestTimedOut -/
theorem C02_silence_is_timeout
    (hcore : op.core cfg = some c) (hreq : c.request = .ok (fc, payload))
    {st : TState} (hp : st.pending = []) :
    (op.run cfg st [] .timeout).result = some (.error .requestTimedOut) :=
  ClientResp.silence_is_timeout hcore hreq hp

/-! ## the specification's decoders invert the documented layout (Spec/Layout.lean) -/

theorem C02_spec_regs16 (e : Endian) (he : e ≠ .invalid) :
    (∀ d : Bytes, d.length % 2 = 0 → (wireRegs e d).flatMap (layout16 e) = d) ∧
    (∀ vs : List U16, wireRegs e (vs.flatMap (layout16 e)) = vs) :=
  ⟨ClientResp.wireRegs_layout16 e he, ClientResp.layout16_wireRegs e he⟩

theorem C02_spec_regs32 (e : Endian) (w : WordOrder) (he : e ≠ .invalid) (hw : w ≠ .invalid) :
    (∀ d : Bytes, d.length % 4 = 0 → (join32 w (wireRegs e d)).flatMap (layout32 e w) = d) ∧
    (∀ vs : List U32, join32 w (wireRegs e (vs.flatMap (layout32 e w))) = vs) :=
  ⟨ClientResp.join32_layout32 e w he hw, ClientResp.layout32_join32 e w he hw⟩

theorem C02_spec_regs64 (e : Endian) (w : WordOrder) (he : e ≠ .invalid) (hw : w ≠ .invalid) :
    (∀ d : Bytes, d.length % 8 = 0 → (join64 w (wireRegs e d)).flatMap (layout64 e w) = d) ∧
    (∀ vs : List U64, join64 w (wireRegs e (vs.flatMap (layout64 e w))) = vs) :=
  ⟨ClientResp.join64_layout64 e w he hw, ClientResp.layout64_join64 e w he hw⟩

theorem C02_spec_bits (bs : List Bool) : bitsOf (packBools bs) bs.length = bs :=
  ClientResp.bitsOf_packBools bs

/-! ## non-vacuity -/

/-- unit 1 over TCP, LITTLE_ENDIAN / HIGH_WORD_FIRST -/
def cfgLH : Cfg := { kind := .tcp, unitId := 1, endian := .little, word := .highFirst }
def cfgRtu : Cfg := { kind := .rtu, unitId := 1, endian := .big, word := .highFirst }
def st0 : TState := { lastTxn := 0, pending := [] }

-- ReadUint32s(0x10, 1, HOLDING): accepted locally, function 3, two registers
example : (Op.readUint32s 0x10 1 0).core cfgLH = some (.readRegs 0x10 2 0) := by decide
example : (Core.readRegs 0x10 2 0).request = .ok (0x03, [0x00, 0x10, 0x00, 0x02]) := by decide

-- the reply  00 01 00 00 00 07 01 03 04 c0 7f 01 00  is well formed and carries 0x7fc00001
example : PositiveReply cfgLH (.readUint32s 0x10 1 0) ⟨1, 3, [4, 0xc0, 0x7f, 0x01, 0x00]⟩ := by decide
example : decodeReply cfgLH (.readUint32s 0x10 1 0) ⟨1, 3, [4, 0xc0, 0x7f, 0x01, 0x00]⟩
    = .u32s [0x7fc00001] := by decide
example : ((Op.readUint32s 0x10 1 0).run cfgLH st0
    [0x00, 0x01, 0x00, 0x00, 0x00, 0x07, 0x01, 0x03, 0x04, 0xc0, 0x7f, 0x01, 0x00] .timeout).result
    = some (.ok (.u32s [0x7fc00001])) := by decide
-- ... also behind a stale frame of transaction 0, with trailing bytes, whatever the ending
example : ((Op.readUint32s 0x10 1 0).run cfgLH st0
    ([0x00, 0x00, 0x00, 0x00, 0x00, 0x03, 0x01, 0x83, 0x02] ++
     [0x00, 0x01, 0x00, 0x00, 0x00, 0x07, 0x01, 0x03, 0x04, 0xc0, 0x7f, 0x01, 0x00] ++ [0xEE]) .reset)
    = { written := some [0x00, 0x01, 0x00, 0x00, 0x00, 0x06, 0x01, 0x03, 0x00, 0x10, 0x00, 0x02],
        result := some (.ok (.u32s [0x7fc00001])), state := ⟨1, [0xEE]⟩ } := by decide

-- not well formed: byte count 2 for two registers / reply from unit 2 / function 4 for a function 3 request
example : ¬ PositiveReply cfgLH (.readUint32s 0x10 1 0) ⟨1, 3, [2, 0xc0, 0x7f]⟩ := by decide
example : ((Op.readUint32s 0x10 1 0).run cfgLH st0
    [0x00, 0x01, 0x00, 0x00, 0x00, 0x05, 0x01, 0x03, 0x02, 0xc0, 0x7f] .timeout).result
    = some (.error .protocolError) := by decide
example : ((Op.readUint32s 0x10 1 0).run cfgLH st0
    [0x00, 0x01, 0x00, 0x00, 0x00, 0x07, 0x02, 0x03, 0x04, 0xc0, 0x7f, 0x01, 0x00] .timeout).result
    = some (.error .badUnitId) := by decide
example : ((Op.readUint32s 0x10 1 0).run cfgLH st0
    [0x00, 0x01, 0x00, 0x00, 0x00, 0x07, 0x01, 0x04, 0x04, 0xc0, 0x7f, 0x01, 0x00] .timeout).result
    = some (.error .protocolError) := by decide

-- exception replies: code 2 from the addressed unit, code 0x0b from a gateway (unit 255), an unknown code
example : ExceptionReply cfgLH (.readUint32s 0x10 1 0) ⟨1, 0x83, [0x02]⟩ 0x02 := by decide
example : ExceptionReply cfgLH (.readUint32s 0x10 1 0) ⟨0xFF, 0x83, [0x0b]⟩ 0x0b := by decide
example : ((Op.readUint32s 0x10 1 0).run cfgLH st0
    [0x00, 0x01, 0x00, 0x00, 0x00, 0x03, 0x01, 0x83, 0x02] .timeout).result
    = some (.error .illegalDataAddress) := by decide
example : ((Op.readUint32s 0x10 1 0).run cfgLH st0
    [0x00, 0x01, 0x00, 0x00, 0x00, 0x03, 0xFF, 0x83, 0x0b] .timeout).result
    = some (.error .gwTargetFailedToRespond) := by decide
example : exceptionError 0x07 = .unknownException 0x07 := by decide
example : exceptionError 0x06 = .serverDeviceBusy ∧ exceptionError 0x08 = .memoryParityError := by decide

-- bit reads: 10 coils from CD 01, least significant bit first
example : PositiveReply cfgLH (.readCoils 0x13 10) ⟨1, 1, [2, 0xCD, 0x01]⟩ := by decide
example : decodeReply cfgLH (.readCoils 0x13 10) ⟨1, 1, [2, 0xCD, 0x01]⟩
    = .bools [true, false, true, true, false, false, true, true, true, false] := by decide
example : ((Op.readCoils 0x13 10).run cfgLH st0
    [0x00, 0x01, 0x00, 0x00, 0x00, 0x05, 0x01, 0x01, 0x02, 0xCD, 0x01] .eof).result
    = some (.ok (.bools [true, false, true, true, false, false, true, true, true, false])) := by decide

-- byte strings: three bytes in two registers, swapped per register under LITTLE_ENDIAN
example : decodeReply cfgLH (.readBytes 0 3 0) ⟨1, 3, [4, 0x11, 0x22, 0x33, 0x44]⟩
    = .bytes [0x22, 0x11, 0x44] := by decide
example : decodeReply cfgLH (.readRawBytes 0 3 0) ⟨1, 3, [4, 0x11, 0x22, 0x33, 0x44]⟩
    = .bytes [0x11, 0x22, 0x33] := by decide

-- writes: the echo is required
example : PositiveReply cfgLH (.writeRegister 0x20 0x1234) ⟨1, 6, [0x00, 0x20, 0x34, 0x12]⟩ := by decide
example : ¬ PositiveReply cfgLH (.writeRegister 0x20 0x1234) ⟨1, 6, [0x00, 0x20, 0x12, 0x34]⟩ := by decide
example : PositiveReply cfgLH (.writeCoil 0x20 true) ⟨1, 5, [0x00, 0x20, 0xFF, 0x00]⟩ := by decide
example : PositiveReply cfgLH (.writeUint32s 0x20 [1, 2]) ⟨1, 0x10, [0x00, 0x20, 0x00, 0x04]⟩ := by decide
example : ((Op.writeUint32s 0x20 [1, 2]).run cfgLH st0
    [0x00, 0x01, 0x00, 0x00, 0x00, 0x06, 0x01, 0x10, 0x00, 0x20, 0x00, 0x04] .timeout).result
    = some (.ok .unit) := by decide
example : ((Op.writeUint32s 0x20 [1, 2]).run cfgLH st0
    [0x00, 0x01, 0x00, 0x00, 0x00, 0x06, 0x01, 0x10, 0x00, 0x20, 0x00, 0x03] .timeout).result
    = some (.error .protocolError) := by decide

-- RTU: ReadRegisters(0x10, 1, HOLDING) answered by 01 03 02 00 0a + CRC (38 43)
-- (`decide +kernel`: the table-driven CRC is evaluated by the kernel; no axiom is involved)
example : Rtu.assemble ⟨1, 3, [2, 0x00, 0x0a]⟩ = [0x01, 0x03, 0x02, 0x00, 0x0a, 0x38, 0x43] := by decide +kernel
example : ((Op.readRegisters 0x10 1 0).run cfgRtu st0
    [0x01, 0x03, 0x02, 0x00, 0x0a, 0x38, 0x43] .timeout).result = some (.ok (.u16s [0x000a])) := by decide +kernel
example : ((Op.readRegisters 0x10 1 0).run cfgRtu st0
    [0x01, 0x03, 0x02, 0x00, 0x0a, 0x38, 0x44] .timeout).result = some (.error .badCRC) := by decide +kernel

-- silence, on both framings
example : ((Op.readRegisters 0x10 1 0).run cfgRtu st0 [] .timeout).result
    = some (.error .requestTimedOut) := by decide
example : ((Op.readRegisters 0x10 1 0).run cfgLH st0 [] .timeout).result
    = some (.error .requestTimedOut) := by decide

-- a locally rejected call (quantity 0) returns its error without touching the connection
example : (Op.readRegisters 0x10 0 0).run cfgLH st0 [1, 2, 3] .timeout
    = { written := none, result := some (.error .unexpectedParameters), state := st0 } := by decide

end Modbus.Props.C02

#print axioms Modbus.Props.C02.C02_sound_pdu
#print axioms Modbus.Props.C02.C02_complete_pdu
#print axioms Modbus.Props.C02.C02_exception_pdu
#print axioms Modbus.Props.C02.C02_exception_table
#print axioms Modbus.Props.C02.C02_total_pdu
#print axioms Modbus.Props.C02.C02_core_total
#print axioms Modbus.Props.C02.C02_sound_mbap
#print axioms Modbus.Props.C02.C02_complete_mbap
#print axioms Modbus.Props.C02.C02_exception_mbap
#print axioms Modbus.Props.C02.C02_sound_rtu
#print axioms Modbus.Props.C02.C02_complete_rtu
#print axioms Modbus.Props.C02.C02_positive_consistent
#print axioms Modbus.Props.C02.C02_exception_rtu
#print axioms Modbus.Props.C02.C02_total
#print axioms Modbus.Props.C02.C02_other_is_error_mbap
#print axioms Modbus.Props.C02.C02_other_is_error_rtu
#print axioms Modbus.Props.C02.C02_silence_is_timeout
#print axioms Modbus.Props.C02.C02_spec_regs16
#print axioms Modbus.Props.C02.C02_spec_regs32
#print axioms Modbus.Props.C02.C02_spec_regs64
#print axioms Modbus.Props.C02.C02_spec_bits
