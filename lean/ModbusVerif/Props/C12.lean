import ModbusVerif.Lemmas.StreamLemmas
import ModbusVerif.Lemmas.MbapLemmas
/-
  C12 — segmentation independence at transport level.
  What the transports obtain from their connection depends only on the byte stream, not on how
  TCP segments / `Read` calls / UDP datagrams cut it.
-/
namespace Modbus.Props.C12
open Modbus Modbus.Strm Modbus.Mbap

/-- the `io.ReadFull` loop over any segmentation (empty chunks allowed) returns the first `n`
    bytes of the concatenated stream and leaves exactly the remaining bytes -/
theorem C12_readFull_chunking (n : Nat) (src : List Bytes) :
    (readFullChunked n src).1 = src.flatten.take n ∧
    ((readFullChunked n src).2).flatten = src.flatten.drop n :=
  readFullChunked_flatten n src

example : readFullChunked 4 [[1], [], [2, 3], [], [4, 5, 6], [7]] = ([1, 2, 3, 4], [[5, 6], [7]]) := by
  simp [readFullChunked]
example : readFullChunked 9 [[1], [], [2, 3], []] = ([1, 2, 3], []) := by
  simp [readFullChunked]

/-- the outcome (bytes, error, remainder) of `io.ReadFull` on a chunked source is the outcome of
    the flat model on the concatenated stream -/
theorem C12_readFull_outcome (n : Nat) (src : List Bytes) (e : Ending) :
    (readFullC n src e).flat = readFull n src.flatten e :=
  readFullC_flat n src e

theorem C12_readFull_enough {n : Nat} {src : List Bytes} (e : Ending) (h : n ≤ src.flatten.length) :
    readFull n src.flatten e = .ok (readFullChunked n src).1 ((readFullChunked n src).2).flatten :=
  readFullChunked_of_le e h

theorem C12_readFull_short {n : Nat} {src : List Bytes} (e : Ending) (h : src.flatten.length < n) :
    (readFullChunked n src).1 = src.flatten ∧ ((readFullChunked n src).2).flatten = [] ∧
    readFull n src.flatten e =
      .short (readFullChunked n src).1 (shortErr (readFullChunked n src).1.length e) :=
  readFullChunked_of_lt e h

example : (4 : Nat) ≤ ([[1], [], [2, 3], [], [4, 5, 6], [7]] : List Bytes).flatten.length := by decide
example : ([[1], [], [2, 3], []] : List Bytes).flatten.length < 9 := by decide
example : readFullC 9 [[1], [], [2, 3], []] .eof = .short [1, 2, 3] .ioUnexpectedEOF := by
  simp [readFullC, readFullChunked, shortErr]

theorem C12_readFull_segmentation {src₁ src₂ : List Bytes} (n : Nat) (e : Ending)
    (h : src₁.flatten = src₂.flatten) :
    (readFullC n src₁ e).flat = (readFullC n src₂ e).flat :=
  readFullC_segmentation n e h

/-- `readMBAPFrame` over a chunked source = `readMBAPFrame` over the concatenated stream -/
theorem C12_readFrame_chunking (src : List Bytes) (e : Ending) :
    (readFrameC src e).1 = (readFrame src.flatten e).1 ∧
    ((readFrameC src e).2).flatten = (readFrame src.flatten e).2 :=
  readFrameC_flatten src e

/-- two segmentations of the same byte stream: same frame / same error, same unread bytes -/
theorem C12_mbap_segmentation {src₁ src₂ : List Bytes} (e : Ending)
    (h : src₁.flatten = src₂.flatten) :
    (readFrameC src₁ e).1 = (readFrameC src₂ e).1 ∧
    ((readFrameC src₁ e).2).flatten = ((readFrameC src₂ e).2).flatten := by
  obtain ⟨a1, a2⟩ := readFrameC_flatten src₁ e
  obtain ⟨b1, b2⟩ := readFrameC_flatten src₂ e
  rw [a1, a2, b1, b2, h]
  exact ⟨rfl, rfl⟩

example : ([[0x12], [], [0x35, 0, 0], [0, 5, 1, 3, 2, 0xAB], [0xCD, 0xFF]] : List Bytes).flatten =
    ([[0x12, 0x35, 0, 0, 0, 5, 1], [3, 2, 0xAB, 0xCD, 0xFF]] : List Bytes).flatten := by decide
example : readFrame [0x12, 0x35, 0, 0, 0, 5, 1, 3, 2, 0xAB, 0xCD, 0xFF] .timeout =
    (.ok ⟨1, 3, [2, 0xAB, 0xCD]⟩ 0x1235, [0xFF]) := by decide

example : readFrameC [[0x12], [], [0x35, 0, 0], [0, 5, 1, 3, 2, 0xAB], [0xCD, 0xFF]] .timeout =
    (.ok ⟨1, 3, [2, 0xAB, 0xCD]⟩ 0x1235, [[0xFF]]) := by
  simp [readFrameC, readFullC, readFullChunked, mbapHeaderLength, maxTCPFrameLength, mk16]
example : readFrameC [[0x12, 0x35, 0, 0, 0, 5, 1], [3, 2, 0xAB, 0xCD, 0xFF]] .timeout =
    (.ok ⟨1, 3, [2, 0xAB, 0xCD]⟩ 0x1235, [[0xFF]]) := by
  simp [readFrameC, readFullC, readFullChunked, mbapHeaderLength, maxTCPFrameLength, mk16]

/-- the client's whole skip loop is independent of the segmentation -/
theorem C12_readResponse_chunking (txn : U16) (src : List Bytes) (e : Ending) :
    (readResponseC txn src e).1 = (readResponse txn src.flatten e).1 ∧
    ((readResponseC txn src e).2).flatten = (readResponse txn src.flatten e).2 :=
  readResponseC_flatten txn src e

theorem C12_readResponse_segmentation {src₁ src₂ : List Bytes} (txn : U16) (e : Ending)
    (h : src₁.flatten = src₂.flatten) :
    (readResponseC txn src₁ e).1 = (readResponseC txn src₂ e).1 ∧
    ((readResponseC txn src₁ e).2).flatten = ((readResponseC txn src₂ e).2).flatten := by
  obtain ⟨a1, a2⟩ := readResponseC_flatten txn src₁ e
  obtain ⟨b1, b2⟩ := readResponseC_flatten txn src₂ e
  rw [a1, a2, b1, b2, h]
  exact ⟨rfl, rfl⟩

/-! ### UDP datagram → stream adapter -/

/-- one `Read` on the adapter returns a prefix of the pending bytes (nothing lost, duplicated or
    reordered) of at most `n` bytes -/
theorem C12_udp_read {n : Nat} {st st' : Udp.State} {got : Bytes}
    (h : Udp.read n st = some (got, st')) :
    st.pendingBytes = got ++ st'.pendingBytes ∧ got.length ≤ n :=
  Udp.read_some h

example : Udp.read 2 ⟨[], [[1, 2, 3], [4]]⟩ = some ([1, 2], ⟨[3], [[4]]⟩) := by decide

theorem C12_udp_read_none (n : Nat) (st : Udp.State) :
    Udp.read n st = none ↔ st.leftover = [] ∧ st.dgrams = [] :=
  Udp.read_eq_none_iff n st

/-- `io.ReadFull` on the adapter (zero-length datagrams and datagram boundaries included)
    returns the first `n` pending bytes and leaves the others pending -/
theorem C12_udp_readFull (n : Nat) (st : Udp.State) :
    (Udp.readFullU n st).1 = st.pendingBytes.take n ∧
    (Udp.readFullU n st).2.pendingBytes = st.pendingBytes.drop n :=
  Udp.readFullU_pending n st

/-- datagrams of at most 260 bytes are never truncated: the adapter delivers the concatenation
    of the datagrams -/
theorem C12_udp_no_truncation (st : Udp.State) (h : ∀ d ∈ st.dgrams, d.length ≤ Udp.rxbufLen) :
    st.pendingBytes = st.leftover ++ st.dgrams.flatten :=
  Udp.pendingBytes_of_small st h

example : ∀ d ∈ (⟨[9], [[1, 2, 3], [], [4]]⟩ : Udp.State).dgrams, d.length ≤ Udp.rxbufLen := by decide

end Modbus.Props.C12

#print axioms Modbus.Props.C12.C12_readFull_chunking
#print axioms Modbus.Props.C12.C12_readFull_outcome
#print axioms Modbus.Props.C12.C12_readFull_enough
#print axioms Modbus.Props.C12.C12_readFull_short
#print axioms Modbus.Props.C12.C12_readFull_segmentation
#print axioms Modbus.Props.C12.C12_readFrame_chunking
#print axioms Modbus.Props.C12.C12_mbap_segmentation
#print axioms Modbus.Props.C12.C12_readResponse_chunking
#print axioms Modbus.Props.C12.C12_readResponse_segmentation
#print axioms Modbus.Props.C12.C12_udp_read
#print axioms Modbus.Props.C12.C12_udp_read_none
#print axioms Modbus.Props.C12.C12_udp_readFull
#print axioms Modbus.Props.C12.C12_udp_no_truncation
