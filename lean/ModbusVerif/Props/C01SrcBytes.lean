import ModbusVerif.Lemmas.GoEvalBytesLemmas
import ModbusVerif.Lemmas.GoEvalLifeLemmas
import ModbusVerif.Props.C01Src
/-
  C01, source tie for the CONSTRUCTION OF THE BYTES of a request.

  Props/C01.lean proves "the bytes on the wire are the Modbus encoding of the operation" about the
  hand-written models `Client.Core.request` / `Client.Op.core` (Model/Client.lean), `Mbap.assemble`
  (Model/Mbap.lean), `Rtu.assemble` (Model/Rtu.lean). Props/C01Src.lean ties the ARGUMENT CHECKS and the
  function codes of the Go source to those models. Here the BYTES are tied: the richer rendering
  `Gen.gsp_<fn>` of the functions that build byte strings (regenerated from /repo on every run; every
  `append`, `[]byte{…}` and codec call is a call statement) is EVALUATED by `Modbus.GoEval` against the
  world `sliceWorld` of Lemmas/GoEvalBytesLemmas.lean and the bytes the final call log denotes are proved
  equal to the models', FOR ALL INPUTS. No disagreement between source and model was found.

  ## What is proved  (`W = sliceWorld ext`; `bytesAt log h` = the bytes handle `h` denotes in `log`)
  1. `C01B_mbap_frame`      `gsp_tcpTransport_assembleMBAPFrame`, every transaction id, unit id, function code,
                            payload `pl` (NO length bound: `uint16(2 + len(p.payload))` wraps in the source and in
                            `Mbap.assemble` alike — the statement has the wrapped length `u16OfNat (2 + len)`), any
                            entry log holding `pl`, any environment binding the parameters, fuel ≥ 16: returns
                            after exactly the seven slice operations `mbapCalls`; `payload` is the handle of
                            `be16 txn ++ [0,0] ++ be16 (u16OfNat (2+len)) ++ [unit, fc] ++ pl = Mbap.assemble txn ⟨unit, fc, pl⟩`.
                            `C01B_mbap_frame_small`: for `len ≤ 253` the length field is `[0, 2 + len]` exactly.
  2. `C01B_rtu_frame`       `gsp_rtuTransport_assembleRTUFrame`: returns after exactly `rtuCalls`; `crc.add` is called
                            on the handle of exactly `[unit, fc] ++ pl`; `adu` is the handle of
                            `[unit, fc] ++ pl ++ Crc.crc16 ([unit, fc] ++ pl) = Rtu.assemble ⟨unit, fc, pl⟩`.
  3. `C01B_core_payloads`   the six core functions (`coreStmtP`), EVERY argument in the range of its Go type
                            (`coreInRange` of C01Src: lengths < 2^63, `quantity` < 2^32), every unit id, any entry
                            log holding the slice argument, `ext` cutting the run at `mc.executeRequest`, fuel ≥ 64:
                            `builtOf run = builtModel (Core.request)`, i.e. (`C01B_core_payloads_spelled`) the run is a
                            refusal that performed no call exactly when the model refuses, and otherwise stops at
                            `mc.executeRequest(req)` with `req.unitId`, `req.functionCode` the model's and
                            `req.payload` the handle of EXACTLY the model's payload bytes. `C01B_request_shapes`
                            spells the payloads out: `writeRegisters`: `be16 addr ++ be16 (uint16(len)/2) ++
                            [byte(uint16(len))] ++ values`; `WriteCoils`: `… ++ [byte(len(encodeBools values))] ++
                            encodeBools values`; `WriteCoil`: `be16 addr ++ [0xff,0x00] / [0x00,0x00]`; `WriteRegister`:
                            `be16 addr ++ uint16ToBytes mc.endianness value` (`C01B_WriteRegister_any`: any value of
                            the byte-order field). The limit checks are re-derived on the `gsp_` terms (same
                            verdict technique as C01Src; F1-type lengths ≥ 65536 are inside the quantifier).
  4. `C01B_multi_payloads`  `WriteRegisters`, `WriteUint32s`, `WriteFloat32s`, `WriteUint64s`, `WriteFloat64s`: every
                            value list of length < 2^63, every pair of values returned by `mc.encoding`, fuel ≥ len + 20:
                            the run reaches `mc.writeRegisters(addr, payload)` with `payload` the handle of the
                            concatenation, in order, of the model codec of every value = the payload of
                            `Op.core` (`C01B_multi_model`). `C01B_multi_instr`: the evaluated term is the generated
                            one with the `withProbe` pseudo-call at the head of the loop body, `stripProbe` gives
                            the generated term back. `C01B_multi_compose`: that handle, given to `writeRegisters`
                            (item 3) on the wrapper's final log, reaches `mc.executeRequest` as `Core.writeRegs addr pl`.
  5. `C01B_writeBytes`      `gsp_ModbusClient_writeBytes` when no swap is requested (`!observeEndianness` or byte
                            order ≠ LITTLE_ENDIAN), every input: exactly the private copy
                            `append(make([]byte,0,len+1), values...)` then `append(values, 0x00)` EXACTLY WHEN the
                            length is odd; `mc.writeRegisters` receives the handle of `writeBytesPayload …`.
     `C01B_writeBytes_le`   the little-endian swap, every input of length < 2^62. The loop assigns ELEMENTS of the
                            slice (`values[i], values[i+1] = values[i+1], values[i]`): the handle device has
                            immutable objects, so this needs a (small) STORE MODEL, see below. With it: the loop
                            runs ⌈len/2⌉ rounds, performs no slice operation, and the stores applied to the padded
                            private copy give exactly `swapPairs padded = writeBytesPayload .little true bs`.
  6. sensitivity            eight variants DERIVED from the generated terms (`byte(quantity)`, addr/quantity
                            exchanged, `00 ff`, unit/fc exchanged and length without the 2 in MBAP, CRC over the
                            payload only, reversed `append`, prepending loop) give different bytes on a concrete
                            input (`C01B_variants` shows they differ from the generated term in the intended call
                            only); the true terms give the textbook frames (`01 03 00 00 00 01 84 0A`,
                            `00 01 00 00 00 06 01 03 00 00 00 01`, `11 05 00 AC FF 00 4E 8B`,
                            `11 10 00 01 00 02 04 00 0A 01 02 C6 F0`, `11 01 00 13 00 25 0E 84`); without the probe
                            every register written is the first one.

  ## What is MODELLED rather than derived from the generated terms
  * THE HANDLE DEVICE (Lemmas/GoEvalBytesLemmas.lean). A slice value is a HANDLE = the position in the call log
    of the call that created it; `sliceWorld` answers every slice-producing call with its own position; input
    slices are `("#input", …)` pseudo-entries of the entry log (hypotheses `bytesAt cs0 h = some …`; the nil
    named results `adu`, `payload` and the fresh `make([]byte, 0, len+1)` are handles of an empty entry, bound
    in the entry environment). `bytesAt` interprets the log from left to right.
  * `append(b, e…)` / `append(b, s...)` IS CONCATENATION INTO A FRESH OBJECT; operands keep their contents.
    Whether the result shares the backing array of `b` is not represented (aliasing: property C18,
    Props/C18Src.lean shows `writeBytes` works on a private copy).
  * THE CODEC CALLS `uint16ToBytes`, `uint32ToBytes`, `float32ToBytes`, `uint64ToBytes`, `float64ToBytes`,
    `encodeBools` and `crc.init` / `crc.add` / `crc.value` are interpreted by the MODEL codecs (`Enc.*`, `Crc.*`) on
    the argument VALUES in the log (selector 1 / 2 ↦ big / little, high / low word first, anything else ↦ no case
    matches; the value modulo 2^16 / 2^32 / 2^64). The source codecs are tied to these models in Props/C17Src.lean
    and Props/C06Src.lean. A `float32` / `float64` value is its IEEE-754 bit pattern as an integer (as in
    `Client.Op`), `float32ToBytes e w v` is `Enc.uint32ToBytes e w` of the pattern.
  * LEAF TEXTS. Leaves are keyed by their text. `len(p.payload)`, `len(values)` are bound to the length of the
    bytes the handle denotes (hypothesis of the entry environment). `len(encodedValues)` in `WriteCoils` is read
    after `encodedValues` is assigned: `coreEnvB` binds it to the length of the model's `encodeBools values`
    (the meaning of the leaf, a hypothesis). `values[#i]` (element `#i` of the parameter) is re-bound before every
    round by the removable `withProbe` pseudo-call `#values[#i](#i)`, answered from the value list and the VALUE
    of `#i` (`probeInts`; `C01B_sensitive_noProbe` shows why). `req.unitId` / `req.functionCode` are the
    per-field assignments the translator emits after the composite literal.
  * COMPOSITION (`C01B_multi_compose`, `rtuFrameOf` / `mbapFrameOf` in §6): the callee's entry environment is
    formed from the caller's argument values (`values` := the handle, `len(values)` := the length of its bytes).
  * THE STORE MODEL of `C01B_writeBytes_le` (only there). Two more removable instrumentations: probes
    `values[i] := #values[i](i)`, `values[i+1] := #values[i+1](i)` at the head of the loop body, and an
    observation `#store values[i](i, values[i])` / `#store values[i+1](i, values[i+1])` after each of the two
    element assignments (`withStoreObs`; `strip_wbGs`: stripping everything gives the generated term).
    `storeOf pd log` = `pd` with the logged stores applied in order (`values[i]` ↦ element `i`, `values[i+1]` ↦
    element `i + 1`, `i` being the logged value); the probes answer from `storeOf pd (log so far)`, i.e. from the
    CURRENT contents. The object denoted by the handle keeps its creation-time contents (`padded`); the final
    contents are `storeOf padded log`. NOT represented: that the caller's slice is untouched (C18), and the
    identity of the stored-to array with the handle's object (the leaf text `values[i]` is read as "element `i` of
    the slice in `values`"). `len(values)` is ONE key: it is bound to the original length, which the parity test
    reads; the loop test reads the same key although Go's `values` is padded by then — for the even `i` of the
    loop both give the same truth value (`C01B_stale_len_harmless`).
  * Bounds: lengths < 2^63 (Go `int`), < 2^62 for the swap loop (`i += 2` must not wrap).
-/
set_option linter.unusedSimpArgs false
set_option linter.unusedVariables false
set_option maxRecDepth 100000

namespace Modbus.Props.C01
open Modbus Modbus.Client Modbus.Gen Modbus.GoEval

/-! ## 1. `assembleMBAPFrame` -/

/-- the slice operations of `assembleMBAPFrame` performed on a log of length `n`, in order -/
def mbapCalls (n hp : Nat) (txn : U16) (u fc : Byte) (len : Nat) : Calls :=
  [("uint16ToBytes", [.int 1, .int (txn.toNat : Int)]),
   ("append", [.int (n : Int), .int 0, .int 0]),
   ("uint16ToBytes", [.int 1, .int (((2 + (len : Int) + 9223372036854775808) % 18446744073709551616
      - 9223372036854775808) % 65536)]),
   ("append...", [.int ((n + 1 : Nat) : Int), .int ((n + 2 : Nat) : Int)]),
   ("append", [.int ((n + 3 : Nat) : Int), .int (u.toNat : Int)]),
   ("append", [.int ((n + 4 : Nat) : Int), .int (fc.toNat : Int)]),
   ("append...", [.int ((n + 5 : Nat) : Int), .int (hp : Int)])]

/-- **`assembleMBAPFrame`, every transaction id, unit id, function code and payload** (no bound on the
    payload length: `uint16(2 + len(p.payload))` WRAPS, in the source and in the model alike).
    From any log `cs0` in which handle `hp` holds the payload bytes `pl`, any environment binding the
    parameters, any `ext`, every fuel ≥ 16: the run returns; it performed exactly the seven slice
    operations `mbapCalls`; the result variable `payload` holds the handle of
    `be16 txn ++ [0,0] ++ be16 (uint16 (2 + len)) ++ [unit, fc] ++ pl`, which is `Mbap.assemble`. -/
theorem C01B_mbap_frame (ext : World) (cs0 : Calls) (env : Env) (txn : U16) (u fc : Byte) (pl : Bytes)
    (hp : Nat) (hpl : bytesAt cs0 hp = some pl)
    (e1 : Env.read? env "txnId" = some (.int (txn.toNat : Int)))
    (e2 : Env.read? env "p.payload" = some (.int (hp : Int)))
    (e3 : Env.read? env "len(p.payload)" = some (.int (pl.length : Int)))
    (e4 : Env.read? env "p.unitId" = some (.int (u.toNat : Int)))
    (e5 : Env.read? env "p.functionCode" = some (.int (fc.toNat : Int)))
    (fuel : Nat) (hf : 16 ≤ fuel) :
    let r := execFromW (sliceWorld ext) fuel gsp_tcpTransport_assembleMBAPFrame env cs0
    r.how = .returned ∧
    r.calls = cs0 ++ mbapCalls cs0.length hp txn u fc pl.length ∧
    Env.read? r.env "payload" = some (.int ((cs0.length + 6 : Nat) : Int)) ∧
    bytesAt r.calls (cs0.length + 6) =
      some (be16 txn ++ [0, 0] ++ be16 (u16OfNat (2 + pl.length)) ++ [u, fc] ++ pl) ∧
    be16 txn ++ [0, 0] ++ be16 (u16OfNat (2 + pl.length)) ++ [u, fc] ++ pl =
      Mbap.assemble txn { unit := u, fc := fc, payload := pl } := by
  obtain ⟨m, rfl⟩ : ∃ m, fuel = m + 16 := ⟨fuel - 16, by omega⟩
  go_slices [gsp_tcpTransport_assembleMBAPFrame, e1, e2, e3, e4, e5]
  refine ⟨?_, ?_, ?_⟩
  · simp only [mbapCalls, List.append_assoc, List.cons_append, List.nil_append]
  · apply bytesAt_eq_of
    case h1 => slice_solve
    case h2 =>
      have hw : BitVec.ofInt 16 (((2 + (pl.length : Int) + 9223372036854775808) % 18446744073709551616
          - 9223372036854775808) % 65536) = u16OfNat (2 + pl.length) := ofInt16_of_mod _ _ (by omega)
      have h0 : BitVec.ofInt 8 0 = (0 : Byte) := by decide
      simp only [hw, h0, endianOfInt_1, Enc.uint16ToBytes, ofInt16_toNat, byteOfInt_toNat,
        List.append_assoc, List.cons_append, List.nil_append]
  · simp only [Mbap.assemble, List.append_assoc, List.cons_append, List.nil_append]

/-- corollary for payloads of at most 253 bytes (the protocol maximum: a PDU has at most 253 bytes
    after the unit id): nothing wraps, the length field is `2 + len` exactly -/
theorem C01B_mbap_frame_small (ext : World) (cs0 : Calls) (env : Env) (txn : U16) (u fc : Byte)
    (pl : Bytes) (hsmall : pl.length ≤ 253)
    (hp : Nat) (hpl : bytesAt cs0 hp = some pl)
    (e1 : Env.read? env "txnId" = some (.int (txn.toNat : Int)))
    (e2 : Env.read? env "p.payload" = some (.int (hp : Int)))
    (e3 : Env.read? env "len(p.payload)" = some (.int (pl.length : Int)))
    (e4 : Env.read? env "p.unitId" = some (.int (u.toNat : Int)))
    (e5 : Env.read? env "p.functionCode" = some (.int (fc.toNat : Int)))
    (fuel : Nat) (hf : 16 ≤ fuel) :
    let r := execFromW (sliceWorld ext) fuel gsp_tcpTransport_assembleMBAPFrame env cs0
    r.how = .returned ∧
    bytesAt r.calls (cs0.length + 6) = some (Mbap.assemble txn { unit := u, fc := fc, payload := pl }) ∧
    Env.read? r.env "payload" = some (.int ((cs0.length + 6 : Nat) : Int)) ∧
    (u16OfNat (2 + pl.length)).toNat = 2 + pl.length ∧
    Mbap.assemble txn { unit := u, fc := fc, payload := pl } =
      be16 txn ++ [0, 0] ++ [0, byteOfNat (2 + pl.length)] ++ [u, fc] ++ pl := by
  obtain ⟨h1, _, h3, h4, h5⟩ := C01B_mbap_frame ext cs0 env txn u fc pl hp hpl e1 e2 e3 e4 e5 fuel hf
  refine ⟨h1, by rw [← h5]; exact h4, h3, ?_, ?_⟩
  · rw [toNat_u16OfNat]; omega
  · rw [← h5]
    have : be16 (u16OfNat (2 + pl.length)) = [0, byteOfNat (2 + pl.length)] := by
      simp only [be16, hi, lo, u16OfNat, byteOfNat, List.cons.injEq, and_true]
      constructor
      · apply BitVec.eq_of_toNat_eq
        have h0 : (0 : Byte).toNat = 0 := rfl
        simp only [BitVec.extractLsb'_toNat, BitVec.toNat_ofNat, Nat.shiftRight_eq_div_pow, h0,
          Nat.reducePow]
        omega
      · apply BitVec.eq_of_toNat_eq
        simp only [BitVec.extractLsb'_toNat, BitVec.toNat_ofNat, Nat.shiftRight_eq_div_pow,
          Nat.reducePow]
        omega
    rw [this]

/-! ## 2. `assembleRTUFrame` -/

/-- the operations of `assembleRTUFrame` on a log of length `n`; `hn`: handle of the (nil) result
    variable at entry, `hp`: handle of the payload -/
def rtuCalls (n hn hp : Nat) (u fc : Byte) : Calls :=
  [("append", [.int (hn : Int), .int (u.toNat : Int)]),
   ("append", [.int (n : Int), .int (fc.toNat : Int)]),
   ("append...", [.int ((n + 1 : Nat) : Int), .int (hp : Int)]),
   ("crc.init", []), ("crc.add", [.int ((n + 2 : Nat) : Int)]), ("crc.value", []),
   ("append...", [.int ((n + 2 : Nat) : Int), .int ((n + 5 : Nat) : Int)])]

/-- **`assembleRTUFrame`, every unit id, function code and payload.** From any log `cs0` in which handle
    `hp` holds the payload `pl` and handle `hn` the empty slice (the named result `adu` is nil at entry),
    any `ext` that performs `crc.init` / `crc.add` (no result): the run returns after exactly the calls
    `rtuCalls`; `crc.add` is called on handle `n + 2`, which holds exactly `[unit, fc] ++ pl`; the result
    `adu` holds `[unit, fc] ++ pl ++ Crc.crc16 ([unit, fc] ++ pl)` = `Rtu.assemble`. -/
theorem C01B_rtu_frame (ext : World) (cs0 : Calls) (env : Env) (u fc : Byte) (pl : Bytes) (hp hn : Nat)
    (hx1 : ∀ cs args, ext cs "crc.init" args = some [])
    (hx2 : ∀ cs args, ext cs "crc.add" args = some [])
    (hpl : bytesAt cs0 hp = some pl) (hnil : bytesAt cs0 hn = some [])
    (e1 : Env.read? env "adu" = some (.int (hn : Int)))
    (e2 : Env.read? env "p.payload" = some (.int (hp : Int)))
    (e4 : Env.read? env "p.unitId" = some (.int (u.toNat : Int)))
    (e5 : Env.read? env "p.functionCode" = some (.int (fc.toNat : Int)))
    (fuel : Nat) (hf : 16 ≤ fuel) :
    let r := execFromW (sliceWorld ext) fuel gsp_rtuTransport_assembleRTUFrame env cs0
    r.how = .returned ∧
    r.calls = cs0 ++ rtuCalls cs0.length hn hp u fc ∧
    bytesAt r.calls (cs0.length + 2) = some ([u, fc] ++ pl) ∧
    Env.read? r.env "adu" = some (.int ((cs0.length + 6 : Nat) : Int)) ∧
    bytesAt r.calls (cs0.length + 6) = some ([u, fc] ++ pl ++ Crc.crc16 ([u, fc] ++ pl)) ∧
    [u, fc] ++ pl ++ Crc.crc16 ([u, fc] ++ pl) = Rtu.assemble { unit := u, fc := fc, payload := pl } := by
  obtain ⟨m, rfl⟩ : ∃ m, fuel = m + 16 := ⟨fuel - 16, by omega⟩
  go_slices [gsp_rtuTransport_assembleRTUFrame, hx1, hx2, e1, e2, e4, e5]
  refine ⟨?_, ?_, ?_, ?_⟩
  · simp only [rtuCalls, List.append_assoc, List.cons_append, List.nil_append]
  · apply bytesAt_eq_of
    case h1 => slice_solve
    case h2 => simp only [byteOfInt_toNat, List.append_assoc, List.cons_append, List.nil_append]
  · apply bytesAt_eq_of
    case h1 => slice_solve
    case h2 =>
      simp only [byteOfInt_toNat, Crc.crc16, List.append_assoc, List.cons_append, List.nil_append]
  · simp only [Rtu.assemble, List.append_assoc, List.cons_append, List.nil_append]

/-! ## 3. the six core functions: the request object handed to `mc.executeRequest` -/

/-- what a run of a core function built, up to the point where the request is handed over -/
inductive Built
  | rejected (log : Calls)                        -- local refusal; the call log at that point
  | sends (unit fc : Int) (payload : Bytes)       -- the request object reaching `mc.executeRequest`
  | other
  deriving DecidableEq

/-- the request object whose fields have these values, `p` being the handle of its payload -/
def sendsAt (u fc : GoEval.Val) (cs : Calls) (p : GoEval.Val) : Built :=
  match u, fc, p with
  | .int u, .int fc, .int h =>
    if 0 ≤ h then (match bytesAt cs h.toNat with | some b => .sends u fc b | none => .other) else .other
  | _, _, _ => .other

/-- observation on a run: `rejected log` = returned with `err = ErrUnexpectedParameters`; `sends u fc pl` =
    stopped at `mc.executeRequest(req)` with `req.unitId = u`, `req.functionCode = fc` in the environment
    and `req.payload` the handle of the bytes `pl` in the call log -/
def builtOf (r : Res) : Built :=
  match r.how with
  | .returned =>
    if Env.read r.env "err" = .sym "ErrUnexpectedParameters" then .rejected r.calls else .other
  | .stoppedAt f args =>
    if f = "mc.executeRequest" ∧ args = [Env.read r.env "req"] then
      sendsAt (Env.read r.env "req.unitId") (Env.read r.env "req.functionCode") r.calls
        (Env.read r.env "req.payload")
    else .other
  | _ => .other

/-- the same, read off the model's `Core.request`; `cs0`: the log at entry (a refusal performs no call) -/
def builtModel (cs0 : Calls) (unit : Byte) (x : Except Err (Byte × Bytes)) : Built :=
  match x with
  | .error .unexpectedParameters => .rejected cs0
  | .error _ => .other
  | .ok (fc, pl) => .sends unit.toNat fc.toNat pl

theorem builtOf_returned (env cs) : builtOf ⟨env, .returned, cs⟩ =
    if Env.read env "err" = .sym "ErrUnexpectedParameters" then .rejected cs else .other := by
  simp only [builtOf]
theorem builtOf_stopped (env cs f args) : builtOf ⟨env, .stoppedAt f args, cs⟩ =
    if f = "mc.executeRequest" ∧ args = [Env.read env "req"] then
      sendsAt (Env.read env "req.unitId") (Env.read env "req.functionCode") cs (Env.read env "req.payload")
    else .other := by simp only [builtOf]
theorem builtOf_ite (p : Prop) [Decidable p] (x y : Res) :
    builtOf (if p then x else y) = if p then builtOf x else builtOf y := by
  split <;> exact id rfl
theorem builtModel_ite (cs0 u) (p : Prop) [Decidable p] (x y) :
    builtModel cs0 u (if p then x else y) = if p then builtModel cs0 u x else builtModel cs0 u y := by
  split <;> exact id rfl
theorem builtModel_perr (cs0 u) : builtModel cs0 u perr = .rejected cs0 := by exact id rfl
theorem builtModel_ok (cs0 u fc pl) : builtModel cs0 u (.ok (fc, pl)) = .sends u.toNat fc.toNat pl := by
  exact id rfl

theorem sendsAt_sends {cs : Calls} {h : Nat} {b b' : Bytes} {u fc u' fc' : Int}
    (hb : bytesAt cs h = some b) (hu : u = u') (hf : fc = fc') (hbb : b = b') :
    sendsAt (.int u) (.int fc) cs (.int (h : Int)) = .sends u' fc' b' := by
  subst hu hf hbb
  simp only [sendsAt, Int.natCast_nonneg, ↓reduceIte, Int.toNat_natCast, hb]

theorem builtModel_ne_other (cs0 u) (c : Core) : builtModel cs0 u c.request ≠ .other := by
  cases c <;> simp only [Core.request, builtModel_ite, builtModel_perr, builtModel_ok]
    <;> repeat' split
  all_goals exact fun h => nomatch h

theorem builtOf_not_outOfFuel (r) (h : builtOf r ≠ .other) : r.how ≠ .outOfFuel := by
  intro h'; apply h; simp only [builtOf, h']

theorem ofInt16_eq_of_toNat (x : Int) (v : U16) (h : x = (v.toNat : Int)) : BitVec.ofInt 16 x = v := by
  subst h; exact ofInt16_toNat v

/-- which `gsp_` term a `Core` value stands for -/
def coreStmtP : Core → GStmt
  | .readBools .. => gsp_ModbusClient_readBools
  | .readRegs .. => gsp_ModbusClient_readRegisters
  | .writeCoil .. => gsp_ModbusClient_WriteCoil
  | .writeCoils .. => gsp_ModbusClient_WriteCoils
  | .writeReg .. => gsp_ModbusClient_WriteRegister
  | .writeRegs .. => gsp_ModbusClient_writeRegisters

/-- the entry environment of a core call: the receiver's unit id (and byte order, for `WriteRegister`),
    the parameters, the named result `err = nil`; a slice parameter `values` is the handle `hv`, together
    with its length leaf; `len(encodedValues)` is the length of the model's `encodeBools` of the argument
    (the leaf is read after `encodedValues` is assigned: the meaning of the leaf text, a hypothesis) -/
def coreEnvB (unit : Byte) (hv : Nat) : Core → Env
  | .readBools di a q =>
    [("mc.unitId", .int unit.toNat), ("addr", .int a.toNat), ("quantity", .int q.toNat), ("di", .ofBool di),
     ("err", .sym "nil")]
  | .readRegs a q rt =>
    [("mc.unitId", .int unit.toNat), ("addr", .int a.toNat), ("quantity", .int q), ("regType", .int rt),
     ("err", .sym "nil")]
  | .writeCoil a v =>
    [("mc.unitId", .int unit.toNat), ("addr", .int a.toNat), ("value", .ofBool v), ("err", .sym "nil")]
  | .writeCoils a vs =>
    [("mc.unitId", .int unit.toNat), ("addr", .int a.toNat), ("values", .int hv),
     ("len(values)", .int vs.length), ("len(encodedValues)", .int (Enc.encodeBools vs).length),
     ("err", .sym "nil")]
  | .writeReg e a v =>
    [("mc.unitId", .int unit.toNat), ("mc.endianness", .int (intOfEndian e)), ("addr", .int a.toNat),
     ("value", .int v.toNat), ("err", .sym "nil")]
  | .writeRegs a p =>
    [("mc.unitId", .int unit.toNat), ("addr", .int a.toNat), ("values", .int hv),
     ("len(values)", .int p.length), ("err", .sym "nil")]

/-- the slice argument is in the entry log at handle `hv` -/
def coreSeeded (cs0 : Calls) (hv : Nat) : Core → Prop
  | .writeCoils _ vs => sliceAt cs0 hv = some (intsOfBools vs)
  | .writeRegs _ p => bytesAt cs0 hv = some p
  | _ => True

/-- `ext` does not answer `mc.executeRequest`: the run is cut where the request is handed over -/
def CutsAtExecute (ext : World) : Prop := ∀ cs args, ext cs "mc.executeRequest" args = none

/-- close the leaves of the two `if`-trees: equal verdicts by `rfl`, contradictory conditions by
    `omega`, the request leaf is left -/
syntax "built_leaves" : tactic
macro_rules
  | `(tactic| built_leaves) => `(tactic| all_goals first | rfl | (exfalso; omega) | skip)

/-- evaluate and reduce `builtOf` at the leaves -/
syntax "go_built" " [" Lean.Parser.Tactic.simpLemma,* "]" : tactic
macro_rules
  | `(tactic| go_built [$ls,*]) => `(tactic|
    (go_slices [coreEnvB, coreStmtP, builtOf_ite, Int.reduceEq, Int.reduceLT, $ls,*]
     simp only [builtOf_returned, builtOf_stopped, read_def, read?_write, read?_cons, read?_nil,
       String.reduceEq, ↓reduceIte, Option.getD_some, Option.getD_none, and_self]))

theorem readBools_built (ext : World) (hx : CutsAtExecute ext) (cs0 : Calls) (unit : Byte) (hv : Nat)
    (di : Bool) (addr qty : U16) (m : Nat) :
    builtOf (execFromW (sliceWorld ext) (m + 64) gsp_ModbusClient_readBools
      (coreEnvB unit hv (.readBools di addr qty)) cs0) =
      builtModel cs0 unit (Core.readBools di addr qty).request := by
  have ha := addr.isLt
  have hq := qty.isLt
  go_built [gsp_ModbusClient_readBools, hx _ _]
  simp only [Core.request, builtModel_ite, builtModel_perr, builtModel_ok, u16_eq_zero]
  cases di <;> simp only [Bool.false_eq_true, ↓reduceIte] <;> repeat' split
  built_leaves
  all_goals
    apply sendsAt_sends
    case hb => slice_solve
    all_goals first | rfl | skip
  all_goals simp only [endianOfInt_1, Enc.uint16ToBytes, ofInt16_toNat]

theorem readRegisters_built (ext : World) (hx : CutsAtExecute ext) (cs0 : Calls) (unit : Byte) (hv : Nat)
    (addr : U16) (q rt : Nat) (hq : q < 2^32) (m : Nat) :
    builtOf (execFromW (sliceWorld ext) (m + 64) gsp_ModbusClient_readRegisters
      (coreEnvB unit hv (.readRegs addr q rt)) cs0) =
      builtModel cs0 unit (Core.readRegs addr q rt).request := by
  have ha := addr.isLt
  go_built [gsp_ModbusClient_readRegisters, hx _ _]
  simp only [Core.request, builtModel_ite, builtModel_perr, builtModel_ok]
  repeat' split
  built_leaves
  all_goals
    apply sendsAt_sends
    case hb => slice_solve
    all_goals first | rfl | skip
  all_goals
    simp only [endianOfInt_1, Enc.uint16ToBytes, ofInt16_toNat]
    rw [ofInt16_of_mod _ q (by omega)]

theorem WriteCoil_built (ext : World) (hx : CutsAtExecute ext) (cs0 : Calls) (unit : Byte) (hv : Nat)
    (addr : U16) (v : Bool) (m : Nat) :
    builtOf (execFromW (sliceWorld ext) (m + 64) gsp_ModbusClient_WriteCoil
      (coreEnvB unit hv (.writeCoil addr v)) cs0) =
      builtModel cs0 unit (Core.writeCoil addr v).request := by
  go_built [gsp_ModbusClient_WriteCoil, hx _ _]
  simp only [Core.request, builtModel_ok]
  cases v <;> simp only [Bool.false_eq_true, ↓reduceIte]
  all_goals
    apply sendsAt_sends
    case hb => slice_solve
    all_goals first | rfl | skip
  all_goals
    simp only [endianOfInt_1, Enc.uint16ToBytes, ofInt16_toNat]
    rfl

theorem WriteRegister_built (ext : World) (hx : CutsAtExecute ext) (cs0 : Calls) (unit : Byte) (hv : Nat)
    (e : Endian) (addr v : U16) (m : Nat) :
    builtOf (execFromW (sliceWorld ext) (m + 64) gsp_ModbusClient_WriteRegister
      (coreEnvB unit hv (.writeReg e addr v)) cs0) =
      builtModel cs0 unit (Core.writeReg e addr v).request := by
  go_built [gsp_ModbusClient_WriteRegister, hx _ _]
  simp only [Core.request, builtModel_ok]
  apply sendsAt_sends
  case hb => slice_solve
  all_goals first | rfl | skip
  simp only [endianOfInt_1, endianOfInt_intOfEndian, Enc.uint16ToBytes, ofInt16_toNat]

theorem WriteCoils_built (ext : World) (hx : CutsAtExecute ext) (cs0 : Calls) (unit : Byte) (hv : Nat)
    (addr : U16) (vs : List Bool) (hn : vs.length < 2^63)
    (hs : sliceAt cs0 hv = some (intsOfBools vs)) (m : Nat) :
    builtOf (execFromW (sliceWorld ext) (m + 64) gsp_ModbusClient_WriteCoils
      (coreEnvB unit hv (.writeCoils addr vs)) cs0) =
      builtModel cs0 unit (Core.writeCoils addr vs).request := by
  have ha := addr.isLt
  go_built [gsp_ModbusClient_WriteCoils, hx _ _]
  simp only [Core.request, builtModel_ite, builtModel_perr, builtModel_ok, u16_eq_zero, toNat_u16OfNat]
  repeat' split
  built_leaves
  all_goals
    apply sendsAt_sends
    case hb => slice_solve
    all_goals first | rfl | skip
  all_goals
    simp only [endianOfInt_1, Enc.uint16ToBytes, ofInt16_toNat, boolsOfInts_intsOfBools,
      List.append_assoc, List.cons_append, List.nil_append]
    rw [ofInt16_of_mod _ vs.length (by omega), ofInt8_of_mod _ (Enc.encodeBools vs).length (by omega)]

theorem writeRegisters_built (ext : World) (hx : CutsAtExecute ext) (cs0 : Calls) (unit : Byte) (hv : Nat)
    (addr : U16) (p : Bytes) (hn : p.length < 2^63)
    (hs : bytesAt cs0 hv = some p) (m : Nat) :
    builtOf (execFromW (sliceWorld ext) (m + 64) gsp_ModbusClient_writeRegisters
      (coreEnvB unit hv (.writeRegs addr p)) cs0) =
      builtModel cs0 unit (Core.writeRegs addr p).request := by
  have ha := addr.isLt
  have h0 : (0:Int) ≤ (p.length : Int) % 65536 := by omega
  have h1 : (0:Int) ≤ (p.length : Int) := by omega
  go_built [gsp_ModbusClient_writeRegisters, hx _ _, tdiv_of_nonneg _ h0, tdiv_of_nonneg _ h1]
  simp only [Core.request, builtModel_ite, builtModel_perr, builtModel_ok, u16_eq_zero, toNat_u16OfNat,
    toNat_u16_half]
  repeat' split
  built_leaves
  all_goals
    apply sendsAt_sends
    case hb => slice_solve
    all_goals first | rfl | skip
  all_goals
    simp only [endianOfInt_1, Enc.uint16ToBytes, ofInt16_toNat, List.append_assoc, List.cons_append,
      List.nil_append]
    rw [ofInt16_eq_of_toNat _ (u16OfNat p.length / 2) (by rw [toNat_u16_half, toNat_u16OfNat]; omega),
      ofInt8_of_mod _ (p.length % 65536) (by omega)]

/-- the run was a local refusal that performed no call: returned with `err = ErrUnexpectedParameters`,
    the log is the entry log -/
def RejectedB (cs0 : Calls) (r : Res) : Prop :=
  r.how = .returned ∧ Env.read r.env "err" = .sym "ErrUnexpectedParameters" ∧ r.calls = cs0

/-- the run reached `mc.executeRequest(req)`; at that point the environment holds `req.unitId = unit`,
    `req.functionCode = fc`, and `req.payload` is the handle of exactly the bytes `pl` -/
def SendsB (r : Res) (unit fc : Byte) (pl : Bytes) : Prop :=
  r.how = .stoppedAt "mc.executeRequest" [Env.read r.env "req"] ∧
  Env.read r.env "req.unitId" = .int (unit.toNat : Int) ∧
  Env.read r.env "req.functionCode" = .int (fc.toNat : Int) ∧
  ∃ h : Nat, Env.read r.env "req.payload" = .int (h : Int) ∧ bytesAt r.calls h = some pl

theorem builtOf_rejected {r : Res} {cs0 : Calls} (h : builtOf r = .rejected cs0) : RejectedB cs0 r := by
  obtain ⟨env, how, cs⟩ := r
  cases how with
  | returned =>
    rw [builtOf_returned] at h
    split at h
    · rename_i he
      injection h with h
      exact ⟨rfl, he, h⟩
    · cases h
  | stoppedAt f args =>
    rw [builtOf_stopped] at h
    split at h
    · unfold sendsAt at h
      repeat' split at h
      all_goals cases h
    · cases h
  | _ => simp only [builtOf, reduceCtorEq] at h

theorem builtOf_sends {r : Res} {u fc : Byte} {pl : Bytes}
    (h : builtOf r = .sends (u.toNat : Int) (fc.toNat : Int) pl) : SendsB r u fc pl := by
  obtain ⟨env, how, cs⟩ := r
  cases how with
  | returned =>
    rw [builtOf_returned] at h
    split at h <;> cases h
  | stoppedAt f args =>
    rw [builtOf_stopped] at h
    split at h
    · rename_i hfa
      obtain ⟨rfl, rfl⟩ := hfa
      refine ⟨rfl, ?_⟩
      show Env.read env "req.unitId" = _ ∧ Env.read env "req.functionCode" = _ ∧
        ∃ h : Nat, Env.read env "req.payload" = _ ∧ bytesAt cs h = some pl
      generalize Env.read env "req.unitId" = vu at h
      generalize Env.read env "req.functionCode" = vf at h
      generalize Env.read env "req.payload" = vp at h
      unfold sendsAt at h
      split at h
      · rename_i a b c
        split at h
        · rename_i hc
          split at h
          · rename_i bb hb
            injection h with h1 h2 h3
            subst h1 h2 h3
            refine ⟨rfl, rfl, c.toNat, ?_, hb⟩
            rw [Int.toNat_of_nonneg hc]
          · cases h
        · cases h
      · cases h
    · cases h
  | _ => simp only [builtOf, reduceCtorEq] at h

/-- all six at once, at fuel `m + 64` -/
theorem core_built (ext : World) (hx : CutsAtExecute ext) (c : Core) (hr : coreInRange c) (cs0 : Calls)
    (unit : Byte) (hv : Nat) (hs : coreSeeded cs0 hv c) (m : Nat) :
    builtOf (execFromW (sliceWorld ext) (m + 64) (coreStmtP c) (coreEnvB unit hv c) cs0) =
      builtModel cs0 unit c.request := by
  cases c with
  | readBools di a q => exact readBools_built ext hx cs0 unit hv di a q m
  | readRegs a q rt => exact readRegisters_built ext hx cs0 unit hv a q rt hr m
  | writeCoil a v => exact WriteCoil_built ext hx cs0 unit hv a v m
  | writeCoils a vs => exact WriteCoils_built ext hx cs0 unit hv a vs hr hs m
  | writeReg e a v => exact WriteRegister_built ext hx cs0 unit hv e a v m
  | writeRegs a p => exact writeRegisters_built ext hx cs0 unit hv a p hr hs m

/-- **MAIN (item 3).** For every core call `c` (`readBools`, `readRegisters`, `WriteCoil`, `WriteCoils`,
    `WriteRegister`, `writeRegisters`) with arguments in the range of their Go types, every unit id, every
    entry log `cs0` holding the slice argument at handle `hv`, every `ext` that cuts the run at
    `mc.executeRequest`, every fuel ≥ 64: the run of the `gsp_` term from `coreEnvB` built what the
    model's `Core.request` says — a refusal that performed no call, or the request object with the
    model's unit id, function code and PAYLOAD BYTES at `mc.executeRequest`. -/
theorem C01B_core_payloads (ext : World) (hx : CutsAtExecute ext) (c : Core) (hr : coreInRange c)
    (cs0 : Calls) (unit : Byte) (hv : Nat) (hs : coreSeeded cs0 hv c) (fuel : Nat) (hf : 64 ≤ fuel) :
    builtOf (execFromW (sliceWorld ext) fuel (coreStmtP c) (coreEnvB unit hv c) cs0) =
      builtModel cs0 unit c.request := by
  obtain ⟨m, rfl⟩ : ∃ m, fuel = m + 64 := ⟨fuel - 64, by omega⟩
  exact core_built ext hx c hr cs0 unit hv hs m

/-- … spelled out: `Core.request` is a refusal or a request; refusal ⇒ the run is `RejectedB` (returned,
    `err = ErrUnexpectedParameters`, no call performed); request `(fc, pl)` ⇒ the run is `SendsB`: stopped
    at `mc.executeRequest(req)` with `req.unitId = unit`, `req.functionCode = fc` and `req.payload` the
    handle of exactly `pl`. -/
theorem C01B_core_payloads_spelled (ext : World) (hx : CutsAtExecute ext) (c : Core) (hr : coreInRange c)
    (cs0 : Calls) (unit : Byte) (hv : Nat) (hs : coreSeeded cs0 hv c) (fuel : Nat) (hf : 64 ≤ fuel) :
    let r := execFromW (sliceWorld ext) fuel (coreStmtP c) (coreEnvB unit hv c) cs0
    (c.request = .error .unexpectedParameters → RejectedB cs0 r) ∧
    (∀ fc pl, c.request = .ok (fc, pl) → SendsB r unit fc pl) ∧
    (c.request = .error .unexpectedParameters ∨ ∃ fc pl, c.request = .ok (fc, pl)) := by
  intro r
  have h : builtOf r = builtModel cs0 unit c.request := C01B_core_payloads ext hx c hr cs0 unit hv hs fuel hf
  refine ⟨?_, ?_, ?_⟩
  · intro hc
    rw [hc] at h
    exact builtOf_rejected h
  · intro fc pl hc
    rw [hc] at h
    exact builtOf_sends h
  · have hne := builtModel_ne_other cs0 unit c
    cases hc : c.request with
    | error e =>
      cases e <;> first | (left; rfl) | (exfalso; rw [hc] at hne; exact hne rfl)
    | ok x => obtain ⟨fc, pl⟩ := x; exact Or.inr ⟨fc, pl, rfl⟩

/-- the model's request payloads, spelled out (what `pl` is in `C01B_core_payloads_spelled`) -/
theorem C01B_request_shapes :
    (∀ di a q fc pl, (Core.readBools di a q).request = .ok (fc, pl) →
      fc = (if di then 2 else 1) ∧ pl = be16 a ++ be16 q) ∧
    (∀ a q rt fc pl, (Core.readRegs a q rt).request = .ok (fc, pl) →
      fc = (if rt = 0 then 3 else 4) ∧ pl = be16 a ++ be16 (u16OfNat q)) ∧
    (∀ a v, (Core.writeCoil a v).request =
      .ok (5, be16 a ++ (if v then [0xff, 0x00] else [0x00, 0x00]))) ∧
    (∀ a vs fc pl, (Core.writeCoils a vs).request = .ok (fc, pl) →
      fc = 15 ∧ pl = be16 a ++ be16 (u16OfNat vs.length) ++ [byteOfNat (Enc.encodeBools vs).length] ++
        Enc.encodeBools vs) ∧
    (∀ e a v, (Core.writeReg e a v).request = .ok (6, be16 a ++ Enc.uint16ToBytes e v)) ∧
    (∀ a p fc pl, (Core.writeRegs a p).request = .ok (fc, pl) →
      fc = 16 ∧ pl = be16 a ++ be16 (u16OfNat p.length / 2) ++ [byteOfNat (u16OfNat p.length).toNat] ++ p) := by
  refine ⟨?_, ?_, fun _ _ => rfl, ?_, fun _ _ _ => rfl, ?_⟩
  · intro di a q fc pl h
    simp only [Core.request] at h
    repeat' split at h
    all_goals first | (simp only [perr, reduceCtorEq] at h; done) | skip
    all_goals (simp only [Except.ok.injEq, Prod.mk.injEq] at h; obtain ⟨h1, h2⟩ := h; subst h1 h2;
               first | exact ⟨rfl, rfl⟩ | exact ⟨by simp [*], rfl⟩)
  · intro a q rt fc pl h
    simp only [Core.request] at h
    repeat' split at h
    all_goals first | (simp only [perr, reduceCtorEq] at h; done) | skip
    all_goals (simp only [Except.ok.injEq, Prod.mk.injEq] at h; obtain ⟨h1, h2⟩ := h; subst h1 h2;
               first | exact ⟨rfl, rfl⟩ | exact ⟨by simp [*], rfl⟩)
  · intro a vs fc pl h
    simp only [Core.request] at h
    repeat' split at h
    all_goals first | (simp only [perr, reduceCtorEq] at h; done) | skip
    all_goals (simp only [Except.ok.injEq, Prod.mk.injEq] at h; obtain ⟨h1, h2⟩ := h; subst h1 h2;
               first | exact ⟨rfl, rfl⟩ | exact ⟨by simp [*], rfl⟩)
  · intro a p fc pl h
    simp only [Core.request] at h
    repeat' split at h
    all_goals first | (simp only [perr, reduceCtorEq] at h; done) | skip
    all_goals (simp only [Except.ok.injEq, Prod.mk.injEq] at h; obtain ⟨h1, h2⟩ := h; subst h1 h2;
               first | exact ⟨rfl, rfl⟩ | exact ⟨by simp [*], rfl⟩)

/-- `WriteRegister` for ANY value of the receiver's byte order field (not only the three that
    `intOfEndian` produces): the value is encoded by the model codec at `endianOfInt ev` -/
theorem C01B_WriteRegister_any (ext : World) (hx : CutsAtExecute ext) (cs0 : Calls) (unit : Byte) (ev : Int)
    (addr v : U16) (fuel : Nat) (hf : 64 ≤ fuel) :
    SendsB (execFromW (sliceWorld ext) fuel gsp_ModbusClient_WriteRegister
      [("mc.unitId", .int (unit.toNat : Int)), ("mc.endianness", .int ev), ("addr", .int (addr.toNat : Int)),
       ("value", .int (v.toNat : Int)), ("err", .sym "nil")] cs0) unit 6
      (be16 addr ++ Enc.uint16ToBytes (endianOfInt ev) v) := by
  obtain ⟨m, rfl⟩ : ∃ m, fuel = m + 64 := ⟨fuel - 64, by omega⟩
  apply builtOf_sends
  go_built [gsp_ModbusClient_WriteRegister, hx _ _]
  apply sendsAt_sends
  case hb => slice_solve
  all_goals first | rfl | skip
  simp only [endianOfInt_1, Enc.uint16ToBytes, ofInt16_toNat]

/-! ## 4. the loops of `WriteRegisters`, `WriteUint32s`, `WriteFloat32s`, `WriteUint64s`, `WriteFloat64s` -/

/-- the pseudo-call `values[#i] := #values[#i](#i)` inserted by `withProbe` at the head of the loop body -/
def probeStmtV : GStmt := .bindCall ["values[#i]"] "#values[#i]" [.var "#i" .int]

def multiBody3 (F : String) (T : GTy) : GStmt :=
  .ite (.cmp "<" (.var "#i" .int) (.var "#len(values)" .int))
    (.seq (.assign "value" (.var "values[#i]" T))
      (.seq (.seq (.bindCall ["#arg0"] F [.var "endianness" .uint, .var "wordOrder" .uint, .var "value" T])
                  (.bindCall ["payload"] "append..." [.var "payload" .other, .var "#arg0" .other]))
        (.assign "#i" (.bin "+" .int (.var "#i" .int) (.lit 1 .int)))))
    .brk

def multiWith (enc2 : String) (L : GStmt) : GStmt :=
  .seq (.bindCall ["endianness", enc2] "mc.encoding" [])
    (.seq (.seq (.assign "#len(values)" (.var "len(values)" .int)) (.seq (.assign "#i" (.lit 0 .int)) L))
      (.seq (.bindCall ["err"] "mc.writeRegisters" [.var "addr" .u16, .var "payload" .other]) .ret))

def multiExt (e w : Int) (vals : List Int) : World := fun _ f args =>
  if f = "mc.encoding" then some [.int e, .int w]
  else if f = "#values[#i]" then some [probeInts vals (args.headD .unk)]
  else none

theorem sliceWorld_probeV (ext : World) (cs : Calls) (args : List GoEval.Val) :
    sliceWorld ext cs "#values[#i]" args = ext cs "#values[#i]" args :=
  sliceWorld_other ext cs _ args (by decide)


def roundEnv (env : Env) (n k : Nat) (v : Int) : Env :=
  Env.write (Env.write (Env.write (Env.write (Env.write env
    "values[#i]" (.int v)) "value" (.int v)) "#arg0" (.int ((n + 1 : Nat) : Int)))
    "payload" (.int ((n + 2 : Nat) : Int))) "#i" (.int ((k + 1 : Nat) : Int))

theorem multi3_round (F : String) (T : GTy) (hF : isSliceCallee F = true) (e w : Int) (vals : List Int)
    (k : Nat) (hk : k < vals.length) (hn : vals.length < 2^63) (env : Env) (cs : Calls) (hpay : Nat)
    (h1 : Env.read? env "#i" = some (.int (k : Int)))
    (h2 : Env.read? env "#len(values)" = some (.int (vals.length : Int)))
    (h3 : Env.read? env "endianness" = some (.int e))
    (h4 : Env.read? env "wordOrder" = some (.int w))
    (h5 : Env.read? env "payload" = some (.int (hpay : Int))) (m : Nat) :
    execFromW (sliceWorld (multiExt e w vals)) (m + 12) (.seq probeStmtV (multiBody3 F T)) env cs =
      ⟨roundEnv env cs.length k vals[k], .fell,
       cs ++ [("#values[#i]", [.int (k : Int)])] ++ [(F, [.int e, .int w, .int vals[k]])] ++
        [("append...", [.int (hpay : Int), .int ((cs.length + 1 : Nat) : Int)])]⟩ := by
  have hlt : (k : Int) < (vals.length : Int) := by omega
  have hw : ((k : Int) + 1 + 9223372036854775808) % 18446744073709551616 - 9223372036854775808 = ((k + 1 : Nat) : Int) := by omega
  go_slices [probeStmtV, multiBody3, roundEnv, multiExt, sliceWorld_probeV, sliceWorld_slice _ _ F _ hF,
    probeInts_lt vals k hk, h1, h2, h3, h4, h5, hlt, hw]

theorem multi3_exit (F : String) (T : GTy) (e w : Int) (vals : List Int)
    (env : Env) (cs : Calls)
    (h1 : Env.read? env "#i" = some (.int (vals.length : Int)))
    (h2 : Env.read? env "#len(values)" = some (.int (vals.length : Int))) (m : Nat) :
    execFromW (sliceWorld (multiExt e w vals)) (m + 12) (.seq probeStmtV (multiBody3 F T)) env cs =
      ⟨Env.write env "values[#i]" .unk, .broke, cs ++ [("#values[#i]", [.int (vals.length : Int)])]⟩ := by
  go_slices [probeStmtV, multiBody3, multiExt, sliceWorld_probeV,
    probeInts_ge vals vals.length (Nat.le_refl _), h1, h2, Int.lt_irrefl]

/-- keys the loop writes -/
def multiWritten : List String := ["values[#i]", "value", "#arg0", "payload", "#i"]

theorem multi_loop (W : World) (body : GStmt) (vals : List Int) (call : Int → String × List GoEval.Val)
    (enc : Int → Bytes) (P : Env → Prop)
    (hP : ∀ env n k v, P env → P (roundEnv env n k v))
    (hstep : ∀ (k : Nat) (hk : k < vals.length) (env : Env) (cs : Calls) (hpay : Nat), P env →
      Env.read? env "#i" = some (.int (k : Int)) →
      Env.read? env "#len(values)" = some (.int (vals.length : Int)) →
      Env.read? env "payload" = some (.int (hpay : Int)) → ∀ m,
      execFromW W (m + 12) body env cs = ⟨roundEnv env cs.length k vals[k], .fell,
        cs ++ [("#values[#i]", [.int (k : Int)])] ++ [call vals[k]] ++
          [("append...", [.int (hpay : Int), .int ((cs.length + 1 : Nat) : Int)])]⟩)
    (hexit : ∀ (env : Env) (cs : Calls), P env →
      Env.read? env "#i" = some (.int (vals.length : Int)) →
      Env.read? env "#len(values)" = some (.int (vals.length : Int)) → ∀ m,
      execFromW W (m + 12) body env cs =
        ⟨Env.write env "values[#i]" .unk, .broke, cs ++ [("#values[#i]", [.int (vals.length : Int)])]⟩)
    (henc : ∀ (cs : Calls) (v : Int) (k : Nat), k = cs.length → bytesAt (cs ++ [call v]) k = some (enc v)) :
    ∀ (d k : Nat) (env : Env) (cs : Calls) (acc : Bytes) (hpay : Nat), k + d = vals.length → P env →
      Env.read? env "#i" = some (.int (k : Int)) →
      Env.read? env "#len(values)" = some (.int (vals.length : Int)) →
      Env.read? env "payload" = some (.int (hpay : Int)) → bytesAt cs hpay = some acc → ∀ m,
      ∃ (env' : Env) (cs' : Calls) (hp' : Nat),
        execFromW W (m + d + 13) (.loop body) env cs = ⟨env', .fell, cs'⟩ ∧
        Env.read? env' "payload" = some (.int (hp' : Int)) ∧
        bytesAt cs' hp' = some (acc ++ (vals.drop k).flatMap enc) ∧
        (∀ x, x ∉ multiWritten → Env.read? env' x = Env.read? env x) ∧
        (∃ more, cs' = cs ++ more) := by
  intro d
  induction d with
  | zero =>
    intro k env cs acc hpay hkd hp h1 h2 h3 hb m
    have hk : k = vals.length := by omega
    subst hk
    have hx := hexit env cs hp h1 h2 m
    refine ⟨Env.write env "values[#i]" .unk, cs ++ [("#values[#i]", [.int (vals.length : Int)])], hpay, ?_, ?_, ?_, ?_, ⟨_, rfl⟩⟩
    · exact execFromW_loop_of_broke W hx
    · simp only [read?_write, String.reduceEq, ↓reduceIte]; exact h3
    · rw [List.drop_length]
      simp only [List.flatMap_nil, List.append_nil]
      exact bytesAt_mono1 hb _
    · intro x hx
      have : ¬ "values[#i]" = x := by intro h; apply hx; rw [← h]; simp [multiWritten]
      simp only [read?_write, this, ↓reduceIte]
  | succ d ih =>
    intro k env cs acc hpay hkd hp h1 h2 h3 hb m
    have hk : k < vals.length := by omega
    have hs := hstep k hk env cs hpay hp h1 h2 h3 (m + d + 1)
    have hdrop : vals.drop k = vals[k] :: vals.drop (k + 1) := List.drop_eq_getElem_cons hk
    -- the new accumulator
    have hb1 : bytesAt (cs ++ [("#values[#i]", [.int (k : Int)])]) hpay = some acc := bytesAt_mono1 hb _
    have hb2 : bytesAt (cs ++ [("#values[#i]", [.int (k : Int)])] ++ [call vals[k]]) hpay = some acc :=
      bytesAt_mono1 hb1 _
    have hb3 : bytesAt (cs ++ [("#values[#i]", [.int (k : Int)])] ++ [call vals[k]]) (cs.length + 1) =
        some (enc vals[k]) := henc _ _ _ (by simp only [List.length_append, List.length_cons, List.length_nil])
    have hb4 : bytesAt (cs ++ [("#values[#i]", [.int (k : Int)])] ++ [call vals[k]] ++
        [("append...", [.int (hpay : Int), .int ((cs.length + 1 : Nat) : Int)])]) (cs.length + 2) =
        some (acc ++ enc vals[k]) :=
      bytesAt_snoc_appendS hb2 hb3 (by simp only [List.length_append, List.length_cons, List.length_nil])
    obtain ⟨env', cs', hp', hrun, hpl, hbs, hfr, more, hmore⟩ := ih (k + 1)
      (roundEnv env cs.length k vals[k]) _ (acc ++ enc vals[k]) (cs.length + 2) (by omega)
      (hP _ _ _ _ hp)
      (by simp only [roundEnv, read?_write, ↓reduceIte])
      (by simp only [roundEnv, read?_write, String.reduceEq, ↓reduceIte]; exact h2)
      (by simp only [roundEnv, read?_write, String.reduceEq, ↓reduceIte])
      hb4 m
    refine ⟨env', cs', hp', ?_, hpl, ?_, ?_, ?_⟩
    · have e1 : m + (d + 1) + 13 = (m + d + 1 + 12) + 1 := by omega
      have e2 : m + d + 1 + 12 = m + d + 13 := by omega
      rw [e1, execFromW_loop_of_fell W hs, e2]
      exact hrun
    · rw [hbs, hdrop]
      simp only [List.flatMap_cons, List.append_assoc]
    · intro x hx
      rw [hfr x hx]
      have n1 : ¬ "values[#i]" = x := by intro h; apply hx; rw [← h]; simp [multiWritten]
      have n2 : ¬ "value" = x := by intro h; apply hx; rw [← h]; simp [multiWritten]
      have n3 : ¬ "#arg0" = x := by intro h; apply hx; rw [← h]; simp [multiWritten]
      have n4 : ¬ "payload" = x := by intro h; apply hx; rw [← h]; simp [multiWritten]
      have n5 : ¬ "#i" = x := by intro h; apply hx; rw [← h]; simp [multiWritten]
      simp only [roundEnv, read?_write, n1, n2, n3, n4, n5, ↓reduceIte]
    · exact ⟨_, by rw [hmore]; simp only [List.append_assoc]; rfl⟩

/-- the environment at the head of the loop -/
def multiEntry (env : Env) (enc2 : String) (e w : Int) (n : Nat) : Env :=
  Env.write (Env.write (Env.write (Env.write env "endianness" (.int e)) enc2 (.int w))
    "#len(values)" (.int (n : Int))) "#i" (.int 0)

theorem multi_run (W : World) (body : GStmt) (vals : List Int) (call : Int → String × List GoEval.Val)
    (enc : Int → Bytes) (P : Env → Prop)
    (hP : ∀ env n k v, P env → P (roundEnv env n k v))
    (hstep : ∀ (k : Nat) (hk : k < vals.length) (env : Env) (cs : Calls) (hpay : Nat), P env →
      Env.read? env "#i" = some (.int (k : Int)) →
      Env.read? env "#len(values)" = some (.int (vals.length : Int)) →
      Env.read? env "payload" = some (.int (hpay : Int)) → ∀ m,
      execFromW W (m + 12) body env cs = ⟨roundEnv env cs.length k vals[k], .fell,
        cs ++ [("#values[#i]", [.int (k : Int)])] ++ [call vals[k]] ++
          [("append...", [.int (hpay : Int), .int ((cs.length + 1 : Nat) : Int)])]⟩)
    (hexit : ∀ (env : Env) (cs : Calls), P env →
      Env.read? env "#i" = some (.int (vals.length : Int)) →
      Env.read? env "#len(values)" = some (.int (vals.length : Int)) → ∀ m,
      execFromW W (m + 12) body env cs =
        ⟨Env.write env "values[#i]" .unk, .broke, cs ++ [("#values[#i]", [.int (vals.length : Int)])]⟩)
    (henc : ∀ (cs : Calls) (v : Int) (k : Nat), k = cs.length → bytesAt (cs ++ [call v]) k = some (enc v))
    (e w : Int) (enc2 : String)
    (hW1 : ∀ cs args, W cs "mc.encoding" args = some [.int e, .int w])
    (hW2 : ∀ cs args, W cs "mc.writeRegisters" args = none)
    (addr : Int) (env : Env) (cs0 : Calls) (hnil : Nat) (hnl : bytesAt cs0 hnil = some [])
    (he1 : Env.read? (Env.write (Env.write env "endianness" (.int e)) enc2 (.int w)) "len(values)" =
      some (.int (vals.length : Int)))
    (he2 : Env.read? (multiEntry env enc2 e w vals.length) "payload" = some (.int (hnil : Int)))
    (he3 : Env.read? (multiEntry env enc2 e w vals.length) "addr" = some (.int addr))
    (hP0 : P (multiEntry env enc2 e w vals.length))
    (fuel : Nat) (hf : vals.length + 20 ≤ fuel) :
    ∃ (h : Nat) (envF : Env) (csF : Calls),
      execFromW W fuel (multiWith enc2 (.loop body)) env cs0 =
        ⟨envF, .stoppedAt "mc.writeRegisters" [.int addr, .int (h : Int)], csF⟩ ∧
      bytesAt csF h = some (vals.flatMap enc) ∧ (∃ more, csF = cs0 ++ more) := by
  obtain ⟨g, rfl⟩ : ∃ g, fuel = (g + vals.length + 13) + 4 := ⟨fuel - vals.length - 17, by omega⟩
  obtain ⟨env', cs', hp', hrun, hpl, hbs, hfr, more, hmore⟩ :=
    multi_loop W body vals call enc P hP hstep hexit henc vals.length 0
      (multiEntry env enc2 e w vals.length) (cs0 ++ [("mc.encoding", [])]) [] hnil (by omega) hP0
      (by simp only [multiEntry, read?_write, ↓reduceIte]; rfl)
      (by simp only [multiEntry, read?_write, String.reduceEq, ↓reduceIte])
      he2 (bytesAt_mono1 hnl _) g
  rw [List.drop_zero, List.nil_append] at hbs
  have ha : Env.read? env' "addr" = some (.int addr) := by
    rw [hfr "addr" (by decide)]; exact he3
  refine ⟨hp', env', cs', ?_, hbs, ⟨_, by rw [hmore, List.append_assoc]⟩⟩
  have hrun' : execFromW W (g + vals.length + 13) (.loop body)
      (Env.write (Env.write (Env.write (Env.write env "endianness" (.int e)) enc2 (.int w))
        "#len(values)" (.int (vals.length : Int))) "#i" (.int 0)) (cs0 ++ [("mc.encoding", [])]) =
      ⟨env', .fell, cs'⟩ := hrun
  simp only [multiWith, execFromW_seq, execFromW_bindCall, execFromW_assign, execFromW_ret, List.any_nil,
    List.any_cons, panics_var, panics_lit, Bool.or_self, Bool.false_eq_true, ↓reduceIte, List.map_nil,
    List.map_cons, hW1, hW2, callK_some, callK_none, bindAll_cons, bindAll_nil, List.headD_cons,
    List.tail_cons, seqKW_fell, seqKW_stopped, eval_var, eval_lit, he1, eval_var_some, hrun', hpl, ha]

/-- the loop body of `WriteRegisters` (two-argument codec) -/
def multiBody2 (F : String) (T : GTy) : GStmt :=
  .ite (.cmp "<" (.var "#i" .int) (.var "#len(values)" .int))
    (.seq (.assign "value" (.var "values[#i]" T))
      (.seq (.seq (.bindCall ["#arg0"] F [.var "endianness" .uint, .var "value" T])
                  (.bindCall ["payload"] "append..." [.var "payload" .other, .var "#arg0" .other]))
        (.assign "#i" (.bin "+" .int (.var "#i" .int) (.lit 1 .int)))))
    .brk

theorem multi2_round (F : String) (T : GTy) (hF : isSliceCallee F = true) (e w : Int) (vals : List Int)
    (k : Nat) (hk : k < vals.length) (hn : vals.length < 2^63) (env : Env) (cs : Calls) (hpay : Nat)
    (h1 : Env.read? env "#i" = some (.int (k : Int)))
    (h2 : Env.read? env "#len(values)" = some (.int (vals.length : Int)))
    (h3 : Env.read? env "endianness" = some (.int e))
    (h5 : Env.read? env "payload" = some (.int (hpay : Int))) (m : Nat) :
    execFromW (sliceWorld (multiExt e w vals)) (m + 12) (.seq probeStmtV (multiBody2 F T)) env cs =
      ⟨roundEnv env cs.length k vals[k], .fell,
       cs ++ [("#values[#i]", [.int (k : Int)])] ++ [(F, [.int e, .int vals[k]])] ++
        [("append...", [.int (hpay : Int), .int ((cs.length + 1 : Nat) : Int)])]⟩ := by
  have hlt : (k : Int) < (vals.length : Int) := by omega
  have hw : ((k : Int) + 1 + 9223372036854775808) % 18446744073709551616 - 9223372036854775808 =
      ((k + 1 : Nat) : Int) := by omega
  go_slices [probeStmtV, multiBody2, roundEnv, multiExt, sliceWorld_probeV, sliceWorld_slice _ _ F _ hF,
    probeInts_lt vals k hk, h1, h2, h3, h5, hlt, hw]

theorem multi2_exit (F : String) (T : GTy) (e w : Int) (vals : List Int)
    (env : Env) (cs : Calls)
    (h1 : Env.read? env "#i" = some (.int (vals.length : Int)))
    (h2 : Env.read? env "#len(values)" = some (.int (vals.length : Int))) (m : Nat) :
    execFromW (sliceWorld (multiExt e w vals)) (m + 12) (.seq probeStmtV (multiBody2 F T)) env cs =
      ⟨Env.write env "values[#i]" .unk, .broke, cs ++ [("#values[#i]", [.int (vals.length : Int)])]⟩ := by
  go_slices [probeStmtV, multiBody2, multiExt, sliceWorld_probeV,
    probeInts_ge vals vals.length (Nat.le_refl _), h1, h2, Int.lt_irrefl]

/-- the entry environment of the five wrappers: parameters `addr`, `values` (through its length leaf and
    the probe), the local `payload` (nil: the handle `hnil` of an empty slice), the named result -/
def multiEnv (addr : U16) (n hnil : Nat) : Env :=
  [("addr", .int (addr.toNat : Int)), ("len(values)", .int (n : Int)), ("payload", .int (hnil : Int)),
   ("err", .sym "nil")]

theorem multiExt_encoding (e w : Int) (vals : List Int) (cs : Calls) (args : List GoEval.Val) :
    sliceWorld (multiExt e w vals) cs "mc.encoding" args = some [.int e, .int w] := by
  rw [sliceWorld_encoding]; rfl
theorem multiExt_writeRegisters (e w : Int) (vals : List Int) (cs : Calls) (args : List GoEval.Val) :
    sliceWorld (multiExt e w vals) cs "mc.writeRegisters" args = none := by
  rw [sliceWorld_writeRegisters]; rfl

/-- the three-argument wrappers, any slice-producing codec `F` whose call denotes `enc v` -/
theorem multi3_run (F : String) (T : GTy) (hF : isSliceCallee F = true) (e w : Int) (enc : Int → Bytes)
    (henc : ∀ (cs : Calls) (v : Int) (k : Nat), k = cs.length →
      bytesAt (cs ++ [(F, [.int e, .int w, .int v])]) k = some (enc v))
    (vals : List Int) (hn : vals.length < 2^63) (addr : U16) (cs0 : Calls) (hnil : Nat)
    (hnl : bytesAt cs0 hnil = some []) (fuel : Nat) (hf : vals.length + 20 ≤ fuel) :
    ∃ (h : Nat) (envF : Env) (csF : Calls),
      execFromW (sliceWorld (multiExt e w vals)) fuel
        (multiWith "wordOrder" (.loop (.seq probeStmtV (multiBody3 F T)))) (multiEnv addr vals.length hnil) cs0 =
        ⟨envF, .stoppedAt "mc.writeRegisters" [.int (addr.toNat : Int), .int (h : Int)], csF⟩ ∧
      bytesAt csF h = some (vals.flatMap enc) ∧ (∃ more, csF = cs0 ++ more) := by
  refine multi_run (sliceWorld (multiExt e w vals)) _ vals (fun v => (F, [.int e, .int w, .int v])) enc
    (fun env => Env.read? env "endianness" = some (.int e) ∧ Env.read? env "wordOrder" = some (.int w))
    ?_ ?_ ?_ henc e w "wordOrder" (multiExt_encoding e w vals) (multiExt_writeRegisters e w vals)
    (addr.toNat : Int) _ cs0 hnil hnl ?_ ?_ ?_ ?_ fuel hf
  · intro env n k v hp
    simp only [roundEnv, read?_write, String.reduceEq, ↓reduceIte]
    exact hp
  · intro k hk env cs hpay hp h1 h2 h3 m
    exact multi3_round F T hF e w vals k hk hn env cs hpay h1 h2 hp.1 hp.2 h3 m
  · intro env cs hp h1 h2 m
    exact multi3_exit F T e w vals env cs h1 h2 m
  · simp only [multiEnv, read?_write, read?_cons, String.reduceEq, ↓reduceIte]
  · simp only [multiEntry, multiEnv, read?_write, read?_cons, String.reduceEq, ↓reduceIte]
  · simp only [multiEntry, multiEnv, read?_write, read?_cons, String.reduceEq, ↓reduceIte]
  · simp only [multiEntry, multiEnv, read?_write, read?_cons, String.reduceEq, ↓reduceIte, and_self]

/-- the two-argument wrapper (`WriteRegisters`: `endianness, _ := mc.encoding()`) -/
theorem multi2_run (F : String) (T : GTy) (hF : isSliceCallee F = true) (e w : Int) (enc : Int → Bytes)
    (henc : ∀ (cs : Calls) (v : Int) (k : Nat), k = cs.length →
      bytesAt (cs ++ [(F, [.int e, .int v])]) k = some (enc v))
    (vals : List Int) (hn : vals.length < 2^63) (addr : U16) (cs0 : Calls) (hnil : Nat)
    (hnl : bytesAt cs0 hnil = some []) (fuel : Nat) (hf : vals.length + 20 ≤ fuel) :
    ∃ (h : Nat) (envF : Env) (csF : Calls),
      execFromW (sliceWorld (multiExt e w vals)) fuel
        (multiWith "_" (.loop (.seq probeStmtV (multiBody2 F T)))) (multiEnv addr vals.length hnil) cs0 =
        ⟨envF, .stoppedAt "mc.writeRegisters" [.int (addr.toNat : Int), .int (h : Int)], csF⟩ ∧
      bytesAt csF h = some (vals.flatMap enc) ∧ (∃ more, csF = cs0 ++ more) := by
  refine multi_run (sliceWorld (multiExt e w vals)) _ vals (fun v => (F, [.int e, .int v])) enc
    (fun env => Env.read? env "endianness" = some (.int e))
    ?_ ?_ ?_ henc e w "_" (multiExt_encoding e w vals) (multiExt_writeRegisters e w vals)
    (addr.toNat : Int) _ cs0 hnil hnl ?_ ?_ ?_ ?_ fuel hf
  · intro env n k v hp
    simp only [roundEnv, read?_write, String.reduceEq, ↓reduceIte]
    exact hp
  · intro k hk env cs hpay hp h1 h2 h3 m
    exact multi2_round F T hF e w vals k hk hn env cs hpay h1 h2 hp h3 m
  · intro env cs hp h1 h2 m
    exact multi2_exit F T e w vals env cs h1 h2 m
  · simp only [multiEnv, read?_write, read?_cons, String.reduceEq, ↓reduceIte]
  · simp only [multiEntry, multiEnv, read?_write, read?_cons, String.reduceEq, ↓reduceIte]
  · simp only [multiEntry, multiEnv, read?_write, read?_cons, String.reduceEq, ↓reduceIte]
  · simp only [multiEntry, multiEnv, read?_write, read?_cons, String.reduceEq, ↓reduceIte]

/-- the instrumented terms are the generated ones with the probe at the head of the loop body, and
    `stripProbe` gives the generated terms back -/
theorem C01B_multi_instr :
    (withProbe "values[#i]" "#values[#i]" "#i" gsp_ModbusClient_WriteRegisters =
        multiWith "_" (.loop (.seq probeStmtV (multiBody2 "uint16ToBytes" .u16))) ∧
      stripProbe "#values[#i]" (withProbe "values[#i]" "#values[#i]" "#i" gsp_ModbusClient_WriteRegisters) =
        gsp_ModbusClient_WriteRegisters) ∧
    (withProbe "values[#i]" "#values[#i]" "#i" gsp_ModbusClient_WriteUint32s =
        multiWith "wordOrder" (.loop (.seq probeStmtV (multiBody3 "uint32ToBytes" .u32))) ∧
      stripProbe "#values[#i]" (withProbe "values[#i]" "#values[#i]" "#i" gsp_ModbusClient_WriteUint32s) =
        gsp_ModbusClient_WriteUint32s) ∧
    (withProbe "values[#i]" "#values[#i]" "#i" gsp_ModbusClient_WriteFloat32s =
        multiWith "wordOrder" (.loop (.seq probeStmtV (multiBody3 "float32ToBytes" .other))) ∧
      stripProbe "#values[#i]" (withProbe "values[#i]" "#values[#i]" "#i" gsp_ModbusClient_WriteFloat32s) =
        gsp_ModbusClient_WriteFloat32s) ∧
    (withProbe "values[#i]" "#values[#i]" "#i" gsp_ModbusClient_WriteUint64s =
        multiWith "wordOrder" (.loop (.seq probeStmtV (multiBody3 "uint64ToBytes" .u64))) ∧
      stripProbe "#values[#i]" (withProbe "values[#i]" "#values[#i]" "#i" gsp_ModbusClient_WriteUint64s) =
        gsp_ModbusClient_WriteUint64s) ∧
    (withProbe "values[#i]" "#values[#i]" "#i" gsp_ModbusClient_WriteFloat64s =
        multiWith "wordOrder" (.loop (.seq probeStmtV (multiBody3 "float64ToBytes" .other))) ∧
      stripProbe "#values[#i]" (withProbe "values[#i]" "#values[#i]" "#i" gsp_ModbusClient_WriteFloat64s) =
        gsp_ModbusClient_WriteFloat64s) := by
  refine ⟨⟨rfl, ?_⟩, ⟨rfl, ?_⟩, ⟨rfl, ?_⟩, ⟨rfl, ?_⟩, ⟨rfl, ?_⟩⟩ <;>
    simp only [withProbe, stripProbe, gsp_ModbusClient_WriteRegisters, gsp_ModbusClient_WriteUint32s,
      gsp_ModbusClient_WriteFloat32s, gsp_ModbusClient_WriteUint64s, gsp_ModbusClient_WriteFloat64s,
      String.reduceEq, ↓reduceIte]

/-- the run of an instrumented wrapper: the answers of `mc.encoding` are `e`, `w`; the elements of
    `values` are `vals` (as integers: floats are their IEEE-754 bit patterns) -/
def multiRun (gs : GStmt) (e w : Int) (vals : List Int) (addr : U16) (hnil : Nat) (cs0 : Calls)
    (fuel : Nat) : Res :=
  execFromW (sliceWorld (multiExt e w vals)) fuel (withProbe "values[#i]" "#values[#i]" "#i" gs)
    (multiEnv addr vals.length hnil) cs0

/-- the run reached `mc.writeRegisters(addr, payload)` with `payload` the handle of exactly `pl`; the entry
    log is a prefix of the log -/
def MultiSends (cs0 : Calls) (r : Res) (addr : U16) (pl : Bytes) : Prop :=
  ∃ h : Nat, r.how = .stoppedAt "mc.writeRegisters" [.int (addr.toNat : Int), .int (h : Int)] ∧
    bytesAt r.calls h = some pl ∧ ∃ more, r.calls = cs0 ++ more

theorem flatMap_map_ints {α : Type} (f : α → Int) (g : Int → Bytes) (l : List α) :
    (l.map f).flatMap g = l.flatMap (fun x => g (f x)) := by
  induction l with
  | nil => rfl
  | cons a t ih => simp only [List.map_cons, List.flatMap_cons, ih]

theorem multiSends_of {W : World} {fuel : Nat} {gs : GStmt} {env : Env} {cs0 : Calls} {addr : U16}
    {pl : Bytes}
    (h : ∃ (h : Nat) (envF : Env) (csF : Calls), execFromW W fuel gs env cs0 =
      ⟨envF, .stoppedAt "mc.writeRegisters" [.int (addr.toNat : Int), .int (h : Int)], csF⟩ ∧
      bytesAt csF h = some pl ∧ (∃ more, csF = cs0 ++ more)) :
    MultiSends cs0 (execFromW W fuel gs env cs0) addr pl := by
  obtain ⟨h, envF, csF, hrun, hb, hm⟩ := h
  rw [hrun]
  exact ⟨h, rfl, hb, hm⟩

/-- **MAIN (item 4).** For every byte order / word order value `e`, `w` returned by `mc.encoding`, every
    address, every entry log holding an empty slice at `hnil` (the nil `payload`), every fuel ≥ len + 20:
    each of the five wrappers, for EVERY value list of length < 2^63, reaches `mc.writeRegisters(addr, payload)`
    with `payload` denoting the concatenation, in order, of the MODEL codec applied to each value —
    which is the payload of `Client.Op.core` for that operation (`C01B_multi_model`). -/
theorem C01B_multi_payloads (e w : Int) (addr : U16) (cs0 : Calls) (hnil : Nat)
    (hnl : bytesAt cs0 hnil = some []) (fuel : Nat) :
    (∀ vs : List U16, vs.length < 2^63 → vs.length + 20 ≤ fuel →
      MultiSends cs0 (multiRun gsp_ModbusClient_WriteRegisters e w (vs.map (fun v => (v.toNat : Int))) addr hnil
        cs0 fuel) addr (vs.flatMap (Enc.uint16ToBytes (endianOfInt e)))) ∧
    (∀ vs : List U32, vs.length < 2^63 → vs.length + 20 ≤ fuel →
      MultiSends cs0 (multiRun gsp_ModbusClient_WriteUint32s e w (vs.map (fun v => (v.toNat : Int))) addr hnil
        cs0 fuel) addr (vs.flatMap (Enc.uint32ToBytes (endianOfInt e) (wordOfInt w)))) ∧
    (∀ vs : List U32, vs.length < 2^63 → vs.length + 20 ≤ fuel →
      MultiSends cs0 (multiRun gsp_ModbusClient_WriteFloat32s e w (vs.map (fun v => (v.toNat : Int))) addr hnil
        cs0 fuel) addr (vs.flatMap (Enc.uint32ToBytes (endianOfInt e) (wordOfInt w)))) ∧
    (∀ vs : List U64, vs.length < 2^63 → vs.length + 20 ≤ fuel →
      MultiSends cs0 (multiRun gsp_ModbusClient_WriteUint64s e w (vs.map (fun v => (v.toNat : Int))) addr hnil
        cs0 fuel) addr (vs.flatMap (Enc.uint64ToBytes (endianOfInt e) (wordOfInt w)))) ∧
    (∀ vs : List U64, vs.length < 2^63 → vs.length + 20 ≤ fuel →
      MultiSends cs0 (multiRun gsp_ModbusClient_WriteFloat64s e w (vs.map (fun v => (v.toNat : Int))) addr hnil
        cs0 fuel) addr (vs.flatMap (Enc.uint64ToBytes (endianOfInt e) (wordOfInt w)))) := by
  obtain ⟨⟨i1, _⟩, ⟨i2, _⟩, ⟨i3, _⟩, ⟨i4, _⟩, ⟨i5, _⟩⟩ := C01B_multi_instr
  refine ⟨?_, ?_, ?_, ?_, ?_⟩
  · intro vs hn hf
    have h := multi2_run "uint16ToBytes" .u16 (by decide) e w
      (fun v => Enc.uint16ToBytes (endianOfInt e) (BitVec.ofInt 16 v))
      (fun cs v k hk => bytesAt_snoc_u16 cs e v hk) (vs.map (fun v => (v.toNat : Int)))
      (by rw [List.length_map]; exact hn) addr cs0 hnil hnl fuel (by rw [List.length_map]; exact hf)
    rw [flatMap_map_ints] at h
    simp only [ofInt16_toNat] at h
    unfold multiRun; rw [i1]
    exact multiSends_of h
  · intro vs hn hf
    have h := multi3_run "uint32ToBytes" .u32 (by decide) e w
      (fun v => Enc.uint32ToBytes (endianOfInt e) (wordOfInt w) (BitVec.ofInt 32 v))
      (fun cs v k hk => bytesAt_snoc_u32 cs e w v hk) (vs.map (fun v => (v.toNat : Int)))
      (by rw [List.length_map]; exact hn) addr cs0 hnil hnl fuel (by rw [List.length_map]; exact hf)
    rw [flatMap_map_ints] at h
    simp only [ofInt32_toNat] at h
    unfold multiRun; rw [i2]
    exact multiSends_of h
  · intro vs hn hf
    have h := multi3_run "float32ToBytes" .other (by decide) e w
      (fun v => Enc.uint32ToBytes (endianOfInt e) (wordOfInt w) (BitVec.ofInt 32 v))
      (fun cs v k hk => bytesAt_snoc_f32 cs e w v hk) (vs.map (fun v => (v.toNat : Int)))
      (by rw [List.length_map]; exact hn) addr cs0 hnil hnl fuel (by rw [List.length_map]; exact hf)
    rw [flatMap_map_ints] at h
    simp only [ofInt32_toNat] at h
    unfold multiRun; rw [i3]
    exact multiSends_of h
  · intro vs hn hf
    have h := multi3_run "uint64ToBytes" .u64 (by decide) e w
      (fun v => Enc.uint64ToBytes (endianOfInt e) (wordOfInt w) (BitVec.ofInt 64 v))
      (fun cs v k hk => bytesAt_snoc_u64 cs e w v hk) (vs.map (fun v => (v.toNat : Int)))
      (by rw [List.length_map]; exact hn) addr cs0 hnil hnl fuel (by rw [List.length_map]; exact hf)
    rw [flatMap_map_ints] at h
    simp only [ofInt64_toNat] at h
    unfold multiRun; rw [i4]
    exact multiSends_of h
  · intro vs hn hf
    have h := multi3_run "float64ToBytes" .other (by decide) e w
      (fun v => Enc.uint64ToBytes (endianOfInt e) (wordOfInt w) (BitVec.ofInt 64 v))
      (fun cs v k hk => bytesAt_snoc_f64 cs e w v hk) (vs.map (fun v => (v.toNat : Int)))
      (by rw [List.length_map]; exact hn) addr cs0 hnil hnl fuel (by rw [List.length_map]; exact hf)
    rw [flatMap_map_ints] at h
    simp only [ofInt64_toNat] at h
    unfold multiRun; rw [i5]
    exact multiSends_of h

/-- the payloads of `C01B_multi_payloads` are the model's: `Client.Op.core` of the five operations -/
theorem C01B_multi_model (cfg : Cfg) (a : U16) :
    (∀ vs, Op.core cfg (.writeRegisters a vs) = some (.writeRegs a (vs.flatMap (Enc.uint16ToBytes cfg.endian)))) ∧
    (∀ vs, Op.core cfg (.writeUint32s a vs) =
      some (.writeRegs a (vs.flatMap (Enc.uint32ToBytes cfg.endian cfg.word)))) ∧
    (∀ vs, Op.core cfg (.writeFloat32s a vs) =
      some (.writeRegs a (vs.flatMap (Enc.uint32ToBytes cfg.endian cfg.word)))) ∧
    (∀ vs, Op.core cfg (.writeUint64s a vs) =
      some (.writeRegs a (vs.flatMap (Enc.uint64ToBytes cfg.endian cfg.word)))) ∧
    (∀ vs, Op.core cfg (.writeFloat64s a vs) =
      some (.writeRegs a (vs.flatMap (Enc.uint64ToBytes cfg.endian cfg.word)))) ∧
    endianOfInt (intOfEndian cfg.endian) = cfg.endian ∧ wordOfInt (intOfWord cfg.word) = cfg.word :=
  ⟨fun _ => rfl, fun _ => rfl, fun _ => rfl, fun _ => rfl, fun _ => rfl,
   endianOfInt_intOfEndian _, wordOfInt_intOfWord _⟩

/-- **composition**: the slice a wrapper hands to `mc.writeRegisters` goes through `writeRegisters`
    (item 3) — run on the wrapper's final log, `values` bound to the argument handle, `len(values)` to the
    length of the bytes it denotes — and reaches `mc.executeRequest` as the model's request
    `Core.writeRegs addr pl` (or is refused exactly when the model refuses it) -/
theorem C01B_multi_compose (ext : World) (hx : CutsAtExecute ext) (cs0 : Calls) (r : Res) (addr : U16)
    (pl : Bytes) (hlen : pl.length < 2^63) (unit : Byte) (fuel : Nat) (hf : 64 ≤ fuel)
    (hs : MultiSends cs0 r addr pl) :
    ∃ h : Nat, r.how = .stoppedAt "mc.writeRegisters" [.int (addr.toNat : Int), .int (h : Int)] ∧
      builtOf (execFromW (sliceWorld ext) fuel gsp_ModbusClient_writeRegisters
        (coreEnvB unit h (.writeRegs addr pl)) r.calls) =
        builtModel r.calls unit (Core.writeRegs addr pl).request := by
  obtain ⟨h, h1, h2, _⟩ := hs
  exact ⟨h, h1, C01B_core_payloads ext hx (.writeRegs addr pl) hlen r.calls unit h h2 fuel hf⟩

/-! ## 5. `writeBytes` -/

/-- `mc.encoding` answers `e`, `w`; `mc.writeRegisters` is not answered (the run is cut there) -/
def wbExt (e w : Int) : World := fun _ f _ =>
  if f = "mc.encoding" then some [.int e, .int w] else none

/-- entry environment of `writeBytes` -/
def wbEnv (addr : U16) (obs : Bool) (n hv hmk : Nat) : Env :=
  [("addr", .int (addr.toNat : Int)), ("values", .int (hv : Int)), ("len(values)", .int (n : Int)),
   ("observeEndianness", .ofBool obs), ("make([]byte, 0, len(values)+1)", .int (hmk : Int)),
   ("err", .sym "nil")]

theorem wbExt_encoding (e w : Int) (cs : Calls) (args : List GoEval.Val) :
    sliceWorld (wbExt e w) cs "mc.encoding" args = some [.int e, .int w] := by
  rw [sliceWorld_encoding]; rfl
theorem wbExt_writeRegisters (e w : Int) (cs : Calls) (args : List GoEval.Val) :
    sliceWorld (wbExt e w) cs "mc.writeRegisters" args = none := by
  rw [sliceWorld_writeRegisters]; rfl

/-- **`writeBytes` when no byte swap is requested** (`!observeEndianness` or byte order ≠ `LITTLE_ENDIAN`),
    every input `bs`: the slice operations are exactly: the PRIVATE COPY `append(make([]byte, 0, len+1), values...)`
    (an `append...` of the caller's slice onto the fresh empty `make`), then the padding `append(values, 0x00)`
    EXACTLY WHEN the length is odd; nothing else; `mc.writeRegisters(addr, values)` receives the handle of
    `bs` / `bs ++ [0]`, which is the model's `writeBytesPayload`. -/
theorem C01B_writeBytes (e w : Int) (obs : Bool) (bs : Bytes) (hn : bs.length < 2^63) (addr : U16) (cs0 : Calls)
    (hv hmk : Nat) (hbs : bytesAt cs0 hv = some bs) (hm : bytesAt cs0 hmk = some [])
    (hno : ¬ (obs = true ∧ e = 2)) (fuel : Nat) (hf : 16 ≤ fuel) :
    let r := execFromW (sliceWorld (wbExt e w)) fuel gsp_ModbusClient_writeBytes
      (wbEnv addr obs bs.length hv hmk) cs0
    let padded := if bs.length % 2 = 1 then bs ++ [0] else bs
    r.calls = cs0 ++ [("mc.encoding", []), ("append...", [.int (hmk : Int), .int (hv : Int)])] ++
      (if bs.length % 2 = 1 then [("append", [.int ((cs0.length + 1 : Nat) : Int), .int 0])] else []) ∧
    ∃ h : Nat, r.how = .stoppedAt "mc.writeRegisters" [.int (addr.toNat : Int), .int (h : Int)] ∧
      bytesAt r.calls h = some padded ∧
      writeBytesPayload (endianOfInt e) obs bs = some padded := by
  obtain ⟨m, rfl⟩ : ∃ m, fuel = m + 16 := ⟨fuel - 16, by omega⟩
  have h0 : (0:Int) ≤ (bs.length : Int) := by omega
  have hc : (obs && decide (e = 2)) = false := by
    cases obs
    · rfl
    · have : ¬ e = 2 := fun h => hno ⟨rfl, h⟩
      simp only [this, decide_false, Bool.and_false]
  have hmodel : writeBytesPayload (endianOfInt e) obs bs =
      some (if bs.length % 2 = 1 then bs ++ [0] else bs) := by
    have : ¬ (obs = true ∧ endianOfInt e = .little) := by
      rintro ⟨h1, h2⟩
      apply hno
      refine ⟨h1, ?_⟩
      unfold endianOfInt at h2
      by_cases h3 : e = 1
      · simp only [h3, ↓reduceIte, reduceCtorEq] at h2
      · by_cases h4 : e = 2
        · exact h4
        · simp only [h3, h4, ↓reduceIte, reduceCtorEq] at h2
    simp only [writeBytesPayload, this, ↓reduceIte]
  by_cases hodd : bs.length % 2 = 1
  · have hI : ((bs.length : Int) % 2 + 9223372036854775808) % 18446744073709551616 - 9223372036854775808 = 1 := by omega
    go_slices [gsp_ModbusClient_writeBytes, wbEnv, wbExt, tmod_of_nonneg _ h0, Int.reduceEq, hI, hc, hodd]
    refine ⟨by simp only [List.append_assoc, List.cons_append, List.nil_append], _, rfl, ?_, ?_⟩
    · apply bytesAt_eq_of
      case h1 => slice_solve
      case h2 => simp only [List.nil_append]; rfl
    · rw [hmodel, if_pos hodd]
  · have hI : ¬ ((bs.length : Int) % 2 + 9223372036854775808) % 18446744073709551616 - 9223372036854775808 = 1 := by omega
    go_slices [gsp_ModbusClient_writeBytes, wbEnv, wbExt, tmod_of_nonneg _ h0, Int.reduceEq, hI, hc, hodd]
    refine ⟨by simp only [List.append_assoc, List.cons_append, List.nil_append, List.append_nil], _, rfl, ?_, ?_⟩
    · apply bytesAt_eq_of
      case h1 => slice_solve
      case h2 => simp only [List.nil_append]
    · rw [hmodel, if_neg hodd]

/-- observation of element stores: after every assignment to `leaf` log the pseudo-call
    `obs(idx, leaf)` (no result, binds nothing) -/
def withStoreObs (leaf obs idx : String) (ty : GTy) : GStmt → GStmt
  | .assign x e =>
    if x = leaf then .seq (.assign x e) (.bindCall [] obs [.var idx .int, .var leaf ty]) else .assign x e
  | .seq a b => .seq (withStoreObs leaf obs idx ty a) (withStoreObs leaf obs idx ty b)
  | .ite c t e => .ite c (withStoreObs leaf obs idx ty t) (withStoreObs leaf obs idx ty e)
  | .loop b => .loop (withStoreObs leaf obs idx ty b)
  | s => s

/-- remove the observations again -/
def stripStoreObs (obs : String) : GStmt → GStmt
  | .seq a (.bindCall ts f as) =>
    if f = obs then stripStoreObs obs a else .seq (stripStoreObs obs a) (.bindCall ts f as)
  | .seq a b => .seq (stripStoreObs obs a) (stripStoreObs obs b)
  | .ite c t e => .ite c (stripStoreObs obs t) (stripStoreObs obs e)
  | .loop b => .loop (stripStoreObs obs b)
  | s => s

def wbGs : GStmt :=
  withStoreObs "values[i+1]" "#store values[i+1]" "i" .u8
    (withStoreObs "values[i]" "#store values[i]" "i" .u8
      (withProbe "values[i+1]" "#values[i+1]" "i"
        (withProbe "values[i]" "#values[i]" "i" gsp_ModbusClient_writeBytes)))

def wbBodyI : GStmt :=
  .seq (.bindCall ["values[i+1]"] "#values[i+1]" [.var "i" .int])
    (.seq (.bindCall ["values[i]"] "#values[i]" [.var "i" .int])
      (.ite (.cmp "<" (.var "i" .int) (.var "len(values)" .int))
        (.seq
          (.seq (.assign "#tmp0" (.var "values[i+1]" .u8))
            (.seq (.assign "#tmp1" (.var "values[i]" .u8))
              (.seq (.seq (.assign "values[i]" (.var "#tmp0" .u8))
                      (.bindCall [] "#store values[i]" [.var "i" .int, .var "values[i]" .u8]))
                (.seq (.assign "values[i+1]" (.var "#tmp1" .u8))
                  (.bindCall [] "#store values[i+1]" [.var "i" .int, .var "values[i+1]" .u8])))))
          (.assign "i" (.bin "+" .int (.var "i" .int) (.lit 2 .int))))
        .brk))

def wbLoopC : GStmt := .loop wbBodyI

def wbTail : GStmt :=
  .seq (.ite (.and (.var "observeEndianness" .bool) (.cmp "==" (.var "endianness" .uint) (.lit 2 .uint)))
      (.seq (.assign "i" (.lit 0 .int)) wbLoopC) .skip)
    (.seq (.bindCall ["err"] "mc.writeRegisters" [.var "addr" .u16, .var "values" .other]) .ret)

def wbHead (T : GStmt) : GStmt :=
  .seq (.bindCall ["endianness", "_"] "mc.encoding" [])
    (.seq (.bindCall ["values"] "append..." [.call "make([]byte, 0, len(values)+1)" .other, .var "values" .other])
      (.seq (.ite (.cmp "==" (.bin "%" .int (.var "len(values)" .int) (.lit 2 .int)) (.lit 1 .int))
          (.bindCall ["values"] "append" [.var "values" .other, .lit 0 .u8]) .skip)
        T))

theorem wbGs_eq : wbGs = wbHead wbTail := by
  simp only [wbGs, wbHead, wbTail, wbLoopC, wbBodyI, withStoreObs, withProbe, gsp_ModbusClient_writeBytes,
    String.reduceEq, ↓reduceIte]

theorem strip_wbGs :
    stripProbe "#values[i]" (stripProbe "#values[i+1]"
      (stripStoreObs "#store values[i]" (stripStoreObs "#store values[i+1]" wbGs))) =
    gsp_ModbusClient_writeBytes := by
  simp only [wbGs_eq, wbHead, wbTail, wbLoopC, wbBodyI, stripStoreObs, stripProbe, gsp_ModbusClient_writeBytes,
    String.reduceEq, ↓reduceIte]

/-! ### the store model (contents of the private copy under the loop's element assignments) -/

/-- one logged call applied to the contents of the slice: the two observation pseudo-calls set an
    element, every other call leaves the contents alone -/
def applyStore (st : List Int) (c : String × List GoEval.Val) : List Int :=
  if c.1 = "#store values[i]" then
    (match c.2 with
     | [.int i, .int v] => if 0 ≤ i then st.set i.toNat v else st
     | _ => st)
  else if c.1 = "#store values[i+1]" then
    (match c.2 with
     | [.int i, .int v] => if 0 ≤ i then st.set (i.toNat + 1) v else st
     | _ => st)
  else st

/-- the contents after the stores logged in `cs`, starting from `pd` -/
def storeOf (pd : List Int) (cs : Calls) : List Int := cs.foldl applyStore pd

theorem storeOf_snoc (pd : List Int) (cs : Calls) (c : String × List GoEval.Val) :
    storeOf pd (cs ++ [c]) = applyStore (storeOf pd cs) c := by
  simp only [storeOf, List.foldl_append, List.foldl_cons, List.foldl_nil]

theorem storeOf_snoc_other (pd : List Int) (cs : Calls) (f : String) (args : List GoEval.Val)
    (h1 : f ≠ "#store values[i]") (h2 : f ≠ "#store values[i+1]") :
    storeOf pd (cs ++ [(f, args)]) = storeOf pd cs := by
  rw [storeOf_snoc]; simp only [applyStore, h1, h2, ↓reduceIte]

theorem storeOf_snoc_probeI (pd cs args) : storeOf pd (cs ++ [("#values[i]", args)]) = storeOf pd cs :=
  storeOf_snoc_other pd cs _ args (by decide) (by decide)
theorem storeOf_snoc_probeI1 (pd cs args) : storeOf pd (cs ++ [("#values[i+1]", args)]) = storeOf pd cs :=
  storeOf_snoc_other pd cs _ args (by decide) (by decide)
theorem storeOf_snoc_storeI (pd : List Int) (cs : Calls) (j : Nat) (v : Int) :
    storeOf pd (cs ++ [("#store values[i]", [.int (j : Int), .int v])]) = (storeOf pd cs).set j v := by
  rw [storeOf_snoc]
  simp only [applyStore, ↓reduceIte, Int.natCast_nonneg, Int.toNat_natCast]
theorem storeOf_snoc_storeI1 (pd : List Int) (cs : Calls) (j : Nat) (v : Int) :
    storeOf pd (cs ++ [("#store values[i+1]", [.int (j : Int), .int v])]) = (storeOf pd cs).set (j + 1) v := by
  rw [storeOf_snoc]
  simp only [applyStore, String.reduceEq, ↓reduceIte, Int.natCast_nonneg, Int.toNat_natCast]

theorem probeInts_of_get {vals : List Int} {k : Nat} {x : Int} (h : vals[k]? = some x) :
    probeInts vals (.int (k : Int)) = .int x := by
  simp [probeInts, h]

/-- `mc.encoding` answers `LITTLE_ENDIAN`, `w`; the probes answer from the CURRENT contents of the slice
    (`pd` with the stores logged so far applied); the observations return nothing; `mc.writeRegisters` is
    not answered -/
def wbStoreExt (w : Int) (pd : List Int) : World := fun cs f args =>
  if f = "mc.encoding" then some [.int 2, .int w]
  else if f = "#values[i]" then some [probeInts (storeOf pd cs) (args.headD .unk)]
  else if f = "#values[i+1]" then some [probeInts (storeOf pd cs) (plusVal (args.headD .unk) (.int 1))]
  else if f = "#store values[i]" then some []
  else if f = "#store values[i+1]" then some []
  else none

theorem sliceWorld_pI (ext : World) (cs : Calls) (args : List GoEval.Val) :
    sliceWorld ext cs "#values[i]" args = ext cs "#values[i]" args := sliceWorld_other _ cs _ args (by decide)
theorem sliceWorld_pI1 (ext : World) (cs : Calls) (args : List GoEval.Val) :
    sliceWorld ext cs "#values[i+1]" args = ext cs "#values[i+1]" args :=
  sliceWorld_other _ cs _ args (by decide)
theorem sliceWorld_sI (ext : World) (cs : Calls) (args : List GoEval.Val) :
    sliceWorld ext cs "#store values[i]" args = ext cs "#store values[i]" args :=
  sliceWorld_other _ cs _ args (by decide)
theorem sliceWorld_sI1 (ext : World) (cs : Calls) (args : List GoEval.Val) :
    sliceWorld ext cs "#store values[i+1]" args = ext cs "#store values[i+1]" args :=
  sliceWorld_other _ cs _ args (by decide)

def wbRoundEnv (env : Env) (j : Nat) (a b : Int) : Env :=
  Env.write (Env.write (Env.write (Env.write (Env.write (Env.write (Env.write env
    "values[i+1]" (.int a)) "values[i]" (.int b)) "#tmp0" (.int a)) "#tmp1" (.int b))
    "values[i]" (.int a)) "values[i+1]" (.int b)) "i" (.int ((j + 2 : Nat) : Int))

theorem wb_round (w : Int) (pd : List Int) (n0 j : Nat) (a b : Int) (hn : n0 < 2^62) (hj : j < n0)
    (env : Env) (cs : Calls)
    (hA : (storeOf pd cs)[j + 1]? = some a) (hB : (storeOf pd cs)[j]? = some b)
    (h1 : Env.read? env "i" = some (.int (j : Int)))
    (h2 : Env.read? env "len(values)" = some (.int (n0 : Int))) (m : Nat) :
    execFromW (sliceWorld (wbStoreExt w pd)) (m + 12) wbBodyI env cs =
      ⟨wbRoundEnv env j a b, .fell,
       cs ++ [("#values[i+1]", [.int (j : Int)])] ++ [("#values[i]", [.int (j : Int)])] ++
        [("#store values[i]", [.int (j : Int), .int a])] ++ [("#store values[i+1]", [.int (j : Int), .int b])]⟩ := by
  have hlt : (j : Int) < (n0 : Int) := by omega
  have hw : ((j : Int) + 2 + 9223372036854775808) % 18446744073709551616 - 9223372036854775808 =
      ((j + 2 : Nat) : Int) := by omega
  have hj1 : (j : Int) + 1 = ((j + 1 : Nat) : Int) := by omega
  go_slices [wbBodyI, wbRoundEnv, sliceWorld_pI, sliceWorld_pI1, sliceWorld_sI, sliceWorld_sI1, wbStoreExt, storeOf_snoc_probeI1,
    storeOf_snoc_probeI, hj1, probeInts_of_get hA, probeInts_of_get hB, h1, h2, hlt, hw]

theorem wb_exit (w : Int) (pd : List Int) (n0 j : Nat) (hj : n0 ≤ j) (env : Env) (cs : Calls)
    (h1 : Env.read? env "i" = some (.int (j : Int)))
    (h2 : Env.read? env "len(values)" = some (.int (n0 : Int))) (m : Nat) :
    execFromW (sliceWorld (wbStoreExt w pd)) (m + 12) wbBodyI env cs =
      ⟨Env.write (Env.write env "values[i+1]" (probeInts (storeOf pd cs) (.int ((j + 1 : Nat) : Int))))
          "values[i]" (probeInts (storeOf pd cs) (.int (j : Int))), .broke,
       cs ++ [("#values[i+1]", [.int (j : Int)])] ++ [("#values[i]", [.int (j : Int)])]⟩ := by
  have hlt : ¬ (j : Int) < (n0 : Int) := by omega
  have hj1 : (j : Int) + 1 = ((j + 1 : Nat) : Int) := by omega
  go_slices [wbBodyI, sliceWorld_pI, sliceWorld_pI1, wbStoreExt, storeOf_snoc_probeI1,
    storeOf_snoc_probeI, hj1, h1, h2, hlt]

/-- the first `k` pairs exchanged -/
def swapFirst : Nat → List Int → List Int
  | 0, l => l
  | k + 1, a :: b :: r => b :: a :: swapFirst k r
  | _ + 1, l => l

theorem swapFirst_get : ∀ (k : Nat) (l : List Int) (a b : Int),
    l[2 * k + 1]? = some a → l[2 * k]? = some b →
    (swapFirst k l)[2 * k + 1]? = some a ∧ (swapFirst k l)[2 * k]? = some b := by
  intro k
  induction k with
  | zero => intro l a b hA hB; exact ⟨hA, hB⟩
  | succ k ih =>
    intro l a b hA hB
    match l with
    | [] => simp at hB
    | [x] => simp at hA
    | x :: y :: r =>
      have e1 : 2 * (k + 1) + 1 = (2 * k + 1) + 1 + 1 := by omega
      have e2 : 2 * (k + 1) = (2 * k) + 1 + 1 := by omega
      rw [e1] at hA ⊢
      rw [e2] at hB ⊢
      simp only [List.getElem?_cons_succ] at hA hB
      simp only [swapFirst, List.getElem?_cons_succ]
      exact ih r a b hA hB

theorem swapFirst_step : ∀ (k : Nat) (l : List Int) (a b : Int),
    l[2 * k + 1]? = some a → l[2 * k]? = some b →
    ((swapFirst k l).set (2 * k) a).set (2 * k + 1) b = swapFirst (k + 1) l := by
  intro k
  induction k with
  | zero =>
    intro l a b hA hB
    match l with
    | [] => simp at hB
    | [x] => simp at hA
    | x :: y :: r =>
      simp only [Nat.mul_zero, Nat.zero_add, List.getElem?_cons_succ, List.getElem?_cons_zero,
        Option.some.injEq] at hA hB
      subst hA hB
      simp only [swapFirst, Nat.mul_zero, Nat.zero_add, List.set_cons_zero, List.set_cons_succ]
  | succ k ih =>
    intro l a b hA hB
    match l with
    | [] => simp at hB
    | [x] => simp at hA
    | x :: y :: r =>
      have e1 : 2 * (k + 1) + 1 = (2 * k + 1) + 1 + 1 := by omega
      have e2 : 2 * (k + 1) = (2 * k) + 1 + 1 := by omega
      rw [e1] at hA ⊢
      rw [e2] at hB ⊢
      simp only [List.getElem?_cons_succ] at hA hB
      have := ih r a b hA hB
      simp only [swapFirst, List.set_cons_succ, this]

/-- the model's swap loop on an even-length byte string is `swapFirst` of all pairs -/
theorem swapPairs_eq_swapFirst : ∀ (k : Nat) (bs : Bytes), bs.length = 2 * k →
    swapPairs bs = some (bytesOfInts (swapFirst k (intsOfBytes bs))) := by
  intro k
  induction k with
  | zero =>
    intro bs h
    have : bs = [] := List.eq_nil_of_length_eq_zero (by omega)
    subst this; rfl
  | succ k ih =>
    intro bs h
    match bs with
    | [] => simp at h
    | [x] => simp at h; omega
    | x :: y :: r =>
      have hr : r.length = 2 * k := by simp only [List.length_cons] at h; omega
      simp only [swapPairs, ih r hr, intsOfBytes, List.map_cons, swapFirst, bytesOfInts, byteOfInt_toNat]

/-- keys the swap loop writes -/
def wbWritten : List String := ["values[i+1]", "values[i]", "#tmp0", "#tmp1", "i"]

theorem wb_loop (w : Int) (pd : List Int) (n0 : Nat) (hn : n0 < 2^62) (hpd : pd.length = n0 + n0 % 2) :
    ∀ (d k : Nat) (env : Env) (cs : Calls), k + d = (n0 + 1) / 2 →
      Env.read? env "i" = some (.int ((2 * k : Nat) : Int)) →
      Env.read? env "len(values)" = some (.int (n0 : Int)) →
      storeOf pd cs = swapFirst k pd → ∀ m,
      ∃ (env' : Env) (cs' : Calls),
        execFromW (sliceWorld (wbStoreExt w pd)) (m + d + 13) wbLoopC env cs = ⟨env', .fell, cs'⟩ ∧
        storeOf pd cs' = swapFirst ((n0 + 1) / 2) pd ∧
        (∀ x, x ∉ wbWritten → Env.read? env' x = Env.read? env x) ∧
        (∀ h b, bytesAt cs h = some b → bytesAt cs' h = some b) := by
  intro d
  induction d with
  | zero =>
    intro k env cs hkd h1 h2 hst m
    have hk : n0 ≤ 2 * k := by omega
    have hx := wb_exit w pd n0 (2 * k) hk env cs h1 h2 m
    refine ⟨_, _, execFromW_loop_of_broke _ hx, ?_, ?_, ?_⟩
    · rw [storeOf_snoc_probeI, storeOf_snoc_probeI1, hst]
      have : k = (n0 + 1) / 2 := by omega
      rw [this]
    · intro x hx
      have n1 : ¬ "values[i+1]" = x := by intro h; apply hx; rw [← h]; simp [wbWritten]
      have n2 : ¬ "values[i]" = x := by intro h; apply hx; rw [← h]; simp [wbWritten]
      simp only [read?_write, n1, n2, ↓reduceIte]
    · intro h b hb
      exact bytesAt_mono1 (bytesAt_mono1 hb _) _
  | succ d ih =>
    intro k env cs hkd h1 h2 hst m
    have hk : 2 * k < n0 := by omega
    have hlen : 2 * k + 1 < pd.length := by omega
    obtain ⟨a, hA⟩ : ∃ a, pd[2 * k + 1]? = some a := ⟨pd[2 * k + 1], List.getElem?_eq_getElem hlen⟩
    obtain ⟨b, hB⟩ : ∃ b, pd[2 * k]? = some b :=
      ⟨pd[2 * k]'(by omega), List.getElem?_eq_getElem (by omega)⟩
    obtain ⟨gA, gB⟩ := swapFirst_get k pd a b hA hB
    have hs := wb_round w pd n0 (2 * k) a b hn hk env cs (by rw [hst]; exact gA) (by rw [hst]; exact gB)
      h1 h2 (m + d + 1)
    have hst' : storeOf pd (cs ++ [("#values[i+1]", [.int ((2 * k : Nat) : Int)])] ++
        [("#values[i]", [.int ((2 * k : Nat) : Int)])] ++
        [("#store values[i]", [.int ((2 * k : Nat) : Int), .int a])] ++
        [("#store values[i+1]", [.int ((2 * k : Nat) : Int), .int b])]) = swapFirst (k + 1) pd := by
      rw [storeOf_snoc_storeI1, storeOf_snoc_storeI, storeOf_snoc_probeI, storeOf_snoc_probeI1, hst]
      exact swapFirst_step k pd a b hA hB
    obtain ⟨env', cs', hrun, hfin, hfr, hmono⟩ := ih (k + 1) (wbRoundEnv env (2 * k) a b) _ (by omega)
      (by simp only [wbRoundEnv, read?_write, ↓reduceIte]
          have : 2 * k + 2 = 2 * (k + 1) := by omega
          rw [this])
      (by simp only [wbRoundEnv, read?_write, String.reduceEq, ↓reduceIte]; exact h2)
      hst' m
    refine ⟨env', cs', ?_, hfin, ?_, ?_⟩
    · have e1 : m + (d + 1) + 13 = (m + d + 1 + 12) + 1 := by omega
      have e2 : m + d + 1 + 12 = m + d + 13 := by omega
      rw [e1]
      show execFromW _ _ (.loop wbBodyI) env cs = _
      rw [execFromW_loop_of_fell _ hs, e2]
      exact hrun
    · intro x hx
      rw [hfr x hx]
      have n1 : ¬ "values[i+1]" = x := by intro h; apply hx; rw [← h]; simp [wbWritten]
      have n2 : ¬ "values[i]" = x := by intro h; apply hx; rw [← h]; simp [wbWritten]
      have n3 : ¬ "#tmp0" = x := by intro h; apply hx; rw [← h]; simp [wbWritten]
      have n4 : ¬ "#tmp1" = x := by intro h; apply hx; rw [← h]; simp [wbWritten]
      have n5 : ¬ "i" = x := by intro h; apply hx; rw [← h]; simp [wbWritten]
      simp only [wbRoundEnv, read?_write, n1, n2, n3, n4, n5, ↓reduceIte]
    · intro h bb hb
      exact hmono h bb (bytesAt_mono1 (bytesAt_mono1 (bytesAt_mono1 (bytesAt_mono1 hb _) _) _) _)

theorem wb_tail (w : Int) (pd : List Int) (n0 : Nat) (hn : n0 < 2^62) (hpd : pd.length = n0 + n0 % 2)
    (env : Env) (cs : Calls) (a : Int) (h : Nat)
    (e1 : Env.read? env "observeEndianness" = some (.ofBool true))
    (e2 : Env.read? env "endianness" = some (.int 2))
    (e3 : Env.read? env "len(values)" = some (.int (n0 : Int)))
    (e4 : Env.read? env "values" = some (.int (h : Int)))
    (e5 : Env.read? env "addr" = some (.int a))
    (hst : storeOf pd cs = pd) (g : Nat) :
    ∃ (env' : Env) (cs' : Calls),
      execFromW (sliceWorld (wbStoreExt w pd)) (g + (n0 + 1) / 2 + 16) wbTail env cs =
        ⟨env', .stoppedAt "mc.writeRegisters" [.int a, .int (h : Int)], cs'⟩ ∧
      storeOf pd cs' = swapFirst ((n0 + 1) / 2) pd ∧
      (∀ h b, bytesAt cs h = some b → bytesAt cs' h = some b) := by
  obtain ⟨env', cs', hrun, hfin, hfr, hmono⟩ := wb_loop w pd n0 hn hpd ((n0 + 1) / 2) 0
    (Env.write env "i" (.int 0)) cs (by omega) (by simp only [read?_write, ↓reduceIte]; rfl)
    (by simp only [read?_write, String.reduceEq, ↓reduceIte]; exact e3) (by rw [hst]; rfl) g
  refine ⟨env', cs', ?_, hfin, hmono⟩
  have r1 : Env.read? env' "addr" = some (.int a) := by
    rw [hfr "addr" (by decide)]; simp only [read?_write, String.reduceEq, ↓reduceIte]; exact e5
  have r2 : Env.read? env' "values" = some (.int (h : Int)) := by
    rw [hfr "values" (by decide)]; simp only [read?_write, String.reduceEq, ↓reduceIte]; exact e4
  go_slices [wbTail, e1, e2, wbStoreExt, hrun, r1, r2]

theorem storeOf_clean (pd : List Int) : ∀ (cs : Calls),
    (∀ c ∈ cs, c.1 ≠ "#store values[i]" ∧ c.1 ≠ "#store values[i+1]") → storeOf pd cs = pd := by
  have key : ∀ (cs : Calls) (st : List Int),
      (∀ c ∈ cs, c.1 ≠ "#store values[i]" ∧ c.1 ≠ "#store values[i+1]") → cs.foldl applyStore st = st := by
    intro cs
    induction cs with
    | nil => intro st _; rfl
    | cons c t ih =>
      intro st h
      have hc := h c (List.mem_cons_self ..)
      simp only [List.foldl_cons, applyStore, hc.1, hc.2, ↓reduceIte]
      exact ih st (fun x hx => h x (List.mem_cons_of_mem _ hx))
  intro cs h
  exact key cs pd h

/-- for an even index the loop test against the ORIGINAL length (the one value the key `len(values)` has)
    and against the padded length agree -/
theorem C01B_stale_len_harmless (i n : Nat) (hi : i % 2 = 0) : i < n ↔ i < n + n % 2 := by omega

/-- **`writeBytes` with the byte swap** (`observeEndianness` and `LITTLE_ENDIAN`), every input `bs`
    (length < 2^62), on the instrumented term `wbGs` (`strip_wbGs`: the instrumentation removed gives the
    generated term). The run reaches `mc.writeRegisters(addr, values)`; `values` is the handle of the padded
    private copy (contents AT CREATION: `bs` / `bs ++ [0]`); the element stores performed by the loop
    (`values[i], values[i+1] = values[i+1], values[i]` through the temporaries), applied in order to those
    contents (`storeOf`), give exactly the model's `swapPairs padded = writeBytesPayload .little true bs`.
    The loop runs ⌈len/2⌉ rounds and performs no slice operation. -/
theorem C01B_writeBytes_le (w : Int) (bs : Bytes) (hn : bs.length < 2^62) (addr : U16) (cs0 : Calls) (hv hmk : Nat)
    (hbs : bytesAt cs0 hv = some bs) (hm : bytesAt cs0 hmk = some [])
    (hclean : storeOf (intsOfBytes (if bs.length % 2 = 1 then bs ++ [0] else bs)) cs0 =
      intsOfBytes (if bs.length % 2 = 1 then bs ++ [0] else bs))
    (fuel : Nat) (hf : bs.length + 24 ≤ fuel) :
    let padded := if bs.length % 2 = 1 then bs ++ [0] else bs
    let r := execFromW (sliceWorld (wbStoreExt w (intsOfBytes padded))) fuel wbGs
      (wbEnv addr true bs.length hv hmk) cs0
    ∃ h : Nat, r.how = .stoppedAt "mc.writeRegisters" [.int (addr.toNat : Int), .int (h : Int)] ∧
      bytesAt r.calls h = some padded ∧
      swapPairs padded = some (bytesOfInts (storeOf (intsOfBytes padded) r.calls)) ∧
      writeBytesPayload .little true bs = swapPairs padded := by
  intro padded
  have hmodel : writeBytesPayload .little true bs = swapPairs padded := by
    simp only [writeBytesPayload, and_self, ↓reduceIte]; rfl
  obtain ⟨g, rfl⟩ : ∃ g, fuel = (g + (bs.length + 1) / 2 + 16) + 3 :=
    ⟨fuel - (bs.length + 1) / 2 - 19, by omega⟩
  have h0 : (0:Int) ≤ (bs.length : Int) := by omega
  by_cases hodd : bs.length % 2 = 1
  · have hI : ((bs.length : Int) % 2 + 9223372036854775808) % 18446744073709551616 - 9223372036854775808 = 1 := by omega
    have hp : padded = bs ++ [0] := if_pos hodd
    have hplen : (intsOfBytes padded).length = bs.length + bs.length % 2 := by
      rw [intsOfBytes_length, hp, List.length_append]; simp only [List.length_cons, List.length_nil]; omega
    have hb : bytesAt (cs0 ++ [("mc.encoding", [])] ++ [("append...", [Val.int ↑hmk, Val.int ↑hv])] ++
        [("append", [Val.int ↑(List.length cs0 + 1), Val.int 0])]) (cs0.length + 2) = some padded := by
      apply bytesAt_eq_of
      case h1 => slice_solve
      case h2 => rw [hp]; simp only [List.nil_append]; rfl
    have hst : storeOf (intsOfBytes padded) (cs0 ++ [("mc.encoding", [])] ++
        [("append...", [Val.int ↑hmk, Val.int ↑hv])] ++
        [("append", [Val.int ↑(List.length cs0 + 1), Val.int 0])]) = intsOfBytes padded := by
      rw [storeOf_snoc_other _ _ _ _ (by decide) (by decide), storeOf_snoc_other _ _ _ _ (by decide) (by decide),
        storeOf_snoc_other _ _ _ _ (by decide) (by decide)]
      exact hclean
    obtain ⟨env', cs', htail, hfin, hmono⟩ := wb_tail w (intsOfBytes padded) bs.length hn hplen
      ((((Env.write
                          [("addr", Val.int ↑(BitVec.toNat addr)), ("values", Val.int ↑hv),
                            ("len(values)", Val.int ↑(List.length bs)), ("observeEndianness", Val.ofBool true),
                            ("make([]byte, 0, len(values)+1)", Val.int ↑hmk), ("err", Val.sym "nil")]
                          "endianness" (Val.int 2)).write
                      "_" (Val.int w)).write
                  "values" (Val.int ↑(List.length cs0 + 1))).write
              "values" (Val.int ↑(List.length cs0 + 2)))
      (cs0 ++ [("mc.encoding", [])] ++ [("append...", [Val.int ↑hmk, Val.int ↑hv])] ++
              [("append", [Val.int ↑(List.length cs0 + 1), Val.int 0])])
      (addr.toNat : Int) (cs0.length + 2)
      (by simp only [read?_write, read?_cons, String.reduceEq, ↓reduceIte])
      (by simp only [read?_write, read?_cons, String.reduceEq, ↓reduceIte])
      (by simp only [read?_write, read?_cons, String.reduceEq, ↓reduceIte])
      (by simp only [read?_write, read?_cons, String.reduceEq, ↓reduceIte])
      (by simp only [read?_write, read?_cons, String.reduceEq, ↓reduceIte])
      hst g
    go_slices [wbGs_eq, wbHead, wbEnv, wbStoreExt, tmod_of_nonneg _ h0, Int.reduceEq, hI, htail]
    refine ⟨_, rfl, hmono _ _ hb, ?_, hmodel⟩
    rw [hfin]
    exact swapPairs_eq_swapFirst _ padded
      (by rw [hp, List.length_append]; simp only [List.length_cons, List.length_nil]; omega)
  · have hI : ¬ ((bs.length : Int) % 2 + 9223372036854775808) % 18446744073709551616 - 9223372036854775808 = 1 := by
      omega
    have hp : padded = bs := if_neg hodd
    have hplen : (intsOfBytes padded).length = bs.length + bs.length % 2 := by
      rw [intsOfBytes_length, hp]; omega
    have hb : bytesAt (cs0 ++ [("mc.encoding", [])] ++ [("append...", [Val.int ↑hmk, Val.int ↑hv])])
        (cs0.length + 1) = some padded := by
      apply bytesAt_eq_of
      case h1 => slice_solve
      case h2 => rw [hp]; simp only [List.nil_append]
    have hst : storeOf (intsOfBytes padded) (cs0 ++ [("mc.encoding", [])] ++
        [("append...", [Val.int ↑hmk, Val.int ↑hv])]) = intsOfBytes padded := by
      rw [storeOf_snoc_other _ _ _ _ (by decide) (by decide), storeOf_snoc_other _ _ _ _ (by decide) (by decide)]
      exact hclean
    obtain ⟨env', cs', htail, hfin, hmono⟩ := wb_tail w (intsOfBytes padded) bs.length hn hplen
      (((Env.write
                          [("addr", Val.int ↑(BitVec.toNat addr)), ("values", Val.int ↑hv),
                            ("len(values)", Val.int ↑(List.length bs)), ("observeEndianness", Val.ofBool true),
                            ("make([]byte, 0, len(values)+1)", Val.int ↑hmk), ("err", Val.sym "nil")]
                          "endianness" (Val.int 2)).write
                      "_" (Val.int w)).write
                  "values" (Val.int ↑(List.length cs0 + 1)))
      (cs0 ++ [("mc.encoding", [])] ++ [("append...", [Val.int ↑hmk, Val.int ↑hv])])
      (addr.toNat : Int) (cs0.length + 1)
      (by simp only [read?_write, read?_cons, String.reduceEq, ↓reduceIte])
      (by simp only [read?_write, read?_cons, String.reduceEq, ↓reduceIte])
      (by simp only [read?_write, read?_cons, String.reduceEq, ↓reduceIte])
      (by simp only [read?_write, read?_cons, String.reduceEq, ↓reduceIte])
      (by simp only [read?_write, read?_cons, String.reduceEq, ↓reduceIte])
      hst g
    go_slices [wbGs_eq, wbHead, wbEnv, wbStoreExt, tmod_of_nonneg _ h0, Int.reduceEq, hI, htail]
    refine ⟨_, rfl, hmono _ _ hb, ?_, hmodel⟩
    rw [hfin]
    exact swapPairs_eq_swapFirst _ padded (by rw [hp]; omega)

/-- the model's typed wrapper for `WriteBytes` / `WriteRawBytes` is `writeBytesPayload` followed by the
    core call `writeRegs` (what `C01B_writeBytes`, `C01B_writeBytes_le` and `C01B_multi_compose` tie to) -/
theorem C01B_writeBytes_model (cfg : Cfg) (a : U16) (bs : Bytes) :
    Op.core cfg (.writeBytes a bs) = (writeBytesPayload cfg.endian true bs).map (.writeRegs a) ∧
    Op.core cfg (.writeRawBytes a bs) = (writeBytesPayload cfg.endian false bs).map (.writeRegs a) :=
  ⟨rfl, rfl⟩

/-! ## 6. sensitivity: variants derived from the generated terms; concrete runs -/
section sensitivity

/-- rename the `.var` leaves of an expression -/
def renE (f : String → String) : GExpr → GExpr
  | .lit v t => .lit v t
  | .var x t => .var (f x) t
  | .call x t => .call x t
  | .conv t e => .conv t (renE f e)
  | .bin op t a b => .bin op t (renE f a) (renE f b)
  | .cmp op a b => .cmp op (renE f a) (renE f b)
  | .not e => .not (renE f e)
  | .and a b => .and (renE f a) (renE f b)
  | .or a b => .or (renE f a) (renE f b)

/-- rename the `.var` leaves in the arguments of the calls to `callee` -/
def renArgs (callee : String) (f : String → String) : GStmt → GStmt
  | .seq a b => .seq (renArgs callee f a) (renArgs callee f b)
  | .ite c t e => .ite c (renArgs callee f t) (renArgs callee f e)
  | .loop b => .loop (renArgs callee f b)
  | .bindCall ts g as => if g = callee then .bindCall ts g (as.map (renE f)) else .bindCall ts g as
  | s => s

/-- exchange the last two of three arguments of the calls to `callee` (`append(b, x, y)` ↦ `append(b, y, x)`;
    `append(b, s...)` ↦ `append(s, b...)` for a two-argument call) -/
def swapArgs (callee : String) : GStmt → GStmt
  | .seq a b => .seq (swapArgs callee a) (swapArgs callee b)
  | .ite c t e => .ite c (swapArgs callee t) (swapArgs callee e)
  | .loop b => .loop (swapArgs callee b)
  | .bindCall ts g [b, x, y] => if g = callee then .bindCall ts g [b, y, x] else .bindCall ts g [b, x, y]
  | .bindCall ts g [x, y] => if g = callee then .bindCall ts g [y, x] else .bindCall ts g [x, y]
  | s => s

/-- apply `f` to every literal of a statement's call arguments -/
def mapLitArgsE (f : Int → GTy → Int) : GExpr → GExpr
  | .lit v t => .lit (f v t) t
  | .var x t => .var x t
  | .call x t => .call x t
  | .conv t e => .conv t (mapLitArgsE f e)
  | .bin op t a b => .bin op t (mapLitArgsE f a) (mapLitArgsE f b)
  | .cmp op a b => .cmp op (mapLitArgsE f a) (mapLitArgsE f b)
  | .not e => .not (mapLitArgsE f e)
  | .and a b => .and (mapLitArgsE f a) (mapLitArgsE f b)
  | .or a b => .or (mapLitArgsE f a) (mapLitArgsE f b)

def mapLitArgs (f : Int → GTy → Int) : GStmt → GStmt
  | .seq a b => .seq (mapLitArgs f a) (mapLitArgs f b)
  | .ite c t e => .ite c (mapLitArgs f t) (mapLitArgs f e)
  | .loop b => .loop (mapLitArgs f b)
  | .bindCall ts g as => .bindCall ts g (as.map (mapLitArgsE f))
  | s => s

def swapNames (a b : String) (x : String) : String := if x = a then b else if x = b then a else x

/-- `crc.init` / `crc.add` are performed, nothing else is answered -/
def sensExt : World := fun _ f _ =>
  if f = "crc.init" then some [] else if f = "crc.add" then some [] else none

/-- the bytes the handle in variable `key` denotes at the end of a run -/
def frameOf (r : Res) (key : String) : Option Bytes :=
  match Env.read r.env key with
  | .int h => if 0 ≤ h then bytesAt r.calls h.toNat else none
  | _ => none

/-- run a core function (term `gs`) for the core call `c`, unit id `unit`; the entry log holds the nil
    slice at handle 0 and the slice argument `arg` at handle 1 -/
def coreRun (gs : GStmt) (unit : Byte) (c : Core) (arg : List Int) : Res :=
  execFromW (sliceWorld sensExt) 64 gs (coreEnvB unit 1 c) [seedInput [], seedInput arg]

/-- the environment of a transport's `assemble…Frame(p)` for the request object a core run built -/
def pduEnv (r : Res) (txn : Int) : Env :=
  [("p.unitId", Env.read r.env "req.unitId"), ("p.functionCode", Env.read r.env "req.functionCode"),
   ("p.payload", Env.read r.env "req.payload"),
   ("len(p.payload)", match frameOf r "req.payload" with | some b => .int (b.length : Int) | none => .unk),
   ("adu", .int 0), ("txnId", .int txn)]

/-- core function, then RTU framing (term `tr`) of what it built: the frame -/
def rtuFrameOf (gs tr : GStmt) (unit : Byte) (c : Core) (arg : List Int) : Option Bytes :=
  let r := coreRun gs unit c arg
  frameOf (execFromW (sliceWorld sensExt) 32 tr (pduEnv r 0) r.calls) "adu"

/-- core function, then MBAP framing with transaction id `txn` -/
def mbapFrameOf (gs tr : GStmt) (unit : Byte) (c : Core) (arg : List Int) (txn : Int) : Option Bytes :=
  let r := coreRun gs unit c arg
  frameOf (execFromW (sliceWorld sensExt) 32 tr (pduEnv r txn) r.calls) "payload"

/-- **textbook frames from the true terms**: read one holding register at 0 from unit 1 -/
theorem C01B_sample_frames :
    rtuFrameOf gsp_ModbusClient_readRegisters gsp_rtuTransport_assembleRTUFrame 1 (.readRegs 0 1 0) [] =
      some [0x01, 0x03, 0x00, 0x00, 0x00, 0x01, 0x84, 0x0A] ∧
    mbapFrameOf gsp_ModbusClient_readRegisters gsp_tcpTransport_assembleMBAPFrame 1 (.readRegs 0 1 0) [] 1 =
      some [0x00, 0x01, 0x00, 0x00, 0x00, 0x06, 0x01, 0x03, 0x00, 0x00, 0x00, 0x01] := by
  decide +kernel

/-- the request payload a core run built -/
def corePayloadOf (gs : GStmt) (unit : Byte) (c : Core) (arg : List Int) : Option Bytes :=
  frameOf (coreRun gs unit c arg) "req.payload"

/-- more frames from the true terms: write coil 0x00AC ON at unit 0x11; write two registers
    (0x000A, 0x0102) at 0x0001, unit 0x11; read 37 coils at 0x0013 -/
theorem C01B_sample_frames_more :
    rtuFrameOf gsp_ModbusClient_WriteCoil gsp_rtuTransport_assembleRTUFrame 0x11 (.writeCoil 0x00AC true) [] =
      some [0x11, 0x05, 0x00, 0xAC, 0xFF, 0x00, 0x4E, 0x8B] ∧
    rtuFrameOf gsp_ModbusClient_writeRegisters gsp_rtuTransport_assembleRTUFrame 0x11
        (.writeRegs 0x0001 [0x00, 0x0A, 0x01, 0x02]) [0x00, 0x0A, 0x01, 0x02] =
      some [0x11, 0x10, 0x00, 0x01, 0x00, 0x02, 0x04, 0x00, 0x0A, 0x01, 0x02, 0xC6, 0xF0] ∧
    rtuFrameOf gsp_ModbusClient_readBools gsp_rtuTransport_assembleRTUFrame 0x11 (.readBools false 0x0013 0x0025) [] =
      some [0x11, 0x01, 0x00, 0x13, 0x00, 0x25, 0x0E, 0x84] ∧
    mbapFrameOf gsp_ModbusClient_WriteRegister gsp_tcpTransport_assembleMBAPFrame 0x11
        (.writeReg .little 0x0001 0x0003) [] 0x1234 =
      some [0x12, 0x34, 0x00, 0x00, 0x00, 0x06, 0x11, 0x06, 0x00, 0x01, 0x03, 0x00] := by
  decide +kernel

/-- byte count `byte(quantity)` instead of `byte(payloadLength)` in `writeRegisters` -/
def vByteCountQuantity : GStmt :=
  renArgs "append" (fun x => if x = "payloadLength" then "quantity" else x) gsp_ModbusClient_writeRegisters
/-- address and quantity exchanged in `readBools` -/
def vAddrQtySwapped : GStmt := renArgs "uint16ToBytes" (swapNames "addr" "quantity") gsp_ModbusClient_readBools
/-- `0x00 0xff` instead of `0xff 0x00` in `WriteCoil` -/
def vCoilBytesSwapped : GStmt := swapArgs "append" gsp_ModbusClient_WriteCoil
/-- unit id and function code exchanged in the MBAP frame -/
def vMbapUnitFcSwapped : GStmt :=
  renArgs "append" (swapNames "p.unitId" "p.functionCode") gsp_tcpTransport_assembleMBAPFrame
/-- MBAP length field `len(p.payload)` instead of `2 + len(p.payload)` -/
def vMbapLenNoHeader : GStmt :=
  mapLitArgs (fun v t => if v = 2 ∧ t = .int then 0 else v) gsp_tcpTransport_assembleMBAPFrame
/-- CRC over the payload only -/
def vCrcPayloadOnly : GStmt :=
  renArgs "crc.add" (fun x => if x = "adu" then "p.payload" else x) gsp_rtuTransport_assembleRTUFrame
/-- CRC appended in front: `append(crc.value(), adu...)` (and every other `append(a, b...)` reversed) -/
def vRtuAppendReversed : GStmt := swapArgs "append..." gsp_rtuTransport_assembleRTUFrame
/-- `WriteUint32s` prepending instead of appending: `payload = append(chunk, payload...)` -/
def vMultiPrepend : GStmt := swapArgs "append..." gsp_ModbusClient_WriteUint32s

/-- the variants differ from the generated terms exactly in the intended calls (leaf texts of the
    arguments; `none` = compound expression) -/
theorem C01B_variants :
    (callTextsOf vByteCountQuantity).filter (fun c => c.1 == "append") =
      [("append", [some "req.payload", none])] ∧
    (callTextsOf vAddrQtySwapped).filter (fun c => c.1 == "uint16ToBytes") =
      [("uint16ToBytes", [none, some "quantity"]), ("uint16ToBytes", [none, some "addr"])] ∧
    (callTextsOf gsp_ModbusClient_readBools).filter (fun c => c.1 == "uint16ToBytes") =
      [("uint16ToBytes", [none, some "addr"]), ("uint16ToBytes", [none, some "quantity"])] ∧
    (callTextsOf vMbapUnitFcSwapped).filter (fun c => c.1 == "append") =
      [("append", [some "payload", none, none]), ("append", [some "payload", some "p.functionCode"]),
       ("append", [some "payload", some "p.unitId"])] ∧
    (callTextsOf vCrcPayloadOnly).filter (fun c => c.1 == "crc.add") = [("crc.add", [some "p.payload"])] ∧
    (callTextsOf gsp_rtuTransport_assembleRTUFrame).filter (fun c => c.1 == "crc.add") =
      [("crc.add", [some "adu"])] ∧
    (callTextsOf vMultiPrepend).filter (fun c => c.1 == "append...") =
      [("append...", [some "#arg0", some "payload"])] := by
  decide +kernel

/-- `byte(quantity)`: the byte count of two registers is 02 instead of 04 -/
theorem C01B_sensitive_byteCount :
    corePayloadOf vByteCountQuantity 0x11 (.writeRegs 0x0001 [0x00, 0x0A, 0x01, 0x02]) [0x00, 0x0A, 0x01, 0x02] =
      some [0x00, 0x01, 0x00, 0x02, 0x02, 0x00, 0x0A, 0x01, 0x02] ∧
    corePayloadOf gsp_ModbusClient_writeRegisters 0x11 (.writeRegs 0x0001 [0x00, 0x0A, 0x01, 0x02])
        [0x00, 0x0A, 0x01, 0x02] =
      some [0x00, 0x01, 0x00, 0x02, 0x04, 0x00, 0x0A, 0x01, 0x02] := by
  decide +kernel

theorem C01B_sensitive_addrQty :
    corePayloadOf vAddrQtySwapped 0x11 (.readBools false 0x0013 0x0025) [] = some [0x00, 0x25, 0x00, 0x13] ∧
    corePayloadOf gsp_ModbusClient_readBools 0x11 (.readBools false 0x0013 0x0025) [] =
      some [0x00, 0x13, 0x00, 0x25] := by
  decide +kernel

theorem C01B_sensitive_coilBytes :
    corePayloadOf vCoilBytesSwapped 0x11 (.writeCoil 0x00AC true) [] = some [0x00, 0xAC, 0x00, 0xFF] ∧
    corePayloadOf gsp_ModbusClient_WriteCoil 0x11 (.writeCoil 0x00AC true) [] = some [0x00, 0xAC, 0xFF, 0x00] ∧
    corePayloadOf gsp_ModbusClient_WriteCoil 0x11 (.writeCoil 0x00AC false) [] = some [0x00, 0xAC, 0x00, 0x00] := by
  decide +kernel

theorem C01B_sensitive_mbap :
    mbapFrameOf gsp_ModbusClient_readRegisters vMbapUnitFcSwapped 1 (.readRegs 0 1 0) [] 1 =
      some [0x00, 0x01, 0x00, 0x00, 0x00, 0x06, 0x03, 0x01, 0x00, 0x00, 0x00, 0x01] ∧
    mbapFrameOf gsp_ModbusClient_readRegisters vMbapLenNoHeader 1 (.readRegs 0 1 0) [] 1 =
      some [0x00, 0x01, 0x00, 0x00, 0x00, 0x04, 0x01, 0x03, 0x00, 0x00, 0x00, 0x01] ∧
    mbapFrameOf gsp_ModbusClient_readRegisters vMbapUnitFcSwapped 1 (.readRegs 0 1 0) [] 1 ≠
      mbapFrameOf gsp_ModbusClient_readRegisters gsp_tcpTransport_assembleMBAPFrame 1 (.readRegs 0 1 0) [] 1 ∧
    mbapFrameOf gsp_ModbusClient_readRegisters vMbapLenNoHeader 1 (.readRegs 0 1 0) [] 1 ≠
      mbapFrameOf gsp_ModbusClient_readRegisters gsp_tcpTransport_assembleMBAPFrame 1 (.readRegs 0 1 0) [] 1 := by
  decide +kernel

theorem C01B_sensitive_crc :
    rtuFrameOf gsp_ModbusClient_readRegisters vCrcPayloadOnly 1 (.readRegs 0 1 0) [] ≠
      rtuFrameOf gsp_ModbusClient_readRegisters gsp_rtuTransport_assembleRTUFrame 1 (.readRegs 0 1 0) [] ∧
    rtuFrameOf gsp_ModbusClient_readRegisters vCrcPayloadOnly 1 (.readRegs 0 1 0) [] =
      some ([0x01, 0x03, 0x00, 0x00, 0x00, 0x01] ++ Crc.crc16 [0x00, 0x00, 0x00, 0x01]) ∧
    rtuFrameOf gsp_ModbusClient_readRegisters vRtuAppendReversed 1 (.readRegs 0 1 0) [] ≠
      rtuFrameOf gsp_ModbusClient_readRegisters gsp_rtuTransport_assembleRTUFrame 1 (.readRegs 0 1 0) [] := by
  decide +kernel

/-- the payload a wrapper hands to `mc.writeRegisters` (entry log: the nil slice at handle 0) -/
def multiPayloadOf (gs : GStmt) (e w : Int) (vals : List Int) : Option Bytes :=
  match (multiRun gs e w vals 0 0 [seedInput []] 40).how with
  | .stoppedAt _ [_, .int h] => if 0 ≤ h then
      bytesAt (multiRun gs e w vals 0 0 [seedInput []] 40).calls h.toNat else none
  | _ => none

theorem C01B_sensitive_multi :
    multiPayloadOf gsp_ModbusClient_WriteUint32s 1 1 [0x01020304, 0x0A0B0C0D] =
      some [0x01, 0x02, 0x03, 0x04, 0x0A, 0x0B, 0x0C, 0x0D] ∧
    multiPayloadOf gsp_ModbusClient_WriteUint32s 1 2 [0x01020304, 0x0A0B0C0D] =
      some [0x03, 0x04, 0x01, 0x02, 0x0C, 0x0D, 0x0A, 0x0B] ∧
    multiPayloadOf gsp_ModbusClient_WriteUint32s 2 2 [0x01020304, 0x0A0B0C0D] =
      some [0x04, 0x03, 0x02, 0x01, 0x0D, 0x0C, 0x0B, 0x0A] ∧
    multiPayloadOf vMultiPrepend 1 1 [0x01020304, 0x0A0B0C0D] =
      some [0x0A, 0x0B, 0x0C, 0x0D, 0x01, 0x02, 0x03, 0x04] ∧
    multiPayloadOf gsp_ModbusClient_WriteRegisters 2 1 [0x0102, 0x0304] = some [0x02, 0x01, 0x04, 0x03] ∧
    multiPayloadOf gsp_ModbusClient_WriteFloat32s 1 1 [0x3F800000] = some [0x3F, 0x80, 0x00, 0x00] ∧
    multiPayloadOf gsp_ModbusClient_WriteUint64s 1 2 [0x0102030405060708] =
      some [0x07, 0x08, 0x05, 0x06, 0x03, 0x04, 0x01, 0x02] := by
  decide +kernel

/-- WITHOUT the probe the leaf `values[#i]` has one value for the whole run: every register is the
    first one — the reason for the instrumentation -/
theorem C01B_sensitive_noProbe :
    (execFromW (sliceWorld (multiExt 1 1 [1, 2])) 40 gsp_ModbusClient_WriteUint32s
      (("values[#i]", .int 1) :: multiEnv 0 2 0) [seedInput []]).how =
      .stoppedAt "mc.writeRegisters" [.int 0, .int 5] ∧
    bytesAt (execFromW (sliceWorld (multiExt 1 1 [1, 2])) 40 gsp_ModbusClient_WriteUint32s
      (("values[#i]", .int 1) :: multiEnv 0 2 0) [seedInput []]).calls 5 =
      some [0, 0, 0, 1, 0, 0, 0, 1] := by
  decide +kernel

/-- `writeBytes` on `01 02 03`: big-endian (or raw): copy + padding, `01 02 03 00`; little-endian with
    `observeEndianness`: the logged element stores turn the padded copy into `02 01 00 03` -/
theorem C01B_sample_writeBytes :
    (let r := execFromW (sliceWorld (wbExt 1 1)) 40 gsp_ModbusClient_writeBytes (wbEnv 0 true 3 1 0)
        [seedInput [], seedInput [1, 2, 3]]
     r.how = .stoppedAt "mc.writeRegisters" [.int 0, .int 4] ∧ bytesAt r.calls 4 = some [1, 2, 3, 0]) ∧
    (let r := execFromW (sliceWorld (wbExt 2 1)) 40 gsp_ModbusClient_writeBytes (wbEnv 0 false 2 1 0)
        [seedInput [], seedInput [1, 2]]
     r.how = .stoppedAt "mc.writeRegisters" [.int 0, .int 3] ∧ bytesAt r.calls 3 = some [1, 2]) ∧
    (let r := execFromW (sliceWorld (wbStoreExt 1 [1, 2, 3, 0])) 40 wbGs (wbEnv 0 true 3 1 0)
        [seedInput [], seedInput [1, 2, 3]]
     r.how = .stoppedAt "mc.writeRegisters" [.int 0, .int 4] ∧ bytesAt r.calls 4 = some [1, 2, 3, 0] ∧
     storeOf [1, 2, 3, 0] r.calls = [2, 1, 0, 3] ∧ swapPairs [1, 2, 3, 0] = some [2, 1, 0, 3]) := by
  decide +kernel

end sensitivity

end Modbus.Props.C01

#print axioms Modbus.Props.C01.C01B_mbap_frame
#print axioms Modbus.Props.C01.C01B_mbap_frame_small
#print axioms Modbus.Props.C01.C01B_rtu_frame
#print axioms Modbus.Props.C01.C01B_core_payloads
#print axioms Modbus.Props.C01.C01B_core_payloads_spelled
#print axioms Modbus.Props.C01.C01B_request_shapes
#print axioms Modbus.Props.C01.C01B_WriteRegister_any
#print axioms Modbus.Props.C01.C01B_multi_instr
#print axioms Modbus.Props.C01.C01B_multi_payloads
#print axioms Modbus.Props.C01.C01B_multi_model
#print axioms Modbus.Props.C01.C01B_multi_compose
#print axioms Modbus.Props.C01.C01B_writeBytes
#print axioms Modbus.Props.C01.C01B_stale_len_harmless
#print axioms Modbus.Props.C01.C01B_writeBytes_le
#print axioms Modbus.Props.C01.C01B_writeBytes_model
#print axioms Modbus.Props.C01.C01B_sample_frames
#print axioms Modbus.Props.C01.C01B_sample_frames_more
#print axioms Modbus.Props.C01.C01B_variants
#print axioms Modbus.Props.C01.C01B_sensitive_byteCount
#print axioms Modbus.Props.C01.C01B_sensitive_addrQty
#print axioms Modbus.Props.C01.C01B_sensitive_coilBytes
#print axioms Modbus.Props.C01.C01B_sensitive_mbap
#print axioms Modbus.Props.C01.C01B_sensitive_crc
#print axioms Modbus.Props.C01.C01B_sensitive_multi
#print axioms Modbus.Props.C01.C01B_sensitive_noProbe
#print axioms Modbus.Props.C01.C01B_sample_writeBytes
