import ModbusVerif.Props.C06Odd
import ModbusVerif.Props.C06Client
import ModbusVerif.Props.C06Exception
/-
  C06, client part (continued) — end-to-end rejection of RTU replies corrupted by the two error
  classes of `Props/C06Odd.lean`:

    * an ODD number of flipped bits, anywhere in the frame (any frame length), and
    * 1, 2 or 3 flipped bits, anywhere in the frame (frames of at most 256 bytes; the bound comes
      from `Rtu.Consistent res`, as for the double-bit errors of `C06_corruption_never_success`).

    OddOrUpToThree e := weight e % 2 = 1 ∨ (1 ≤ weight e ∧ weight e ≤ 3)
    weight e         := e.count true        (`C06Odd.weight`)

  The statements mirror those of `Props/C06Client.lean` (positive replies: `Answers c cfg res`,
  anything may follow the corrupted frame) and of `Props/C06Exception.lean` (exception replies:
  `ExceptionAnswer c cfg res`, the corrupted frame is received alone), with `BurstOrDouble e`
  replaced by `OddOrUpToThree e`.

  Model under test: `Client.Core.exchange` / `Client.Op.run` over `Rtu.readFrame`+`Rtu.afterRead`.
  Core Lean only; no axioms beyond propext / Classical.choice / Quot.sound.
-/
namespace Modbus.Props.C06OddClient
open Modbus Modbus.Crc Modbus.Client Modbus.Props.C06

/-- the two error classes of `Props/C06Odd.lean`: an odd number of flipped bits, or 1..3 flipped
    bits -/
def OddOrUpToThree (e : List Bool) : Prop :=
  C06Odd.weight e % 2 = 1 ∨ (1 ≤ C06Odd.weight e ∧ C06Odd.weight e ≤ 3)

/-! ### positive replies -/

/-- a reply frame hit by an error pattern with an odd number of flipped bits, or with 1, 2 or 3
    flipped bits, never yields a success and never a panic: the call returns an error, whatever
    follows on the line (`post`) and however the stream ends (`en`).
    (`Rtu.Consistent res` is implied by `Answers`; see `Answers.consistent`.) -/
theorem C06O_corruption_never_success {c : Core} {cfg : Cfg} {st : TState} {res : Pdu}
    {e : List Bool} (post : Bytes) (en : Ending)
    (hk : cfg.kind.isRtu = true) (hp : st.pending = []) (ha : Answers c cfg res)
    (hc : Rtu.Consistent res)
    (hlen : e.length = 8 * (Rtu.assemble res).length) (he : OddOrUpToThree e) :
    ∃ err, (c.exchange cfg st (applyErr (Rtu.assemble res) e ++ post) en).result =
      some (.error err) := by
  apply exchange_rejects_crc_fail post en hk hp ha (applyErr_length _ _)
  rcases he with hodd | hw
  · exact C06Odd.odd_weight_detected _ e (Rtu.crcOk_assemble res) hlen hodd
  · refine C06Odd.upto_three_bits_detected _ e (Rtu.crcOk_assemble res) hlen ?_ hw
    rw [Rtu.length_assemble]; exact hc.2.2

/-- ... in particular the result is neither a success nor a panic -/
theorem C06O_corruption_not_ok_not_panic {c : Core} {cfg : Cfg} {st : TState} {res : Pdu}
    {e : List Bool} (post : Bytes) (en : Ending)
    (hk : cfg.kind.isRtu = true) (hp : st.pending = []) (ha : Answers c cfg res)
    (hc : Rtu.Consistent res)
    (hlen : e.length = 8 * (Rtu.assemble res).length) (he : OddOrUpToThree e) :
    (∀ raw, (c.exchange cfg st (applyErr (Rtu.assemble res) e ++ post) en).result ≠ some (.ok raw)) ∧
    (c.exchange cfg st (applyErr (Rtu.assemble res) e ++ post) en).result ≠ none := by
  obtain ⟨err, h⟩ := C06O_corruption_never_success post en hk hp ha hc hlen he
  rw [h]
  exact ⟨fun raw hh => (by cases hh), fun hh => (by cases hh)⟩

/-- at the level of the public methods: every read/write method whose core call is `c` returns
    an error -/
theorem C06O_corruption_never_success_public {op : Op} {c : Core} {cfg : Cfg} {st : TState}
    {res : Pdu} {e : List Bool} (post : Bytes) (en : Ending)
    (hop : op.core cfg = some c)
    (hk : cfg.kind.isRtu = true) (hp : st.pending = []) (ha : Answers c cfg res)
    (hc : Rtu.Consistent res)
    (hlen : e.length = 8 * (Rtu.assemble res).length) (he : OddOrUpToThree e) :
    ∃ err, (op.run cfg st (applyErr (Rtu.assemble res) e ++ post) en).result =
      some (.error err) := by
  obtain ⟨err, h⟩ := C06O_corruption_never_success post en hk hp ha hc hlen he
  exact ⟨err, run_result_of_exchange_error hop h⟩

/-! ### exception replies -/

/-- the corrupted exception frame fails the whole-frame CRC check -/
theorem exception_corrupted_crc_fail_odd {c : Core} {cfg : Cfg} {res : Pdu} {e : List Bool}
    (ha : ExceptionAnswer c cfg res) (hlen : e.length = 40) (he : OddOrUpToThree e) :
    crcOk (applyErr (Rtu.assemble res) e) = false := by
  have h5 := ha.length_frame
  have hlen' : e.length = 8 * (Rtu.assemble res).length := by rw [h5, hlen]
  rcases he with hodd | hw
  · exact C06Odd.odd_weight_detected _ e (Rtu.crcOk_assemble res) hlen' hodd
  · exact C06Odd.upto_three_bits_detected _ e (Rtu.crcOk_assemble res) hlen'
      (by rw [h5]; decide) hw

/-- a valid exception reply (any of the 8 request codes, any of the 256 exception codes, from the
    addressed unit or from unit 255) hit by an error pattern with an odd number of flipped bits,
    or with 1, 2 or 3 flipped bits, received as the reply of the exchange (nothing pending before,
    nothing following it), never yields a success and never a panic: the call returns an error,
    however the stream ends (`en`: timeout / EOF / reset). -/
theorem C06O_exception_corruption_never_success {c : Core} {cfg : Cfg} {st : TState} {res : Pdu}
    {e : List Bool} (en : Ending)
    (hk : cfg.kind.isRtu = true) (hp : st.pending = []) (ha : ExceptionAnswer c cfg res)
    (hlen : e.length = 40) (he : OddOrUpToThree e) :
    ∃ err, (c.exchange cfg st (applyErr (Rtu.assemble res) e) en).result = some (.error err) := by
  obtain ⟨code, fc, payload, hreq, _⟩ := id ha
  obtain ⟨err, h, _⟩ := exchange_rejects_five_crc_fail (c := c) (cfg := cfg) (st := st) en hk hp hreq
    (by rw [applyErr_length]; exact ha.length_frame) (exception_corrupted_crc_fail_odd ha hlen he)
  exact ⟨err, h⟩

/-- ... more precisely the transport rejects it (the corrupted bytes never reach the validation):
    the error is ErrBadCRC, ErrProtocolError, ErrShortFrame, or the error of the stream ending
    (ErrRequestTimedOut after a timeout) -/
theorem C06O_exception_corruption_error_class {c : Core} {cfg : Cfg} {st : TState} {res : Pdu}
    {e : List Bool} (en : Ending)
    (hk : cfg.kind.isRtu = true) (hp : st.pending = []) (ha : ExceptionAnswer c cfg res)
    (hlen : e.length = 40) (he : OddOrUpToThree e) :
    ∃ err, (c.exchange cfg st (applyErr (Rtu.assemble res) e) en).result = some (.error err) ∧
      (err = .badCRC ∨ err = .protocolError ∨ err = .shortFrame ∨
       err = (if en.err = .ioTimeout then .requestTimedOut else en.err)) := by
  obtain ⟨code, fc, payload, hreq, _⟩ := id ha
  exact exchange_rejects_five_crc_fail (c := c) (cfg := cfg) (st := st) en hk hp hreq
    (by rw [applyErr_length]; exact ha.length_frame) (exception_corrupted_crc_fail_odd ha hlen he)

/-- ... in particular the result is neither a success nor a panic -/
theorem C06O_exception_corruption_not_ok_not_panic {c : Core} {cfg : Cfg} {st : TState}
    {res : Pdu} {e : List Bool} (en : Ending)
    (hk : cfg.kind.isRtu = true) (hp : st.pending = []) (ha : ExceptionAnswer c cfg res)
    (hlen : e.length = 40) (he : OddOrUpToThree e) :
    (∀ raw, (c.exchange cfg st (applyErr (Rtu.assemble res) e) en).result ≠ some (.ok raw)) ∧
    (c.exchange cfg st (applyErr (Rtu.assemble res) e) en).result ≠ none := by
  obtain ⟨err, h⟩ := C06O_exception_corruption_never_success en hk hp ha hlen he
  rw [h]
  exact ⟨fun raw hh => (by cases hh), fun hh => (by cases hh)⟩

/-- the same at the level of the public methods: every read/write method whose core call is `c`
    returns an error -/
theorem C06O_exception_corruption_never_success_public {op : Op} {c : Core} {cfg : Cfg}
    {st : TState} {res : Pdu} {e : List Bool} (en : Ending) (hop : op.core cfg = some c)
    (hk : cfg.kind.isRtu = true) (hp : st.pending = []) (ha : ExceptionAnswer c cfg res)
    (hlen : e.length = 40) (he : OddOrUpToThree e) :
    ∃ err, (op.run cfg st (applyErr (Rtu.assemble res) e) en).result = some (.error err) := by
  obtain ⟨err, h⟩ := C06O_exception_corruption_never_success en hk hp ha hlen he
  exact ⟨err, run_result_of_exchange_error hop h⟩

/-- for the whole family of valid replies (`C06X_valid_replies_cover`): a valid reply to the
    request — positive or exception — hit by an error pattern with an odd number of flipped bits,
    or with 1, 2 or 3 flipped bits, and received as the reply of the exchange is never reported as
    success, and never panics -/
theorem C06O_any_valid_reply_corruption_never_success {c : Core} {cfg : Cfg} {st : TState}
    {res : Pdu} {e : List Bool} (en : Ending)
    (hk : cfg.kind.isRtu = true) (hp : st.pending = [])
    (ha : Answers c cfg res ∨ ExceptionAnswer c cfg res)
    (hlen : e.length = 8 * (Rtu.assemble res).length) (he : OddOrUpToThree e) :
    ∃ err, (c.exchange cfg st (applyErr (Rtu.assemble res) e) en).result = some (.error err) := by
  rcases ha with ha | ha
  · have h := C06O_corruption_never_success [] en hk hp ha ha.consistent hlen he
    rwa [List.append_nil] at h
  · exact C06O_exception_corruption_never_success en hk hp ha
      (by rw [hlen, ha.length_frame]) he

/-! ### non-vacuity, positive reply: request / reply of `Props/C06Client.lean`
    (`exCfg`: RTU, unit 1; `exReq`: read 2 holding registers at 0; `exReply` = 01 03 04 20 f0 12 34
    + CRC fc b7, 9 bytes = 72 bits) -/

/-- three flipped bits in three different bytes: frame bits 3 (unit id), 34 (payload) and 60
    (CRC low byte) -/
def exTriple : List Bool :=
  zeros 3 ++ [true] ++ zeros 30 ++ [true] ++ zeros 25 ++ [true] ++ zeros 11

/-- five flipped bits: frame bits 1, 11, 24, 45 and 61 -/
def exQuint : List Bool :=
  zeros 1 ++ [true] ++ zeros 9 ++ [true] ++ zeros 12 ++ [true] ++ zeros 20 ++ [true] ++
    zeros 15 ++ [true] ++ zeros 10

example : exTriple.length = 8 * (Rtu.assemble exReply).length ∧ C06Odd.weight exTriple = 3 ∧
    exQuint.length = 8 * (Rtu.assemble exReply).length ∧ C06Odd.weight exQuint = 5 := by
  decide +kernel

example : OddOrUpToThree exTriple := Or.inr (by decide +kernel)
example : OddOrUpToThree exTriple := Or.inl (by decide +kernel)
example : OddOrUpToThree exQuint := Or.inl (by decide +kernel)
-- weight 5 is in the first class only
example : ¬ (1 ≤ C06Odd.weight exQuint ∧ C06Odd.weight exQuint ≤ 3) := by decide +kernel

example : applyErr (Rtu.assemble exReply) exTriple =
    [0x09, 0x03, 0x04, 0x20, 0xf4, 0x12, 0x34, 0xec, 0xb7] := by decide +kernel
example : applyErr (Rtu.assemble exReply) exQuint =
    [0x03, 0x0b, 0x04, 0x21, 0xf0, 0x32, 0x34, 0xdc, 0xb7] := by decide +kernel

example : Answers exReq exCfg exReply ∧ Rtu.Consistent exReply :=
  ⟨⟨.bytes [0x20, 0xf0, 0x12, 0x34], 0x03, [0, 0, 0, 2], by decide, rfl, by decide⟩, by decide⟩

-- weight 3, via the theorem (second class), something following on the line, stream ends in EOF
example : ∃ err, (exReq.exchange exCfg ⟨0, []⟩
    (applyErr (Rtu.assemble exReply) exTriple ++ [0xaa]) .eof).result = some (.error err) :=
  C06O_corruption_never_success [0xaa] .eof rfl rfl
    ⟨.bytes [0x20, 0xf0, 0x12, 0x34], 0x03, [0, 0, 0, 2], by decide, rfl, by decide⟩ (by decide)
    (by decide +kernel) (Or.inr (by decide +kernel))

-- ... and what direct evaluation gives
example : (exReq.exchange exCfg ⟨0, []⟩
    (applyErr (Rtu.assemble exReply) exTriple ++ [0xaa]) .eof).result =
    some (.error .badCRC) := by decide +kernel

-- weight 5, via the theorem (first class)
example : ∃ err, (exReq.exchange exCfg ⟨0, []⟩
    (applyErr (Rtu.assemble exReply) exQuint ++ [0xaa]) .timeout).result = some (.error err) :=
  C06O_corruption_never_success [0xaa] .timeout rfl rfl
    ⟨.bytes [0x20, 0xf0, 0x12, 0x34], 0x03, [0, 0, 0, 2], by decide, rfl, by decide⟩ (by decide)
    (by decide +kernel) (Or.inl (by decide +kernel))

example : (exReq.exchange exCfg ⟨0, []⟩
    (applyErr (Rtu.assemble exReply) exQuint ++ [0xaa]) .timeout).result =
    some (.error .protocolError) := by decide +kernel

-- neither success nor panic, weight 3
example : (∀ raw, (exReq.exchange exCfg ⟨0, []⟩
      (applyErr (Rtu.assemble exReply) exTriple ++ [0xaa]) .eof).result ≠ some (.ok raw)) ∧
    (exReq.exchange exCfg ⟨0, []⟩
      (applyErr (Rtu.assemble exReply) exTriple ++ [0xaa]) .eof).result ≠ none :=
  C06O_corruption_not_ok_not_panic [0xaa] .eof rfl rfl
    ⟨.bytes [0x20, 0xf0, 0x12, 0x34], 0x03, [0, 0, 0, 2], by decide, rfl, by decide⟩ (by decide)
    (by decide +kernel) (Or.inr (by decide +kernel))

-- the public method ReadRegisters(0, 2, HOLDING_REGISTER), weight 3 and weight 5
example : (Op.readRegisters 0 2 0).core exCfg = some exReq := by decide

example : ∃ err, ((Op.readRegisters 0 2 0).run exCfg ⟨0, []⟩
    (applyErr (Rtu.assemble exReply) exTriple ++ [0xaa]) .eof).result = some (.error err) :=
  C06O_corruption_never_success_public (c := exReq) [0xaa] .eof (by decide) rfl rfl
    ⟨.bytes [0x20, 0xf0, 0x12, 0x34], 0x03, [0, 0, 0, 2], by decide, rfl, by decide⟩ (by decide)
    (by decide +kernel) (Or.inr (by decide +kernel))

example : ∃ err, ((Op.readRegisters 0 2 0).run exCfg ⟨0, []⟩
    (applyErr (Rtu.assemble exReply) exQuint ++ []) .reset).result = some (.error err) :=
  C06O_corruption_never_success_public (c := exReq) [] .reset (by decide) rfl rfl
    ⟨.bytes [0x20, 0xf0, 0x12, 0x34], 0x03, [0, 0, 0, 2], by decide, rfl, by decide⟩ (by decide)
    (by decide +kernel) (Or.inl (by decide +kernel))

/-! ### non-vacuity, exception reply: request / reply of `Props/C06Exception.lean`
    (`xCfg`: RTU, unit 1; `xReq`: read 1 holding register at 0; `xExc` = 01 83 02 + CRC c0 f1,
    5 bytes = 40 bits) -/

/-- three flipped bits: frame bits 15 (0x83 → 0x03), 17 (code 02 → 00) and 28 (CRC low byte) -/
def xTriple : List Bool :=
  zeros 15 ++ [true] ++ zeros 1 ++ [true] ++ zeros 10 ++ [true] ++ zeros 11

/-- five flipped bits: frame bits 2, 8, 17, 24 and 34 -/
def xQuint : List Bool :=
  zeros 2 ++ [true] ++ zeros 5 ++ [true] ++ zeros 8 ++ [true] ++ zeros 6 ++ [true] ++
    zeros 9 ++ [true] ++ zeros 5

example : xTriple.length = 40 ∧ C06Odd.weight xTriple = 3 ∧
    xQuint.length = 40 ∧ C06Odd.weight xQuint = 5 := by decide +kernel

example : OddOrUpToThree xTriple := Or.inr (by decide +kernel)
example : OddOrUpToThree xQuint := Or.inl (by decide +kernel)

example : applyErr (Rtu.assemble xExc) xTriple = [0x01, 0x03, 0x00, 0xd0, 0xf1] := by
  decide +kernel
example : applyErr (Rtu.assemble xExc) xQuint = [0x05, 0x82, 0x00, 0xc1, 0xf5] := by
  decide +kernel

example : ExceptionAnswer xReq xCfg xExc :=
  ⟨0x02, 0x03, [0, 0, 0, 1], by decide, by decide, rfl, Or.inl rfl⟩

-- weight 3, via the theorem (second class)
example : ∃ err, (xReq.exchange xCfg ⟨0, []⟩ (applyErr (Rtu.assemble xExc) xTriple) .timeout).result =
    some (.error err) :=
  C06O_exception_corruption_never_success .timeout rfl rfl
    ⟨0x02, 0x03, [0, 0, 0, 1], by decide, by decide, rfl, Or.inl rfl⟩ (by decide +kernel)
    (Or.inr (by decide +kernel))

example : (xReq.exchange xCfg ⟨0, []⟩ (applyErr (Rtu.assemble xExc) xTriple) .timeout).result =
    some (.error .badCRC) := by decide +kernel

-- weight 5, via the theorem (first class)
example : ∃ err, (xReq.exchange xCfg ⟨0, []⟩ (applyErr (Rtu.assemble xExc) xQuint) .eof).result =
    some (.error err) :=
  C06O_exception_corruption_never_success .eof rfl rfl
    ⟨0x02, 0x03, [0, 0, 0, 1], by decide, by decide, rfl, Or.inl rfl⟩ (by decide +kernel)
    (Or.inl (by decide +kernel))

example : (xReq.exchange xCfg ⟨0, []⟩ (applyErr (Rtu.assemble xExc) xQuint) .eof).result =
    some (.error .badCRC) := by decide +kernel

-- the public method ReadRegisters(0, 1, HOLDING_REGISTER)
example : (Op.readRegisters 0 1 0).core xCfg = some xReq := by decide

example : ∃ err, ((Op.readRegisters 0 1 0).run xCfg ⟨0, []⟩
    (applyErr (Rtu.assemble xExc) xTriple) .timeout).result = some (.error err) :=
  C06O_exception_corruption_never_success_public (c := xReq) .timeout (by decide) rfl rfl
    ⟨0x02, 0x03, [0, 0, 0, 1], by decide, by decide, rfl, Or.inl rfl⟩ (by decide +kernel)
    (Or.inr (by decide +kernel))

example : ∃ err, ((Op.readRegisters 0 1 0).run xCfg ⟨0, []⟩
    (applyErr (Rtu.assemble xExc) xQuint) .reset).result = some (.error err) :=
  C06O_exception_corruption_never_success_public (c := xReq) .reset (by decide) rfl rfl
    ⟨0x02, 0x03, [0, 0, 0, 1], by decide, by decide, rfl, Or.inl rfl⟩ (by decide +kernel)
    (Or.inl (by decide +kernel))

-- the family theorem on both kinds of base frame
example : ∃ err, (exReq.exchange exCfg ⟨0, []⟩ (applyErr (Rtu.assemble exReply) exQuint) .eof).result =
    some (.error err) :=
  C06O_any_valid_reply_corruption_never_success .eof rfl rfl
    (Or.inl ⟨.bytes [0x20, 0xf0, 0x12, 0x34], 0x03, [0, 0, 0, 2], by decide, rfl, by decide⟩)
    (by decide +kernel) (Or.inl (by decide +kernel))

example : ∃ err, (xReq.exchange xCfg ⟨0, []⟩ (applyErr (Rtu.assemble xExc) xTriple) .eof).result =
    some (.error err) :=
  C06O_any_valid_reply_corruption_never_success .eof rfl rfl
    (Or.inr ⟨0x02, 0x03, [0, 0, 0, 1], by decide, by decide, rfl, Or.inl rfl⟩)
    (by decide +kernel) (Or.inr (by decide +kernel))

end Modbus.Props.C06OddClient

#print axioms Modbus.Props.C06OddClient.C06O_corruption_never_success
#print axioms Modbus.Props.C06OddClient.C06O_corruption_not_ok_not_panic
#print axioms Modbus.Props.C06OddClient.C06O_corruption_never_success_public
#print axioms Modbus.Props.C06OddClient.exception_corrupted_crc_fail_odd
#print axioms Modbus.Props.C06OddClient.C06O_exception_corruption_never_success
#print axioms Modbus.Props.C06OddClient.C06O_exception_corruption_error_class
#print axioms Modbus.Props.C06OddClient.C06O_exception_corruption_not_ok_not_panic
#print axioms Modbus.Props.C06OddClient.C06O_exception_corruption_never_success_public
#print axioms Modbus.Props.C06OddClient.C06O_any_valid_reply_corruption_never_success
