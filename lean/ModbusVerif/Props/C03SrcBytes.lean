import ModbusVerif.Lemmas.GoEvalSrvBytesLemmas
import ModbusVerif.Props.C03Src
import ModbusVerif.Props.C01SrcBytes
/-
  C03, source tie for the CONSTRUCTION OF THE BYTES of a response.

  Props/C03.lean proves the property about the hand-written model `Server.handle` / `Server.run` (Model/Server.lean);
  Props/C03Src.lean ties validation, handler dispatch and the exception paths of ONE iteration of the request loop
  of server.go `handleTransport` (typed rendering `Gen.gs_ModbusServer_handleTransport`) to the model, and says
  what it does NOT cover: the construction of the response payload bytes. Here those BYTES are tied. The richer
  rendering `Gen.gsp_ModbusServer_handleTransport` (regenerated from /repo on every run: every `append`,
  `[]byte{…}` and codec call is a call statement) is EVALUATED by `Modbus.GoEval` against the byte-string world
  `sliceWorld` (Lemmas/GoEvalBytesLemmas.lean) and the response object reaching `t.WriteResponse(res)` is proved
  equal to the model's response PDU FOR ALL request PDUs AND ALL handler answers.
  No NEW disagreement between source and model was found (F8 — a handler returning `ErrProtocolError` makes the
  server close the connection without a response — is reproduced on both sides, as recorded).

  ## Setting (definitions in Lemmas/GoEvalSrvBytesLemmas.lean, read its header)
  * term        `srvGsB` = the generated term with the removable element-store pseudo-calls (`withStore0`, below);
                `C03B_instr`: stripping them gives `gsp_ModbusServer_handleTransport` back.
  * environment `reqEnvBOf hnil unit fc payload a0 q0 n` = `Srv.reqEnvL` of C03Src (leaves of the decoded request;
                `req.payload[i]` for i < len only; `addr`, `quantity` ARBITRARY left-overs `a0`, `q0`; `len(coils)` =
                `len(regs)` = `n`; composite literals as symbols; `res = nil`) + `res.payload` = handle `hnil`.
  * entry log   `cs0` with `SeedsB cs0 hnil hres l`: handle `hnil` holds the empty slice, handle `hres` the object `l`
                (ANY list of integers: the elements of the slice the handler returns — read as booleans `≠ 0` by
                `encodeBools`, as 16-bit words by `uint16sToBytes`), no handler call logged yet
                (`seedsB_canonical`: `[seedInput [], seedInput l]`, handles 0 and 1).
  * world       `sliceWorld (srvExtB payload hres herr)`: slice-producing callees by the handle device;
                `t.ReadRequest ↦ (req, nil)`; `bytesToUint16(BIG_ENDIAN, req.payload[0:2] | [2:4])` ↦ `mk16` of the two
                bytes (as in C03Src); the four handler methods ↦ `(handle hres, herr)`, `herr = symOfErr oe`
                (`"nil"` or `errSym e`, the symbol of C03Src); `mapErrorToExceptionCode(err)` ↦ the value computed by
                EVALUATING the generated `gs_mapErrorToExceptionCode` (`mapCodeVal`; `mapCodeVal_errSym`: it is
                `Server.mapError e` for every error `e`); `t.Close`, `t.WriteResponse` undefined: the run is cut there.
  * observation `builtB r = (handler calls in the log, builtAction r)`; `builtAction`: `t.Close()` reached ↦ `close`;
                `t.WriteResponse(res)` reached ↦ `respond ⟨res.unitId, res.functionCode, bytesAt log res.payload⟩`
                (field values from the final environment, both within 0..255).

  ## What is proved (every unit id, function code, payload of length < 2^62, left-overs, `l`, `oe`, fuel ≥ 80)
  1. `C03B_response_bytes`   with a model handler `h`, state `st` such that for the valid class the model's handler
        result is the one presented (`hans : invoke h st r = resB (isBitsFc fc) l oe`):
        `builtB run = (the call the model makes, some (Server.handle h st ⟨unit, fc, payload⟩).2.2)` — the action of
        the function `Server.run` (Props/C03.lean) is built from. `C03B_response_bytes_of_model`: the same with `l`, `oe`
        READ OFF the model handler's own result (`presentB`). `C03B_response_classified`: the same without a handler
        model, against `expectB` (class of `Spec.classify` × answer); `expectB_model` relates the two.
        `C03B_reply_shapes` spells the response out (`replyB`), for the eight served function codes:
          read coils / discrete inputs, result of the requested length n:  fc, `[byte(n/8 (+1 if n%8≠0))] ++ Enc.encodeBools result`
          read holding / input registers, result of the requested length n: fc, `[byte(2·n)] ++ Enc.uint16sToBytes .big result`
          result of another length:                                         fc|0x80, `[0x04]` (exServerDeviceFailure)
          write single coil / register, write multiple coils / registers:    fc, `payload[0..3]` (address + value /
                                                                             address + quantity, rebuilt from the decoded fields)
          handler error e ≠ ErrProtocolError:                                fc|0x80, `[Server.mapError e]`
          handler error ErrProtocolError (F8):                               connection closed, no response
        and `res.unitId` is the request's unit id in every response.
  2. `C03B_exception_bytes`  PDUs that are not valid: no handler call is logged (although the world would answer it),
        the model makes none, and both do `invalidAction`: malformed ↦ close (no response); address range past 0xFFFF ↦
        `fc|0x80, [0x02]`; unsupported function code ↦ `fc|0x80, [0x01]`. `C03B_exception_causes`: unsupported code, wrong
        size, zero / over-limit quantity, range, invalid coil value, inconsistent byte count — as classes of `Spec.classify`.
  3. `C03B_frame`, `C03B_frame_model`  the generated `assembleMBAPFrame` (Props/C01SrcBytes.lean `C01B_mbap_frame`) run on
        the FINAL LOG of the iteration with `p.payload`, `p.unitId`, `p.functionCode` := the values of `res.payload`,
        `res.unitId`, `res.functionCode` and `txnId` := `txn` returns the handle of exactly `Mbap.assemble txn p`, `p`
        the model's response PDU — what `Server.runAux` emits. That `WriteResponse` calls
        `tt.assembleMBAPFrame(tt.lastTxnId, res)` and that `tt.lastTxnId` holds the id of the request just read at that
        point is Props/C03SrcTransport.lean (`C03T_writeResponse`, `C03T_echo`; cited, not imported).
  4. static (`decide +kernel`): `C03B_static_ops` (the operations on `res` of each `switch` arm and of the tail, in
        program order, with their argument texts), `C03B_static_cover` (there are no others), `C03B_static_req_untouched`
        (no `req.…` leaf is ever assigned; `req` itself only by `t.ReadRequest()` and `req = nil`), `C03B_static_stores`.
  5. sensitivity: `C03B_variants` / `C03B_sensitive` — six variants DERIVED from the generated term (byte count from
        the requested quantity, registers and coils; exception function code without `| 0x80`; registers little-endian;
        value bytes of the fc-5 echo exchanged; fc-16 echo with the address twice) differ from it in the intended
        operation only and give different bytes; `C03B_sample_runs`, `C03B_sample_coils`, `C03B_sample_exceptions`,
        `C03B_sample_wire`: textbook runs of the generated term (`03 00 6B 00 03` with `022B 0000 0064` ↦
        `03 06 02 2B 00 00 00 64`, on the wire `00 01 00 00 00 09 11 03 06 …`; `01 00 13 00 13` with 19 coils ↦
        `01 03 CD 6B 05`; …).

  ## What is MODELLED rather than derived from the generated term
  * THE HANDLE DEVICE and the MODEL CODECS of Lemmas/GoEvalBytesLemmas.lean: `append` = concatenation into a fresh
    object; `uint16ToBytes`, `encodeBools`, `uint16sToBytes` are interpreted by `Enc.*` (source codecs tied in
    Props/C17Src.lean); `bytesToUint16` by `mk16` (as in C03Src).
  * ELEMENT STORES. `res.payload[0] = uint8(…)` / `res.payload[0]++` assign an element of `[]byte{0}`; the rendering
    has an assignment to the text leaf `res.payload[0]`. `withStore0` adds after each the pseudo-call
    `res.payload = bytes [res.payload[0]]` (the one-element slice now holds that value). Justified by
    `C03B_static_ops`: in both read arms the stores come between `res.payload = []byte{0}` and the `append`.
    Without it the byte count would stay 0 in the evaluator.
  * `res.payload` AT ENTRY is the empty slice (the `&pdu{unitId: …, functionCode: …}` literal of the write arms has
    no `payload:` field; the translator emits assignments for the listed fields only). Over SEVERAL rounds in one
    environment the key would keep the previous response's handle (`C03B_caveat_stale_payload`): every theorem here
    is about one iteration; a faithful multi-round run has to re-bind it per round.
  * text-keyed leaves as in C03Src: `req.functionCode`, `req.unitId`, `len(req.payload)`, `req.payload[i]`,
    `len(coils)` / `len(regs)` (= the length of the seeded result) are bound in the entry environment for the whole
    iteration; `req` is assigned only at the loop head and behind the cut (`C03B_static_req_untouched`).
  * the handler's answer is a parameter (`hres`, `herr`); error values are the symbols `errSym e` of C03Src (the
    server only compares `err` with `nil` and `ErrProtocolError`; `mapErrorToExceptionCode` compares with the nine
    constants: evaluated, not assumed).
  * COMPOSITION in 3.: the callee's entry environment is formed from the caller's values.
-/
set_option linter.unusedSimpArgs false
set_option linter.unusedVariables false
set_option maxRecDepth 100000

namespace Modbus.Props.C03
open Modbus Modbus.Gen Modbus.GoEval Modbus.GoEval.Srv Modbus.GoEval.SrvB Modbus.Server

/-- the evaluated term is the generated one plus the element-store pseudo-calls, and nothing else -/
theorem C03B_instr :
    srvGsB = withStore0 "res.payload" "res.payload[0]" gsp_ModbusServer_handleTransport ∧
    stripStore0 "res.payload" "res.payload[0]" srvGsB = gsp_ModbusServer_handleTransport ∧
    srvGsB = frameWithB armB12 armB5 armB15 armB34 armB6 armB16 armBDef srvTailB :=
  ⟨rfl, srvB_strip, srvB_frame⟩

/-! ## the handler's answer, the model's reply -/

/-- the value of `err` the handler returns: `nil`, or the symbol of the error (C03Src `errSym`) -/
def symOfErr : Option Err → String
  | none => "nil"
  | some e => errSym e

/-- the generated `mapErrorToExceptionCode`, evaluated on the symbol of ANY error value, returns the model's
    `Server.mapError` (nine constants, everything else — other modbus.go constants, non-modbus errors — the default 4) -/
theorem mapCodeVal_errSym (e : Err) : mapCodeVal (.sym (errSym e)) = .int ((mapError e).toNat : Int) := by
  cases e <;> first | decide +kernel | (show mapCodeVal (.sym "unknown-exception") = .int 4; decide +kernel)

/-- the handler result a run is given, as a model value: the error if there is one, else the slice `l` read as
    booleans (`≠ 0`; bit handlers) or as 16-bit words (register handlers) -/
def resB (bits : Bool) (l : List Int) : Option Err → Spec.HResult
  | some e => .error e
  | none => if bits then .bits (boolsOfInts l) else .regs (u16sOfInts l)

/-- the model's action after the handler returned, spelled with the model codecs (`replyB_eq`: it is what
    `Server.handle` does; `C03B_reply_shapes`: case by case) -/
def replyB (req : Pdu) (r : HReq) : Spec.HResult → Action
  | .error e => onError req e
  | .bits l =>
    if Spec.isWrite r then .respond { unit := req.unit, fc := req.fc, payload := req.payload.take 4 }
    else if l.length = (Spec.qtyOf r).toNat then
      .respond { unit := req.unit, fc := req.fc,
                 payload := byteOfNat (l.length / 8 + (if l.length % 8 ≠ 0 then 1 else 0)) :: Enc.encodeBools l }
    else exception req 0x04
  | .regs l =>
    if Spec.isWrite r then .respond { unit := req.unit, fc := req.fc, payload := req.payload.take 4 }
    else if l.length = (Spec.qtyOf r).toNat then
      .respond { unit := req.unit, fc := req.fc,
                 payload := byteOfNat (l.length * 2) :: Enc.uint16sToBytes .big l }
    else exception req 0x04

/-- what one iteration must do, by class of the PDU: the handler calls logged and the action on the transport -/
def expectB (fc : Byte) (req : Pdu) (res : Spec.HResult) : Spec.ReqClass → Calls × Option Action
  | .malformed => ([], some .close)
  | .unsupported => ([], some (exception req 0x01))
  | .addrRange => ([], some (exception req 0x02))
  | .valid r => ([(calleeOf r, [.sym (reqLit fc)])], some (replyB req r res))

theorem expectB_ite (fc req res) (p : Prop) [Decidable p] (x y) :
    expectB fc req res (if p then x else y) = if p then expectB fc req res x else expectB fc req res y := by
  split <;> rfl
theorem expectB_valid (fc req res r) : expectB fc req res (.valid r) =
    ([(calleeOf r, [.sym (reqLit fc)])], some (replyB req r res)) := rfl
theorem expectB_malformed (fc req res) : expectB fc req res .malformed = ([], some .close) := rfl
theorem expectB_addrRange (fc req res) : expectB fc req res .addrRange = ([], some (exception req 0x02)) := rfl
theorem expectB_unsupported (fc req res) : expectB fc req res .unsupported = ([], some (exception req 0x01)) := rfl


/-- reduce the model side -/
syntax "specb_side" : tactic
macro_rules
  | `(tactic| specb_side) => `(tactic|
    (try simp only [Spec.classify, BitVec.reduceEq, ↓reduceIte, or_false, false_or, or_true, true_or]
     try simp only [Spec.checkQtyRange, Spec.qtyLimit, BitVec.reduceEq, ↓reduceIte, or_false, false_or,
       or_true, true_or]
     try simp only [expectB_ite]
     try simp only [expectB_valid, expectB_malformed, expectB_addrRange, expectB_unsupported]
     try simp only [calleeOf, reqLit, replyB, resB, Spec.isWrite, Spec.qtyOf, BitVec.reduceEq, ↓reduceIte,
       or_false, false_or, or_true, true_or, and_true, true_and, and_false, false_and, mk16_eq_word,
       Bool.false_eq_true, Bool.true_eq_false, ne_eq, u16sOfInts_length, boolsOfInts_length, onError,
       exception, BitVec.reduceOr, byte_eq_255, byte_eq_0, Bool.or_eq_true, Bool.and_eq_true, decide_eq_true_eq,
       BitVec.reduceToNat, Int.cast_ofNat_Int]))


theorem ofInt8_1 : BitVec.ofInt 8 1 = (1 : Byte) := by decide
theorem ofInt8_2 : BitVec.ofInt 8 2 = (2 : Byte) := by decide
theorem ofInt8_4 : BitVec.ofInt 8 4 = (4 : Byte) := by decide
/-- `uint8(resCount * 2)`, `uint8(resCount / 8)` and the same after `++`: the byte of the natural number, for EVERY
    length (proved in an empty context: with the range hypotheses of a run in scope `omega` produces a proof
    the kernel does not get through) -/
theorem regCount_byte (n : Nat) : BitVec.ofInt 8
    ((((n : Int) * 2 + 9223372036854775808) % 18446744073709551616 - 9223372036854775808) % 256) = byteOfNat (n * 2) :=
  ofInt8_of_mod _ _ (by omega)
theorem coilCount_byte0 (n : Nat) : BitVec.ofInt 8
    ((((n : Int) / 8 + 9223372036854775808) % 18446744073709551616 - 9223372036854775808) % 256) = byteOfNat (n / 8 + 0) :=
  ofInt8_of_mod _ _ (by omega)
theorem coilCount_byte1 (n : Nat) : BitVec.ofInt 8
    (((((n : Int) / 8 + 9223372036854775808) % 18446744073709551616 - 9223372036854775808) % 256 + 1) % 256) =
      byteOfNat (n / 8 + 1) :=
  ofInt8_of_mod _ _ (by omega)

/-- the byte equations left at the response leaves (no `rfl` / `decide` / `congr` on terms holding the
    64-bit wrap constants: the kernel-style unfolding of `Nat.add _ 9223372036854775808` does not come back) -/
syntax "bytes_eq" : tactic
macro_rules
  | `(tactic| bytes_eq) => `(tactic|
    (simp only [endianOfInt_1, Enc.uint16ToBytes, ofInt16_toNat, byteOfInt_toNat, be16_word, List.cons_append,
         List.nil_append, List.append_nil, List.take_succ_cons, List.take_zero, List.append_assoc,
         ofInt8_1, ofInt8_2, ofInt8_4, regCount_byte, coilCount_byte0, coilCount_byte1,
         List.cons.injEq, and_true, true_and, and_self]; done))

/-- close the leaves: equal verdicts, contradictory conditions, response objects -/
syntax "closeb_leaves" : tactic
macro_rules
  | `(tactic| closeb_leaves) => `(tactic|
    (try simp only [Bool.or_eq_true, Bool.and_eq_true, decide_eq_true_eq]
     repeat' split
     all_goals first
       | with_reducible rfl
       | (exfalso; omega)
       | (exfalso; simp only [Spec.coilLen, List.length_cons] at *; omega)
       | (refine congrArg (Prod.mk _) ?_
          apply pduAt_respond
          case hb => srv_slice_solve
          case hu => rfl
          case hf => rfl
          try (first
            | with_reducible rfl
            | bytes_eq))))

/-- a 4-byte case, handler answer `(l, oe)` -/
syntax "four_b" " [" Lean.Parser.Tactic.simpLemma,* "]" : tactic
set_option hygiene false in
macro_rules
  | `(tactic| four_b [$ls,*]) => `(tactic|
    (rw [dynEnv_cons4, payloadLeaves_nil]
     have := (Spec.word a b).isLt
     have := (Spec.word c d).isLt
     cases oe with
     | none =>
       simp only [symOfErr]
       srvb_eval [hc, mapCodeVal_IDA, mapCodeVal_SDF, $ls,*]
       specb_side
       closeb_leaves
     | some er =>
       by_cases hpe : er = .protocolError
       · subst hpe
         simp only [symOfErr, errSym]
         srvb_eval [hc, mapCodeVal_IDA, mapCodeVal_SDF, $ls,*]
         specb_side
         closeb_leaves
       · have hn : ¬ errSym er = "nil" := errSym_ne_nil er
         have hp : ¬ errSym er = "ErrProtocolError" := fun h' => hpe ((errSym_eq_pe er).mp h')
         simp only [symOfErr]
         srvb_eval [hc, mapCodeVal_IDA, mapCodeVal_SDF, mapCodeVal_errSym, hn, hp, $ls,*]
         specb_side
         try simp only [hpe, ↓reduceIte]
         closeb_leaves))


theorem b_fc3 (u a b c d : Byte) (a0 q0 : Int) (l : List Int) (oe : Option Err) (cs0 : Calls) (hnil hres : Nat)
    (hn : bytesAt cs0 hnil = some []) (hr : sliceAt cs0 hres = some l) (hc : hcallsB cs0 = []) :
    builtB (execFromW (sliceWorld (srvExtB [a, b, c, d] hres (symOfErr oe))) 80 srvGsB
      (reqEnvB hnil u.toNat 3 4 a0 q0 l.length (dynEnv [a, b, c, d])) cs0) =
      expectB 3 ⟨u, 3, [a, b, c, d]⟩ (resB false l oe) (Spec.classify u 3 [a, b, c, d]) := by
  four_b [armB34, or128_3]
theorem b_fc4 (u a b c d : Byte) (a0 q0 : Int) (l : List Int) (oe : Option Err) (cs0 : Calls) (hnil hres : Nat)
    (hn : bytesAt cs0 hnil = some []) (hr : sliceAt cs0 hres = some l) (hc : hcallsB cs0 = []) :
    builtB (execFromW (sliceWorld (srvExtB [a, b, c, d] hres (symOfErr oe))) 80 srvGsB
      (reqEnvB hnil u.toNat 4 4 a0 q0 l.length (dynEnv [a, b, c, d])) cs0) =
      expectB 4 ⟨u, 4, [a, b, c, d]⟩ (resB false l oe) (Spec.classify u 4 [a, b, c, d]) := by
  four_b [armB34, or128_4]
theorem b_fc1 (u a b c d : Byte) (a0 q0 : Int) (l : List Int) (oe : Option Err) (cs0 : Calls) (hnil hres : Nat)
    (hn : bytesAt cs0 hnil = some []) (hr : sliceAt cs0 hres = some l) (hc : hcallsB cs0 = []) :
    builtB (execFromW (sliceWorld (srvExtB [a, b, c, d] hres (symOfErr oe))) 80 srvGsB
      (reqEnvB hnil u.toNat 1 4 a0 q0 l.length (dynEnv [a, b, c, d])) cs0) =
      expectB 1 ⟨u, 1, [a, b, c, d]⟩ (resB true l oe) (Spec.classify u 1 [a, b, c, d]) := by
  four_b [armB12, or128_1, tdiv_natCast_left, tmod_natCast_left]

theorem b_fc2 (u a b c d : Byte) (a0 q0 : Int) (l : List Int) (oe : Option Err) (cs0 : Calls) (hnil hres : Nat)
    (hn : bytesAt cs0 hnil = some []) (hr : sliceAt cs0 hres = some l) (hc : hcallsB cs0 = []) :
    builtB (execFromW (sliceWorld (srvExtB [a, b, c, d] hres (symOfErr oe))) 80 srvGsB
      (reqEnvB hnil u.toNat 2 4 a0 q0 l.length (dynEnv [a, b, c, d])) cs0) =
      expectB 2 ⟨u, 2, [a, b, c, d]⟩ (resB true l oe) (Spec.classify u 2 [a, b, c, d]) := by
  four_b [armB12, or128_2, tdiv_natCast_left, tmod_natCast_left]
theorem b_fc5 (u a b c d : Byte) (a0 q0 : Int) (l : List Int) (oe : Option Err) (cs0 : Calls) (hnil hres : Nat)
    (hn : bytesAt cs0 hnil = some []) (hr : sliceAt cs0 hres = some l) (hc : hcallsB cs0 = []) :
    builtB (execFromW (sliceWorld (srvExtB [a, b, c, d] hres (symOfErr oe))) 80 srvGsB
      (reqEnvB hnil u.toNat 5 4 a0 q0 l.length (dynEnv [a, b, c, d])) cs0) =
      expectB 5 ⟨u, 5, [a, b, c, d]⟩ (resB true l oe) (Spec.classify u 5 [a, b, c, d]) := by
  four_b [armB5, or128_5]
theorem b_fc6 (u a b c d : Byte) (a0 q0 : Int) (l : List Int) (oe : Option Err) (cs0 : Calls) (hnil hres : Nat)
    (hn : bytesAt cs0 hnil = some []) (hr : sliceAt cs0 hres = some l) (hc : hcallsB cs0 = []) :
    builtB (execFromW (sliceWorld (srvExtB [a, b, c, d] hres (symOfErr oe))) 80 srvGsB
      (reqEnvB hnil u.toNat 6 4 a0 q0 l.length (dynEnv [a, b, c, d])) cs0) =
      expectB 6 ⟨u, 6, [a, b, c, d]⟩ (resB false l oe) (Spec.classify u 6 [a, b, c, d]) := by
  four_b [armB6, or128_6]

/-! ### payload of the wrong size, unknown function code -/

theorem b_short4 (fcv : Int) (hfc : fcv = 1 ∨ fcv = 2 ∨ fcv = 3 ∨ fcv = 4 ∨ fcv = 5 ∨ fcv = 6)
    (pl : Bytes) (hres : Nat) (herr : String) (hnil : Nat) (uv len a0 q0 n : Int) (dyn : Env) (h : ¬ len = 4)
    (cs0 : Calls) (hc : hcallsB cs0 = []) :
    builtB (execFromW (sliceWorld (srvExtB pl hres herr)) 80 srvGsB (reqEnvB hnil uv fcv len a0 q0 n dyn) cs0) =
      ([], some .close) := by
  rcases hfc with rfl | rfl | rfl | rfl | rfl | rfl
  · srvb_eval [armB12, h, hc]
  · srvb_eval [armB12, h, hc]
  · srvb_eval [armB34, h, hc]
  · srvb_eval [armB34, h, hc]
  · srvb_eval [armB5, h, hc]
  · srvb_eval [armB6, h, hc]

theorem b_short6 (fcv : Int) (hfc : fcv = 15 ∨ fcv = 16)
    (pl : Bytes) (hres : Nat) (herr : String) (hnil : Nat) (uv len a0 q0 n : Int) (dyn : Env) (h : len < 6)
    (cs0 : Calls) (hc : hcallsB cs0 = []) :
    builtB (execFromW (sliceWorld (srvExtB pl hres herr)) 80 srvGsB (reqEnvB hnil uv fcv len a0 q0 n dyn) cs0) =
      ([], some .close) := by
  rcases hfc with rfl | rfl
  · srvb_eval [armB15, h, hc]
  · srvb_eval [armB16, h, hc]

/-- any other function code: the `default` case answers `0x80 | fc`, `[exIllegalFunction]` -/
theorem b_other (fc : Byte) (h1 : ¬ (fc.toNat : Int) = 1) (h2 : ¬ (fc.toNat : Int) = 2) (h3 : ¬ (fc.toNat : Int) = 3)
    (h4 : ¬ (fc.toNat : Int) = 4) (h5 : ¬ (fc.toNat : Int) = 5) (h6 : ¬ (fc.toNat : Int) = 6)
    (h15 : ¬ (fc.toNat : Int) = 15) (h16 : ¬ (fc.toNat : Int) = 16)
    (pl : Bytes) (hres : Nat) (herr : String) (hnil : Nat) (u : Byte) (len a0 q0 n : Int) (dyn : Env)
    (cs0 : Calls) (hc : hcallsB cs0 = []) :
    builtB (execFromW (sliceWorld (srvExtB pl hres herr)) 80 srvGsB
      (reqEnvB hnil u.toNat fc.toNat len a0 q0 n dyn) cs0) =
      ([], some (exception ⟨u, fc, pl⟩ 0x01)) := by
  srvb_eval [armBDef, h1, h2, h3, h4, h5, h6, h15, h16, hc, or128_byte]
  refine congrArg (Prod.mk _) ?_
  simp only [exception]
  apply pduAt_respond
  case hb => srv_slice_solve
  case hu => rfl
  case hf => rw [BitVec.or_comm]
  case hbb => bytes_eq

/-! ### function codes 15 / 16 with at least 6 bytes of payload -/

syntax "long_b" " [" Lean.Parser.Tactic.simpLemma,* "]" : tactic
set_option hygiene false in
macro_rules
  | `(tactic| long_b [$ls,*]) => `(tactic|
    (rw [dynEnv_cons4, payloadLeaves_cons4]
     have hq := (mk16 c d).isLt
     have h0 : (0:Int) ≤ (↑(mk16 c d).toNat + 9223372036854775808) % 18446744073709551616 - 9223372036854775808 := by
       omega
     have := (Spec.word a b).isLt
     have := (Spec.word c d).isLt
     have := e.isLt
     srvb_eval [hc, mapCodeVal_IDA, mapCodeVal_SDF, tdiv_of_nonneg _ h0, tmod_natCast_left, $ls,*]
     specb_side
     try simp only [↓reduceIte, String.reduceEq, $ls,*]
     all_goals (
       try simp (disch := omega) only [wrapInt_id]
       closeb_leaves)))

theorem b_fc15_nil (u a b c d e f : Byte) (rest : Bytes) (a0 q0 : Int) (l : List Int) (hrl : rest.length < 2 ^ 62)
    (cs0 : Calls) (hnil hres : Nat)
    (hn : bytesAt cs0 hnil = some []) (hr : sliceAt cs0 hres = some l) (hc : hcallsB cs0 = []) :
    builtB (execFromW (sliceWorld (srvExtB (a :: b :: c :: d :: e :: f :: rest) hres "nil")) 80 srvGsB
      (reqEnvB hnil u.toNat 15 (rest.length + 6) a0 q0 l.length (dynEnv (a :: b :: c :: d :: e :: f :: rest))) cs0) =
      expectB 15 ⟨u, 15, a :: b :: c :: d :: e :: f :: rest⟩ (resB true l none)
        (Spec.classify u 15 (a :: b :: c :: d :: e :: f :: rest)) := by
  long_b [armB15, or128_15]

theorem b_fc15_pe (u a b c d e f : Byte) (rest : Bytes) (a0 q0 : Int) (l : List Int) (hrl : rest.length < 2 ^ 62)
    (cs0 : Calls) (hnil hres : Nat)
    (hn : bytesAt cs0 hnil = some []) (hr : sliceAt cs0 hres = some l) (hc : hcallsB cs0 = []) :
    builtB (execFromW (sliceWorld (srvExtB (a :: b :: c :: d :: e :: f :: rest) hres "ErrProtocolError")) 80 srvGsB
      (reqEnvB hnil u.toNat 15 (rest.length + 6) a0 q0 l.length (dynEnv (a :: b :: c :: d :: e :: f :: rest))) cs0) =
      expectB 15 ⟨u, 15, a :: b :: c :: d :: e :: f :: rest⟩ (resB true l (some .protocolError))
        (Spec.classify u 15 (a :: b :: c :: d :: e :: f :: rest)) := by
  long_b [armB15, or128_15]
theorem b_fc15_err (u a b c d e f : Byte) (rest : Bytes) (a0 q0 : Int) (l : List Int) (er : Err)
    (hpe : ¬ er = .protocolError) (hrl : rest.length < 2 ^ 62) (cs0 : Calls) (hnil hres : Nat)
    (hn : bytesAt cs0 hnil = some []) (hr : sliceAt cs0 hres = some l) (hc : hcallsB cs0 = []) :
    builtB (execFromW (sliceWorld (srvExtB (a :: b :: c :: d :: e :: f :: rest) hres (errSym er))) 80 srvGsB
      (reqEnvB hnil u.toNat 15 (rest.length + 6) a0 q0 l.length (dynEnv (a :: b :: c :: d :: e :: f :: rest))) cs0) =
      expectB 15 ⟨u, 15, a :: b :: c :: d :: e :: f :: rest⟩ (resB true l (some er))
        (Spec.classify u 15 (a :: b :: c :: d :: e :: f :: rest)) := by
  have hne : ¬ errSym er = "nil" := errSym_ne_nil er
  have hp : ¬ errSym er = "ErrProtocolError" := fun h' => hpe ((errSym_eq_pe er).mp h')
  long_b [armB15, or128_15, mapCodeVal_errSym, hne, hp, hpe]
theorem b_fc15 (u a b c d e f : Byte) (rest : Bytes) (a0 q0 : Int) (l : List Int) (oe : Option Err)
    (hrl : rest.length < 2 ^ 62) (cs0 : Calls) (hnil hres : Nat)
    (hn : bytesAt cs0 hnil = some []) (hr : sliceAt cs0 hres = some l) (hc : hcallsB cs0 = []) :
    builtB (execFromW (sliceWorld (srvExtB (a :: b :: c :: d :: e :: f :: rest) hres (symOfErr oe))) 80 srvGsB
      (reqEnvB hnil u.toNat 15 (rest.length + 6) a0 q0 l.length (dynEnv (a :: b :: c :: d :: e :: f :: rest))) cs0) =
      expectB 15 ⟨u, 15, a :: b :: c :: d :: e :: f :: rest⟩ (resB true l oe)
        (Spec.classify u 15 (a :: b :: c :: d :: e :: f :: rest)) := by
  cases oe with
  | none => exact b_fc15_nil u a b c d e f rest a0 q0 l hrl cs0 hnil hres hn hr hc
  | some er =>
    by_cases hpe : er = .protocolError
    · subst hpe; exact b_fc15_pe u a b c d e f rest a0 q0 l hrl cs0 hnil hres hn hr hc
    · exact b_fc15_err u a b c d e f rest a0 q0 l er hpe hrl cs0 hnil hres hn hr hc

theorem b_fc16_nil (u a b c d e f : Byte) (rest : Bytes) (a0 q0 : Int) (l : List Int) (hrl : rest.length < 2 ^ 62)
    (cs0 : Calls) (hnil hres : Nat)
    (hn : bytesAt cs0 hnil = some []) (hr : sliceAt cs0 hres = some l) (hc : hcallsB cs0 = []) :
    builtB (execFromW (sliceWorld (srvExtB (a :: b :: c :: d :: e :: f :: rest) hres "nil")) 80 srvGsB
      (reqEnvB hnil u.toNat 16 (rest.length + 6) a0 q0 l.length (dynEnv (a :: b :: c :: d :: e :: f :: rest))) cs0) =
      expectB 16 ⟨u, 16, a :: b :: c :: d :: e :: f :: rest⟩ (resB false l none)
        (Spec.classify u 16 (a :: b :: c :: d :: e :: f :: rest)) := by
  long_b [armB16, or128_16]

theorem b_fc16_pe (u a b c d e f : Byte) (rest : Bytes) (a0 q0 : Int) (l : List Int) (hrl : rest.length < 2 ^ 62)
    (cs0 : Calls) (hnil hres : Nat)
    (hn : bytesAt cs0 hnil = some []) (hr : sliceAt cs0 hres = some l) (hc : hcallsB cs0 = []) :
    builtB (execFromW (sliceWorld (srvExtB (a :: b :: c :: d :: e :: f :: rest) hres "ErrProtocolError")) 80 srvGsB
      (reqEnvB hnil u.toNat 16 (rest.length + 6) a0 q0 l.length (dynEnv (a :: b :: c :: d :: e :: f :: rest))) cs0) =
      expectB 16 ⟨u, 16, a :: b :: c :: d :: e :: f :: rest⟩ (resB false l (some .protocolError))
        (Spec.classify u 16 (a :: b :: c :: d :: e :: f :: rest)) := by
  long_b [armB16, or128_16]
theorem b_fc16_err (u a b c d e f : Byte) (rest : Bytes) (a0 q0 : Int) (l : List Int) (er : Err)
    (hpe : ¬ er = .protocolError) (hrl : rest.length < 2 ^ 62) (cs0 : Calls) (hnil hres : Nat)
    (hn : bytesAt cs0 hnil = some []) (hr : sliceAt cs0 hres = some l) (hc : hcallsB cs0 = []) :
    builtB (execFromW (sliceWorld (srvExtB (a :: b :: c :: d :: e :: f :: rest) hres (errSym er))) 80 srvGsB
      (reqEnvB hnil u.toNat 16 (rest.length + 6) a0 q0 l.length (dynEnv (a :: b :: c :: d :: e :: f :: rest))) cs0) =
      expectB 16 ⟨u, 16, a :: b :: c :: d :: e :: f :: rest⟩ (resB false l (some er))
        (Spec.classify u 16 (a :: b :: c :: d :: e :: f :: rest)) := by
  have hne : ¬ errSym er = "nil" := errSym_ne_nil er
  have hp : ¬ errSym er = "ErrProtocolError" := fun h' => hpe ((errSym_eq_pe er).mp h')
  long_b [armB16, or128_16, mapCodeVal_errSym, hne, hp, hpe]
theorem b_fc16 (u a b c d e f : Byte) (rest : Bytes) (a0 q0 : Int) (l : List Int) (oe : Option Err)
    (hrl : rest.length < 2 ^ 62) (cs0 : Calls) (hnil hres : Nat)
    (hn : bytesAt cs0 hnil = some []) (hr : sliceAt cs0 hres = some l) (hc : hcallsB cs0 = []) :
    builtB (execFromW (sliceWorld (srvExtB (a :: b :: c :: d :: e :: f :: rest) hres (symOfErr oe))) 80 srvGsB
      (reqEnvB hnil u.toNat 16 (rest.length + 6) a0 q0 l.length (dynEnv (a :: b :: c :: d :: e :: f :: rest))) cs0) =
      expectB 16 ⟨u, 16, a :: b :: c :: d :: e :: f :: rest⟩ (resB false l oe)
        (Spec.classify u 16 (a :: b :: c :: d :: e :: f :: rest)) := by
  cases oe with
  | none => exact b_fc16_nil u a b c d e f rest a0 q0 l hrl cs0 hnil hres hn hr hc
  | some er =>
    by_cases hpe : er = .protocolError
    · subst hpe; exact b_fc16_pe u a b c d e f rest a0 q0 l hrl cs0 hnil hres hn hr hc
    · exact b_fc16_err u a b c d e f rest a0 q0 l er hpe hrl cs0 hnil hres hn hr hc

/-! ## all cases together -/

/-- is the handler of this function code a bit handler (`HandleCoils` / `HandleDiscreteInputs`) -/
def isBitsFc (fc : Byte) : Bool := fc = 1 || fc = 2 || fc = 5 || fc = 15

/-- the entry environment of one iteration for the request PDU `(unit, fc, pl)` -/
def reqEnvBOf (hnil : Nat) (unit fc : Byte) (pl : Bytes) (a0 q0 n : Int) : Env :=
  reqEnvB hnil unit.toNat fc.toNat pl.length a0 q0 n (dynEnv pl)

/-- all function codes, all payloads, all handler answers, at fuel 80 -/
theorem built_80 (u fc : Byte) (pl : Bytes) (a0 q0 : Int) (l : List Int) (oe : Option Err)
    (hp : pl.length < 2 ^ 62) (cs0 : Calls) (hnil hres : Nat)
    (hn : bytesAt cs0 hnil = some []) (hr : sliceAt cs0 hres = some l) (hc : hcallsB cs0 = []) :
    builtB (execFromW (sliceWorld (srvExtB pl hres (symOfErr oe))) 80 srvGsB
      (reqEnvBOf hnil u fc pl a0 q0 l.length) cs0) =
      expectB fc ⟨u, fc, pl⟩ (resB (isBitsFc fc) l oe) (Spec.classify u fc pl) := by
  unfold reqEnvBOf
  rcases fc_cases fc with hfc | hfc | hfc
  · by_cases hl : pl.length = 4
    · obtain ⟨a, b, c, d, rfl⟩ := len4 pl hl
      rcases hfc with rfl | rfl | rfl | rfl | rfl | rfl
      · exact b_fc1 u a b c d a0 q0 l oe cs0 hnil hres hn hr hc
      · exact b_fc2 u a b c d a0 q0 l oe cs0 hnil hres hn hr hc
      · exact b_fc3 u a b c d a0 q0 l oe cs0 hnil hres hn hr hc
      · exact b_fc4 u a b c d a0 q0 l oe cs0 hnil hres hn hr hc
      · exact b_fc5 u a b c d a0 q0 l oe cs0 hnil hres hn hr hc
      · exact b_fc6 u a b c d a0 q0 l oe cs0 hnil hres hn hr hc
    · rw [classify_ne4 u fc pl hfc hl, expectB_malformed]
      refine b_short4 _ ?_ pl hres _ hnil _ _ a0 q0 _ _ (by omega) cs0 hc
      rcases hfc with rfl | rfl | rfl | rfl | rfl | rfl <;> simp
  · by_cases hl : pl.length < 6
    · rw [classify_lt6 u fc pl hfc hl, expectB_malformed]
      refine b_short6 _ ?_ pl hres _ hnil _ _ a0 q0 _ _ (by omega) cs0 hc
      rcases hfc with rfl | rfl <;> simp
    · obtain ⟨a, b, c, d, e, f, rest, rfl⟩ := len6 pl (by omega)
      have hrl : rest.length < 2 ^ 62 := by simp only [List.length_cons] at hp; omega
      rw [len_cast6]
      rcases hfc with rfl | rfl
      · exact b_fc15 u a b c d e f rest a0 q0 l oe hrl cs0 hnil hres hn hr hc
      · exact b_fc16 u a b c d e f rest a0 q0 l oe hrl cs0 hnil hres hn hr hc
  · obtain ⟨h1, h2, h3, h4, h5, h6, h15, h16⟩ := hfc
    rw [(C03_unsupported_iff u fc pl).mpr ⟨h1, h2, h3, h4, h5, h6, h15, h16⟩, expectB_unsupported]
    exact b_other fc (byte_toNat_ne fc 1 (by decide) h1) (byte_toNat_ne fc 2 (by decide) h2)
      (byte_toNat_ne fc 3 (by decide) h3) (byte_toNat_ne fc 4 (by decide) h4)
      (byte_toNat_ne fc 5 (by decide) h5) (byte_toNat_ne fc 6 (by decide) h6)
      (byte_toNat_ne fc 15 (by decide) h15) (byte_toNat_ne fc 16 (by decide) h16) pl hres _ hnil u _ a0 q0 _ _ cs0 hc

theorem expectB_some (fc req res c) : ∃ cl a, expectB fc req res c = (cl, some a) := by
  cases c <;> exact ⟨_, _, rfl⟩

/-- any fuel ≥ 80 -/
theorem built_ge (u fc : Byte) (pl : Bytes) (a0 q0 : Int) (l : List Int) (oe : Option Err)
    (hp : pl.length < 2 ^ 62) (cs0 : Calls) (hnil hres : Nat)
    (hn : bytesAt cs0 hnil = some []) (hr : sliceAt cs0 hres = some l) (hc : hcallsB cs0 = [])
    (fuel : Nat) (hf : 80 ≤ fuel) :
    builtB (execFromW (sliceWorld (srvExtB pl hres (symOfErr oe))) fuel srvGsB
      (reqEnvBOf hnil u fc pl a0 q0 l.length) cs0) =
      expectB fc ⟨u, fc, pl⟩ (resB (isBitsFc fc) l oe) (Spec.classify u fc pl) := by
  have h80 := built_80 u fc pl a0 q0 l oe hp cs0 hnil hres hn hr hc
  obtain ⟨cl, a, he⟩ := expectB_some fc ⟨u, fc, pl⟩ (resB (isBitsFc fc) l oe) (Spec.classify u fc pl)
  rw [execFromW_mono _ 80 fuel _ _ _ hf (builtB_not_outOfFuel _ a cl (by rw [h80, he]))]
  exact h80

/-! ## the model side -/

theorem coilCount_eq (n : Nat) : (n / 8 + if n % 8 ≠ 0 then 1 else 0) = Spec.coilLen n := by
  unfold Spec.coilLen; split <;> omega

/-- `replyB` (the model's codecs, spelled out) is the action the model `Server.handle` takes after a handler
    returned (`ServerLemmas.handleSpec`: close on `ErrProtocolError` — F8 —, else `Spec.replyPdu`) -/
theorem replyB_eq (req : Pdu) (r : HReq) (res : Spec.HResult) :
    replyB req r res =
      if res = .error .protocolError then .close else .respond (Spec.replyPdu req r res) := by
  cases res with
  | error e => exact onError_eq req r e
  | bits l =>
    simp only [replyB, reduceCtorEq, ↓reduceIte, Spec.replyPdu, coilCount_eq, Props.C17.bools_layout, exception_eq]
    repeat' split
    all_goals rfl
  | regs l =>
    simp only [replyB, reduceCtorEq, ↓reduceIte, Spec.replyPdu, regBytes_big, exception_eq, Nat.mul_comm l.length 2]
    repeat' split
    all_goals rfl

/-- the handler call the model made, as the Go run logs it -/
def callsOfModel (fc : Byte) : Option HReq → Calls
  | some r => [(calleeOf r, [.sym (reqLit fc)])]
  | none => []

/-- `expectB` is the model: the call `Server.handle` makes and the action it takes -/
theorem expectB_model {σ : Type} (h : Handler σ) (st : σ) (u fc : Byte) (pl : Bytes) (res : Spec.HResult)
    (hans : ∀ r, Spec.classify u fc pl = .valid r → (Spec.invoke h st r).2 = res) :
    expectB fc ⟨u, fc, pl⟩ res (Spec.classify u fc pl) =
      (callsOfModel fc (Server.handle h st ⟨u, fc, pl⟩).2.1, some (Server.handle h st ⟨u, fc, pl⟩).2.2) := by
  rw [handle_eq]
  simp only [handleSpec]
  cases hc : Spec.classify u fc pl with
  | valid r =>
    simp only [expectB_valid, callsOfModel, replyB_eq, hans r hc]
  | malformed => rfl
  | unsupported => simp only [expectB_unsupported, callsOfModel, exception_eq]
  | addrRange => simp only [expectB_addrRange, callsOfModel, exception_eq]

/-! ## MAIN 1: the response bytes -/

/-- what the hypotheses of the main theorems say about the entry log `cs0`:
    handle `hnil` holds the empty slice, handle `hres` the object `l` the handler returns, and the log holds
    no handler call yet (true of a log of `#input` seeds) -/
structure SeedsB (cs0 : Calls) (hnil hres : Nat) (l : List Int) : Prop where
  nil : bytesAt cs0 hnil = some []
  res : sliceAt cs0 hres = some l
  noCalls : hcallsB cs0 = []

/-- the canonical seed log -/
theorem seedsB_canonical (l : List Int) : SeedsB [seedInput [], seedInput l] 0 1 l :=
  ⟨by have := bytesAt_of_sliceAt (sliceAt_seed2_0 [] l); simpa [bytesOfInts_nil] using this,
   sliceAt_seed2_1 [] l, by simp [hcallsB_cons, hcallsB_nil, seedInput]⟩

/-- **MAIN (item 1).** For every request PDU, every handler answer `(l, oe)` presented through the seeded entry
    log, every model handler `h` / state `st` whose result on the decoded request is that answer, every fuel ≥ 80:
    one iteration of the generated `handleTransport` (byte-building rendering), cut at `t.Close()` /
    `t.WriteResponse(res)`, logged exactly the handler call the model `Server.handle` makes and did to the transport
    exactly what the model does: closed it, or wrote the response object whose unit id, function code and PAYLOAD
    BYTES are the model's response PDU. -/
theorem C03B_response_bytes {σ : Type} (h : Handler σ) (st : σ) (unit fc : Byte) (payload : Bytes)
    (hp : payload.length < 2 ^ 62) (a0 q0 : Int) (l : List Int) (oe : Option Err)
    (cs0 : Calls) (hnil hres : Nat) (hs : SeedsB cs0 hnil hres l)
    (hans : ∀ r, Spec.classify unit fc payload = .valid r →
      (Spec.invoke h st r).2 = resB (isBitsFc fc) l oe)
    (fuel : Nat) (hf : 80 ≤ fuel) :
    builtB (execFromW (sliceWorld (srvExtB payload hres (symOfErr oe))) fuel srvGsB
      (reqEnvBOf hnil unit fc payload a0 q0 l.length) cs0) =
    (callsOfModel fc (Server.handle h st ⟨unit, fc, payload⟩).2.1,
     some (Server.handle h st ⟨unit, fc, payload⟩).2.2) := by
  rw [built_ge unit fc payload a0 q0 l oe hp cs0 hnil hres hs.nil hs.res hs.noCalls fuel hf]
  exact expectB_model h st unit fc payload _ hans

/-- the same without a handler model: the iteration does what `expectB` prescribes for the class of the PDU
    (`Spec.classify`) and the handler answer as presented (`resB`) -/
theorem C03B_response_classified (unit fc : Byte) (payload : Bytes) (hp : payload.length < 2 ^ 62)
    (a0 q0 : Int) (l : List Int) (oe : Option Err) (cs0 : Calls) (hnil hres : Nat) (hs : SeedsB cs0 hnil hres l)
    (fuel : Nat) (hf : 80 ≤ fuel) :
    builtB (execFromW (sliceWorld (srvExtB payload hres (symOfErr oe))) fuel srvGsB
      (reqEnvBOf hnil unit fc payload a0 q0 l.length) cs0) =
    expectB fc ⟨unit, fc, payload⟩ (resB (isBitsFc fc) l oe) (Spec.classify unit fc payload) :=
  built_ge unit fc payload a0 q0 l oe hp cs0 hnil hres hs.nil hs.res hs.noCalls fuel hf

/-- `replyB`, case by case: what `C03B_response_bytes` says the response PDU is -/
theorem C03B_reply_shapes (req : Pdu) (r : HReq) :
    (∀ e, replyB req r (.error e) =
      if e = .protocolError then .close
      else .respond { unit := req.unit, fc := 0x80 ||| req.fc, payload := [mapError e] }) ∧
    (∀ l, Spec.isWrite r = false → l.length = (Spec.qtyOf r).toNat → replyB req r (.bits l) =
      .respond { unit := req.unit, fc := req.fc,
                 payload := [byteOfNat (l.length / 8 + (if l.length % 8 ≠ 0 then 1 else 0))] ++ Enc.encodeBools l }) ∧
    (∀ l, Spec.isWrite r = false → l.length = (Spec.qtyOf r).toNat → replyB req r (.regs l) =
      .respond { unit := req.unit, fc := req.fc,
                 payload := [byteOfNat (l.length * 2)] ++ Enc.uint16sToBytes .big l }) ∧
    (∀ l, Spec.isWrite r = false → l.length ≠ (Spec.qtyOf r).toNat → replyB req r (.bits l) =
      .respond { unit := req.unit, fc := 0x80 ||| req.fc, payload := [0x04] }) ∧
    (∀ l, Spec.isWrite r = false → l.length ≠ (Spec.qtyOf r).toNat → replyB req r (.regs l) =
      .respond { unit := req.unit, fc := 0x80 ||| req.fc, payload := [0x04] }) ∧
    (∀ l, Spec.isWrite r = true → replyB req r (.bits l) =
      .respond { unit := req.unit, fc := req.fc, payload := req.payload.take 4 }) ∧
    (∀ l, Spec.isWrite r = true → replyB req r (.regs l) =
      .respond { unit := req.unit, fc := req.fc, payload := req.payload.take 4 }) := by
  refine ⟨fun e => rfl, ?_, ?_, ?_, ?_, ?_, ?_⟩
  · intro l hw hl; simp only [replyB, hw, hl, Bool.false_eq_true, ↓reduceIte, List.cons_append, List.nil_append]
  · intro l hw hl; simp only [replyB, hw, hl, Bool.false_eq_true, ↓reduceIte, List.cons_append, List.nil_append]
  · intro l hw hl; simp only [replyB, hw, hl, Bool.false_eq_true, ↓reduceIte, exception]
  · intro l hw hl; simp only [replyB, hw, hl, Bool.false_eq_true, ↓reduceIte, exception]
  · intro l hw; simp only [replyB, hw, ↓reduceIte]
  · intro l hw; simp only [replyB, hw, ↓reduceIte]

/-! ## MAIN 2: the exception paths (no handler call) -/

/-- the model's action for a PDU that is not valid -/
def invalidAction (req : Pdu) : Spec.ReqClass → Action
  | .malformed => .close
  | .addrRange => .respond { unit := req.unit, fc := 0x80 ||| req.fc, payload := [0x02] }
  | .unsupported => .respond { unit := req.unit, fc := 0x80 ||| req.fc, payload := [0x01] }
  | .valid _ => .close

/-- **MAIN (item 2).** A PDU that is not valid (malformed, address range, unsupported function code): whatever the
    handler would answer, no handler call is logged, the model makes none, and run and model do the same thing:
    close without a response, or write the exception PDU `fc|0x80, [02]` / `fc|0x80, [01]`. -/
theorem C03B_exception_bytes {σ : Type} (h : Handler σ) (st : σ) (unit fc : Byte) (payload : Bytes)
    (hp : payload.length < 2 ^ 62) (a0 q0 : Int) (l : List Int) (oe : Option Err)
    (cs0 : Calls) (hnil hres : Nat) (hs : SeedsB cs0 hnil hres l)
    (hnv : ∀ r, Spec.classify unit fc payload ≠ .valid r) (fuel : Nat) (hf : 80 ≤ fuel) :
    builtB (execFromW (sliceWorld (srvExtB payload hres (symOfErr oe))) fuel srvGsB
      (reqEnvBOf hnil unit fc payload a0 q0 l.length) cs0) =
      ([], some (invalidAction ⟨unit, fc, payload⟩ (Spec.classify unit fc payload))) ∧
    (Server.handle h st ⟨unit, fc, payload⟩).2.1 = none ∧
    (Server.handle h st ⟨unit, fc, payload⟩).2.2 =
      invalidAction ⟨unit, fc, payload⟩ (Spec.classify unit fc payload) := by
  rw [C03B_response_classified unit fc payload hp a0 q0 l oe cs0 hnil hres hs fuel hf, handle_eq]
  simp only [handleSpec]
  cases hc : Spec.classify unit fc payload with
  | valid r => exact absurd hc (hnv r)
  | malformed => exact ⟨rfl, rfl, rfl⟩
  | unsupported => exact ⟨rfl, rfl, by simp only [invalidAction, Spec.excPdu, BitVec.or_comm]⟩
  | addrRange => exact ⟨rfl, rfl, by simp only [invalidAction, Spec.excPdu, BitVec.or_comm]⟩

/-- the causes named in the property, as classes of `Spec.classify` (so that `C03B_exception_bytes` applies):
    unsupported function code; wrong payload size; zero / over-limit quantity; address range past 0xFFFF;
    invalid coil value; inconsistent byte count -/
theorem C03B_exception_causes (unit : Byte) :
    (∀ fc pl, fc ≠ 1 ∧ fc ≠ 2 ∧ fc ≠ 3 ∧ fc ≠ 4 ∧ fc ≠ 5 ∧ fc ≠ 6 ∧ fc ≠ 15 ∧ fc ≠ 16 →
      Spec.classify unit fc pl = .unsupported) ∧
    (∀ fc pl, (fc = 1 ∨ fc = 2 ∨ fc = 3 ∨ fc = 4 ∨ fc = 5 ∨ fc = 6) → pl.length ≠ 4 →
      Spec.classify unit fc pl = .malformed) ∧
    (∀ fc pl, (fc = 15 ∨ fc = 16) → pl.length < 6 → Spec.classify unit fc pl = .malformed) ∧
    (∀ fc a1 a0 q1 q0, (fc = 1 ∨ fc = 2 ∨ fc = 3 ∨ fc = 4) →
      ((mk16 q1 q0).toNat = 0 ∨ (mk16 q1 q0).toNat > (if fc = 1 ∨ fc = 2 then 2000 else 125)) →
      Spec.classify unit fc [a1, a0, q1, q0] = .malformed) ∧
    (∀ fc a1 a0 q1 q0, (fc = 1 ∨ fc = 2 ∨ fc = 3 ∨ fc = 4) →
      ¬ ((mk16 q1 q0).toNat = 0 ∨ (mk16 q1 q0).toNat > (if fc = 1 ∨ fc = 2 then 2000 else 125)) →
      (mk16 a1 a0).toNat + (mk16 q1 q0).toNat - 1 > 0xFFFF →
      Spec.classify unit fc [a1, a0, q1, q0] = .addrRange) ∧
    (∀ a1 a0 v1 v0, ¬ ((v1 = 0xFF ∨ v1 = 0x00) ∧ v0 = 0x00) →
      Spec.classify unit 5 [a1, a0, v1, v0] = .malformed) ∧
    (∀ fc a1 a0 q1 q0 bc d ds, (fc = 15 ∨ fc = 16) →
      ((mk16 q1 q0).toNat = 0 ∨ (mk16 q1 q0).toNat > (if fc = 15 then 1968 else 123)) →
      Spec.classify unit fc (a1 :: a0 :: q1 :: q0 :: bc :: d :: ds) = .malformed) ∧
    (∀ fc a1 a0 q1 q0 bc d ds, (fc = 15 ∨ fc = 16) →
      ¬ ((mk16 q1 q0).toNat = 0 ∨ (mk16 q1 q0).toNat > (if fc = 15 then 1968 else 123)) →
      (mk16 a1 a0).toNat + (mk16 q1 q0).toNat - 1 > 0xFFFF →
      Spec.classify unit fc (a1 :: a0 :: q1 :: q0 :: bc :: d :: ds) = .addrRange) ∧
    (∀ fc a1 a0 q1 q0 bc d ds, (fc = 15 ∨ fc = 16) →
      ¬ ((mk16 q1 q0).toNat = 0 ∨ (mk16 q1 q0).toNat > (if fc = 15 then 1968 else 123)) →
      ¬ (mk16 a1 a0).toNat + (mk16 q1 q0).toNat - 1 > 0xFFFF →
      ¬ (bc.toNat = (if fc = 15 then Spec.coilLen (mk16 q1 q0).toNat else 2 * (mk16 q1 q0).toNat) ∧
         ds.length + 1 = (if fc = 15 then Spec.coilLen (mk16 q1 q0).toNat else 2 * (mk16 q1 q0).toNat)) →
      Spec.classify unit fc (a1 :: a0 :: q1 :: q0 :: bc :: d :: ds) = .malformed) := by
  refine ⟨fun fc pl h => (C03_unsupported_iff unit fc pl).mpr h, fun fc pl => classify_ne4 unit fc pl,
    fun fc pl => classify_lt6 unit fc pl, ?_, ?_, ?_, ?_, ?_, ?_⟩
  · intro fc a1 a0 q1 q0 hfc hq
    rcases hfc with rfl | rfl | rfl | rfl <;>
      simp only [Spec.classify, Spec.checkQtyRange, Spec.qtyLimit, BitVec.reduceEq, ↓reduceIte, or_false, false_or,
        or_true, true_or, mk16_eq_word] at hq ⊢ <;> rw [if_pos hq]
  · intro fc a1 a0 q1 q0 hfc hq ha
    rcases hfc with rfl | rfl | rfl | rfl <;>
      simp only [Spec.classify, Spec.checkQtyRange, Spec.qtyLimit, BitVec.reduceEq, ↓reduceIte, or_false, false_or,
        or_true, true_or, mk16_eq_word] at hq ha ⊢ <;> rw [if_neg hq, if_pos ha]
  · intro a1 a0 v1 v0 hv
    simp only [Spec.classify, BitVec.reduceEq, ↓reduceIte, or_false, false_or]
    rw [if_neg hv]
  · intro fc a1 a0 q1 q0 bc d ds hfc hq
    rcases hfc with rfl | rfl <;>
      simp only [Spec.classify, Spec.checkQtyRange, Spec.qtyLimit, BitVec.reduceEq, ↓reduceIte, or_false, false_or,
        or_true, true_or, mk16_eq_word] at hq ⊢ <;> rw [if_pos hq]
  · intro fc a1 a0 q1 q0 bc d ds hfc hq ha
    rcases hfc with rfl | rfl <;>
      simp only [Spec.classify, Spec.checkQtyRange, Spec.qtyLimit, BitVec.reduceEq, ↓reduceIte, or_false, false_or,
        or_true, true_or, mk16_eq_word] at hq ha ⊢ <;> rw [if_neg hq, if_pos ha]
  · intro fc a1 a0 q1 q0 bc d ds hfc hq ha hb
    rcases hfc with rfl | rfl <;>
      simp only [Spec.classify, Spec.checkQtyRange, Spec.qtyLimit, BitVec.reduceEq, ↓reduceIte, or_false, false_or,
        or_true, true_or, mk16_eq_word, List.length_cons] at hq ha hb ⊢ <;> rw [if_neg hq, if_neg ha, if_neg hb]

/-! ## MAIN 3: the frame on the wire -/

theorem ofInt8_toNat_of_range (u : Int) (h0 : 0 ≤ u) (h1 : u < 256) : ((BitVec.ofInt 8 u).toNat : Int) = u := by
  simp only [BitVec.toNat_ofInt]
  omega

/-- what `builtAction r = some (respond p)` says about the final state of the run -/
theorem builtAction_respond {r : Res} {p : Pdu} (hb : builtAction r = some (.respond p)) :
    r.how = .stoppedAt "t.WriteResponse" [Env.read r.env "res"] ∧
    Env.read r.env "res.unitId" = .int (p.unit.toNat : Int) ∧
    Env.read r.env "res.functionCode" = .int (p.fc.toNat : Int) ∧
    ∃ h : Nat, Env.read r.env "res.payload" = .int (h : Int) ∧ bytesAt r.calls h = some p.payload := by
  obtain ⟨env, how, cs⟩ := r
  cases how with
  | stoppedAt f args =>
    simp only [builtAction] at hb
    split at hb
    · cases hb
    · split at hb
      · rename_i hfa
        obtain ⟨rfl, rfl⟩ := hfa
        refine ⟨rfl, ?_⟩
        show Env.read env "res.unitId" = _ ∧ Env.read env "res.functionCode" = _ ∧
          ∃ h : Nat, Env.read env "res.payload" = _ ∧ bytesAt cs h = some p.payload
        generalize Env.read env "res.unitId" = vu at hb
        generalize Env.read env "res.functionCode" = vf at hb
        generalize Env.read env "res.payload" = vp at hb
        unfold pduAt at hb
        split at hb
        · rename_i uu ff hh
          split at hb
          · rename_i hc
            split at hb
            · rename_i bb hbb
              injection hb with hb
              injection hb with hb
              subst hb
              refine ⟨?_, ?_, hh.toNat, ?_, hbb⟩
              · rw [ofInt8_toNat_of_range uu hc.1 hc.2.1]
              · rw [ofInt8_toNat_of_range ff hc.2.2.1 hc.2.2.2.1]
              · rw [Int.toNat_of_nonneg hc.2.2.2.2]
            · cases hb
          · cases hb
        · cases hb
      · cases hb
  | _ => simp only [builtAction, reduceCtorEq] at hb

/-- **the bytes written.** Let a run `r` of the request loop have reached `t.WriteResponse(res)` with the response
    PDU `p` (`builtAction r = some (respond p)`, e.g. by `C03B_response_bytes`). `tcpTransport.WriteResponse` hands
    `res` to `tt.assembleMBAPFrame(tt.lastTxnId, res)` (Props/C03SrcTransport.lean, `C03T_writeResponse`: the frame
    leaf is that call; `C03T_echo`: at the `Write` the variable `tt.lastTxnId` holds the id `txn` of the request
    just read). Running the generated `assembleMBAPFrame` (`Props/C01SrcBytes.lean: C01B_mbap_frame`) on the
    FINAL LOG of `r`, from any environment that binds its parameters to the values of the caller's arguments
    (`txnId` := `txn`, `p.payload` := the handle in `res.payload`, `len(p.payload)` := the length of its bytes,
    `p.unitId` / `p.functionCode` := `res.unitId` / `res.functionCode`): it returns, and the result `payload`
    is the handle of exactly `Mbap.assemble txn p` — the frame the model's `Server.runAux` emits
    (`Event.respond (Mbap.assemble txn p)`). -/
theorem C03B_frame (r : Res) (p : Pdu) (hb : builtAction r = some (.respond p))
    (ext' : World) (env' : Env) (txn : U16)
    (e1 : Env.read? env' "txnId" = some (.int (txn.toNat : Int)))
    (e2 : Env.read? env' "p.payload" = some (Env.read r.env "res.payload"))
    (e3 : Env.read? env' "len(p.payload)" = some (.int (p.payload.length : Int)))
    (e4 : Env.read? env' "p.unitId" = some (Env.read r.env "res.unitId"))
    (e5 : Env.read? env' "p.functionCode" = some (Env.read r.env "res.functionCode"))
    (fuel : Nat) (hf : 16 ≤ fuel) :
    let w := execFromW (sliceWorld ext') fuel gsp_tcpTransport_assembleMBAPFrame env' r.calls
    w.how = .returned ∧
    Env.read? w.env "payload" = some (.int ((r.calls.length + 6 : Nat) : Int)) ∧
    bytesAt w.calls (r.calls.length + 6) = some (Mbap.assemble txn p) ∧
    (Mbap.assemble txn p).take 4 = be16 txn ++ [0, 0] := by
  obtain ⟨_, hu, hfc, hh, hpl, hbytes⟩ := builtAction_respond hb
  rw [hpl] at e2
  rw [hu] at e4
  rw [hfc] at e5
  obtain ⟨h1, _, h3, h4, h5⟩ :=
    C01.C01B_mbap_frame ext' r.calls env' txn p.unit p.fc p.payload hh hbytes e1 e2 e3 e4 e5 fuel hf
  refine ⟨h1, h3, ?_, ?_⟩
  · rw [← h5]; exact h4
  · simp only [Mbap.assemble, be16, List.cons_append, List.nil_append, List.take_succ_cons, List.take_zero]

/-! ## the handler's answer read off the model handler -/

/-- how a model handler result is presented to the run: the elements of the returned slice, the error -/
def presentB : Spec.HResult → List Int × Option Err
  | .bits bl => (intsOfBools bl, none)
  | .regs rl => (intsOfU16s rl, none)
  | .error e => ([], some e)

/-- the bit handlers serve function codes 1, 2, 5, 15, the register handlers 3, 4, 6, 16 -/
theorem invoke_kind {σ : Type} (h : Handler σ) (st : σ) {u fc : Byte} {pl : Bytes} {r : HReq}
    (hv : Spec.classify u fc pl = .valid r) :
    resB (isBitsFc fc) (presentB (Spec.invoke h st r).2).1 (presentB (Spec.invoke h st r).2).2 =
      (Spec.invoke h st r).2 := by
  rcases fc_cases fc with hfc | hfc | hfc
  · rcases hfc with rfl | rfl | rfl | rfl | rfl | rfl
    all_goals
      simp only [Spec.classify, Spec.checkQtyRange, BitVec.reduceEq, ↓reduceIte, or_false, false_or, or_true,
        true_or] at hv
      repeat' split at hv
      all_goals first
        | (cases hv; done)
        | (injection hv with hv; subst hv
           simp only [Spec.invoke]
           split <;> simp [presentB, resB, isBitsFc, boolsOfInts_intsOfBools, u16sOfInts_intsOfU16s])
  · rcases hfc with rfl | rfl
    all_goals
      simp only [Spec.classify, Spec.checkQtyRange, BitVec.reduceEq, ↓reduceIte, or_false, false_or, or_true,
        true_or] at hv
      repeat' split at hv
      all_goals first
        | (cases hv; done)
        | (injection hv with hv; subst hv
           simp only [Spec.invoke]
           split <;> simp [presentB, resB, isBitsFc, boolsOfInts_intsOfBools, u16sOfInts_intsOfU16s])
  · rw [(C03_unsupported_iff u fc pl).mpr hfc] at hv
    cases hv

/-- **`C03B_response_bytes` with the handler's answer taken from the model handler itself.** A valid request
    `r`; the slice the handler returns holds `presentB` of what the model handler `h` returns on `r` (for an
    error: an empty slice), `err` is that error: the iteration makes the model's call and does to the transport
    what the model does — in particular it writes EXACTLY the model's response PDU. -/
theorem C03B_response_bytes_of_model {σ : Type} (h : Handler σ) (st : σ) (unit fc : Byte) (payload : Bytes)
    (hp : payload.length < 2 ^ 62) (r : HReq) (hv : Spec.classify unit fc payload = .valid r)
    (a0 q0 : Int) (cs0 : Calls) (hnil hres : Nat)
    (hs : SeedsB cs0 hnil hres (presentB (Spec.invoke h st r).2).1) (fuel : Nat) (hf : 80 ≤ fuel) :
    builtB (execFromW (sliceWorld (srvExtB payload hres (symOfErr (presentB (Spec.invoke h st r).2).2))) fuel
      srvGsB (reqEnvBOf hnil unit fc payload a0 q0 (presentB (Spec.invoke h st r).2).1.length) cs0) =
    ([(calleeOf r, [.sym (reqLit fc)])], some (Server.handle h st ⟨unit, fc, payload⟩).2.2) ∧
    (Server.handle h st ⟨unit, fc, payload⟩).2.1 = some r := by
  have hcall : (Server.handle h st ⟨unit, fc, payload⟩).2.1 = some r := by
    rw [handle_eq]; simp only [handleSpec, hv]
  refine ⟨?_, hcall⟩
  rw [C03B_response_bytes h st unit fc payload hp a0 q0 _ _ cs0 hnil hres hs ?_ fuel hf, hcall]
  · rfl
  · intro r' hv'
    have : r' = r := by rw [hv] at hv'; injection hv' with hv'; exact hv'.symm
    subst this
    exact (invoke_kind h st hv).symm

/-- `C03B_frame` on top of `C03B_response_bytes`: whenever the model answers the request with the PDU `p`, the
    generated `assembleMBAPFrame`, run on the final log of the iteration with the values of `res`'s fields,
    yields `Mbap.assemble txn p` -/
theorem C03B_frame_model {σ : Type} (h : Handler σ) (st : σ) (unit fc : Byte) (payload : Bytes)
    (hp : payload.length < 2 ^ 62) (a0 q0 : Int) (l : List Int) (oe : Option Err)
    (cs0 : Calls) (hnil hres : Nat) (hs : SeedsB cs0 hnil hres l)
    (hans : ∀ r, Spec.classify unit fc payload = .valid r →
      (Spec.invoke h st r).2 = resB (isBitsFc fc) l oe)
    (fuel : Nat) (hf : 80 ≤ fuel) (p : Pdu) (hr : (Server.handle h st ⟨unit, fc, payload⟩).2.2 = .respond p)
    (ext' : World) (env' : Env) (txn : U16) (fuel' : Nat) (hf' : 16 ≤ fuel') :
    let r := execFromW (sliceWorld (srvExtB payload hres (symOfErr oe))) fuel srvGsB
      (reqEnvBOf hnil unit fc payload a0 q0 l.length) cs0
    Env.read? env' "txnId" = some (.int (txn.toNat : Int)) →
    Env.read? env' "p.payload" = some (Env.read r.env "res.payload") →
    Env.read? env' "len(p.payload)" = some (.int (p.payload.length : Int)) →
    Env.read? env' "p.unitId" = some (Env.read r.env "res.unitId") →
    Env.read? env' "p.functionCode" = some (Env.read r.env "res.functionCode") →
    let w := execFromW (sliceWorld ext') fuel' gsp_tcpTransport_assembleMBAPFrame env' r.calls
    w.how = .returned ∧ bytesAt w.calls (r.calls.length + 6) = some (Mbap.assemble txn p) := by
  intro r e1 e2 e3 e4 e5 w
  have hb : builtAction r = some (.respond p) := by
    have := congrArg Prod.snd (C03B_response_bytes h st unit fc payload hp a0 q0 l oe cs0 hnil hres hs hans fuel hf)
    rw [hr] at this
    exact this
  obtain ⟨h1, _, h3, _⟩ := C03B_frame r p hb ext' env' txn e1 e2 e3 e4 e5 fuel' hf'
  exact ⟨h1, h3⟩

/-! ## 4. static facts: definitions -/

def showTy : GTy → String
  | .u8 => "uint8" | .u16 => "uint16" | .u32 => "uint32" | .u64 => "uint64" | .uint => "uint"
  | .i8 => "int8" | .i16 => "int16" | .i32 => "int32" | .i64 => "int64" | .int => "int" | .bool => "bool"
  | .other => "_"

/-- source-like text of an expression -/
def showE : GExpr → String
  | .lit v _ => toString v
  | .var x _ | .call x _ => x
  | .conv t e => showTy t ++ "(" ++ showE e ++ ")"
  | .bin op _ a b => "(" ++ showE a ++ " " ++ op ++ " " ++ showE b ++ ")"
  | .cmp op a b => "(" ++ showE a ++ " " ++ op ++ " " ++ showE b ++ ")"
  | .not e => "!" ++ showE e
  | .and a b => "(" ++ showE a ++ " && " ++ showE b ++ ")"
  | .or a b => "(" ++ showE a ++ " || " ++ showE b ++ ")"

def isResTarget (x : String) : Bool := x = "res" || "res.".toList.isPrefixOf x.toList

/-- the operations on the response object, in program order (all paths): assignments to `res…` and the
    slice-producing calls (with `mapErrorToExceptionCode`): targets, callee (`=` for an assignment), arguments -/
def resOps : GStmt → List (List String × String × List String)
  | .assign x e => if isResTarget x then [([x], "=", [showE e])] else []
  | .bindCall ts f as =>
    if isSliceCallee f || f == "mapErrorToExceptionCode" then [(ts, f, as.map showE)] else []
  | .seq a b => resOps a ++ resOps b
  | .ite _ t e => resOps t ++ resOps e
  | .loop b => resOps b
  | _ => []

/-- every assigned name (assignment targets and call targets), in program order -/
def targetsOf : GStmt → List String
  | .assign x _ => [x]
  | .bindCall ts _ _ => ts
  | .seq a b => targetsOf a ++ targetsOf b
  | .ite _ t e => targetsOf t ++ targetsOf e
  | .loop b => targetsOf b
  | _ => []

def gBody : GStmt := lB (sA gsp_ModbusServer_handleTransport)
def gSwitch : GStmt := sA (lB (sA (sB (sB gBody))))
def gTail : GStmt := sB (sB (sB gBody))
def gArm12 : GStmt := iT gSwitch
def gArm5 : GStmt := iT (iE gSwitch)
def gArm15 : GStmt := iT (iE (iE gSwitch))
def gArm34 : GStmt := iT (iE (iE (iE gSwitch)))
def gArm6 : GStmt := iT (iE (iE (iE (iE gSwitch))))
def gArm16 : GStmt := iT (iE (iE (iE (iE (iE gSwitch)))))
def gArmDef : GStmt := iE (iE (iE (iE (iE (iE gSwitch)))))


/-! ## 4. static facts -/

/-- **which operations build the response, arm by arm, in program order** (assignments to `res…`, slice calls) -/
theorem C03B_static_ops :
    resOps gArm12 =
      [(["res"], "=", ["&pdu{ unitId: req.unitId, functionCode: req.functionCode, payload: []byte{0}, }"]),
       (["res.unitId"], "=", ["req.unitId"]), (["res.functionCode"], "=", ["req.functionCode"]),
       (["#arg10"], "bytes", ["0"]), (["res.payload"], "=", ["#arg10"]),
       (["res.payload[0]"], "=", ["uint8((resCount / 8))"]),
       (["res.payload[0]"], "=", ["(res.payload[0] + 1)"]),
       (["#arg11"], "encodeBools", ["coils"]),
       (["res.payload"], "append...", ["res.payload", "#arg11"])] ∧
    resOps gArm34 =
      [(["res"], "=", ["&pdu{ unitId: req.unitId, functionCode: req.functionCode, payload: []byte{0}, }"]),
       (["res.unitId"], "=", ["req.unitId"]), (["res.functionCode"], "=", ["req.functionCode"]),
       (["#arg5"], "bytes", ["0"]), (["res.payload"], "=", ["#arg5"]),
       (["res.payload[0]"], "=", ["uint8((resCount * 2))"]),
       (["#arg6"], "uint16sToBytes", ["1", "regs"]),
       (["res.payload"], "append...", ["res.payload", "#arg6"])] ∧
    resOps gArm5 =
      [(["res"], "=", ["&pdu{ unitId: req.unitId, functionCode: req.functionCode, }"]),
       (["res.unitId"], "=", ["req.unitId"]), (["res.functionCode"], "=", ["req.functionCode"]),
       (["#arg9"], "uint16ToBytes", ["1", "addr"]),
       (["res.payload"], "append...", ["res.payload", "#arg9"]),
       (["res.payload"], "append", ["res.payload", "req.payload[2]", "req.payload[3]"])] ∧
    resOps gArm6 =
      [(["res"], "=", ["&pdu{ unitId: req.unitId, functionCode: req.functionCode, }"]),
       (["res.unitId"], "=", ["req.unitId"]), (["res.functionCode"], "=", ["req.functionCode"]),
       (["#arg3"], "uint16ToBytes", ["1", "addr"]),
       (["res.payload"], "append...", ["res.payload", "#arg3"]),
       (["#arg4"], "uint16ToBytes", ["1", "value"]),
       (["res.payload"], "append...", ["res.payload", "#arg4"])] ∧
    resOps gArm15 =
      [(["res"], "=", ["&pdu{ unitId: req.unitId, functionCode: req.functionCode, }"]),
       (["res.unitId"], "=", ["req.unitId"]), (["res.functionCode"], "=", ["req.functionCode"]),
       (["#arg7"], "uint16ToBytes", ["1", "addr"]),
       (["res.payload"], "append...", ["res.payload", "#arg7"]),
       (["#arg8"], "uint16ToBytes", ["1", "quantity"]),
       (["res.payload"], "append...", ["res.payload", "#arg8"])] ∧
    resOps gArm16 =
      [(["res"], "=", ["&pdu{ unitId: req.unitId, functionCode: req.functionCode, }"]),
       (["res.unitId"], "=", ["req.unitId"]), (["res.functionCode"], "=", ["req.functionCode"]),
       (["#arg1"], "uint16ToBytes", ["1", "addr"]),
       (["res.payload"], "append...", ["res.payload", "#arg1"]),
       (["#arg2"], "uint16ToBytes", ["1", "quantity"]),
       (["res.payload"], "append...", ["res.payload", "#arg2"])] ∧
    resOps gArmDef =
      [(["res"], "=",
        ["&pdu{ unitId: req.unitId, functionCode: (0x80 | req.functionCode), payload: []byte{exIllegalFunction}, }"]),
       (["res.unitId"], "=", ["req.unitId"]), (["res.functionCode"], "=", ["(128 | req.functionCode)"]),
       (["#arg0"], "bytes", ["1"]), (["res.payload"], "=", ["#arg0"])] ∧
    resOps gTail =
      [(["res"], "=",
        ["&pdu{ unitId: req.unitId, functionCode: (0x80 | req.functionCode), payload: []byte{mapErrorToExceptionCode(err)}, }"]),
       (["res.unitId"], "=", ["req.unitId"]), (["res.functionCode"], "=", ["(128 | req.functionCode)"]),
       (["#arg12"], "mapErrorToExceptionCode", ["err"]), (["#arg13"], "bytes", ["#arg12"]),
       (["res.payload"], "=", ["#arg13"]), (["res"], "=", ["nil"])] ∧
    intConst? "exIllegalFunction" = some 1 ∧ intConst? "BIG_ENDIAN" = some 1 := by
  refine ⟨?_, ?_, ?_, ?_, ?_, ?_, ?_, ?_, ?_, ?_⟩ <;> decide +kernel

/-- the whole function is the loop around these arms: every operation on the response belongs to one of them -/
theorem C03B_static_cover :
    resOps gsp_ModbusServer_handleTransport =
      resOps gArm12 ++ resOps gArm5 ++ resOps gArm15 ++ resOps gArm34 ++ resOps gArm6 ++ resOps gArm16 ++
        resOps gArmDef ++ resOps gTail := by
  decide +kernel

/-- **nothing writes to the request**: the only assigned names of the function; `req` itself is assigned twice
    (`req, err = t.ReadRequest()` and `req = nil` after the response is written), no `req.…` leaf ever -/
theorem C03B_static_req_untouched :
    (targetsOf gsp_ModbusServer_handleTransport).eraseDups =
      ["req", "err", "addr", "quantity", "coils", "resCount", "res", "res.unitId", "res.functionCode", "#arg10",
       "res.payload", "res.payload[0]", "#arg11", "_", "#arg9", "expectedLen", "#arg7", "#arg8", "regs", "#arg5",
       "#arg6", "value", "#arg3", "#arg4", "#arg1", "#arg2", "#arg0", "#arg12", "#arg13"] ∧
    (targetsOf gsp_ModbusServer_handleTransport).filter (fun x => "req".toList.isPrefixOf x.toList) =
      ["req", "req"] ∧
    (targetsOf gsp_ModbusServer_handleTransport).all (fun x => !("req.".toList.isPrefixOf x.toList)) = true := by
  decide +kernel

/-- the element stores: the instrumentation added exactly three pseudo-calls, each directly after an assignment
    to `res.payload[0]`; in the generated term each such assignment follows `res.payload = []byte{0}` of the same
    arm with no `append` in between (`C03B_static_ops`: arms 1/2 and 3/4), so the slice has length one -/
theorem C03B_static_stores :
    (bindCalls srvGsB).length = (bindCalls gsp_ModbusServer_handleTransport).length + 3 ∧
    (resOps srvGsB).filter (fun c => c.1 == ["res.payload"] && c.2.1 == "bytes") =
      [(["res.payload"], "bytes", ["res.payload[0]"]), (["res.payload"], "bytes", ["res.payload[0]"]),
       (["res.payload"], "bytes", ["res.payload[0]"])] ∧
    ((resOps gsp_ModbusServer_handleTransport).filter (fun c => c.1 == ["res.payload[0]"])).length = 3 := by
  decide +kernel

/-! ## 5. sensitivity -/

/-- replace the expression of the assignments `x = e` whose expression reads `old` -/
def substAssign (x old : String) (new : GExpr) : GStmt → GStmt
  | .assign y e => if y = x ∧ showE e = old then .assign y new else .assign y e
  | .seq a b => .seq (substAssign x old new a) (substAssign x old new b)
  | .ite c t e => .ite c (substAssign x old new t) (substAssign x old new e)
  | .loop b => .loop (substAssign x old new b)
  | s => s

/-- replace the arguments of the calls `ts = f(old…)` -/
def substCall (ts : List String) (f : String) (old : List String) (new : List GExpr) : GStmt → GStmt
  | .bindCall ts' f' as => if ts' = ts ∧ f' = f ∧ as.map showE = old then .bindCall ts' f' new else .bindCall ts' f' as
  | .seq a b => .seq (substCall ts f old new a) (substCall ts f old new b)
  | .ite c t e => .ite c (substCall ts f old new t) (substCall ts f old new e)
  | .loop b => .loop (substCall ts f old new b)
  | s => s

/-- one iteration of (a variant `g` of) the generated function on a concrete request and handler answer:
    seeds `[empty slice, result]`, left-over `addr` = `quantity` = 0 -/
def respOf (g : GStmt) (unit fc : Byte) (pl : Bytes) (l : List Int) (herr : String) : Option Action :=
  (builtB (execFromW (sliceWorld (srvExtB pl 1 herr)) 80 (withStore0 "res.payload" "res.payload[0]" g)
    (reqEnvBOf 0 unit fc pl 0 0 l.length) [seedInput [], seedInput l])).2

abbrev G := gsp_ModbusServer_handleTransport

/-- textbook runs of the generated term -/
theorem C03B_sample_runs :
    -- read holding registers 0x006B.., 3 registers
    respOf G 0x11 0x03 [0x00, 0x6B, 0x00, 0x03] [0x022B, 0x0000, 0x0064] "nil" =
      some (.respond ⟨0x11, 0x03, [0x06, 0x02, 0x2B, 0x00, 0x00, 0x00, 0x64]⟩) ∧
    -- write single coil 0x00AC on: echo
    respOf G 0x11 0x05 [0x00, 0xAC, 0xFF, 0x00] [] "nil" = some (.respond ⟨0x11, 0x05, [0x00, 0xAC, 0xFF, 0x00]⟩) ∧
    -- write single register: echo
    respOf G 0x11 0x06 [0x00, 0x01, 0x00, 0x03] [] "nil" = some (.respond ⟨0x11, 0x06, [0x00, 0x01, 0x00, 0x03]⟩) ∧
    -- write multiple registers: address and quantity
    respOf G 0x11 0x10 [0x00, 0x01, 0x00, 0x02, 0x04, 0x00, 0x0A, 0x01, 0x02] [] "nil" =
      some (.respond ⟨0x11, 0x10, [0x00, 0x01, 0x00, 0x02]⟩) ∧
    -- write multiple coils
    respOf G 0x11 0x0F [0x00, 0x13, 0x00, 0x0A, 0x02, 0xCD, 0x01] [] "nil" =
      some (.respond ⟨0x11, 0x0F, [0x00, 0x13, 0x00, 0x0A]⟩) := by
  decide +kernel
/-- read coils 20–38 (19 coils, `CD 6B 05`): byte count 3 -/
theorem C03B_sample_coils :
    respOf G 0x11 0x01 [0x00, 0x13, 0x00, 0x13]
      [1, 0, 1, 1, 0, 0, 1, 1,  1, 1, 0, 1, 0, 1, 1, 0,  1, 0, 1] "nil" =
      some (.respond ⟨0x11, 0x01, [0x03, 0xCD, 0x6B, 0x05]⟩) := by
  decide +kernel
/-- exception paths and handler failures on concrete requests -/
theorem C03B_sample_exceptions :
    -- quantity 126 > 125: closed, no response
    respOf G 0x11 0x03 [0x00, 0x00, 0x00, 0x7E] [] "nil" = some .close ∧
    -- quantity 0: closed
    respOf G 0x11 0x01 [0x00, 0x00, 0x00, 0x00] [] "nil" = some .close ∧
    -- 0xFFFF + 2 registers: illegal data address
    respOf G 0x11 0x03 [0xFF, 0xFF, 0x00, 0x02] [] "nil" = some (.respond ⟨0x11, 0x83, [0x02]⟩) ∧
    -- function code 0x2B: illegal function
    respOf G 0x11 0x2B [0x0E, 0x01, 0x00] [] "nil" = some (.respond ⟨0x11, 0xAB, [0x01]⟩) ∧
    -- coil value 0x1234: closed
    respOf G 0x11 0x05 [0x00, 0xAC, 0x12, 0x34] [] "nil" = some .close ∧
    -- byte count 3 for two registers: closed
    respOf G 0x11 0x10 [0x00, 0x01, 0x00, 0x02, 0x03, 0x00, 0x0A, 0x01, 0x02] [] "nil" = some .close ∧
    -- the handler returns 2 registers for 3: server device failure
    respOf G 0x11 0x03 [0x00, 0x6B, 0x00, 0x03] [0x022B, 0x0000] "nil" = some (.respond ⟨0x11, 0x83, [0x04]⟩) ∧
    -- the handler returns ErrIllegalDataValue / ErrServerDeviceBusy / a non-modbus error
    respOf G 0x11 0x03 [0x00, 0x6B, 0x00, 0x03] [] "ErrIllegalDataValue" = some (.respond ⟨0x11, 0x83, [0x03]⟩) ∧
    respOf G 0x11 0x06 [0x00, 0x01, 0x00, 0x03] [] "ErrServerDeviceBusy" = some (.respond ⟨0x11, 0x86, [0x06]⟩) ∧
    respOf G 0x11 0x0F [0x00, 0x13, 0x00, 0x0A, 0x02, 0xCD, 0x01] [] "io-other" =
      some (.respond ⟨0x11, 0x8F, [0x04]⟩) ∧
    -- F8: the handler returns ErrProtocolError: closed, no response
    respOf G 0x11 0x03 [0x00, 0x6B, 0x00, 0x03] [] "ErrProtocolError" = some .close := by
  decide +kernel

/-- byte count taken from the requested quantity instead of the encoded length (registers / coils) -/
def vCountFromQuantityRegs : GStmt :=
  substAssign "res.payload[0]" "uint8((resCount * 2))" (.conv .u8 (.var "quantity" .u16)) G
def vCountFromQuantityCoils : GStmt :=
  substAssign "res.payload[0]" "uint8((resCount / 8))" (.conv .u8 (.var "quantity" .u16)) G
/-- exception function code without `| 0x80` -/
def vNoExceptionBit : GStmt :=
  substAssign "res.functionCode" "(128 | req.functionCode)" (.var "req.functionCode" .u8) G
/-- register bytes little-endian -/
def vLittleEndian : GStmt :=
  substCall ["#arg6"] "uint16sToBytes" ["1", "regs"] [.lit 2 .uint, .var "regs" .other] G
/-- echo of the wrong bytes: value bytes exchanged (fc 5), quantity replaced by the address (fc 16) -/
def vEchoSwapped : GStmt :=
  substCall ["res.payload"] "append" ["res.payload", "req.payload[2]", "req.payload[3]"]
    [.var "res.payload" .other, .var "req.payload[3]" .u8, .var "req.payload[2]" .u8] G
def vEchoAddrTwice : GStmt :=
  substCall ["#arg2"] "uint16ToBytes" ["1", "quantity"] [.lit 1 .uint, .var "addr" .u16] G

/-- positions at which two operation lists differ: (index, old, new) -/
def opsDiff (a b : List (List String × String × List String)) :
    List (Nat × (List String × String × List String) × (List String × String × List String)) :=
  ((List.range a.length).zip (a.zip b)).filter (fun x => x.2.1 != x.2.2)

/-- the variants differ from the generated term in the intended operation only (and have as many operations) -/
theorem C03B_variants :
    opsDiff (resOps G) (resOps vCountFromQuantityRegs) =
      [(27, (["res.payload[0]"], "=", ["uint8((resCount * 2))"]), (["res.payload[0]"], "=", ["uint8(quantity)"]))] ∧
    opsDiff (resOps G) (resOps vCountFromQuantityCoils) =
      [(5, (["res.payload[0]"], "=", ["uint8((resCount / 8))"]), (["res.payload[0]"], "=", ["uint8(quantity)"]))] ∧
    (opsDiff (resOps G) (resOps vNoExceptionBit)).map (fun x => (x.2.1.2.2, x.2.2.2.2)) =
      [(["(128 | req.functionCode)"], ["req.functionCode"]), (["(128 | req.functionCode)"], ["req.functionCode"])] ∧
    (opsDiff (resOps G) (resOps vLittleEndian)).map (fun x => (x.2.1, x.2.2)) =
      [((["#arg6"], "uint16sToBytes", ["1", "regs"]), (["#arg6"], "uint16sToBytes", ["2", "regs"]))] ∧
    (opsDiff (resOps G) (resOps vEchoSwapped)).map (fun x => (x.2.1.2.2, x.2.2.2.2)) =
      [(["res.payload", "req.payload[2]", "req.payload[3]"], ["res.payload", "req.payload[3]", "req.payload[2]"])] ∧
    (opsDiff (resOps G) (resOps vEchoAddrTwice)).map (fun x => (x.2.1, x.2.2)) =
      [((["#arg2"], "uint16ToBytes", ["1", "quantity"]), (["#arg2"], "uint16ToBytes", ["1", "addr"]))] ∧
    [vCountFromQuantityRegs, vCountFromQuantityCoils, vNoExceptionBit, vLittleEndian, vEchoSwapped,
      vEchoAddrTwice].map (fun v => ((resOps v).length, (bindCalls v).length)) =
      List.replicate 6 ((resOps G).length, (bindCalls G).length) := by
  refine ⟨?_, ?_, ?_, ?_, ?_, ?_, ?_⟩ <;> decide +kernel

/-- … and each of them answers a textbook request with different bytes -/
theorem C03B_sensitive :
    respOf vCountFromQuantityRegs 0x11 0x03 [0x00, 0x6B, 0x00, 0x03] [0x022B, 0x0000, 0x0064] "nil" =
      some (.respond ⟨0x11, 0x03, [0x03, 0x02, 0x2B, 0x00, 0x00, 0x00, 0x64]⟩) ∧
    respOf vCountFromQuantityCoils 0x11 0x01 [0x00, 0x13, 0x00, 0x13]
      [1, 0, 1, 1, 0, 0, 1, 1,  1, 1, 0, 1, 0, 1, 1, 0,  1, 0, 1] "nil" =
      some (.respond ⟨0x11, 0x01, [0x14, 0xCD, 0x6B, 0x05]⟩) ∧
    respOf vNoExceptionBit 0x11 0x03 [0xFF, 0xFF, 0x00, 0x02] [] "nil" = some (.respond ⟨0x11, 0x03, [0x02]⟩) ∧
    respOf vNoExceptionBit 0x11 0x2B [0x0E, 0x01, 0x00] [] "nil" = some (.respond ⟨0x11, 0x2B, [0x01]⟩) ∧
    respOf vLittleEndian 0x11 0x03 [0x00, 0x6B, 0x00, 0x03] [0x022B, 0x0000, 0x0064] "nil" =
      some (.respond ⟨0x11, 0x03, [0x06, 0x2B, 0x02, 0x00, 0x00, 0x64, 0x00]⟩) ∧
    respOf vEchoSwapped 0x11 0x05 [0x00, 0xAC, 0xFF, 0x00] [] "nil" =
      some (.respond ⟨0x11, 0x05, [0x00, 0xAC, 0x00, 0xFF]⟩) ∧
    respOf vEchoAddrTwice 0x11 0x10 [0x00, 0x01, 0x00, 0x02, 0x04, 0x00, 0x0A, 0x01, 0x02] [] "nil" =
      some (.respond ⟨0x11, 0x10, [0x00, 0x01, 0x00, 0x01]⟩) := by
  decide +kernel
/-- the frame the generated `assembleMBAPFrame` builds from the final state of an iteration (the composition of
    `C03B_frame`, on concrete inputs) -/
def wireOf (g : GStmt) (txn : U16) (unit fc : Byte) (pl : Bytes) (l : List Int) (herr : String) : Option Bytes :=
  let r := execFromW (sliceWorld (srvExtB pl 1 herr)) 80 (withStore0 "res.payload" "res.payload[0]" g)
    (reqEnvBOf 0 unit fc pl 0 0 l.length) [seedInput [], seedInput l]
  match builtAction r with
  | some (.respond p) =>
    let w := execFromW (sliceWorld (fun _ _ _ => none)) 16 gsp_tcpTransport_assembleMBAPFrame
      [("txnId", .int txn.toNat), ("p.payload", Env.read r.env "res.payload"),
       ("len(p.payload)", .int p.payload.length), ("p.unitId", Env.read r.env "res.unitId"),
       ("p.functionCode", Env.read r.env "res.functionCode")] r.calls
    (match Env.read w.env "payload" with
     | .int h => bytesAt w.calls h.toNat
     | _ => none)
  | _ => none

theorem C03B_sample_wire :
    wireOf G 0x0001 0x11 0x03 [0x00, 0x6B, 0x00, 0x03] [0x022B, 0x0000, 0x0064] "nil" =
      some [0x00, 0x01, 0x00, 0x00, 0x00, 0x09, 0x11, 0x03, 0x06, 0x02, 0x2B, 0x00, 0x00, 0x00, 0x64] ∧
    wireOf G 0xBEEF 0x11 0x03 [0xFF, 0xFF, 0x00, 0x02] [] "nil" =
      some [0xBE, 0xEF, 0x00, 0x00, 0x00, 0x03, 0x11, 0x83, 0x02] ∧
    wireOf G 0x0001 0x11 0x03 [0x00, 0x00, 0x00, 0x7E] [] "nil" = none := by
  decide +kernel

/-- answers `t.WriteResponse` once (the loop goes on to a second request), then cuts -/
def twoRoundsExt (pl : Bytes) : World := fun cs f args =>
  if f = "t.WriteResponse" then (if wasCalled "t.WriteResponse" cs then none else some [.sym "nil"])
  else srvExtB pl 1 "nil" cs f args

/-- CAVEAT of the text-keyed rendering (why every theorem here is about ONE iteration from an entry environment
    that binds `res.payload` to the empty slice): `res = &pdu{unitId: …, functionCode: …}` of the write arms is
    rendered as `res = <literal>; res.unitId = …; res.functionCode = …` — nothing re-binds the key `res.payload`,
    which in Go is nil in the fresh object. Evaluated over TWO rounds in one environment (same write-single-register
    request twice) the second response would carry both echoes. This is a property of the rendering, not of the
    source: the Go program allocates a new `pdu` per round. -/
theorem C03B_caveat_stale_payload :
    builtAction (execFromW (sliceWorld (twoRoundsExt [0x00, 0x01, 0x00, 0x03])) 200 srvGsB
      (reqEnvBOf 0 0x11 0x06 [0x00, 0x01, 0x00, 0x03] 0 0 0) [seedInput [], seedInput []]) =
      some (.respond ⟨0x11, 0x06, [0x00, 0x01, 0x00, 0x03, 0x00, 0x01, 0x00, 0x03]⟩) ∧
    respOf G 0x11 0x06 [0x00, 0x01, 0x00, 0x03] [] "nil" = some (.respond ⟨0x11, 0x06, [0x00, 0x01, 0x00, 0x03]⟩) := by
  decide +kernel
end Modbus.Props.C03

#print axioms Modbus.Props.C03.C03B_instr
#print axioms Modbus.Props.C03.C03B_response_bytes
#print axioms Modbus.Props.C03.C03B_response_bytes_of_model
#print axioms Modbus.Props.C03.C03B_response_classified
#print axioms Modbus.Props.C03.C03B_reply_shapes
#print axioms Modbus.Props.C03.C03B_exception_bytes
#print axioms Modbus.Props.C03.C03B_exception_causes
#print axioms Modbus.Props.C03.C03B_frame
#print axioms Modbus.Props.C03.C03B_frame_model
#print axioms Modbus.Props.C03.C03B_static_ops
#print axioms Modbus.Props.C03.C03B_static_cover
#print axioms Modbus.Props.C03.C03B_static_req_untouched
#print axioms Modbus.Props.C03.C03B_static_stores
#print axioms Modbus.Props.C03.C03B_sample_runs
#print axioms Modbus.Props.C03.C03B_sample_coils
#print axioms Modbus.Props.C03.C03B_sample_exceptions
#print axioms Modbus.Props.C03.C03B_variants
#print axioms Modbus.Props.C03.C03B_sensitive
#print axioms Modbus.Props.C03.C03B_sample_wire
#print axioms Modbus.Props.C03.C03B_caveat_stale_payload
#print axioms Modbus.Props.C03.mapCodeVal_errSym
#print axioms Modbus.Props.C03.expectB_model
#print axioms Modbus.Props.C03.replyB_eq
#print axioms Modbus.Props.C03.invoke_kind
#print axioms Modbus.Props.C03.built_80
#print axioms Modbus.Props.C03.seedsB_canonical
#print axioms Modbus.GoEval.SrvB.srvB_strip
#print axioms Modbus.GoEval.SrvB.srvB_frame
