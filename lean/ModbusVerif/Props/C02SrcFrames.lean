import ModbusVerif.Lemmas.GoEvalFrameLemmas
import ModbusVerif.Lemmas.MbapLemmas
import ModbusVerif.Lemmas.RtuLemmas
/-
  C02, source tie for the FRAME READERS: `tcpTransport.readMBAPFrame`, `rtuTransport.readRTUFrame`
  and the RTU length table `expectedResponseLenth`, as rendered by the translator
  (`Gen.gs_tcpTransport_readMBAPFrame`, `Gen.gs_rtuTransport_readRTUFrame`,
  `Gen.gs_expectedResponseLenth`, regenerated from /repo on every run), are EVALUATED by
  `Modbus.GoEval` against a byte stream and proved equal, for ALL streams and endings, to the
  hand-written models `Mbap.readFrame`, `Rtu.readFrame`, `Rtu.expectedResponseLength`, about which
  Props/C02.lean and the framing lemmas prove the properties.

  1. `C02F_expectedResponseLenth`: the `switch` of the source, run for every pair of bytes.
  2. `C02F_readMBAPFrame`, 3. `C02F_readRTUFrame`: verdict and unread remainder of the stream.
  4. `C02F_staleReads`: which buffer every text-keyed leaf denotes.
  5. consequences spelled out (order of the MBAP checks), 6. sensitivity (variants derived from the
     generated terms are told apart), 7. concrete runs.

  How the stream is threaded (Lemmas/GoEvalFrameLemmas.lean, `staged`): the oracle is stateless,
  so the function is run in STAGES. Stage k answers the first k `io.ReadFull` calls (recognised by
  the value of their buffer argument; every opaque leaf is bound to the symbol of its own source
  text) and stops at the (k+1)-th; the length of that read is computed from the environment AT
  THE STOP (`mbapBufLen` / `rtuBufLen`: the constant `mbapHeaderLength`, the literal 3, or the
  current value of `bytesNeeded`), its result is `Strm.readFull n rest e` on the unread part of the
  stream: `(len got, nil)` or `(len got, shortErr …)` — `io.EOF` when nothing was read,
  `io.ErrUnexpectedEOF` after a partial read, the timeout / other error otherwise — and the bytes
  go to a heap from which the NEXT stage's environment derives the byte leaves (`rxbuf[6]`,
  `rxbuf[1]`, `bytesToUint16(BIG_ENDIAN, rxbuf[4:6])`, the CRC leaf). Neither the lengths nor the
  order of the reads are assumed.

  What is modelled (not derived from the generated terms):
  * `io.ReadFull` = `Strm.readFull` (C12 relates it to arbitrary segmentations);
  * the four i/o error values are pairwise distinct symbols (`errSym`), and
    `io.ErrUnexpectedEOF` (not a constant of the package) is bound to its symbol;
  * `bytesToUint16(BIG_ENDIAN, b)` = `mk16 b[0] b[1]` (`mbapPure`; proved about encoding.go in C17);
  * `crc.init(); crc.add(x); crc.isEqual(l, h)` = `Crc.isEqual (Crc.add Crc.init x) l h`
    (`crcLeaf`; crc.go is tied to `Crc` in C03), `rtuVerdict` checks that both calls were made;
  * `expectedResponseLenth` inside `readRTUFrame` is NOT modelled: the oracle runs
    `gs_expectedResponseLenth` (`erlAnswer`);
  * a composite literal `&pdu{…}` is one opaque leaf: `mbapVerdict` / `rtuVerdict` read its field
    texts back (`litField`) and resolve them in the final environment and heap.
-/
set_option linter.unusedSimpArgs false
set_option linter.unusedVariables false

namespace Modbus.Props.C02
open Modbus Modbus.Gen Modbus.GoEval Modbus.Strm

/-! ## 1. `expectedResponseLenth` -/

/-- no call is answered (`expectedResponseLenth` calls nothing) -/
def noOracle : Oracle := fun _ _ => none

/-- parameters and (zero-valued) named results of `expectedResponseLenth` -/
def erlEnv (rc rl : Int) : Env :=
  [("responseCode", .int rc), ("responseLength", .int rl), ("byteCount", .int 0), ("err", .sym "nil")]

/-- `(byteCount, err)` as the model gives them -/
def erlVals : Except Err Nat → Val × Val
  | .ok n => (.int n, .sym "nil")
  | .error e => (.int 0, .sym (errSym e))
def erlModel (rc rl : Byte) : Val × Val := erlVals (Rtu.expectedResponseLength rc rl)

theorem erlVals_ite (p : Prop) [Decidable p] (x y : Except Err Nat) :
    erlVals (if p then x else y) = if p then erlVals x else erlVals y := by
  split <;> rfl
theorem erlVals_ok (n) : erlVals (.ok n) = (.int n, .sym "nil") := by exact id rfl
theorem erlVals_error (e) : erlVals (.error e) = (.int 0, .sym (errSym e)) := by exact id rfl

def erlObs (r : Res) : End × Calls × Val × Val :=
  (r.how, r.calls, Env.read r.env "byteCount", Env.read r.env "err")
theorem erlObs_ite (p : Prop) [Decidable p] (x y : Res) :
    erlObs (if p then x else y) = if p then erlObs x else erlObs y := by
  split <;> exact id rfl
theorem erlObs_mk (env how cs) : erlObs ⟨env, how, cs⟩ =
    (how, cs, Env.read env "byteCount", Env.read env "err") := by exact id rfl

theorem erl_16 (rc rl : Byte) :
    erlObs (exec noOracle 16 gs_expectedResponseLenth (erlEnv rc.toNat rl.toNat)) =
      (.returned, [], (erlModel rc rl).1, (erlModel rc rl).2) := by
  have h1 := rc.isLt
  have h2 := rl.isLt
  have hw := wrap_int_byte rl
  go_eval_nowrap [gs_expectedResponseLenth, noOracle, erlEnv, hw, erlObs_ite, erlObs_mk,
    Bool.or_eq_true, decide_eq_true_eq]
  simp only [erlModel, Rtu.expectedResponseLength, erlVals_ite, erlVals_ok, erlVals_error, ← BitVec.toNat_inj,
    BitVec.reduceToNat, errSym_protocolError]
  repeat' split
  all_goals first | rfl | (exfalso; omega)


/-- the run of `expectedResponseLenth`, as used by the RTU reader's oracle -/
def erlRun (rc rl : Int) : Res := exec noOracle 16 gs_expectedResponseLenth (erlEnv rc rl)

theorem erlRun_byteCount (rc rl : Byte) :
    Env.read (erlRun rc.toNat rl.toNat).env "byteCount" = (erlModel rc rl).1 :=
  congrArg (fun x => x.2.2.1) (erl_16 rc rl)
theorem erlRun_err (rc rl : Byte) :
    Env.read (erlRun rc.toNat rl.toNat).env "err" = (erlModel rc rl).2 :=
  congrArg (fun x => x.2.2.2) (erl_16 rc rl)

/-- **`expectedResponseLenth` = `Rtu.expectedResponseLength`**, by evaluation of the `switch` of
    the current source: for every response code and length byte the run returns, calls nothing,
    and ends with `(byteCount, err)` = `(n, nil)` when the model says `ok n`, and
    `(0, ErrProtocolError)` when the model says `error protocolError` (the model has no other
    error). -/
theorem C02F_expectedResponseLenth (responseCode responseLength : Byte) (fuel : Nat)
    (hf : 16 ≤ fuel) :
    let res := exec noOracle fuel gs_expectedResponseLenth
      (erlEnv responseCode.toNat responseLength.toNat)
    res.how = .returned ∧ res.calls = [] ∧
    (match Rtu.expectedResponseLength responseCode responseLength with
     | .ok n => Env.read res.env "byteCount" = .int n ∧ Env.read res.env "err" = .sym "nil"
     | .error e => e = .protocolError ∧ Env.read res.env "byteCount" = .int 0 ∧
         Env.read res.env "err" = .sym "ErrProtocolError") := by
  have h16 := erl_16 responseCode responseLength
  have hm := exec_mono noOracle 16 fuel gs_expectedResponseLenth
    (erlEnv responseCode.toNat responseLength.toNat) hf
    (by have := congrArg (fun x => x.1) h16
        simp only [erlObs] at this
        rw [this]; exact fun h => nomatch h)
  simp only [hm]
  have e1 := congrArg (fun x => x.1) h16
  have e2 := congrArg (fun x => x.2.1) h16
  have e3 := congrArg (fun x => x.2.2.1) h16
  have e4 := congrArg (fun x => x.2.2.2) h16
  simp only [erlObs] at e1 e2 e3 e4
  refine ⟨e1, e2, ?_⟩
  rw [e3, e4]
  simp only [erlModel]
  have hmodel : ∀ e, Rtu.expectedResponseLength responseCode responseLength = .error e →
      e = .protocolError := by
    intro e
    simp only [Rtu.expectedResponseLength]
    repeat' split
    all_goals intro h; first | (injection h with h; exact h.symm) | exact nomatch h
  cases hx : Rtu.expectedResponseLength responseCode responseLength with
  | ok n => exact ⟨rfl, rfl⟩
  | error e =>
    have := hmodel e hx
    subst this
    exact ⟨rfl, rfl, rfl⟩

/-! ## 2. `tcpTransport.readMBAPFrame` -/

/-- the two buffers: every opaque leaf is bound to the symbol of its own text -/
def mbapBuf1 : Val := .sym "make([]byte, mbapHeaderLength)"
def mbapBuf2 : Val := .sym "make([]byte, bytesNeeded)"
def mbapLit : String := "&pdu{ unitId: unitId, functionCode: rxbuf[0], payload: rxbuf[1:], }"

/-- environment of a stage; `h` = content of the HEADER buffer (`heapGet heap mbapBuf1`; empty
    heap: `getD … 0` = the zero bytes of a fresh `make`). The leaves `rxbuf[0:2]`, `rxbuf[2:4]`,
    `rxbuf[6]` and `bytesToUint16(BIG_ENDIAN, rxbuf[4:6])` are read only between the first read
    and the re-assignment of `rxbuf` (`mbap_leaf_phases`): they denote the header buffer. -/
def mbapEnv (h : Bytes) : Env :=
  [("tt.socket", .sym "tt.socket"),
   ("make([]byte, mbapHeaderLength)", mbapBuf1),
   ("make([]byte, bytesNeeded)", mbapBuf2),
   ("rxbuf[0:2]", .sym "rxbuf[0:2]"),
   ("rxbuf[2:4]", .sym "rxbuf[2:4]"),
   ("rxbuf[6]", .int (h.getD 6 0).toNat),
   ("bytesToUint16(BIG_ENDIAN, rxbuf[4:6])", .int (mk16 (h.getD 4 0) (h.getD 5 0)).toNat),
   (mbapLit, .sym mbapLit),
   ("p", .sym "nil"), ("txnId", .int 0), ("err", .sym "nil")]

/-- `bytesToUint16(BIG_ENDIAN, hdr[0:2])`, `…hdr[2:4]`: big-endian words of the header bytes
    (`BIG_ENDIAN` = 1, `mbap_consts`) -/
def mbapPure (h : Bytes) : Oracle := fun f args =>
  if f = "bytesToUint16" then
    (if args = [.int 1, .sym "rxbuf[0:2]"] then
       some [.int (mk16 (h.getD 0 0) (h.getD 1 0)).toNat]
     else if args = [.int 1, .sym "rxbuf[2:4]"] then
       some [.int (mk16 (h.getD 2 0) (h.getD 3 0)).toNat]
     else none)
  else none

/-- length of the buffer passed to `io.ReadFull`: `make([]byte, mbapHeaderLength)` has the
    constant's length, `make([]byte, bytesNeeded)` the CURRENT value of `bytesNeeded`
    (a negative length is a Go panic: no answer) -/
def mbapBufLen (env : Env) (b : Val) : Option Nat :=
  if b = mbapBuf1 then (intConst? "mbapHeaderLength").map Int.toNat
  else if b = mbapBuf2 then
    (match Env.read env "bytesNeeded" with
     | .int n => if 0 ≤ n then some n.toNat else none
     | _ => none)
  else none

def mbapStage (fuel : Nat) (heap : Heap) (ans : Answers) : Res :=
  exec (readOracle (mbapPure (heapGet heap mbapBuf1)) ans) fuel gs_tcpTransport_readMBAPFrame
    (mbapEnv (heapGet heap mbapBuf1))

/-- `readMBAPFrame` on the stream `s` ending with `e` (at most two reads are answered) -/
def mbapRun (fuel : Nat) (s : Bytes) (e : Ending) : Run :=
  staged (mbapStage fuel) mbapBufLen e 2 [] [] s

/-- what the caller of `readMBAPFrame` sees, and what is left on the stream.
    `err = nil`: `p` is the composite literal `mbapLit`, whose fields are resolved HERE:
    `unitId` is the variable, `rxbuf[0]` / `rxbuf[1:]` index the buffer that `rxbuf` denotes at
    the end of the run (looked up in the heap). -/
def mbapVerdict (r : Run) : Option (Mbap.Frame × Bytes) :=
  match r.res.how with
  | .returned =>
    match Env.read r.res.env "err" with
    | .sym e =>
      if e = "nil" then
        match Env.read r.res.env "p", Env.read r.res.env "unitId", Env.read r.res.env "txnId" with
        | .sym lit, .int u, .int t =>
          if litField lit "unitId" = some "unitId" ∧ litField lit "functionCode" = some "rxbuf[0]"
              ∧ litField lit "payload" = some "rxbuf[1:]" then
            some (.ok ⟨byteOfNat u.toNat, (heapGet r.heap (Env.read r.res.env "rxbuf")).getD 0 0,
                       (heapGet r.heap (Env.read r.res.env "rxbuf")).drop 1⟩ (u16OfNat t.toNat),
                  r.rest)
          else none
        | _, _, _ => none
      else (symErr e).map (fun x => (.err x, r.rest))
    | _ => none
  | _ => none

theorem mbap_consts : intConst? "mbapHeaderLength" = some 7 ∧ intConst? "maxTCPFrameLength" = some 260
    ∧ intConst? "BIG_ENDIAN" = some 1 := by decide
theorem mbap_hdrLen : (intConst? "mbapHeaderLength").map Int.toNat = some 7 := by decide
theorem mbapLit_fields : litField mbapLit "unitId" = some "unitId" ∧
    litField mbapLit "functionCode" = some "rxbuf[0]" ∧ litField mbapLit "payload" = some "rxbuf[1:]" := by
  decide +kernel

/-- evaluate the stages of an MBAP run -/
syntax "mbap_eval" " [" Lean.Parser.Tactic.simpLemma,* "]" : tactic
macro_rules
  | `(tactic| mbap_eval [$ls,*]) => `(tactic|
    go_eval_nowrap [mbapStage, gs_tcpTransport_readMBAPFrame, mbapEnv, mbapPure,
      readOracle, mbapBufLen, mbapBuf1, mbapBuf2, mbapLit, mbap_hdrLen,
      ansLookup_nil, ansLookup_cons, heapGet_nil, heapGet_cons, heapLen_nil, heapLen_cons,
      nextRead_stopped, nextRead_returned, nextRead_stuck, nextRead_fell, nextRead_ite,
      rfVals_ok, rfVals_short, RF_got_ok, RF_got_short, RF_rest_ok, RF_rest_short,
      List.getD_cons_zero, List.getD_cons_succ, List.getD_nil, Val.sym.injEq, Val.int.injEq,
      List.cons.injEq, ne_eq, not_false_eq_true, not_true_eq_false, Option.map_some, Option.map_none, Int.toNat_natCast,
      errSym_ioEOF, errSym_ioUnexpectedEOF, errSym_ioTimeout, errSym_ioOther, $ls,*])

theorem mbapLit_unit : litField "&pdu{ unitId: unitId, functionCode: rxbuf[0], payload: rxbuf[1:], }"
    "unitId" = some "unitId" := by decide +kernel
theorem mbapLit_fc : litField "&pdu{ unitId: unitId, functionCode: rxbuf[0], payload: rxbuf[1:], }"
    "functionCode" = some "rxbuf[0]" := by decide +kernel
theorem mbapLit_payload : litField "&pdu{ unitId: unitId, functionCode: rxbuf[0], payload: rxbuf[1:], }"
    "payload" = some "rxbuf[1:]" := by decide +kernel

/-- read the verdict off an evaluated run (a separate `simp` pass, after `mbap_eval`) -/
syntax "mbap_verdict" " [" Lean.Parser.Tactic.simpLemma,* "]" : tactic
macro_rules
  | `(tactic| mbap_verdict [$ls,*]) => `(tactic|
    simp only [mbapVerdict, write_def, symErr, read_def, read?_cons, read?_nil, String.reduceEq,
      ↓reduceIte, Option.getD_some, Option.getD_none, Option.map_some, Option.map_none,
      mbapLit_unit, mbapLit_fc, mbapLit_payload, and_self, ne_eq, not_true_eq_false,
      not_false_eq_true, heapGet_cons, heapGet_nil,
      Val.sym.injEq, Int.toNat_natCast, byteOfNat_toNat, u16OfNat_toNat', $ls,*])

theorem mbap_stage0 : nextRead mbapBufLen (mbapStage 64 [] []) = some (mbapBuf1, 7) := by
  mbap_eval []

theorem mbap_short_hdr (s : Bytes) (e : Ending) (h : s.length < 7) :
    mbapVerdict (mbapRun 64 s e) = some (Mbap.readFrame s e) := by
  rw [Mbap.readFrame_short7 e h]
  unfold mbapRun
  rw [staged_next _ _ _ _ _ _ _ _ _ mbap_stage0, readFull_short_of_lt e h]
  rcases shortErr_cases s.length e with he | he | he | he <;> rw [he]
  · rw [staged_done]
    · mbap_eval []
      mbap_verdict []
    · mbap_eval []
  all_goals (rw [staged_done]; (· mbap_eval []; mbap_verdict []); (· mbap_eval []))



theorem u16_toNat_eq_zero (v : U16) : ((v.toNat : Int) = 0) ↔ v = 0 := by
  constructor
  · intro h; exact BitVec.eq_of_toNat_eq (by simp; omega)
  · intro h; rw [h]; rfl

theorem mbap_full_hdr (b0 b1 b2 b3 b4 b5 b6 : Byte) (tl : Bytes) (e : Ending) :
    mbapVerdict (mbapRun 64 (b0 :: b1 :: b2 :: b3 :: b4 :: b5 :: b6 :: tl) e) =
      some (Mbap.readFrame (b0 :: b1 :: b2 :: b3 :: b4 :: b5 :: b6 :: tl) e) := by
  have hL := (mk16 b4 b5).isLt
  have hw1 := wrap_int_u16 (mk16 b4 b5)
  have hw2 : wrap .int (((mk16 b4 b5).toNat : Int) - 1) = ((mk16 b4 b5).toNat : Int) - 1 :=
    wrap_int (by omega) (by omega)
  have hw3 : wrap .int (((mk16 b4 b5).toNat : Int) - 1 + 7) = ((mk16 b4 b5).toNat : Int) - 1 + 7 :=
    wrap_int (by omega) (by omega)
  have hrf : readFull 7 (b0 :: b1 :: b2 :: b3 :: b4 :: b5 :: b6 :: tl) e =
      .ok [b0, b1, b2, b3, b4, b5, b6] tl :=
    readFull_append' [b0, b1, b2, b3, b4, b5, b6] tl e rfl
  unfold mbapRun
  rw [staged_next _ _ _ _ _ _ _ _ _ mbap_stage0, hrf]
  simp only [RF_got_ok, RF_rest_ok, rfVals_ok, List.nil_append]
  by_cases c1 : ((mk16 b4 b5).toNat : Int) - 1 + 7 > 260
  · rw [Mbap.readFrame_cons7_badlen e (Or.inl (by omega)), staged_done]
    · mbap_eval [hw1, hw2, hw3, c1]
      mbap_verdict []
    · mbap_eval [hw1, hw2, hw3, c1]
  · by_cases c2 : ((mk16 b4 b5).toNat : Int) - 1 ≤ 0
    · rw [Mbap.readFrame_cons7_badlen e (Or.inr (by omega)), staged_done]
      · mbap_eval [hw1, hw2, hw3, c1, c2]
        mbap_verdict []
      · mbap_eval [hw1, hw2, hw3, c1, c2]
    · have c0 : (0 : Int) ≤ ((mk16 b4 b5).toNat : Int) - 1 := by omega
      have ht : (((mk16 b4 b5).toNat : Int) - 1).toNat = (mk16 b4 b5).toNat - 1 := by omega
      have hnext : nextRead mbapBufLen (mbapStage 64
          [(mbapBuf1, 7, [b0, b1, b2, b3, b4, b5, b6])]
          [(mbapBuf1, [.int ([b0, b1, b2, b3, b4, b5, b6] : Bytes).length, .sym "nil"])]) =
          some (mbapBuf2, (mk16 b4 b5).toNat - 1) := by
        mbap_eval [hw1, hw2, hw3, c1, c2, c0, ht]
      rw [staged_next _ _ _ _ _ _ _ _ _ hnext]
      by_cases hs : tl.length < (mk16 b4 b5).toNat - 1
      · rw [Mbap.readFrame_cons7_short e (by omega) (by omega) hs, readFull_short_of_lt e hs,
          staged_zero]
        simp only [RF_got_short, RF_rest_short, rfVals_short, List.cons_append, List.nil_append]
        rcases shortErr_cases tl.length e with he | he | he | he <;> rw [he] <;>
          (mbap_eval [hw1, hw2, hw3, c1, c2]; mbap_verdict [])
      · obtain ⟨body, rest, rfl, hb⟩ : ∃ body rest, tl = body ++ rest ∧
            body.length = (mk16 b4 b5).toNat - 1 :=
          ⟨tl.take ((mk16 b4 b5).toNat - 1), tl.drop ((mk16 b4 b5).toNat - 1),
            (List.take_append_drop _ _).symm, by rw [List.length_take]; omega⟩
        rw [Mbap.readFrame_cons7_ok e (by omega) (by omega) hb, readFull_append' body rest e hb,
          staged_zero]
        simp only [RF_got_ok, RF_rest_ok, rfVals_ok, List.cons_append, List.nil_append]
        by_cases hp : ((mk16 b2 b3).toNat : Int) = 0
        · have hp' : mk16 b2 b3 = 0 := (u16_toNat_eq_zero _).mp hp
          mbap_eval [hw1, hw2, hw3, c1, c2, hp]
          mbap_verdict [hp']
        · have hp' : mk16 b2 b3 ≠ 0 := fun h => hp ((u16_toNat_eq_zero _).mpr h)
          mbap_eval [hw1, hw2, hw3, c1, c2, hp]
          mbap_verdict [hp']


theorem mbap_loopFree : loopFree gs_tcpTransport_readMBAPFrame = true ∧
    depth gs_tcpTransport_readMBAPFrame ≤ 64 := by decide +kernel

theorem mbapRun_fuel (fuel : Nat) (hf : 64 ≤ fuel) (s : Bytes) (e : Ending) :
    mbapRun fuel s e = mbapRun 64 s e := by
  have h : mbapStage fuel = mbapStage 64 := by
    funext heap ans
    exact exec_loopFree _ _ 64 fuel _ mbap_loopFree.1 mbap_loopFree.2 hf
  unfold mbapRun
  rw [h]

theorem mbap_64 (s : Bytes) (e : Ending) :
    mbapVerdict (mbapRun 64 s e) = some (Mbap.readFrame s e) := by
  match s with
  | b0 :: b1 :: b2 :: b3 :: b4 :: b5 :: b6 :: tl => exact mbap_full_hdr b0 b1 b2 b3 b4 b5 b6 tl e
  | [] | [_] | [_, _] | [_, _, _] | [_, _, _, _] | [_, _, _, _, _] | [_, _, _, _, _, _] =>
    exact mbap_short_hdr _ e (by simp)

/-- **`readMBAPFrame` = `Mbap.readFrame`** for every stream `s`, every ending `e` and every
    fuel ≥ 64: the staged run of the CURRENT source (`mbapRun`: header read of
    `mbapHeaderLength` bytes, second read of `bytesNeeded` bytes, both lengths taken from the
    run) returns, and its verdict — error symbol, or `nil` with the PDU fields
    (`unitId` = header byte 6, `functionCode` = first byte of the second buffer, `payload` = the
    rest of it) and `txnId` — together with the unread remainder of the stream is exactly what
    the model computes. -/
theorem C02F_readMBAPFrame (s : Bytes) (e : Ending) (fuel : Nat) (hf : 64 ≤ fuel) :
    mbapVerdict (mbapRun fuel s e) = some (Mbap.readFrame s e) := by
  rw [mbapRun_fuel fuel hf]; exact mbap_64 s e


/-! ## 3. `rtuTransport.readRTUFrame` -/

def rtuBuf1 : Val := .sym "rxbuf[0:3]"
def rtuBuf2 : Val := .sym "rxbuf[3 : 3+bytesNeeded]"
def rtuLit : String :=
  "&pdu{ unitId: rxbuf[0], functionCode: rxbuf[1], payload: rxbuf[2 : 3+bytesNeeded-2], }"

/-- `crc.init(); crc.add(rxbuf[0 : 3+bytesNeeded-2]);`
    `crc.isEqual(rxbuf[3+bytesNeeded-2], rxbuf[3+bytesNeeded-1])` on the content `frame` of
    `rxbuf` with `bytesNeeded = bn`: the model's `Crc` functions on exactly these bytes -/
def crcLeaf (frame : Bytes) (bn : Nat) : Bool :=
  Crc.isEqual (Crc.add Crc.init (frame.take (3 + bn - 2))) (frame.getD (3 + bn - 2) 0)
    (frame.getD (3 + bn - 1) 0)

/-- environment of a stage. `h` = bytes stored by the first read into `rxbuf[0:3]`, `body` =
    bytes stored by the second read into `rxbuf[3 : 3+bytesNeeded]`, `bn` = the length requested
    by the second read (= `bytesNeeded` at that call). `rxbuf` is ONE array (assigned once): its
    content is `h ++ body` followed by zeros (`getD … 0`). `rxbuf[1]`, `rxbuf[2]` are read after
    the first read only; the CRC leaf is read only after the second read was complete. -/
def rtuEnv (h body : Bytes) (bn : Nat) : Env :=
  [("rt.link", .sym "rt.link"),
   ("io.ErrUnexpectedEOF", .sym "io.ErrUnexpectedEOF"),
   ("make([]byte, maxRTUFrameLength)", .sym "make([]byte, maxRTUFrameLength)"),
   ("rxbuf[0:3]", rtuBuf1),
   ("rxbuf[3 : 3+bytesNeeded]", rtuBuf2),
   ("rxbuf[1]", .int (h.getD 1 0).toNat),
   ("rxbuf[2]", .int (h.getD 2 0).toNat),
   ("rxbuf[0 : 3+bytesNeeded-2]", .sym "rxbuf[0 : 3+bytesNeeded-2]"),
   ("crc.isEqual(rxbuf[3+bytesNeeded-2], rxbuf[3+bytesNeeded-1])", .ofBool (crcLeaf (h ++ body) bn)),
   (rtuLit, .sym rtuLit),
   ("res", .sym "nil"), ("err", .sym "nil"), ("byteCount", .int 0), ("bytesNeeded", .int 0)]

/-- `(byteCount, err)` at the end of the run of `gs_expectedResponseLenth` (section 1) -/
def erlOut (a b : Int) : Val × Val :=
  (Env.read (erlRun a b).env "byteCount", Env.read (erlRun a b).env "err")

/-- `expectedResponseLenth(a, b)`: the RUN of `gs_expectedResponseLenth` -/
def erlAnswer : List Val → Option (List Val)
  | [.int a, .int b] =>
    if (erlRun a b).how = .returned then some [(erlOut a b).1, (erlOut a b).2] else none
  | _ => none
theorem erlAnswer_int (a b : Int) : erlAnswer [.int a, .int b] =
    if (erlRun a b).how = .returned then some [(erlOut a b).1, (erlOut a b).2] else none := by
  exact id rfl
theorem erlOut_byte (rc rl : Byte) : erlOut rc.toNat rl.toNat = erlModel rc rl := by
  unfold erlOut
  rw [erlRun_byteCount, erlRun_err]

theorem erlRun_how (rc rl : Byte) : (erlRun rc.toNat rl.toNat).how = .returned :=
  congrArg (fun x => x.1) (erl_16 rc rl)

/-- the helper calls of `readRTUFrame`: `expectedResponseLenth` is evaluated, `crc.init` /
    `crc.add` have no results (their effect is in `crcLeaf`) -/
def rtuPure : Oracle := fun f args =>
  if f = "expectedResponseLenth" then erlAnswer args
  else if f = "crc.init" then some []
  else if f = "crc.add" then some []
  else none

/-- length of the slice passed to `io.ReadFull`: `rxbuf[0:3]` has 3 bytes,
    `rxbuf[3 : 3+bytesNeeded]` the CURRENT value of `bytesNeeded` (a negative length or a slice
    beyond the 256 bytes of `rxbuf` is a Go panic: no answer) -/
def rtuBufLen (env : Env) (b : Val) : Option Nat :=
  if b = rtuBuf1 then some 3
  else if b = rtuBuf2 then
    (match Env.read env "bytesNeeded" with
     | .int n => if 0 ≤ n ∧ 3 + n ≤ 256 then some n.toNat else none
     | _ => none)
  else none

def rtuStage (fuel : Nat) (heap : Heap) (ans : Answers) : Res :=
  exec (readOracle rtuPure ans) fuel gs_rtuTransport_readRTUFrame
    (rtuEnv (heapGet heap rtuBuf1) (heapGet heap rtuBuf2) (heapLen heap rtuBuf2))

/-- `readRTUFrame` on the stream `s` ending with `e` -/
def rtuRun (fuel : Nat) (s : Bytes) (e : Ending) : Run :=
  staged (rtuStage fuel) rtuBufLen e 2 [] [] s

/-- what the caller of `readRTUFrame` sees, and what is left on the stream. `err = nil`: `res`
    is the composite literal `rtuLit`, whose fields index `rxbuf` = `h ++ body` (heap) with the
    final value of `bytesNeeded`, which must be the length the second read requested; the CRC
    leaf is meaningful only after `crc.init(); crc.add(rxbuf[0 : 3+bytesNeeded-2])`: required in
    the call log for `nil` and `ErrBadCRC`. -/
def rtuVerdict (r : Run) : Option (Except Err Pdu × Bytes) :=
  match r.res.how with
  | .returned =>
    match Env.read r.res.env "err" with
    | .sym e =>
      if e = "nil" then
        match Env.read r.res.env "res", Env.read r.res.env "bytesNeeded" with
        | .sym lit, .int bn =>
          if litField lit "unitId" = some "rxbuf[0]" ∧ litField lit "functionCode" = some "rxbuf[1]"
              ∧ litField lit "payload" = some "rxbuf[2 : 3+bytesNeeded-2]"
              ∧ bn = (heapLen r.heap rtuBuf2 : Int)
              ∧ r.res.calls.drop 3 = [("crc.init", []), ("crc.add", [.sym "rxbuf[0 : 3+bytesNeeded-2]"])]
          then
            some (.ok ⟨(heapGet r.heap rtuBuf1 ++ heapGet r.heap rtuBuf2).getD 0 0,
                       (heapGet r.heap rtuBuf1 ++ heapGet r.heap rtuBuf2).getD 1 0,
                       ((heapGet r.heap rtuBuf1 ++ heapGet r.heap rtuBuf2).take
                          (3 + bn.toNat - 2)).drop 2⟩, r.rest)
          else none
        | _, _ => none
      else if e = "ErrBadCRC" ∧
          r.res.calls.drop 3 ≠ [("crc.init", []), ("crc.add", [.sym "rxbuf[0 : 3+bytesNeeded-2]"])]
        then none
      else (symErr e).map (fun x => (.error x, r.rest))
    | _ => none
  | _ => none

theorem rtu_consts : intConst? "maxRTUFrameLength" = some 256 := by decide
theorem rtuLit_unit : litField
    "&pdu{ unitId: rxbuf[0], functionCode: rxbuf[1], payload: rxbuf[2 : 3+bytesNeeded-2], }"
    "unitId" = some "rxbuf[0]" := by decide +kernel
theorem rtuLit_fc : litField
    "&pdu{ unitId: rxbuf[0], functionCode: rxbuf[1], payload: rxbuf[2 : 3+bytesNeeded-2], }"
    "functionCode" = some "rxbuf[1]" := by decide +kernel
theorem rtuLit_payload : litField
    "&pdu{ unitId: rxbuf[0], functionCode: rxbuf[1], payload: rxbuf[2 : 3+bytesNeeded-2], }"
    "payload" = some "rxbuf[2 : 3+bytesNeeded-2]" := by decide +kernel

syntax "rtu_eval" " [" Lean.Parser.Tactic.simpLemma,* "]" : tactic
macro_rules
  | `(tactic| rtu_eval [$ls,*]) => `(tactic|
    go_eval_nowrap [rtuStage, gs_rtuTransport_readRTUFrame, rtuEnv, rtuPure,
      readOracle, rtuBufLen, rtuBuf1, rtuBuf2, rtuLit, erlAnswer_int, erlRun_how, erlOut_byte,
      wrap_u8_byte,
      ansLookup_nil, ansLookup_cons, heapGet_nil, heapGet_cons, heapLen_nil, heapLen_cons,
      nextRead_stopped, nextRead_returned, nextRead_stuck, nextRead_fell, nextRead_ite,
      rfVals_ok, rfVals_short, RF_got_ok, RF_got_short, RF_rest_ok, RF_rest_short,
      List.getD_cons_zero, List.getD_cons_succ, List.getD_nil, Val.sym.injEq, Val.int.injEq,
      List.cons.injEq, ne_eq, not_false_eq_true, not_true_eq_false, eq_self, decide_true,
      decide_false, Option.map_some, Option.map_none, Int.toNat_natCast,
      Int.reduceGT, Int.reduceLT, Int.reduceLE, Int.reduceGE, Int.reduceEq, Int.reduceNe,
      errSym_ioEOF, errSym_ioUnexpectedEOF, errSym_ioTimeout, errSym_ioOther, $ls,*])

syntax "rtu_verdict" " [" Lean.Parser.Tactic.simpLemma,* "]" : tactic
macro_rules
  | `(tactic| rtu_verdict [$ls,*]) => `(tactic|
    simp only [rtuVerdict, write_def, symErr, read_def, read?_cons, read?_nil, String.reduceEq,
      ↓reduceIte, Option.getD_some, Option.getD_none, Option.map_some, Option.map_none,
      rtuLit_unit, rtuLit_fc, rtuLit_payload, and_self, and_true, true_and, false_and, and_false,
      ne_eq, not_true_eq_false,
      not_false_eq_true, heapGet_cons, heapGet_nil, heapLen_cons, heapLen_nil, rtuBuf1, rtuBuf2,
      Val.sym.injEq, Int.toNat_natCast, List.drop_succ_cons, List.drop_zero, eq_self,
      List.cons_append, List.nil_append, List.getD_cons_zero, List.getD_cons_succ, $ls,*])

theorem rtu_stage0 : nextRead rtuBufLen (rtuStage 64 [] []) = some (rtuBuf1, 3) := by
  rtu_eval []

theorem short1_cases (k : Nat) (e : Ending) (hk : k < 3) :
    (k = 0 ∧ shortErr k e = .ioTimeout ∧ Rtu.prefixErr k e = .ioTimeout) ∨
    (k = 0 ∧ shortErr k e = .ioEOF ∧ Rtu.prefixErr k e = .ioEOF) ∨
    (k = 0 ∧ shortErr k e = .ioOther ∧ Rtu.prefixErr k e = .ioOther) ∨
    (0 < k ∧ Rtu.prefixErr k e = .shortFrame) := by
  unfold shortErr Rtu.prefixErr
  by_cases h0 : k = 0
  · cases e <;> simp [h0, Ending.err]
  · have : 0 < k := by omega
    simp [h0, hk, this]

theorem rtu_short_hdr (s : Bytes) (e : Ending) (h : s.length < 3) :
    rtuVerdict (rtuRun 64 s e) = some (Rtu.readFrame s e) := by
  rw [Rtu.readFrame_short3 e h]
  unfold rtuRun
  rw [staged_next _ _ _ _ _ _ _ _ _ rtu_stage0, readFull_short_of_lt e h]
  simp only [RF_got_short, RF_rest_short, rfVals_short, List.nil_append]
  rcases short1_cases s.length e h with ⟨h0, he, hp⟩ | ⟨h0, he, hp⟩ | ⟨h0, he, hp⟩ | ⟨h0, hp⟩
  · have c : ¬ ((s.length : Int) > 0) := by omega
    have c3 : ¬ ((s.length : Int) = 3) := by omega
    rw [he, hp, staged_done]
    · rtu_eval [c, c3]
      rtu_verdict []
    · rtu_eval [c, c3]
  · have c : ¬ ((s.length : Int) > 0) := by omega
    have c3 : ¬ ((s.length : Int) = 3) := by omega
    rw [he, hp, staged_done]
    · rtu_eval [c, c3]
      rtu_verdict []
    · rtu_eval [c, c3]
  · have c : ¬ ((s.length : Int) > 0) := by omega
    have c3 : ¬ ((s.length : Int) = 3) := by omega
    rw [he, hp, staged_done]
    · rtu_eval [c, c3]
      rtu_verdict []
    · rtu_eval [c, c3]
  · have c : (s.length : Int) > 0 := by omega
    have c3 : ¬ ((s.length : Int) = 3) := by omega
    rw [hp, staged_done]
    · rtu_eval [c, c3]
      rtu_verdict []
    · rtu_eval [c, c3]


theorem erl_error_eq {fc b : Byte} {err : Err} (h : Rtu.expectedResponseLength fc b = .error err) :
    err = .protocolError := by
  revert h
  simp only [Rtu.expectedResponseLength]
  repeat' split
  all_goals intro h; first | (injection h with h; exact h.symm) | exact nomatch h

theorem erl_ok_le {fc b : Byte} {n : Nat} (h : Rtu.expectedResponseLength fc b = .ok n) :
    n ≤ 255 := by
  have hb := b.isLt
  revert h
  simp only [Rtu.expectedResponseLength]
  repeat' split
  all_goals intro h; first | (injection h with h; omega) | exact nomatch h

theorem erlModel_ok {fc b : Byte} {n : Nat} (h : Rtu.expectedResponseLength fc b = .ok n) :
    erlModel fc b = (.int n, .sym "nil") := by
  simp only [erlModel, h, erlVals_ok]
theorem erlModel_error {fc b : Byte} {err : Err} (h : Rtu.expectedResponseLength fc b = .error err) :
    erlModel fc b = (.int 0, .sym "ErrProtocolError") := by
  have := erl_error_eq h
  subst this
  simp only [erlModel, h, erlVals_error, errSym_protocolError]

theorem short2_cases (k : Nat) (e : Ending) :
    (shortErr k e = .ioTimeout ∧ Rtu.prefixErr (k + 3) e = .ioTimeout) ∨
    (shortErr k e = .ioEOF ∧ Rtu.prefixErr (k + 3) e = .ioEOF) ∨
    (shortErr k e = .ioUnexpectedEOF ∧ Rtu.prefixErr (k + 3) e = .shortFrame) ∨
    (shortErr k e = .ioOther ∧ Rtu.prefixErr (k + 3) e = .ioOther) := by
  rw [Rtu.prefixErr_add_three]
  unfold shortErr
  by_cases h0 : k = 0 <;> cases e <;> simp [h0, Ending.err]

theorem crcLeaf_frame (b0 b1 b2 l h : Byte) (data : Bytes) (n : Nat) (hd : data.length = n) :
    crcLeaf (b0 :: b1 :: b2 :: (data ++ [l, h])) (n + 2) =
      Crc.isEqual (Crc.add Crc.init (b0 :: b1 :: b2 :: data)) l h := by
  subst hd
  unfold crcLeaf
  have e1 : 3 + (data.length + 2) - 2 = data.length + 3 := by omega
  have e2 : 3 + (data.length + 2) - 1 = data.length + 4 := by omega
  rw [e1, e2]
  simp [List.take_succ_cons, List.getD_eq_getElem?_getD]

theorem payload_frame (b0 b1 b2 l h : Byte) (data : Bytes) (n : Nat) (hd : data.length = n) :
    ((b0 :: b1 :: b2 :: (data ++ [l, h])).take (3 + (n + 2) - 2)).drop 2 = b2 :: data := by
  subst hd
  have e1 : 3 + (data.length + 2) - 2 = data.length + 3 := by omega
  rw [e1]
  simp [List.take_succ_cons]

theorem rtu_full_hdr (b0 b1 b2 : Byte) (tl : Bytes) (e : Ending) :
    rtuVerdict (rtuRun 64 (b0 :: b1 :: b2 :: tl) e) = some (Rtu.readFrame (b0 :: b1 :: b2 :: tl) e) := by
  have hrf : readFull 3 (b0 :: b1 :: b2 :: tl) e = .ok [b0, b1, b2] tl :=
    readFull_append' [b0, b1, b2] tl e rfl
  have hlen3 : ((([b0, b1, b2] : Bytes).length : Nat) : Int) = 3 := rfl
  unfold rtuRun
  rw [staged_next _ _ _ _ _ _ _ _ _ rtu_stage0, hrf]
  simp only [RF_got_ok, RF_rest_ok, rfVals_ok, List.nil_append]
  cases hx : Rtu.expectedResponseLength b1 b2 with
  | error err =>
    have hm := erlModel_error hx
    rw [Rtu.readFrame_cons3_lenErr e hx, erl_error_eq hx, staged_done]
    · rtu_eval [hlen3, hm]
      rtu_verdict []
    · rtu_eval [hlen3, hm]
  | ok n =>
    have hm := erlModel_ok hx
    have hn := erl_ok_le hx
    have hwA : wrap .int ((n : Int) + 2) = (n : Int) + 2 := wrap_int (by omega) (by omega)
    have hwB : wrap .int (3 + ((n : Int) + 2)) = 3 + ((n : Int) + 2) := wrap_int (by omega) (by omega)
    by_cases c1 : 3 + ((n : Int) + 2) > 256
    · rw [Rtu.readFrame_cons3_tooLong e hx (by omega), staged_done]
      · rtu_eval [hlen3, hm, hwA, hwB, c1]
        rtu_verdict []
      · rtu_eval [hlen3, hm, hwA, hwB, c1]
    · have c0 : (0 : Int) ≤ (n : Int) + 2 := by omega
      have c256 : 3 + ((n : Int) + 2) ≤ 256 := by omega
      have ht : ((n : Int) + 2).toNat = n + 2 := by omega
      have hnext : nextRead rtuBufLen (rtuStage 64 [(rtuBuf1, 3, [b0, b1, b2])]
          [(rtuBuf1, [.int ([b0, b1, b2] : Bytes).length, .sym "nil"])]) =
          some (rtuBuf2, n + 2) := by
        rtu_eval [hlen3, hm, hwA, hwB, c1, c0, c256, ht]
      rw [staged_next _ _ _ _ _ _ _ _ _ hnext]
      by_cases hs : tl.length < n + 2
      · rw [Rtu.readFrame_cons3_short e hx (by omega) hs, readFull_short_of_lt e hs, staged_zero]
        simp only [RF_got_short, RF_rest_short, rfVals_short, List.cons_append, List.nil_append]
        have hne : ¬ ((tl.length : Int) = (n : Int) + 2) := by omega
        rcases short2_cases tl.length e with ⟨he, hp⟩ | ⟨he, hp⟩ | ⟨he, hp⟩ | ⟨he, hp⟩ <;>
          rw [he, hp] <;>
          (rtu_eval [hlen3, hm, hwA, hwB, c1, hne]; rtu_verdict [])
      · obtain ⟨data, l, h, rest, rfl, hd⟩ : ∃ data l h rest, tl = data ++ l :: h :: rest ∧
            data.length = n := by
          refine ⟨tl.take n, (tl.drop n).getD 0 0, (tl.drop n).getD 1 0, tl.drop (n + 2), ?_,
            by rw [List.length_take]; omega⟩
          have hl : 2 ≤ (tl.drop n).length := by rw [List.length_drop]; omega
          have : tl.drop n = (tl.drop n).getD 0 0 :: (tl.drop n).getD 1 0 :: tl.drop (n + 2) := by
            rw [← List.drop_drop]
            generalize tl.drop n = d at hl
            match d, hl with
            | x :: y :: r, _ => rfl
          rw [← this, List.take_append_drop]
        have hsplit : data ++ l :: h :: rest = (data ++ [l, h]) ++ rest := by simp
        have hlen2 : (((data ++ [l, h]).length : Nat) : Int) = (n : Int) + 2 := by
          rw [List.length_append, hd]; rfl
        have hcast : ((n + 2 : Nat) : Int) = (n : Int) + 2 := by omega
        rw [Rtu.readFrame_cons3_full e hx (by omega) hd, hsplit,
          readFull_append' (data ++ [l, h]) rest e (by simp [hd]), staged_zero]
        simp only [RF_got_ok, RF_rest_ok, rfVals_ok, List.cons_append, List.nil_append]
        have hcl := crcLeaf_frame b0 b1 b2 l h data n hd
        have hpl := payload_frame b0 b1 b2 l h data n hd
        cases hc : Crc.isEqual (Crc.add Crc.init (b0 :: b1 :: b2 :: data)) l h with
        | true =>
          rw [hc] at hcl
          rtu_eval [hlen3, hlen2, hm, hwA, hwB, c1, hcl]
          rtu_verdict [hcast, ht, hpl]
        | false =>
          rw [hc] at hcl
          rtu_eval [hlen3, hlen2, hm, hwA, hwB, c1, hcl]
          rtu_verdict [hcast, ht, hpl]


theorem rtu_loopFree : loopFree gs_rtuTransport_readRTUFrame = true ∧
    depth gs_rtuTransport_readRTUFrame ≤ 64 := by decide +kernel

theorem rtuRun_fuel (fuel : Nat) (hf : 64 ≤ fuel) (s : Bytes) (e : Ending) :
    rtuRun fuel s e = rtuRun 64 s e := by
  have h : rtuStage fuel = rtuStage 64 := by
    funext heap ans
    exact exec_loopFree _ _ 64 fuel _ rtu_loopFree.1 rtu_loopFree.2 hf
  unfold rtuRun
  rw [h]

theorem rtu_64 (s : Bytes) (e : Ending) :
    rtuVerdict (rtuRun 64 s e) = some (Rtu.readFrame s e) := by
  match s with
  | b0 :: b1 :: b2 :: tl => exact rtu_full_hdr b0 b1 b2 tl e
  | [] | [_] | [_, _] => exact rtu_short_hdr _ e (by simp)

/-- **`readRTUFrame` = `Rtu.readFrame`** for every stream `s`, every ending `e` and every fuel
    ≥ 64: the staged run of the CURRENT source (`rtuRun`: read of 3 bytes, the evaluated
    `expectedResponseLenth(rxbuf[1], rxbuf[2])`, `+ 2`, the 256-byte limit, read of `bytesNeeded`
    bytes, the CRC leaf = the model's `Crc.isEqual (Crc.add Crc.init …)` on the same bytes)
    returns, and its verdict — the error symbol, or `nil` with the PDU fields resolved in
    `rxbuf` — and the unread remainder of the stream (i.e. the number of bytes consumed) are
    exactly the model's. -/
theorem C02F_readRTUFrame (s : Bytes) (e : Ending) (fuel : Nat) (hf : 64 ≤ fuel) :
    rtuVerdict (rtuRun fuel s e) = some (Rtu.readFrame s e) := by
  rw [rtuRun_fuel fuel hf]; exact rtu_64 s e


/-! ## 4. text-keyed leaves and the buffers they denote (`staleReads`)

  `readMBAPFrame` assigns `rxbuf` twice. The compound leaves with base `rxbuf` that are read as
  leaves are exactly the three below (plus `rxbuf[4:6]` inside the call leaf
  `bytesToUint16(BIG_ENDIAN, rxbuf[4:6])`): all of them are read between the first read and
  the re-assignment, so in `mbapEnv` they are bound to the content of the HEADER buffer
  (`heapGet heap mbapBuf1`), stage by stage. After the re-assignment the only mention of
  `rxbuf[…]` is inside the composite literal `&pdu{ …, functionCode: rxbuf[0], payload: rxbuf[1:], }`,
  ONE opaque leaf whose value is its own text: `mbapVerdict` resolves its fields against the buffer
  that `rxbuf` denotes in the FINAL environment (`make([]byte, bytesNeeded)`, looked up in the
  heap). No leaf text is used for two different buffers.

  `readRTUFrame` assigns `rxbuf` once (one 256-byte array); `rxbuf[0:3]` and
  `rxbuf[3 : 3+bytesNeeded]` are the two read targets (aliases of that array: `rtuEnv` / `rtuVerdict`
  use `h ++ body` as its content), `rxbuf[1]`, `rxbuf[2]` are read after the first read only,
  `rxbuf[0 : 3+bytesNeeded-2]` is the argument of `crc.add`. `bytesNeeded` is not assigned after the
  second read (`rtuVerdict` checks that its final value is the length that read requested). -/
theorem C02F_staleReads :
    staleReads gs_tcpTransport_readMBAPFrame = ["rxbuf[0:2]", "rxbuf[2:4]", "rxbuf[6]"] ∧
    assignedTexts "rxbuf" gs_tcpTransport_readMBAPFrame =
      [some "make([]byte, mbapHeaderLength)", some "make([]byte, bytesNeeded)"] ∧
    staleReads gs_rtuTransport_readRTUFrame =
      ["rxbuf[0:3]", "rxbuf[1]", "rxbuf[2]", "rxbuf[3 : 3+bytesNeeded]", "rxbuf[0 : 3+bytesNeeded-2]"] ∧
    assignedTexts "rxbuf" gs_rtuTransport_readRTUFrame = [some "make([]byte, maxRTUFrameLength)"] ∧
    staleReads gs_expectedResponseLenth = [] ∧
    (bindCalls gs_rtuTransport_readRTUFrame).map (fun x => x.2.1) =
      ["io.ReadFull", "expectedResponseLenth", "io.ReadFull", "crc.init", "crc.add"] ∧
    (bindCalls gs_tcpTransport_readMBAPFrame).map (fun x => x.2.1) =
      ["io.ReadFull", "bytesToUint16", "bytesToUint16", "io.ReadFull"] := by
  decide +kernel

/-! ## 5. consequences spelled out -/

/-- ORDER in `readMBAPFrame`: a well-sized frame with a FOREIGN protocol id is consumed in full
    (header and body) before it is rejected: what is left is exactly what follows the frame. -/
theorem C02F_mbap_foreign_consumed (t0 t1 p0 p1 l0 l1 u : Byte) (body rest : Bytes) (e : Ending)
    (fuel : Nat) (hf : 64 ≤ fuel)
    (h2 : 2 ≤ (mk16 l0 l1).toNat) (h254 : (mk16 l0 l1).toNat ≤ 254)
    (hb : body.length = (mk16 l0 l1).toNat - 1) (hp : mk16 p0 p1 ≠ 0) :
    mbapVerdict (mbapRun fuel (t0 :: t1 :: p0 :: p1 :: l0 :: l1 :: u :: (body ++ rest)) e) =
      some (.err .unknownProtocolId, rest) := by
  rw [C02F_readMBAPFrame _ _ _ hf, Mbap.readFrame_cons7_ok e h2 h254 hb, if_pos hp]

/-- the length checks come FIRST: a header announcing more than 254 or fewer than 2 bytes is
    rejected with `ErrProtocolError` whatever its protocol id, and nothing after the header is
    read -/
theorem C02F_mbap_badlen (t0 t1 p0 p1 l0 l1 u : Byte) (tl : Bytes) (e : Ending)
    (fuel : Nat) (hf : 64 ≤ fuel) (h : 254 < (mk16 l0 l1).toNat ∨ (mk16 l0 l1).toNat ≤ 1) :
    mbapVerdict (mbapRun fuel (t0 :: t1 :: p0 :: p1 :: l0 :: l1 :: u :: tl) e) =
      some (.err .protocolError, tl) := by
  rw [C02F_readMBAPFrame _ _ _ hf, Mbap.readFrame_cons7_badlen e h]

/-- a short header / a short body gives the stream's own error (`io.EOF` on a clean end,
    `io.ErrUnexpectedEOF` inside a frame, the timeout / other error otherwise) -/
theorem C02F_mbap_short (s : Bytes) (e : Ending) (fuel : Nat) (hf : 64 ≤ fuel) (h : s.length < 7) :
    mbapVerdict (mbapRun fuel s e) = some (.err (shortErr s.length e), []) := by
  rw [C02F_readMBAPFrame _ _ _ hf, Mbap.readFrame_short7 e h]

/-! ## 6. sensitivity: defective variants, DERIVED from the generated terms, are told apart -/

/-- the statements of a right-nested `seq` -/
def seqList : GStmt → List GStmt
  | .seq a b => a :: seqList b
  | s => [s]
def ofSeqList : List GStmt → GStmt
  | [] => .skip
  | [s] => s
  | a :: r => .seq a (ofSeqList r)

def mbapRunOf (gs : GStmt) (fuel : Nat) (s : Bytes) (e : Ending) : Run :=
  staged (fun heap ans => exec (readOracle (mbapPure (heapGet heap mbapBuf1)) ans) fuel gs
    (mbapEnv (heapGet heap mbapBuf1))) mbapBufLen e 2 [] [] s
def rtuRunOf (gs : GStmt) (fuel : Nat) (s : Bytes) (e : Ending) : Run :=
  staged (fun heap ans => exec (readOracle rtuPure ans) fuel gs
    (rtuEnv (heapGet heap rtuBuf1) (heapGet heap rtuBuf2) (heapLen heap rtuBuf2))) rtuBufLen e 2 [] [] s

theorem mbapRunOf_gen : mbapRunOf gs_tcpTransport_readMBAPFrame = mbapRun := rfl
theorem rtuRunOf_gen : rtuRunOf gs_rtuTransport_readRTUFrame = rtuRun := rfl

/-- `readMBAPFrame` with the protocol-id test moved BEFORE the read of the PDU (statement 13 of
    the generated term moved in front of statement 10): the previously seeded defect -/
def mbapProtoFirst : GStmt :=
  let l := seqList gs_tcpTransport_readMBAPFrame
  ofSeqList (l.take 10 ++ (l.drop 13).take 1 ++ (l.drop 10).take 3 ++ l.drop 14)

/-- a complete foreign-protocol frame (protocol id 5, 2 PDU bytes) followed by one more byte -/
def foreignStream : Bytes := [0, 1, 0, 5, 0, 3, 0x11, 0x03, 0x02, 0xAA]

/-- the current source consumes the foreign frame in full (the model's answer); the variant
    rejects it after the header and leaves the body unread: the next `readMBAPFrame` would
    start in the middle of a frame -/
theorem C02F_sens_mbap_order :
    mbapVerdict (mbapRunOf gs_tcpTransport_readMBAPFrame 64 foreignStream .timeout) =
      some (.err .unknownProtocolId, [0xAA]) ∧
    Mbap.readFrame foreignStream .timeout = (.err .unknownProtocolId, [0xAA]) ∧
    mbapVerdict (mbapRunOf mbapProtoFirst 64 foreignStream .timeout) =
      some (.err .unknownProtocolId, [0x03, 0x02, 0xAA]) := by
  decide +kernel

/-- same stream cut inside the body: the current source reports the stream's error, the variant
    still answers `ErrUnknownProtocolId` -/
theorem C02F_sens_mbap_order_short :
    mbapVerdict (mbapRunOf gs_tcpTransport_readMBAPFrame 64 (foreignStream.take 8) .eof) =
      some (.err .ioUnexpectedEOF, []) ∧
    mbapVerdict (mbapRunOf mbapProtoFirst 64 (foreignStream.take 8) .eof) =
      some (.err .unknownProtocolId, [0x03]) := by
  decide +kernel

/-- `readMBAPFrame` without the `bytesNeeded--` (statement 7 dropped): one byte too many is read -/
def mbapNoDecrement : GStmt :=
  let l := seqList gs_tcpTransport_readMBAPFrame
  ofSeqList (l.take 7 ++ l.drop 8)

theorem C02F_sens_mbap_len :
    mbapVerdict (mbapRunOf mbapNoDecrement 64 [0, 1, 0, 0, 0, 3, 0x11, 0x03, 0x02, 0xAA] .timeout) =
      some (.ok ⟨0x11, 0x03, [0x02, 0xAA]⟩ 1, []) ∧
    Mbap.readFrame [0, 1, 0, 0, 0, 3, 0x11, 0x03, 0x02, 0xAA] .timeout =
      (.ok ⟨0x11, 0x03, [0x02]⟩ 1, [0xAA]) := by
  decide +kernel

/-- `readRTUFrame` whose first test is just `byteCount != 3` (the guard
    `(byteCount > 0 || err == nil)` dropped): an idle line that times out is reported as
    `ErrShortFrame` instead of the timeout -/
def rtuNoGuard : GStmt :=
  let l := seqList gs_rtuTransport_readRTUFrame
  ofSeqList (l.take 2 ++
    [.ite (.cmp "!=" (.var "byteCount" .int) (.lit 3 .int))
      (.seq (.assign "err" (.var "ErrShortFrame" .other)) .ret) .skip] ++ l.drop 3)

theorem C02F_sens_rtu_guard :
    rtuVerdict (rtuRunOf gs_rtuTransport_readRTUFrame 64 [] .timeout) = some (.error .ioTimeout, []) ∧
    Rtu.readFrame [] .timeout = (.error .ioTimeout, []) ∧
    rtuVerdict (rtuRunOf rtuNoGuard 64 [] .timeout) = some (.error .shortFrame, []) := by
  decide +kernel

/-- `readRTUFrame` without `bytesNeeded += 2` (statement 6 dropped): the CRC is not read -/
def rtuNoCrcBytes : GStmt :=
  let l := seqList gs_rtuTransport_readRTUFrame
  ofSeqList (l.take 6 ++ l.drop 7)

/-- a valid response (unit 1, fc 3, 2 data bytes, correct CRC 0x38 0x43) and one more byte -/
def rtuStream : Bytes := [0x01, 0x03, 0x02, 0x00, 0x0a, 0x38, 0x43, 0x55]

theorem C02F_sens_rtu_crcBytes :
    rtuVerdict (rtuRunOf gs_rtuTransport_readRTUFrame 64 rtuStream .timeout) =
      some (.ok ⟨0x01, 0x03, [0x02, 0x00, 0x0a]⟩, [0x55]) ∧
    (rtuVerdict (rtuRunOf rtuNoCrcBytes 64 rtuStream .timeout)).map (·.2) =
      some [0x38, 0x43, 0x55] := by
  decide +kernel

/-! ## 7. non-vacuity: concrete runs -/

example : rtuVerdict (rtuRun 64 [0x01, 0x03, 0x02, 0x00, 0x0a, 0x38, 0x44] .eof) =
    some (.error .badCRC, []) := by decide +kernel
example : rtuVerdict (rtuRun 64 [0x01, 0x03, 0x02, 0x00] .eof) =
    some (.error .shortFrame, []) := by decide +kernel
example : rtuVerdict (rtuRun 64 [0x01, 0x03, 0x02, 0x00] .timeout) =
    some (.error .ioTimeout, []) := by decide +kernel
example : rtuVerdict (rtuRun 64 [0x01, 0x03, 0xfe, 0x00] .timeout) =
    some (.error .protocolError, [0x00]) := by decide +kernel
example : rtuVerdict (rtuRun 64 [0x01, 0x07, 0x00] .timeout) =
    some (.error .protocolError, []) := by decide +kernel
example : mbapVerdict (mbapRun 64 [0, 7, 0, 0, 0, 3, 0x11, 0x03, 0x02, 0xAA] .eof) =
    some (.ok ⟨0x11, 0x03, [0x02]⟩ 7, [0xAA]) := by decide +kernel
example : mbapVerdict (mbapRun 64 [0, 7, 0, 0, 0, 1, 0x11, 0x03] .eof) =
    some (.err .protocolError, [0x03]) := by decide +kernel
example : mbapVerdict (mbapRun 64 [0, 7, 0, 0, 0xff, 0xff, 0x11, 0x03] .eof) =
    some (.err .protocolError, [0x03]) := by decide +kernel
example : mbapVerdict (mbapRun 64 [] .eof) = some (.err .ioEOF, []) := by decide +kernel

end Modbus.Props.C02

#print axioms Modbus.Props.C02.C02F_expectedResponseLenth
#print axioms Modbus.Props.C02.C02F_readMBAPFrame
#print axioms Modbus.Props.C02.C02F_readRTUFrame
#print axioms Modbus.Props.C02.C02F_staleReads
#print axioms Modbus.Props.C02.C02F_mbap_foreign_consumed
#print axioms Modbus.Props.C02.C02F_mbap_badlen
#print axioms Modbus.Props.C02.C02F_mbap_short
#print axioms Modbus.Props.C02.C02F_sens_mbap_order
#print axioms Modbus.Props.C02.C02F_sens_mbap_order_short
#print axioms Modbus.Props.C02.C02F_sens_mbap_len
#print axioms Modbus.Props.C02.C02F_sens_rtu_guard
#print axioms Modbus.Props.C02.C02F_sens_rtu_crcBytes
