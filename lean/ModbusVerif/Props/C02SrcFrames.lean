import ModbusVerif.Lemmas.GoEvalFrameLemmas
import ModbusVerif.Lemmas.MbapLemmas
import ModbusVerif.Lemmas.RtuLemmas
set_option linter.unusedSimpArgs false
set_option linter.unusedVariables false

namespace Modbus.Props.C02
open Modbus Modbus.Gen Modbus.GoEval Modbus.Strm

/-! ## 1. `expectedResponseLenth` -/

/-- no call is answered (`expectedResponseLenth` calls nothing) -/
def noOracle : Oracle := fun _ _ => none

/-- parameters and (zero-valued) named results of `expectedResponseLenth` -/
def erlEnv (rc rl : Int) : Env :=
  [("responseCode", .int rc), ("responseLength", .int rl), ("byteCount", .int 0), ("err", .sym "nil")]

/-- `(byteCount, err)` as the model gives them -/
def erlVals : Except Err Nat → Val × Val
  | .ok n => (.int n, .sym "nil")
  | .error e => (.int 0, .sym (errSym e))
def erlModel (rc rl : Byte) : Val × Val := erlVals (Rtu.expectedResponseLength rc rl)

theorem erlVals_ite (p : Prop) [Decidable p] (x y : Except Err Nat) :
    erlVals (if p then x else y) = if p then erlVals x else erlVals y := by
  split <;> rfl
theorem erlVals_ok (n) : erlVals (.ok n) = (.int n, .sym "nil") := by exact id rfl
theorem erlVals_error (e) : erlVals (.error e) = (.int 0, .sym (errSym e)) := by exact id rfl

def erlObs (r : Res) : End × Calls × Val × Val :=
  (r.how, r.calls, Env.read r.env "byteCount", Env.read r.env "err")
theorem erlObs_ite (p : Prop) [Decidable p] (x y : Res) :
    erlObs (if p then x else y) = if p then erlObs x else erlObs y := by
  split <;> exact id rfl
theorem erlObs_mk (env how cs) : erlObs ⟨env, how, cs⟩ =
    (how, cs, Env.read env "byteCount", Env.read env "err") := by exact id rfl

theorem erl_16 (rc rl : Byte) :
    erlObs (exec noOracle 16 gs_expectedResponseLenth (erlEnv rc.toNat rl.toNat)) =
      (.returned, [], (erlModel rc rl).1, (erlModel rc rl).2) := by
  have h1 := rc.isLt
  have h2 := rl.isLt
  have hw := wrap_int_byte rl
  go_eval_nowrap [gs_expectedResponseLenth, noOracle, erlEnv, hw, erlObs_ite, erlObs_mk,
    Bool.or_eq_true, decide_eq_true_eq]
  simp only [erlModel, Rtu.expectedResponseLength, erlVals_ite, erlVals_ok, erlVals_error, ← BitVec.toNat_inj,
    BitVec.reduceToNat, errSym_protocolError]
  repeat' split
  all_goals first | rfl | (exfalso; omega)


/-- the run of `expectedResponseLenth`, as used by the RTU reader's oracle -/
def erlRun (rc rl : Int) : Res := exec noOracle 16 gs_expectedResponseLenth (erlEnv rc rl)

theorem erlRun_byteCount (rc rl : Byte) :
    Env.read (erlRun rc.toNat rl.toNat).env "byteCount" = (erlModel rc rl).1 :=
  congrArg (fun x => x.2.2.1) (erl_16 rc rl)
theorem erlRun_err (rc rl : Byte) :
    Env.read (erlRun rc.toNat rl.toNat).env "err" = (erlModel rc rl).2 :=
  congrArg (fun x => x.2.2.2) (erl_16 rc rl)

/-- **`expectedResponseLenth` = `Rtu.expectedResponseLength`**, by evaluation of the `switch` of
    the current source: for every response code and length byte the run returns, calls nothing,
    and ends with `(byteCount, err)` = `(n, nil)` when the model says `ok n`, and
    `(0, ErrProtocolError)` when the model says `error protocolError` (the model has no other
    error). -/
theorem C02F_expectedResponseLenth (responseCode responseLength : Byte) (fuel : Nat)
    (hf : 16 ≤ fuel) :
    let res := exec noOracle fuel gs_expectedResponseLenth
      (erlEnv responseCode.toNat responseLength.toNat)
    res.how = .returned ∧ res.calls = [] ∧
    (match Rtu.expectedResponseLength responseCode responseLength with
     | .ok n => Env.read res.env "byteCount" = .int n ∧ Env.read res.env "err" = .sym "nil"
     | .error e => e = .protocolError ∧ Env.read res.env "byteCount" = .int 0 ∧
         Env.read res.env "err" = .sym "ErrProtocolError") := by
  have h16 := erl_16 responseCode responseLength
  have hm := exec_mono noOracle 16 fuel gs_expectedResponseLenth
    (erlEnv responseCode.toNat responseLength.toNat) hf
    (by have := congrArg (fun x => x.1) h16
        simp only [erlObs] at this
        rw [this]; exact fun h => nomatch h)
  simp only [hm]
  have e1 := congrArg (fun x => x.1) h16
  have e2 := congrArg (fun x => x.2.1) h16
  have e3 := congrArg (fun x => x.2.2.1) h16
  have e4 := congrArg (fun x => x.2.2.2) h16
  simp only [erlObs] at e1 e2 e3 e4
  refine ⟨e1, e2, ?_⟩
  rw [e3, e4]
  simp only [erlModel]
  have hmodel : ∀ e, Rtu.expectedResponseLength responseCode responseLength = .error e →
      e = .protocolError := by
    intro e
    simp only [Rtu.expectedResponseLength]
    repeat' split
    all_goals intro h; first | (injection h with h; exact h.symm) | exact nomatch h
  cases hx : Rtu.expectedResponseLength responseCode responseLength with
  | ok n => exact ⟨rfl, rfl⟩
  | error e =>
    have := hmodel e hx
    subst this
    exact ⟨rfl, rfl, rfl⟩

/-! ## 2. `tcpTransport.readMBAPFrame` -/

/-- the two buffers: every opaque leaf is bound to the symbol of its own text -/
def mbapBuf1 : Val := .sym "make([]byte, mbapHeaderLength)"
def mbapBuf2 : Val := .sym "make([]byte, bytesNeeded)"
def mbapLit : String := "&pdu{ unitId: unitId, functionCode: rxbuf[0], payload: rxbuf[1:], }"

/-- environment of a stage; `h` = content of the HEADER buffer (`heapGet heap mbapBuf1`; empty
    heap: `getD … 0` = the zero bytes of a fresh `make`). The leaves `rxbuf[0:2]`, `rxbuf[2:4]`,
    `rxbuf[6]` and `bytesToUint16(BIG_ENDIAN, rxbuf[4:6])` are read only between the first read
    and the re-assignment of `rxbuf` (`mbap_leaf_phases`): they denote the header buffer. -/
def mbapEnv (h : Bytes) : Env :=
  [("tt.socket", .sym "tt.socket"),
   ("make([]byte, mbapHeaderLength)", mbapBuf1),
   ("make([]byte, bytesNeeded)", mbapBuf2),
   ("rxbuf[0:2]", .sym "rxbuf[0:2]"),
   ("rxbuf[2:4]", .sym "rxbuf[2:4]"),
   ("rxbuf[6]", .int (h.getD 6 0).toNat),
   ("bytesToUint16(BIG_ENDIAN, rxbuf[4:6])", .int (mk16 (h.getD 4 0) (h.getD 5 0)).toNat),
   (mbapLit, .sym mbapLit),
   ("p", .sym "nil"), ("txnId", .int 0), ("err", .sym "nil")]

/-- `bytesToUint16(BIG_ENDIAN, hdr[0:2])`, `…hdr[2:4]`: big-endian words of the header bytes
    (`BIG_ENDIAN` = 1, `mbap_consts`) -/
def mbapPure (h : Bytes) : Oracle := fun f args =>
  if f = "bytesToUint16" then
    (if args = [.int 1, .sym "rxbuf[0:2]"] then
       some [.int (mk16 (h.getD 0 0) (h.getD 1 0)).toNat]
     else if args = [.int 1, .sym "rxbuf[2:4]"] then
       some [.int (mk16 (h.getD 2 0) (h.getD 3 0)).toNat]
     else none)
  else none

/-- length of the buffer passed to `io.ReadFull`: `make([]byte, mbapHeaderLength)` has the
    constant's length, `make([]byte, bytesNeeded)` the CURRENT value of `bytesNeeded`
    (a negative length is a Go panic: no answer) -/
def mbapBufLen (env : Env) (b : Val) : Option Nat :=
  if b = mbapBuf1 then (intConst? "mbapHeaderLength").map Int.toNat
  else if b = mbapBuf2 then
    (match Env.read env "bytesNeeded" with
     | .int n => if 0 ≤ n then some n.toNat else none
     | _ => none)
  else none

def mbapStage (fuel : Nat) (heap : Heap) (ans : Answers) : Res :=
  exec (readOracle (mbapPure (heapGet heap mbapBuf1)) ans) fuel gs_tcpTransport_readMBAPFrame
    (mbapEnv (heapGet heap mbapBuf1))

/-- `readMBAPFrame` on the stream `s` ending with `e` (at most two reads are answered) -/
def mbapRun (fuel : Nat) (s : Bytes) (e : Ending) : Run :=
  staged (mbapStage fuel) mbapBufLen e 2 [] [] s

/-- what the caller of `readMBAPFrame` sees, and what is left on the stream.
    `err = nil`: `p` is the composite literal `mbapLit`, whose fields are resolved HERE:
    `unitId` is the variable, `rxbuf[0]` / `rxbuf[1:]` index the buffer that `rxbuf` denotes at
    the end of the run (looked up in the heap). -/
def mbapVerdict (r : Run) : Option (Mbap.Frame × Bytes) :=
  match r.res.how with
  | .returned =>
    match Env.read r.res.env "err" with
    | .sym e =>
      if e = "nil" then
        match Env.read r.res.env "p", Env.read r.res.env "unitId", Env.read r.res.env "txnId" with
        | .sym lit, .int u, .int t =>
          if litField lit "unitId" = some "unitId" ∧ litField lit "functionCode" = some "rxbuf[0]"
              ∧ litField lit "payload" = some "rxbuf[1:]" then
            some (.ok ⟨byteOfNat u.toNat, (heapGet r.heap (Env.read r.res.env "rxbuf")).getD 0 0,
                       (heapGet r.heap (Env.read r.res.env "rxbuf")).drop 1⟩ (u16OfNat t.toNat),
                  r.rest)
          else none
        | _, _, _ => none
      else (symErr e).map (fun x => (.err x, r.rest))
    | _ => none
  | _ => none

theorem mbap_consts : intConst? "mbapHeaderLength" = some 7 ∧ intConst? "maxTCPFrameLength" = some 260
    ∧ intConst? "BIG_ENDIAN" = some 1 := by decide
theorem mbap_hdrLen : (intConst? "mbapHeaderLength").map Int.toNat = some 7 := by decide
theorem mbapLit_fields : litField mbapLit "unitId" = some "unitId" ∧
    litField mbapLit "functionCode" = some "rxbuf[0]" ∧ litField mbapLit "payload" = some "rxbuf[1:]" := by
  decide +kernel

/-- evaluate the stages of an MBAP run -/
syntax "mbap_eval" " [" Lean.Parser.Tactic.simpLemma,* "]" : tactic
macro_rules
  | `(tactic| mbap_eval [$ls,*]) => `(tactic|
    go_eval_nowrap [mbapStage, gs_tcpTransport_readMBAPFrame, mbapEnv, mbapPure,
      readOracle, mbapBufLen, mbapBuf1, mbapBuf2, mbapLit, mbap_hdrLen,
      ansLookup_nil, ansLookup_cons, heapGet_nil, heapGet_cons, heapLen_nil, heapLen_cons,
      nextRead_stopped, nextRead_returned, nextRead_stuck, nextRead_fell, nextRead_ite,
      rfVals_ok, rfVals_short, RF_got_ok, RF_got_short, RF_rest_ok, RF_rest_short,
      List.getD_cons_zero, List.getD_cons_succ, List.getD_nil, Val.sym.injEq, Val.int.injEq,
      List.cons.injEq, ne_eq, not_false_eq_true, not_true_eq_false, Option.map_some, Option.map_none, Int.toNat_natCast,
      errSym_ioEOF, errSym_ioUnexpectedEOF, errSym_ioTimeout, errSym_ioOther, $ls,*])

theorem mbap_stage0 : nextRead mbapBufLen (mbapStage 64 [] []) = some (mbapBuf1, 7) := by
  mbap_eval []

theorem mbap_short_hdr (s : Bytes) (e : Ending) (h : s.length < 7) :
    mbapVerdict (mbapRun 64 s e) = some (Mbap.readFrame s e) := by
  rw [Mbap.readFrame_short7 e h]
  unfold mbapRun
  rw [staged_next _ _ _ _ _ _ _ _ _ mbap_stage0, readFull_short_of_lt e h]
  rcases shortErr_cases s.length e with he | he | he | he <;> rw [he]
  · rw [staged_done]
    · mbap_eval [mbapVerdict, write_def, symErr]
    · mbap_eval []
  all_goals (rw [staged_done]; (· mbap_eval [mbapVerdict, write_def, symErr]); (· mbap_eval []))


theorem u16_toNat_eq_zero (v : U16) : ((v.toNat : Int) = 0) ↔ v = 0 := by
  constructor
  · intro h; exact BitVec.eq_of_toNat_eq (by simp; omega)
  · intro h; rw [h]; rfl

theorem mbap_full_hdr (b0 b1 b2 b3 b4 b5 b6 : Byte) (tl : Bytes) (e : Ending) :
    mbapVerdict (mbapRun 64 (b0 :: b1 :: b2 :: b3 :: b4 :: b5 :: b6 :: tl) e) =
      some (Mbap.readFrame (b0 :: b1 :: b2 :: b3 :: b4 :: b5 :: b6 :: tl) e) := by
  have hL := (mk16 b4 b5).isLt
  have hw1 := wrap_int_u16 (mk16 b4 b5)
  have hw2 : wrap .int (((mk16 b4 b5).toNat : Int) - 1) = ((mk16 b4 b5).toNat : Int) - 1 :=
    wrap_int (by omega) (by omega)
  have hw3 : wrap .int (((mk16 b4 b5).toNat : Int) - 1 + 7) = ((mk16 b4 b5).toNat : Int) - 1 + 7 :=
    wrap_int (by omega) (by omega)
  have hrf : readFull 7 (b0 :: b1 :: b2 :: b3 :: b4 :: b5 :: b6 :: tl) e =
      .ok [b0, b1, b2, b3, b4, b5, b6] tl :=
    readFull_append' [b0, b1, b2, b3, b4, b5, b6] tl e rfl
  unfold mbapRun
  rw [staged_next _ _ _ _ _ _ _ _ _ mbap_stage0, hrf]
  simp only [RF_got_ok, RF_rest_ok, rfVals_ok, List.nil_append]
  by_cases c1 : ((mk16 b4 b5).toNat : Int) - 1 + 7 > 260
  · rw [Mbap.readFrame_cons7_badlen e (Or.inl (by omega)), staged_done]
    · mbap_eval [mbapVerdict, write_def, symErr, hw1, hw2, hw3, c1]
    · mbap_eval [hw1, hw2, hw3, c1]
  · by_cases c2 : ((mk16 b4 b5).toNat : Int) - 1 ≤ 0
    · rw [Mbap.readFrame_cons7_badlen e (Or.inr (by omega)), staged_done]
      · mbap_eval [mbapVerdict, write_def, symErr, hw1, hw2, hw3, c1, c2]
      · mbap_eval [hw1, hw2, hw3, c1, c2]
    · have c0 : (0 : Int) ≤ ((mk16 b4 b5).toNat : Int) - 1 := by omega
      have ht : (((mk16 b4 b5).toNat : Int) - 1).toNat = (mk16 b4 b5).toNat - 1 := by omega
      have hnext : nextRead mbapBufLen (mbapStage 64
          [(mbapBuf1, 7, [b0, b1, b2, b3, b4, b5, b6])]
          [(mbapBuf1, [.int ([b0, b1, b2, b3, b4, b5, b6] : Bytes).length, .sym "nil"])]) =
          some (mbapBuf2, (mk16 b4 b5).toNat - 1) := by
        mbap_eval [hw1, hw2, hw3, c1, c2, c0, ht]
      rw [staged_next _ _ _ _ _ _ _ _ _ hnext]
      by_cases hs : tl.length < (mk16 b4 b5).toNat - 1
      · rw [Mbap.readFrame_cons7_short e (by omega) (by omega) hs, readFull_short_of_lt e hs,
          staged_zero]
        simp only [RF_got_short, RF_rest_short, rfVals_short, List.cons_append, List.nil_append]
        rcases shortErr_cases tl.length e with he | he | he | he <;> rw [he] <;>
          mbap_eval [mbapVerdict, write_def, symErr, hw1, hw2, hw3, c1, c2]
      · obtain ⟨body, rest, rfl, hb⟩ : ∃ body rest, tl = body ++ rest ∧
            body.length = (mk16 b4 b5).toNat - 1 :=
          ⟨tl.take ((mk16 b4 b5).toNat - 1), tl.drop ((mk16 b4 b5).toNat - 1),
            (List.take_append_drop _ _).symm, by rw [List.length_take]; omega⟩
        rw [Mbap.readFrame_cons7_ok e (by omega) (by omega) hb, readFull_append' body rest e hb,
          staged_zero]
        simp only [RF_got_ok, RF_rest_ok, rfVals_ok, List.cons_append, List.nil_append]
        by_cases hp : ((mk16 b2 b3).toNat : Int) = 0
        · have hp' : mk16 b2 b3 = 0 := (u16_toNat_eq_zero _).mp hp
          mbap_eval [mbapVerdict, write_def, symErr, hw1, hw2, hw3, c1, c2, hp, hp']
          trace_state
          sorry
        · have hp' : mk16 b2 b3 ≠ 0 := fun h => hp ((u16_toNat_eq_zero _).mpr h)
          mbap_eval [mbapVerdict, write_def, symErr, hw1, hw2, hw3, c1, c2, hp, hp']

end Modbus.Props.C02
