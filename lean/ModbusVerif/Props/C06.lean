import ModbusVerif.Lemmas.CrcLemmas
/-
  C06 — RTU frames carry a correct CRC-16/MODBUS and corruption is never accepted
  (checksum part; the transport/client part lives with the RTU model).

  Model under test: `Modbus.Crc` (`ModbusVerif/Model/Crc.lean`): the 256-entry table, the
  table-driven `step`/`add`/`value`/`isEqual`/`crc16` exactly as crc.go computes them, and the
  bit-serial reference `step1`/`step8`/`refStep`/`refCrc` (reflected polynomial 0xA001,
  init 0xFFFF).

  Definitions used in the statements (all in `ModbusVerif/Lemmas/CrcLemmas.lean`):

    crcOk f      := decide (f.length ≥ 2) &&
                    isEqual (add init (f.take (f.length-2)))
                            (f.getD (f.length-2) 0) (f.getD (f.length-1) 0)
                    -- the receiver's check on a whole frame f = body ++ [l, h]
    bitsOfByte b := [b.getLsbD 0, …, b.getLsbD 7]                 -- LSB first
    bitsOf       := concatenation of bitsOfByte over the frame    -- transmission order
    xorBits x y  := List.zipWith (· ^^ ·) x y
    zeros n      := List.replicate n false
    applyErr f e := f with bit p flipped wherever e[p] = true     -- see `applyErr_spec`

  Every theorem below is for ALL byte strings / frames (no length bound) unless the statement
  itself carries one (`double_bit_detected`: frames of at most 256 bytes = RTU maximum).
-/
namespace Modbus.Props.C06
open Modbus Modbus.Crc

/-! ### 1. the lookup table is eight bit-steps of the reflected 0xA001 LFSR -/

theorem table_correct : ∀ i : Fin 256, Crc.table[i.val]! = Crc.step8 (BitVec.ofNat 16 i.val) :=
  Crc.table_eq_step8

/-! ### 2. table-driven = bit-serial reference, for byte strings of any length -/

theorem step_eq_refStep : ∀ (s : U16) (b : Byte), Crc.step s b = Crc.refStep s b :=
  Crc.step_eq_refStep

theorem crc_eq_reference : ∀ bs : Bytes, Crc.add Crc.init bs = Crc.refCrc bs :=
  fun bs => Crc.add_eq_refAdd Crc.init bs

/-! ### 3. however the bytes are fed -/

theorem crc_feeding_invariant : ∀ (s : U16) (xs ys : Bytes),
    Crc.add (Crc.add s xs) ys = Crc.add s (xs ++ ys) :=
  Crc.add_append

/-! ### 4. comparison and byte order of the CRC field -/

theorem isEqual_iff (s : U16) (l h : Byte) :
    Crc.isEqual s l h = true ↔ (l = lo s ∧ h = hi s) :=
  Crc.isEqual_iff s l h

/-- the CRC field is the reference CRC of the body, low byte first -/
theorem frame_ends_with_crc (body : Bytes) :
    Crc.crc16 body = [lo (Crc.refCrc body), hi (Crc.refCrc body)] := by
  unfold Crc.crc16 Crc.value le16
  rw [crc_eq_reference]

/-! ### 5. the receiver's whole-frame check accepts exactly the right CRC field -/

theorem crcOk_append_crc (body : Bytes) : crcOk (body ++ Crc.crc16 body) = true := by
  show crcOk (body ++ [lo (add init body), hi (add init body)]) = true
  rw [crcOk_append_pair, Crc.isEqual_iff]
  exact ⟨rfl, rfl⟩

/-- any CRC field other than the computed one is rejected -/
theorem crcOk_iff_field (body : Bytes) (l h : Byte) :
    crcOk (body ++ [l, h]) = true ↔ [l, h] = Crc.crc16 body := by
  rw [crcOk_append_pair, Crc.isEqual_iff]
  show _ ↔ [l, h] = [lo (add init body), hi (add init body)]
  constructor
  · rintro ⟨rfl, rfl⟩; rfl
  · intro e
    injection e with e1 e2
    injection e2 with e2 _
    exact ⟨e1, e2⟩

/-- a frame shorter than two bytes never passes -/
theorem crcOk_short (f : Bytes) (h : f.length < 2) : crcOk f = false := by
  unfold crcOk
  have : ¬ f.length ≥ 2 := by omega
  simp [this]

/-- residue form: a frame passes iff the checksum run over the whole frame, CRC bytes
    included, leaves the register at 0 -/
theorem crcOk_iff_residue (f : Bytes) :
    crcOk f = true ↔ (2 ≤ f.length ∧ Crc.add Crc.init f = 0) :=
  Crc.crcOk_iff_residue f

example : crcOk ([0x01, 0x03, 0x02, 0x00, 0x0a] ++ [0x38, 0x43]) = true := by decide +kernel
example : Crc.crc16 [0x01, 0x03, 0x02, 0x00, 0x0a] = [0x38, 0x43] := by decide +kernel
example : crcOk ([0x01, 0x03, 0x02, 0x00, 0x0a] ++ [0x43, 0x38]) = false := by decide +kernel

/-! ### 6. error detection

  Bits are in transmission/processing order: bit position `p` of a frame is bit `p % 8`
  (LSB = 0) of byte `p / 8`. -/

/-- `bitsOf` lists the frame bits in that order (total form: out of range both sides are
    `false`) -/
theorem bitsOf_spec (f : Bytes) (p : Nat) :
    (bitsOf f).getD p false = (f.getD (p / 8) 0).getLsbD (p % 8) :=
  Crc.bitsOf_getD f p

theorem bitsOf_length (f : Bytes) : (bitsOf f).length = 8 * f.length := Crc.bitsOf_length f

/-- `applyErr f e` has the length of `f` and its bits are the bits of `f` xor `e` -/
theorem applyErr_spec (f : Bytes) (e : List Bool) (hlen : e.length = 8 * f.length) :
    (applyErr f e).length = f.length ∧ bitsOf (applyErr f e) = xorBits (bitsOf f) e :=
  ⟨Crc.applyErr_length f e, Crc.bitsOf_applyErr f e hlen⟩

/-- (a) every burst of length ≤ 16 (in particular every single-bit error), at every position,
    in an accepted frame of ANY length, yields a rejected frame -/
theorem burst_detected (f : Bytes) (a b : Nat) (w e : List Bool)
    (hok : crcOk f = true)
    (he : e = zeros a ++ w ++ zeros b) (hw : w.length ≤ 16) (ht : true ∈ w)
    (hlen : e.length = 8 * f.length) :
    crcOk (applyErr f e) = false := by
  subst he
  exact crcOk_applyErr_false f _ hok hlen (feed_burst_ne_zero a b w hw ht)

/-- special case: every single-bit error -/
theorem single_bit_detected (f : Bytes) (a b : Nat) (e : List Bool)
    (hok : crcOk f = true)
    (he : e = zeros a ++ [true] ++ zeros b) (hlen : e.length = 8 * f.length) :
    crcOk (applyErr f e) = false :=
  burst_detected f a b [true] e hok he (by decide) (by decide) hlen

/-- (b) every double-bit error in an accepted frame of at most 256 bytes (the RTU maximum, so
    the two flipped bits are fewer than 2048 positions apart) yields a rejected frame -/
theorem double_bit_detected (f : Bytes) (a d b : Nat) (e : List Bool)
    (hok : crcOk f = true)
    (he : e = zeros a ++ [true] ++ zeros d ++ [true] ++ zeros b)
    (hlen : e.length = 8 * f.length) (hf : f.length ≤ 256) :
    crcOk (applyErr f e) = false := by
  subst he
  have hd : d ≤ 2046 := by
    simp only [zeros, List.length_append, List.length_replicate, List.length_cons,
      List.length_nil] at hlen
    omega
  exact crcOk_applyErr_false f _ hok hlen (feed_double_ne_zero a d b hd)

/-! ### 7. non-vacuity: the hypotheses are satisfiable on a concrete RTU frame
    (01 03 02 00 0a + CRC 38 43), and the conclusions agree with direct evaluation -/

/-- read-holding-registers response, one register = 0x000a, with its CRC -/
def exFrame : Bytes := [0x01, 0x03, 0x02, 0x00, 0x0a, 0x38, 0x43]

/-- a 16-bit burst starting at bit 13 (bits 13, 16, 17, 19 and 28 flipped) -/
def exBurst : List Bool :=
  [true, false, false, true, true, false, true, false,
   false, false, false, false, false, false, false, true]

example : crcOk exFrame = true ∧ exBurst.length ≤ 16 ∧ true ∈ exBurst ∧
    (zeros 13 ++ exBurst ++ zeros 27).length = 8 * exFrame.length := by decide +kernel

example : applyErr exFrame (zeros 13 ++ exBurst ++ zeros 27)
    = [0x01, 0x23, 0x09, 0x10, 0x0a, 0x38, 0x43] := by decide +kernel

example : crcOk (applyErr exFrame (zeros 13 ++ exBurst ++ zeros 27)) = false :=
  burst_detected exFrame 13 27 exBurst _ (by decide +kernel) rfl (by decide +kernel) (by decide +kernel) (by decide +kernel)

example : crcOk (applyErr exFrame (zeros 13 ++ exBurst ++ zeros 27)) = false := by decide +kernel

-- single bit: bit 5 of byte 6 (position 53)
example : crcOk exFrame = true ∧ (zeros 53 ++ [true] ++ zeros 2).length = 8 * exFrame.length := by
  decide +kernel

example : crcOk (applyErr exFrame (zeros 53 ++ [true] ++ zeros 2)) = false :=
  single_bit_detected exFrame 53 2 _ (by decide +kernel) rfl (by decide +kernel)

-- double bit: positions 3 and 44
example : crcOk exFrame = true ∧
    (zeros 3 ++ [true] ++ zeros 40 ++ [true] ++ zeros 11).length = 8 * exFrame.length ∧
    exFrame.length ≤ 256 := by decide +kernel

example : applyErr exFrame (zeros 3 ++ [true] ++ zeros 40 ++ [true] ++ zeros 11)
    = [0x09, 0x03, 0x02, 0x00, 0x0a, 0x28, 0x43] := by decide +kernel

example : crcOk (applyErr exFrame (zeros 3 ++ [true] ++ zeros 40 ++ [true] ++ zeros 11)) = false :=
  double_bit_detected exFrame 3 40 11 _ (by decide +kernel) rfl (by decide +kernel) (by decide +kernel)

example : crcOk (applyErr exFrame (zeros 3 ++ [true] ++ zeros 40 ++ [true] ++ zeros 11)) = false := by
  decide +kernel

end Modbus.Props.C06

#print axioms Modbus.Props.C06.table_correct
#print axioms Modbus.Props.C06.step_eq_refStep
#print axioms Modbus.Props.C06.crc_eq_reference
#print axioms Modbus.Props.C06.crc_feeding_invariant
#print axioms Modbus.Props.C06.isEqual_iff
#print axioms Modbus.Props.C06.frame_ends_with_crc
#print axioms Modbus.Props.C06.crcOk_append_crc
#print axioms Modbus.Props.C06.crcOk_iff_field
#print axioms Modbus.Props.C06.crcOk_short
#print axioms Modbus.Props.C06.crcOk_iff_residue
#print axioms Modbus.Props.C06.bitsOf_spec
#print axioms Modbus.Props.C06.bitsOf_length
#print axioms Modbus.Props.C06.applyErr_spec
#print axioms Modbus.Props.C06.burst_detected
#print axioms Modbus.Props.C06.single_bit_detected
#print axioms Modbus.Props.C06.double_bit_detected
