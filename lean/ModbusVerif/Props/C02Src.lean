import ModbusVerif.Lemmas.GoEvalRespLemmas
import ModbusVerif.Lemmas.ClientRespLemmas
import ModbusVerif.Props.C01Src
/-
  C02, source tie (RESPONSE side): the response-validation logic of the CURRENT Go source, as
  rendered by the translator (/verif/extract/gstmt.go → `Gen.gs_<function>`) is EVALUATED by
  `Modbus.GoEval` for all requests that pass the argument checks and ALL response PDUs, and proved
  equal to the hand-written model `Client.Core.validate` / `Core.positive` / `unitCheck`
  (about which `Props/C02.lean` proves the property).

  Part 1: `respOracle`, `respEnv`, `callEnv` — the continuation after `res, err = mc.executeRequest(req)`.
    `mc.executeRequest [req]` answers `[sym "res", er]` (`er = sym "nil"`: success). The response PDU is
    supplied as leaves: `res.functionCode`, `len(res.payload)`, `res.payload[0..3]` (`unk` when the
    index is ≥ len: reading it makes the run stuck = the Go panic), `res.payload[1:]` (a symbol
    carrying the bytes, `unk` when len = 0), `bytesToUint16(BIG_ENDIAN, res.payload[0:2])`,
    `bytesToUint16(BIG_ENDIAN, res.payload[2:4])`, `bytesToUint16(mc.endianness, res.payload[2:4])`
    (bound to the model's `Enc.bytesToUint16` of that slice when len ≥ 2 resp. ≥ 4, else `unk`).
    `decodeBools` answers an opaque symbol; `mapExceptionCodeToError [int c]` answers `sym (excSym c)`.
    For the four write functions `req.functionCode` is not assigned in the body (it is a field of
    the composite literal): it is supplied as a leaf with the value `C01.staticFc` reads off the literal.
  Part 2: `C02S_<f>_validate`, `C02S_core_validate`, `C02S_core_validate_spelled`, `C02S_never_panics`,
    `C02S_exception_reply`.
  Part 3: `C02S_executeRequest_unitCheck`.
  Part 4: `C02S_error_path`.
  Part 5: sensitivity (`C02S_sensitive_*`).
  Static side conditions: `C02S_res_bound_once` (the `res.*` leaves describe the one value `res` gets).
-/
set_option linter.unusedSimpArgs false
set_option linter.unusedVariables false

namespace Modbus.Props.C02
open Modbus Modbus.Client Modbus.Gen Modbus.GoEval Modbus.GoEval.Resp
open Modbus.Props.C01 (coreStmt coreEnv staticFc)

/-! ## 1. oracle and environment of the continuation -/

def respOracle (er : GoEval.Val) : Oracle := fun f args =>
  if f = "uint16ToBytes" then some [.sym "uint16ToBytes(…)"]
  else if f = "encodeBools" then some [.sym "encodeBools(…)"]
  else if f = "mc.executeRequest" then some [.sym "res", er]
  else if f = "decodeBools" then some [.sym "decodeBools(…)"]
  else if f = "mapExceptionCodeToError" then some [excAnswer args]
  else none

/-- `res.payload[i]`: the byte, or `unk` when `i ≥ len` (Go: index out of range, panic) -/
def idxVal (pl : Bytes) (i : Nat) : GoEval.Val :=
  match pl[i]? with
  | some b => .int b.toNat
  | none => .unk

/-- `res.payload[1:]` (needs `len ≥ 1`) -/
def tailVal (pl : Bytes) : GoEval.Val :=
  if 1 ≤ pl.length then .sym (bytesSym (pl.drop 1)) else .unk

/-- `bytesToUint16(e, res.payload[i:i+2])`, stated for `len ≥ i+2` -/
def u16At (e : Endian) (pl : Bytes) (i : Nat) : GoEval.Val :=
  if i + 2 ≤ pl.length then .int ((Enc.bytesToUint16 e ((pl.drop i).take 2)).getD 0).toNat else .unk

def respEnv (e : Endian) (res : Pdu) : Env :=
  [("res.functionCode", .int res.fc.toNat),
   ("len(res.payload)", .int res.payload.length),
   ("res.payload[0]", idxVal res.payload 0),
   ("res.payload[1]", idxVal res.payload 1),
   ("res.payload[2]", idxVal res.payload 2),
   ("res.payload[3]", idxVal res.payload 3),
   ("res.payload[1:]", tailVal res.payload),
   ("bytesToUint16(BIG_ENDIAN, res.payload[0:2])", u16At .big res.payload 0),
   ("bytesToUint16(BIG_ENDIAN, res.payload[2:4])", u16At .big res.payload 2),
   ("bytesToUint16(mc.endianness, res.payload[2:4])", u16At e res.payload 2)]

def coreEndian : Core → Endian
  | .writeReg e _ _ => e
  | _ => .big

def fcEnv (c : Core) : Env :=
  match staticFc (coreStmt c) with
  | some fc => [("req.functionCode", .int fc)]
  | none => []

def callEnv (c : Core) (res : Pdu) : Env := coreEnv c ++ fcEnv c ++ respEnv (coreEndian c) res

/-! ## observations -/

inductive RClass
  | ok | err (e : Err) | panic | other
  deriving DecidableEq, Repr

def errClass (err : GoEval.Val) (exc : List (List GoEval.Val)) : RClass :=
  if err = .sym "nil" then .ok
  else if err = .sym "ErrProtocolError" then .err .protocolError
  else match exc with
    | [[.int c]] => if err = .sym (excSym c) then .err (mapException (byteOfNat c.toNat)) else .other
    | _ => .other

def rclass (r : Res) : RClass :=
  match r.how with
  | .returned => errClass (Env.read r.env "err") (callArgs r.calls "mapExceptionCodeToError")
  | .stuckAt _ => .panic
  | _ => .other

/-- what is observed of a run: verdict class, arguments of the `decodeBools` calls, value of
    `bytes`, arguments of the `mapExceptionCodeToError` calls -/
abbrev Obs := RClass × List (List GoEval.Val) × GoEval.Val × List (List GoEval.Val)

def obs (r : Res) : Obs :=
  (rclass r, callArgs r.calls "decodeBools", Env.read r.env "bytes",
    callArgs r.calls "mapExceptionCodeToError")

def mclass : Option (Except Err Raw) → RClass
  | none => .panic
  | some (.ok _) => .ok
  | some (.error e) => .err e

def expDecode (c : Core) (pl : Bytes) (m : Option (Except Err Raw)) : List (List GoEval.Val) :=
  match c, m with
  | .readBools _ _ q, some (.ok _) => [[.int q.toNat, .sym (bytesSym (pl.drop 1))]]
  | _, _ => []
def expBytes (c : Core) (pl : Bytes) (m : Option (Except Err Raw)) : GoEval.Val :=
  match c, m with
  | .readRegs .., some (.ok _) => .sym (bytesSym (pl.drop 1))
  | _, _ => .unk
def expExc (pl : Bytes) (m : Option (Except Err Raw)) : List (List GoEval.Val) :=
  match m with
  | some (.error e) => if e = .protocolError then [] else [[.int (pl.getD 0 0).toNat]]
  | _ => []
def mobsOf (c : Core) (pl : Bytes) (m : Option (Except Err Raw)) : Obs :=
  (mclass m, expDecode c pl m, expBytes c pl m, expExc pl m)
def mobs (c : Core) (fc : Byte) (res : Pdu) : Obs := mobsOf c res.payload (c.validate fc res)

/-! ## helper lemmas -/

theorem idxVal_nil (i) : idxVal [] i = .unk := by exact id rfl
theorem idxVal_cons_zero (a : Byte) (r : Bytes) : idxVal (a :: r) 0 = .int a.toNat := by exact id rfl
theorem idxVal_cons_succ (a : Byte) (r : Bytes) (i : Nat) : idxVal (a :: r) (i+1) = idxVal r i := by
  simp [idxVal]
theorem tailVal_nil : tailVal [] = .unk := by exact id rfl
theorem tailVal_cons (a : Byte) (r : Bytes) : tailVal (a :: r) = .sym (bytesSym r) := by
  simp [tailVal]
theorem u16At_4_0 (a b c d : Byte) : u16At .big [a, b, c, d] 0 = .int (mk16 a b).toNat := by exact id rfl
theorem u16At_4_2 (e : Endian) (a b c d : Byte) :
    u16At e [a, b, c, d] 2 = .int ((Enc.bytesToUint16 e [c, d]).getD 0).toNat := by exact id rfl
theorem u16At_1 (e : Endian) (a : Byte) (i : Nat) : u16At e [a] i = .unk := by
  simp [u16At]

theorem obs_ite (p : Prop) [Decidable p] (x y : Res) :
    obs (if p then x else y) = if p then obs x else obs y := by
  split <;> exact id rfl
theorem obs_returned (env cs) : obs ⟨env, .returned, cs⟩ =
    (errClass (Env.read env "err") (callArgs cs "mapExceptionCodeToError"), callArgs cs "decodeBools",
      Env.read env "bytes", callArgs cs "mapExceptionCodeToError") := by exact id rfl
theorem obs_stuck (env cs t) : obs ⟨env, .stuckAt t, cs⟩ =
    (.panic, callArgs cs "decodeBools", Env.read env "bytes", callArgs cs "mapExceptionCodeToError") := by
  exact id rfl
theorem obs_stopped (env cs f a) : obs ⟨env, .stoppedAt f a, cs⟩ =
    (.other, callArgs cs "decodeBools", Env.read env "bytes", callArgs cs "mapExceptionCodeToError") := by
  exact id rfl

theorem errClass_nil (exc) : errClass (.sym "nil") exc = .ok := by exact id rfl
theorem errClass_perr (exc) : errClass (.sym "ErrProtocolError") exc = .err .protocolError := by
  exact id rfl
theorem errClass_exc (c : Int) :
    errClass (.sym (excSym c)) [[.int c]] = .err (mapException (byteOfNat c.toNat)) := by
  simp [errClass, excSym_ne_nil, excSym_ne_perr]
theorem errClass_uparams : errClass (.sym "ErrUnexpectedParameters") [] = .other := by
  simp [errClass]

theorem mobsOf_ite (c pl) (p : Prop) [Decidable p] (x y) :
    mobsOf c pl (if p then x else y) = if p then mobsOf c pl x else mobsOf c pl y := by
  split <;> rfl
theorem mapException_ne_proto (b : Byte) : (mapException b = Err.protocolError) = False := by
  apply eq_false
  unfold mapException
  repeat' split
  all_goals exact fun h => nomatch h
theorem mobsOf_protoErr (c pl) : mobsOf c pl (some protoErr) = (.err .protocolError, [], .unk, []) := by
  cases c <;> rfl
theorem mobsOf_error (c pl e) : mobsOf c pl (some (.error e)) =
    (.err e, [], .unk, if e = .protocolError then [] else [[.int (pl.getD 0 0).toNat]]) := by
  cases c <;> rfl
theorem mobsOf_ok_readBools (di a q pl raw) : mobsOf (.readBools di a q) pl (some (.ok raw)) =
    (.ok, [[.int q.toNat, .sym (bytesSym (pl.drop 1))]], .unk, []) := by rfl
theorem mobsOf_ok_readRegs (a q rt pl raw) : mobsOf (.readRegs a q rt) pl (some (.ok raw)) =
    (.ok, [], .sym (bytesSym (pl.drop 1)), []) := by rfl
theorem mobsOf_ok_writeCoil (a v pl raw) : mobsOf (.writeCoil a v) pl (some (.ok raw)) = (.ok, [], .unk, []) := by rfl
theorem mobsOf_ok_writeCoils (a v pl raw) : mobsOf (.writeCoils a v) pl (some (.ok raw)) = (.ok, [], .unk, []) := by rfl
theorem mobsOf_ok_writeReg (e a v pl raw) : mobsOf (.writeReg e a v) pl (some (.ok raw)) = (.ok, [], .unk, []) := by rfl
theorem mobsOf_ok_writeRegs (a v pl raw) : mobsOf (.writeRegs a v) pl (some (.ok raw)) = (.ok, [], .unk, []) := by rfl

theorem staticFc_readBools : staticFc gs_ModbusClient_readBools = none := by decide +kernel
theorem staticFc_readRegisters : staticFc gs_ModbusClient_readRegisters = none := by decide +kernel
theorem fcEnv_readBools (di a q) : fcEnv (.readBools di a q) = [] := by
  simp only [fcEnv, coreStmt, staticFc_readBools]
theorem fcEnv_readRegs (a q rt) : fcEnv (.readRegs a q rt) = [] := by
  simp only [fcEnv, coreStmt, staticFc_readRegisters]
theorem fcEnv_writeCoil (a v) : fcEnv (.writeCoil a v) = [("req.functionCode", .int 5)] := by
  simp only [fcEnv, coreStmt, C01.staticFc_WriteCoil]
theorem fcEnv_writeCoils (a v) : fcEnv (.writeCoils a v) = [("req.functionCode", .int 15)] := by
  simp only [fcEnv, coreStmt, C01.staticFc_WriteCoils]
theorem fcEnv_writeReg (e a v) : fcEnv (.writeReg e a v) = [("req.functionCode", .int 6)] := by
  simp only [fcEnv, coreStmt, C01.staticFc_WriteRegister]
theorem fcEnv_writeRegs (a v) : fcEnv (.writeRegs a v) = [("req.functionCode", .int 16)] := by
  simp only [fcEnv, coreStmt, C01.staticFc_writeRegisters]

/-- the positive branch of `readBools` without the `match` on the decoder (which cannot fail
    once the two length checks passed: `ClientResp.positive_ne_none`) -/
theorem positive_readBools_eq (di : Bool) (a q : U16) (pl : Bytes) :
    (Core.readBools di a q).positive pl =
      if pl.length ≠ 1 + q.toNat / 8 + (if q.toNat % 8 ≠ 0 then 1 else 0) then some protoErr
      else if (pl.getD 0 0).toNat + 1 ≠ 1 + q.toNat / 8 + (if q.toNat % 8 ≠ 0 then 1 else 0) then some protoErr
      else some (.ok (.bools ((Enc.decodeBools q.toNat (pl.drop 1)).getD []))) := by
  have hne := Modbus.ClientResp.positive_ne_none (.readBools di a q) pl
  simp only [Core.positive] at hne ⊢
  generalize (1 + q.toNat / 8 + if q.toNat % 8 ≠ 0 then 1 else 0) = E at hne ⊢
  by_cases h1 : pl.length ≠ E
  · rw [if_pos h1, if_pos h1]
  · rw [if_neg h1, if_neg h1]
    by_cases h2 : (pl.getD 0 0).toNat + 1 ≠ E
    · rw [if_pos h2, if_pos h2]
    · rw [if_neg h2, if_neg h2]
      rw [if_neg h1, if_neg h2] at hne
      cases h : Enc.decodeBools q.toNat (pl.drop 1) with
      | none => rw [h] at hne; exact absurd rfl hne
      | some l => rfl

/-- evaluate the run (`go_eval_nowrap`), read the observation off the leaves, remove the `wrap`s
    that are the identity in context, decide the conditions that the context decides -/
syntax "resp_eval" " [" Lean.Parser.Tactic.simpLemma,* "]" : tactic
macro_rules
  | `(tactic| resp_eval [$ls,*]) => `(tactic|
    (simp only [callEnv, fcEnv_readBools, fcEnv_readRegs, fcEnv_writeCoil, fcEnv_writeCoils, fcEnv_writeReg,
       fcEnv_writeRegs, coreStmt, coreEnv, coreEndian, respEnv, List.cons_append, List.nil_append,
       List.append_nil, idxVal_nil, idxVal_cons_zero, idxVal_cons_succ, tailVal_nil, tailVal_cons,
       u16At_4_0, u16At_4_2, u16At_1, List.length_cons, List.length_nil, Nat.reduceAdd, Int.cast_ofNat_Int,
       Enc.bytesToUint16, Option.getD_some]
     go_eval_nowrap [respOracle, obs_ite, Int.reduceEq, Int.reduceLT, tmod_natCast_left, tdiv_natCast_left,
       excAnswer_int, false_and, ne_eq, not_true_eq_false, not_false_eq_true, Bool.or_eq_true,
       Bool.and_eq_true, decide_true, decide_false,
       or80_1, or80_2, or80_3, or80_4, or80_5, or80_6, or80_15, or80_16, Int.reduceMod, $ls,*]
     simp only [obs_returned, obs_stuck, obs_stopped, read_def, read?_write, read?_cons, read?_nil,
       String.reduceEq, ↓reduceIte, Option.getD_some, Option.getD_none, callArgs_cons, callArgs_nil,
       errClass_nil, errClass_perr, errClass_exc, errClass_uparams]
     try simp (disch := omega) only [wrap_int, wrap_u8, wrap_u16, wrap_u32, wrap_uint, wrap_u64, wrap_i64]
     try simp (disch := omega) only [if_pos, if_neg]
     try simp only [wrap_u8_def, wrap_u16_def, wrap_u32_def, wrap_u64_def, wrap_uint_def, wrap_i64_def,
       wrap_int_def]))

/-- unfold the model side into an `if`-tree with observation triples at the leaves -/
syntax "model_eval" " [" Lean.Parser.Tactic.simpLemma,* "]" : tactic
macro_rules
  | `(tactic| model_eval [$ls,*]) => `(tactic|
    simp only [mobs, Core.validate, positive_readBools_eq, mobsOf_ite, mobsOf_protoErr, mobsOf_error,
      mobsOf_ok_readBools, mobsOf_ok_readRegs, mobsOf_ok_writeCoil, mobsOf_ok_writeCoils, mobsOf_ok_writeReg,
      mobsOf_ok_writeRegs, mapException_ne_proto, List.length_cons, List.length_nil,
      List.getD_cons_zero, List.getD_cons_succ, List.getD_nil, List.drop_succ_cons, List.drop_zero, List.drop_nil,
      ← BitVec.toNat_inj, BitVec.toNat_ofNat, BitVec.reduceOr, BitVec.reduceToNat, Nat.reduceMod,
      Nat.reduceAdd, Nat.reducePow, byteOfNat_int_toNat, ne_eq, not_true_eq_false, not_false_eq_true, ↓reduceIte,
      $ls,*])

/-- case analysis on the remaining conditions; after each split the conditions decided by the
    new hypothesis are removed on both sides -/
syntax "resp_close" : tactic
macro_rules
  | `(tactic| resp_close) => `(tactic|
    (repeat' (split <;> try simp (disch := omega) only [if_pos, if_neg])
     all_goals first | (exfalso; omega) | rfl | contradiction))

theorem req_readBools {di : Bool} {a q : U16} {fc : Byte} {p : Bytes}
    (h : (Core.readBools di a q).request = .ok (fc, p)) :
    q.toNat ≠ 0 ∧ q.toNat ≤ 2000 ∧ a.toNat + q.toNat - 1 ≤ 0xffff ∧ fc = (if di then 0x02 else 0x01) := by
  simp only [Core.request, perr, C01.u16_eq_zero] at h
  split at h; · cases h
  split at h; · cases h
  split at h; · cases h
  injection h with h; injection h with hfc hp
  exact ⟨by omega, by omega, by omega, hfc.symm⟩

set_option maxRecDepth 8000

/- The six evaluations below run `go_eval` on 2–4 payload shapes each inside one theorem; the
   default budget of 200000 heartbeats per declaration is too small for that, a FINITE larger
   budget is set per theorem (each takes a few seconds). -/
theorem len1 {pl : Bytes} (h : pl.length = 1) : ∃ a, pl = [a] := by
  match pl, h with
  | [a], _ => exact ⟨a, rfl⟩

/-- the three payload shapes that matter for a write reply: four bytes (echo), one byte
    (exception), anything else -/
theorem write_shapes (pl : Bytes) :
    (∃ a b c d, pl = [a, b, c, d]) ∨ (∃ a, pl = [a]) ∨ (pl.length ≠ 4 ∧ pl.length ≠ 1) := by
  by_cases h4 : pl.length = 4
  · exact .inl (Modbus.ClientResp.len4 h4)
  · by_cases h1 : pl.length = 1
    · exact .inr (.inl (len1 h1))
    · exact .inr (.inr ⟨h4, h1⟩)


set_option maxHeartbeats 1000000 in
theorem readBools_64 (di : Bool) (addr qty : U16) (fc : Byte) (pl : Bytes) (res : Pdu)
    (hreq : (Core.readBools di addr qty).request = .ok (fc, pl)) :
    obs (exec (respOracle (.sym "nil")) 64 gs_ModbusClient_readBools (callEnv (.readBools di addr qty) res))
      = mobs (.readBools di addr qty) fc res := by
  have ha := addr.isLt
  have hq := qty.isLt
  obtain ⟨hq1, hq2, hq3, rfl⟩ := req_readBools hreq
  have hw : wrap .int (qty.toNat : Int) = qty.toNat := wrap_int (by omega) (by omega)
  obtain ⟨u, rfc, pl⟩ := res
  have hr := rfc.isLt
  cases di <;> rcases pl with _ | ⟨a, r⟩
  all_goals try (have ha' := a.isLt)
  all_goals resp_eval [gs_ModbusClient_readBools, hw]
  all_goals model_eval [Bool.false_eq_true]
  all_goals resp_close

theorem req_readRegs {a : U16} {q rt : Nat} {fc : Byte} {p : Bytes}
    (h : (Core.readRegs a q rt).request = .ok (fc, p)) :
    (rt = 0 ∨ rt = 1) ∧ q ≠ 0 ∧ q ≤ 125 ∧ a.toNat + q - 1 ≤ 0xffff ∧ fc = (if rt = 0 then 0x03 else 0x04) := by
  simp only [Core.request, perr] at h
  split at h; · cases h
  split at h; · cases h
  split at h; · cases h
  split at h; · cases h
  injection h with h; injection h with hfc hp
  exact ⟨by omega, by omega, by omega, by omega, hfc.symm⟩

set_option maxHeartbeats 1000000 in
theorem readRegisters_64 (addr : U16) (qty rt : Nat) (fc : Byte) (pl : Bytes) (res : Pdu)
    (hreq : (Core.readRegs addr qty rt).request = .ok (fc, pl)) :
    obs (exec (respOracle (.sym "nil")) 64 gs_ModbusClient_readRegisters (callEnv (.readRegs addr qty rt) res))
      = mobs (.readRegs addr qty rt) fc res := by
  have ha := addr.isLt
  obtain ⟨hrt, hq1, hq2, hq3, rfl⟩ := req_readRegs hreq
  obtain ⟨u, rfc, pl⟩ := res
  have hr := rfc.isLt
  rcases hrt with rfl | rfl <;> rcases pl with _ | ⟨a, r⟩
  all_goals try (have ha' := a.isLt)
  all_goals resp_eval [gs_ModbusClient_readRegisters]
  all_goals model_eval [Core.positive, Nat.reduceEqDiff]
  all_goals resp_close
set_option maxHeartbeats 1000000 in
theorem WriteCoil_64 (addr : U16) (v : Bool) (fc : Byte) (pl : Bytes) (res : Pdu)
    (hreq : (Core.writeCoil addr v).request = .ok (fc, pl)) :
    obs (exec (respOracle (.sym "nil")) 64 gs_ModbusClient_WriteCoil (callEnv (.writeCoil addr v) res))
      = mobs (.writeCoil addr v) fc res := by
  have ha := addr.isLt
  obtain rfl := Modbus.ClientResp.request_writeCoil hreq
  obtain ⟨u, rfc, pl⟩ := res
  have hr := rfc.isLt
  rcases write_shapes pl with ⟨a, b, c, d, rfl⟩ | ⟨a, rfl⟩ | ⟨h4, h1⟩
  · have hc := c.isLt
    have hd := d.isLt
    cases v
    all_goals resp_eval [gs_ModbusClient_WriteCoil, false_or, or_false, true_or, or_true, and_true, and_false]
    all_goals model_eval [Core.positive, Bool.false_eq_true, Bool.true_eq_false, false_or, or_false, true_or, or_true, and_true,
      and_false, true_and, false_and]
    all_goals resp_close
  · have ha' := a.isLt
    cases v
    all_goals resp_eval [gs_ModbusClient_WriteCoil, false_or, or_false, true_or, or_true, and_true, and_false]
    all_goals model_eval [Core.positive, Bool.false_eq_true, Bool.true_eq_false, false_or, or_false, true_or, or_true, and_true,
      and_false, true_and, false_and, Nat.reduceEqDiff]
    all_goals resp_close
  · have h4i : ¬ (pl.length : Int) = 4 := by omega
    have h1i : ¬ (pl.length : Int) = 1 := by omega
    cases v
    all_goals resp_eval [gs_ModbusClient_WriteCoil, false_or, or_false, true_or, or_true, and_true, and_false,
      h4i, h1i]
    all_goals model_eval [Core.positive, Bool.false_eq_true, Bool.true_eq_false, false_or, or_false, true_or, or_true, and_true,
      and_false, true_and, false_and, h4, h1]
    all_goals resp_close

theorem req_writeCoils {a : U16} {vs : List Bool} {fc : Byte} {p : Bytes}
    (h : (Core.writeCoils a vs).request = .ok (fc, p)) :
    vs.length ≠ 0 ∧ vs.length ≤ 1968 ∧ a.toNat + vs.length - 1 ≤ 0xffff ∧ fc = 0x0f := by
  simp only [Core.request, perr, C01.u16_eq_zero, C01.toNat_u16OfNat] at h
  split at h; · cases h
  split at h; · cases h
  split at h; · cases h
  injection h with h; injection h with hfc hp
  exact ⟨by omega, by omega, by omega, hfc.symm⟩

theorem req_writeRegs {a : U16} {pay : Bytes} {fc : Byte} {p : Bytes}
    (h : (Core.writeRegs a pay).request = .ok (fc, p)) :
    2 ≤ pay.length ∧ pay.length ≤ 247 ∧ a.toNat + pay.length / 2 - 1 ≤ 0xffff ∧ fc = 0x10 := by
  simp only [Core.request, perr, C01.u16_eq_zero, C01.toNat_u16OfNat, C01.toNat_u16_half] at h
  split at h; · cases h
  split at h; · cases h
  split at h; · cases h
  injection h with h; injection h with hfc hp
  exact ⟨by omega, by omega, by omega, hfc.symm⟩

syntax "write_case" " [" Lean.Parser.Tactic.simpLemma,* "]" " [" Lean.Parser.Tactic.simpLemma,* "]" : tactic
macro_rules
  | `(tactic| write_case [$ls,*] [$ms,*]) => `(tactic|
    (resp_eval [false_or, or_false, true_or, or_true, and_true, and_false, $ls,*]
     model_eval [Core.positive, Bool.false_eq_true, Bool.true_eq_false, false_or, or_false, true_or, or_true,
       and_true, and_false, true_and, false_and, Nat.reduceEqDiff, C01.toNat_u16OfNat, C01.toNat_u16_half, $ms,*]
     resp_close))

set_option maxHeartbeats 1000000 in
theorem WriteCoils_64 (addr : U16) (vs : List Bool) (fc : Byte) (pl : Bytes) (res : Pdu)
    (hreq : (Core.writeCoils addr vs).request = .ok (fc, pl)) :
    obs (exec (respOracle (.sym "nil")) 64 gs_ModbusClient_WriteCoils (callEnv (.writeCoils addr vs) res))
      = mobs (.writeCoils addr vs) fc res := by
  have ha := addr.isLt
  obtain ⟨hn0, hn1, hn2, rfl⟩ := req_writeCoils hreq
  obtain ⟨u, rfc, pl⟩ := res
  have hr := rfc.isLt
  rcases write_shapes pl with ⟨a, b, c, d, rfl⟩ | ⟨a, rfl⟩ | ⟨h4, h1⟩
  · write_case [gs_ModbusClient_WriteCoils] []
  · write_case [gs_ModbusClient_WriteCoils] []
  · have h4i : ¬ (pl.length : Int) = 4 := by omega
    have h1i : ¬ (pl.length : Int) = 1 := by omega
    write_case [gs_ModbusClient_WriteCoils, h4i, h1i] [h4, h1]

set_option maxHeartbeats 1000000 in
theorem writeRegisters_64 (addr : U16) (p : Bytes) (fc : Byte) (pl : Bytes) (res : Pdu)
    (hreq : (Core.writeRegs addr p).request = .ok (fc, pl)) :
    obs (exec (respOracle (.sym "nil")) 64 gs_ModbusClient_writeRegisters (callEnv (.writeRegs addr p) res))
      = mobs (.writeRegs addr p) fc res := by
  have ha := addr.isLt
  obtain ⟨hn0, hn1, hn2, rfl⟩ := req_writeRegs hreq
  have hwl : wrap .u16 (p.length : Int) = p.length := wrap_u16 (by omega) (by omega)
  obtain ⟨u, rfc, pl⟩ := res
  have hr := rfc.isLt
  rcases write_shapes pl with ⟨a, b, c, d, rfl⟩ | ⟨a, rfl⟩ | ⟨h4, h1⟩
  · write_case [gs_ModbusClient_writeRegisters, hwl] []
  · write_case [gs_ModbusClient_writeRegisters, hwl] []
  · have h4i : ¬ (pl.length : Int) = 4 := by omega
    have h1i : ¬ (pl.length : Int) = 1 := by omega
    write_case [gs_ModbusClient_writeRegisters, hwl, h4i, h1i] [h4, h1]

set_option maxHeartbeats 1000000 in
theorem WriteRegister_64 (e : Endian) (addr v : U16) (fc : Byte) (pl : Bytes) (res : Pdu)
    (hreq : (Core.writeReg e addr v).request = .ok (fc, pl)) :
    obs (exec (respOracle (.sym "nil")) 64 gs_ModbusClient_WriteRegister (callEnv (.writeReg e addr v) res))
      = mobs (.writeReg e addr v) fc res := by
  have ha := addr.isLt
  have hv := v.isLt
  obtain rfl := Modbus.ClientResp.request_writeReg hreq
  obtain ⟨u, rfc, pl⟩ := res
  have hr := rfc.isLt
  rcases write_shapes pl with ⟨a, b, c, d, rfl⟩ | ⟨a, rfl⟩ | ⟨h4, h1⟩
  · cases e
    all_goals write_case [gs_ModbusClient_WriteRegister, Enc.bytesToUint16, Option.getD_some]
      [Enc.bytesToUint16, Option.getD_some]
  · write_case [gs_ModbusClient_WriteRegister] []
  · have h4i : ¬ (pl.length : Int) = 4 := by omega
    have h1i : ¬ (pl.length : Int) = 1 := by omega
    write_case [gs_ModbusClient_WriteRegister, h4i, h1i] [h4, h1]

/-! ## 2. the six core functions: response validation = model -/

/-- all six at once, at fuel 64 -/
theorem core_validate_64 (c : Core) (fc : Byte) (pl : Bytes) (hreq : c.request = .ok (fc, pl)) (res : Pdu) :
    obs (exec (respOracle (.sym "nil")) 64 (coreStmt c) (callEnv c res)) = mobs c fc res := by
  cases c with
  | readBools di a q => exact readBools_64 di a q fc pl res hreq
  | readRegs a q rt => exact readRegisters_64 a q rt fc pl res hreq
  | writeCoil a v => exact WriteCoil_64 a v fc pl res hreq
  | writeCoils a vs => exact WriteCoils_64 a vs fc pl res hreq
  | writeReg e a v => exact WriteRegister_64 e a v fc pl res hreq
  | writeRegs a p => exact writeRegisters_64 a p fc pl res hreq

theorem mclass_ne_other (m) : mclass m ≠ .other := by
  rcases m with _ | ⟨_ | _⟩ <;> exact fun h => nomatch h

theorem obs_not_outOfFuel {r : Res} {o : Obs} (h : obs r = o) (ho : o.1 ≠ .other) : r.how ≠ .outOfFuel := by
  intro h'
  apply ho
  rw [← h]
  simp only [obs, rclass, h']

/-- MAIN (part 2). For every core call whose arguments pass the checks (`c.request = ok (fc, _)`),
    every response PDU and every fuel ≥ 64: the run of the generated function, continued after a
    successful `mc.executeRequest`, has the observation of the model: the verdict class of
    `c.validate fc res` (ok / the error / panic), the decoder call resp. the `bytes` assignment of
    the reads with the model's arguments exactly when the model accepts, and the call
    `mapExceptionCodeToError(res.payload[0])` exactly in the exception branch. -/
theorem C02S_core_validate (c : Core) (fc : Byte) (pl : Bytes) (hreq : c.request = .ok (fc, pl))
    (res : Pdu) (fuel : Nat) (hf : 64 ≤ fuel) :
    obs (exec (respOracle (.sym "nil")) fuel (coreStmt c) (callEnv c res)) = mobs c fc res := by
  have h64 := core_validate_64 c fc pl hreq res
  rw [exec_mono _ 64 fuel _ _ hf (obs_not_outOfFuel h64 (mclass_ne_other _))]
  exact h64

/-! ### what the equation says, spelled out -/

/-- returned with `err` still `nil` -/
def IsOk (r : Res) : Prop := r.how = .returned ∧ Env.read r.env "err" = .sym "nil"
/-- returned with `err = ErrProtocolError` -/
def IsProtoErr (r : Res) : Prop := r.how = .returned ∧ Env.read r.env "err" = .sym "ErrProtocolError"
/-- returned with `err` = the answer of `mapExceptionCodeToError(code)`, the only such call -/
def IsExc (r : Res) (code : Int) : Prop :=
  r.how = .returned ∧ Env.read r.env "err" = .sym (excSym code) ∧
    callArgs r.calls "mapExceptionCodeToError" = [[.int code]]
/-- the run is stuck: an out-of-range read / a panic -/
def Panics (r : Res) : Prop := ∃ t, r.how = .stuckAt t

theorem mapException_ne_proto' (b : Byte) : mapException b ≠ .protocolError := by
  intro h; rw [mapException_ne_proto] at h; exact h

theorem errClass_ok_iff (e x) : errClass e x = .ok ↔ e = .sym "nil" := by
  unfold errClass
  split
  · simp [*]
  · split
    · simp [*]
    · split
      · split <;> simp [*, excSym_ne_nil]
      · simp [*]

theorem errClass_proto_iff (e x) : errClass e x = .err .protocolError ↔ e = .sym "ErrProtocolError" := by
  unfold errClass
  split
  · next h => subst h; simp
  · split
    · simp [*]
    · split
      · split
        · simp [mapException_ne_proto, excSym_ne_perr, *]
        · simp [*]
      · simp [*]

theorem errClass_exc_iff (e x) (er : Err) (her : er ≠ .protocolError) :
    errClass e x = .err er ↔ ∃ c, x = [[.int c]] ∧ e = .sym (excSym c) ∧ er = mapException (byteOfNat c.toNat) := by
  unfold errClass
  split
  · next h =>
    subst h
    constructor
    · intro h; cases h
    · rintro ⟨c, _, h, _⟩
      injection h with h
      exact absurd h.symm (by rw [excSym_ne_nil]; exact id)
  · split
    · next h1 h2 =>
      subst h2
      constructor
      · intro h; injection h with h; exact absurd h.symm her
      · rintro ⟨c, _, h, _⟩
        injection h with h
        exact absurd h.symm (by rw [excSym_ne_perr]; exact id)
    · split
      · next c =>
        split
        · next h =>
          constructor
          · intro h'; injection h' with h'; exact ⟨c, rfl, h, h'.symm⟩
          · rintro ⟨c', hc, _, h3⟩
            simp only [List.cons.injEq, GoEval.Val.int.injEq, and_true] at hc
            subst hc; rw [h3]
        · next h =>
          constructor
          · intro h'; cases h'
          · rintro ⟨c', hc, h2, _⟩
            simp only [List.cons.injEq, GoEval.Val.int.injEq, and_true] at hc
            subst hc; exact absurd h2 h
      · next hx =>
        constructor
        · intro h'; cases h'
        · rintro ⟨c', hc, _, _⟩
          exact absurd hc (hx c')

theorem rclass_ok_iff (r : Res) : rclass r = .ok ↔ IsOk r := by
  obtain ⟨env, how, cs⟩ := r
  cases how <;> simp [rclass, IsOk, errClass_ok_iff]
theorem rclass_proto_iff (r : Res) : rclass r = .err .protocolError ↔ IsProtoErr r := by
  obtain ⟨env, how, cs⟩ := r
  cases how <;> simp [rclass, IsProtoErr, errClass_proto_iff]
theorem rclass_exc_iff (r : Res) (er : Err) (her : er ≠ .protocolError) :
    rclass r = .err er ↔ ∃ c, IsExc r c ∧ er = mapException (byteOfNat c.toNat) := by
  obtain ⟨env, how, cs⟩ := r
  cases how <;> simp only [rclass, IsExc, reduceCtorEq, false_and, exists_false]
  rw [errClass_exc_iff _ _ _ her]
  constructor
  · rintro ⟨c, h1, h2, h3⟩; exact ⟨c, ⟨trivial, h2, h1⟩, h3⟩
  · rintro ⟨c, ⟨_, h2, h1⟩, h3⟩; exact ⟨c, h1, h2, h3⟩
theorem rclass_panic_iff (r : Res) : rclass r = .panic ↔ Panics r := by
  obtain ⟨env, how, cs⟩ := r
  cases how <;> simp [rclass, Panics, errClass]
  · split
    · simp
    · split
      · simp
      · split
        · split <;> simp
        · simp

theorem mclass_ok_iff (m) : mclass m = .ok ↔ ∃ raw, m = some (.ok raw) := by
  rcases m with _ | ⟨_ | _⟩ <;> simp [mclass]
theorem mclass_err_iff (m e) : mclass m = .err e ↔ m = some (.error e) := by
  rcases m with _ | ⟨_ | _⟩ <;> simp [mclass]
theorem mclass_panic_iff (m) : mclass m = .panic ↔ m = none := by
  rcases m with _ | ⟨_ | _⟩ <;> simp [mclass]

/-- what `obs r = mobs c fc res` says. `m` is the model's result `c.validate fc res`. -/
theorem validate_spelled {r : Res} {c : Core} {fc : Byte} {res : Pdu} (h : obs r = mobs c fc res) :
    let m := c.validate fc res
    (IsOk r ↔ ∃ raw, m = some (.ok raw)) ∧
    (IsProtoErr r ↔ m = some (.error .protocolError)) ∧
    (∀ e, e ≠ .protocolError →
      (m = some (.error e) ↔ ∃ code, IsExc r code ∧ e = mapException (byteOfNat code.toNat))) ∧
    (Panics r ↔ m = none) ∧
    callArgs r.calls "decodeBools" = expDecode c res.payload m ∧
    Env.read r.env "bytes" = expBytes c res.payload m ∧
    callArgs r.calls "mapExceptionCodeToError" = expExc res.payload m := by
  intro m
  simp only [obs, mobs, mobsOf, Prod.mk.injEq] at h
  obtain ⟨h1, h2, h3, h4⟩ := h
  refine ⟨?_, ?_, ?_, ?_, h2, h3, h4⟩
  · rw [← rclass_ok_iff, h1, mclass_ok_iff]
  · rw [← rclass_proto_iff, h1, mclass_err_iff]
  · intro e he
    rw [← rclass_exc_iff r e he, h1, mclass_err_iff]
  · rw [← rclass_panic_iff, h1, mclass_panic_iff]

/-- MAIN (part 2, spelled out), for each of the six core functions (`coreStmt c`), all requests
    that pass the argument checks, all response PDUs, all fuels ≥ 64. With
    `r` = the run continued after the successful `mc.executeRequest`, `m = c.validate fc res`:
    * `err = nil` (returned) ⇔ `m = some (ok _)`;
    * `err = ErrProtocolError` ⇔ `m = some (error protocolError)`;
    * `m = some (error e)`, `e` any other error ⇔ the run called `mapExceptionCodeToError(code)`
      once, returned its answer in `err`, and `e = mapException code`;
    * the run is stuck (Go: panic) ⇔ `m = none` — and neither ever happens;
    * `decodeBools` was called, with `[quantity, res.payload[1:]]`, exactly when `readBools`
      accepts; `bytes = res.payload[1:]` was assigned exactly when `readRegisters` accepts;
      `mapExceptionCodeToError` was called, with `res.payload[0]`, exactly in the exception branch. -/
theorem C02S_core_validate_spelled (c : Core) (fc : Byte) (pl : Bytes) (hreq : c.request = .ok (fc, pl))
    (res : Pdu) (fuel : Nat) (hf : 64 ≤ fuel) :
    let r := exec (respOracle (.sym "nil")) fuel (coreStmt c) (callEnv c res)
    let m := c.validate fc res
    (IsOk r ↔ ∃ raw, m = some (.ok raw)) ∧
    (IsProtoErr r ↔ m = some (.error .protocolError)) ∧
    (∀ e, e ≠ .protocolError →
      (m = some (.error e) ↔ ∃ code, IsExc r code ∧ e = mapException (byteOfNat code.toNat))) ∧
    (Panics r ↔ m = none) ∧ ¬ Panics r ∧
    callArgs r.calls "decodeBools" = expDecode c res.payload m ∧
    Env.read r.env "bytes" = expBytes c res.payload m ∧
    callArgs r.calls "mapExceptionCodeToError" = expExc res.payload m := by
  intro r m
  obtain ⟨h1, h2, h3, h4, h5, h6, h7⟩ := validate_spelled (C02S_core_validate c fc pl hreq res fuel hf)
  exact ⟨h1, h2, h3, h4, fun hp => Modbus.ClientResp.validate_ne_none c fc res (h4.mp hp), h5, h6, h7⟩

/-- no response makes a core function panic (index out of range): the length checks precede
    every indexing / slicing of `res.payload` -/
theorem C02S_never_panics (c : Core) (fc : Byte) (pl : Bytes) (hreq : c.request = .ok (fc, pl))
    (res : Pdu) (fuel : Nat) (hf : 64 ≤ fuel) :
    ∀ t, (exec (respOracle (.sym "nil")) fuel (coreStmt c) (callEnv c res)).how ≠ .stuckAt t := by
  intro t ht
  exact (C02S_core_validate_spelled c fc pl hreq res fuel hf).2.2.2.2.1 ⟨t, ht⟩

/-- the exception branch, concretely: a reply `fc|0x80, [code]` makes the function return the
    answer of `mapExceptionCodeToError(code)`; any other payload length under `fc|0x80` is
    `ErrProtocolError` -/
theorem C02S_exception_reply (c : Core) (fc : Byte) (pl : Bytes) (hreq : c.request = .ok (fc, pl))
    (res : Pdu) (hfc : res.fc = (fc ||| 0x80)) (fuel : Nat) (hf : 64 ≤ fuel) :
    let r := exec (respOracle (.sym "nil")) fuel (coreStmt c) (callEnv c res)
    (∀ code, res.payload = [code] → IsExc r code.toNat) ∧ (res.payload.length ≠ 1 → IsProtoErr r) := by
  intro r
  have hne : res.fc ≠ fc := by
    rw [hfc]; exact fun h => (Modbus.ClientResp.fc_facts fc (Modbus.ClientResp.request_fc hreq)).2.1 h.symm
  obtain ⟨_, h2, h3, _, _, _, _, h7⟩ := C02S_core_validate_spelled c fc pl hreq res fuel hf
  constructor
  · intro code hp
    have hm : c.validate fc res = some (.error (mapException code)) := by
      unfold Core.validate
      rw [if_neg hne, if_pos hfc, hp]
      rfl
    obtain ⟨k, hk, _⟩ := (h3 _ (mapException_ne_proto' code)).mp hm
    have h7' := h7
    rw [hm, hk.2.2] at h7'
    simp only [expExc, mapException_ne_proto, ↓reduceIte, hp, List.getD_cons_zero, List.cons.injEq,
      GoEval.Val.int.injEq, and_true] at h7'
    rw [← h7']; exact hk
  · intro hl
    apply h2.mpr
    unfold Core.validate
    rw [if_neg hne, if_pos hfc, if_pos hl]
    rfl

/-! ### the six functions by name -/

theorem C02S_readBools_validate (di : Bool) (addr quantity : U16) (fc : Byte) (pl : Bytes)
    (hreq : (Core.readBools di addr quantity).request = .ok (fc, pl)) (res : Pdu) (fuel : Nat) (hf : 64 ≤ fuel) :
    obs (exec (respOracle (.sym "nil")) fuel gs_ModbusClient_readBools
        ([("addr", .int addr.toNat), ("quantity", .int quantity.toNat), ("di", .ofBool di), ("err", .sym "nil")]
          ++ respEnv .big res))
      = mobs (.readBools di addr quantity) fc res := by
  have h := C02S_core_validate (.readBools di addr quantity) fc pl hreq res fuel hf
  simpa only [callEnv, fcEnv_readBools, coreStmt, coreEnv, coreEndian, List.append_nil] using h

theorem C02S_readRegisters_validate (addr : U16) (quantity regType : Nat) (fc : Byte) (pl : Bytes)
    (hreq : (Core.readRegs addr quantity regType).request = .ok (fc, pl)) (res : Pdu) (fuel : Nat)
    (hf : 64 ≤ fuel) :
    obs (exec (respOracle (.sym "nil")) fuel gs_ModbusClient_readRegisters
        ([("addr", .int addr.toNat), ("quantity", .int quantity), ("regType", .int regType), ("err", .sym "nil")]
          ++ respEnv .big res))
      = mobs (.readRegs addr quantity regType) fc res := by
  have h := C02S_core_validate (.readRegs addr quantity regType) fc pl hreq res fuel hf
  simpa only [callEnv, fcEnv_readRegs, coreStmt, coreEnv, coreEndian, List.append_nil] using h

theorem C02S_WriteCoil_validate (addr : U16) (value : Bool) (fc : Byte) (pl : Bytes)
    (hreq : (Core.writeCoil addr value).request = .ok (fc, pl)) (res : Pdu) (fuel : Nat) (hf : 64 ≤ fuel) :
    obs (exec (respOracle (.sym "nil")) fuel gs_ModbusClient_WriteCoil
        ([("addr", .int addr.toNat), ("value", .ofBool value), ("err", .sym "nil"), ("req.functionCode", .int 5)]
          ++ respEnv .big res))
      = mobs (.writeCoil addr value) fc res := by
  have h := C02S_core_validate (.writeCoil addr value) fc pl hreq res fuel hf
  simpa only [callEnv, fcEnv_writeCoil, coreStmt, coreEnv, coreEndian, List.append_nil, List.cons_append,
    List.nil_append] using h

theorem C02S_WriteCoils_validate (addr : U16) (values : List Bool) (fc : Byte) (pl : Bytes)
    (hreq : (Core.writeCoils addr values).request = .ok (fc, pl)) (res : Pdu) (fuel : Nat) (hf : 64 ≤ fuel) :
    obs (exec (respOracle (.sym "nil")) fuel gs_ModbusClient_WriteCoils
        ([("addr", .int addr.toNat), ("len(values)", .int values.length), ("err", .sym "nil"),
          ("req.functionCode", .int 15)] ++ respEnv .big res))
      = mobs (.writeCoils addr values) fc res := by
  have h := C02S_core_validate (.writeCoils addr values) fc pl hreq res fuel hf
  simpa only [callEnv, fcEnv_writeCoils, coreStmt, coreEnv, coreEndian, List.append_nil, List.cons_append,
    List.nil_append] using h

/-- `e` is the configured byte order `mc.endianness`: the value echo is decoded with it -/
theorem C02S_WriteRegister_validate (e : Endian) (addr value : U16) (fc : Byte) (pl : Bytes)
    (hreq : (Core.writeReg e addr value).request = .ok (fc, pl)) (res : Pdu) (fuel : Nat) (hf : 64 ≤ fuel) :
    obs (exec (respOracle (.sym "nil")) fuel gs_ModbusClient_WriteRegister
        ([("addr", .int addr.toNat), ("value", .int value.toNat), ("err", .sym "nil"),
          ("req.functionCode", .int 6)] ++ respEnv e res))
      = mobs (.writeReg e addr value) fc res := by
  have h := C02S_core_validate (.writeReg e addr value) fc pl hreq res fuel hf
  simpa only [callEnv, fcEnv_writeReg, coreStmt, coreEnv, coreEndian, List.append_nil, List.cons_append,
    List.nil_append] using h

theorem C02S_writeRegisters_validate (addr : U16) (values : Bytes) (fc : Byte) (pl : Bytes)
    (hreq : (Core.writeRegs addr values).request = .ok (fc, pl)) (res : Pdu) (fuel : Nat) (hf : 64 ≤ fuel) :
    obs (exec (respOracle (.sym "nil")) fuel gs_ModbusClient_writeRegisters
        ([("addr", .int addr.toNat), ("len(values)", .int values.length), ("err", .sym "nil"),
          ("req.functionCode", .int 16)] ++ respEnv .big res))
      = mobs (.writeRegs addr values) fc res := by
  have h := C02S_core_validate (.writeRegs addr values) fc pl hreq res fuel hf
  simpa only [callEnv, fcEnv_writeRegs, coreStmt, coreEnv, coreEndian, List.append_nil, List.cons_append,
    List.nil_append] using h

/-! ### static side conditions of the environment -/

/-- every assignment / call-result target of a statement, in program order (all paths) -/
def targets : GStmt → List String
  | .assign x _ => [x]
  | .bindCall ts _ _ => ts
  | .seq a b => targets a ++ targets b
  | .ite _ t e => targets t ++ targets e
  | .loop b => targets b
  | _ => []

/-- in each of the six functions `res` is bound exactly once (by the `mc.executeRequest` call) and
    no `res.…` / `len(res.…)` leaf is ever assigned: the leaves of `respEnv` describe that one
    value for the whole continuation; `req.functionCode` is assigned only in the two reads
    (before the call), for the four writes it is the literal's field (`C01S_staticFc`). -/
theorem C02S_res_bound_once :
    [gs_ModbusClient_readBools, gs_ModbusClient_readRegisters, gs_ModbusClient_WriteCoil,
     gs_ModbusClient_WriteCoils, gs_ModbusClient_WriteRegister, gs_ModbusClient_writeRegisters].all
      (fun s => (targets s).filter (fun t => hasSub t "res") == ["res"] &&
        ((bindCalls s).filter (fun c => c.1.contains "res")).map (fun c => (c.1, c.2.1))
          == [(["res", "err"], "mc.executeRequest")])
      = true ∧
    staticFc gs_ModbusClient_readBools = none ∧ staticFc gs_ModbusClient_readRegisters = none ∧
    (targets gs_ModbusClient_WriteCoil ++ targets gs_ModbusClient_WriteCoils ++
      targets gs_ModbusClient_WriteRegister ++ targets gs_ModbusClient_writeRegisters).contains
        "req.functionCode" = false := by
  decide +kernel

/-! ## 3. `executeRequest`: the unit-id rules = `unitCheck` -/

/-- the transport call answers `[sym "res", er]`; nothing else is answered -/
def trOracle (er : GoEval.Val) : Oracle := fun f _ =>
  if f = "mc.transport.ExecuteRequest" then some [.sym "res", er] else none

/-- an error value as a symbol, `nil` for success -/
def errVal (name : Err → String) : Except Err Pdu → GoEval.Val
  | .ok _ => .sym "nil"
  | .error e => .sym (name e)

/-- leaves of `executeRequest`: the unit id of the request; on success function code and unit id
    of the response; on failure whether the error is an i/o timeout (`os.IsTimeout(err)`) -/
def trEnv (reqUnit : Byte) : Except Err Pdu → Env
  | .ok res => [("req", .sym "req"), ("req.unitId", .int reqUnit.toNat),
      ("res.functionCode", .int res.fc.toNat), ("res.unitId", .int res.unit.toNat)]
  | .error e => [("req", .sym "req"), ("req.unitId", .int reqUnit.toNat),
      ("os.IsTimeout(err)", .ofBool (decide (e = .ioTimeout)))]

/-- how the run ended, `err`, `res`, the calls -/
def uobs (r : Res) : End × GoEval.Val × GoEval.Val × Calls := (r.how, Env.read r.env "err", Env.read r.env "res", r.calls)
theorem uobs_ite (p : Prop) [Decidable p] (x y : Res) :
    uobs (if p then x else y) = if p then uobs x else uobs y := by
  split <;> exact id rfl
theorem uobs_mk (env how cs) : uobs ⟨env, how, cs⟩ = (how, Env.read env "err", Env.read env "res", cs) := by
  exact id rfl
theorem errVal_ite (name) (p : Prop) [Decidable p] (x y) :
    errVal name (if p then x else y) = if p then errVal name x else errVal name y := by
  split <;> rfl

theorem errVal_ok (name res) : errVal name (.ok res) = .sym "nil" := by exact id rfl
theorem errVal_error (name e) : errVal name (.error e) = .sym (name e) := by exact id rfl

theorem unitCheck_error (u : Byte) (e : Err) :
    unitCheck u (.error e) = .error (if e = .ioTimeout then .requestTimedOut else e) := by
  cases e <;> rfl

theorem executeRequest_64 (name : Err → String) (hn : ∀ e, name e ≠ "nil")
    (ht : name .requestTimedOut = "ErrRequestTimedOut") (hb : name .badUnitId = "ErrBadUnitId")
    (reqUnit : Byte) (tr : Except Err Pdu) :
    uobs (exec (trOracle (errVal name tr)) 64 gs_ModbusClient_executeRequest (trEnv reqUnit tr))
      = (.returned, errVal name (unitCheck reqUnit tr), .sym "res",
          [("mc.transport.ExecuteRequest", [.sym "req"])]) := by
  cases tr with
  | error e =>
    have hne := hn e
    rw [unitCheck_error]
    by_cases he : e = .ioTimeout
    · subst he
      go_eval [gs_ModbusClient_executeRequest, trOracle, trEnv, errVal_error, uobs_ite, uobs_mk, hne, ne_eq,
        not_false_eq_true, decide_true, ht]
    · go_eval [gs_ModbusClient_executeRequest, trOracle, trEnv, errVal_error, uobs_ite, uobs_mk, hne, ne_eq,
        not_false_eq_true, decide_true, decide_false, he]
  | ok res =>
    obtain ⟨ru, rfc, rpl⟩ := res
    have h1 := ru.isLt
    have h2 := reqUnit.isLt
    have h3 := (rfc &&& (0x80 : Byte)).isLt
    go_eval [gs_ModbusClient_executeRequest, trOracle, trEnv, errVal_ok, uobs_ite, uobs_mk, ne_eq,
      not_false_eq_true, not_true_eq_false, decide_true, decide_false, land80, Bool.and_eq_true]
    simp only [unitCheck, errVal_ite, errVal_ok, errVal_error, hb, ← BitVec.toNat_inj, BitVec.toNat_ofNat,
      BitVec.reduceToNat, Nat.reducePow, Nat.reduceMod, ne_eq]
    generalize (rfc &&& (0x80 : Byte)).toNat = m at h3 ⊢
    repeat' split
    all_goals first | (exfalso; omega) | rfl

/-- MAIN (part 3). `executeRequest` evaluated for ALL transport results `tr` (an error `e`, or a
    response PDU with any function code and unit id) and all request unit ids: it returns, `res` is
    the transport's result, and `err` is what the model's `unitCheck` gives —
    `ErrRequestTimedOut` when the transport error is an i/o timeout, the transport's error
    unchanged otherwise; on success `ErrBadUnitId` when the unit id differs from the request's,
    except that an EXCEPTION reply (`fc & 0x80 = 0x80`) may also come from the gateway unit 255;
    `nil` otherwise. `name` is any naming of the error values that never yields `nil` and gives the
    two constants their Go names. -/
theorem C02S_executeRequest_unitCheck (name : Err → String) (hn : ∀ e, name e ≠ "nil")
    (ht : name .requestTimedOut = "ErrRequestTimedOut") (hb : name .badUnitId = "ErrBadUnitId")
    (reqUnit : Byte) (tr : Except Err Pdu) (fuel : Nat) (hf : 64 ≤ fuel) :
    let r := exec (trOracle (errVal name tr)) fuel gs_ModbusClient_executeRequest (trEnv reqUnit tr)
    r.how = .returned ∧ Env.read r.env "err" = errVal name (unitCheck reqUnit tr) ∧
      Env.read r.env "res" = .sym "res" ∧ r.calls = [("mc.transport.ExecuteRequest", [.sym "req"])] := by
  intro r
  have h64 := executeRequest_64 name hn ht hb reqUnit tr
  have hm : r = exec (trOracle (errVal name tr)) 64 gs_ModbusClient_executeRequest (trEnv reqUnit tr) := by
    apply exec_mono _ 64 fuel _ _ hf
    have : (uobs (exec (trOracle (errVal name tr)) 64 gs_ModbusClient_executeRequest (trEnv reqUnit tr))).1
        = .returned := by rw [h64]
    simp only [uobs] at this
    rw [this]; exact fun h => nomatch h
  rw [hm]
  simp only [uobs, Prod.mk.injEq] at h64
  exact h64

/-- the gateway rule spelled out on the model: a REGULAR reply from unit 255 to a request for
    another unit is `ErrBadUnitId`; an EXCEPTION reply from unit 255 is accepted -/
theorem C02S_unit255 (reqUnit fc : Byte) (pl : Bytes) (hu : reqUnit ≠ 0xff) :
    (fc &&& 0x80 = 0x00 → unitCheck reqUnit (.ok ⟨0xff, fc, pl⟩) = .error .badUnitId) ∧
    (fc &&& 0x80 = 0x80 → unitCheck reqUnit (.ok ⟨0xff, fc, pl⟩) = .ok ⟨0xff, fc, pl⟩) := by
  constructor
  · intro h
    simp only [unitCheck]
    rw [if_pos ⟨h, fun h' => hu h'.symm⟩]
  · intro h
    simp only [unitCheck]
    rw [if_neg (fun h' => absurd (h.symm.trans h'.1) (by decide)), if_neg (fun h' => h'.2.2 rfl)]

/-! ## 4. the error path: no validation, no decoding -/

/-- how the run ended, `err`, `bytes`, the decoder / exception-mapping calls, the
    `mc.executeRequest` calls -/
def eobs (r : Res) : End × GoEval.Val × GoEval.Val × List (List GoEval.Val) × List (List GoEval.Val) × Nat :=
  (r.how, Env.read r.env "err", Env.read r.env "bytes", callArgs r.calls "decodeBools",
    callArgs r.calls "mapExceptionCodeToError", (callArgs r.calls "mc.executeRequest").length)
theorem eobs_ite (p : Prop) [Decidable p] (x y : Res) :
    eobs (if p then x else y) = if p then eobs x else eobs y := by
  split <;> exact id rfl
theorem eobs_mk (env how cs) : eobs ⟨env, how, cs⟩ =
    (how, Env.read env "err", Env.read env "bytes", callArgs cs "decodeBools",
      callArgs cs "mapExceptionCodeToError", (callArgs cs "mc.executeRequest").length) := by exact id rfl

syntax "err_eval" " [" Lean.Parser.Tactic.simpLemma,* "]" : tactic
macro_rules
  | `(tactic| err_eval [$ls,*]) => `(tactic|
    (simp only [fcEnv_readBools, fcEnv_readRegs, fcEnv_writeCoil, fcEnv_writeCoils, fcEnv_writeReg,
       fcEnv_writeRegs, coreStmt, coreEnv, List.cons_append, List.nil_append, List.append_nil]
     go_eval_nowrap [respOracle, eobs_ite, Int.reduceEq, Int.reduceLT, tmod_natCast_left, tdiv_natCast_left,
       false_and, ne_eq, not_true_eq_false, not_false_eq_true, decide_true, decide_false, $ls,*]
     simp only [eobs_mk, read_def, read?_write, read?_cons, read?_nil, String.reduceEq,
       ↓reduceIte, Option.getD_some, Option.getD_none, callArgs_cons, callArgs_nil, List.length_cons,
       List.length_nil, Nat.reduceAdd]
     try simp (disch := omega) only [wrap_int, wrap_u8, wrap_u16, wrap_u32, wrap_uint, wrap_u64, wrap_i64]
     try simp (disch := omega) only [if_pos, if_neg]))

theorem error_path_64 (c : Core) (fc : Byte) (pl : Bytes) (hreq : c.request = .ok (fc, pl))
    (s : String) (hs : s ≠ "nil") :
    eobs (exec (respOracle (.sym s)) 64 (coreStmt c) (coreEnv c ++ fcEnv c))
      = (.returned, .sym s, .unk, [], [], 1) := by
  cases c with
  | readBools di a q =>
    have ha := a.isLt
    have hq := q.isLt
    obtain ⟨hq1, hq2, hq3, rfl⟩ := req_readBools hreq
    cases di <;> err_eval [gs_ModbusClient_readBools, hs]
  | readRegs a q rt =>
    have ha := a.isLt
    obtain ⟨hrt, hq1, hq2, hq3, rfl⟩ := req_readRegs hreq
    rcases hrt with rfl | rfl <;> err_eval [gs_ModbusClient_readRegisters, hs]
  | writeCoil a v => cases v <;> err_eval [gs_ModbusClient_WriteCoil, hs]
  | writeCoils a vs =>
    have ha := a.isLt
    obtain ⟨hn0, hn1, hn2, rfl⟩ := req_writeCoils hreq
    err_eval [gs_ModbusClient_WriteCoils, hs]
  | writeReg e a v => err_eval [gs_ModbusClient_WriteRegister, hs]
  | writeRegs a p =>
    have ha := a.isLt
    obtain ⟨hn0, hn1, hn2, rfl⟩ := req_writeRegs hreq
    have hwl : wrap .u16 (p.length : Int) = p.length := wrap_u16 (by omega) (by omega)
    err_eval [gs_ModbusClient_writeRegisters, hs, hwl]

/-- MAIN (part 4). When `mc.executeRequest` returns a non-nil error `s`, each of the six core
    functions returns at once with that error: `err = s`, `mc.executeRequest` was called once,
    nothing was decoded (`decodeBools` not called, `bytes` not assigned), no exception mapping.
    The environment contains NO response leaf: nothing of `res` is read on this path (a read
    would make the run stuck). -/
theorem C02S_error_path (c : Core) (fc : Byte) (pl : Bytes) (hreq : c.request = .ok (fc, pl))
    (s : String) (hs : s ≠ "nil") (fuel : Nat) (hf : 64 ≤ fuel) :
    let r := exec (respOracle (.sym s)) fuel (coreStmt c) (coreEnv c ++ fcEnv c)
    r.how = .returned ∧ Env.read r.env "err" = .sym s ∧ Env.read r.env "bytes" = .unk ∧
      callArgs r.calls "decodeBools" = [] ∧ callArgs r.calls "mapExceptionCodeToError" = [] ∧
      (callArgs r.calls "mc.executeRequest").length = 1 := by
  intro r
  have h64 := error_path_64 c fc pl hreq s hs
  have hm : r = exec (respOracle (.sym s)) 64 (coreStmt c) (coreEnv c ++ fcEnv c) := by
    apply exec_mono _ 64 fuel _ _ hf
    have : (eobs (exec (respOracle (.sym s)) 64 (coreStmt c) (coreEnv c ++ fcEnv c))).1 = .returned := by
      rw [h64]
    simp only [eobs] at this
    rw [this]; exact fun h => nomatch h
  rw [hm]
  simp only [eobs, Prod.mk.injEq] at h64
  exact h64

/-! ## 5. sensitivity: the evaluator tells defective variants apart -/

/-- remove from an `||`-chain every disjunct satisfying `p` -/
def dropOr (p : GExpr → Bool) : GExpr → GExpr
  | .or a b => if p b then dropOr p a else if p a then dropOr p b else .or (dropOr p a) (dropOr p b)
  | e => e

/-- rewrite every `if` condition of a statement -/
def mapCond (f : GExpr → GExpr) : GStmt → GStmt
  | .seq a b => .seq (mapCond f a) (mapCond f b)
  | .ite c t e => .ite (f c) (mapCond f t) (mapCond f e)
  | .loop b => .loop (mapCond f b)
  | s => s

/-- the CURRENT `WriteCoil` with the echo check reduced to the first value byte: the disjunct
    `res.payload[3] != 0x00` removed -/
def WriteCoil_noByte3 : GStmt :=
  mapCond (dropOr (fun e => (varTexts e).contains "res.payload[3]")) gs_ModbusClient_WriteCoil

def isValueFalseClause : GExpr → Bool
  | .and (.cmp "==" (.var "value" _) (.lit 0 _)) _ => true
  | _ => false

/-- the CURRENT `WriteCoil` without the disjunct `(value == false && res.payload[2] != 0x00)`:
    the F2 pattern (a `false` write accepted any first value byte) -/
def WriteCoil_F2 : GStmt := mapCond (dropOr isValueFalseClause) gs_ModbusClient_WriteCoil

/-- `WriteCoil(1, true)` answered by the echo `00 01 ff 12`: the first-byte-only variant
    accepts; the generated source and the model reject with ErrProtocolError -/
theorem C02S_sensitive_noByte3 :
    obs (exec (respOracle (.sym "nil")) 64 WriteCoil_noByte3
        (callEnv (.writeCoil 1 true) ⟨1, 5, [0x00, 0x01, 0xff, 0x12]⟩)) = (.ok, [], .unk, []) ∧
    obs (exec (respOracle (.sym "nil")) 64 gs_ModbusClient_WriteCoil
        (callEnv (.writeCoil 1 true) ⟨1, 5, [0x00, 0x01, 0xff, 0x12]⟩)) = (.err .protocolError, [], .unk, []) ∧
    mobs (.writeCoil 1 true) 5 ⟨1, 5, [0x00, 0x01, 0xff, 0x12]⟩ = (.err .protocolError, [], .unk, []) := by
  decide +kernel

/-- `WriteCoil(1, false)` answered by the false echoes `00 01 12 00` and `00 01 ff 00` (F2): the
    variant accepts both; the generated source and the model reject both -/
theorem C02S_sensitive_F2 :
    ([[0x00, 0x01, 0x12, 0x00], [0x00, 0x01, 0xff, 0x00]] : List Bytes).all (fun p =>
      obs (exec (respOracle (.sym "nil")) 64 WriteCoil_F2 (callEnv (.writeCoil 1 false) ⟨1, 5, p⟩))
        == (.ok, [], .unk, []) &&
      obs (exec (respOracle (.sym "nil")) 64 gs_ModbusClient_WriteCoil (callEnv (.writeCoil 1 false) ⟨1, 5, p⟩))
        == (.err .protocolError, [], .unk, []) &&
      mobs (.writeCoil 1 false) 5 ⟨1, 5, p⟩ == (.err .protocolError, [], .unk, [])) = true := by
  decide +kernel

/-- a payload shorter than the index the variant reads: removing the LENGTH check makes the run
    stuck (the Go panic), which the verdict class reports -/
def WriteCoil_noLen : GStmt :=
  mapCond (dropOr (fun e => (varTexts e).contains "len(res.payload)")) gs_ModbusClient_WriteCoil
theorem C02S_sensitive_noLen :
    (obs (exec (respOracle (.sym "nil")) 64 WriteCoil_noLen
        (callEnv (.writeCoil 1 true) ⟨1, 5, [0x00, 0x01, 0xff]⟩))).1 = .panic ∧
    (obs (exec (respOracle (.sym "nil")) 64 gs_ModbusClient_WriteCoil
        (callEnv (.writeCoil 1 true) ⟨1, 5, [0x00, 0x01, 0xff]⟩))).1 = .err .protocolError := by
  decide +kernel

/-- `executeRequest` with the unit-id rule applied WITHOUT the `fc & 0x80` test: the earlier
    seeded bug "unit 255 accepted for regular replies" -/
def executeRequest_noFcTest : GStmt :=
  .seq (.bindCall ["res", "err"] "mc.transport.ExecuteRequest" [.var "req" .other])
  (.seq (.ite (.cmp "!=" (.var "err" .other) (.var "nil" .other))
      (.seq (.ite (.call "os.IsTimeout(err)" .bool) (.assign "err" (.var "ErrRequestTimedOut" .other)) .skip) .ret)
      .skip)
  (.seq (.ite (.and (.cmp "!=" (.var "res.unitId" .u8) (.var "req.unitId" .u8))
        (.cmp "!=" (.var "res.unitId" .u8) (.lit 255 .u8)))
      (.seq (.assign "err" (.var "ErrBadUnitId" .other)) .ret) .skip)
  .ret))

/-- a REGULAR reply (fc 3) from unit 255 to a request for unit 1: the variant returns `nil`;
    the generated source returns ErrBadUnitId, as the model. An EXCEPTION reply (fc 0x83) from
    unit 255 is accepted by all three. -/
theorem C02S_sensitive_unit255 :
    (uobs (exec (trOracle (.sym "nil")) 64 executeRequest_noFcTest (trEnv 1 (.ok ⟨0xff, 0x03, [0x02, 0x00, 0x07]⟩)))).2.1
      = .sym "nil" ∧
    (uobs (exec (trOracle (.sym "nil")) 64 gs_ModbusClient_executeRequest
        (trEnv 1 (.ok ⟨0xff, 0x03, [0x02, 0x00, 0x07]⟩)))).2.1 = .sym "ErrBadUnitId" ∧
    unitCheck 1 (.ok ⟨0xff, 0x03, [0x02, 0x00, 0x07]⟩) = .error .badUnitId ∧
    (uobs (exec (trOracle (.sym "nil")) 64 gs_ModbusClient_executeRequest
        (trEnv 1 (.ok ⟨0xff, 0x83, [0x0b]⟩)))).2.1 = .sym "nil" ∧
    unitCheck 1 (.ok ⟨0xff, 0x83, [0x0b]⟩) = .ok ⟨0xff, 0x83, [0x0b]⟩ := by
  decide +kernel

end Modbus.Props.C02

#print axioms Modbus.Props.C02.C02S_core_validate
#print axioms Modbus.Props.C02.C02S_core_validate_spelled
#print axioms Modbus.Props.C02.C02S_never_panics
#print axioms Modbus.Props.C02.C02S_exception_reply
#print axioms Modbus.Props.C02.C02S_readBools_validate
#print axioms Modbus.Props.C02.C02S_readRegisters_validate
#print axioms Modbus.Props.C02.C02S_WriteCoil_validate
#print axioms Modbus.Props.C02.C02S_WriteCoils_validate
#print axioms Modbus.Props.C02.C02S_WriteRegister_validate
#print axioms Modbus.Props.C02.C02S_writeRegisters_validate
#print axioms Modbus.Props.C02.C02S_res_bound_once
#print axioms Modbus.Props.C02.C02S_executeRequest_unitCheck
#print axioms Modbus.Props.C02.C02S_unit255
#print axioms Modbus.Props.C02.C02S_error_path
#print axioms Modbus.Props.C02.C02S_sensitive_noByte3
#print axioms Modbus.Props.C02.C02S_sensitive_F2
#print axioms Modbus.Props.C02.C02S_sensitive_noLen
#print axioms Modbus.Props.C02.C02S_sensitive_unit255
#print axioms Modbus.Props.C02.validate_spelled
#print axioms Modbus.GoEval.Resp.excSym_inj
#print axioms Modbus.GoEval.Resp.bytesSym_inj
#print axioms Modbus.GoEval.Resp.callArgs_eq_argsOf
#print axioms Modbus.GoEval.Resp.land80
