import ModbusVerif.Model.Skeleton
import ModbusVerif.Generated.Facts
/-
  C15 (continued) — where the role seen by handlers comes from, decided on facts regenerated from
  /repo on every run (`Gen.skeleton_*`, `Gen.handlerCalls`, `Gen.paramInfo`):

    handler request .ClientRole  =  parameter `clientRole` of handleTransport      (C15X_role_reaches_every_handler)
    plain tcp:  that argument is the literal ""                                      (C15X_plain_tcp_empty_role)
    tcp+tls:    that argument is the 2nd result of startTLS(sock)                    (C15X_tls_role_is_startTLS_result)
    startTLS:   its 2nd result is assigned exactly once, from
                ms.extractRole(connState.PeerCertificates[0]) with
                connState = tlsSock.ConnectionState(), tlsSock = tls.Server(tcpSock, …),
                after the handshake succeeded                                       (C15X_startTLS_role_from_leaf)

  `extractRole` itself is `Role.extractRole` (Props/C15.lean: `C15_eq_spec`), tied by fingerprint and
  by the correspondence runs on synthetic certificates. `PeerCertificates[0]` being the verified
  leaf is crypto/tls (T-tls).
-/
namespace Modbus.Props.C15
open Modbus Skel

set_option maxRecDepth 100000

def callsOf (tr : List Tok) (name : String) : List Tok := tr.filter (fun t => t.1 == "call" && t.2.1 == name)

/-- tokens (anywhere in a skeleton, executed or not) that give a value to the local variable `v`:
    result bindings of calls and plain assignments -/
def writesTo (sk : List Tok) (v : String) : List Tok :=
  sk.filter (fun t => (t.1 == "bind" && t.2.2.contains v) || (t.1 == "assign" && t.2.1 == v))

/-- plain TCP sessions: the role argument of the request loop is the empty string literal -/
theorem C15X_plain_tcp_empty_role :
    (callsOf (exec Gen.skeleton_ModbusServer_handleTCPClient "4" []) "ms.handleTransport").map
        (fun t => (t.2.2[1]?, t.2.2[2]?)) = [(some "sock.RemoteAddr().String(..)", some "\"\"")] := by
  decide +kernel

/-- tcp+tls sessions: the role argument is the variable `clientRole`, whose only source in
    `handleTCPClient` is the second result of `ms.startTLS(sock)`; it is not a parameter -/
theorem C15X_tls_role_is_startTLS_result :
    (callsOf (exec Gen.skeleton_ModbusServer_handleTCPClient "5" [false]) "ms.handleTransport").map
        (fun t => (t.2.2[1]?, t.2.2[2]?)) = [(some "sock.RemoteAddr().String(..)", some "clientRole")] ∧
    writesTo Gen.skeleton_ModbusServer_handleTCPClient "clientRole" =
        [("bind", "ms.startTLS", ["tlsSock", "clientRole", "err"])] ∧
    Gen.skeleton_ModbusServer_handleTCPClient.head? = some ("params", "", ["sock"]) ∧
    callsOf Gen.skeleton_ModbusServer_handleTCPClient "ms.startTLS" = [("call", "ms.startTLS", ["sock"])] := by
  decide +kernel

/-- `startTLS(tcpSock)`: results (tlsSock, clientRole, err); `clientRole` is assigned exactly once in
    the whole function, from `ms.extractRole(connState.PeerCertificates[0])`; `connState` only from
    `tlsSock.ConnectionState()`; `tlsSock` only from `tls.Server(tcpSock, …)`; and on the path that
    reaches that assignment the handshake was called and reported no error -/
theorem C15X_startTLS_role_from_leaf :
    Gen.skeleton_ModbusServer_startTLS.take 2 =
        [("params", "", ["tcpSock"]), ("results", "", ["tlsSock", "clientRole", "err"])] ∧
    writesTo Gen.skeleton_ModbusServer_startTLS "clientRole" = [("bind", "ms.extractRole", ["clientRole"])] ∧
    callsOf Gen.skeleton_ModbusServer_startTLS "ms.extractRole" =
        [("call", "ms.extractRole", ["connState.PeerCertificates[0]"])] ∧
    writesTo Gen.skeleton_ModbusServer_startTLS "connState" = [("bind", "tlsSock.ConnectionState", ["connState"])] ∧
    writesTo Gen.skeleton_ModbusServer_startTLS "tlsSock" = [("bind", "tls.Server", ["tlsSock"])] ∧
    (callsOf Gen.skeleton_ModbusServer_startTLS "tls.Server").map (fun t => t.2.2.head?) = [some "tcpSock"] ∧
    (∀ e1 e2 e3 : Bool,
      let tr := exec Gen.skeleton_ModbusServer_startTLS "" [e1, e2, e3]
      called tr "ms.extractRole" = true → (e2 = false ∧ called tr "tlsSock.Handshake" = true)) := by
  decide +kernel

/-- every handler request carries `ClientRole: clientRole`, `ClientAddr: clientAddr` and
    `UnitId: req.unitId`, where `clientRole` / `clientAddr` are parameters of `handleTransport` that
    are never assigned nor have their address taken in its body -/
theorem C15X_role_reaches_every_handler :
    Gen.handlerCalls.all (fun c =>
      c.2.2.2.lookup "ClientRole" == some "clientRole" && c.2.2.2.lookup "ClientAddr" == some "clientAddr"
        && c.2.2.2.lookup "UnitId" == some "req.unitId") = true ∧
    Gen.paramInfo.lookup "ModbusServer.handleTransport" = some (["t", "clientAddr", "clientRole"], []) := by
  decide +kernel

/-- what each of the 8 handler calls passes (function code → handler method, request type,
    address / quantity / write flag / argument expressions): the table the server model
    (`Server.handle`) was written from -/
theorem C15X_handler_call_table :
    (Gen.handlerCalls.map (fun c => (c.2.1, c.2.2.1, c.2.2.2.lookup "Addr", c.2.2.2.lookup "Quantity",
        c.2.2.2.lookup "IsWrite", c.2.2.2.lookup "Args")) ==
    [ ("HandleCoils", "CoilsRequest", some "addr", some "quantity", some "false", some "nil"),
      ("HandleDiscreteInputs", "DiscreteInputsRequest", some "addr", some "quantity", none, none),
      ("HandleCoils", "CoilsRequest", some "addr", some "1", some "true", some "[]bool{(req.payload[2] == 0xff)}"),
      ("HandleCoils", "CoilsRequest", some "addr", some "quantity", some "true", some "decodeBools(quantity, req.payload[5:])"),
      ("HandleHoldingRegisters", "HoldingRegistersRequest", some "addr", some "quantity", some "false", some "nil"),
      ("HandleInputRegisters", "InputRegistersRequest", some "addr", some "quantity", none, none),
      ("HandleHoldingRegisters", "HoldingRegistersRequest", some "addr", some "1", some "true", some "[]uint16{value}"),
      ("HandleHoldingRegisters", "HoldingRegistersRequest", some "addr", some "quantity", some "true",
        some "bytesToUint16s(BIG_ENDIAN, req.payload[5:])") ]) = true := by
  decide +kernel

/-! sensitivity: a second source for the role is seen -/
example : writesTo [("bind", "ms.startTLS", ["tlsSock", "clientRole", "err"]), ("assign", "clientRole", ["\"operator\""])]
    "clientRole" ≠ [("bind", "ms.startTLS", ["tlsSock", "clientRole", "err"])] := by decide

#print axioms C15X_plain_tcp_empty_role
#print axioms C15X_tls_role_is_startTLS_result
#print axioms C15X_startTLS_role_from_leaf
#print axioms C15X_role_reaches_every_handler
#print axioms C15X_handler_call_table

end Modbus.Props.C15
