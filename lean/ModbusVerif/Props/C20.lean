import ModbusVerif.Lemmas.CliLemmas
import ModbusVerif.Props.C01
/-
  Property C20.

  "Each modbus-cli command (rc, rdi, rh, ri, wc, wr, sid, with any type, address, +count,
   endianness, word-order and unit-id option) issues exactly the requests documented in its help
   text: what it prints equals the device's contents at the addressed locations interpreted in
   the requested type, and what it writes lands in the addressed registers in the requested
   layout. Malformed commands are refused before any request is sent."

  Model under test: `Modbus.Cli` (`ModbusVerif/Model/Cli.lean`), a transcription of
  cmd/modbus-cli.go: `parseArg` (one trailing argument → `Operation`, or the message printed
  before `os.Exit(2)`), `run` (the whole argument loop), `execute` (the library calls of one
  operation in the run loop, `o.quantity + 1` in uint16), `trace` (the calls of a run list with
  the unit id each is made under), `invoke` (`main` up to the run loop, with the --endianness,
  --word-order, --unit-id options), and Go's `strconv.ParseUint / ParseInt` (base 0, with
  underscores), `hex.DecodeString`, `strings.Split`.  Trusted base: see the header of
  Model/Cli.lean (floats enter as IEEE bit patterns; byte strings are modelled as character
  strings; the `flag` package is not modelled).

  Specification: `Modbus.Spec` (`ModbusVerif/Spec/CliSpec.lean`): the documented grammar as an
  abstract syntax (`Command`), its concrete rendering (`render`, with every documented alias,
  decimal and 0x-hexadecimal numerals) and the help text's meaning as library calls
  (`documentedOps`, `documentedTrace`).  It shares only types with the model.

  Quantifiers: every `Command` (all seven commands, all nine types, every 16-bit address, every
  additional quantity, every value of every type incl. negative and boundary values, every byte
  string), every `Style` (3 spellings of the name × decimal/hex for address, count and value ×
  case of hex bytes); for refusals: every argument string.

  COMPOSITION with C01 / C04 (not re-proved here).  `C20_requests` says the CLI makes exactly
  the library calls `documentedOps c` under the `Cfg` that `invoke` derives from the options
  (`C20_options`).  C01 (`C01_emits_spec`) says each such call transmits exactly the Modbus
  request for these addresses / quantities / values in the configured byte and word order, and
  C04 (register-file refinement, Tie/C04) says that the values a read call returns are the
  device's registers at the addressed locations decoded in that layout and that a write call
  stores the value in that layout.  `printedLines` is a function of the returned values only.
  Together: what is printed equals the device contents at the addressed locations in the
  requested type, and what is written lands in the addressed registers in the requested layout.

  STRUCTURAL FACT used by `C20_refuse_first` ("before any request is sent"): in `main` the loop
  `for _, arg := range flag.Args()` that parses ALL arguments and calls `os.Exit(2)` on the
  first malformed one is completed before `modbus.NewClient`, `client.Open` and the run loop.
  `invoke` transcribes this order; the transcription is tied to the source by the fingerprint of
  `main` and by the differential harness (refused invocations: exit status 2, no connection).

  Only statements live here; proofs are in `Lemmas/CliLemmas.lean`.
-/
namespace Modbus.Props.C20
open Modbus Modbus.Cli Modbus.Spec Modbus.CliLemmas
open Modbus.Client (Op Cfg TState)

/-! ## 1. numeral round trip (strconv.ParseUint / ParseInt, base 0) -/

theorem C20_uint_decimal (bits : Nat) (hb : bits ≤ 64) (n : Nat) (h : n < 2 ^ bits) :
    parseUint bits (toDecimal n) = some n := by
  unfold parseUint parseUintL toDecimal
  rw [String.toList_ofList, parseUintE_dec hb, if_pos h]; rfl

theorem C20_uint_hex (bits : Nat) (hb : bits ≤ 64) (n : Nat) (h : n < 2 ^ bits) :
    parseUint bits (toHex n) = some n := by
  unfold parseUint parseUintL toHex
  rw [String.toList_ofList, parseUintE_hex hb, if_pos h]; rfl

/-- out-of-range numerals are refused, however large -/
theorem C20_uint_out_of_range (bits : Nat) (hb : bits ≤ 64) (n : Nat) (h : 2 ^ bits ≤ n) :
    parseUint bits (toDecimal n) = none ∧ parseUint bits (toHex n) = none := by
  unfold parseUint parseUintL toDecimal toHex
  rw [String.toList_ofList, String.toList_ofList, parseUintE_dec hb, parseUintE_hex hb,
    if_neg (by omega)]
  exact ⟨rfl, rfl⟩

theorem C20_uint16_out_of_range (n : Nat) (h : 65536 ≤ n) :
    parseUint 16 (toDecimal n) = none ∧ parseUint 16 (toHex n) = none :=
  C20_uint_out_of_range 16 (by omega) n h

theorem C20_int_decimal (bits : Nat) (h2 : 2 ≤ bits) (hb : bits ≤ 64) (z : Int)
    (h : -(2 ^ (bits - 1) : Int) ≤ z ∧ z < (2 ^ (bits - 1) : Int)) :
    parseInt bits (intDecimal z) = some z ∧ parseInt bits (intHex z) = some z := by
  unfold parseInt parseIntL intDecimal intHex
  rw [String.toList_ofList, String.toList_ofList]
  have h1 := parseIntE_num h2 hb .dec z
  have h3 := parseIntE_num h2 hb .hex z
  rw [if_pos h] at h1 h3
  exact ⟨by rw [show intDecimalL z = intNumeral .dec z from rfl, h1]; rfl,
         by rw [show intHexL z = intNumeral .hex z from rfl, h3]; rfl⟩

theorem C20_int_out_of_range (bits : Nat) (h2 : 2 ≤ bits) (hb : bits ≤ 64) (z : Int)
    (h : z < -(2 ^ (bits - 1) : Int) ∨ (2 ^ (bits - 1) : Int) ≤ z) :
    parseInt bits (intDecimal z) = none ∧ parseInt bits (intHex z) = none := by
  unfold parseInt parseIntL intDecimal intHex
  rw [String.toList_ofList, String.toList_ofList]
  have h1 := parseIntE_num h2 hb .dec z
  have h3 := parseIntE_num h2 hb .hex z
  rw [if_neg (by omega)] at h1 h3
  exact ⟨by rw [show intDecimalL z = intNumeral .dec z from rfl, h1]; rfl,
         by rw [show intHexL z = intNumeral .hex z from rfl, h3]; rfl⟩

/-- ParseUint rejects signs and the empty string; ParseInt accepts one sign -/
example : parseUint 16 "+5" = none ∧ parseUint 16 "-0" = none ∧ parseUint 16 "" = none ∧
    parseInt 16 "+5" = some 5 ∧ parseInt 16 "-0" = some 0 ∧ parseInt 16 "--1" = none := by decide
/-- prefixes: "0x" alone is refused, a bare leading 0 means octal, "0_1" is a valid literal -/
example : parseUint 16 "0x" = none ∧ parseUint 16 "007" = some 7 ∧ parseUint 16 "08" = none ∧
    parseUint 16 "0_1" = some 1 ∧ parseUint 16 "0x_1f" = some 31 ∧ parseUint 16 "1__0" = none ∧
    parseUint 16 "_1" = none ∧ parseUint 16 "1_" = none ∧ parseUint 16 "0b101" = some 5 ∧
    parseUint 16 "0o17" = some 15 ∧ parseUint 16 "0XFf" = some 255 := by decide
example : parseUint 64 "18446744073709551615" = some 18446744073709551615 ∧
    parseUint 64 "18446744073709551616" = none ∧
    parseInt 64 "-9223372036854775808" = some (-9223372036854775808) ∧
    parseInt 64 "9223372036854775808" = none ∧
    parseInt 16 "-32768" = some (-32768) ∧ parseInt 16 "-32769" = none ∧
    parseInt 16 "32768" = none := by decide

/-! ## 2. a documented command issues exactly the documented library calls -/

/-- for every documented command, every spelling: the argument is accepted and the run loop
    makes exactly the calls of the help text -/
theorem C20_requests (c : Command) (st : Style) (h : c.documented) :
    (parseArg (render c st)).map execute = .ok (documentedOps c) := by
  rw [parseArg_render c st (valueOk_of_documented h)]
  show Except.ok (execute (expectedOp c)) = _
  rw [execute_expected]

/-- the unit id an operation leaves behind is the documented one (`sid`) -/
theorem C20_unit (c : Command) (st : Style) (h : c.documented) (u : Byte) :
    (parseArg (render c st)).map (nextUnit u) = .ok (documentedUnit u c) := by
  rw [parseArg_render c st (valueOk_of_documented h)]
  show Except.ok (nextUnit u (expectedOp c)) = _
  rw [nextUnit_expected]

/-- a whole command line: all arguments are accepted and the calls made, each with the unit id
    in force, are the documented ones in order -/
theorem C20_requests_run (cs : List (Command × Style)) (h : ∀ p ∈ cs, p.1.documented)
    (u : Byte) :
    (run (cs.map (fun p => render p.1 p.2))).map (trace u) =
      .ok (documentedTrace u (cs.map Prod.fst)) := by
  rw [run_render cs h]
  show Except.ok (trace u _) = _
  rw [show cs.map (fun p => expectedOp p.1) = (cs.map Prod.fst).map expectedOp by
    rw [List.map_map]; rfl, trace_expected]

/-- … and the client is configured from the options as documented: `big`/`little`,
    `highfirst`/`hf`/`lowfirst`/`lf`, unit id < 256; every request of the invocation is a
    documented one -/
theorem C20_options (cs : List (Command × Style)) (h : ∀ p ∈ cs, p.1.documented)
    (hne : cs ≠ []) (e : Endian) (w : WordOrder) (es ws : String) (uid : Nat)
    (he : (es = "big" ∧ e = .big) ∨ (es = "little" ∧ e = .little))
    (hw : ((ws = "highfirst" ∨ ws = "hf") ∧ w = .highFirst) ∨
          ((ws = "lowfirst" ∨ ws = "lf") ∧ w = .lowFirst))
    (hu : uid ≤ 255) :
    let out := invoke { endianness := es, wordOrder := ws, unitId := uid,
                        args := cs.map (fun p => render p.1 p.2) }
    out = .go e w (BitVec.ofNat 8 uid) (cs.map (fun p => expectedOp p.1)) ∧
    out.requests = documentedTrace (BitVec.ofNat 8 uid) (cs.map Prod.fst) := by
  have hrun := run_render cs h
  have hargs : cs.map (fun p => render p.1 p.2) ≠ [] := by
    cases cs with
    | nil => exact absurd rfl hne
    | cons _ _ => simp
  have hout : invoke { endianness := es, wordOrder := ws, unitId := uid,
                       args := cs.map (fun p => render p.1 p.2) } =
      .go e w (BitVec.ofNat 8 uid) (cs.map (fun p => expectedOp p.1)) := by
    unfold invoke
    simp only [hrun, if_neg hargs, if_neg (show ¬ uid > 0xff by omega)]
    rcases he with ⟨rfl, rfl⟩ | ⟨rfl, rfl⟩ <;>
      rcases hw with ⟨rfl | rfl, rfl⟩ | ⟨rfl | rfl, rfl⟩ <;> simp
  refine ⟨hout, ?_⟩
  show Outcome.requests (invoke _) = _
  rw [hout]
  show trace _ _ = _
  rw [show cs.map (fun p => expectedOp p.1) = (cs.map Prod.fst).map expectedOp by
    rw [List.map_map]; rfl, trace_expected]

/-- the meaning of the quantity: with no wrap, "a+n" addresses n + 1 values of the type, i.e.
    `regsFor` registers (n+1, 2(n+1), 4(n+1), or ⌈(n+1)/2⌉ for bytes) -/
theorem C20_items (ty : CliType) (a : U16) (e : Option U16) (rt : Nat) (h : count e ≤ 65535) :
    (u16OfNat (count e)).toNat = count e ∧
    Spec.items (readTyped ty a (count e) rt) = ty.regsFor (count e) :=
  ⟨count_nowrap e h, items_readTyped ty a e rt h⟩

/-! ## 3. malformed commands are refused before any request is sent -/

/-- one refused argument anywhere refuses the whole invocation -/
theorem C20_refuse_first (args : List String) (h : ∃ a ∈ args, Refused (parseArg a)) :
    ∃ e, run args = .error e :=
  runL_refuse _ (by
    obtain ⟨a, hm, hr⟩ := h
    exact ⟨a.toList, List.mem_map.mpr ⟨a, hm, rfl⟩, hr⟩)

/-- the message is that of the FIRST refused argument -/
theorem C20_refuse_first_message (pre : List String) (a : String) (post : List String)
    (e : String) (hpre : ∀ x ∈ pre, ¬ Refused (parseArg x)) (ha : parseArg a = .error e) :
    run (pre ++ a :: post) = .error e := by
  unfold run
  rw [List.map_append, List.map_cons]
  exact runL_first _ _ _ _ (by
    intro x hx
    obtain ⟨y, hy, rfl⟩ := List.mem_map.mp hx
    exact hpre y hy) ha

/-- conversely an accepted argument list consists of accepted arguments only -/
theorem C20_run_ok (args : List String) (ops : List Operation) (h : run args = .ok ops) :
    args.map parseArg = ops.map .ok := by
  have := runL_ok _ _ h
  rw [List.map_map] at this
  exact this

/-- the invocation as a whole: with a refused argument the process ends with status 1 (bad
    option) or 2 (the refusal) before `NewClient` / `Open`: NO request of the whole invocation
    is made, whatever the other arguments are -/
theorem C20_refused_sends_nothing (i : Invocation) (h : ∃ a ∈ i.args, Refused (parseArg a)) :
    ((∃ m, invoke i = .usage m) ∨ (∃ m, invoke i = .refused m)) ∧ (invoke i).requests = [] := by
  have := invoke_refuse i h
  refine ⟨this, ?_⟩
  rcases this with ⟨m, hm⟩ | ⟨m, hm⟩ <;> rw [hm] <;> rfl

/-- no arguments: "nothing to do.", exit status 0, no request -/
theorem C20_nothing_to_do : run [] = .ok [] ∧
    (invoke { args := [] }) = .nothingToDo ∧ (invoke { args := [] }).requests = [] := by decide

/-! ### the refusal classes (on `strings.Split(arg, ":")`) -/

theorem C20_split (arg : String) : parseArg arg = parseParts (splitOn ':' arg.toList) := rfl

/-- unknown command -/
theorem C20_refuse_unknown_command (nm : List Char) (args : List (List Char))
    (h : String.ofList nm ∉ commandNames) : Refused (parseParts (nm :: args)) :=
  refuse_unknown_cmd ((cmdOf_none_iff nm).mpr h)

/-- wrong arity, command by command -/
theorem C20_refuse_arity_rc_rdi (nm : List Char) (args : List (List Char))
    (h : cmdOf nm = some .rc ∨ cmdOf nm = some .rdi) (hl : args.length ≠ 1) :
    Refused (parseParts (nm :: args)) := refuse_arity_rc h hl
theorem C20_refuse_arity_rh_ri (nm : List Char) (args : List (List Char))
    (h : cmdOf nm = some .rh ∨ cmdOf nm = some .ri) (hl : args.length ≠ 2) :
    Refused (parseParts (nm :: args)) := refuse_arity_rh h hl
theorem C20_refuse_arity_wc (nm : List Char) (args : List (List Char))
    (h : cmdOf nm = some .wc) (hl : args.length ≠ 2) :
    Refused (parseParts (nm :: args)) := refuse_arity_wc h hl
/-- in particular a `string` value containing ':' is refused -/
theorem C20_refuse_arity_wr (nm : List Char) (args : List (List Char))
    (h : cmdOf nm = some .wr) (hl : args.length ≠ 3) :
    Refused (parseParts (nm :: args)) := refuse_arity_wr h hl
theorem C20_refuse_arity_sid (nm : List Char) (args : List (List Char))
    (h : cmdOf nm = some .sid) (hl : args.length ≠ 1) :
    Refused (parseParts (nm :: args)) := refuse_arity_sid h hl

/-- unknown type -/
theorem C20_refuse_unknown_type_read (nm t a : List Char)
    (h : cmdOf nm = some .rh ∨ cmdOf nm = some .ri) (ht : String.ofList t ∉ typeNames) :
    Refused (parseParts [nm, t, a]) := refuse_type_rh h ((regTyOf_none_iff t).mpr ht)
theorem C20_refuse_unknown_type_write (nm t a v : List Char) (h : cmdOf nm = some .wr)
    (ht : String.ofList t ∉ typeNames ++ ["string"]) :
    Refused (parseParts [nm, t, a, v]) := refuse_type_wr h ((wrTyOf_none_iff t).mpr ht)

/-- bad numeral (anything ParseUint refuses: syntax or range) in the address position of each
    command, in either half of `<addr>+<n>`, in the unit id -/
theorem C20_refuse_bad_address (nm a : List Char) (e : NumErr) (hp : '+' ∉ a)
    (h : cmdOf nm = some .rc ∨ cmdOf nm = some .rdi) (ha : parseUint16E a = .error e) :
    Refused (parseParts [nm, a]) := refuse_aq_rc h (refuse_aq_addr hp ha)
theorem C20_refuse_bad_address_typed (nm t a : List Char) (e : NumErr) (hp : '+' ∉ a)
    (h : cmdOf nm = some .rh ∨ cmdOf nm = some .ri) (ha : parseUint16E a = .error e) :
    Refused (parseParts [nm, t, a]) := refuse_aq_rh h (refuse_aq_addr hp ha)
theorem C20_refuse_bad_address_plus (p0 p1 : List Char) (e : NumErr) (h0 : '+' ∉ p0)
    (h1 : '+' ∉ p1)
    (h : parseUint16E p0 = .error e ∨ (∃ a, parseUint16E p0 = .ok a) ∧ parseUint16E p1 = .error e) :
    Refused (parseAddressAndQuantityE (p0 ++ '+' :: p1)) := by
  rcases h with h | ⟨⟨a, ha⟩, h⟩
  · exact refuse_aq_first h0 h1 h
  · exact refuse_aq_second h0 h1 ha h
theorem C20_refuse_bad_address_wc (nm a v : List Char) (e : NumErr) (h : cmdOf nm = some .wc)
    (ha : parseUint16E a = .error e) : Refused (parseParts [nm, a, v]) := refuse_addr_wc h ha
theorem C20_refuse_bad_address_wr (nm t a v : List Char) (e : NumErr) (h : cmdOf nm = some .wr)
    (ha : parseUint16E a = .error e) : Refused (parseParts [nm, t, a, v]) := refuse_addr_wr h ha
theorem C20_refuse_bad_unit_id (nm u : List Char) (e : NumErr) (h : cmdOf nm = some .sid)
    (hu : parseUnitIdE u = .error e) : Refused (parseParts [nm, u]) := refuse_sid h hu

/-- more than one '+' -/
theorem C20_refuse_two_plus (nm : List Char) (p0 p1 rest : List Char)
    (h : cmdOf nm = some .rc ∨ cmdOf nm = some .rdi) (h0 : '+' ∉ p0) (h1 : '+' ∉ p1) :
    Refused (parseParts [nm, p0 ++ '+' :: (p1 ++ '+' :: rest)]) :=
  refuse_aq_rc h (refuse_aq_plus p0 p1 rest h0 h1)
theorem C20_refuse_two_plus_typed (nm t : List Char) (p0 p1 rest : List Char)
    (h : cmdOf nm = some .rh ∨ cmdOf nm = some .ri) (h0 : '+' ∉ p0) (h1 : '+' ∉ p1) :
    Refused (parseParts [nm, t, p0 ++ '+' :: (p1 ++ '+' :: rest)]) :=
  refuse_aq_rh h (refuse_aq_plus p0 p1 rest h0 h1)

/-- out-of-range numerals: address ≥ 65536 (any read / write command), additional quantity
    ≥ 65536, uint16 value ≥ 65536, int16 value outside −32768..32767 (likewise 32 / 64 bit),
    unit id ≥ 256 — in decimal and in hex -/
theorem C20_refuse_address_range (f : NumFormat) (n : Nat) (h : 65536 ≤ n) :
    parseUint16E (natNumeral f n) = .error .range := parseUint16E_range f n h
theorem C20_refuse_unit_id_range (f : NumFormat) (n : Nat) (h : 256 ≤ n) :
    parseUnitIdE (natNumeral f n) = .error .range := parseUnitIdE_range f n h
theorem C20_refuse_uint16_value (t : List Char) (addr : U16) (f : NumFormat) (n : Nat)
    (h : 65536 ≤ n) : Refused (parseWrValue (.reg .uint16) t addr (natNumeral f n)) :=
  wr_refuse_uint16 (parseUint16E_range f n h)
theorem C20_refuse_int16_value (t : List Char) (addr : U16) (f : NumFormat) (z : Int)
    (h : z < -32768 ∨ 32767 < z) :
    Refused (parseWrValue (.reg .int16) t addr (intNumeral f z)) :=
  wr_refuse_int16 (parseInt16E_range f z h)
theorem C20_refuse_uint32_value (t : List Char) (addr : U16) (f : NumFormat) (n : Nat)
    (h : 4294967296 ≤ n) : Refused (parseWrValue (.reg .uint32) t addr (natNumeral f n)) :=
  wr_refuse_uint32 (parseUint32E_range f n h)
theorem C20_refuse_int32_value (t : List Char) (addr : U16) (f : NumFormat) (z : Int)
    (h : z < -2147483648 ∨ 2147483647 < z) :
    Refused (parseWrValue (.reg .int32) t addr (intNumeral f z)) :=
  wr_refuse_int32 (parseInt32E_range f z h)
theorem C20_refuse_uint64_value (t : List Char) (addr : U16) (f : NumFormat) (n : Nat)
    (h : 18446744073709551616 ≤ n) :
    Refused (parseWrValue (.reg .uint64) t addr (natNumeral f n)) :=
  wr_refuse_uint64 (parseUint64E_range f n h)
theorem C20_refuse_int64_value (t : List Char) (addr : U16) (f : NumFormat) (z : Int)
    (h : z < -9223372036854775808 ∨ 9223372036854775807 < z) :
    Refused (parseWrValue (.reg .int64) t addr (intNumeral f z)) :=
  wr_refuse_int64 (parseInt64E_range f z h)

/-- coil value other than `true` / `false` -/
theorem C20_refuse_coil_value (nm a v : List Char) (h : cmdOf nm = some .wc)
    (hv : String.ofList v ≠ "true" ∧ String.ofList v ≠ "false") :
    Refused (parseParts [nm, a, v]) := refuse_coil_value h hv

/-- odd-length / non-hex bytes -/
theorem C20_refuse_bytes (t v : List Char) (addr : U16)
    (h : v.length % 2 = 1 ∨ ∃ c ∈ v, hexVal c = none) :
    Refused (parseWrValue (.reg .bytes) t addr v) := by
  rcases h with h | ⟨c, hc, hv⟩
  · exact wr_refuse_bytes (hex_refuse_odd v h)
  · exact wr_refuse_bytes (hex_refuse_nonhex v c hc hv)

/-! ## 4. the `+n` idiom at the edge and the protocol limits -/

/-- `rc:a+65535` (and `rdi`, `rh`, `ri` alike): the count wraps, the CLI calls the library with
    quantity 0 -/
theorem C20_count_wrap (a : U16) (st : Style) :
    (parseArg (render (.readCoils a (some 0xFFFF)) st)).map execute = .ok [.readCoils a 0] ∧
    (parseArg (render (.readDiscrete a (some 0xFFFF)) st)).map execute
      = .ok [.readDiscreteInputs a 0] ∧
    (∀ ty, (parseArg (render (.readHolding ty a (some 0xFFFF)) st)).map execute
      = .ok [readTyped ty a 0 0]) ∧
    (∀ ty, (parseArg (render (.readInput ty a (some 0xFFFF)) st)).map execute
      = .ok [readTyped ty a 0 1]) := by
  refine ⟨?_, ?_, fun ty => ?_, fun ty => ?_⟩
  · rw [parseArg_render (.readCoils a (some 0xFFFF)) st trivial]; rfl
  · rw [parseArg_render (.readDiscrete a (some 0xFFFF)) st trivial]; rfl
  · rw [parseArg_render (.readHolding ty a (some 0xFFFF)) st trivial]; cases ty <;> rfl
  · rw [parseArg_render (.readInput ty a (some 0xFFFF)) st trivial]; cases ty <;> rfl

/-- whatever the additional quantity (wrapping or not): the call the CLI makes for a read
    command breaks the protocol limits — and is therefore rejected locally by the client, see
    `C20_over_limit_not_sent` — exactly when the DOCUMENTED number of values `1 + n` needs more
    than 125 registers (2000 coils) or runs past address 0xFFFF.  In particular the wrapped
    quantity 0 is rejected (1 + 65535 values are over every limit). -/
theorem C20_limits_typed (ty : CliType) (a : U16) (e : Option U16) (rt : Nat)
    (hrt : rt = 0 ∨ rt = 1) :
    Spec.breaksLimits (readTyped ty a (count e) rt) = true ↔
      ty.regsFor (count e) > 125 ∨ a.toNat + ty.regsFor (count e) > 65536 :=
  breaks_readTyped ty a e rt hrt

theorem C20_limits_bools (coil : Bool) (a : U16) (e : Option U16) :
    Spec.breaksLimits (if coil then Op.readCoils a (u16OfNat (count e))
                       else Op.readDiscreteInputs a (u16OfNat (count e))) = true ↔
      count e > 2000 ∨ a.toNat + count e > 65536 :=
  breaks_readBools coil a e

/-- a call that breaks the limits is answered locally with unexpected-parameters and nothing
    is written to the transport (C01_reject_iff, C01_written_iff) -/
theorem C20_over_limit_not_sent (op : Op) (h : Spec.breaksLimits op = true) (cfg : Cfg)
    (st : TState) (he : cfg.endian ≠ .invalid) (hw : cfg.word ≠ .invalid) (arrivals : Bytes)
    (en : Ending) :
    op.requestFrame cfg st = some (.error .unexpectedParameters) ∧
    (op.run cfg st arrivals en).written = none :=
  ⟨(C01.C01_reject_iff op cfg st he hw).mpr h,
   (C01.C01_written_iff op cfg st he hw arrivals en).mpr h⟩

/-- the edge cases of the task statement -/
example (a : U16) : Spec.breaksLimits (.readCoils a 0) = true := by
  simp [Spec.breaksLimits, Spec.items]
/-- rh:uint32:0+62 = 63 values = 126 registers -/
example : Spec.breaksLimits (readTyped .uint32 0 (count (some 62)) 0) = true := by decide
/-- rh:uint32:0+61 = 62 values = 124 registers is fine -/
example : Spec.breaksLimits (readTyped .uint32 0 (count (some 61)) 0) = false := by decide
/-- rh:uint32:0+32768: 32769 values; the register total 65538 is computed without wrap -/
example : Spec.breaksLimits (readTyped .uint32 0 (count (some 32768)) 0) = true := by decide
/-- rh:uint64:0+16383: 16384 values = 65536 registers (would be 0 in 16 bits) -/
example : Spec.breaksLimits (readTyped .uint64 0 (count (some 16383)) 0) = true := by decide

/-! ## 5. signed values are written in two's complement -/

/-- for ANY accepted numeral syntax (decimal, hex, octal, binary, underscores, sign): the
    register written by `wr:int16` is the 16-bit two's complement of the integer ParseInt
    returned, which lies in −32768..32767; read back as a signed 16-bit number it is that
    integer.  Likewise 32 and 64 bits. -/
theorem C20_signed_values (s : String) :
    parseInt16 s = (parseInt 16 s).map (BitVec.ofInt 16) ∧
    parseInt32 s = (parseInt 32 s).map (BitVec.ofInt 32) ∧
    parseInt64 s = (parseInt 64 s).map (BitVec.ofInt 64) ∧
    (∀ z, parseInt 16 s = some z → (BitVec.ofInt 16 z).toInt = z) ∧
    (∀ z, parseInt 32 s = some z → (BitVec.ofInt 32 z).toInt = z) ∧
    (∀ z, parseInt 64 s = some z → (BitVec.ofInt 64 z).toInt = z) := by
  have key : ∀ bits, 1 ≤ bits → ∀ z, parseInt bits s = some z → (BitVec.ofInt bits z).toInt = z := by
    intro bits hb z h
    unfold parseInt parseIntL at h
    cases hx : parseIntE bits s.toList with
    | error e => rw [hx] at h; cases h
    | ok z' =>
      rw [hx] at h
      have : z' = z := by injection h
      subst this
      exact toInt_ofInt_range hb (parseIntE_range hx)
  refine ⟨?_, ?_, ?_, key 16 (by omega), key 32 (by omega), key 64 (by omega)⟩
  · unfold parseInt16 parseInt16E parseInt parseIntL
    cases parseIntE 16 s.toList <;> rfl
  · unfold parseInt32 parseInt32E parseInt parseIntL
    cases parseIntE 32 s.toList <;> rfl
  · unfold parseInt64 parseInt64E parseInt parseIntL
    cases parseIntE 64 s.toList <;> rfl

/-- the documented forms: `wr:int16:a:z` writes the two's complement of z -/
theorem C20_signed_write (a : U16) (z : Int) (st : Style) :
    (-32768 ≤ z ∧ z ≤ 32767 →
      (parseArg (render (.writeReg a (.int16 z)) st)).map execute
        = .ok [.writeRegister a (BitVec.ofInt 16 z)]) ∧
    (-2147483648 ≤ z ∧ z ≤ 2147483647 →
      (parseArg (render (.writeReg a (.int32 z)) st)).map execute
        = .ok [.writeUint32 a (BitVec.ofInt 32 z)]) ∧
    (-9223372036854775808 ≤ z ∧ z ≤ 9223372036854775807 →
      (parseArg (render (.writeReg a (.int64 z)) st)).map execute
        = .ok [.writeUint64 a (BitVec.ofInt 64 z)]) :=
  ⟨fun h => C20_requests _ st h, fun h => C20_requests _ st h, fun h => C20_requests _ st h⟩

example : (parseArg "wr:int16:5:-10").map execute = .ok [.writeRegister 5 0xFFF6] := by decide
example : (parseArg "wr:int32:5:-1").map execute = .ok [.writeUint32 5 0xFFFFFFFF] := by decide
example : (parseArg "wr:int64:5:-0x8000000000000000").map execute
    = .ok [.writeUint64 5 0x8000000000000000] := by decide

/-! ## non-vacuity: the example lines of the help text … -/

example : render (.readHolding .uint32 0x100 (some 5)) { addr := .hex } = "rh:uint32:0x100+5" := by
  decide
example : render (.writeReg 0xf100 (.int16 (-10))) { addr := .hex } = "wr:int16:0xf100:-10" := by
  decide
example : render (.readCoils 300 none) { name := .long } = "readCoils:300" := by decide
example : render (.writeReg 5 (.bytes [0xfa, 0xfb, 0xfc, 0xfd])) {} = "wr:bytes:5:fafbfcfd" := by
  decide
example : (Command.readHolding .uint32 0x100 (some 5)).documented := by
  show count _ ≤ 65535; decide
example : ¬ (Command.readCoils 0 (some 0xFFFF)).documented := by
  show ¬ count _ ≤ 65535; decide

example : (parseArg "rc:0x100+199").map execute = .ok [.readCoils 0x100 200] := by decide
example : (parseArg "rc:300").map execute = .ok [.readCoils 300 1] := by decide
example : (parseArg "rdi:0x100+199").map execute = .ok [.readDiscreteInputs 0x100 200] := by
  decide
example : (parseArg "rh:int16:0x300+1").map execute = .ok [.readRegisters 0x300 2 0] := by decide
example : (parseArg "rh:uint32:20").map execute = .ok [.readUint32s 20 1 0] := by decide
example : (parseArg "rh:float32:500+10").map execute = .ok [.readFloat32s 500 11 0] := by decide
example : (parseArg "ri:uint16:0x300+1").map execute = .ok [.readRegisters 0x300 2 1] := by decide
example : (parseArg "ri:int32:20").map execute = .ok [.readUint32s 20 1 1] := by decide
example : (parseArg "wc:1:true").map execute = .ok [.writeCoil 1 true] := by decide
example : (parseArg "wc:2:false").map execute = .ok [.writeCoil 2 false] := by decide
example : (parseArg "wr:int16:0xf100:-10").map execute = .ok [.writeRegister 0xf100 0xFFF6] := by
  decide
example : (parseArg "wr:int32:0xff00:0xff").map execute = .ok [.writeUint32 0xff00 0xff] := by
  decide
/-- wr:float64:100:-3.2 enters the model as the bit pattern of -3.2 -/
example : (parseArg "wr:float64:100:0xc00999999999999a").map execute
    = .ok [.writeFloat64 100 0xc00999999999999a] := by decide
example : (parseArg "wr:bytes:5:fafbfcfd").map execute
    = .ok [.writeBytes 5 [0xfa, 0xfb, 0xfc, 0xfd]] := by decide
example : parseArg "sid:10" = .ok (.setUnitId 10) := by decide
example : parseArg "sleep:300s" = .ok (.other "sleep") ∧ parseArg "repeat" = .ok (.other "repeat")
    ∧ parseArg "scan:hr" = .ok (.other "scan") ∧ parseArg "ping:3:1s" = .ok (.other "ping") := by
  decide
/-- the second example of the help text, up to `repeat`: the unit id follows `suid` -/
example : (run ["suid:2", "rh:uint16:0+7", "wr:uint16:0x2:0x0605", "suid:3", "ri:int16:0+1"]).map
    (trace 1) = .ok [(2, .readRegisters 0 8 0), (2, .writeRegister 2 0x0605),
                     (3, .readRegisters 0 2 1)] := by decide
/-- the count wraps: quantity 0 -/
example : (parseArg "rc:0+65535").map execute = .ok [.readCoils 0 0] := by decide
/-- accepted although not in the help text: `string` type, octal / binary / underscore numerals,
    upper-case hex, singular command names -/
example : (parseArg "wr:string:5:hi").map execute = .ok [.writeBytes 5 [0x68, 0x69]] := by decide
example : (parseArg "readCoil:0b1_0+010").map execute = .ok [.readCoils 2 9] := by decide

/-- what is printed for a value read (integer types): address column in uint16 arithmetic -/
example : printedLines (.readRegs .int16 true 0xffff 1) (.u16s [0xfff6, 7]) =
    ["0xffff\t65535 : 0xfff6\t-10", "0x0000\t0     : 0x0007\t7"] := by decide
example : printedLines (.readRegs .uint32 false 20 0) (.u32s [0xffffffff]) =
    ["0x0014\t20    : 0xffffffff\t4294967295"] := by decide
example : printedLines (.readBools true 300 0) (.bools [true]) = ["0x012c\t300   : true"] := by
  decide

/-! ## … and malformed ones -/

example : Refused (parseArg "rc") := by decide
example : Refused (parseArg "rc:1:2") := by decide
example : Refused (parseArg "rh:uint8:1") := by decide
example : Refused (parseArg "wr:uint16:1") := by decide
example : Refused (parseArg "wc:1:yes") := by decide
example : Refused (parseArg "rh:uint16:1+2+3") := by decide
example : Refused (parseArg "rc:0x") := by decide
example : Refused (parseArg "rc:65536") := by decide
example : Refused (parseArg "rc:1+65536") := by decide
example : Refused (parseArg "sid:256") := by decide
example : Refused (parseArg "wr:bytes:5:abc") := by decide
example : Refused (parseArg "wr:bytes:5:zz") := by decide
example : Refused (parseArg "wr:uint16:1:65536") := by decide
example : Refused (parseArg "wr:uint16:1:-1") := by decide
example : Refused (parseArg "wr:int16:1:32768") := by decide
example : Refused (parseArg "wr:int16:1:-32769") := by decide
example : Refused (parseArg "wr:string:5:a:b") := by decide
example : Refused (parseArg "rx:1") := by decide
example : Refused (parseArg "") := by decide
example : Refused (parseArg "repeat:1") := by decide
example : Refused (parseArg "ping:0") := by decide
/-- the message of the first refused argument; nothing is sent -/
example : run ["rc:1", "wc:1:yes", "rc:0x"] =
    .error "failed to parse coil value 'yes' (should either be true or false)" := by decide
example : invoke { args := ["rc:1", "rc:65536"] } = .refused
    "failed to parse address ('65536'): strconv.ParseUint: parsing \"65536\": value out of range"
    := by decide
example : invoke { endianness := "middle", args := ["rc:1"] } = .usage
    "unknown endianness setting 'middle' (should either be big or little)" := by decide
example : invoke { endianness := "little", wordOrder := "lf", unitId := 7, args := ["rc:1"] }
    = .go .little .lowFirst 7 [.readBools true 1 0] := by decide

#print axioms C20_uint_decimal
#print axioms C20_uint_hex
#print axioms C20_uint_out_of_range
#print axioms C20_uint16_out_of_range
#print axioms C20_int_decimal
#print axioms C20_int_out_of_range
#print axioms C20_requests
#print axioms C20_unit
#print axioms C20_requests_run
#print axioms C20_options
#print axioms C20_items
#print axioms C20_refuse_first
#print axioms C20_refuse_first_message
#print axioms C20_run_ok
#print axioms C20_refused_sends_nothing
#print axioms C20_nothing_to_do
#print axioms C20_split
#print axioms C20_refuse_unknown_command
#print axioms C20_refuse_arity_rc_rdi
#print axioms C20_refuse_arity_rh_ri
#print axioms C20_refuse_arity_wc
#print axioms C20_refuse_arity_wr
#print axioms C20_refuse_arity_sid
#print axioms C20_refuse_unknown_type_read
#print axioms C20_refuse_unknown_type_write
#print axioms C20_refuse_bad_address
#print axioms C20_refuse_bad_address_typed
#print axioms C20_refuse_bad_address_plus
#print axioms C20_refuse_bad_address_wc
#print axioms C20_refuse_bad_address_wr
#print axioms C20_refuse_bad_unit_id
#print axioms C20_refuse_two_plus
#print axioms C20_refuse_two_plus_typed
#print axioms C20_refuse_address_range
#print axioms C20_refuse_unit_id_range
#print axioms C20_refuse_uint16_value
#print axioms C20_refuse_int16_value
#print axioms C20_refuse_uint32_value
#print axioms C20_refuse_int32_value
#print axioms C20_refuse_uint64_value
#print axioms C20_refuse_int64_value
#print axioms C20_refuse_coil_value
#print axioms C20_refuse_bytes
#print axioms C20_count_wrap
#print axioms C20_limits_typed
#print axioms C20_limits_bools
#print axioms C20_over_limit_not_sent
#print axioms C20_signed_values
#print axioms C20_signed_write

end Modbus.Props.C20
