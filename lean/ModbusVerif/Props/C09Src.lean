import ModbusVerif.Lemmas.GoEvalLifeLemmas
import ModbusVerif.Props.C09
/-
  C09, source tie: the admission decision of the accept loop and the dispatch / removal / close
  sequence of a session goroutine, as rendered by the translator from the CURRENT server.go
  (`Gen.gs_ModbusServer_acceptTCPClients`, `Gen.gs_ModbusServer_handleTCPClient`, regenerated from
  /repo on every run), are EVALUATED by `Modbus.GoEval` and related to the hand-written machine
  `Modbus.Lifecycle` (`doDecide`, `doLaunch`, `doAcceptorExit`, `swapRemove`), about which
  Props/C09.lean proves the property.

  1. `C09S_admission` — ONE round of the accept loop after a successful `listener.Accept`, for all
     `ms.started`, `len(ms.tcpClients)` < 2^63, `ms.conf.MaxClients` < 2^64: admitted (`accepted = 1`,
     `ms.tcpClients := append(ms.tcpClients, sock)`, `go ms.handleTCPClient(sock)`) iff
     `started ∧ len < MaxClients` — the Go test `uint(len(..)) < MaxClients` evaluated in 64-bit
     unsigned arithmetic —, otherwise rejected (`accepted = 0`, no assignment to `ms.tcpClients`,
     `sock.Close()`, no go statement). `C09S_admission_model`: this is `Lifecycle.doDecide`
     followed by `doLaunch`. `C09S_accept_error`, `C09S_accept_exit_model`: `Accept` failed:
     `errors.Is(err, net.ErrClosed)` → the goroutine returns (= the model's `acceptorExit`),
     otherwise `continue` (no admission, nothing closed). `C09S_accept_rounds`: what a round is
     inside the whole function.
  2. `C09S_handleTCPClient`, `C09S_dispatch` — the session goroutine, for every transport type, TLS
     outcome, client list and socket: which transport is handed to `handleTransport` with which
     role; after EVERY dispatch outcome the removal part runs and `sock.Close()` is called.
     `C09S_leak_detected`: a variant that returns early on a handshake failure is told apart.
  3. `C09S_removal` — the removal loop performs the two swap-remove assignments exactly once, at
     the FIRST index holding `sock`, then breaks; nothing is assigned when `sock` is not in the
     list; the resulting list is `Lifecycle.swapRemove` (`C09_remove_exact`).
     `C09S_removal_static`: the shape of the loop on the generated term.

  What is modelled (not derived from the generated terms):
  * every text-keyed leaf denotes what its text says in the list `l` at the moment the removal
    critical section is entered: `len(ms.tcpClients)` = `l.length`,
    `ms.tcpClients[len(ms.tcpClients)-1]` = the last element, `ms.tcpClients[i]` = `l[i]` for the
    CURRENT value of `i` — the latter through the probe instrumentation of
    Lemmas/GoEvalLifeLemmas.lean (`withProbe`: the leaf is re-bound from the list and the value
    of `i` at the head of every loop round; the generated term is otherwise unchanged:
    `C09S_probe_only`); sockets are integers (`Lifecycle.ConnId`), `==` on them is equality;
  * `append(ms.tcpClients, sock)` and `ms.tcpClients[:len(ms.tcpClients)-1]` are opaque leaves: the
    theorems say that exactly these texts are assigned; `clientsAfter` reads the final
    environment of the removal part back as a list;
  * `errors.Is(err, net.ErrClosed)` is a boolean leaf; that `Accept` on a closed listener fails
    with such an error (and only then) is the `net` package's contract — hypothesis `hclosed` of
    `C09S_accept_exit_model`;
  * lock / unlock calls, logging and the `verifYield` hooks are dropped by the translator
    (Props/C08Flow, C10Flow are about the locks).
-/
set_option linter.unusedSimpArgs false
set_option linter.unusedVariables false

namespace Modbus.Props.C09
open Modbus Modbus.Gen Modbus.GoEval Modbus.Lifecycle

/-! ## 1. the accept loop -/

/-- the body of the accept loop (one round) -/
def accBody : GStmt :=
  (.seq (.bindCall ["sock", "err"] "listener.Accept" []) (.seq (.ite (.cmp "!=" (.var "err" .other) (.var "nil" .other)) (.seq (.ite (.call "errors.Is(err, net.ErrClosed)" .bool) .ret .skip) .cont) .skip) (.seq (.ite (.and (.var "ms.started" .bool) (.cmp "<" (.conv .uint (.var "len(ms.tcpClients)" .int)) (.var "ms.conf.MaxClients" .uint))) (.seq (.assign "accepted" (.lit 1 .bool)) (.assign "ms.tcpClients" (.call "append(ms.tcpClients, sock)" .other))) (.assign "accepted" (.lit 0 .bool))) (.ite (.var "accepted" .bool) (.bindCall [] "go ms.handleTCPClient" [(.var "sock" .other)]) (.bindCall [] "sock.Close" [])))))

/-- the generated function is `for { accBody }; return` -/
theorem C09S_accept_shape : gs_ModbusServer_acceptTCPClients = .seq (.loop accBody) .ret := by rfl

/-- `listener.Accept` answers `acc` = `[sock, err]`; the go statement and `sock.Close` are
    performed (and logged) -/
def accOracle (acc : List Val) : Oracle := fun f _ =>
  if f = "listener.Accept" then some acc
  else if f = "go ms.handleTCPClient" then some []
  else if f = "sock.Close" then some []
  else none

/-- the environment after `sock, err = listener.Accept()` returned `(sk, nil)` -/
def accepted (env : Env) (sk : Val) : Env := Env.write (Env.write env "sock" sk) "err" (.sym "nil")

theorem acc_round_ok (sk : Val) (env : Env) (cs : Calls) (st : Bool) (len maxc : Nat)
    (hl : len < 2^63) (hm : maxc < 2^64)
    (hnil : Env.read? env "nil" = none)
    (hst : Env.read? env "ms.started" = some (Val.ofBool st))
    (hlen : Env.read? env "len(ms.tcpClients)" = some (.int (len : Int)))
    (hmax : Env.read? env "ms.conf.MaxClients" = some (.int (maxc : Int)))
    (happ : Env.read? env "append(ms.tcpClients, sock)" = some (.sym "append(ms.tcpClients, sock)")) :
    execFrom (accOracle [sk, .sym "nil"]) 8 accBody env cs =
      if st = true ∧ len < maxc then
        ⟨Env.write (Env.write (accepted env sk) "accepted" (.int 1))
            "ms.tcpClients" (.sym "append(ms.tcpClients, sock)"), .fell,
          cs ++ [("listener.Accept", []), ("go ms.handleTCPClient", [sk])]⟩
      else
        ⟨Env.write (accepted env sk) "accepted" (.int 0), .fell,
          cs ++ [("listener.Accept", []), ("sock.Close", [])]⟩ := by
  have hw : wrap .uint (len : Int) = (len : Int) := wrap_uint (by omega) (by omega)
  cases st
  · go_eval_nowrap [accBody, accOracle, accepted, hnil, hst, hlen, hmax, happ, hw, ne_eq,
      not_true_eq_false, not_false_eq_true, Int.reduceEq, false_and, List.append_assoc]
  · by_cases hlt : len < maxc
    · have hlt' : (len : Int) < (maxc : Int) := by omega
      go_eval_nowrap [accBody, accOracle, accepted, hnil, hst, hlen, hmax, happ, hw, hlt, hlt', ne_eq,
        not_true_eq_false, not_false_eq_true, Int.reduceEq, false_and, List.append_assoc]
    · have hlt' : ¬ (len : Int) < (maxc : Int) := by omega
      go_eval_nowrap [accBody, accOracle, accepted, hnil, hst, hlen, hmax, happ, hw, hlt, hlt', ne_eq,
        not_true_eq_false, not_false_eq_true, Int.reduceEq, false_and, List.append_assoc]

theorem acc_round_err (e : String) (he : e ≠ "nil") (b : Bool) (env : Env) (cs : Calls)
    (hnil : Env.read? env "nil" = none)
    (his : Env.read? env "errors.Is(err, net.ErrClosed)" = some (Val.ofBool b)) :
    execFrom (accOracle [.sym "nil", .sym e]) 8 accBody env cs =
      ⟨Env.write (Env.write env "sock" (.sym "nil")) "err" (.sym e),
        if b = true then .returned else .continued, cs ++ [("listener.Accept", [])]⟩ := by
  cases b
  · go_eval_nowrap [accBody, accOracle, hnil, his, he, ne_eq, not_false_eq_true]
  · go_eval_nowrap [accBody, accOracle, hnil, his, he, ne_eq, not_false_eq_true]

/-- **the admission decision.** One round of the accept loop of the current source, entered in
    ANY environment `env` (and call history `cs`) in which `ms.started`, `len(ms.tcpClients)`,
    `ms.conf.MaxClients` have the values `st`, `len`, `maxc`, `listener.Accept` returning the
    connection `sk` and no error: the round always falls through to the next `Accept`, and

    * if `st ∧ len < maxc`: `accepted = true`, `ms.tcpClients` is assigned (once) the leaf
      `append(ms.tcpClients, sock)`, and the round's calls are `listener.Accept`, then the go
      statement `go ms.handleTCPClient(sk)`; `sock.Close` is not called;
    * otherwise: `accepted = false`, `ms.tcpClients` is NOT assigned, the calls are
      `listener.Accept`, then `sock.Close()`; no go statement.

    `len < maxc` is the comparison of the mathematical values: Go's `uint(len(...)) < MaxClients`
    (conversion `int → uint`, 64-bit unsigned comparison) coincides with it on the whole range. -/
theorem C09S_admission (sk : Val) (st : Bool) (len maxc : Nat) (hl : len < 2^63) (hm : maxc < 2^64)
    (env : Env) (cs : Calls)
    (hnil : Env.read? env "nil" = none)
    (hst : Env.read? env "ms.started" = some (Val.ofBool st))
    (hlen : Env.read? env "len(ms.tcpClients)" = some (.int (len : Int)))
    (hmax : Env.read? env "ms.conf.MaxClients" = some (.int (maxc : Int)))
    (happ : Env.read? env "append(ms.tcpClients, sock)" = some (.sym "append(ms.tcpClients, sock)"))
    (fuel : Nat) (hf : 8 ≤ fuel) :
    let r := execFrom (accOracle [sk, .sym "nil"]) fuel accBody env cs
    r.how = .fell ∧
    if st = true ∧ len < maxc then
      Env.read r.env "accepted" = .int 1 ∧
      Env.read? r.env "ms.tcpClients" = some (.sym "append(ms.tcpClients, sock)") ∧
      writes "ms.tcpClients" r.env = writes "ms.tcpClients" env + 1 ∧
      r.calls = cs ++ [("listener.Accept", []), ("go ms.handleTCPClient", [sk])]
    else
      Env.read r.env "accepted" = .int 0 ∧
      Env.read? r.env "ms.tcpClients" = Env.read? env "ms.tcpClients" ∧
      writes "ms.tcpClients" r.env = writes "ms.tcpClients" env ∧
      r.calls = cs ++ [("listener.Accept", []), ("sock.Close", [])] := by
  have h8 := acc_round_ok sk env cs st len maxc hl hm hnil hst hlen hmax happ
  intro r
  have hr : r = _ := execFrom_ge _ h8 (by split <;> exact fun h => nomatch h) fuel hf
  rw [hr]
  split
  · refine ⟨rfl, ?_, ?_, ?_, rfl⟩
    · simp only [read_def, read?_write, String.reduceEq, ↓reduceIte, Option.getD_some]
    · simp only [read?_write, ↓reduceIte]
    · simp only [accepted, writes_write, String.reduceEq, ↓reduceIte, Nat.add_zero]
  · refine ⟨rfl, ?_, ?_, ?_, rfl⟩
    · simp only [read_def, read?_write, ↓reduceIte, Option.getD_some]
    · simp only [accepted, read?_write, String.reduceEq, ↓reduceIte]
    · simp only [accepted, writes_write, String.reduceEq, ↓reduceIte, Nat.add_zero]

/-- `launch` after an admitting / a rejecting `decide` -/
theorem launch_admitted (s : State) (c : ConnId) (hp : (s.conn c).phase = .admitted) :
    ((step s (.launch c)).conn c).phase = .serving ∧
      ((step s (.launch c)).conn c).sockClosed = (s.conn c).sockClosed := by
  rw [step_eq _ _ (by simp [enabled, hp])]
  simp [apply, doLaunch, hp, State.setPhase, State.setConn, conn_mk, find_put]

theorem launch_rejecting (s : State) (c : ConnId) (hp : (s.conn c).phase = .rejecting) :
    ((step s (.launch c)).conn c).phase = .rejected ∧
      ((step s (.launch c)).conn c).sockClosed = true := by
  rw [step_eq _ _ (by simp [enabled, hp])]
  simp [apply, doLaunch, hp, State.setPhase, State.setConn, conn_mk, find_put]

/-- **the Go round = the model's `decide c; launch c`.** For a machine state `s` whose
    `started`, `clients.length`, `maxClients` are the values of the three Go leaves, and a
    connection `c` that `Accept` has just returned (phase `accepted`): the Go round sets
    `accepted = true` exactly when the model's admission step admits `c`; in that case Go assigns
    `append(ms.tcpClients, sock)` where the model appends `c` to `clients`, and executes the go
    statement where the model's `launch` makes `c` a serving session; otherwise Go leaves
    `ms.tcpClients` alone and calls `sock.Close()` where the model keeps `clients`, marks `c`
    rejected and its socket closed. The admission rule is the one `C09_bound` / `C09_admit_iff` use:
    `started ∧ clients.length < maxClients`. -/
theorem C09S_admission_model (s : State) (c : ConnId) (sk : Val)
    (hp : (s.conn c).phase = .accepted)
    (hl : s.clients.length < 2^63) (hm : s.maxClients < 2^64)
    (env : Env) (cs : Calls)
    (hnil : Env.read? env "nil" = none)
    (hst : Env.read? env "ms.started" = some (Val.ofBool s.started))
    (hlen : Env.read? env "len(ms.tcpClients)" = some (.int (s.clients.length : Int)))
    (hmax : Env.read? env "ms.conf.MaxClients" = some (.int (s.maxClients : Int)))
    (happ : Env.read? env "append(ms.tcpClients, sock)" = some (.sym "append(ms.tcpClients, sock)"))
    (fuel : Nat) (hf : 8 ≤ fuel) :
    let r := execFrom (accOracle [sk, .sym "nil"]) fuel accBody env cs
    let s₁ := step s (.decide c)
    let s₂ := step s₁ (.launch c)
    r.how = .fell ∧
    (Env.read r.env "accepted" = .int 1 ↔ (s₁.conn c).phase = .admitted) ∧
    (Env.read r.env "accepted" = .int 0 ↔ (s₁.conn c).phase = .rejecting) ∧
    ((s₁.conn c).phase = .admitted →
      s₁.clients = s.clients ++ [c] ∧
      Env.read? r.env "ms.tcpClients" = some (.sym "append(ms.tcpClients, sock)") ∧
      r.calls = cs ++ [("listener.Accept", []), ("go ms.handleTCPClient", [sk])] ∧
      (s₂.conn c).phase = .serving ∧ s₂.clients = s.clients ++ [c]) ∧
    ((s₁.conn c).phase = .rejecting →
      s₁.clients = s.clients ∧
      Env.read? r.env "ms.tcpClients" = Env.read? env "ms.tcpClients" ∧
      writes "ms.tcpClients" r.env = writes "ms.tcpClients" env ∧
      r.calls = cs ++ [("listener.Accept", []), ("sock.Close", [])] ∧
      (s₂.conn c).phase = .rejected ∧ (s₂.conn c).sockClosed = true ∧ s₂.clients = s.clients) := by
  intro r s₁ s₂
  obtain ⟨h0, hgo⟩ := C09S_admission sk s.started s.clients.length s.maxClients hl hm env cs hnil hst
    hlen hmax happ fuel hf
  have hgo : if s.started = true ∧ s.clients.length < s.maxClients then _ else _ := hgo
  have hclients : ∀ t : State, (step t (.launch c)).clients = t.clients := by
    intro t
    unfold step
    split
    · simp [apply, doLaunch]; split <;> rfl
    · rfl
  by_cases hadm : s.started = true ∧ s.clients.length < s.maxClients
  · rw [if_pos hadm] at hgo
    obtain ⟨g1, g2, g3, g4⟩ := hgo
    obtain ⟨m1, m2, _⟩ := decide_admits s c hp hadm
    have m1 : (s₁.conn c).phase = .admitted := m1
    have m2 : s₁.clients = s.clients ++ [c] := m2
    have l1 := launch_admitted s₁ c m1
    refine ⟨h0, ?_, ?_, ?_, ?_⟩
    · exact ⟨fun _ => m1, fun _ => g1⟩
    · change Env.read r.env "accepted" = .int 0 ↔ _
      rw [g1, m1]; simp
    · intro _
      exact ⟨m2, g2, g4, l1.1, by rw [← m2]; exact hclients s₁⟩
    · intro h; rw [m1] at h; cases h
  · rw [if_neg hadm] at hgo
    obtain ⟨g1, g2, g3, g4⟩ := hgo
    obtain ⟨m1, m2, _⟩ := decide_rejects s c hp hadm
    have m1 : (s₁.conn c).phase = .rejecting := m1
    have m2 : s₁.clients = s.clients := m2
    have l1 := launch_rejecting s₁ c m1
    refine ⟨h0, ?_, ?_, ?_, ?_⟩
    · change Env.read r.env "accepted" = .int 1 ↔ _
      rw [g1, m1]; simp
    · exact ⟨fun _ => m1, fun _ => g1⟩
    · intro h; rw [m1] at h; cases h
    · intro _
      exact ⟨m2, g2, g3, g4, l1.1, l1.2, by rw [← m2]; exact hclients s₁⟩

/-- **`Accept` failed** with the (non-nil) error `e`; `b` = `errors.Is(err, net.ErrClosed)`:
    `b` → the round (hence the goroutine) returns; `¬b` → `continue`. In both cases nothing was
    decided: `accepted` and `ms.tcpClients` are untouched, the only call of the round is `Accept`
    (no go statement, nothing closed). -/
theorem C09S_accept_error (e : String) (he : e ≠ "nil") (b : Bool) (env : Env) (cs : Calls)
    (hnil : Env.read? env "nil" = none)
    (his : Env.read? env "errors.Is(err, net.ErrClosed)" = some (Val.ofBool b))
    (fuel : Nat) (hf : 8 ≤ fuel) :
    let r := execFrom (accOracle [.sym "nil", .sym e]) fuel accBody env cs
    r.how = (if b = true then .returned else .continued) ∧
    r.calls = cs ++ [("listener.Accept", [])] ∧
    Env.read? r.env "accepted" = Env.read? env "accepted" ∧
    Env.read? r.env "ms.tcpClients" = Env.read? env "ms.tcpClients" ∧
    writes "ms.tcpClients" r.env = writes "ms.tcpClients" env := by
  have h8 := acc_round_err e he b env cs hnil his
  intro r
  have hr : r = _ := execFrom_ge _ h8 (by cases b <;> exact fun h => nomatch h) fuel hf
  rw [hr]
  refine ⟨rfl, rfl, ?_, ?_, ?_⟩
  · simp only [read?_write, String.reduceEq, ↓reduceIte]
  · simp only [read?_write, String.reduceEq, ↓reduceIte]
  · simp only [writes_write, String.reduceEq, ↓reduceIte, Nat.add_zero]

/-- the rounds inside the whole function: a round that falls through or `continue`s is followed
    by the next round from the environment and call history it left; a round that returns ends
    the function -/
theorem C09S_accept_rounds (o : Oracle) (n : Nat) (env env' : Env) (cs cs' : Calls) :
    (execFrom o n accBody env cs = ⟨env', .fell, cs'⟩ ∨
      execFrom o n accBody env cs = ⟨env', .continued, cs'⟩ →
      execFrom o (n+2) gs_ModbusServer_acceptTCPClients env cs =
        seqK o (n+1) .ret (execFrom o n (.loop accBody) env' cs')) ∧
    (execFrom o n accBody env cs = ⟨env', .returned, cs'⟩ →
      execFrom o (n+2) gs_ModbusServer_acceptTCPClients env cs = ⟨env', .returned, cs'⟩) := by
  rw [C09S_accept_shape]
  refine ⟨fun h => ?_, fun h => ?_⟩
  · rcases h with h | h
    · rw [execFrom_seq, execFrom_loop_of_fell _ h]
    · rw [execFrom_seq, execFrom_loop_of_continued _ h]
  · rw [execFrom_seq, execFrom_loop_of_returned _ h, seqK_returned]

/-- **the whole function on `net.ErrClosed`**: the accept goroutine returns, having called nothing
    but `Accept` -/
theorem C09S_accept_exit (e : String) (he : e ≠ "nil") (env : Env)
    (hnil : Env.read? env "nil" = none)
    (his : Env.read? env "errors.Is(err, net.ErrClosed)" = some (Val.ofBool true))
    (fuel : Nat) (hf : 10 ≤ fuel) :
    exec (accOracle [.sym "nil", .sym e]) fuel gs_ModbusServer_acceptTCPClients env =
      ⟨Env.write (Env.write env "sock" (.sym "nil")) "err" (.sym e), .returned,
        [("listener.Accept", [])]⟩ := by
  have h := (C09S_accept_rounds (accOracle [.sym "nil", .sym e]) 8 env _ [] _).2
    (acc_round_err e he true env [] hnil his)
  exact execFrom_ge _ h (fun h => nomatch h) fuel hf

/-- **= the model's `acceptorExit`.** Acceptor `a` waits in `Accept` on the listener of generation
    `g`. `hclosed` is the contract of the `net` package (not derived): `Accept` fails with an error
    that `Is` `net.ErrClosed` exactly when that listener is closed. Then the Go round returns iff
    the model's `acceptorExit a` is enabled, and the step leaves the acceptor `exited`; when the
    round `continue`s the acceptor stays in `Accept` (no model step: no state change). -/
theorem C09S_accept_exit_model (s : State) (a g : Nat)
    (ha : s.acceptors[a]? = some ⟨g, .accepting⟩)
    (e : String) (he : e ≠ "nil") (b : Bool) (hclosed : b = !s.listening g)
    (env : Env) (cs : Calls) (hnil : Env.read? env "nil" = none)
    (his : Env.read? env "errors.Is(err, net.ErrClosed)" = some (Val.ofBool b))
    (fuel : Nat) (hf : 8 ≤ fuel) :
    let r := execFrom (accOracle [.sym "nil", .sym e]) fuel accBody env cs
    (r.how = .returned ↔ enabled s (.acceptorExit a) = true) ∧
    (r.how = .continued ↔ enabled s (.acceptorExit a) = false) ∧
    (r.how = .returned → (step s (.acceptorExit a)).acceptors[a]? = some ⟨g, .exited⟩) ∧
    (r.how = .continued → step s (.acceptorExit a) = s) := by
  intro r
  have h1 := (C09S_accept_error e he b env cs hnil his fuel hf).1
  have h1 : r.how = if b = true then .returned else .continued := h1
  have hen : enabled s (.acceptorExit a) = b := by
    simp only [enabled, ha, hclosed]
  rw [h1, hen]
  cases b
  · refine ⟨by simp, by simp, by simp, fun _ => step_disabled s _ hen⟩
  · refine ⟨by simp, by simp, fun _ => ?_, by simp⟩
    rw [step_eq _ _ hen]
    simp [apply, doAcceptorExit, ha]

/-- static: the only value ever assigned to `ms.tcpClients` in the accept loop is the `append`
    leaf; the only go statement launches `ms.handleTCPClient` on `sock` -/
theorem C09S_accept_static :
    assignedTexts "ms.tcpClients" gs_ModbusServer_acceptTCPClients =
      [some "append(ms.tcpClients, sock)"] ∧
    (bindCalls gs_ModbusServer_acceptTCPClients).map (fun b => (b.1, b.2.1, b.2.2.map leafText?)) =
      [(["sock", "err"], "listener.Accept", []),
       ([], "go ms.handleTCPClient", [some "sock"]),
       ([], "sock.Close", [])] ∧
    opaques gs_ModbusServer_acceptTCPClients = [] := by
  decide +kernel

/-! ## 2. `handleTCPClient`: dispatch, removal, close -/

/-- the generated term with the index-dependent leaf `ms.tcpClients[i]` re-bound at the head of
    every loop round (`GoEval.hGs`) differs from the generated term by the probes only -/
theorem C09S_probe_only :
    hGs = withProbe "ms.tcpClients[i]" "#ms.tcpClients[i]" "i" gs_ModbusServer_handleTCPClient ∧
    stripProbe "#ms.tcpClients[i]" hGs = gs_ModbusServer_handleTCPClient ∧
    hGs = .seq (.loop dispBody) tailPart :=
  ⟨rfl, strip_hGs, hGs_eq'⟩

/-- the environment of a session goroutine: transport type `tt`, its socket `c`; the client list
    is `l` when the removal critical section is entered; every other leaf is the symbol of its
    own text -/
def handleEnv (tt : Int) (c : ConnId) (l : List ConnId) : Env :=
  [("ms.transportType", .int tt), ("sock", .int (c : Nat)),
   ("len(ms.tcpClients)", .int (l.length : Int)),
   ("ms.tcpClients[len(ms.tcpClients)-1]", lastVal l),
   ("ms.tcpClients[:len(ms.tcpClients)-1]", .sym "ms.tcpClients[:len(ms.tcpClients)-1]"),
   ("newTCPTransport(sock, ms.conf.Timeout, ms.conf.Logger)",
      .sym "newTCPTransport(sock, ms.conf.Timeout, ms.conf.Logger)"),
   ("newTCPTransport(tlsSock, ms.conf.Timeout, ms.conf.Logger)",
      .sym "newTCPTransport(tlsSock, ms.conf.Timeout, ms.conf.Logger)"),
   ("sock.RemoteAddr().String()", .sym "sock.RemoteAddr().String()"),
   ("\"\"", .sym "\"\"")]

/-- the calls of the dispatch part: transport type 4 (`modbusTCP`): `handleTransport` on the raw
    socket with the empty role; 5 (`modbusTCPOverTLS`): `startTLS(sock)`, then — only if it
    returned no error (`e = "nil"`) — `handleTransport` on the TLS socket with the role it
    returned; any other type: nothing -/
def dispCalls (tt : Int) (c : ConnId) (role : Val) (e : String) : Calls :=
  if tt = 4 then
    [("ms.handleTransport", [.sym "newTCPTransport(sock, ms.conf.Timeout, ms.conf.Logger)",
        .sym "sock.RemoteAddr().String()", .sym "\"\""])]
  else if tt = 5 then
    ("ms.startTLS", [.int (c : Nat)]) ::
      (if e = "nil" then
        [("ms.handleTransport", [.sym "newTCPTransport(tlsSock, ms.conf.Timeout, ms.conf.Logger)",
            .sym "sock.RemoteAddr().String()", role])]
       else [])
  else []

theorem disp_tcp (l : List ConnId) (tls : List Val) (c : ConnId) :
    execFrom (handleOracle l tls) 9 (.loop dispBody) (handleEnv 4 c l) [] =
      ⟨Env.write (handleEnv 4 c l) "ms.tcpClients[i]" .unk, .fell,
        [("#ms.tcpClients[i]", [.unk]),
         ("ms.handleTransport", [.sym "newTCPTransport(sock, ms.conf.Timeout, ms.conf.Logger)",
            .sym "sock.RemoteAddr().String()", .sym "\"\""])]⟩ := by
  go_eval [dispBody, probeStmt, handleOracle, handleEnv, false_and, probeVal_unk, write_def]

theorem disp_tls_ok (l : List ConnId) (tsock role : Val) (c : ConnId) :
    execFrom (handleOracle l [tsock, role, .sym "nil"]) 9 (.loop dispBody) (handleEnv 5 c l) [] =
      ⟨Env.write (Env.write (Env.write (Env.write (handleEnv 5 c l) "ms.tcpClients[i]" .unk)
          "tlsSock" tsock) "clientRole" role) "err" (.sym "nil"), .fell,
        [("#ms.tcpClients[i]", [.unk]), ("ms.startTLS", [.int (c : Nat)]),
         ("ms.handleTransport", [.sym "newTCPTransport(tlsSock, ms.conf.Timeout, ms.conf.Logger)",
            .sym "sock.RemoteAddr().String()", role])]⟩ := by
  go_eval [dispBody, probeStmt, handleOracle, handleEnv, false_and, probeVal_unk, write_def,
    Int.reduceEq, ne_eq, not_true_eq_false]

theorem disp_tls_err (l : List ConnId) (tsock role : Val) (e : String) (he : e ≠ "nil") (c : ConnId) :
    execFrom (handleOracle l [tsock, role, .sym e]) 9 (.loop dispBody) (handleEnv 5 c l) [] =
      ⟨Env.write (Env.write (Env.write (Env.write (handleEnv 5 c l) "ms.tcpClients[i]" .unk)
          "tlsSock" tsock) "clientRole" role) "err" (.sym e), .fell,
        [("#ms.tcpClients[i]", [.unk]), ("ms.startTLS", [.int (c : Nat)])]⟩ := by
  go_eval [dispBody, probeStmt, handleOracle, handleEnv, false_and, probeVal_unk, write_def,
    Int.reduceEq, ne_eq, not_true_eq_false, he, not_false_eq_true]

theorem disp_other (l : List ConnId) (tls : List Val) (tt : Int) (h4 : tt ≠ 4) (h5 : tt ≠ 5)
    (c : ConnId) :
    execFrom (handleOracle l tls) 9 (.loop dispBody) (handleEnv tt c l) [] =
      ⟨Env.write (handleEnv tt c l) "ms.tcpClients[i]" .unk, .fell,
        [("#ms.tcpClients[i]", [.unk])]⟩ := by
  go_eval [dispBody, probeStmt, handleOracle, handleEnv, false_and, probeVal_unk, write_def, h4, h5]

/-- **the session goroutine, whole function.** For every transport type `tt`, socket `c`, client
    list `l` (shorter than 2^62), result `(tsock, role, e)` of `ms.startTLS` (`e = "nil"`: no
    error) and every fuel ≥ `l.length + 13`: the run of the (probe-instrumented) generated term
    RETURNS; its calls are, in order: the probe of the `switch` wrapper, the dispatch calls
    `dispCalls`, the `cnt` probes of the removal loop (indexes 0, 1, …), `sock.Close()`;
    the removal part has done what `Removed` says, and the list it leaves is
    `Lifecycle.swapRemove l c`. -/
theorem C09S_handleTCPClient (tt : Int) (c : ConnId) (l : List ConnId) (tsock role : Val)
    (e : String) (hn : l.length < 2^62) (fuel : Nat) (hf : l.length + 13 ≤ fuel) :
    ∃ env' cnt,
      exec (handleOracle l [tsock, role, .sym e]) fuel hGs (handleEnv tt c l) =
        ⟨env', .returned,
          ("#ms.tcpClients[i]", [.unk]) :: dispCalls tt c role e ++
            probeCalls "#ms.tcpClients[i]" 0 cnt ++ [("sock.Close", [])]⟩ ∧
      Removed l c env' cnt ∧ clientsAfter l env' = some (swapRemove l c) := by
  by_cases h4 : tt = 4
  · subst h4
    have h := handle_final l [tsock, role, .sym e] c hn _ _ _ (disp_tcp l _ c)
      (by simp only [handleEnv, read?_write, read?_cons, String.reduceEq, ↓reduceIte])
      (by simp only [handleEnv, read?_write, read?_cons, String.reduceEq, ↓reduceIte])
      (by simp only [handleEnv, read?_write, read?_cons, String.reduceEq, ↓reduceIte])
      (by simp only [handleEnv, read?_write, read?_cons, String.reduceEq, ↓reduceIte])
      (by simp only [handleEnv, read?_write, read?_cons, read?_nil, String.reduceEq, ↓reduceIte])
      (by simp [writes, handleEnv, Env.write]) (by simp [writes, handleEnv, Env.write]) fuel hf
    simpa only [dispCalls, ↓reduceIte, List.cons_append, List.nil_append] using h
  · by_cases h5 : tt = 5
    · subst h5
      by_cases he : e = "nil"
      · subst he
        have h := handle_final l [tsock, role, .sym "nil"] c hn _ _ _ (disp_tls_ok l tsock role c)
          (by simp only [handleEnv, read?_write, read?_cons, String.reduceEq, ↓reduceIte])
          (by simp only [handleEnv, read?_write, read?_cons, String.reduceEq, ↓reduceIte])
          (by simp only [handleEnv, read?_write, read?_cons, String.reduceEq, ↓reduceIte])
          (by simp only [handleEnv, read?_write, read?_cons, String.reduceEq, ↓reduceIte])
          (by simp only [handleEnv, read?_write, read?_cons, read?_nil, String.reduceEq, ↓reduceIte])
          (by simp [writes, handleEnv, Env.write]) (by simp [writes, handleEnv, Env.write]) fuel hf
        simpa only [dispCalls, Int.reduceEq, ↓reduceIte, List.cons_append, List.nil_append] using h
      · have h := handle_final l [tsock, role, .sym e] c hn _ _ _ (disp_tls_err l tsock role e he c)
          (by simp only [handleEnv, read?_write, read?_cons, String.reduceEq, ↓reduceIte])
          (by simp only [handleEnv, read?_write, read?_cons, String.reduceEq, ↓reduceIte])
          (by simp only [handleEnv, read?_write, read?_cons, String.reduceEq, ↓reduceIte])
          (by simp only [handleEnv, read?_write, read?_cons, String.reduceEq, ↓reduceIte])
          (by simp only [handleEnv, read?_write, read?_cons, read?_nil, String.reduceEq, ↓reduceIte])
          (by simp [writes, handleEnv, Env.write]) (by simp [writes, handleEnv, Env.write]) fuel hf
        simpa only [dispCalls, Int.reduceEq, he, ↓reduceIte, List.cons_append, List.nil_append] using h
    · have h := handle_final l [tsock, role, .sym e] c hn _ _ _ (disp_other l _ tt h4 h5 c)
        (by simp only [handleEnv, read?_write, read?_cons, String.reduceEq, ↓reduceIte])
        (by simp only [handleEnv, read?_write, read?_cons, String.reduceEq, ↓reduceIte])
        (by simp only [handleEnv, read?_write, read?_cons, String.reduceEq, ↓reduceIte])
        (by simp only [handleEnv, read?_write, read?_cons, String.reduceEq, ↓reduceIte])
        (by simp only [handleEnv, read?_write, read?_cons, read?_nil, String.reduceEq, ↓reduceIte])
        (by simp [writes, handleEnv, Env.write]) (by simp [writes, handleEnv, Env.write]) fuel hf
      simpa only [dispCalls, h4, h5, ↓reduceIte, List.cons_append, List.nil_append] using h

/-! ### the calls of a run, by callee -/

theorem filter_probeCalls_self (p : String) (k cnt : Nat) :
    (probeCalls p k cnt).filter (fun c => c.1 == p) = probeCalls p k cnt := by
  simp only [probeCalls, List.filter_eq_self, List.mem_map]
  rintro ⟨a, b⟩ ⟨x, _, hx⟩
  cases hx
  simp

theorem dispCalls_no_probe (tt : Int) (c : ConnId) (role : Val) (e : String) :
    (dispCalls tt c role e).filter (fun c => c.1 == "#ms.tcpClients[i]") = [] ∧
    realCalls "#ms.tcpClients[i]" (dispCalls tt c role e) = dispCalls tt c role e := by
  unfold dispCalls realCalls
  repeat' split
  all_goals
    constructor <;>
      simp only [List.filter_cons, List.filter_nil, String.reduceBEq, String.reduceBNe,
        Bool.false_eq_true, ↓reduceIte]

theorem length_probeCalls (p : String) (k cnt : Nat) : (probeCalls p k cnt).length = cnt := by
  simp [probeCalls]

/-- `findIdx?` is the FIRST index holding `c` -/
theorem C09S_first_index (l : List ConnId) (c : ConnId) (p : Nat) :
    l.findIdx? (· == c) = some p ↔
      ∃ h : p < l.length, l[p] = c ∧ ∀ j (hj : j < p), l[j]'(Nat.lt_trans hj h) ≠ c := by
  rw [List.findIdx?_eq_some_iff_getElem]
  simp

theorem C09S_absent (l : List ConnId) (c : ConnId) : l.findIdx? (· == c) = none ↔ c ∉ l := by
  rw [List.findIdx?_eq_none_iff]
  constructor
  · intro h hc; simpa using h c hc
  · intro h x hx; simp; intro hxc; exact h (hxc ▸ hx)

/-- **dispatch.** The calls of the session goroutine without the probes, for every transport
    type and TLS outcome:

    * type 4: `ms.handleTransport(newTCPTransport(sock, …), sock.RemoteAddr().String(), "")`
      — third argument the empty-string literal —, then `sock.Close()`;
    * type 5, `startTLS` without error: `ms.startTLS(sock)`, then
      `ms.handleTransport(newTCPTransport(tlsSock, …), sock.RemoteAddr().String(), clientRole)` with
      the role `startTLS` returned, then `sock.Close()`;
    * type 5, `startTLS` failed: `ms.startTLS(sock)`, NO `handleTransport`, then `sock.Close()`;
    * any other type: only `sock.Close()`;

    and in ALL cases the function returns after the removal part has run (`Removed`) — in
    particular after a failed handshake the slot is released and the socket closed. -/
theorem C09S_dispatch (tt : Int) (c : ConnId) (l : List ConnId) (tsock role : Val)
    (e : String) (hn : l.length < 2^62) (fuel : Nat) (hf : l.length + 13 ≤ fuel) :
    let r := exec (handleOracle l [tsock, role, .sym e]) fuel hGs (handleEnv tt c l)
    let rc := realCalls "#ms.tcpClients[i]" r.calls
    r.how = .returned ∧
    rc = dispCalls tt c role e ++ [("sock.Close", [])] ∧
    (tt = 4 → rc =
      [("ms.handleTransport", [.sym "newTCPTransport(sock, ms.conf.Timeout, ms.conf.Logger)",
          .sym "sock.RemoteAddr().String()", .sym "\"\""]), ("sock.Close", [])]) ∧
    (tt = 5 → e = "nil" → rc =
      [("ms.startTLS", [.int (c : Nat)]),
       ("ms.handleTransport", [.sym "newTCPTransport(tlsSock, ms.conf.Timeout, ms.conf.Logger)",
          .sym "sock.RemoteAddr().String()", role]), ("sock.Close", [])]) ∧
    (tt = 5 → e ≠ "nil" → rc = [("ms.startTLS", [.int (c : Nat)]), ("sock.Close", [])]) ∧
    (tt ≠ 4 → tt ≠ 5 → rc = [("sock.Close", [])]) ∧
    (∃ cnt, Removed l c r.env cnt) ∧ clientsAfter l r.env = some (swapRemove l c) := by
  obtain ⟨env', cnt, hrun, hrem, hcl⟩ := C09S_handleTCPClient tt c l tsock role e hn fuel hf
  intro r rc
  have hr : r = _ := hrun
  have hrc : rc = dispCalls tt c role e ++ [("sock.Close", [])] := by
    show realCalls "#ms.tcpClients[i]" r.calls = _
    rw [hr]
    simp only [List.cons_append, List.append_assoc]
    rw [show ∀ (x : String × List Val) (xs : Calls), x :: xs = [x] ++ xs from fun _ _ => rfl]
    rw [realCalls_append, realCalls_append, realCalls_append, (dispCalls_no_probe tt c role e).2,
      realCalls_probeCalls]
    simp [realCalls]
  refine ⟨by rw [hr], hrc, ?_, ?_, ?_, ?_, ⟨cnt, by rw [hr]; exact hrem⟩, by rw [hr]; exact hcl⟩
  · intro h; rw [hrc, h]; simp [dispCalls]
  · intro h he; rw [hrc, h, he]; simp [dispCalls]
  · intro h he; rw [hrc, h]; simp [dispCalls, he]
  · intro h4 h5; rw [hrc]; simp [dispCalls, h4, h5]

/-- **removal.** The removal loop of the session goroutine, for every list `l`, socket `c`,
    transport type and TLS outcome. `p` = the FIRST index with `l[p] = c` (`C09S_first_index`):
    the loop inspects exactly the indexes 0 … p (the probes; the first probe, of `unk`, belongs to
    the `switch` wrapper), then `ms.tcpClients[i]` (with `i = p`) is assigned the leaf
    `ms.tcpClients[len(ms.tcpClients)-1]` (the last element) and `ms.tcpClients` the leaf
    `ms.tcpClients[:len(ms.tcpClients)-1]`, each exactly once (`writes` counts bindings: every probe
    binds `ms.tcpClients[i]` once, the surplus is the number of real assignments), and the loop is
    left (no further probe). `c` not in `l`: all indexes 0 … len are probed, NOTHING is assigned.
    In both cases the list denoted by the final environment is `Lifecycle.swapRemove l c` — for a
    duplicate-free list containing `c` a permutation of `l.erase c` (`C09_remove_exact`). -/
theorem C09S_removal (tt : Int) (c : ConnId) (l : List ConnId) (tsock role : Val)
    (e : String) (hn : l.length < 2^62) (fuel : Nat) (hf : l.length + 13 ≤ fuel) :
    let r := exec (handleOracle l [tsock, role, .sym e]) fuel hGs (handleEnv tt c l)
    let probes := r.argsOf "#ms.tcpClients[i]"
    r.how = .returned ∧
    (∀ p, l.findIdx? (· == c) = some p →
      probes = [.unk] :: (List.range' 0 (p + 1)).map (fun (j : Nat) => [Val.int (j : Int)]) ∧
      Env.read? r.env "i" = some (.int (p : Int)) ∧
      Env.read? r.env "ms.tcpClients[i]" = some (lastVal l) ∧
      Env.read? r.env "ms.tcpClients" = some (.sym "ms.tcpClients[:len(ms.tcpClients)-1]") ∧
      writes "ms.tcpClients" r.env = 1 ∧
      writes "ms.tcpClients[i]" r.env = probes.length + 1) ∧
    (c ∉ l →
      probes = [.unk] :: (List.range' 0 (l.length + 1)).map (fun (j : Nat) => [Val.int (j : Int)]) ∧
      Env.read? r.env "ms.tcpClients" = none ∧
      writes "ms.tcpClients" r.env = 0 ∧
      writes "ms.tcpClients[i]" r.env = probes.length) ∧
    clientsAfter l r.env = some (swapRemove l c) ∧
    (l.Nodup → c ∈ l → ∃ l', clientsAfter l r.env = some l' ∧ l'.Perm (l.erase c)) := by
  obtain ⟨env', cnt, hrun, hrem, hcl⟩ := C09S_handleTCPClient tt c l tsock role e hn fuel hf
  intro r probes
  have hr : r = _ := hrun
  have hpr : probes = [.unk] ::
      (List.range' 0 cnt).map (fun (j : Nat) => [Val.int (j : Int)]) := by
    show r.argsOf "#ms.tcpClients[i]" = _
    rw [hr]
    simp only [Res.argsOf, List.cons_append, List.append_assoc]
    rw [show ∀ (x : String × List Val) (xs : Calls), x :: xs = [x] ++ xs from fun _ _ => rfl]
    rw [List.filter_append, List.filter_append, List.filter_append,
      (dispCalls_no_probe tt c role e).1, filter_probeCalls_self]
    simp [probeCalls]
  have hlen : probes.length = 1 + cnt := by rw [hpr]; simp; omega
  refine ⟨by rw [hr], ?_, ?_, by rw [hr]; exact hcl, ?_⟩
  · intro p hp
    have h := hrem
    simp only [Removed, hp] at h
    obtain ⟨h1, h2, h3, h4, h5, h6⟩ := h
    rw [hr]
    refine ⟨by rw [hpr, h1], h2, h3, h4, h5, ?_⟩
    show writes "ms.tcpClients[i]" env' = probes.length + 1
    rw [h6, hlen]
  · intro hc
    have h := hrem
    simp only [Removed, (C09S_absent l c).mpr hc] at h
    obtain ⟨h1, h2, h3, h4, h5⟩ := h
    rw [hr]
    refine ⟨by rw [hpr, h1], h3, h4, ?_⟩
    show writes "ms.tcpClients[i]" env' = probes.length
    rw [h5, hlen]
  · intro hnd hc
    exact ⟨swapRemove l c, by rw [hr]; exact hcl, C09_remove_exact l c hnd hc⟩

/-- **static** facts about the removal part of the generated term (what the evaluation above
    relies on, read off the term): the bound is `len(ms.tcpClients)`, evaluated ONCE into
    `#len(ms.tcpClients)` before the loop; the index starts at 0 and is only ever incremented
    by 1; the element assignment and the slice assignment are the only assignments to
    `ms.tcpClients[i]` / `ms.tcpClients`, and come in that order, followed by `break`; the test is
    `ms.tcpClients[i] == sock`; after the loop: `sock.Close()`, `return`. -/
theorem C09S_removal_static :
    assignedTexts "#len(ms.tcpClients)" gs_ModbusServer_handleTCPClient = [some "len(ms.tcpClients)"] ∧
    assignedTexts "ms.tcpClients[i]" gs_ModbusServer_handleTCPClient =
      [some "ms.tcpClients[len(ms.tcpClients)-1]"] ∧
    assignedTexts "ms.tcpClients" gs_ModbusServer_handleTCPClient =
      [some "ms.tcpClients[:len(ms.tcpClients)-1]"] ∧
    (assignedTo "i" gs_ModbusServer_handleTCPClient).map (fun e => (varTexts e, callTexts e)) =
      [([], []), (["i"], [])] ∧
    opaques gs_ModbusServer_handleTCPClient = [] ∧
    staleReads gs_ModbusServer_handleTCPClient = [] := by
  decide +kernel

/-- the loop itself, literally (the removal part of `hGs` without the probe is the generated
    loop: `C09S_probe_only`) -/
theorem C09S_removal_shape :
    stripProbe "#ms.tcpClients[i]" (.loop remBody) =
      .loop (.ite (.cmp "<" (.var "i" .int) (.var "#len(ms.tcpClients)" .int))
        (.seq
          (.ite (.cmp "==" (.var "ms.tcpClients[i]" .other) (.var "sock" .other))
            (.seq (.assign "ms.tcpClients[i]" (.var "ms.tcpClients[len(ms.tcpClients)-1]" .other))
              (.seq (.assign "ms.tcpClients" (.call "ms.tcpClients[:len(ms.tcpClients)-1]" .other)) .brk))
            .skip)
          (.assign "i" (.bin "+" .int (.var "i" .int) (.lit 1 .int))))
        .brk) ∧
    seqList tailPart =
      [.assign "#len(ms.tcpClients)" (.var "len(ms.tcpClients)" .int), .assign "i" (.lit 0 .int),
       .loop remBody, .bindCall [] "sock.Close" [], .ret] := ⟨rfl, rfl⟩

/-! ## 3. sensitivity, concrete runs -/

/-- a hand-made variant of the dispatch: `return` on a handshake failure (the seeded bug) -/
def leakDispBody : GStmt :=
  (.seq probeStmt (.seq (.ite (.cmp "==" (.var "ms.transportType" .uint) (.lit (4) .uint)) (.bindCall [] "ms.handleTransport" [(.call "newTCPTransport(sock, ms.conf.Timeout, ms.conf.Logger)" .other), (.call "sock.RemoteAddr().String()" .other), (.call "\"\"" .other)]) (.ite (.cmp "==" (.var "ms.transportType" .uint) (.lit (5) .uint)) (.seq (.bindCall ["tlsSock", "clientRole", "err"] "ms.startTLS" [(.var "sock" .other)]) (.ite (.cmp "!=" (.var "err" .other) (.var "nil" .other)) .ret (.bindCall [] "ms.handleTransport" [(.call "newTCPTransport(tlsSock, ms.conf.Timeout, ms.conf.Logger)" .other), (.call "sock.RemoteAddr().String()" .other), (.var "clientRole" .other)]))) .skip)) .brk))
def leakGs : GStmt := .seq (.loop leakDispBody) tailPart

/-- the variant differs from the generated function in that one statement only, and is told
    apart: on a failed handshake (`tt = 5`, list `[3, 8]`, socket 8) the variant returns without
    removing the entry and without closing the socket, the generated function removes 8 and closes -/
theorem C09S_leak_detected :
    let o := handleOracle [3, 8] [.sym "nil", .sym "", .sym "tls: bad certificate"]
    let bad := exec o 40 leakGs (handleEnv 5 8 [3, 8])
    let good := exec o 40 hGs (handleEnv 5 8 [3, 8])
    (bad.how = .returned ∧ bad.called "sock.Close" = false ∧
      Env.read? bad.env "ms.tcpClients" = none ∧ clientsAfter [3, 8] bad.env = some [3, 8]) ∧
    (good.how = .returned ∧ good.called "sock.Close" = true ∧ good.called "ms.handleTransport" = false ∧
      clientsAfter [3, 8] good.env = some [3]) := by
  decide +kernel

/-- concrete runs of the generated function (TCP, three clients): the socket at every position,
    and absent -/
example : clientsAfter [1, 2, 3] (exec (handleOracle [1, 2, 3] []) 40 hGs (handleEnv 4 1 [1, 2, 3])).env
    = some [3, 2] := by decide +kernel
example : clientsAfter [1, 2, 3] (exec (handleOracle [1, 2, 3] []) 40 hGs (handleEnv 4 2 [1, 2, 3])).env
    = some [1, 3] := by decide +kernel
example : clientsAfter [1, 2, 3] (exec (handleOracle [1, 2, 3] []) 40 hGs (handleEnv 4 3 [1, 2, 3])).env
    = some [1, 2] := by decide +kernel
example : clientsAfter [1, 2, 3] (exec (handleOracle [1, 2, 3] []) 40 hGs (handleEnv 4 4 [1, 2, 3])).env
    = some [1, 2, 3] := by decide +kernel
example : (exec (handleOracle [1, 2, 3] []) 40 hGs (handleEnv 4 2 [1, 2, 3])).argsOf "#ms.tcpClients[i]"
    = [[.unk], [.int 0], [.int 1]] := by decide +kernel
/-- WITHOUT the probes the leaf `ms.tcpClients[i]` has one value for the whole run: bound to the
    element at index 0, the generated loop only ever finds a socket that sits at index 0 — the
    reason for the instrumentation -/
example : Env.read? (exec (handleOracle [1, 2, 3] []) 40 gs_ModbusServer_handleTCPClient
      (("ms.tcpClients[i]", .int 1) :: handleEnv 4 2 [1, 2, 3])).env "ms.tcpClients" = none := by
  decide +kernel
/-- the admission round, concretely: MaxClients = 2 -/
def accEnv (st : Bool) (len maxc : Int) : Env :=
  [("ms.started", Val.ofBool st), ("len(ms.tcpClients)", .int len), ("ms.conf.MaxClients", .int maxc),
   ("append(ms.tcpClients, sock)", .sym "append(ms.tcpClients, sock)")]
example : (exec (accOracle [.sym "sock", .sym "nil"]) 8 accBody (accEnv true 1 2)).calls =
    [("listener.Accept", []), ("go ms.handleTCPClient", [.sym "sock"])] := by decide +kernel
example : (exec (accOracle [.sym "sock", .sym "nil"]) 8 accBody (accEnv true 2 2)).calls =
    [("listener.Accept", []), ("sock.Close", [])] := by decide +kernel
example : (exec (accOracle [.sym "sock", .sym "nil"]) 8 accBody (accEnv false 0 2)).calls =
    [("listener.Accept", []), ("sock.Close", [])] := by decide +kernel
/-- sensitivity: a variant of the round with `<=` instead of `<` admits into a full list
    (`len = MaxClients = 2`), which `C09S_admission` excludes for the generated term -/
example : (exec (accOracle [.sym "sock", .sym "nil"]) 8
    (.seq (.bindCall ["sock", "err"] "listener.Accept" [])
      (.seq (.ite (.and (.var "ms.started" .bool) (.cmp "<=" (.conv .uint (.var "len(ms.tcpClients)" .int)) (.var "ms.conf.MaxClients" .uint))) (.assign "accepted" (.lit 1 .bool)) (.assign "accepted" (.lit 0 .bool)))
        (.ite (.var "accepted" .bool) (.bindCall [] "go ms.handleTCPClient" [(.var "sock" .other)]) (.bindCall [] "sock.Close" []))))
    (accEnv true 2 2)).calls = [("listener.Accept", []), ("go ms.handleTCPClient", [.sym "sock"])] := by
  decide +kernel

end Modbus.Props.C09

#print axioms Modbus.Props.C09.C09S_accept_shape
#print axioms Modbus.Props.C09.C09S_admission
#print axioms Modbus.Props.C09.C09S_admission_model
#print axioms Modbus.Props.C09.C09S_accept_error
#print axioms Modbus.Props.C09.C09S_accept_rounds
#print axioms Modbus.Props.C09.C09S_accept_exit
#print axioms Modbus.Props.C09.C09S_accept_exit_model
#print axioms Modbus.Props.C09.C09S_accept_static
#print axioms Modbus.Props.C09.C09S_probe_only
#print axioms Modbus.Props.C09.C09S_handleTCPClient
#print axioms Modbus.Props.C09.C09S_first_index
#print axioms Modbus.Props.C09.C09S_absent
#print axioms Modbus.Props.C09.C09S_dispatch
#print axioms Modbus.Props.C09.C09S_removal
#print axioms Modbus.Props.C09.C09S_removal_static
#print axioms Modbus.Props.C09.C09S_removal_shape
#print axioms Modbus.Props.C09.C09S_leak_detected
