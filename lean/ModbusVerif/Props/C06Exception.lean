import ModbusVerif.Props.C06Client
import ModbusVerif.Props.C02
/-
  C06, exception replies — closes the gap left by `C06_corruption_never_success`
  (Props/C06Client.lean), whose base frame is a POSITIVE reply (`Answers c cfg res`).

  "A received RTU reply that differs from a valid one by any single-bit, double-bit or
   up-to-16-bit burst error ... is never reported as success."

  The valid RTU replies to a request with function code `fc` are
    (a) the positive replies               `Answers c cfg res`            (C06Client.lean), and
    (b) the exception replies              `ExceptionAnswer c cfg res`    (this file):
        5-byte frames  unit, fc|0x80, code, crc_lo, crc_hi  with any of the 256 codes, from the
        addressed unit or from a gateway answering as unit 255.
  `C06X_valid_replies_cover` shows that these are all: a PDU that passes the unit-id rules is a
  positive answer, an exception answer, or is rejected with ErrProtocolError.

  Statement for (b): the corrupted frame is the received reply ALONE — nothing follows it within
  the exchange. With adversarial bytes following the corrupted frame the statement is false
  (`C06X_followed_by_adversarial_bytes_counterexample`: the auditor's example); for positive base
  frames `C06_corruption_never_success` holds whatever follows, because the corrupted frame is at
  least as long as every frame the client can accept for that request.

  Model under test: `Client.Core.exchange` / `Client.Op.run` over `Rtu.readFrame`+`Rtu.afterRead`.
  `applyErr`, `zeros`, `crcOk`: Lemmas/CrcLemmas.lean; `BurstOrDouble`, `Answers`: C06Client.lean.
-/
namespace Modbus.Props.C06
open Modbus Modbus.Crc Modbus.Client

/-! ### exception answers -/

/-- `res` is a well-formed exception reply with code `code` to the request of the core call `c`:
    function code of the request with the top bit set, exactly one payload byte, sent by the
    addressed unit or by a gateway answering as unit 255 -/
def ExceptionAnswerWith (c : Core) (cfg : Cfg) (res : Pdu) (code : Byte) : Prop :=
  ∃ fc payload, c.request = .ok (fc, payload) ∧ res.fc = (fc ||| 0x80) ∧ res.payload = [code] ∧
    (res.unit = cfg.unitId ∨ res.unit = 0xff)

def ExceptionAnswer (c : Core) (cfg : Cfg) (res : Pdu) : Prop :=
  ∃ code, ExceptionAnswerWith c cfg res code

/-- the exception frame of each of the eight function codes the client sends (01 02 03 04 05 06
    0f 10), with any unit and any code, is length-consistent for the RTU transport: the expected
    length table has the entries 81 82 83 84 85 86 8f 90 with "0 more bytes" -/
theorem C06X_exception_consistent_fcs :
    ∀ fc ∈ ([0x01, 0x02, 0x03, 0x04, 0x05, 0x06, 0x0f, 0x10] : List Byte), ∀ (u code : Byte),
      Rtu.Consistent ⟨u, fc ||| 0x80, [code]⟩ := by
  intro fc hf u code
  simp only [List.mem_cons, List.not_mem_nil, or_false] at hf
  rcases hf with rfl | rfl | rfl | rfl | rfl | rfl | rfl | rfl <;>
    exact ⟨by simp, rfl, by simp⟩

/-- every exception answer is length-consistent (its frame has 5 bytes and round-trips) -/
theorem ExceptionAnswer.consistent {c : Core} {cfg : Cfg} {res : Pdu}
    (h : ExceptionAnswer c cfg res) : Rtu.Consistent res := by
  obtain ⟨code, fc, payload, hreq, hfc, hp, _⟩ := h
  exact ClientResp.exception_consistent hreq hfc hp

/-- the frame of an exception answer has exactly five bytes -/
theorem ExceptionAnswer.length_frame {c : Core} {cfg : Cfg} {res : Pdu}
    (h : ExceptionAnswer c cfg res) : (Rtu.assemble res).length = 5 := by
  obtain ⟨code, fc, payload, _, _, hp, _⟩ := h
  rw [Rtu.length_assemble, hp]; rfl

/-- ... and is  unit, fc|0x80, code, crc_lo, crc_hi -/
theorem ExceptionAnswerWith.frame {c : Core} {cfg : Cfg} {res : Pdu} {code : Byte}
    (h : ExceptionAnswerWith c cfg res code) :
    ∃ fc payload, c.request = .ok (fc, payload) ∧
      Rtu.assemble res = [res.unit, fc ||| 0x80, code] ++ Crc.crc16 [res.unit, fc ||| 0x80, code] := by
  obtain ⟨fc, payload, hreq, hfc, hp, _⟩ := h
  refine ⟨fc, payload, hreq, ?_⟩
  rw [Rtu.assemble_eq, hfc, hp]; rfl

/-! ### the uncorrupted exception reply: the error of its code -/

/-- the function code of every request has the top bit clear -/
theorem request_fc_facts {c : Core} {fc : Byte} {payload : Bytes} (hreq : c.request = .ok (fc, payload)) :
    fc &&& 0x80 = 0x00 ∧ fc ≠ (fc ||| 0x80) ∧ (fc ||| 0x80) &&& 0x80 = 0x80 :=
  ClientResp.fc_facts fc (ClientResp.request_fc hreq)

/-- item 7: a valid exception reply (nothing pending before it, anything after it) makes the core
    call fail with the error of the exception code; exactly the five bytes are consumed -/
theorem C06X_exception_uncorrupted {c : Core} {cfg : Cfg} {st : TState} {res : Pdu} {code : Byte}
    (post : Bytes) (en : Ending)
    (hk : cfg.kind.isRtu = true) (hp : st.pending = []) (ha : ExceptionAnswerWith c cfg res code) :
    (c.exchange cfg st (Rtu.assemble res ++ post) en).result = some (.error (mapException code)) ∧
    (c.exchange cfg st (Rtu.assemble res ++ post) en).state = ⟨st.lastTxn, post⟩ := by
  have hc : Rtu.Consistent res := ExceptionAnswer.consistent ⟨code, ha⟩
  obtain ⟨fc, payload, hreq, hfc, hpl, hu⟩ := ha
  obtain ⟨h1, h2, _⟩ := exchange_rtu_parts st (Rtu.assemble res ++ post) en hk hreq
  have h80 : res.fc &&& 0x80 = 0x80 := by rw [hfc]; exact (request_fc_facts hreq).2.2
  rw [h1, h2, hp, List.nil_append, Rtu.readFrame_assemble post en hc, Rtu.afterRead_ok,
    ClientResp.unitCheck_exc h80 hu]
  refine ⟨?_, rfl⟩
  show c.validate fc res = _
  rw [ClientResp.validate_exception hreq res code hfc hpl, ClientResp.mapException_eq]

/-- the same for every public method whose core call is `c`, citing `C02_exception_rtu`:
    the error is the one the specification assigns to the code -/
theorem C06X_exception_uncorrupted_public {op : Op} {c : Core} {cfg : Cfg} {st : TState}
    {res : Pdu} {code : Byte} (post : Bytes) (en : Ending) (hop : op.core cfg = some c)
    (hk : cfg.kind.isRtu = true) (hp : st.pending = []) (ha : ExceptionAnswerWith c cfg res code) :
    (op.run cfg st (Rtu.assemble res ++ post) en).result =
      some (.error (Spec.exceptionError code)) := by
  obtain ⟨fc, payload, hreq, hfc, hpl, hu⟩ := ha
  have hex : Spec.ExceptionReply cfg op res code :=
    ⟨hu, by rw [hfc, ClientResp.view_fc (ClientResp.core_view hop) hreq], hpl⟩
  exact (C02.C02_exception_rtu hk hop hreq en hex (by rw [hp, List.nil_append])).1

/-! ### the family of valid replies is complete -/

/-- item 7: positive answers and exception answers are ALL the valid replies: a PDU that the
    transport delivers and that passes the unit-id rules of `executeRequest` is
    (a) a positive answer (accepted), or
    (b) an exception answer (the call fails with the error of its code), or
    (c) rejected with ErrProtocolError.
    In particular the result is never a panic. -/
theorem C06X_valid_replies_cover {c : Core} {cfg : Cfg} {fc : Byte} {payload : Bytes}
    (hreq : c.request = .ok (fc, payload)) (res : Pdu)
    (hu : unitCheck cfg.unitId (.ok res) = .ok res) :
    (∃ raw, c.validate fc res = some (.ok raw) ∧ AnswersWith c cfg res raw) ∨
    (∃ code, c.validate fc res = some (.error (mapException code)) ∧
      ExceptionAnswerWith c cfg res code) ∨
    c.validate fc res = some (.error .protocolError) := by
  obtain ⟨hf0, hfne, hf80⟩ := request_fc_facts hreq
  by_cases h1 : res.fc = fc
  · -- positive branch
    have hunit : res.unit = cfg.unitId :=
      (ClientResp.unitCheck_pos (by rw [h1]; exact hf0)).mp hu
    cases hv : c.validate fc res with
    | none => exact absurd hv (validate_ne_none c fc res)
    | some r =>
      cases r with
      | ok raw => exact Or.inl ⟨raw, rfl, fc, payload, hreq, hunit, hv⟩
      | error err =>
        refine Or.inr (Or.inr ?_)
        have hv' := hv
        unfold Core.validate at hv'
        rw [if_pos h1] at hv'
        have : err = .protocolError := by
          cases c <;> simp only [Core.positive, protoErr] at hv' <;>
            (repeat' split at hv') <;> simp_all
        rw [this]
  · by_cases h2 : res.fc = (fc ||| 0x80)
    · by_cases h3 : res.payload.length = 1
      · refine Or.inr (Or.inl ?_)
        match hpl : res.payload, h3 with
        | [code], _ =>
          refine ⟨code, ?_, fc, payload, hreq, h2, hpl, ?_⟩
          · unfold Core.validate
            rw [if_neg h1, if_pos h2, if_neg (by rw [hpl]; simp), hpl]; rfl
          · -- unit id: the addressed unit or 255
            have h80 : res.fc &&& 0x80 = 0x80 := by rw [h2]; exact hf80
            simp only [unitCheck] at hu
            by_cases ha : res.unit = cfg.unitId
            · exact Or.inl ha
            · by_cases hb : res.unit = 0xff
              · exact Or.inr hb
              · have h0 : ¬ (res.fc &&& 0x80 = 0x00) := by rw [h80]; decide
                rw [if_neg (fun h => h0 h.1), if_pos ⟨h80, ha, hb⟩] at hu
                cases hu
      · refine Or.inr (Or.inr ?_)
        unfold Core.validate
        rw [if_neg h1, if_pos h2, if_pos h3]; rfl
    · refine Or.inr (Or.inr ?_)
      unfold Core.validate
      rw [if_neg h1, if_neg h2]; rfl

/-! ### corrupted exception replies -/

/-- a five-byte string that fails the whole-frame CRC check is never delivered by the RTU
    transport as a frame, however the stream ends: every frame the transport delivers has at least
    five bytes (unit, code, one payload byte, CRC), so it would have to be the whole string -/
theorem readFrame_five_crc_fail {f' : Bytes} (en : Ending) (hlen : f'.length = 5)
    (hcrc : crcOk f' = false) :
    ∃ err rest, Rtu.readFrame f' en = (.error err, rest) := by
  cases hrf : Rtu.readFrame f' en with
  | mk r rest =>
    cases r with
    | error err => exact ⟨err, rest, rfl⟩
    | ok p =>
      exfalso
      obtain ⟨hc, hs⟩ := Rtu.readFrame_ok_inv hrf
      have hne : 1 ≤ p.payload.length := by
        have := hc.1
        cases hp : p.payload with
        | nil => exact absurd hp this
        | cons _ _ => simp
      have hl := congrArg List.length hs
      rw [List.length_append, Rtu.length_assemble, hlen] at hl
      have hr : rest = [] := List.length_eq_zero_iff.mp (by omega)
      rw [hr, List.append_nil] at hs
      rw [hs, Rtu.crcOk_assemble] at hcrc
      cases hcrc

/-- the errors an exchange can end with when the transport rejects the input -/
def TransportRejection (en : Ending) (err : Err) : Prop :=
  err = .badCRC ∨ err = .protocolError ∨ err = .shortFrame ∨
  err = (if en.err = .ioTimeout then .requestTimedOut else en.err)

/-- a five-byte string that fails the CRC check, received alone, makes every exchange on an RTU
    kind fail at the transport: ErrBadCRC, ErrProtocolError, ErrShortFrame or the error of the
    stream ending (a timeout as ErrRequestTimedOut). The response validation is never reached. -/
theorem exchange_rejects_five_crc_fail {c : Core} {cfg : Cfg} {st : TState} {f' : Bytes}
    {fc : Byte} {payload : Bytes} (en : Ending)
    (hk : cfg.kind.isRtu = true) (hp : st.pending = []) (hreq : c.request = .ok (fc, payload))
    (hlen : f'.length = 5) (hcrc : crcOk f' = false) :
    ∃ err, (c.exchange cfg st f' en).result = some (.error err) ∧ TransportRejection en err := by
  obtain ⟨err, rest, hrf⟩ := readFrame_five_crc_fail en hlen hcrc
  have h := (exchange_rtu_transport_error (c := c) (cfg := cfg) (st := st) (arr := f') (en := en)
    hk hreq (by rw [hp, List.nil_append]; exact hrf)).1
  refine ⟨_, h, ?_⟩
  rcases Rtu.readFrame_error_inv hrf with rfl | rfl | ⟨rfl | rfl, _⟩
  · exact Or.inl rfl
  · exact Or.inr (Or.inl rfl)
  · exact Or.inr (Or.inr (Or.inl rfl))
  · exact Or.inr (Or.inr (Or.inr rfl))

/-- the corrupted exception frame fails the whole-frame CRC check -/
theorem exception_corrupted_crc_fail {c : Core} {cfg : Cfg} {res : Pdu} {e : List Bool}
    (ha : ExceptionAnswer c cfg res) (hlen : e.length = 40) (he : BurstOrDouble e) :
    crcOk (applyErr (Rtu.assemble res) e) = false := by
  have h5 := ha.length_frame
  have hlen' : e.length = 8 * (Rtu.assemble res).length := by rw [h5, hlen]
  rcases he with ⟨a, b, w, he, hw, ht⟩ | ⟨a, d, b, he⟩
  · exact burst_detected _ a b w e (Rtu.crcOk_assemble res) he hw ht hlen'
  · exact double_bit_detected _ a d b e (Rtu.crcOk_assemble res) he hlen' (by rw [h5]; decide)

/-- item 6: a valid exception reply (any of the 8 request codes, any of the 256 exception codes,
    from the addressed unit or from unit 255) hit by an error burst of at most 16 bits (single-bit
    errors included) or by a double-bit error, received as the reply of the exchange (nothing
    pending before, nothing following it), never yields a success and never a panic: the call
    returns an error, however the stream ends (`en`: timeout / EOF / reset). -/
theorem C06X_exception_corruption_never_success {c : Core} {cfg : Cfg} {st : TState} {res : Pdu}
    {e : List Bool} (en : Ending)
    (hk : cfg.kind.isRtu = true) (hp : st.pending = []) (ha : ExceptionAnswer c cfg res)
    (hlen : e.length = 40) (he : BurstOrDouble e) :
    ∃ err, (c.exchange cfg st (applyErr (Rtu.assemble res) e) en).result = some (.error err) := by
  obtain ⟨code, fc, payload, hreq, _⟩ := id ha
  obtain ⟨err, h, _⟩ := exchange_rejects_five_crc_fail (c := c) (cfg := cfg) (st := st) en hk hp hreq
    (by rw [applyErr_length]; exact ha.length_frame) (exception_corrupted_crc_fail ha hlen he)
  exact ⟨err, h⟩

/-- ... more precisely the transport rejects it (the corrupted bytes never reach the validation):
    the error is ErrBadCRC, ErrProtocolError, ErrShortFrame, or the error of the stream ending
    (ErrRequestTimedOut after a timeout) -/
theorem C06X_exception_corruption_error_class {c : Core} {cfg : Cfg} {st : TState} {res : Pdu}
    {e : List Bool} (en : Ending)
    (hk : cfg.kind.isRtu = true) (hp : st.pending = []) (ha : ExceptionAnswer c cfg res)
    (hlen : e.length = 40) (he : BurstOrDouble e) :
    ∃ err, (c.exchange cfg st (applyErr (Rtu.assemble res) e) en).result = some (.error err) ∧
      (err = .badCRC ∨ err = .protocolError ∨ err = .shortFrame ∨
       err = (if en.err = .ioTimeout then .requestTimedOut else en.err)) := by
  obtain ⟨code, fc, payload, hreq, _⟩ := id ha
  exact exchange_rejects_five_crc_fail (c := c) (cfg := cfg) (st := st) en hk hp hreq
    (by rw [applyErr_length]; exact ha.length_frame) (exception_corrupted_crc_fail ha hlen he)

/-- ... in particular the result is neither a success nor a panic -/
theorem C06X_exception_corruption_not_ok_not_panic {c : Core} {cfg : Cfg} {st : TState}
    {res : Pdu} {e : List Bool} (en : Ending)
    (hk : cfg.kind.isRtu = true) (hp : st.pending = []) (ha : ExceptionAnswer c cfg res)
    (hlen : e.length = 40) (he : BurstOrDouble e) :
    (∀ raw, (c.exchange cfg st (applyErr (Rtu.assemble res) e) en).result ≠ some (.ok raw)) ∧
    (c.exchange cfg st (applyErr (Rtu.assemble res) e) en).result ≠ none := by
  obtain ⟨err, h⟩ := C06X_exception_corruption_never_success en hk hp ha hlen he
  rw [h]
  exact ⟨fun raw hh => (by cases hh), fun hh => (by cases hh)⟩

/-- the same at the level of the public methods: every read/write method whose core call is `c`
    returns an error -/
theorem C06X_exception_corruption_never_success_public {op : Op} {c : Core} {cfg : Cfg}
    {st : TState} {res : Pdu} {e : List Bool} (en : Ending) (hop : op.core cfg = some c)
    (hk : cfg.kind.isRtu = true) (hp : st.pending = []) (ha : ExceptionAnswer c cfg res)
    (hlen : e.length = 40) (he : BurstOrDouble e) :
    ∃ err, (op.run cfg st (applyErr (Rtu.assemble res) e) en).result = some (.error err) := by
  obtain ⟨err, h⟩ := C06X_exception_corruption_never_success en hk hp ha hlen he
  exact ⟨err, run_result_of_exchange_error hop h⟩

/-- C06 for the whole family of valid replies (`C06X_valid_replies_cover`): a valid reply to the
    request — positive or exception — hit by a burst of at most 16 bits or by a double-bit error
    and received as the reply of the exchange is never reported as success, and never panics -/
theorem C06X_any_valid_reply_corruption_never_success {c : Core} {cfg : Cfg} {st : TState}
    {res : Pdu} {e : List Bool} (en : Ending)
    (hk : cfg.kind.isRtu = true) (hp : st.pending = [])
    (ha : Answers c cfg res ∨ ExceptionAnswer c cfg res)
    (hlen : e.length = 8 * (Rtu.assemble res).length) (he : BurstOrDouble e) :
    ∃ err, (c.exchange cfg st (applyErr (Rtu.assemble res) e) en).result = some (.error err) := by
  rcases ha with ha | ha
  · have h := C06_corruption_never_success [] en hk hp ha ha.consistent hlen he
    rwa [List.append_nil] at h
  · exact C06X_exception_corruption_never_success en hk hp ha
      (by rw [hlen, ha.length_frame]) he

/-- nothing stays pending after the rejected corrupted exception frame (at most two bytes were
    left unread and the flush takes up to 1024), so the next exchange starts clean — no F7-style
    loss of synchronisation from a corrupted exception reply -/
theorem C06X_exception_corruption_pending_nil {c : Core} {cfg : Cfg} {st : TState} {res : Pdu}
    {e : List Bool} (en : Ending)
    (hk : cfg.kind.isRtu = true) (hp : st.pending = []) (ha : ExceptionAnswer c cfg res)
    (hlen : e.length = 40) (he : BurstOrDouble e) :
    (c.exchange cfg st (applyErr (Rtu.assemble res) e) en).state = ⟨st.lastTxn, []⟩ := by
  obtain ⟨code, fc, payload, hreq, _⟩ := id ha
  have h5 : (applyErr (Rtu.assemble res) e).length = 5 := by
    rw [applyErr_length]; exact ha.length_frame
  obtain ⟨err, rest, hrf⟩ := readFrame_five_crc_fail en h5 (exception_corrupted_crc_fail ha hlen he)
  have hrf' : Rtu.readFrame (st.pending ++ applyErr (Rtu.assemble res) e) en = (.error err, rest) := by
    rw [hp, List.nil_append]; exact hrf
  have h := C06_pending_nil_after_transport_rejection (c := c) (cfg := cfg) hk hreq hrf'
    (by rw [hp, h5]; decide)
  have h2 := (exchange_rtu_transport_error (c := c) (cfg := cfg) hk hreq hrf').2
  rw [h2] at h ⊢
  simp only at h
  rw [h]

/-! ### why "alone": adversarial bytes after the corrupted frame -/

/-- RTU client, unit 1; ReadRegisters(0, 1, HOLDING) -/
def xCfg : Cfg := ⟨.rtu, 1, .big, .highFirst⟩
def xReq : Core := .readRegs 0 1 0
/-- exception reply "illegal data address" from unit 1: 01 83 02 c0 f1 -/
def xExc : Pdu := ⟨1, 0x83, [0x02]⟩
/-- single-bit error: bit 7 of the function code (frame bit 15), 0x83 → 0x03 -/
def xFlip : List Bool := zeros 15 ++ [true] ++ zeros 24

example : xReq.request = .ok (0x03, [0, 0, 0, 1]) := by decide
example : Rtu.assemble xExc = [0x01, 0x83, 0x02, 0xc0, 0xf1] := by decide +kernel
example : ExceptionAnswerWith xReq xCfg xExc 0x02 :=
  ⟨0x03, [0, 0, 0, 1], by decide, by decide, rfl, Or.inl rfl⟩
example : applyErr (Rtu.assemble xExc) xFlip = [0x01, 0x03, 0x02, 0xc0, 0xf1] := by decide +kernel
example : xFlip.length = 40 ∧ BurstOrDouble xFlip :=
  ⟨by decide, Or.inl ⟨15, 24, [true], rfl, by decide, by decide⟩⟩

/-
  FULL STATEMENT with arbitrary bytes `post` following the corrupted frame (as in
  `C06_corruption_never_success` for positive base frames) — FALSE for exception base frames:

    ∀ post, ∃ err, (c.exchange cfg st (applyErr (Rtu.assemble res) e ++ post) en).result
                      = some (.error err)

  The flipped exception frame `01 03 02 c0 f1` is the first five bytes of a positive reply
  `01 03 02 c0 f1 <crc>`; a peer that appends the CRC of those five bytes completes it to a frame
  the client accepts. That takes a peer that knows the error pattern; the property speaks about
  the received reply alone.
-/
theorem C06X_followed_by_adversarial_bytes_counterexample :
    let corrupted := applyErr (Rtu.assemble xExc) xFlip
    let post := Crc.crc16 corrupted
    ExceptionAnswerWith xReq xCfg xExc 0x02 ∧ xFlip.length = 40 ∧ BurstOrDouble xFlip ∧
    (xReq.exchange xCfg ⟨0, []⟩ (corrupted ++ post) .timeout).result =
      some (.ok (.bytes [0xc0, 0xf1])) ∧
    ((Op.readRegisters 0 1 0).run xCfg ⟨0, []⟩ (corrupted ++ post) .timeout).result =
      some (.ok (.u16s [0xc0f1])) :=
  ⟨⟨0x03, [0, 0, 0, 1], by decide, by decide, rfl, Or.inl rfl⟩, by decide,
   Or.inl ⟨15, 24, [true], rfl, by decide, by decide⟩, by decide +kernel, by decide +kernel⟩

/-! ### non-vacuity -/

-- the uncorrupted exception frame: ErrIllegalDataAddress
example : (xReq.exchange xCfg ⟨0, []⟩ (Rtu.assemble xExc) .timeout).result =
    some (.error .illegalDataAddress) := by decide +kernel
example : (xReq.exchange xCfg ⟨0, []⟩ (Rtu.assemble xExc) .timeout).result =
    some (.error (mapException 0x02)) :=
  (C06X_exception_uncorrupted [] .timeout rfl rfl
    ⟨0x03, [0, 0, 0, 1], by decide, by decide, rfl, Or.inl rfl⟩).1
-- ... from a gateway (unit 255), code 0x0b
example : ExceptionAnswerWith xReq xCfg ⟨0xff, 0x83, [0x0b]⟩ 0x0b :=
  ⟨0x03, [0, 0, 0, 1], by decide, by decide, rfl, Or.inr rfl⟩
example : (xReq.exchange xCfg ⟨0, []⟩ (Rtu.assemble ⟨0xff, 0x83, [0x0b]⟩) .eof).result =
    some (.error .gwTargetFailedToRespond) := by decide +kernel

-- the single-bit flip 0x83 → 0x03 with nothing following: the transport now waits for 4 more
-- bytes (byte count 2 + CRC) and gets 2
example : (xReq.exchange xCfg ⟨0, []⟩ (applyErr (Rtu.assemble xExc) xFlip) .timeout).result =
    some (.error .requestTimedOut) := by decide +kernel
example : (xReq.exchange xCfg ⟨0, []⟩ (applyErr (Rtu.assemble xExc) xFlip) .eof).result =
    some (.error .shortFrame) := by decide +kernel
example : (xReq.exchange xCfg ⟨0, []⟩ (applyErr (Rtu.assemble xExc) xFlip) .reset).result =
    some (.error .ioOther) := by decide +kernel
example : ∃ err, (xReq.exchange xCfg ⟨0, []⟩ (applyErr (Rtu.assemble xExc) xFlip) .timeout).result =
    some (.error err) :=
  C06X_exception_corruption_never_success .timeout rfl rfl
    ⟨0x02, 0x03, [0, 0, 0, 1], by decide, by decide, rfl, Or.inl rfl⟩ (by decide)
    (Or.inl ⟨15, 24, [true], rfl, by decide, by decide⟩)

/-- a 16-bit burst over the exception code and the CRC: frame bits 17, 20, 25, 32 flipped
    (code 02 → 10, CRC c0 f1 → c2 f0) -/
def xBurst : List Bool :=
  [true, false, false, true, false, false, false, false,
   true, false, false, false, false, false, false, true]

example : (zeros 17 ++ xBurst ++ zeros 7).length = 40 ∧ BurstOrDouble (zeros 17 ++ xBurst ++ zeros 7) :=
  ⟨by decide, Or.inl ⟨17, 7, xBurst, rfl, by decide, by decide⟩⟩
example : applyErr (Rtu.assemble xExc) (zeros 17 ++ xBurst ++ zeros 7) =
    [0x01, 0x83, 0x10, 0xc2, 0xf0] := by decide +kernel
example : (xReq.exchange xCfg ⟨0, []⟩
    (applyErr (Rtu.assemble xExc) (zeros 17 ++ xBurst ++ zeros 7)) .timeout).result =
    some (.error .badCRC) := by decide +kernel

-- a burst over unit id and function code: 01 83 → 81 02 (frame bits 7, 8, 15)
example : applyErr (Rtu.assemble xExc) (zeros 7 ++ [true, true, false, false, false, false, false, false, true] ++ zeros 24) =
    [0x81, 0x02, 0x02, 0xc0, 0xf1] := by decide +kernel
example : (xReq.exchange xCfg ⟨0, []⟩
    (applyErr (Rtu.assemble xExc) (zeros 7 ++ [true, true, false, false, false, false, false, false, true] ++ zeros 24))
    .eof).result = some (.error .shortFrame) := by decide +kernel

-- a flip that turns the code into one the length table does not know (0x83 → 0x87, frame bit 10)
example : (xReq.exchange xCfg ⟨0, []⟩
    (applyErr (Rtu.assemble xExc) (zeros 10 ++ [true] ++ zeros 29)) .timeout).result =
    some (.error .protocolError) := by decide +kernel

-- double bit: function code 0x83 → 0x03 and byte "count" 02 → 00 (frame bits 15 and 17): the
-- transport takes `c0 f1` for the CRC of `01 03 00` and rejects it
example : applyErr (Rtu.assemble xExc) (zeros 15 ++ [true] ++ zeros 1 ++ [true] ++ zeros 22) =
    [0x01, 0x03, 0x00, 0xc0, 0xf1] := by decide +kernel
example : (xReq.exchange xCfg ⟨0, []⟩
    (applyErr (Rtu.assemble xExc) (zeros 15 ++ [true] ++ zeros 1 ++ [true] ++ zeros 22)) .timeout).result =
    some (.error .badCRC) := by decide +kernel

-- the cover theorem on the three kinds of PDU
example : unitCheck xCfg.unitId (.ok xExc) = .ok xExc := by decide
example : xReq.validate 0x03 ⟨1, 0x03, [2, 0xc0, 0xf1]⟩ = some (.ok (.bytes [0xc0, 0xf1])) := by decide
example : xReq.validate 0x03 xExc = some (.error .illegalDataAddress) := by decide
example : xReq.validate 0x03 ⟨1, 0x04, [2, 0xc0, 0xf1]⟩ = some (.error .protocolError) := by decide

end Modbus.Props.C06

#print axioms Modbus.Props.C06.C06X_exception_consistent_fcs
#print axioms Modbus.Props.C06.ExceptionAnswer.consistent
#print axioms Modbus.Props.C06.ExceptionAnswer.length_frame
#print axioms Modbus.Props.C06.ExceptionAnswerWith.frame
#print axioms Modbus.Props.C06.C06X_exception_uncorrupted
#print axioms Modbus.Props.C06.C06X_exception_uncorrupted_public
#print axioms Modbus.Props.C06.C06X_valid_replies_cover
#print axioms Modbus.Props.C06.readFrame_five_crc_fail
#print axioms Modbus.Props.C06.exchange_rejects_five_crc_fail
#print axioms Modbus.Props.C06.C06X_exception_corruption_never_success
#print axioms Modbus.Props.C06.C06X_exception_corruption_error_class
#print axioms Modbus.Props.C06.C06X_exception_corruption_not_ok_not_panic
#print axioms Modbus.Props.C06.C06X_exception_corruption_never_success_public
#print axioms Modbus.Props.C06.C06X_any_valid_reply_corruption_never_success
#print axioms Modbus.Props.C06.C06X_exception_corruption_pending_nil
#print axioms Modbus.Props.C06.C06X_followed_by_adversarial_bytes_counterexample
