/-
  C08 (control-flow-sensitive) — a shared `ModbusClient` is race-free and keeps exchanges mutually
  exclusive, for any number of goroutines, any finite sequence of public method EXECUTIONS per
  goroutine (every path through every method: either branch of every `if`/`switch`, any number of
  iterations of every loop, early returns, calls followed to any depth), and every schedule.

  `Props/C08.lean` feeds LINEAR tables (one pass over each body in source order) to the lockset
  checker, and trusts that this straight line covers every path.  Here that trust is replaced by a
  proof: the translator only renders the control STRUCTURE of each method (`Modbus.Gen.flowTables`,
  /verif/extract/flow.go — nothing is decided there), the path semantics `LockFlow.Exec` gives every
  trace of that structure, the abstract interpreter `LockFlow.analyze` follows every path, and
  `LockFlow.analyze_sound` (`Lemmas/LockFlowLemmas.lean`) proves: analysis accepts ⇒ EVERY trace
  passes the linear checker `Locking.entryOk` — so the generic theorems `no_race`,
  `mutex_exclusive`, `critical_sections_contiguous` (`Lemmas/LockingLemmas.lean`) apply verbatim.

  Trusted: that the translator's rendering is faithful (what it does not understand is `stuck`,
  which the analysis rejects; `C08F_agrees_with_linear` cross-checks it against the independent
  linear translator), and that goroutines interact with the client object only through its methods.
-/
import ModbusVerif.Generated.Facts
import ModbusVerif.Model.LockFlow
import ModbusVerif.Lemmas.LockFlowLemmas
import ModbusVerif.Props.C08

namespace Modbus.Props.C08
open Modbus Modbus.Locking Modbus.LockFlow

/-! ### from the generated flows to the analysis' input (computed, not copied) -/

/-- own copy of the structure; the targets of `call`/`go` get the table's key prefix -/
def C08F_convFlow (pre : String) : Gen.Flow → Flow
  | .skip => .skip
  | .act k n => .act (convKind k) (qualify pre (convKind k) n)
  | .seq a b => .seq (C08F_convFlow pre a) (C08F_convFlow pre b)
  | .alt a b => .alt (C08F_convFlow pre a) (C08F_convFlow pre b)
  | .loop b => .loop (C08F_convFlow pre b)
  | .block b => .block (C08F_convFlow pre b)
  | .ret => .ret
  | .brk => .brk
  | .cont => .cont
  | .deferRel => .deferRel
  | .stuck w => .stuck w

/-- the translator's flows for `ModbusClient` (keys "ModbusClient.…") -/
def clientFlows : Table :=
  (selectType "ModbusClient." Gen.flowTables).map
    (fun p => (p.1, C08F_convFlow "ModbusClient." p.2))

/-- exported methods: the name after "ModbusClient." starts with an upper-case letter -/
def clientFlowPublic : List String :=
  (clientFlows.map (·.1)).filter (isExportedAfter "ModbusClient.")

/-- what the mutex protects, computed from the flows: the fields written by some method
    (the i/o pseudo field "transport!" is written by every exchange) -/
def clientFlowMutable : List String := mutableFieldsF clientFlows

/-- call depth available to the analysis (the deepest chain is
    ReadBytes → readBytes → readRegisters → executeRequest) -/
def flowFuel : Nat := 6

/-! ### the analysis accepts the client -/

/-- F1 — every exported client method passes the flow-sensitive analysis: on EVERY path it takes
    the mutex before it touches a mutable field, never locks while holding, never unlocks while
    not holding, and every return / end of body is not holding once the deferred unlock has run;
    no `stuck`, no unknown callee, call depth within `flowFuel`, every loop invariant found. -/
theorem C08F_flows_ok :
    checkEntries clientFlows clientFlowMutable flowFuel clientFlowPublic = true := by
  decide +kernel

/-- F1 in the terms of `LockFlow.analyze`: for every exported method the analysis from the single
    state "not holding, nothing deferred" succeeds, and every exit state is not holding -/
theorem C08F_flows_ok_analyze (m : String) (hm : m ∈ clientFlowPublic) :
    ∃ body out, lookupF clientFlows m = some body ∧
      analyzeT clientFlows clientFlowMutable flowFuel body (SSet.single false false) = some out ∧
      out.brk.isEmpty = true ∧ out.cont.isEmpty = true ∧
      (out.fall.union out.ret).hn = false ∧ (out.fall.union out.ret).nd = false :=
  entryCheck_iff.mp (List.all_eq_true.mp C08F_flows_ok m hm)

/-- F2 — the mutable-field list computed from the flows is the one computed from the linear tables
    (`C08_mutable_fields`) -/
theorem C08F_mutable_fields :
    clientFlowMutable = clientMutable ∧
    clientFlowMutable = ["transport!", "transport", "endianness", "wordOrder", "unitId"] := by
  decide +kernel

/-- the same methods, the same exported ones, as in the linear tables -/
theorem C08F_public_methods :
    clientFlows.map (·.1) = clientProg.map (·.1) ∧ clientFlowPublic = clientPublic := by
  decide +kernel

/-- no client method contains anything the translator did not understand, and the client spawns no
    goroutine -/
theorem C08F_no_stuck_no_go :
    clientFlows.all (fun p => !hasStuck p.2) = true ∧ goTargetsF clientFlows = [] := by
  decide +kernel

/-! ### every execution of every public method passes the linear checker -/

/-- F3 — any complete execution of any exported method (any path, any loop counts, calls inlined
    to any depth, deferred unlock performed at exit) is an entry in the sense of the linear
    checker: well-locked from "not holding", ending not holding -/
theorem C08F_method_runs_ok {m : String} (hm : m ∈ clientFlowPublic) {tr : List Act}
    (hr : MethodRun clientFlows m tr) : entryOk clientFlowMutable (steps tr) = true :=
  entryCheck_sound (List.all_eq_true.mp C08F_flows_ok m hm) hr

/-- F4 — no race, mutual exclusion, exchanges not interleaved: any number of goroutines
    (`work.length`), goroutine k performing the traces `work[k]` one after the other, each trace
    being ANY complete execution of some exported method; any schedule. -/
theorem C08F_no_race_client (work : List (List (List Act)))
    (hw : ∀ ts ∈ work, ∀ t ∈ ts, ∃ m ∈ clientFlowPublic, MethodRun clientFlows m t)
    (sched : List Nat) :
    -- no two goroutines are ever about to perform conflicting accesses to a mutable field
    ¬ RaceAt clientFlowMutable (run (initWork work) sched) ∧
    -- at most one goroutine is inside a critical section
    (∀ (i j : Nat) (ti tj : Thread),
        (run (initWork work) sched).threads[i]? = some ti →
        (run (initWork work) sched).threads[j]? = some tj →
        ti.holding = true → tj.holding = true → i = j) ∧
    -- while goroutine i is inside a critical section nobody else locks, unlocks or touches a
    -- mutable field
    (∀ i pre mid rest,
        trace (initWork work) sched = pre ++ (i, Step.acq) :: (mid ++ rest) →
        (i, Step.rel) ∉ mid →
        ∀ p ∈ mid, p.1 ≠ i → p.2 ≠ .acq ∧ p.2 ≠ .rel ∧ ¬ p.2.touchesMut clientFlowMutable) := by
  refine ⟨flows_no_race C08F_flows_ok work hw sched, ?_, ?_⟩
  · intro i j ti tj hi hj hhi hhj
    exact flows_mutex_exclusive C08F_flows_ok work hw sched hi hj hhi hhj
  · intro i pre mid rest htr hnorel
    exact flows_sections_contiguous C08F_flows_ok work hw sched htr hnorel

/-- F4, the exchange reading: the i/o of one exchange on the shared transport is never interleaved
    with another goroutine's i/o on that transport -/
theorem C08F_exchanges_exclusive (work : List (List (List Act)))
    (hw : ∀ ts ∈ work, ∀ t ∈ ts, ∃ m ∈ clientFlowPublic, MethodRun clientFlows m t)
    (sched : List Nat) {i j : Nat} {pre mid rest : List (Nat × Step)}
    (htr : trace (initWork work) sched = pre ++ (i, Step.acq) :: (mid ++ rest))
    (hnorel : (i, Step.rel) ∉ mid) (hmem : (j, Step.wr "transport!") ∈ mid) : j = i := by
  apply Classical.byContradiction
  intro hne
  have h := (C08F_no_race_client work hw sched).2.2 i pre mid rest htr hnorel _ hmem hne
  refine h.2.2 ⟨"transport!", ?_, Or.inr rfl⟩
  rw [C08F_mutable_fields.2]; decide +kernel

/-! ### the two translators agree -/

/-- lock operations are compared by kind only (the linear tables name the deferred unlock
    "lock(deferred)") -/
def C08F_norm (p : AK × String) : AK × String :=
  match p.1 with
  | .acq => (.acq, "")
  | .rel => (.rel, "")
  | _ => p

/-- equal as sets -/
def C08F_sameSet (a b : List (AK × String)) : Bool :=
  a.all (fun x => b.contains x) && b.all (fun x => a.contains x)

/-- F5 — for every client method, the set of (kind, name) actions occurring anywhere in its flow
    (`deferRel` counted as a `rel`) equals the set occurring in its linear table
    `Gen.accessTables`: neither translator sees an access, call or lock operation the other one
    misses.  (No differences: the alias handling of flow.go adds no action here.) -/
theorem C08F_agrees_with_linear :
    clientFlows.all (fun p =>
      match lookup clientProg p.1 with
      | none => false
      | some lin =>
        C08F_sameSet ((actsIn p.2).map C08F_norm)
          (lin.map (fun a => C08F_norm (a.kind, a.name)))) = true := by
  decide +kernel

/-! ### rejection examples: realistic bugs on hand-written flows -/

/-- fields of the toy receiver -/
def C08F_exMf : List String := ["f", "transport", "transport!"]

/-- analysis of the entry "e" of a toy table -/
def C08F_exCheck (tbl : Table) : Bool := entryCheck tbl C08F_exMf 3 "e"

/-- the linear rendering of a flow: its actions in source order (what a flow-insensitive scan sees) -/
def C08F_linear (f : Flow) : List Step := steps ((actsIn f).map (fun p => ⟨p.1, p.2⟩))

/-- (a) `if c { lock }; access; if c { unlock }` — conditional lock -/
def C08F_exA : Flow :=
  .seq (.alt (.act .acq "lock") .skip) (.seq (.act .rd "f") (.alt (.act .rel "lock") .skip))

/-- (a) rejected by the analysis; ACCEPTED by the linear scan; and the rejection is not spurious:
    the path that skips both branches reads `f` without the mutex -/
example : C08F_exCheck [("e", C08F_exA)] = false := by decide
example : entryOk C08F_exMf (C08F_linear C08F_exA) = true := by decide
example : MethodRun [("e", C08F_exA)] "e" [⟨.rd, "f"⟩] ∧
    entryOk C08F_exMf (steps [⟨.rd, "f"⟩]) = false := by
  refine ⟨⟨_, rfl, .fall, 0, [⟨.rd, "f"⟩], ?_, rfl⟩, by decide⟩
  have h : Exec [("e", C08F_exA)] C08F_exA 0 .fall 0 ([] ++ ([⟨.rd, "f"⟩] ++ [])) :=
    .seqFall (.altR .skip) (.seqFall (.prim (by decide)) (.altR .skip))
  simpa using h

/-- (b) `lock; if c { unlock; return }; access; unlock` is correct and accepted … -/
example :
    C08F_exCheck [("e", .seq (.act .acq "lock")
      (.seq (.alt (.seq (.act .rel "lock") .ret) .skip)
        (.seq (.act .wr "f") (.act .rel "lock"))))] = true := by decide

/-- (b) … the variant with the `return` forgotten reaches the join unlocked: rejected -/
example :
    C08F_exCheck [("e", .seq (.act .acq "lock")
      (.seq (.alt (.act .rel "lock") .skip)
        (.seq (.act .wr "f") (.act .rel "lock"))))] = false := by decide

/-- (c) `lock; for … { access; unlock }` — unlock inside the loop body, access in the next
    iteration (one pass over the body looks fine: `acq; rd; rel`) -/
def C08F_exC : Flow :=
  .seq (.act .acq "lock") (.block (.loop (.seq (.act .rd "f") (.act .rel "lock"))))

example : C08F_exCheck [("e", C08F_exC)] = false := by decide
example : entryOk C08F_exMf (C08F_linear C08F_exC) = true := by decide

/-- (d) `lock; t := mc.transport; unlock; t.M()` — i/o through an alias after the unlock -/
example :
    C08F_exCheck [("e", .seq (.act .acq "lock") (.seq (.act .rd "transport")
      (.seq (.act .rel "lock") (.seq (.act .rd "transport") (.act .wr "transport!")))))] =
      false := by decide

/-- (e) anything the translator did not understand — even in a branch, even with the mutex held,
    even in a callee -/
example :
    C08F_exCheck [("e", .seq (.act .acq "lock") (.seq .deferRel
      (.seq (.alt (.stuck "closure over the receiver") .skip) .ret)))] = false := by decide
example :
    C08F_exCheck [("e", .act .call "m"), ("m", .alt .skip (.stuck "label"))] = false := by decide

/-- (f) return while holding, without a deferred unlock — in one branch only -/
example :
    C08F_exCheck [("e", .seq (.act .acq "lock") (.seq (.act .rd "f")
      (.seq (.alt .ret .skip) (.act .rel "lock"))))] = false := by decide

/-- (g) double lock through a callee: `lock; mc.m()` where `m` locks -/
example :
    C08F_exCheck [("e", .seq (.act .acq "lock") (.seq .deferRel (.seq (.act .call "m") .ret))),
      ("m", .seq (.act .acq "lock") (.seq (.act .rd "f") (.act .rel "lock")))] = false := by
  decide

/-- … while a callee that expects the mutex held is fine when called with it, rejected without -/
example :
    C08F_exCheck [("e", .seq (.act .acq "lock") (.seq .deferRel (.seq (.act .call "m") .ret))),
      ("m", .seq (.act .rd "f") (.alt .ret (.act .wr "f")))] = true := by decide
example :
    C08F_exCheck [("e", .seq (.act .call "m") .ret),
      ("m", .seq (.act .rd "f") (.alt .ret (.act .wr "f")))] = false := by decide

/-- further rejections: `defer Unlock()` twice; `defer Unlock()` without `Lock()`; unlock without
    lock; an unknown callee; `go` of an unknown method; call depth beyond the fuel; a `break`
    outside any loop -/
example :
    C08F_exCheck [("e", .seq (.act .acq "lock") (.seq .deferRel (.seq .deferRel .ret)))] =
      false := by decide
example : C08F_exCheck [("e", .seq .deferRel .ret)] = false := by decide
example : C08F_exCheck [("e", .act .rel "lock")] = false := by decide
example : C08F_exCheck [("e", .act .call "nope")] = false := by decide
example : C08F_exCheck [("e", .act .go "nope")] = false := by decide
example :
    C08F_exCheck [("e", .act .call "a"), ("a", .act .call "b"), ("b", .act .call "c"),
      ("c", .act .call "d"), ("d", .skip)] = false := by decide
example : C08F_exCheck [("e", .brk)] = false := by decide

/-! ### acceptance examples -/

/-- early return under `defer Unlock()` -/
example :
    C08F_exCheck [("e", .seq (.act .acq "lock") (.seq .deferRel
      (.seq (.alt (.seq (.act .rd "f") .ret) .skip) (.seq (.act .wr "f") .ret))))] = true := by
  decide

/-- `break` out of a loop inside a locked region (the removal loop of `handleTCPClient`), with a
    `continue` path -/
example :
    C08F_exCheck [("e", .seq (.act .acq "lock") (.seq (.act .rd "f")
      (.seq (.block (.loop (.seq (.act .rd "f")
        (.alt (.seq (.act .wr "f") .brk) (.alt .cont .skip)))))
        (.seq (.act .rel "lock") .ret))))] = true := by decide

/-- lock and unlock inside every iteration (the accept loop), `continue` before the lock -/
example :
    C08F_exCheck [("e", .block (.loop (.seq (.alt .cont .skip)
      (.seq (.act .acq "lock") (.seq (.act .wr "f") (.act .rel "lock"))))))] = true := by decide

/-- a field that nobody writes may be read without the mutex -/
example : C08F_exCheck [("e", .seq (.act .rd "logger") .ret)] = true := by decide

/-! ### non-vacuity of the instance -/

example : "ModbusClient.ReadUint32" ∈ clientFlowPublic ∧ "ModbusClient.Open" ∈ clientFlowPublic ∧
    "ModbusClient.executeRequest" ∉ clientFlowPublic ∧ clientFlowPublic.length = 34 := by
  decide +kernel

/-- the helper that expects the mutex held is (rightly) not an entry: analysed from "not holding"
    it is rejected — the analysis is sensitive on the real tables -/
example : entryCheck clientFlows clientFlowMutable flowFuel "ModbusClient.executeRequest" = false := by
  decide +kernel

/-- too little call depth is rejected, not ignored -/
example : checkEntries clientFlows clientFlowMutable 2 clientFlowPublic = false := by
  decide +kernel

/-- the hypothesis of F4 is satisfiable: a complete execution of `SetUnitId` -/
example :
    MethodRun clientFlows "ModbusClient.SetUnitId" [⟨.acq, "lock"⟩, ⟨.wr, "unitId"⟩, relAct] := by
  refine ⟨.seq (.act .acq "lock") (.seq .deferRel (.seq (.act .wr "unitId") .ret)),
    by decide +kernel, .ret, 1, [⟨.acq, "lock"⟩, ⟨.wr, "unitId"⟩], ?_, rfl⟩
  have h : Exec clientFlows
      (.seq (.act .acq "lock") (.seq .deferRel (.seq (.act .wr "unitId") .ret))) 0 .ret 1
      ([⟨.acq, "lock"⟩] ++ ([] ++ ([⟨.wr, "unitId"⟩] ++ []))) :=
    .seqFall (.prim (by decide)) (.seqFall .deferRel (.seqFall (.prim (by decide)) .ret))
  simpa using h

end Modbus.Props.C08

#print axioms Modbus.Props.C08.C08F_flows_ok
#print axioms Modbus.Props.C08.C08F_flows_ok_analyze
#print axioms Modbus.Props.C08.C08F_mutable_fields
#print axioms Modbus.Props.C08.C08F_public_methods
#print axioms Modbus.Props.C08.C08F_no_stuck_no_go
#print axioms Modbus.Props.C08.C08F_method_runs_ok
#print axioms Modbus.Props.C08.C08F_no_race_client
#print axioms Modbus.Props.C08.C08F_exchanges_exclusive
#print axioms Modbus.Props.C08.C08F_agrees_with_linear
#print axioms Modbus.LockFlow.analyze_sound
