import ModbusVerif.Props.C05
import ModbusVerif.Props.C06Client
/-
  C13 — a reply that is cut off (the stream ends inside the frame: timeout, EOF, reset) never
  counts as a success, on either framing; a fresh transport state (what Close + Open installs)
  followed by a complete correct reply gives a success.

  Model under test: `Client.Core.exchange` / `Client.Op.run` over `Rtu.readFrame`+`Rtu.afterRead`
  and over `Mbap.readResponse` (`ModbusVerif/Model/{Rtu,Mbap,Client}.lean`).
  `Answers`, `AnswersWith`, the exchange unfolding lemmas: `ModbusVerif/Props/C06Client.lean`.
-/
namespace Modbus.Props.C13
open Modbus Modbus.Strm Modbus.Client Modbus.Props.C06

/-- `executeRequest`'s mapping of transport errors: an i/o timeout becomes ErrRequestTimedOut -/
def mapErr (err : Err) : Err := if err = .ioTimeout then .requestTimedOut else err

/-! ### the exchange over MBAP, unfolded -/

theorem exchange_mbap {c : Core} {cfg : Cfg} {fc : Byte} {payload : Bytes} (st : TState)
    (arr : Bytes) (en : Ending) (hk : cfg.kind.isRtu = false) (hreq : c.request = .ok (fc, payload)) :
    c.exchange cfg st arr en =
      match unitCheck cfg.unitId (Mbap.readResponse (st.lastTxn + 1) (st.pending ++ arr) en).1 with
      | .error err =>
        { written := some (Mbap.assemble (st.lastTxn + 1) ⟨cfg.unitId, fc, payload⟩),
          result := some (.error err),
          state := ⟨st.lastTxn + 1, (Mbap.readResponse (st.lastTxn + 1) (st.pending ++ arr) en).2⟩ }
      | .ok res =>
        { written := some (Mbap.assemble (st.lastTxn + 1) ⟨cfg.unitId, fc, payload⟩),
          result := c.validate fc res,
          state := ⟨st.lastTxn + 1, (Mbap.readResponse (st.lastTxn + 1) (st.pending ++ arr) en).2⟩ } := by
  unfold Core.exchange
  rw [hreq]
  simp only [frameFor, transportRead, hk]
  rfl

theorem exchange_mbap_parts {c : Core} {cfg : Cfg} {fc : Byte} {payload : Bytes} (st : TState)
    (arr : Bytes) (en : Ending) (hk : cfg.kind.isRtu = false) (hreq : c.request = .ok (fc, payload)) :
    (c.exchange cfg st arr en).result =
      (match unitCheck cfg.unitId (Mbap.readResponse (st.lastTxn + 1) (st.pending ++ arr) en).1 with
       | .error err => some (.error err)
       | .ok res => c.validate fc res) ∧
    (c.exchange cfg st arr en).state =
      ⟨st.lastTxn + 1, (Mbap.readResponse (st.lastTxn + 1) (st.pending ++ arr) en).2⟩ := by
  rw [exchange_mbap st arr en hk hreq]
  cases unitCheck cfg.unitId (Mbap.readResponse (st.lastTxn + 1) (st.pending ++ arr) en).1 <;>
    exact ⟨rfl, rfl⟩

theorem shortErr_timeout (n : Nat) : shortErr n .timeout = .ioTimeout := by
  unfold shortErr; split <;> rfl

/-! ### K1: RTU -/

/-- K1, exact form: the reply frame cut after `k` bytes. The call returns ErrShortFrame or the
    Read error of the stream ending (a timeout as ErrRequestTimedOut); nothing stays pending. -/
theorem C13_client_prefix_rtu_exact {c : Core} {cfg : Cfg} {st : TState} {res : Pdu} {k : Nat}
    {fc : Byte} {payload : Bytes} (en : Ending)
    (hkind : cfg.kind.isRtu = true) (hp : st.pending = []) (hreq : c.request = .ok (fc, payload))
    (hc : Rtu.Consistent res) (hk : k < (Rtu.assemble res).length) :
    (c.exchange cfg st ((Rtu.assemble res).take k) en).result =
      some (.error (mapErr (Rtu.prefixErr k en))) ∧
    (c.exchange cfg st ((Rtu.assemble res).take k) en).state = ⟨st.lastTxn, []⟩ := by
  have h := exchange_rtu_transport_error (c := c) (cfg := cfg) (st := st)
    (arr := (Rtu.assemble res).take k) (en := en) hkind hreq
    (by rw [hp, List.nil_append]; exact Rtu.readFrame_take_assemble en hc hk)
  exact h

/-- K1: a cut-off reply on an RTU kind is never a success and never a panic.
    (Holds for every `c`; `Answers c cfg res` as in the task statement implies
    `Rtu.Consistent res` and is not needed beyond that.) -/
theorem C13_client_prefix_rtu {c : Core} {cfg : Cfg} {st : TState} {res : Pdu} {k : Nat}
    (en : Ending) (hkind : cfg.kind.isRtu = true) (hp : st.pending = [])
    (hc : Rtu.Consistent res) (hk : k < (Rtu.assemble res).length) :
    ∃ err, (c.exchange cfg st ((Rtu.assemble res).take k) en).result = some (.error err) := by
  cases hreq : c.request with
  | error err => exact ⟨err, by rw [exchange_request_error cfg st _ en hreq]⟩
  | ok fp =>
    obtain ⟨fc, payload⟩ := fp
    exact ⟨_, (C13_client_prefix_rtu_exact en hkind hp hreq hc hk).1⟩

/-- K1 as stated in the task, for answers of the request -/
theorem C13_client_prefix_rtu_answer {c : Core} {cfg : Cfg} {st : TState} {res : Pdu} {k : Nat}
    (en : Ending) (hkind : cfg.kind.isRtu = true) (hp : st.pending = [])
    (ha : Answers c cfg res) (hk : k < (Rtu.assemble res).length) :
    (∃ err, (c.exchange cfg st ((Rtu.assemble res).take k) en).result = some (.error err)) ∧
    (∀ raw, (c.exchange cfg st ((Rtu.assemble res).take k) en).result ≠ some (.ok raw)) ∧
    (c.exchange cfg st ((Rtu.assemble res).take k) en).result ≠ none := by
  obtain ⟨err, h⟩ := C13_client_prefix_rtu (c := c) en hkind hp ha.consistent hk
  rw [h]
  exact ⟨⟨err, rfl⟩, fun raw hh => (by cases hh), fun hh => (by cases hh)⟩

/-- K1 with a timeout: ErrShortFrame when one or two bytes arrived, else ErrRequestTimedOut -/
theorem C13_client_prefix_rtu_timeout {c : Core} {cfg : Cfg} {st : TState} {res : Pdu} {k : Nat}
    {fc : Byte} {payload : Bytes}
    (hkind : cfg.kind.isRtu = true) (hp : st.pending = []) (hreq : c.request = .ok (fc, payload))
    (hc : Rtu.Consistent res) (hk : k < (Rtu.assemble res).length) :
    (c.exchange cfg st ((Rtu.assemble res).take k) .timeout).result =
      some (.error (if 0 < k ∧ k < 3 then .shortFrame else .requestTimedOut)) := by
  rw [(C13_client_prefix_rtu_exact .timeout hkind hp hreq hc hk).1]
  congr 2
  by_cases h0 : k = 0
  · subst h0; rfl
  · by_cases h3 : k < 3
    · have : 0 < k ∧ k < 3 := ⟨by omega, h3⟩
      simp [Rtu.prefixErr, mapErr, h0, h3, this]
    · by_cases h33 : k = 3 <;> simp [Rtu.prefixErr, mapErr, h0, h3, h33, Ending.err]

/-! ### K2: MBAP -/

/-- K2, exact form: the reply frame (own transaction id) cut after `k` bytes, possibly behind
    whole stale frames. The call returns the short-read error of the stream ending. -/
theorem C13_client_prefix_mbap_exact {c : Core} {cfg : Cfg} {st : TState} {res : Pdu} {k : Nat}
    {fc : Byte} {payload : Bytes} (en : Ending)
    (hkind : cfg.kind.isRtu = false) (hp : Mbap.Skippable (st.lastTxn + 1) st.pending)
    (hreq : c.request = .ok (fc, payload))
    (hlen : res.payload.length ≤ 252) (hk : k < (Mbap.assemble (st.lastTxn + 1) res).length) :
    (c.exchange cfg st ((Mbap.assemble (st.lastTxn + 1) res).take k) en).result =
      some (.error (mapErr (shortErr (if k < 7 then k else k - 7) en))) ∧
    (c.exchange cfg st ((Mbap.assemble (st.lastTxn + 1) res).take k) en).state =
      ⟨st.lastTxn + 1, []⟩ := by
  have ht : (Mbap.assemble (st.lastTxn + 1) res).drop k ≠ [] := by
    intro h
    have := congrArg List.length h
    simp only [List.length_drop, List.length_nil] at this
    omega
  have hrr := C05.C05_truncated_own_reply en hp hlen (List.take_append_drop k _) ht
  rw [List.length_take, Nat.min_eq_left (Nat.le_of_lt hk)] at hrr
  obtain ⟨h1, h2⟩ := exchange_mbap_parts st ((Mbap.assemble (st.lastTxn + 1) res).take k) en hkind hreq
  rw [h1, h2, hrr, unitCheck_error]
  exact ⟨rfl, rfl⟩

/-- K2: a cut-off reply on an MBAP kind is never a success and never a panic -/
theorem C13_client_prefix_mbap {c : Core} {cfg : Cfg} {st : TState} {res : Pdu} {k : Nat}
    (en : Ending) (hkind : cfg.kind.isRtu = false)
    (hp : Mbap.Skippable (st.lastTxn + 1) st.pending)
    (hlen : res.payload.length ≤ 252) (hk : k < (Mbap.assemble (st.lastTxn + 1) res).length) :
    ∃ err, (c.exchange cfg st ((Mbap.assemble (st.lastTxn + 1) res).take k) en).result =
      some (.error err) := by
  cases hreq : c.request with
  | error err => exact ⟨err, by rw [exchange_request_error cfg st _ en hreq]⟩
  | ok fp =>
    obtain ⟨fc, payload⟩ := fp
    exact ⟨_, (C13_client_prefix_mbap_exact en hkind hp hreq hlen hk).1⟩

/-- K2 with nothing pending -/
theorem C13_client_prefix_mbap_nil {c : Core} {cfg : Cfg} {st : TState} {res : Pdu} {k : Nat}
    (en : Ending) (hkind : cfg.kind.isRtu = false) (hp : st.pending = [])
    (hlen : res.payload.length ≤ 252) (hk : k < (Mbap.assemble (st.lastTxn + 1) res).length) :
    ∃ err, (c.exchange cfg st ((Mbap.assemble (st.lastTxn + 1) res).take k) en).result =
      some (.error err) :=
  C13_client_prefix_mbap en hkind (by rw [hp]; exact .nil) hlen hk

/-- K2 with a timeout: ErrRequestTimedOut -/
theorem C13_client_prefix_mbap_timeout {c : Core} {cfg : Cfg} {st : TState} {res : Pdu} {k : Nat}
    {fc : Byte} {payload : Bytes}
    (hkind : cfg.kind.isRtu = false) (hp : Mbap.Skippable (st.lastTxn + 1) st.pending)
    (hreq : c.request = .ok (fc, payload))
    (hlen : res.payload.length ≤ 252) (hk : k < (Mbap.assemble (st.lastTxn + 1) res).length) :
    (c.exchange cfg st ((Mbap.assemble (st.lastTxn + 1) res).take k) .timeout).result =
      some (.error .requestTimedOut) := by
  rw [(C13_client_prefix_mbap_exact .timeout hkind hp hreq hlen hk).1, shortErr_timeout]
  rfl

/-! ### K3: the public methods -/

theorem C13_public_prefix_rtu {op : Op} {c : Core} {cfg : Cfg} {st : TState} {res : Pdu} {k : Nat}
    (en : Ending) (hop : op.core cfg = some c) (hkind : cfg.kind.isRtu = true)
    (hp : st.pending = []) (hc : Rtu.Consistent res) (hk : k < (Rtu.assemble res).length) :
    ∃ err, (op.run cfg st ((Rtu.assemble res).take k) en).result = some (.error err) := by
  obtain ⟨err, h⟩ := C13_client_prefix_rtu (c := c) en hkind hp hc hk
  exact ⟨err, run_result_of_exchange_error hop h⟩

theorem C13_public_prefix_mbap {op : Op} {c : Core} {cfg : Cfg} {st : TState} {res : Pdu} {k : Nat}
    (en : Ending) (hop : op.core cfg = some c) (hkind : cfg.kind.isRtu = false)
    (hp : Mbap.Skippable (st.lastTxn + 1) st.pending)
    (hlen : res.payload.length ≤ 252) (hk : k < (Mbap.assemble (st.lastTxn + 1) res).length) :
    ∃ err, (op.run cfg st ((Mbap.assemble (st.lastTxn + 1) res).take k) en).result =
      some (.error err) := by
  obtain ⟨err, h⟩ := C13_client_prefix_mbap (c := c) en hkind hp hlen hk
  exact ⟨err, run_result_of_exchange_error hop h⟩

theorem C13_public_prefix_mbap_timeout {op : Op} {c : Core} {cfg : Cfg} {st : TState} {res : Pdu}
    {k : Nat} {fc : Byte} {payload : Bytes} (hop : op.core cfg = some c)
    (hkind : cfg.kind.isRtu = false) (hp : Mbap.Skippable (st.lastTxn + 1) st.pending)
    (hreq : c.request = .ok (fc, payload))
    (hlen : res.payload.length ≤ 252) (hk : k < (Mbap.assemble (st.lastTxn + 1) res).length) :
    (op.run cfg st ((Mbap.assemble (st.lastTxn + 1) res).take k) .timeout).result =
      some (.error .requestTimedOut) :=
  run_result_of_exchange_error hop (C13_client_prefix_mbap_timeout hkind hp hreq hlen hk)

/-- the public method whose core call succeeded with `raw` returns the decoded value -/
theorem run_result_of_exchange_ok {op : Op} {c : Core} {cfg : Cfg} {st : TState} {arr : Bytes}
    {en : Ending} {raw : Raw} (hc : op.core cfg = some c)
    (h : (c.exchange cfg st arr en).result = some (.ok raw)) :
    (op.run cfg st arr en).result = (op.decode cfg raw).map .ok := by
  unfold Op.run
  rw [hc]
  simp only
  rw [h]

/-! ### K4: a fresh transport state and a complete reply -/

/-- every accepted reply fits the MBAP length field -/
theorem answersWith_payload_le {c : Core} {cfg : Cfg} {res : Pdu} {raw : Raw}
    (ha : AnswersWith c cfg res raw) : res.payload.length ≤ 252 := by
  obtain ⟨fc, payload, hreq, _, hv⟩ := ha
  obtain ⟨_, h2, _⟩ := validate_ok_shape hv
  rw [h2]
  exact (request_ok_inv hreq).2

/-- a complete correct reply with the outstanding transaction id, possibly behind whole stale
    frames, is accepted; exactly its bytes are consumed -/
theorem exchange_mbap_answer {c : Core} {cfg : Cfg} {st : TState} {res : Pdu} {raw : Raw}
    (post : Bytes) (en : Ending)
    (hkind : cfg.kind.isRtu = false) (hp : Mbap.Skippable (st.lastTxn + 1) st.pending)
    (ha : AnswersWith c cfg res raw) :
    (c.exchange cfg st (Mbap.assemble (st.lastTxn + 1) res ++ post) en).result = some (.ok raw) ∧
    (c.exchange cfg st (Mbap.assemble (st.lastTxn + 1) res ++ post) en).state =
      ⟨st.lastTxn + 1, post⟩ := by
  have hlen := answersWith_payload_le ha
  obtain ⟨fc, payload, hreq, hunit, hval⟩ := ha
  obtain ⟨h1, h2⟩ := exchange_mbap_parts st (Mbap.assemble (st.lastTxn + 1) res ++ post) en hkind hreq
  have hrr := C05.C05_own_after_foreign res post en hp hlen
  rw [List.append_assoc] at hrr
  rw [h1, h2, hrr, unitCheck_ok_same hunit]
  exact ⟨hval, rfl⟩

/-- K4, RTU: after Close + Open (fresh state) a complete correct reply is a success -/
theorem C13_reopen_fresh_rtu {c : Core} {cfg : Cfg} {res : Pdu} {raw : Raw} (post : Bytes)
    (en : Ending) (hkind : cfg.kind.isRtu = true) (ha : AnswersWith c cfg res raw) :
    (c.exchange cfg { lastTxn := 0, pending := [] } (Rtu.assemble res ++ post) en).result =
      some (.ok raw) :=
  (exchange_rtu_answer post en hkind rfl ha (Answers.consistent ⟨raw, ha⟩)).1

/-- K4, MBAP: the first transaction id after Open is 1 -/
theorem C13_reopen_fresh_mbap {c : Core} {cfg : Cfg} {res : Pdu} {raw : Raw} (post : Bytes)
    (en : Ending) (hkind : cfg.kind.isRtu = false) (ha : AnswersWith c cfg res raw) :
    (c.exchange cfg { lastTxn := 0, pending := [] } (Mbap.assemble 1 res ++ post) en).result =
      some (.ok raw) :=
  (exchange_mbap_answer (st := { lastTxn := 0, pending := [] }) post en hkind .nil ha).1

/-- K4 for the public methods: the decoded value of the raw result -/
theorem C13_reopen_fresh_public {op : Op} {c : Core} {cfg : Cfg} {res : Pdu} {raw : Raw}
    (post : Bytes) (en : Ending) (hop : op.core cfg = some c) (ha : AnswersWith c cfg res raw) :
    (op.run cfg { lastTxn := 0, pending := [] }
      ((if cfg.kind.isRtu then Rtu.assemble res else Mbap.assemble 1 res) ++ post) en).result =
      (op.decode cfg raw).map .ok := by
  cases hkind : cfg.kind.isRtu with
  | true => exact run_result_of_exchange_ok hop (C13_reopen_fresh_rtu post en hkind ha)
  | false => exact run_result_of_exchange_ok hop (C13_reopen_fresh_mbap post en hkind ha)

/-- the whole story on one connection: a reply cut off by a timeout is an error; after
    Close + Open the repeated request, answered completely, succeeds -/
theorem C13_cut_then_reopen {c : Core} {cfg : Cfg} {st : TState} {res : Pdu} {raw : Raw} {k : Nat}
    (post : Bytes) (en1 en2 : Ending) (hp : st.pending = []) (ha : AnswersWith c cfg res raw)
    (hk : k < (if cfg.kind.isRtu then Rtu.assemble res else Mbap.assemble (st.lastTxn + 1) res).length) :
    (∃ err, (c.exchange cfg st
      ((if cfg.kind.isRtu then Rtu.assemble res else Mbap.assemble (st.lastTxn + 1) res).take k) en1).result
        = some (.error err)) ∧
    (c.exchange cfg { lastTxn := 0, pending := [] }
      ((if cfg.kind.isRtu then Rtu.assemble res else Mbap.assemble 1 res) ++ post) en2).result =
      some (.ok raw) := by
  cases hkind : cfg.kind.isRtu with
  | true =>
    rw [hkind] at hk
    exact ⟨C13_client_prefix_rtu en1 hkind hp (Answers.consistent ⟨raw, ha⟩) hk,
      C13_reopen_fresh_rtu post en2 hkind ha⟩
  | false =>
    rw [hkind] at hk
    exact ⟨C13_client_prefix_mbap_nil en1 hkind hp (answersWith_payload_le ha) hk,
      C13_reopen_fresh_mbap post en2 hkind ha⟩

/-! ### non-vacuity: read 2 holding registers, reply `01 03 04 20 f0 12 34` -/

/-- MBAP/TCP client, unit 1 -/
def exCfgTcp : Cfg := ⟨.tcp, 1, .big, .highFirst⟩

theorem exAnswersRtu : AnswersWith exReq exCfg exReply (.bytes [0x20, 0xf0, 0x12, 0x34]) :=
  ⟨0x03, [0, 0, 0, 2], by decide, rfl, by decide⟩
theorem exAnswersTcp : AnswersWith exReq exCfgTcp exReply (.bytes [0x20, 0xf0, 0x12, 0x34]) :=
  ⟨0x03, [0, 0, 0, 2], by decide, rfl, by decide⟩

example : (Rtu.assemble exReply).length = 9 ∧ Rtu.Consistent exReply := by decide +kernel
example : Mbap.assemble 1 exReply = [0, 1, 0, 0, 0, 7, 1, 3, 4, 0x20, 0xf0, 0x12, 0x34] := by decide

-- K1: every cut of the 9-byte RTU reply, timeout and EOF
example : ∀ k : Fin 9, ∃ err,
    (exReq.exchange exCfg ⟨0, []⟩ ((Rtu.assemble exReply).take k) .timeout).result = some (.error err) :=
  fun k => C13_client_prefix_rtu .timeout rfl rfl (by decide) (by
    have : (Rtu.assemble exReply).length = 9 := by decide +kernel
    rw [this]; exact k.isLt)
example : (exReq.exchange exCfg ⟨0, []⟩ ((Rtu.assemble exReply).take 8) .timeout).result =
    some (.error .requestTimedOut) := by decide +kernel
example : (exReq.exchange exCfg ⟨0, []⟩ ((Rtu.assemble exReply).take 2) .timeout).result =
    some (.error .shortFrame) := by decide +kernel
example : (exReq.exchange exCfg ⟨0, []⟩ ((Rtu.assemble exReply).take 8) .eof).result =
    some (.error .shortFrame) := by decide +kernel
example : (exReq.exchange exCfg ⟨0, []⟩ ((Rtu.assemble exReply).take 8) .reset).result =
    some (.error .ioOther) := by decide +kernel

-- K2: cuts of the 13-byte MBAP reply
example : (exReq.exchange exCfgTcp ⟨0, []⟩ ((Mbap.assemble 1 exReply).take 12) .timeout).result =
    some (.error .requestTimedOut) :=
  C13_client_prefix_mbap_timeout (st := ⟨0, []⟩) (fc := 3) (payload := [0, 0, 0, 2]) rfl .nil (by decide) (by decide) (by decide)
example : (exReq.exchange exCfgTcp ⟨0, []⟩ ((Mbap.assemble 1 exReply).take 12) .timeout).result =
    some (.error .requestTimedOut) := by decide
example : (exReq.exchange exCfgTcp ⟨0, []⟩ ((Mbap.assemble 1 exReply).take 12) .eof).result =
    some (.error .ioUnexpectedEOF) := by decide
example : (exReq.exchange exCfgTcp ⟨0, []⟩ ((Mbap.assemble 1 exReply).take 0) .eof).result =
    some (.error .ioEOF) := by decide
-- ... behind a stale reply to an earlier request (transaction id 0x0005 while 0x0008 is outstanding)
example : (exReq.exchange exCfgTcp ⟨7, Mbap.assemble 5 exReply⟩
    ((Mbap.assemble 8 exReply).take 12) .timeout).result = some (.error .requestTimedOut) := by decide

-- K3
example : (Op.readRegisters 0 2 0).core exCfg = some exReq := by decide
example : ((Op.readRegisters 0 2 0).run exCfg ⟨0, []⟩ ((Rtu.assemble exReply).take 8) .timeout).result =
    some (.error .requestTimedOut) := by decide +kernel
example : ((Op.readUint32 0 0).run exCfgTcp ⟨0, []⟩ ((Mbap.assemble 1 exReply).take 12) .timeout).result =
    some (.error .requestTimedOut) := by decide

-- K4
example : (exReq.exchange exCfg ⟨0, []⟩ (Rtu.assemble exReply) .timeout).result =
    some (.ok (.bytes [0x20, 0xf0, 0x12, 0x34])) := C13_reopen_fresh_rtu [] .timeout rfl exAnswersRtu |>
      (by simpa using ·)
example : (exReq.exchange exCfgTcp ⟨0, []⟩ (Mbap.assemble 1 exReply ++ [9]) .eof).result =
    some (.ok (.bytes [0x20, 0xf0, 0x12, 0x34])) := C13_reopen_fresh_mbap [9] .eof rfl exAnswersTcp
example : ((Op.readUint32 0 0).run exCfgTcp ⟨0, []⟩ (Mbap.assemble 1 exReply) .timeout).result =
    some (.ok (.u32s [0x20f01234])) := by decide
example : ((Op.readRegisters 0 2 0).run exCfg ⟨0, []⟩ (Rtu.assemble exReply) .timeout).result =
    some (.ok (.u16s [0x20f0, 0x1234])) := by decide +kernel

end Modbus.Props.C13

#print axioms Modbus.Props.C13.C13_client_prefix_rtu_exact
#print axioms Modbus.Props.C13.C13_client_prefix_rtu
#print axioms Modbus.Props.C13.C13_client_prefix_rtu_answer
#print axioms Modbus.Props.C13.C13_client_prefix_rtu_timeout
#print axioms Modbus.Props.C13.C13_client_prefix_mbap_exact
#print axioms Modbus.Props.C13.C13_client_prefix_mbap
#print axioms Modbus.Props.C13.C13_client_prefix_mbap_nil
#print axioms Modbus.Props.C13.C13_client_prefix_mbap_timeout
#print axioms Modbus.Props.C13.C13_public_prefix_rtu
#print axioms Modbus.Props.C13.C13_public_prefix_mbap
#print axioms Modbus.Props.C13.C13_public_prefix_mbap_timeout
#print axioms Modbus.Props.C13.exchange_mbap_answer
#print axioms Modbus.Props.C13.C13_reopen_fresh_rtu
#print axioms Modbus.Props.C13.C13_reopen_fresh_mbap
#print axioms Modbus.Props.C13.C13_reopen_fresh_public
#print axioms Modbus.Props.C13.C13_cut_then_reopen
