import ModbusVerif.Model.Skeleton
import ModbusVerif.Generated.Facts
/-
  The correspondence harness attaches real clients to scripted connections through the test hook
  `VerifNewClientOnConn` (verif_hooks.go, build tag `verif`), which repeats the transport wiring of
  `ModbusClient.Open()` without dialling. This file closes that gap in the trusted base: on the
  skeletons extracted from the current source of BOTH functions, the transport stack built for each
  transport type is the same — same framing constructor, same adapter (`newUDPSockWrapper`,
  `newTLSSockWrapper`, none), same configuration arguments, `discard` for exactly the same types —
  with the harness's connection standing where `Open()` has the socket it dialled / the serial
  wrapper it opened. (`VerifNewClientOnSerialPort` does the same for `rtu://` with the REAL
  serial wrapper over a given port.)
-/
namespace Modbus.Props.C16
open Modbus Skel

set_option maxRecDepth 100000

/-- the transport-building part of a trace: the framing constructor call with its arguments, the
    adapter call if any, and whether stale input is discarded; the link variable (`sock` / `spw` in
    `Open`, `conn` / `spw` in the hooks) is renamed to "LINK" -/
def renameLink (a : String) : String :=
  if a == "sock" || a == "spw" || a == "conn" then "LINK" else a

def stackOf (tr : List Tok) : List Tok :=
  (tr.filter (fun t => t.1 == "call" &&
      (t.2.1 == "newRTUTransport" || t.2.1 == "newTCPTransport" || t.2.1 == "newUDPSockWrapper"
        || t.2.1 == "newTLSSockWrapper" || t.2.1 == "discard"))).map
    (fun t => (t.1, t.2.1, t.2.2.map renameLink))

/-- the stack `Open()` builds for transport type `k` when no error test fires -/
def openStack (k : String) : List Tok :=
  stackOf (exec Gen.skeleton_ModbusClient_Open k [false, false, false])

/-- the stack the hook builds for the transport type named `name` (`NewClient` succeeded) -/
def hookStack (name : String) : List Tok :=
  stackOf (exec Gen.skeleton_VerifNewClientOnConn name [false])

/-- transport type constants as extracted from the source -/
def typeNum (name : String) : Option String :=
  (Gen.intConsts.find? (fun p => p.1 == name)).map (fun p => toString p.2)

theorem C16H_type_numbers :
    [typeNum "modbusRTU", typeNum "modbusRTUOverTCP", typeNum "modbusRTUOverUDP", typeNum "modbusTCP",
     typeNum "modbusTCPOverTLS", typeNum "modbusTCPOverUDP"] =
    [some "1", some "2", some "3", some "4", some "5", some "6"] := by decide +kernel

/-- for every socket-based transport type the hook builds exactly the stack `Open()` builds -/
theorem C16H_hook_wiring_equals_open :
    hookStack "modbusRTUOverTCP" = openStack "2" ∧ hookStack "modbusRTUOverUDP" = openStack "3" ∧
    hookStack "modbusTCP" = openStack "4" ∧ hookStack "modbusTCPOverTLS" = openStack "5" ∧
    hookStack "modbusTCPOverUDP" = openStack "6" ∧
    -- rtu:// through this hook: same RTU transport and discard, the given connection in place of
    -- the serial wrapper (the serial wrapper itself is exercised through VerifNewClientOnSerialPort)
    hookStack "modbusRTU" = (openStack "1").filter (fun t => t.2.1 != "newSerialPortWrapper") ∧
    -- and none of the stacks is empty (the comparison is not vacuous)
    (openStack "2").length = 2 ∧ (openStack "3").length = 2 ∧ (openStack "4").length = 1 ∧
    (openStack "5").length = 2 ∧ (openStack "6").length = 2 ∧ (openStack "1").length = 2 := by
  decide +kernel

/-- the serial hook: real `newSerialPortWrapper`, `discard` on it, RTU transport on it — as `Open()` -/
theorem C16H_serial_hook_wiring :
    let tr := exec Gen.skeleton_VerifNewClientOnSerialPort "" [false, false]
    stackOf tr = openStack "1" ∧ called tr "newSerialPortWrapper" = true := by decide +kernel

/-- an unknown transport type: neither function installs a transport -/
theorem C16H_unknown_type :
    assigned (exec Gen.skeleton_VerifNewClientOnConn "nothing" [false]) "mc.transport" = false ∧
    assigned (exec Gen.skeleton_ModbusClient_Open "0" []) "mc.transport" = false := by decide +kernel

#print axioms C16H_type_numbers
#print axioms C16H_hook_wiring_equals_open
#print axioms C16H_serial_hook_wiring
#print axioms C16H_unknown_type

end Modbus.Props.C16
