import ModbusVerif.Lemmas.GoEvalCliScanLemmas
import ModbusVerif.Props.C20SrcRun
/- header: TODO -/
set_option linter.unusedSimpArgs false
set_option linter.unusedVariables false
set_option maxRecDepth 100000

namespace Modbus.Props.C20
open Modbus Modbus.Gen Modbus.GoEval Modbus.GoEval.CliScan

/-! ## 1. `performBoolScan` -/

/-- a string literal / constant leaf bound to the symbol named by its own text -/
def selfSym (t : String) : String × GoEval.Val := (t, .sym t)

/-- entry environment of `performBoolScan(client, isCoil)`: the parameters (`Gen.gsParams`), the zero
    value of `var count uint`, the two error constants, the string literals -/
def boolScanEnv (client : GoEval.Val) (isCoil : Bool) : Env :=
  [("client", client), ("isCoil", .ofBool isCoil), ("count", .int 0), selfSym symIDA, selfSym symIFN,
   selfSym nameCoil, selfSym nameDI, selfSym fmtStart, selfSym fmtFail, selfSym fmtBoolRow, selfSym fmtFound]

theorem boolScanEnv_pre (client : GoEval.Val) (isCoil : Bool) :
    ScanPre "isCoil" nameCoil nameDI fmtBoolRow isCoil (boolScanEnv client isCoil) := by
  constructor <;> rfl

theorem C20N_boolScan (ans : Nat → GoEval.Val × String) (client : GoEval.Val) (isCoil : Bool) (fuel : Nat)
    (hf : 65536 + 14 ≤ fuel) :
    let r := exec (scanOracle ans) fuel gs_cli_performBoolScan (boolScanEnv client isCoil)
    let rt := regTypeOf isCoil nameCoil nameDI
    r.how = .returned ∧
    requests r.calls = (List.range 65536).map (fun (a : Nat) => (boolCallee isCoil, [GoEval.Val.int a])) ∧
    printed r.calls = scanLog rt ((List.range 65536).flatMap (fun (a : Nat) =>
      roundPrint rt [.sym fmtBoolRow, .int a, .int a, (ans a).1] a (ans a).2)) (nilCount ans 65536) ∧
    r.calls = scanLog rt ((List.range 65536).flatMap (boolRoundCalls ans isCoil rt)) (nilCount ans 65536) ∧
    Env.read? r.env "count" = some (.int (nilCount ans 65536 : Nat)) := by
  intro r rt
  obtain ⟨env', h0, hc⟩ := bool_run ans 65535 (by omega) isCoil _ (boolScanEnv_pre client isCoil)
  have h : execW (fun _ => scanOracle ans) 65550 (scanWith "isCoil" nameCoil nameDI .u32 (boolHead 65535))
      (boolScanEnv client isCoil) = ⟨env', .returned,
        scanLog rt ((List.range 65536).flatMap (boolRoundCalls ans isCoil rt)) (nilCount ans 65536)⟩ := h0
  have hr : r = ⟨env', .returned, scanLog rt ((List.range 65536).flatMap (boolRoundCalls ans isCoil rt))
      (nilCount ans 65536)⟩ := by
    show exec _ fuel _ _ = _
    rw [← execW_const, boolScan_shape]
    rw [execW_mono _ 65550 _ _ _ hf (by rw [h]; exact fun x => nomatch x)]
    exact h
  rw [hr]
  refine ⟨rfl, ?_, ?_, rfl, hc⟩
  · show requests (scanLog _ _ _) = _
    rw [requests_scanLog, bool_requests]
  · show printed (scanLog _ _ _) = _
    rw [printed_scanLog, bool_printed]

end Modbus.Props.C20
