import ModbusVerif.Lemmas.GoEvalCliScanLemmas
import ModbusVerif.Props.C20SrcRun
/-
  C20, source tie of the SCAN / PING functions of cmd/modbus-cli.go — `performBoolScan`,
  `performRegisterScan`, `performUnitIdScan`, `performPing` (and the helper `decodeString`) — as rendered
  by the translator (`Gen.gs_cli_performBoolScan`, `gs_cli_performRegisterScan`,
  `gs_cli_performUnitIdScan`, `gs_cli_performPing`, `gs_cli_decodeString`, regenerated on every run),
  EVALUATED by `Modbus.GoEval` for ALL outcomes of the client calls. Props/C20SrcRun.lean proves that the
  run loop of `main` CALLS these functions with (`client`, `o.isCoil` / `o.isHoldingReg` / — /
  `o.quantity`, `o.duration`) and stops there (`C20R_unmodelled`: "not rendered, not modelled"); this
  file closes that gap. Helpers: Lemmas/GoEvalCliScanLemmas.lean.

  WHAT THE HELP TEXT (`displayHelp`) DOCUMENTS, verbatim:

      * scan:<type>
        Perform a modbus "scan" of the modbus type <type>, which can be one of:
        - "c", "coils",
        - "di", "discreteInputs",
        - "hr", "holdingRegisters",
        - "ir", "inputRegisters",
        - "s", "sid".
        [...]
        Read requests are made over the entire address space (65535 addresses).
        Adresses for which a non-error response is received are listed, along with the value received.
        Errors other than Illegal Data Address and Illegal Function are also shown, as they should
        not happen in sane implementations.

        scan:sid             scans the target for devices.

        Scans all unit IDs (0 to 255) using a single read input register request. Addresses responding
        positively or with non-timeout errors are shown, while timeouts and gateway timeouts are ignored.
        [...]
      * ping:<count>[:interval]
        Executes <count> modbus reads (1 holding register at address 0x0000), either back to back or
        separated by [interval] if specified, then prints timing and outcome statistics.

  RESULTS (every theorem: for ALL answers of the device; fuel ≥ an explicit bound, linear in the
  number of rounds: every loop round costs one unit of depth)
  0. `C20N_shapes`: the generated terms are the skeletons that are evaluated (`rfl`), no untranslated
     statement. `C20N_continue_rendering`: `continue` in the three-clause `for` is `addr++; .cont`.
     `C20N_params`: the parameter names (`Gen.gsParams`).
  1. `C20N_boolScan` (fuel ≥ 65536 + 14): the run returns; its `client.*` calls are EXACTLY
     `client.ReadCoil(a)` (`isCoil`) / `client.ReadDiscreteInput(a)` for a = 0, 1, …, 65535 in order, one
     per address, whatever the outcomes; the printed lines (start; per address nothing / failure line
     / row; `found` line); the full interleaved log; `count` = number of `nil` answers.
     `C20N_scan_lines`: which line for which error. The answers are a function
     `ans : Nat → Val × String` of the ADDRESS (value, error symbol: `"nil"`,
     `"modbus.ErrIllegalDataAddress"`, `"modbus.ErrIllegalFunction"` or ANY other symbol): since every
     address is read once, this covers every sequence of outcomes.
     `C20N_boolScan_u16_diverges`: with `var addr uint16` (term transformer `retype .u32 .u16`) the
     run ends `outOfFuel` for EVERY fuel and device: `addr <= 0xffff` needs the 32-bit counter.
  2. `C20N_registerScan`: the same with `client.ReadRegister(a, 0 | 1)`, 0 = `HOLDING_REGISTER` iff
     `isHoldingReg`, 1 = `INPUT_REGISTER` (`Gen.const_…`).
  3. `C20N_unitIdScan` (fuel ≥ 256 + 18; answers a function of the SELECTED unit id, the world reads
     it off the last `client.SetUnitId` of the call log): for u = 0..255 in order `SetUnitId(u)` then
     ONE `ReadRegister(0, INPUT_REGISTER)`; `ok` line and `countOk` for `nil`, illegal data address,
     illegal function, illegal data value (a Modbus exception reply of these kinds = "device
     present"); `ErrRequestTimedOut` / `ErrGWTargetFailedToRespond`: counted, NOTHING printed; any
     other error: printed with the error, counted as error (`C20N_unit_classes`); unit id 255 is left
     selected.
  4. `C20N_ping` (every `count : U16`, every interval, answers and durations functions of the PROBE
     NUMBER, read off the call log): exactly `count` probes `ReadRegister(0, HOLDING_REGISTER)`
     (`count = 0`: none); `time.Sleep(interval)` after every probe iff `interval > 0`
     (`C20N_ping_round`: where); lines and statistics; the three counters add up to `count`.
  5. `C20N_decodeString`: for every byte list the bytes appended are the input with every byte
     outside 0x20..0x7e replaced by 0x2e, same length and order.
  6. `C20N_closes_gap`: `C20R_unmodelled` composed with 1–4: op code 26 / 27 / 28 / 29 ↦ the ONE call
     `perform…(client, …)` ↦ (entry environment = `Gen.gsParams` zipped with the logged argument
     values) exactly the requests above; the arm itself makes no client call.
  7. Sensitivity, variants DERIVED from the generated term by term transformers (`reBound`,
     `breakOnFail`, `dropPost`, `retype`), small ones run by the kernel (`decide +kernel`, bound 3):
     `C20N_small_run` (the true term, bound 3: addresses 0..3), `C20N_sensitive_stop_on_error` (stops
     at the first other error: misses 3), `C20N_sensitive_no_post_small` / `C20N_sensitive_no_post`
     (`continue` rendered as `.cont` alone, the pre-fix rendering: the first "not there" address is read
     for ever; the general theorem: `outOfFuel` for EVERY fuel on the full address space),
     `C20N_sensitive_lt` (`addr < BOUND` misses the last address).

  FINDINGS (behaviour vs. help text; none contradicts "what it does", two are undocumented effects)
  N1 The help says "the entire address space (65535 addresses)": the code reads 65536 addresses,
     0..0xffff (`C20N_boolScan`, `C20N_registerScan`): the text is off by one, the scan is complete.
  N2 `scan:sid` leaves unit id 255 selected (`C20N_unitIdScan`, `lastUnit`): the unit id given by
     `--unit-id` or an earlier `sid:` is NOT restored, so e.g. `--unit-id 1 scan:sid rh:uint16:0`
     reads from unit 255. Not documented.
  N3 `ping:<n>:<interval>` sleeps after EVERY probe, also after the last one (`C20N_ping`: `n` sleeps,
     not `n - 1`), before the statistics; "separated by [interval]" suggests `n - 1`.
  N4 `performPing` with `count = 0` sends nothing (`C20N_ping`) and then evaluates
     `avgRTT / time.Duration(count)`: Go panics (integer divide by zero). Unreachable from the command
     line: the argument parser refuses `ping:0` ("illegal ping count value", exit 2). The evaluator
     sees that expression only as an opaque leaf.
  N5 (observation) unit id scan: a unit answering with another exception (server device failure,
     busy, gateway path unavailable, …) is SHOWN with the error, as documented, but is counted under
     "errors", not under "found … devices".
  No address is skipped or probed twice, no scan stops early, whatever the device answers.

  WHAT IS MODELLED RATHER THAN DERIVED from the generated terms
  * THE DEVICE. The oracle answers `client.ReadCoil` / `ReadDiscreteInput` / `ReadRegister` with
    `(value, err)`; `err` is a SYMBOL compared by name (`cmpop` on symbols); the value is any `Val`.
    `client.SetUnitId`, `fmt.Printf`, `fmt.Println`, `time.Sleep` return nothing; `time.Now` an
    opaque instant; `time.Since` an arbitrary integer (`time.Duration`). Scans: `GoEval.exec` with the
    stateless `scanOracle ans`; unit id scan and ping: `GoEval.execW` (the oracle also sees the call
    log: `execFromW_const`, same evaluator on stateless oracles).
  * ENTRY ENVIRONMENTS (`entryEnv`): parameters ↦ argument values; the ZERO VALUES of `var count uint`
    etc. (a `var` declaration without value is not rendered); the package-qualified error constants
    `modbus.ErrIllegalDataAddress`, … bound to symbols named by their own text (the evaluator's
    `isConstSym` knows the unqualified names of package modbus only; distinct texts = distinct
    values, `strConsts_distinct`); string literals and opaque call leaves (`rtt.Round(…)`,
    `append(dec, b)`, `string(dec)`) bound to symbols named by their text. `nil` is not shadowed.
  * PRINTING is tied as a call `fmt.Printf` / `fmt.Println` with the FORMAT LITERAL and the EVALUATED
    arguments, in order; Go's rendering of `%04x`, `%-5v`, `%v` is not modelled. The statistics
    line's format is the concatenation of two literals: string `+` is not modelled, the argument
    evaluates to `unk`.
  * `time.Sleep` is a call with the evaluated duration; no clock is modelled.
  * `decodeString`: the leaf `in[idx]` is keyed by its text; the probe `in[idx] := #in[idx](idx)`
    (`withProbe`, removed again by `stripProbe`, `C20N_decodeString`) re-binds it from the byte list
    and the VALUE of `idx` before every round (`unk` outside the list, never read). `append` and
    `string` are opaque: what is proved is WHICH byte `b` holds at each `dec = append(dec, b)`,
    read off the sequence of bindings of the final environment (`historyP`: `Env.write` only prepends).
  * COMPOSITION `main` → callee (`C20N_closes_gap`): a call is opaque for the evaluator; the callee's
    run starts from `entryEnv` built from `Gen.gsParams` and the argument values `main` logged.
  * `uint` is 64 bits; `len(in) < 2^63` (a Go `int`).
-/
set_option linter.unusedSimpArgs false
set_option linter.unusedVariables false
set_option maxRecDepth 100000

namespace Modbus.Props.C20
open Modbus Modbus.Gen Modbus.GoEval Modbus.GoEval.CliScan

/-! ## 0. the terms, the entry environments -/

/-- the generated terms ARE the skeletons evaluated below (`rfl`): a scan function is `regType`
    choice, start line, `addr = 0`, `loop head`, `found` line, `return`; `performPing` and
    `performUnitIdScan` are `pingWith (.loop pingHead)` / `unitWith (.loop unitHead)` (the loop bodies
    are the generated text, cut out by position); none has an untranslated statement -/
theorem C20N_shapes :
    gs_cli_performBoolScan = scanWith "isCoil" nameCoil nameDI .u32 (boolHead 65535) ∧
    gs_cli_performRegisterScan = scanWith "isHoldingReg" nameHR nameIR .u32 (regHead 65535) ∧
    gs_cli_performUnitIdScan = unitWith (.loop unitHead) ∧
    gs_cli_performPing = pingWith (.loop pingHead) ∧
    gs_cli_decodeString = dsWith (.loop dsHead) ∧
    opaques gs_cli_performBoolScan = [] ∧ opaques gs_cli_performRegisterScan = [] ∧
    opaques gs_cli_performUnitIdScan = [] ∧ opaques gs_cli_performPing = [] ∧
    opaques gs_cli_decodeString = [] :=
  ⟨boolScan_shape, regScan_shape, unitScan_shape, ping_shape, decodeString_shape, rfl, rfl, rfl, rfl, rfl⟩

/-- `continue` inside the three-clause `for` is rendered as the post statement `addr++` followed by
    `.cont` (Go runs the post statement before the next round) -/
theorem C20N_continue_rendering :
    skipPost .u32 = .seq (.assign "addr" (.bin "+" .u32 (.var "addr" .u32) (.lit 1 .u32))) .cont ∧
    boolHead 65535 = scanHead .u32 "<=" 65535 (boolCall .u32) (boolFound .u32) (skipPost .u32) (failPrint .u32) :=
  ⟨rfl, rfl⟩

/-- the parameter names of a rendered function (`Gen.gsParams`) -/
def paramsOf (fn : String) : List String := (gsParams.lookup fn).getD []

theorem C20N_params :
    paramsOf "cli.performBoolScan" = ["client", "isCoil"] ∧
    paramsOf "cli.performRegisterScan" = ["client", "isHoldingReg"] ∧
    paramsOf "cli.performUnitIdScan" = ["client"] ∧
    paramsOf "cli.performPing" = ["client", "count", "interval"] ∧
    paramsOf "cli.decodeString" = ["in"] := by
  refine ⟨?_, ?_, ?_, ?_, ?_⟩ <;> decide +kernel

/-- a string literal / constant / opaque leaf bound to the symbol named by its own text -/
def selfSym (t : String) : String × GoEval.Val := (t, .sym t)

/-- ENTRY ENVIRONMENT of a callee: its parameters bound to the argument values, then its locals -/
def entryEnv (fn : String) (args : List GoEval.Val) (locals : Env) : Env :=
  (paramsOf fn).zip args ++ locals

/-- locals / constants of `performBoolScan`: the zero value of `var count uint`, the two error
    constants of package modbus, the string literals -/
def boolScanLocals : Env :=
  [("count", .int 0), selfSym symIDA, selfSym symIFN, selfSym nameCoil, selfSym nameDI, selfSym fmtStart,
   selfSym fmtFail, selfSym fmtBoolRow, selfSym fmtFound]
def regScanLocals : Env :=
  [("count", .int 0), selfSym symIDA, selfSym symIFN, selfSym nameHR, selfSym nameIR, selfSym fmtStart,
   selfSym fmtFail, selfSym fmtRegRow, selfSym fmtFound]
def unitScanLocals : Env :=
  [("countOk", .int 0), ("countErr", .int 0), ("countTimeout", .int 0), ("countGWTimeout", .int 0),
   selfSym symIDA, selfSym symIFN, selfSym symIDV, selfSym symRTO, selfSym symGWT, selfSym fmtUnitStart,
   selfSym fmtUnitOk, selfSym fmtUnitErr, selfSym fmtUnitFound]
def pingLocals : Env :=
  [("okCount", .int 0), ("timeoutCount", .int 0), ("otherErrCount", .int 0), ("avgRTT", .int 0),
   ("minRTT", .int 0), ("maxRTT", .int 0), selfSym symIDA, selfSym symIFN, selfSym symRTO, selfSym symGWT,
   selfSym fmtPingStart, selfSym fmtPingOk, selfSym fmtPingTo, selfSym fmtPingErr, selfSym fmtPingStat1,
   selfSym fmtPingStat2, selfSym fmtPingRtt, selfSym leafRtt, selfSym leafTotal, selfSym leafMin,
   selfSym leafAvg, selfSym leafMax]

def boolScanEnv (client : GoEval.Val) (isCoil : Bool) : Env :=
  entryEnv "cli.performBoolScan" [client, .ofBool isCoil] boolScanLocals
def regScanEnv (client : GoEval.Val) (isHoldingReg : Bool) : Env :=
  entryEnv "cli.performRegisterScan" [client, .ofBool isHoldingReg] regScanLocals
def unitScanEnv (client : GoEval.Val) : Env := entryEnv "cli.performUnitIdScan" [client] unitScanLocals
def pingEnv (client : GoEval.Val) (count : U16) (interval : Int) : Env :=
  entryEnv "cli.performPing" [client, .int count.toNat, .int interval] pingLocals
/-- `decodeString(in)`: `len(in)`, and the two opaque call leaves (`append(dec, b)`, `string(dec)`) -/
def decodeEnv (bs : Bytes) : Env :=
  [("len(in)", .int bs.length), selfSym "append(dec, b)", selfSym "string(dec)"]

theorem boolScanEnv_pre (client : GoEval.Val) (isCoil : Bool) :
    ScanPre "isCoil" nameCoil nameDI fmtBoolRow isCoil (boolScanEnv client isCoil) := by
  constructor <;> rfl
theorem regScanEnv_pre (client : GoEval.Val) (isH : Bool) :
    ScanPre "isHoldingReg" nameHR nameIR fmtRegRow isH (regScanEnv client isH) := by
  constructor <;> rfl
theorem unitScanEnv_pre (client : GoEval.Val) : UnitConst (unitScanEnv client) ∧ UnitZero (unitScanEnv client) := by
  constructor <;> constructor <;> rfl
theorem pingEnv_pre (client : GoEval.Val) (count : U16) (d : Int) :
    PingConst count.toNat d (pingEnv client count d) ∧ PingZero (pingEnv client count d) := by
  constructor <;> constructor <;> rfl

/-! ## 1. `performBoolScan` -/

/-- **BOOL SCAN.** For EVERY answer function `ans` (address ↦ (value, error symbol)), both values of
    `isCoil`, every fuel ≥ 65536 + 14, `performBoolScan(client, isCoil)`
    * returns;
    * its calls of methods of `client` are EXACTLY, in order, `client.ReadCoil(a)` (`isCoil`) resp.
      `client.ReadDiscreteInput(a)` for a = 0, 1, …, 65535: one request per address, every address
      exactly once, whatever the outcomes (no error stops, skips or repeats anything);
    * what it prints (`fmt.Printf` calls: format literal, evaluated arguments): the start line with
      `regType`; per address nothing (illegal data address / illegal function), the failure line with
      `regType`, the address and the error (any other error), the row with the address (twice) and the
      value (`nil`); the `found` line with `count` and `regType`;
    * the whole call log is the interleaving `scanLog … boolRoundCalls` (request, then its line);
    * `count` = number of addresses answered with `nil` (`nilCount`). -/
theorem C20N_boolScan (ans : Nat → GoEval.Val × String) (client : GoEval.Val) (isCoil : Bool) (fuel : Nat)
    (hf : 65536 + 14 ≤ fuel) :
    let r := exec (scanOracle ans) fuel gs_cli_performBoolScan (boolScanEnv client isCoil)
    let rt := regTypeOf isCoil nameCoil nameDI
    r.how = .returned ∧
    requests r.calls = (List.range 65536).map (fun (a : Nat) => (boolCallee isCoil, [GoEval.Val.int a])) ∧
    printed r.calls = scanLog rt ((List.range 65536).flatMap (fun (a : Nat) =>
      roundPrint rt [.sym fmtBoolRow, .int a, .int a, (ans a).1] a (ans a).2)) (nilCount ans 65536) ∧
    r.calls = scanLog rt ((List.range 65536).flatMap (boolRoundCalls ans isCoil rt)) (nilCount ans 65536) ∧
    Env.read? r.env "count" = some (.int (nilCount ans 65536 : Nat)) ∧
    nilCount ans 65536 = (List.range 65536).countP (fun a => decide ((ans a).2 = "nil")) := by
  intro r rt
  obtain ⟨env', h0, hc⟩ := bool_run ans 65535 (by omega) isCoil _ (boolScanEnv_pre client isCoil)
  have h : execW (fun _ => scanOracle ans) 65550 (scanWith "isCoil" nameCoil nameDI .u32 (boolHead 65535))
      (boolScanEnv client isCoil) = ⟨env', .returned,
        scanLog rt ((List.range 65536).flatMap (boolRoundCalls ans isCoil rt)) (nilCount ans 65536)⟩ := h0
  have hr : r = ⟨env', .returned, scanLog rt ((List.range 65536).flatMap (boolRoundCalls ans isCoil rt))
      (nilCount ans 65536)⟩ := by
    show exec _ fuel _ _ = _
    rw [← execW_const, boolScan_shape]
    rw [execW_mono _ 65550 _ _ _ hf (by rw [h]; exact fun x => nomatch x)]
    exact h
  rw [hr]
  refine ⟨rfl, ?_, ?_, rfl, hc, rfl⟩
  · show requests (scanLog _ _ _) = _
    rw [requests_scanLog, bool_requests]
  · show printed (scanLog _ _ _) = _
    rw [printed_scanLog, bool_printed]

/-- what the lines are, spelled out: nothing / failure line / row -/
theorem C20N_scan_lines (rt : GoEval.Val) (row : List GoEval.Val) (a : Int) (e : String) :
    (e = symIDA ∨ e = symIFN → roundPrint rt row a e = []) ∧
    (e ≠ symIDA → e ≠ symIFN → e ≠ "nil" →
      roundPrint rt row a e = [("fmt.Printf", [.sym fmtFail, rt, .int a, .sym e])]) ∧
    (e = "nil" → roundPrint rt row a e = [("fmt.Printf", row)]) ∧
    regTypeOf true nameCoil nameDI = .sym nameCoil ∧ regTypeOf false nameCoil nameDI = .sym nameDI ∧
    regTypeOf true nameHR nameIR = .sym nameHR ∧ regTypeOf false nameHR nameIR = .sym nameIR := by
  refine ⟨?_, ?_, ?_, rfl, rfl, rfl, rfl⟩
  · intro h
    have : isNotThere e = true := by rcases h with h | h <;> subst h <;> decide
    simp only [roundPrint, this, ↓reduceIte]
  · intro h1 h2 h3
    have : isNotThere e = false := by simp [isNotThere, h1, h2]
    simp only [roundPrint, this, Bool.false_eq_true, ↓reduceIte, ne_eq, h3, not_false_eq_true]
  · intro h
    subst h
    simp only [roundPrint, isNotThere_nil, Bool.false_eq_true, ↓reduceIte, ne_eq, not_true_eq_false]

/-- THE COUNTER DOES NOT WRAP BECAUSE IT IS 32 BITS WIDE. The same function with `var addr uint16`
    (`retype .u32 .u16` of the generated term: every `uint32` node becomes `uint16`) NEVER returns:
    `addr <= 0xffff` is then always true and `addr++` wraps 65535 ↦ 0. For every device, every fuel,
    the run ends `outOfFuel`. -/
theorem C20N_boolScan_u16_diverges (ans : Nat → GoEval.Val × String) (client : GoEval.Val) (isCoil : Bool)
    (fuel : Nat) :
    (exec (scanOracle ans) fuel (retype .u32 .u16 gs_cli_performBoolScan) (boolScanEnv client isCoil)).how
      = .outOfFuel := by
  have pre := boolScanEnv_pre client isCoil
  rw [retype_boolScan]
  show (execFrom _ fuel _ _ []).how = _
  rw [← execFromW_const]
  exact scanWith_diverges (scanWorld ans) (scanWorld_printf ans) "isCoil" nameCoil nameDI .u16 boolHead16 isCoil _
    pre.flag pre.nameT pre.nameE pre.fStart
    (fun n => bool16_loop_diverges ans isCoil _ _ _ (pre.entry (by decide) (by decide) _) n) fuel

/-! ## 2. `performRegisterScan` -/

/-- **REGISTER SCAN.** As `C20N_boolScan`: the requests are EXACTLY `client.ReadRegister(a, regType)`
    for a = 0..65535 in order, `regType` = 0 = `modbus.HOLDING_REGISTER` iff `isHoldingReg`, else
    1 = `modbus.INPUT_REGISTER`; the row prints the address twice and the value twice. -/
theorem C20N_registerScan (ans : Nat → GoEval.Val × String) (client : GoEval.Val) (isHoldingReg : Bool)
    (fuel : Nat) (hf : 65536 + 14 ≤ fuel) :
    let r := exec (scanOracle ans) fuel gs_cli_performRegisterScan (regScanEnv client isHoldingReg)
    let rt := regTypeOf isHoldingReg nameHR nameIR
    r.how = .returned ∧
    requests r.calls = (List.range 65536).map (fun (a : Nat) =>
      ("client.ReadRegister", [GoEval.Val.int a, GoEval.Val.int (regTypeArg isHoldingReg)])) ∧
    printed r.calls = scanLog rt ((List.range 65536).flatMap (fun (a : Nat) =>
      roundPrint rt [.sym fmtRegRow, .int a, .int a, (ans a).1, (ans a).1] a (ans a).2)) (nilCount ans 65536) ∧
    r.calls = scanLog rt ((List.range 65536).flatMap (regRoundCalls ans isHoldingReg rt)) (nilCount ans 65536) ∧
    Env.read? r.env "count" = some (.int (nilCount ans 65536 : Nat)) ∧
    regTypeArg true = const_HOLDING_REGISTER ∧ regTypeArg false = const_INPUT_REGISTER := by
  intro r rt
  obtain ⟨env', h0, hc⟩ := reg_run ans 65535 (by omega) isHoldingReg _ (regScanEnv_pre client isHoldingReg)
  have h : execW (fun _ => scanOracle ans) 65550 (scanWith "isHoldingReg" nameHR nameIR .u32 (regHead 65535))
      (regScanEnv client isHoldingReg) = ⟨env', .returned,
        scanLog rt ((List.range 65536).flatMap (regRoundCalls ans isHoldingReg rt)) (nilCount ans 65536)⟩ := h0
  have hr : r = ⟨env', .returned, scanLog rt ((List.range 65536).flatMap (regRoundCalls ans isHoldingReg rt))
      (nilCount ans 65536)⟩ := by
    show exec _ fuel _ _ = _
    rw [← execW_const, regScan_shape]
    rw [execW_mono _ 65550 _ _ _ hf (by rw [h]; exact fun x => nomatch x)]
    exact h
  rw [hr]
  refine ⟨rfl, ?_, ?_, rfl, hc, rfl, rfl⟩
  · show requests (scanLog _ _ _) = _
    rw [requests_scanLog, reg_requests]
  · show printed (scanLog _ _ _) = _
    rw [printed_scanLog, reg_printed]

/-! ## 3. `performUnitIdScan` -/

/-- **UNIT ID SCAN.** For EVERY answer function `ans` (selected unit id ↦ (value, error symbol)), every
    fuel ≥ 256 + 18, `performUnitIdScan(client)`
    * returns;
    * its calls of methods of `client` are EXACTLY, for u = 0, 1, …, 255 in order:
      `client.SetUnitId(u)`, then ONE probe `client.ReadRegister(0, 1)` (1 = `modbus.INPUT_REGISTER`);
    * prints `starting unit id scan`; per unit id: the `ok` line (id twice) when the probe returned
      `nil`, illegal data address, illegal function or illegal data value (`unitPresent`: an
      exception reply of one of these three kinds counts as "device present"); NOTHING for
      `ErrRequestTimedOut` and for `ErrGWTargetFailedToRespond`; the line with the id (twice) and
      the error for anything else; finally the `found` line with the four counters: present,
      other errors, request timeouts, gateway timeouts (`unitCount`, classes 0 / 3 / 1 / 2);
    * leaves unit id 255 selected (`lastUnit`): the scan does not restore the unit id. -/
theorem C20N_unitIdScan (ans : Nat → GoEval.Val × String) (client : GoEval.Val) (fuel : Nat)
    (hf : 256 + 18 ≤ fuel) :
    let r := execW (unitWorld ans) fuel gs_cli_performUnitIdScan (unitScanEnv client)
    r.how = .returned ∧
    requests r.calls = (List.range 256).flatMap (fun (u : Nat) =>
      [("client.SetUnitId", [GoEval.Val.int u]), ("client.ReadRegister", [GoEval.Val.int 0, GoEval.Val.int 1])]) ∧
    printed r.calls =
      ("fmt.Println", [.sym fmtUnitStart]) :: (List.range 256).flatMap (fun u => unitPrint (ans u).2 u) ++
        [("fmt.Printf", [.sym fmtUnitFound, .int (unitCount ans 0 256), .int (unitCount ans 3 256),
          .int (unitCount ans 1 256), .int (unitCount ans 2 256)])] ∧
    r.calls = unitLog ((List.range 256).flatMap (fun u => unitRoundCalls (ans u).2 u))
      (unitCount ans 0 256) (unitCount ans 3 256) (unitCount ans 1 256) (unitCount ans 2 256) ∧
    lastUnit r.calls = .int 255 ∧
    (1 : Int) = const_INPUT_REGISTER := by
  intro r
  obtain ⟨hc, hz⟩ := unitScanEnv_pre client
  obtain ⟨env', h⟩ := unit_run ans _ hc hz
  have hr : r = ⟨env', .returned, unitLog ((List.range 256).flatMap (fun u => unitRoundCalls (ans u).2 u))
      (unitCount ans 0 256) (unitCount ans 3 256) (unitCount ans 1 256) (unitCount ans 2 256)⟩ := by
    show execW _ fuel _ _ = _
    rw [unitScan_shape, execW_mono _ (256 + 18) _ _ _ hf (by rw [h]; exact fun x => nomatch x)]
    exact h
  rw [hr]
  exact ⟨rfl, unit_requests ans 256 _ _ _ _, unit_printed ans 256 _ _ _ _, rfl,
    unit_lastUnit ans 255 _ _ _ _, rfl⟩

/-- which outcomes count as what, spelled out -/
theorem C20N_unit_classes (e : String) (u : Nat) :
    (e = "nil" ∨ e = symIDA ∨ e = symIFN ∨ e = symIDV →
      unitClass e = 0 ∧ unitPrint e u = [("fmt.Printf", [.sym fmtUnitOk, .int u, .int u])]) ∧
    (e = symRTO → unitClass e = 1 ∧ unitPrint e u = []) ∧
    (e = symGWT → unitClass e = 2 ∧ unitPrint e u = []) ∧
    (¬ (e = "nil" ∨ e = symIDA ∨ e = symIFN ∨ e = symIDV) → e ≠ symRTO → e ≠ symGWT →
      unitClass e = 3 ∧ unitPrint e u = [("fmt.Printf", [.sym fmtUnitErr, .int u, .int u, .sym e])]) := by
  refine ⟨?_, ?_, ?_, ?_⟩
  · intro h
    have hp : unitPresent e := h
    simp only [unitClass, unitPrint, hp, ↓reduceIte, and_self]
  · intro h; subst h
    simp only [unitClass, unitPrint, not_present_RTO, ↓reduceIte, and_self]
  · intro h; subst h
    simp only [unitClass, unitPrint, not_present_GWT, show ¬ symGWT = symRTO by decide, ↓reduceIte, and_self]
  · intro h h1 h2
    have hp : ¬ unitPresent e := h
    simp only [unitClass, unitPrint, hp, h1, h2, ↓reduceIte, and_self]

/-! ## 4. `performPing` -/

/-- **PING.** For EVERY `count : uint16`, every `interval`, every answer function `ans`
    (probe number ↦ (value, error symbol)) and durations `rtt`, every fuel ≥ count + 25,
    `performPing(client, count, interval)`
    * returns;
    * its calls of methods of `client` are EXACTLY `count` probes
      `client.ReadRegister(0x0000, 0)` (0 = `modbus.HOLDING_REGISTER`), nothing else: `count = 0` ⇒ no
      request at all;
    * `time.Sleep(interval)` is called after EVERY probe (after its line; also after the last one) iff
      `interval > 0`: `count` sleeps, none for `interval ≤ 0`;
    * the whole log: the `sending` line with `count`, `time.Now()`, per probe `time.Now()`, the probe,
      `time.Since(ts)`, its line (`ok` with the sequence number k+1 for `nil` / illegal data address /
      illegal function; `timeout` with the error for `ErrRequestTimedOut` /
      `ErrGWTargetFailedToRespond`; `error` with the error otherwise), the sleep; then the statistics
      line with `count`, the numbers of replies, transmission errors, timeouts (`pingOkCount`,
      `pingErrCount`, `pingToCount`: they add up to `count`) and the `rtt` line. -/
theorem C20N_ping (ans : Nat → GoEval.Val × String) (rtt : Nat → Int) (client : GoEval.Val) (count : U16)
    (interval : Int) (fuel : Nat) (hf : count.toNat + 25 ≤ fuel) :
    let n := count.toNat
    let r := execW (pingWorld ans rtt) fuel gs_cli_performPing (pingEnv client count interval)
    r.how = .returned ∧
    requests r.calls = List.replicate n ("client.ReadRegister", [.int 0, .int 0]) ∧
    sleeps r.calls = (if interval > 0 then List.replicate n ("time.Sleep", [.int interval]) else []) ∧
    r.calls = pingLog n ((List.range n).flatMap (pingRoundCalls ans interval))
      (pingOkCount ans n) (pingErrCount ans n) (pingToCount ans n) ∧
    printed r.calls =
      ("fmt.Printf", [.sym fmtPingStart, .int n]) :: (List.range n).map (fun k => pingLine (ans k).2 k) ++
        [("fmt.Printf", [.unk, .int n, .int (pingOkCount ans n), .int (pingErrCount ans n),
            .int (pingToCount ans n), .sym leafTotal]),
         ("fmt.Printf", [.sym fmtPingRtt, .sym leafMin, .sym leafAvg, .sym leafMax])] ∧
    pingOkCount ans n + pingErrCount ans n + pingToCount ans n = n ∧
    (0 : Int) = const_HOLDING_REGISTER := by
  intro n r
  have hn : n ≤ 65535 := by have := count.isLt; omega
  obtain ⟨hc, hz⟩ := pingEnv_pre client count interval
  obtain ⟨env', h⟩ := ping_run ans rtt n hn interval _ hc hz
  have hr : r = ⟨env', .returned, pingLog n ((List.range n).flatMap (pingRoundCalls ans interval))
      (pingOkCount ans n) (pingErrCount ans n) (pingToCount ans n)⟩ := by
    show execW _ fuel _ _ = _
    rw [ping_shape, execW_mono _ (n + 25) _ _ _ hf (by rw [h]; exact fun x => nomatch x)]
    exact h
  rw [hr]
  refine ⟨rfl, ping_requests ans interval n _ _ _, ping_sleeps ans interval n _ _ _, rfl,
    ping_printed ans interval n _ _ _, pingCount_sum ans n, rfl⟩

/-- where exactly the sleep is: the calls of one round -/
theorem C20N_ping_round (ans : Nat → GoEval.Val × String) (d : Int) (k : Nat) :
    pingRoundCalls ans d k =
      [("time.Now", []), ("client.ReadRegister", [.int 0, .int 0]), ("time.Since", [.sym "time.Now()"]),
       pingLine (ans k).2 k] ++ (if d > 0 then [("time.Sleep", [.int d])] else []) := rfl

/-! ## 5. `decodeString` -/

/-- **DECODE STRING.** For EVERY byte list (`len(in)` < 2^63), every fuel ≥ len + 11: the run of
    `decodeString` (the generated term with the leaf `in[idx]` re-bound by the removable probe,
    `stripProbe` gives the generated term back) returns; the assignments to `b` and `dec` are, for
    every input byte in order, `b = sanitize byte` then `dec = append(dec, b)`: the appended bytes
    are the input with every byte outside 0x20..0x7e replaced by `.` (0x2e), same length, same
    order; finally `out = string(dec)`; the indexes probed are 0..len (the last probe is the one of
    the exit round; its value is never read). -/
theorem C20N_decodeString (bs : Bytes) (hn : bs.length < 2^63) (fuel : Nat) (hf : bs.length + 11 ≤ fuel) :
    let r := exec (decodeOracle bs) fuel dsGs (decodeEnv bs)
    dsGs = withProbe "in[idx]" "#in[idx]" "idx" gs_cli_decodeString ∧
    stripProbe "#in[idx]" dsGs = gs_cli_decodeString ∧
    r.how = .returned ∧
    historyP isBD r.env = bs.flatMap (fun x =>
      [("b", GoEval.Val.int ((sanitize x).toNat : Nat)), ("dec", GoEval.Val.sym "append(dec, b)")]) ∧
    ((historyP isBD r.env).filter (fun p => p.1 == "b")).map (·.2) =
      (bs.map sanitize).map (fun x => GoEval.Val.int (x.toNat : Nat)) ∧
    (bs.map sanitize).length = bs.length ∧
    (∀ x : Byte, sanitize x = if 0x20 ≤ x.toNat ∧ x.toNat ≤ 0x7e then x else 0x2e) ∧
    Env.read? r.env "out" = some (.sym "string(dec)") ∧
    r.calls = (List.range (bs.length + 1)).map dsProbeCall := by
  intro r
  obtain ⟨env', h, hh, ho⟩ := ds_run bs hn (.sym "append(dec, b)") (decodeEnv bs) rfl rfl
  have hr : r = ⟨env', .returned, (List.range (bs.length + 1)).map dsProbeCall⟩ := by
    show exec _ fuel _ _ = _
    rw [← execW_const, execW_mono _ (bs.length + 11) _ _ _ hf (by rw [h]; exact fun x => nomatch x)]
    exact h
  rw [hr]
  have hh' : historyP isBD env' = bs.flatMap (fun x =>
      [("b", GoEval.Val.int ((sanitize x).toNat : Nat)), ("dec", GoEval.Val.sym "append(dec, b)")]) := by
    rw [hh]; rfl
  refine ⟨rfl, strip_dsGs, rfl, hh', ?_, by simp, fun _ => rfl, ho, rfl⟩
  show (List.filter _ (historyP isBD env')).map _ = _
  rw [hh']
  clear hh' hh ho h hr r hf hn
  induction bs with
  | nil => rfl
  | cons x rest ih =>
    simp only [List.flatMap_cons, List.cons_append, List.nil_append, List.filter_cons, List.map_cons] at ih ⊢
    simpa using ih

/-! ## 6. the gap of `C20R_unmodelled` closed -/

/-- **THE TOOL'S SCAN AND PING OPERATIONS.** `C20R_arm` / `C20R_unmodelled` (Props/C20SrcRun.lean): the
    arm of the run loop selected by op code 26 / 27 / 28 / 29 (`scanBools`, `scanRegisters`,
    `scanUnitId`, `ping`) makes ONE call, `performBoolScan(client, o.isCoil)` /
    `performRegisterScan(client, o.isHoldingReg)` / `performUnitIdScan(client)` /
    `performPing(client, o.quantity, o.duration)`, and no client call of its own. The generated
    callee, entered with its parameters (`Gen.gsParams`) bound to THOSE argument values, issues
    exactly: 65536 reads `client.ReadCoil(a)` resp. `client.ReadDiscreteInput(a)`, a = 0..65535;
    65536 reads `client.ReadRegister(a, 0 | 1)`; 256 × (`SetUnitId(u)`, `ReadRegister(0, 1)`);
    `o.quantity` × `ReadRegister(0, 0)` — whatever the device answers. -/
theorem C20N_closes_gap (g : GoOp) (env : Env) (e : String) (n : Int) (x : GoEval.Val)
    (ans : Nat → GoEval.Val × String) (rtt : Nat → Int) (fuel : Nat) (hf : 65536 + 24 ≤ fuel) :
    (∃ args, armNew { g with op := 26 } env e n x = [("performBoolScan", args)] ∧
      requests (exec (scanOracle ans) fuel gs_cli_performBoolScan
          (entryEnv "cli.performBoolScan" args boolScanLocals)).calls =
        (List.range 65536).map (fun (a : Nat) => (boolCallee g.isCoil, [GoEval.Val.int a]))) ∧
    (∃ args, armNew { g with op := 27 } env e n x = [("performRegisterScan", args)] ∧
      requests (exec (scanOracle ans) fuel gs_cli_performRegisterScan
          (entryEnv "cli.performRegisterScan" args regScanLocals)).calls =
        (List.range 65536).map (fun (a : Nat) =>
          ("client.ReadRegister", [GoEval.Val.int a, GoEval.Val.int (regTypeArg g.isHoldingReg)]))) ∧
    (∃ args, armNew { g with op := 28 } env e n x = [("performUnitIdScan", args)] ∧
      requests (execW (unitWorld ans) fuel gs_cli_performUnitIdScan
          (entryEnv "cli.performUnitIdScan" args unitScanLocals)).calls =
        (List.range 256).flatMap (fun (u : Nat) =>
          [("client.SetUnitId", [GoEval.Val.int u]),
           ("client.ReadRegister", [GoEval.Val.int 0, GoEval.Val.int 1])])) ∧
    (∃ args, armNew { g with op := 29 } env e n x = [("performPing", args)] ∧
      requests (execW (pingWorld ans rtt) fuel gs_cli_performPing
          (entryEnv "cli.performPing" args pingLocals)).calls =
        List.replicate g.quantity.toNat ("client.ReadRegister", [.int 0, .int 0])) ∧
    (∀ k, 26 ≤ k → k ≤ 29 → clientCalls (armNew { g with op := k } env e n x) = []) := by
  obtain ⟨_, _, _, h26, h27, h28, h29⟩ := C20R_unmodelled g env e n x
  refine ⟨⟨_, h26, ?_⟩, ⟨_, h27, ?_⟩, ⟨_, h28, ?_⟩, ⟨_, h29, ?_⟩, ?_⟩
  · exact (C20N_boolScan ans (.sym "client") g.isCoil fuel (by omega)).2.1
  · exact (C20N_registerScan ans (.sym "client") g.isHoldingReg fuel (by omega)).2.1
  · exact (C20N_unitIdScan ans (.sym "client") fuel (by omega)).2.1
  · have hq := g.quantity.isLt
    exact (C20N_ping ans rtt (.sym "client") g.quantity g.duration fuel (by omega)).2.1
  · intro k h1 h2
    have : k = 26 ∨ k = 27 ∨ k = 28 ∨ k = 29 := by omega
    rcases this with rfl | rfl | rfl | rfl <;> rfl

/-! ## 7. sensitivity -/

/-- a small device: address 0 and 3 answer, 1 does not exist, 2 times out -/
def tinyAns : Nat → GoEval.Val × String := fun a =>
  if a = 1 then (.unk, symIDA) else if a = 2 then (.unk, symRTO) else (.int 1, "nil")

def rc (a : Nat) : String × List GoEval.Val := ("client.ReadCoil", [.int a])

/-- THE TRUE TERM with the bound `0xffff` replaced by 3 (`reBound`, a term transformer; `reBound 65535`
    is the identity on it), run by the kernel: addresses 0, 1, 2, 3, each once; nothing printed for
    1, the failure line for 2, rows for 0 and 3; found 2 -/
theorem C20N_small_run :
    let r := exec (scanOracle tinyAns) 40 (reBound 3 "<=" gs_cli_performBoolScan) (boolScanEnv (.sym "client") true)
    r.how = .returned ∧ requests r.calls = [rc 0, rc 1, rc 2, rc 3] ∧
    printed r.calls =
      [("fmt.Printf", [.sym fmtStart, .sym nameCoil]),
       ("fmt.Printf", [.sym fmtBoolRow, .int 0, .int 0, .int 1]),
       ("fmt.Printf", [.sym fmtFail, .sym nameCoil, .int 2, .sym symRTO]),
       ("fmt.Printf", [.sym fmtBoolRow, .int 3, .int 3, .int 1]),
       ("fmt.Printf", [.sym fmtFound, .int 2, .sym nameCoil])] ∧
    reBound 65535 "<=" gs_cli_performBoolScan = gs_cli_performBoolScan := by
  refine ⟨?_, ?_, ?_, reBound_id.1⟩ <;> decide +kernel

/-- a scan that STOPS at the first error other than the two "not there" errors (`breakOnFail`)
    misses address 3 -/
theorem C20N_sensitive_stop_on_error :
    let r := exec (scanOracle tinyAns) 40 (breakOnFail (reBound 3 "<=" gs_cli_performBoolScan))
      (boolScanEnv (.sym "client") true)
    r.how = .returned ∧ requests r.calls = [rc 0, rc 1, rc 2] ∧
    requests r.calls ≠ [rc 0, rc 1, rc 2, rc 3] := by
  refine ⟨?_, ?_, ?_⟩ <;> decide +kernel

/-- `continue` WITHOUT the post statement (`dropPost`: the rendering before the fix of the
    translator): at the first "not there" address (1) the counter is not advanced, the same address
    is read again and again, the run is out of fuel (here 60; `C20N_sensitive_no_post`: any fuel) -/
theorem C20N_sensitive_no_post_small :
    let r := exec (scanOracle tinyAns) 60 (dropPost (reBound 3 "<=" gs_cli_performBoolScan))
      (boolScanEnv (.sym "client") true)
    r.how = .outOfFuel ∧ (requests r.calls).take 5 = [rc 0, rc 1, rc 1, rc 1, rc 1] ∧
    (requests r.calls).all (fun c => c == rc 0 || c == rc 1) = true := by
  refine ⟨?_, ?_, ?_⟩ <;> decide +kernel

/-- the same for the full address space, EVERY device with at least one address answered with illegal
    data address / illegal function, EVERY fuel: the run never returns -/
theorem C20N_sensitive_no_post (ans : Nat → GoEval.Val × String) (client : GoEval.Val) (isCoil : Bool)
    (a0 : Nat) (h0 : a0 ≤ 65535) (hnt : (ans a0).2 = symIDA ∨ (ans a0).2 = symIFN) (fuel : Nat) :
    (exec (scanOracle ans) fuel (dropPost gs_cli_performBoolScan) (boolScanEnv client isCoil)).how
      = .outOfFuel := by
  have pre := boolScanEnv_pre client isCoil
  have hnt' : isNotThere (ans a0).2 = true := by
    rcases hnt with h | h <;> rw [h] <;> decide
  rw [dropPost_boolScan]
  show (execFrom _ fuel _ _ []).how = _
  rw [← execFromW_const]
  exact scanWith_diverges (scanWorld ans) (scanWorld_printf ans) "isCoil" nameCoil nameDI .u32 boolHeadNoPost
    isCoil _ pre.flag pre.nameT pre.nameE pre.fStart
    (fun n => boolNoPost_loop_diverges ans isCoil _ _ _ (pre.entry (by decide) (by decide) _) a0 h0 hnt' n) fuel

/-- `addr < 0xffff` instead of `addr <= 0xffff` misses the last address -/
theorem C20N_sensitive_lt :
    let r := exec (scanOracle tinyAns) 40 (reBound 3 "<" gs_cli_performBoolScan) (boolScanEnv (.sym "client") true)
    r.how = .returned ∧ requests r.calls = [rc 0, rc 1, rc 2] := by
  refine ⟨?_, ?_⟩ <;> decide +kernel

end Modbus.Props.C20

#print axioms Modbus.Props.C20.C20N_shapes
#print axioms Modbus.Props.C20.C20N_continue_rendering
#print axioms Modbus.Props.C20.C20N_params
#print axioms Modbus.Props.C20.C20N_boolScan
#print axioms Modbus.Props.C20.C20N_scan_lines
#print axioms Modbus.Props.C20.C20N_boolScan_u16_diverges
#print axioms Modbus.Props.C20.C20N_registerScan
#print axioms Modbus.Props.C20.C20N_unitIdScan
#print axioms Modbus.Props.C20.C20N_unit_classes
#print axioms Modbus.Props.C20.C20N_ping
#print axioms Modbus.Props.C20.C20N_ping_round
#print axioms Modbus.Props.C20.C20N_decodeString
#print axioms Modbus.Props.C20.C20N_closes_gap
#print axioms Modbus.Props.C20.C20N_small_run
#print axioms Modbus.Props.C20.C20N_sensitive_stop_on_error
#print axioms Modbus.Props.C20.C20N_sensitive_no_post_small
#print axioms Modbus.Props.C20.C20N_sensitive_no_post
#print axioms Modbus.Props.C20.C20N_sensitive_lt
