import ModbusVerif.Lemmas.GoEvalTlsLemmas
import ModbusVerif.Props.C09Src
import ModbusVerif.Props.C14
/-
  C14, source tie: "Modbus/TLS enforces mutual authentication in both directions", on the TYPED
  RENDERING of the current server.go / client.go (`Gen.gs_ModbusServer_startTLS`,
  `Gen.gs_ModbusServer_handleTCPClient`, `Gen.gs_ModbusClient_Open`, `Gen.gs_newTLSSockWrapper`,
  regenerated from /repo on every run), EVALUATED with Go semantics by `Modbus.GoEval` for every
  outcome of the external calls.

  ## What is proved

  Server, `startTLS` (oracle `GoEval.tlsSrvOracle dl hs tsock cstate enew role`: `tcpSock.SetDeadline`
  returns the error `dl`, `tlsSock.Handshake` the error `hs` ("nil" = success), `tls.Server` returns
  `tsock`, `tlsSock.ConnectionState` returns `cstate`, `errors.New` the error `enew`, `ms.extractRole`
  the ARBITRARY value `role`; `n` = `len(connState.PeerCertificates)`, any integer; entry environment:
  ANY environment binding the seven leaves the function reads, `GoEval.TlsSrvEnv`; every fuel ≥ 11):
  * `C14S_startTLS_run`      the whole run as one `if`-tree over the outcomes (from any call history);
  * `C14S_startTLS_outcome`  the run RETURNS; the final `err` is a symbol, and it is `nil` IFF
                             SetDeadline succeeded ∧ Handshake succeeded ∧ n ≠ 0 (given that `errors.New`
                             does not return nil); then `clientRole` is what `ms.extractRole` returned
                             (bound exactly once), `ms.extractRole` was called exactly once, with the value
                             of the leaf `connState.PeerCertificates[0]`, and `tlsSock` is what `tls.Server`
                             returned; otherwise `ms.extractRole` was NOT called and `clientRole` is not
                             bound at all (same value, same number of bindings as on entry);
  * `C14S_startTLS_order`    the call log, per outcome, is `[tcpSock.SetDeadline]`, or … `tls.Server`,
                             `tlsSock.Handshake`], or … `tlsSock.ConnectionState`, `errors.New`], or
                             … `tlsSock.ConnectionState`, `ms.extractRole`]: a prefix of the full sequence,
                             in exactly this order; `tls.Server` receives the value of the parameter
                             `tcpSock` and of the config-literal leaf;
  * `C14S_startTLS_static`   the six `bindCall`s of the term (targets, callee, argument leaf texts) — no
                             other call exists, in particular none on `tlsSock` / `tcpSock`: nothing is
                             read from or written to the connection before `Handshake`, and
                             `ConnectionState` comes after it —, the exact text of the `tls.Config`
                             literal, its fields read back (`ClientAuth: tls.RequireAndVerifyClientCert`,
                             `ClientCAs: ms.conf.TLSClientCAs`, `MinVersion: tls.VersionTLS12`), no
                             `InsecureSkipVerify`, agreement with the extracted literal
                             `Gen.tlsLit_ModbusServer_startTLS` that `C14_server_policy` judges, no opaque
                             statement, the parameter list.
  Server, `handleTCPClient` (on `GoEval.hGs`: the generated term with the probe instrumentation of
  Lemmas/GoEvalLifeLemmas — the index-dependent leaf `ms.tcpClients[i]` of the removal loop is re-bound
  from the client list and the VALUE of `i` at the head of every loop round; `C14S_server_instr`: nothing
  else differs; I did NOT cut the run before the loop: the WHOLE function is run, for every client list
  `l`, reusing `C09S_handleTCPClient`; the probes are pseudo-calls named `#ms.tcpClients[i]`, filtered out
  by `realCalls` / invisible to `argsOf` of a real callee):
  * `C14S_server_serves_iff` transport type 5, every result `(tsock, role, e)` of `ms.startTLS`:
                             `ms.handleTransport` is called IFF `e = nil`, then exactly once, with first
                             argument the value of the leaf `newTCPTransport(tlsSock, ms.conf.Timeout,
                             ms.conf.Logger)` and third argument the role `ms.startTLS` returned;
                             `ms.startTLS` is called exactly once, with `sock`; in every outcome
                             `sock.Close` is called exactly once and it is the LAST call;
  * `C14S_server_plain_tcp`  type 4: no `ms.startTLS`; `handleTransport(newTCPTransport(sock, …), …, "")`;
  * `C14S_server_other_types` any other type: neither is called, `sock.Close` only.
  Client, `Open` (oracle `GoEval.tlsCliOracle sk dial hs tr`; any environment `GoEval.TlsCliEnv`;
  every fuel ≥ 16):
  * `C14S_client_open_tls`   type 5: the run RETURNS; `mc.transport` is bound (once, to the result of
                             `newTCPTransport`, whose first argument is the value of the leaf
                             `newTLSSockWrapper(sock)`) IFF dial and handshake both succeeded; a failed
                             dial: nothing else is called; a failed handshake: `sock.Close`, `mc.transport`
                             NOT bound; final `err` nil iff both succeeded;
  * `C14S_client_open_static` the dial's argument leaves, the exact literal text, `RootCAs`,
                             `Certificates`, `MinVersion` read back, no `InsecureSkipVerify` (substring
                             test, kernel-evaluated), agreement with `Gen.tlsLit_ModbusClient_Open`;
                             `newTLSSockWrapper` wraps exactly its argument;
  * `C14S_plain_branches_no_tls` types 1, 2, 3, 4, 6, every outcome of the open / dial: the run returns
                             under an oracle that answers NO TLS callee (a TLS call would end the run
                             `stoppedAt`), the callees are the explicit plain lists; other types:
                             `ErrConfigurationError`, nothing called (`C14S_other_types_no_call`).
  Decision model (`Modbus.Tls`): the model has the verdict functions `serverHandshakeOk`,
  `clientHandshakeOk : Peer → Bool` (no `serverServes` / `clientSends`); the corollaries state the
  source-level "serves" / "installs a transport" in terms of them:
  * `C14S_server_matches_model`  `startTLS` run with Handshake outcome := `serverHandshakeOk p`, its three
                             named results handed to `handleTCPClient` as the results of `ms.startTLS`:
                             `ms.handleTransport` is called iff SetDeadline ok ∧ `serverHandshakeOk p` ∧
                             n ≠ 0 — with T-tls ("a successful handshake under RequireAndVerifyClientCert
                             has a peer certificate") iff SetDeadline ok ∧ `serverHandshakeOk p`; then with
                             the role `ms.extractRole` returned for the leaf certificate;
  * `C14S_client_matches_model`  `mc.transport` is bound iff `clientHandshakeOk p`, for every split of the
                             failure between `tls.DialWithDialer` and the explicit `Handshake`.
  Sensitivity (section "sensitivity"): variants DERIVED from the generated terms by `GoEval.tlsDropIte`
  (one `if` replaced by its else branch) are told apart from the source terms by a concrete outcome.

  ## What is modelled, not derived
  * The ANSWERS of the external calls (the oracles): what `tls.Server`, `Handshake`, `ConnectionState`,
    `ms.extractRole`, `tls.DialWithDialer`, `newTCPTransport` return is a parameter, quantified over.
    Errors are symbols (`.sym e`; `"nil"` = no error), as everywhere in GoEval. `errors.New` never
    returning nil is the hypothesis `enew ≠ "nil"` where it matters.
  * crypto/tls itself is TRUSTED: what a "successful Handshake" means under the given `tls.Config`
    (certificate-path validation against `ClientCAs` / `RootCAs`, proof of possession, version
    negotiation ≥ `MinVersion`) is T-tls of Props/C14Ext, sampled by the handshake matrix of the
    harness. Here: the literal is the one given, `Handshake` is called before anything else touches the
    connection, and nothing is served / sent unless it returned nil.
  * Leaves are keyed by their TEXT. `len(connState.PeerCertificates)`, `connState.PeerCertificates[0]`,
    `newTCPTransport(tlsSock, …)`, `newTLSSockWrapper(sock)` and the two `&tls.Config{…}` literals are
    single leaves whose value is given by the entry environment for the whole run, although the
    variable inside the text (`connState`, `tlsSock`, `sock`) is bound later by a call: the theorems
    read them as "the value this expression has at the point where it is evaluated" (`n`, `cert0`, `w`,
    `cfg` are arbitrary). That the text is the expression of the source is static (`*_static`).
  * `ms.startTLS` inside `handleTCPClient` is an oracle call; `C14S_server_matches_model` links the two
    functions by handing the final values of the named results `tlsSock, clientRole, err` of the
    `startTLS` run to that oracle (Go's call/return of named results).
  * `handleEnv` (Props/C09Src) binds every leaf of `handleTCPClient` to the symbol of its own text;
    sockets are integers.
  * locks, logging are dropped by the translator.

  No disagreement between source and property was found on any outcome. Note (not a violation): when
  `Handshake` fails `startTLS` returns the non-nil `tlsSock` together with the error; the only caller
  ignores it (`C14S_server_serves_iff`: no `handleTransport`, `sock.Close`).
-/
set_option linter.unusedSimpArgs false
set_option linter.unusedVariables false
set_option maxRecDepth 100000

namespace Modbus.Props.C14
open Modbus Modbus.Gen Modbus.GoEval Modbus.Lifecycle Modbus.Tls

/-- transport type constants of the package -/
theorem C14S_types : const_modbusTCPOverTLS = 5 ∧ const_modbusTCP = 4 ∧ const_modbusRTU = 1 ∧
    const_modbusRTUOverTCP = 2 ∧ const_modbusRTUOverUDP = 3 ∧ const_modbusTCPOverUDP = 6 := by decide

/-! ## 1. `startTLS` -/

/-- the calls of `startTLS`, in program order -/
def C14S_cSetDeadline (dlArg : Val) : String × List Val := ("tcpSock.SetDeadline", [dlArg])
def C14S_cServer (tcp cfg : Val) : String × List Val := ("tls.Server", [tcp, cfg])
def C14S_cHandshake : String × List Val := ("tlsSock.Handshake", [])
def C14S_cState : String × List Val := ("tlsSock.ConnectionState", [])

/-- **`startTLS`, the whole run, every outcome, every fuel ≥ 11, any entry environment and call
    history** -/
theorem C14S_startTLS_run (dl hs : String) (tsock cstate : Val) (enew : String) (role : Val)
    (env : Env) (cs : Calls) (tcp cfg dlArg : Val) (n : Int) (cert0 msg : Val)
    (he : TlsSrvEnv env tcp cfg dlArg n cert0 msg) (fuel : Nat) (hf : 11 ≤ fuel) :
    execFrom (tlsSrvOracle dl hs tsock cstate enew role) fuel gs_ModbusServer_startTLS env cs =
      if dl ≠ "nil" then
        ⟨Env.write env "err" (.sym dl), .returned, cs ++ [("tcpSock.SetDeadline", [dlArg])]⟩
      else if hs ≠ "nil" then
        ⟨Env.write (Env.write (Env.write env "err" (.sym dl)) "tlsSock" tsock) "err" (.sym hs), .returned,
          cs ++ [("tcpSock.SetDeadline", [dlArg]), ("tls.Server", [tcp, cfg]), ("tlsSock.Handshake", [])]⟩
      else if n = 0 then
        ⟨Env.write (Env.write (Env.write (Env.write (Env.write env "err" (.sym dl)) "tlsSock" tsock)
            "err" (.sym hs)) "connState" cstate) "err" (.sym enew), .returned,
          cs ++ [("tcpSock.SetDeadline", [dlArg]), ("tls.Server", [tcp, cfg]), ("tlsSock.Handshake", []),
            ("tlsSock.ConnectionState", []), ("errors.New", [msg])]⟩
      else
        ⟨Env.write (Env.write (Env.write (Env.write (Env.write env "err" (.sym dl)) "tlsSock" tsock)
            "err" (.sym hs)) "connState" cstate) "clientRole" role, .returned,
          cs ++ [("tcpSock.SetDeadline", [dlArg]), ("tls.Server", [tcp, cfg]), ("tlsSock.Handshake", []),
            ("tlsSock.ConnectionState", []), ("ms.extractRole", [cert0])]⟩ :=
  execFrom_ge _ (tlsSrv_run dl hs tsock cstate enew role env cs tcp cfg dlArg n cert0 msg he)
    (by repeat' split
        all_goals exact fun h => nomatch h) fuel hf

/-- **outcome of `startTLS`.** The run RETURNS (never stuck, never stopped); the final `err` is a
    symbol `e`, and `e = nil` IFF SetDeadline succeeded ∧ Handshake succeeded ∧ n ≠ 0. In that case
    `clientRole` is the value `ms.extractRole` returned, bound exactly once; `ms.extractRole` was
    called exactly once, with the value of the leaf `connState.PeerCertificates[0]`; `tlsSock` is what
    `tls.Server` returned. Otherwise `ms.extractRole` was NOT called and `clientRole` is unassigned:
    same value and same number of bindings as on entry. -/
theorem C14S_startTLS_outcome (dl hs : String) (tsock cstate : Val) (enew : String)
    (henew : enew ≠ "nil") (role : Val)
    (env : Env) (tcp cfg dlArg : Val) (n : Int) (cert0 msg : Val)
    (he : TlsSrvEnv env tcp cfg dlArg n cert0 msg) (fuel : Nat) (hf : 11 ≤ fuel) :
    let r := exec (tlsSrvOracle dl hs tsock cstate enew role) fuel gs_ModbusServer_startTLS env
    r.how = .returned ∧
    (∃ e, Env.read? r.env "err" = some (.sym e) ∧ (e = "nil" ↔ (dl = "nil" ∧ hs = "nil" ∧ n ≠ 0))) ∧
    ((dl = "nil" ∧ hs = "nil" ∧ n ≠ 0) →
      Env.read? r.env "clientRole" = some role ∧
      writes "clientRole" r.env = writes "clientRole" env + 1 ∧
      r.argsOf "ms.extractRole" = [[cert0]] ∧
      Env.read? r.env "tlsSock" = some tsock) ∧
    (¬(dl = "nil" ∧ hs = "nil" ∧ n ≠ 0) →
      r.called "ms.extractRole" = false ∧
      Env.read? r.env "clientRole" = Env.read? env "clientRole" ∧
      writes "clientRole" r.env = writes "clientRole" env) := by
  intro r
  have hr : r = _ := C14S_startTLS_run dl hs tsock cstate enew role env [] tcp cfg dlArg n cert0 msg he fuel hf
  by_cases hd : dl = "nil"
  · by_cases hh : hs = "nil"
    · by_cases hn : n = 0
      · simp only [hd, hh, hn, ne_eq, not_true_eq_false, ↓reduceIte] at hr
        rw [hr]
        refine ⟨rfl, ⟨enew, by simp only [read?_write, ↓reduceIte], by simp [henew, hn]⟩,
          fun h => absurd hn h.2.2, fun _ => ⟨by simp [Res.called], ?_, ?_⟩⟩
        · simp only [read?_write, String.reduceEq, ↓reduceIte]
        · simp only [writes_write, String.reduceEq, ↓reduceIte, Nat.add_zero]
      · simp only [hd, hh, hn, ne_eq, not_true_eq_false, ↓reduceIte] at hr
        rw [hr]
        refine ⟨rfl, ⟨"nil", by simp only [read?_write, String.reduceEq, ↓reduceIte, hh], by simp [hd, hh, hn]⟩,
          fun _ => ⟨?_, ?_, by simp [Res.argsOf], ?_⟩, fun h => absurd ⟨hd, hh, hn⟩ h⟩
        · simp only [read?_write, ↓reduceIte]
        · simp only [writes_write, String.reduceEq, ↓reduceIte, Nat.add_zero]
        · simp only [read?_write, String.reduceEq, ↓reduceIte]
    · simp only [hd, hh, ne_eq, not_true_eq_false, not_false_eq_true, ↓reduceIte] at hr
      rw [hr]
      refine ⟨rfl, ⟨hs, by simp only [read?_write, ↓reduceIte], by simp [hh]⟩,
        fun h => absurd h.2.1 hh, fun _ => ⟨by simp [Res.called], ?_, ?_⟩⟩
      · simp only [read?_write, String.reduceEq, ↓reduceIte]
      · simp only [writes_write, String.reduceEq, ↓reduceIte, Nat.add_zero]
  · simp only [hd, ne_eq, not_false_eq_true, ↓reduceIte] at hr
    rw [hr]
    refine ⟨rfl, ⟨dl, by simp only [read?_write, ↓reduceIte], by simp [hd]⟩,
      fun h => absurd h.1 hd, fun _ => ⟨by simp [Res.called], ?_, ?_⟩⟩
    · simp only [read?_write, String.reduceEq, ↓reduceIte]
    · simp only [writes_write, String.reduceEq, ↓reduceIte, Nat.add_zero]

/-- the full call sequence of a successful `startTLS` (callee names) -/
def C14S_fullOrder (last : String) : List String :=
  ["tcpSock.SetDeadline", "tls.Server", "tlsSock.Handshake", "tlsSock.ConnectionState", last]

/-- **order of the calls of `startTLS`**, per outcome: the explicit call log (callee, argument
    values). It is always a prefix of `SetDeadline, tls.Server, Handshake, ConnectionState,
    (errors.New | ms.extractRole)`: `Handshake` directly follows `tls.Server` (no call in between: nothing
    is read from the connection first), `ConnectionState` and `extractRole` come only after a
    successful `Handshake`; `tls.Server` is called with the value of the parameter `tcpSock` and the
    value of the config-literal leaf (`C14S_startTLS_static`: these are the argument expressions). -/
theorem C14S_startTLS_order (dl hs : String) (tsock cstate : Val) (enew : String) (role : Val)
    (env : Env) (tcp cfg dlArg : Val) (n : Int) (cert0 msg : Val)
    (he : TlsSrvEnv env tcp cfg dlArg n cert0 msg) (fuel : Nat) (hf : 11 ≤ fuel) :
    let r := exec (tlsSrvOracle dl hs tsock cstate enew role) fuel gs_ModbusServer_startTLS env
    (dl ≠ "nil" → r.calls = [C14S_cSetDeadline dlArg]) ∧
    (dl = "nil" → hs ≠ "nil" →
      r.calls = [C14S_cSetDeadline dlArg, C14S_cServer tcp cfg, C14S_cHandshake]) ∧
    (dl = "nil" → hs = "nil" → n = 0 →
      r.calls = [C14S_cSetDeadline dlArg, C14S_cServer tcp cfg, C14S_cHandshake, C14S_cState,
        ("errors.New", [msg])]) ∧
    (dl = "nil" → hs = "nil" → n ≠ 0 →
      r.calls = [C14S_cSetDeadline dlArg, C14S_cServer tcp cfg, C14S_cHandshake, C14S_cState,
        ("ms.extractRole", [cert0])]) ∧
    (r.calls.map (·.1) <+: C14S_fullOrder "errors.New" ∨
      r.calls.map (·.1) <+: C14S_fullOrder "ms.extractRole") := by
  intro r
  have hr : r = _ := C14S_startTLS_run dl hs tsock cstate enew role env [] tcp cfg dlArg n cert0 msg he fuel hf
  by_cases hd : dl = "nil"
  · by_cases hh : hs = "nil"
    · by_cases hn : n = 0
      · simp only [hd, hh, hn, ne_eq, not_true_eq_false, ↓reduceIte] at hr
        rw [hr]
        exact ⟨fun h => absurd hd h, fun _ h => absurd hh h, fun _ _ _ => rfl, fun _ _ h => absurd hn h,
          Or.inl ⟨[], rfl⟩⟩
      · simp only [hd, hh, hn, ne_eq, not_true_eq_false, ↓reduceIte] at hr
        rw [hr]
        exact ⟨fun h => absurd hd h, fun _ h => absurd hh h, fun _ _ h => absurd h hn, fun _ _ _ => rfl,
          Or.inr ⟨[], rfl⟩⟩
    · simp only [hd, hh, ne_eq, not_true_eq_false, not_false_eq_true, ↓reduceIte] at hr
      rw [hr]
      exact ⟨fun h => absurd hd h, fun _ _ => rfl, fun _ h => absurd h hh, fun _ h => absurd h hh,
        Or.inl ⟨["tlsSock.ConnectionState", "errors.New"], rfl⟩⟩
  · simp only [hd, ne_eq, not_false_eq_true, ↓reduceIte] at hr
    rw [hr]
    exact ⟨fun _ => rfl, fun h => absurd h hd, fun h => absurd h hd, fun h => absurd h hd,
      Or.inl ⟨["tls.Server", "tlsSock.Handshake", "tlsSock.ConnectionState", "errors.New"], rfl⟩⟩

/-- **static facts of `startTLS`**: its six `bindCall`s — targets, callee, argument leaf texts —
    and nothing else: no opaque statement, no further call (in particular no `Read` / `Write` /
    other call on `tlsSock` or `tcpSock`); `tls.Server` is given the parameter `tcpSock` and the literal
    `&tls.Config{ Certificates: []tls.Certificate{ *ms.conf.TLSServerCert, }, ClientCAs:
    ms.conf.TLSClientCAs, ClientAuth: tls.RequireAndVerifyClientCert, MinVersion: tls.VersionTLS12, }`;
    `ms.extractRole` is given `connState.PeerCertificates[0]`; the parameter list is `[tcpSock]`. -/
theorem C14S_startTLS_static :
    (bindCalls gs_ModbusServer_startTLS).map (fun b => (b.1, b.2.1, b.2.2.map leafText?)) =
      [(["err"], "tcpSock.SetDeadline", [some "time.Now().Add(30 * time.Second)"]),
       (["tlsSock"], "tls.Server", [some "tcpSock",
          some "&tls.Config{ Certificates: []tls.Certificate{ *ms.conf.TLSServerCert, }, ClientCAs: ms.conf.TLSClientCAs, ClientAuth: tls.RequireAndVerifyClientCert, MinVersion: tls.VersionTLS12, }"]),
       (["err"], "tlsSock.Handshake", []),
       (["connState"], "tlsSock.ConnectionState", []),
       (["err"], "errors.New", [some "\"no client certificate received\""]),
       (["clientRole"], "ms.extractRole", [some "connState.PeerCertificates[0]"])] ∧
    opaques gs_ModbusServer_startTLS = [] ∧
    assignedTo "clientRole" gs_ModbusServer_startTLS = [] ∧
    assignedTo "err" gs_ModbusServer_startTLS = [] ∧
    assignedTo "tlsSock" gs_ModbusServer_startTLS = [] ∧
    gsParams.lookup "ModbusServer.startTLS" = some ["tcpSock"] ∧
    tlsSrvConfigText = "&tls.Config{ Certificates: []tls.Certificate{ *ms.conf.TLSServerCert, }, ClientCAs: ms.conf.TLSClientCAs, ClientAuth: tls.RequireAndVerifyClientCert, MinVersion: tls.VersionTLS12, }" :=
  ⟨by decide +kernel, by decide +kernel, by decide +kernel, by decide +kernel, by decide +kernel,
    by decide +kernel, rfl⟩

/-- **the server's `tls.Config` literal, field by field** (read back from the leaf text): mutual
    authentication is REQUIRED and VERIFIED, the client CAs and the server certificate come from the
    configuration, TLS ≥ 1.2; no `InsecureSkipVerify`, no `VerifyPeerCertificate`, no
    `GetConfigForClient`, no `MaxVersion`; every field of the extracted literal
    `Gen.tlsLit_ModbusServer_startTLS` — the one `C14_server_policy` judges — has the same value
    expression in the leaf of the typed rendering. -/
theorem C14S_server_config :
    litField tlsSrvConfigText "ClientAuth" = some "tls.RequireAndVerifyClientCert" ∧
    litField tlsSrvConfigText "ClientCAs" = some "ms.conf.TLSClientCAs" ∧
    litField tlsSrvConfigText "MinVersion" = some "tls.VersionTLS12" ∧
    litField tlsSrvConfigText "Certificates" = some "[]tls.Certificate{ *ms.conf.TLSServerCert, }" ∧
    hasSub tlsSrvConfigText "InsecureSkipVerify" = false ∧
    hasSub tlsSrvConfigText "VerifyPeerCertificate" = false ∧
    hasSub tlsSrvConfigText "GetConfigForClient" = false ∧
    hasSub tlsSrvConfigText "MaxVersion" = false ∧
    tlsLit_ModbusServer_startTLS.all (fun f => litField tlsSrvConfigText f.1 == some f.2.1) = true ∧
    serverPolicyOk tlsLit_ModbusServer_startTLS = true :=
  ⟨by decide +kernel, by decide +kernel, by decide +kernel, by decide +kernel, by decide +kernel,
    by decide +kernel, by decide +kernel, by decide +kernel, by decide +kernel, C14_server_policy⟩

/-! ## 3. `handleTCPClient` -/

/-- the term that is evaluated: the generated `handleTCPClient` with the index-dependent leaf
    `ms.tcpClients[i]` re-bound by a probe at the head of every loop round; removing the probes gives
    the generated term back -/
theorem C14S_server_instr :
    hGs = withProbe "ms.tcpClients[i]" "#ms.tcpClients[i]" "i" gs_ModbusServer_handleTCPClient ∧
    stripProbe "#ms.tcpClients[i]" hGs = gs_ModbusServer_handleTCPClient :=
  ⟨rfl, strip_hGs⟩

/-- the call `ms.handleTransport(newTCPTransport(tlsSock, …), sock.RemoteAddr().String(), role)` -/
def C14S_serveTLS (role : Val) : String × List Val :=
  ("ms.handleTransport", [.sym "newTCPTransport(tlsSock, ms.conf.Timeout, ms.conf.Logger)",
    .sym "sock.RemoteAddr().String()", role])

/-- the call `ms.handleTransport(newTCPTransport(sock, …), sock.RemoteAddr().String(), "")` -/
def C14S_servePlain : String × List Val :=
  ("ms.handleTransport", [.sym "newTCPTransport(sock, ms.conf.Timeout, ms.conf.Logger)",
    .sym "sock.RemoteAddr().String()", .sym "\"\""])

/-- **the server serves a TLS peer iff `startTLS` returned no error.** Transport type 5
    (`modbusTCPOverTLS`), socket `c`, any client list `l`, EVERY result `(tsock, role, e)` of
    `ms.startTLS`, every fuel ≥ `l.length + 13`, the whole function: it returns; `ms.startTLS` is called
    exactly once, with `sock`; `ms.handleTransport` is called IFF `e = nil`, then exactly once, with
    first argument the value of the leaf `newTCPTransport(tlsSock, ms.conf.Timeout, ms.conf.Logger)`
    — the transport is built on the TLS socket `startTLS` returned, not on the raw socket — and third
    argument the role `startTLS` returned; in EVERY outcome `sock.Close` is called exactly once and is
    the last call of the run; the real calls in order. -/
theorem C14S_server_serves_iff (c : ConnId) (l : List ConnId) (tsock role : Val) (e : String)
    (hn : l.length < 2^62) (fuel : Nat) (hf : l.length + 13 ≤ fuel) :
    let r := exec (handleOracle l [tsock, role, .sym e]) fuel hGs (C09.handleEnv 5 c l)
    r.how = .returned ∧
    r.argsOf "ms.startTLS" = [[.int (c : Nat)]] ∧
    (r.called "ms.handleTransport" = true ↔ e = "nil") ∧
    r.argsOf "ms.handleTransport" = (if e = "nil" then [(C14S_serveTLS role).2] else []) ∧
    r.argsOf "sock.Close" = [[]] ∧
    r.calls.getLast? = some ("sock.Close", []) ∧
    realCalls "#ms.tcpClients[i]" r.calls =
      ("ms.startTLS", [.int (c : Nat)]) :: (if e = "nil" then [C14S_serveTLS role] else []) ++
        [("sock.Close", [])] := by
  obtain ⟨env', cnt, hrun, _, _⟩ := C09.C09S_handleTCPClient 5 c l tsock role e hn fuel hf
  have hd := (C09.C09S_dispatch 5 c l tsock role e hn fuel hf).2.1
  intro r
  have hr : r = _ := hrun
  have hd' : realCalls "#ms.tcpClients[i]" r.calls = C09.dispCalls 5 c role e ++ [("sock.Close", [])] := hd
  refine ⟨by rw [hr], ?_, ?_, ?_, ?_, ?_, ?_⟩
  · rw [hr]
    by_cases he : e = "nil" <;>
      simp [Res.argsOf, C09.dispCalls, he, List.filter_append, tls_filter_probeCalls]
  · rw [hr]
    by_cases he : e = "nil" <;>
      simp [Res.called, C09.dispCalls, he, List.any_append, tls_any_probeCalls]
  · rw [hr]
    by_cases he : e = "nil" <;>
      simp [Res.argsOf, C09.dispCalls, C14S_serveTLS, he, List.filter_append, tls_filter_probeCalls]
  · rw [hr]
    by_cases he : e = "nil" <;>
      simp [Res.argsOf, C09.dispCalls, he, List.filter_append, tls_filter_probeCalls]
  · rw [hr]
    exact List.getLast?_concat ..
  · rw [hd']
    by_cases he : e = "nil" <;> simp [C09.dispCalls, C14S_serveTLS, he]

/-- **plain TCP (type 4)**: `ms.startTLS` is NOT called; `ms.handleTransport` is called exactly once,
    on `newTCPTransport(sock, …)` with the empty role `""`; `sock.Close` once, last -/
theorem C14S_server_plain_tcp (c : ConnId) (l : List ConnId) (tsock role : Val) (e : String)
    (hn : l.length < 2^62) (fuel : Nat) (hf : l.length + 13 ≤ fuel) :
    let r := exec (handleOracle l [tsock, role, .sym e]) fuel hGs (C09.handleEnv 4 c l)
    r.how = .returned ∧
    r.called "ms.startTLS" = false ∧
    r.argsOf "ms.handleTransport" = [C14S_servePlain.2] ∧
    r.argsOf "sock.Close" = [[]] ∧
    r.calls.getLast? = some ("sock.Close", []) ∧
    realCalls "#ms.tcpClients[i]" r.calls = [C14S_servePlain, ("sock.Close", [])] := by
  obtain ⟨env', cnt, hrun, _, _⟩ := C09.C09S_handleTCPClient 4 c l tsock role e hn fuel hf
  have hd := (C09.C09S_dispatch 4 c l tsock role e hn fuel hf).2.2.1 rfl
  intro r
  have hr : r = _ := hrun
  refine ⟨by rw [hr], ?_, ?_, ?_, ?_, hd⟩
  · rw [hr]; simp [Res.called, C09.dispCalls, List.any_append, tls_any_probeCalls]
  · rw [hr]; simp [Res.argsOf, C09.dispCalls, C14S_servePlain, List.filter_append, tls_filter_probeCalls]
  · rw [hr]; simp [Res.argsOf, C09.dispCalls, List.filter_append, tls_filter_probeCalls]
  · rw [hr]; exact List.getLast?_concat ..

/-- **any other transport type**: neither `ms.startTLS` nor `ms.handleTransport` is called; the
    socket is closed -/
theorem C14S_server_other_types (tt : Int) (h4 : tt ≠ 4) (h5 : tt ≠ 5) (c : ConnId)
    (l : List ConnId) (tsock role : Val) (e : String)
    (hn : l.length < 2^62) (fuel : Nat) (hf : l.length + 13 ≤ fuel) :
    let r := exec (handleOracle l [tsock, role, .sym e]) fuel hGs (C09.handleEnv tt c l)
    r.how = .returned ∧
    r.called "ms.startTLS" = false ∧
    r.called "ms.handleTransport" = false ∧
    r.argsOf "sock.Close" = [[]] ∧
    realCalls "#ms.tcpClients[i]" r.calls = [("sock.Close", [])] := by
  obtain ⟨env', cnt, hrun, _, _⟩ := C09.C09S_handleTCPClient tt c l tsock role e hn fuel hf
  have hd := (C09.C09S_dispatch tt c l tsock role e hn fuel hf).2.2.2.2.2.1 h4 h5
  intro r
  have hr : r = _ := hrun
  refine ⟨by rw [hr], ?_, ?_, ?_, hd⟩
  · rw [hr]; simp [Res.called, C09.dispCalls, h4, h5, List.any_append, tls_any_probeCalls]
  · rw [hr]; simp [Res.called, C09.dispCalls, h4, h5, List.any_append, tls_any_probeCalls]
  · rw [hr]; simp [Res.argsOf, C09.dispCalls, h4, h5, List.filter_append, tls_filter_probeCalls]

/-- **static facts of `handleTCPClient`**: its four `bindCall`s; the TLS branch builds the transport
    on `tlsSock` (the leaf text `newTCPTransport(tlsSock, ms.conf.Timeout, ms.conf.Logger)`), passes
    `clientRole`; the plain branch builds it on `sock` and passes the literal `""`; `ms.startTLS` gets
    `sock` and binds `tlsSock, clientRole, err`; no opaque statement; the statements after the `switch`
    contain no call other than `sock.Close` -/
theorem C14S_server_static :
    (bindCalls gs_ModbusServer_handleTCPClient).map (fun b => (b.1, b.2.1, b.2.2.map leafText?)) =
      [([], "ms.handleTransport", [some "newTCPTransport(sock, ms.conf.Timeout, ms.conf.Logger)",
          some "sock.RemoteAddr().String()", some "\"\""]),
       (["tlsSock", "clientRole", "err"], "ms.startTLS", [some "sock"]),
       ([], "ms.handleTransport", [some "newTCPTransport(tlsSock, ms.conf.Timeout, ms.conf.Logger)",
          some "sock.RemoteAddr().String()", some "clientRole"]),
       ([], "sock.Close", [])] ∧
    opaques gs_ModbusServer_handleTCPClient = [] ∧
    assignedTo "clientRole" gs_ModbusServer_handleTCPClient = [] ∧
    assignedTo "err" gs_ModbusServer_handleTCPClient = [] ∧
    (bindCalls tailPart).map (·.2.1) = ["#ms.tcpClients[i]", "sock.Close"] :=
  ⟨by decide +kernel, by decide +kernel, by decide +kernel, by decide +kernel, by decide +kernel⟩

/-! ## 4. the client: `Open`, transport type 5 -/

/-- the dial call of the TLS branch -/
def C14S_cDial (dlr tcpS url cfg : Val) : String × List Val := ("tls.DialWithDialer", [dlr, tcpS, url, cfg])
def C14S_cCliHandshake : String × List Val := ("sock.(*tls.Conn).Handshake", [])

/-- **`Open`, type 5, the whole run, every outcome, every fuel ≥ 16, any environment and history** -/
theorem C14S_client_open_run (sk : Val) (dial hs : String) (tr : Val) (env : Env) (cs : Calls)
    (dlr tcpS url cfg w tmo lg : Val) (he : TlsCliEnv env dlr tcpS url cfg w tmo lg)
    (fuel : Nat) (hf : 16 ≤ fuel) :
    execFrom (tlsCliOracle sk dial hs tr) fuel gs_ModbusClient_Open env cs =
      if dial ≠ "nil" then
        ⟨Env.write (Env.write env "sock" sk) "err" (.sym dial), .returned,
          cs ++ [("tls.DialWithDialer", [dlr, tcpS, url, cfg])]⟩
      else if hs ≠ "nil" then
        ⟨Env.write (Env.write (Env.write env "sock" sk) "err" (.sym dial)) "err" (.sym hs), .returned,
          cs ++ [("tls.DialWithDialer", [dlr, tcpS, url, cfg]), ("sock.(*tls.Conn).Handshake", []),
            ("sock.Close", [])]⟩
      else
        ⟨Env.write (Env.write (Env.write (Env.write env "sock" sk) "err" (.sym dial)) "err" (.sym hs))
            "mc.transport" tr, .returned,
          cs ++ [("tls.DialWithDialer", [dlr, tcpS, url, cfg]), ("sock.(*tls.Conn).Handshake", []),
            ("newTCPTransport", [w, tmo, lg])]⟩ :=
  execFrom_ge _ (tlsCli_run sk dial hs tr env cs dlr tcpS url cfg w tmo lg he)
    (by repeat' split
        all_goals exact fun h => nomatch h) fuel hf

/-- **the client sends only after dial and handshake both succeeded.** Transport type 5, every
    outcome of `tls.DialWithDialer` (`dial`) and of the explicit `Handshake` (`hs`): the run RETURNS;
    the final `err` is nil iff both succeeded; `mc.transport` — without which no request can be sent —
    is bound IFF both succeeded, then exactly once, to the result of `newTCPTransport`, whose first
    argument is the value `w` of the leaf `newTLSSockWrapper(sock)` (not the raw socket `sk`); a
    failed dial: NOTHING else is called, `mc.transport` not bound; a failed handshake: `sock.Close` is
    called, no `newTCPTransport`, `mc.transport` NOT bound (same value, same number of bindings). -/
theorem C14S_client_open_tls (sk : Val) (dial hs : String) (tr : Val) (env : Env)
    (dlr tcpS url cfg w tmo lg : Val) (he : TlsCliEnv env dlr tcpS url cfg w tmo lg)
    (fuel : Nat) (hf : 16 ≤ fuel) :
    let r := exec (tlsCliOracle sk dial hs tr) fuel gs_ModbusClient_Open env
    r.how = .returned ∧
    (∃ e, Env.read? r.env "err" = some (.sym e) ∧ (e = "nil" ↔ (dial = "nil" ∧ hs = "nil"))) ∧
    (writes "mc.transport" r.env = writes "mc.transport" env + 1 ↔ (dial = "nil" ∧ hs = "nil")) ∧
    (r.called "newTCPTransport" = true ↔ (dial = "nil" ∧ hs = "nil")) ∧
    ((dial = "nil" ∧ hs = "nil") →
      Env.read? r.env "mc.transport" = some tr ∧
      r.calls = [C14S_cDial dlr tcpS url cfg, C14S_cCliHandshake, ("newTCPTransport", [w, tmo, lg])]) ∧
    (dial ≠ "nil" →
      r.calls = [C14S_cDial dlr tcpS url cfg] ∧
      Env.read? r.env "mc.transport" = Env.read? env "mc.transport" ∧
      writes "mc.transport" r.env = writes "mc.transport" env) ∧
    (dial = "nil" → hs ≠ "nil" →
      r.calls = [C14S_cDial dlr tcpS url cfg, C14S_cCliHandshake, ("sock.Close", [])] ∧
      Env.read? r.env "mc.transport" = Env.read? env "mc.transport" ∧
      writes "mc.transport" r.env = writes "mc.transport" env) := by
  intro r
  have hr : r = _ := C14S_client_open_run sk dial hs tr env [] dlr tcpS url cfg w tmo lg he fuel hf
  by_cases hd : dial = "nil"
  · by_cases hh : hs = "nil"
    · simp only [hd, hh, ne_eq, not_true_eq_false, ↓reduceIte] at hr
      rw [hr]
      refine ⟨rfl, ⟨"nil", by simp only [read?_write, String.reduceEq, ↓reduceIte, hh], by simp [hd, hh]⟩,
        by simp [writes_write, hd, hh], by simp [Res.called, hd, hh],
        fun _ => ⟨by simp only [read?_write, ↓reduceIte], rfl⟩, fun h => absurd hd h, fun _ h => absurd hh h⟩
    · simp only [hd, hh, ne_eq, not_true_eq_false, not_false_eq_true, ↓reduceIte] at hr
      rw [hr]
      refine ⟨rfl, ⟨hs, by simp only [read?_write, ↓reduceIte], by simp [hh]⟩,
        by simp [writes_write, hh], by simp [Res.called, hh],
        fun h => absurd h.2 hh, fun h => absurd hd h, fun _ _ => ⟨rfl, ?_, ?_⟩⟩
      · simp only [read?_write, String.reduceEq, ↓reduceIte]
      · simp only [writes_write, String.reduceEq, ↓reduceIte, Nat.add_zero]
  · simp only [hd, ne_eq, not_false_eq_true, ↓reduceIte] at hr
    rw [hr]
    refine ⟨rfl, ⟨dial, by simp only [read?_write, ↓reduceIte], by simp [hd]⟩,
      by simp [writes_write, hd], by simp [Res.called, hd],
      fun h => absurd h.1 hd, fun _ => ⟨rfl, ?_, ?_⟩, fun h => absurd h hd⟩
    · simp only [read?_write, String.reduceEq, ↓reduceIte]
    · simp only [writes_write, String.reduceEq, ↓reduceIte, Nat.add_zero]

/-- **static facts of the TLS branch of `Open`**: the only call of `tls.DialWithDialer` of the function
    binds `sock, err` and is given the dialer literal, `"tcp"`, `mc.conf.URL` and the literal
    `&tls.Config{ Certificates: []tls.Certificate{ *mc.conf.TLSClientCert, }, RootCAs:
    mc.conf.TLSRootCAs, MinVersion: tls.VersionTLS12, }`; the explicit handshake binds `err`; the
    transport constructors of the function and their first argument; no opaque statement;
    `mc.transport` is assigned nowhere else (only bound by the constructors) -/
theorem C14S_client_open_static :
    ((bindCalls gs_ModbusClient_Open).filter (fun b => b.2.1 == "tls.DialWithDialer")).map
        (fun b => (b.1, b.2.2.map leafText?)) =
      [(["sock", "err"], [some "&net.Dialer{ Deadline: time.Now().Add(15 * time.Second), }",
        some "\"tcp\"", some "mc.conf.URL",
        some "&tls.Config{ Certificates: []tls.Certificate{ *mc.conf.TLSClientCert, }, RootCAs: mc.conf.TLSRootCAs, MinVersion: tls.VersionTLS12, }"])] ∧
    ((bindCalls gs_ModbusClient_Open).filter (fun b => b.2.1 == "sock.(*tls.Conn).Handshake")).map
        (fun b => (b.1, b.2.2.map leafText?)) = [(["err"], [])] ∧
    ((bindCalls gs_ModbusClient_Open).filter (fun b => b.1 == ["mc.transport"])).map
        (fun b => (b.2.1, (b.2.2.map leafText?).headD none)) =
      [("newRTUTransport", some "spw"), ("newRTUTransport", some "sock"),
       ("newRTUTransport", some "newUDPSockWrapper(sock)"), ("newTCPTransport", some "sock"),
       ("newTCPTransport", some "newTLSSockWrapper(sock)"),
       ("newTCPTransport", some "newUDPSockWrapper(sock)")] ∧
    opaques gs_ModbusClient_Open = [] ∧
    assignedTo "mc.transport" gs_ModbusClient_Open = [] ∧
    tlsCliConfigText = "&tls.Config{ Certificates: []tls.Certificate{ *mc.conf.TLSClientCert, }, RootCAs: mc.conf.TLSRootCAs, MinVersion: tls.VersionTLS12, }" :=
  ⟨by decide +kernel, by decide +kernel, by decide +kernel, by decide +kernel, by decide +kernel, rfl⟩

/-- **the client's `tls.Config` literal**: the server is verified against the configured roots, the
    client certificate is presented, TLS ≥ 1.2; the literal contains NO `InsecureSkipVerify` (nor
    `VerifyPeerCertificate`, `VerifyConnection`, `ServerName`, `MaxVersion`): substring tests on the
    leaf text, evaluated by the kernel; agreement with the extracted literal that `C14_client_policy`
    judges -/
theorem C14S_client_config :
    litField tlsCliConfigText "RootCAs" = some "mc.conf.TLSRootCAs" ∧
    litField tlsCliConfigText "MinVersion" = some "tls.VersionTLS12" ∧
    litField tlsCliConfigText "Certificates" = some "[]tls.Certificate{ *mc.conf.TLSClientCert, }" ∧
    hasSub tlsCliConfigText "InsecureSkipVerify" = false ∧
    hasSub tlsCliConfigText "VerifyPeerCertificate" = false ∧
    hasSub tlsCliConfigText "VerifyConnection" = false ∧
    hasSub tlsCliConfigText "ServerName" = false ∧
    hasSub tlsCliConfigText "MaxVersion" = false ∧
    tlsLit_ModbusClient_Open.all (fun f => litField tlsCliConfigText f.1 == some f.2.1) = true ∧
    clientPolicyOk tlsLit_ModbusClient_Open = true :=
  ⟨by decide +kernel, by decide +kernel, by decide +kernel, by decide +kernel, by decide +kernel,
    by decide +kernel, by decide +kernel, by decide +kernel, by decide +kernel, C14_client_policy⟩

/-- `newTLSSockWrapper(sock)` wraps exactly its argument: the wrapper is the literal
    `&tlsSockWrapper{ sock: sock, }`, its parameter is `sock` -/
theorem C14S_wrapper_wraps_sock :
    assignedTexts "tsw" gs_newTLSSockWrapper = [some "&tlsSockWrapper{ sock: sock, }"] ∧
    litField "&tlsSockWrapper{ sock: sock, }" "sock" = some "sock" ∧
    bindCalls gs_newTLSSockWrapper = [] ∧ opaques gs_newTLSSockWrapper = [] ∧
    gsParams.lookup "newTLSSockWrapper" = some ["sock"] :=
  ⟨by decide +kernel, by decide +kernel, by decide +kernel, by decide +kernel, by decide +kernel⟩

/-! ## 5. the plain branches of `Open` -/

/-- no TLS callee in a list of callee names -/
def C14S_noTls (l : List String) : Bool :=
  l.all (fun f => !(f == "tls.DialWithDialer") && !(f == "sock.(*tls.Conn).Handshake") &&
    !(f == "tls.Server") && !(f == "tls.Dial") && !(f == "tls.Client") && !hasSub f "Handshake" &&
    !("tls.".toList.isPrefixOf f.toList))

theorem C14S_plain_lists_no_tls :
    ∀ tt ∈ [1, 2, 3, 4, 6], ∀ ok ∈ [true, false], C14S_noTls (tlsPlainCallees tt ok) = true := by
  decide +kernel

/-- **the plain transport types never touch TLS.** Types 1 (RTU), 2 (RTU over TCP), 3 (RTU over
    UDP), 4 (TCP), 6 (TCP over UDP), every outcome `e` of the open / dial, any environment, every
    fuel ≥ 16, under `tlsPlainOracle` — which answers NO TLS callee and no `sock.Close`, so a run that
    attempted one would end `stoppedAt` —: the run RETURNS, its callees are exactly
    `tlsPlainCallees tt (e = nil)`, none of which is a `tls.*` call or a `Handshake`; `mc.transport` is
    bound iff the open / dial succeeded. -/
theorem C14S_plain_branches_no_tls (spw sk : Val) (e : String) (tr : Val) (tt : Int)
    (htt : tt = 1 ∨ tt = 2 ∨ tt = 3 ∨ tt = 4 ∨ tt = 6) (env : Env)
    (hnil : Env.read? env "nil" = none)
    (ht : Env.read? env "mc.transportType" = some (.int tt)) (fuel : Nat) (hf : 16 ≤ fuel) :
    let r := exec (tlsPlainOracle spw sk e tr) fuel gs_ModbusClient_Open env
    r.how = .returned ∧
    r.calls.map (·.1) = tlsPlainCallees tt (decide (e = "nil")) ∧
    C14S_noTls (r.calls.map (·.1)) = true ∧
    r.called "tls.DialWithDialer" = false ∧ r.called "sock.(*tls.Conn).Handshake" = false ∧
    Env.read? r.env "mc.transport" = (if e = "nil" then some tr else Env.read? env "mc.transport") := by
  intro r
  obtain ⟨h1, h2, h3, _⟩ := tlsPlain_run spw sk e tr tt htt env [] hnil ht
  have hne : (execFrom (tlsPlainOracle spw sk e tr) 16 gs_ModbusClient_Open env []).how ≠ .outOfFuel := by
    rw [h1]; exact fun h => nomatch h
  have hr : r = execFrom (tlsPlainOracle spw sk e tr) 16 gs_ModbusClient_Open env [] :=
    execFrom_mono _ 16 fuel _ env [] hf hne
  rw [hr]
  have h2' : (execFrom (tlsPlainOracle spw sk e tr) 16 gs_ModbusClient_Open env []).calls.map (·.1) =
      tlsPlainCallees tt (decide (e = "nil")) := by simpa using h2
  have hmem : tt ∈ ([1, 2, 3, 4, 6] : List Int) := by
    rcases htt with h | h | h | h | h <;> subst h <;> decide
  have hno := C14S_plain_lists_no_tls tt hmem (decide (e = "nil")) (by cases decide (e = "nil") <;> decide)
  have hcalled : ∀ f, f ∉ tlsPlainCallees tt (decide (e = "nil")) →
      (execFrom (tlsPlainOracle spw sk e tr) 16 gs_ModbusClient_Open env []).called f = false := by
    intro f hf
    rw [← h2'] at hf
    simp only [Res.called, List.any_eq_false, beq_iff_eq]
    intro c hc hcf
    exact hf (List.mem_map.mpr ⟨c, hc, hcf⟩)
  refine ⟨h1, h2', by rw [h2']; exact hno, hcalled _ ?_, hcalled _ ?_, h3⟩
  · rcases htt with h | h | h | h | h <;> subst h <;> cases decide (e = "nil") <;> decide
  · rcases htt with h | h | h | h | h <;> subst h <;> cases decide (e = "nil") <;> decide

/-- any transport type outside 1 … 6: `err = ErrConfigurationError`, NOTHING is called (whatever the
    oracle would answer), `mc.transport` not bound -/
theorem C14S_other_types_no_call (o : Oracle) (tt : Int) (h1 : tt ≠ 1) (h2 : tt ≠ 2) (h3 : tt ≠ 3)
    (h4 : tt ≠ 4) (h5 : tt ≠ 5) (h6 : tt ≠ 6) (env : Env)
    (hcfg : Env.read? env "ErrConfigurationError" = none)
    (ht : Env.read? env "mc.transportType" = some (.int tt)) (fuel : Nat) (hf : 16 ≤ fuel) :
    exec o fuel gs_ModbusClient_Open env =
      ⟨Env.write env "err" (.sym "ErrConfigurationError"), .returned, []⟩ :=
  execFrom_ge _ (tlsOther_run o tt h1 h2 h3 h4 h5 h6 env [] hcfg ht) (fun h => nomatch h) fuel hf

/-! ## 6. link to the decision model `Modbus.Tls` -/

/-- the three named results `tlsSock, clientRole, err` of a finished run of `startTLS` -/
def C14S_startTLSResults (r : Res) : List Val :=
  [Env.read r.env "tlsSock", Env.read r.env "clientRole", Env.read r.env "err"]

/-- the error `Handshake` returns for peer `p` under T-tls: nil iff the model accepts the peer -/
def C14S_srvHs (p : Peer) (hsErr : String) : String := if serverHandshakeOk p = true then "nil" else hsErr
def C14S_cliHs (p : Peer) (hsErr : String) : String := if clientHandshakeOk p = true then "nil" else hsErr

/-- **server = model.** Peer `p`; `tlsSock.Handshake` fails (with any non-nil error `hsErr`) exactly
    when `serverHandshakeOk p = false` (T-tls, trusted); `startTLS` is run for every outcome of
    SetDeadline, every number `n` of peer certificates, every role; its named results are handed to
    `handleTCPClient` (type 5, any client list) as the results of `ms.startTLS`. Then the request
    loop `ms.handleTransport` is entered IFF SetDeadline succeeded ∧ `serverHandshakeOk p` ∧ `n ≠ 0`
    — under the second half of T-tls (a handshake that succeeded under `RequireAndVerifyClientCert`
    has a peer certificate) IFF SetDeadline succeeded ∧ `serverHandshakeOk p` —, and then exactly once,
    on the TLS socket, with the role `ms.extractRole` returned for the leaf certificate; in every case
    the socket is closed. -/
theorem C14S_server_matches_model (p : Peer) (dl hsErr : String) (hhs : hsErr ≠ "nil")
    (tsock cstate : Val) (enew : String) (henew : enew ≠ "nil") (role : Val)
    (env : Env) (tcp cfg dlArg : Val) (n : Int) (cert0 msg : Val)
    (he : TlsSrvEnv env tcp cfg dlArg n cert0 msg) (fuel1 : Nat) (hf1 : 11 ≤ fuel1)
    (c : ConnId) (l : List ConnId) (hn : l.length < 2^62) (fuel2 : Nat) (hf2 : l.length + 13 ≤ fuel2) :
    let r1 := exec (tlsSrvOracle dl (C14S_srvHs p hsErr) tsock cstate enew role) fuel1
      gs_ModbusServer_startTLS env
    let r2 := exec (handleOracle l (C14S_startTLSResults r1)) fuel2 hGs (C09.handleEnv 5 c l)
    r1.how = .returned ∧ r2.how = .returned ∧
    (r2.called "ms.handleTransport" = true ↔ (dl = "nil" ∧ serverHandshakeOk p = true ∧ n ≠ 0)) ∧
    ((serverHandshakeOk p = true → n ≠ 0) →
      (r2.called "ms.handleTransport" = true ↔ (dl = "nil" ∧ serverHandshakeOk p = true))) ∧
    (r2.called "ms.handleTransport" = true →
      r2.argsOf "ms.handleTransport" = [(C14S_serveTLS role).2] ∧ r1.argsOf "ms.extractRole" = [[cert0]]) ∧
    (serverHandshakeOk p = false → r2.argsOf "ms.handleTransport" = []) ∧
    r2.argsOf "sock.Close" = [[]] ∧ r2.calls.getLast? = some ("sock.Close", []) := by
  intro r1 r2
  obtain ⟨h0, ⟨e, herr, hiff⟩, hok, hfail⟩ :=
    C14S_startTLS_outcome dl (C14S_srvHs p hsErr) tsock cstate enew henew role env tcp cfg dlArg n cert0 msg
      he fuel1 hf1
  have hhsiff : C14S_srvHs p hsErr = "nil" ↔ serverHandshakeOk p = true := by
    unfold C14S_srvHs
    by_cases hp : serverHandshakeOk p = true <;> simp [hp, hhs]
  have herr' : Env.read r1.env "err" = .sym e := by
    show (Env.read? r1.env "err").getD .unk = _
    rw [show Env.read? r1.env "err" = some (.sym e) from herr]; rfl
  have hres : C14S_startTLSResults r1 = [Env.read r1.env "tlsSock", Env.read r1.env "clientRole", .sym e] := by
    simp only [C14S_startTLSResults, herr']
  obtain ⟨g0, _, g2, g3, g4, g5, _⟩ :=
    C14S_server_serves_iff c l (Env.read r1.env "tlsSock") (Env.read r1.env "clientRole") e hn fuel2 hf2
  have hr2 : r2 = exec (handleOracle l [Env.read r1.env "tlsSock", Env.read r1.env "clientRole", .sym e])
      fuel2 hGs (C09.handleEnv 5 c l) := by
    show exec (handleOracle l (C14S_startTLSResults r1)) fuel2 hGs (C09.handleEnv 5 c l) = _
    rw [hres]
  have hserve : r2.called "ms.handleTransport" = true ↔ (dl = "nil" ∧ serverHandshakeOk p = true ∧ n ≠ 0) := by
    rw [hr2, g2, hiff, hhsiff]
  refine ⟨h0, by rw [hr2]; exact g0, hserve, ?_, ?_, ?_, by rw [hr2]; exact g4, by rw [hr2]; exact g5⟩
  · intro ht
    rw [hserve]
    exact ⟨fun h => ⟨h.1, h.2.1⟩, fun h => ⟨h.1, h.2, ht h.2⟩⟩
  · intro hs
    have hcond := hserve.mp hs
    have hcond' : dl = "nil" ∧ C14S_srvHs p hsErr = "nil" ∧ n ≠ 0 := ⟨hcond.1, hhsiff.mpr hcond.2.1, hcond.2.2⟩
    obtain ⟨k1, _, k3, _⟩ := hok hcond'
    have hrole : Env.read r1.env "clientRole" = role := by
      show (Env.read? r1.env "clientRole").getD .unk = _
      rw [show Env.read? r1.env "clientRole" = some role from k1]; rfl
    have he : e = "nil" := hiff.mpr hcond'
    refine ⟨?_, k3⟩
    rw [hr2, g3, if_pos he, hrole]
  · intro hp
    have hne : ¬ e = "nil" := by
      intro he
      have := (hiff.mp he).2.1
      rw [hhsiff, hp] at this
      exact Bool.false_ne_true this
    rw [hr2, g3, if_neg hne]

/-- **client = model.** Peer (server) `p`; dial and explicit handshake together fail exactly when
    `clientHandshakeOk p = false` (T-tls; any split of the failure between `tls.DialWithDialer`, which
    already runs the handshake, and `Handshake()`): `mc.transport` is bound — a request can be sent
    at all — IFF `clientHandshakeOk p`; if not, the final `err` is non-nil and no transport was built. -/
theorem C14S_client_matches_model (p : Peer) (sk : Val) (dial hs : String) (tr : Val)
    (hT : (dial = "nil" ∧ hs = "nil") ↔ clientHandshakeOk p = true) (env : Env)
    (dlr tcpS url cfg w tmo lg : Val) (he : TlsCliEnv env dlr tcpS url cfg w tmo lg)
    (fuel : Nat) (hf : 16 ≤ fuel) :
    let r := exec (tlsCliOracle sk dial hs tr) fuel gs_ModbusClient_Open env
    r.how = .returned ∧
    (writes "mc.transport" r.env = writes "mc.transport" env + 1 ↔ clientHandshakeOk p = true) ∧
    (r.called "newTCPTransport" = true ↔ clientHandshakeOk p = true) ∧
    (clientHandshakeOk p = true → Env.read? r.env "mc.transport" = some tr ∧
      r.argsOf "newTCPTransport" = [[w, tmo, lg]] ∧ Env.read? r.env "err" = some (.sym "nil")) ∧
    (clientHandshakeOk p = false → Env.read? r.env "mc.transport" = Env.read? env "mc.transport" ∧
      writes "mc.transport" r.env = writes "mc.transport" env ∧
      ∃ e, e ≠ "nil" ∧ Env.read? r.env "err" = some (.sym e)) := by
  intro r
  obtain ⟨h0, ⟨e, herr, hiff⟩, hw, hc, hok, hdial, hhs⟩ :=
    C14S_client_open_tls sk dial hs tr env dlr tcpS url cfg w tmo lg he fuel hf
  refine ⟨h0, hw.trans hT, hc.trans hT, fun hp => ?_, fun hp => ?_⟩
  · obtain ⟨k1, k2⟩ := hok (hT.mpr hp)
    have k2' : r.calls = _ := k2
    refine ⟨k1, by simp [Res.argsOf, k2', C14S_cDial, C14S_cCliHandshake], ?_⟩
    have : e = "nil" := hiff.mpr (hT.mpr hp)
    rw [← this]; exact herr
  · have hnot : ¬ (dial = "nil" ∧ hs = "nil") := by
      intro h; have := hT.mp h; rw [hp] at this; exact Bool.false_ne_true this
    have hne : e ≠ "nil" := fun h => hnot (hiff.mp h)
    by_cases hd : dial = "nil"
    · have hh : hs ≠ "nil" := fun h => hnot ⟨hd, h⟩
      obtain ⟨_, k2, k3⟩ := hhs hd hh
      exact ⟨k2, k3, e, hne, herr⟩
    · obtain ⟨_, k2, k3⟩ := hdial hd
      exact ⟨k2, k3, e, hne, herr⟩

/-! ## 7. sensitivity

  Variants derived from the GENERATED terms by `tlsDropIte` (the k-th `if`, in program order, replaced
  by its else branch: the test is gone, what followed runs unconditionally) behave differently from the
  source terms on a concrete outcome: the theorems above are not vacuous, each test matters. -/
section sensitivity

/-- a concrete entry environment of `startTLS` with `n` peer certificates -/
def C14S_srvEnv (n : Int) : Env :=
  [("tcpSock", .sym "conn"), ("len(connState.PeerCertificates)", .int n),
   ("connState.PeerCertificates[0]", .sym "leaf"), ("clientRole", .sym "\"\""),
   (tlsSrvConfigText, .sym "cfg")]

def C14S_srvO (dl hs : String) : Oracle :=
  tlsSrvOracle dl hs (.sym "T") (.sym "S") "no client certificate received" (.sym "operator")

/-- the `if`s of the three functions, in the order `tlsDropIte` numbers them -/
theorem C14S_ite_numbering :
    (tlsIteConds gs_ModbusServer_startTLS).map varTexts =
      [["err", "nil"], ["err", "nil"], ["len(connState.PeerCertificates)"]] ∧
    ((tlsIteConds gs_ModbusServer_handleTCPClient).map varTexts).take 3 =
      [["ms.transportType"], ["ms.transportType"], ["err", "nil"]] ∧
    (((tlsIteConds gs_ModbusClient_Open).map varTexts).drop 8).take 3 =
      [["mc.transportType"], ["err", "nil"], ["err", "nil"]] := by decide +kernel

/-- the source term on the three failing outcomes: no role extracted, `err` non-nil -/
theorem C14S_sens_source :
    (exec (C14S_srvO "i/o timeout" "nil") 11 gs_ModbusServer_startTLS (C14S_srvEnv 1)).called "ms.extractRole" = false ∧
    (exec (C14S_srvO "nil" "bad certificate") 11 gs_ModbusServer_startTLS (C14S_srvEnv 1)).called "ms.extractRole" = false ∧
    (exec (C14S_srvO "nil" "nil") 11 gs_ModbusServer_startTLS (C14S_srvEnv 0)).called "ms.extractRole" = false ∧
    Env.read (exec (C14S_srvO "nil" "nil") 11 gs_ModbusServer_startTLS (C14S_srvEnv 0)).env "err" =
      .sym "no client certificate received" ∧
    (exec (C14S_srvO "nil" "nil") 11 gs_ModbusServer_startTLS (C14S_srvEnv 1)).calls.map (·.1) =
      C14S_fullOrder "ms.extractRole" ∧
    Env.read (exec (C14S_srvO "nil" "nil") 11 gs_ModbusServer_startTLS (C14S_srvEnv 1)).env "clientRole" =
      .sym "operator" := by decide +kernel

/-- variant: the `err != nil` test after `Handshake` removed — a peer whose handshake FAILED gets its
    role extracted (and `ConnectionState` is read) -/
theorem C14S_sens_no_handshake_test :
    (exec (C14S_srvO "nil" "bad certificate") 11 (tlsDropIte gs_ModbusServer_startTLS (some 1)).1
      (C14S_srvEnv 1)).called "ms.extractRole" = true ∧
    (tlsDropIte gs_ModbusServer_startTLS (some 1)).2 = none := by decide +kernel

/-- variant: the `len(connState.PeerCertificates) == 0` test removed — with NO peer certificate
    `startTLS` returns `err = nil` and a role -/
theorem C14S_sens_no_cert_test :
    (exec (C14S_srvO "nil" "nil") 11 (tlsDropIte gs_ModbusServer_startTLS (some 2)).1
      (C14S_srvEnv 0)).called "ms.extractRole" = true ∧
    Env.read (exec (C14S_srvO "nil" "nil") 11 (tlsDropIte gs_ModbusServer_startTLS (some 2)).1
      (C14S_srvEnv 0)).env "err" = .sym "nil" := by decide +kernel

/-- variant: the test after `SetDeadline` removed — the handshake is started without a deadline -/
theorem C14S_sens_no_deadline_test :
    (exec (C14S_srvO "i/o timeout" "nil") 11 (tlsDropIte gs_ModbusServer_startTLS (some 0)).1
      (C14S_srvEnv 1)).called "tlsSock.Handshake" = true ∧
    (exec (C14S_srvO "i/o timeout" "nil") 11 gs_ModbusServer_startTLS
      (C14S_srvEnv 1)).called "tlsSock.Handshake" = false := by decide +kernel

/-- variant: `handleTCPClient` with the `err != nil` test after `ms.startTLS` removed —
    `ms.handleTransport` is called although `startTLS` FAILED; the source term does not call it -/
theorem C14S_sens_serve_despite_error :
    (exec (handleOracle [7] [.sym "T", .sym "\"\"", .sym "bad certificate"]) 20
      (withProbe "ms.tcpClients[i]" "#ms.tcpClients[i]" "i"
        (tlsDropIte gs_ModbusServer_handleTCPClient (some 2)).1)
      (C09.handleEnv 5 7 [7])).called "ms.handleTransport" = true ∧
    (exec (handleOracle [7] [.sym "T", .sym "\"\"", .sym "bad certificate"]) 20 hGs
      (C09.handleEnv 5 7 [7])).called "ms.handleTransport" = false ∧
    (exec (handleOracle [7] [.sym "T", .sym "operator", .sym "nil"]) 20 hGs
      (C09.handleEnv 5 7 [7])).argsOf "ms.handleTransport" = [(C14S_serveTLS (.sym "operator")).2] := by
  decide +kernel

/-- a concrete entry environment of `Open`, transport type `tt` -/
def C14S_cliEnv (tt : Int) : Env :=
  [("mc.transportType", .int tt), ("newTLSSockWrapper(sock)", .sym "wrapped"),
   ("mc.conf.URL", .sym "host:802")]

/-- variant: `Open` with the test after the explicit `Handshake` removed — after a FAILED handshake a
    transport is installed; the source term closes the socket and installs nothing -/
theorem C14S_sens_client_no_handshake_test :
    Env.read? (exec (tlsCliOracle (.sym "S") "nil" "bad certificate" (.sym "TR")) 16
      (tlsDropIte gs_ModbusClient_Open (some 10)).1 (C14S_cliEnv 5)).env "mc.transport" = some (.sym "TR") ∧
    Env.read? (exec (tlsCliOracle (.sym "S") "nil" "bad certificate" (.sym "TR")) 16
      gs_ModbusClient_Open (C14S_cliEnv 5)).env "mc.transport" = none ∧
    (exec (tlsCliOracle (.sym "S") "nil" "bad certificate" (.sym "TR")) 16
      gs_ModbusClient_Open (C14S_cliEnv 5)).calls.map (·.1) =
      ["tls.DialWithDialer", "sock.(*tls.Conn).Handshake", "sock.Close"] := by decide +kernel

/-- variant: `Open` with the test after the dial removed — the handshake is attempted on the result
    of a failed dial -/
theorem C14S_sens_client_no_dial_test :
    (exec (tlsCliOracle (.sym "nil") "connection refused" "nil" (.sym "TR")) 16
      (tlsDropIte gs_ModbusClient_Open (some 9)).1 (C14S_cliEnv 5)).called "newTCPTransport" = true ∧
    (exec (tlsCliOracle (.sym "nil") "connection refused" "nil" (.sym "TR")) 16
      gs_ModbusClient_Open (C14S_cliEnv 5)).calls.map (·.1) = ["tls.DialWithDialer"] := by decide +kernel

/-- the plain TCP branch run under the TLS-branch oracle never reaches a TLS callee; the TLS branch
    run under the plain oracle STOPS at the dial (the plain oracle does not answer it): the two
    oracles do tell the branches apart -/
theorem C14S_sens_branches :
    (exec (tlsPlainOracle (.sym "P") (.sym "S") "nil" (.sym "TR")) 16 gs_ModbusClient_Open
      (C14S_cliEnv 5)).how = .stoppedAt "tls.DialWithDialer" [.unk, .unk, .sym "host:802", .unk] ∧
    (exec (tlsPlainOracle (.sym "P") (.sym "S") "nil" (.sym "TR")) 16 gs_ModbusClient_Open
      (C14S_cliEnv 4)).calls.map (·.1) = ["net.DialTimeout", "newTCPTransport"] := by decide +kernel

end sensitivity

end Modbus.Props.C14

#print axioms Modbus.Props.C14.C14S_types
#print axioms Modbus.Props.C14.C14S_startTLS_run
#print axioms Modbus.Props.C14.C14S_startTLS_outcome
#print axioms Modbus.Props.C14.C14S_startTLS_order
#print axioms Modbus.Props.C14.C14S_startTLS_static
#print axioms Modbus.Props.C14.C14S_server_config
#print axioms Modbus.Props.C14.C14S_server_instr
#print axioms Modbus.Props.C14.C14S_server_serves_iff
#print axioms Modbus.Props.C14.C14S_server_plain_tcp
#print axioms Modbus.Props.C14.C14S_server_other_types
#print axioms Modbus.Props.C14.C14S_server_static
#print axioms Modbus.Props.C14.C14S_client_open_run
#print axioms Modbus.Props.C14.C14S_client_open_tls
#print axioms Modbus.Props.C14.C14S_client_open_static
#print axioms Modbus.Props.C14.C14S_client_config
#print axioms Modbus.Props.C14.C14S_wrapper_wraps_sock
#print axioms Modbus.Props.C14.C14S_plain_lists_no_tls
#print axioms Modbus.Props.C14.C14S_plain_branches_no_tls
#print axioms Modbus.Props.C14.C14S_other_types_no_call
#print axioms Modbus.Props.C14.C14S_server_matches_model
#print axioms Modbus.Props.C14.C14S_client_matches_model
#print axioms Modbus.Props.C14.C14S_ite_numbering
#print axioms Modbus.Props.C14.C14S_sens_source
#print axioms Modbus.Props.C14.C14S_sens_no_handshake_test
#print axioms Modbus.Props.C14.C14S_sens_no_cert_test
#print axioms Modbus.Props.C14.C14S_sens_no_deadline_test
#print axioms Modbus.Props.C14.C14S_sens_serve_despite_error
#print axioms Modbus.Props.C14.C14S_sens_client_no_handshake_test
#print axioms Modbus.Props.C14.C14S_sens_client_no_dial_test
#print axioms Modbus.Props.C14.C14S_sens_branches
