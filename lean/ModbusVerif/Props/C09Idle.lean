import ModbusVerif.Model.IoTraceExt
import ModbusVerif.Lemmas.IoExtLemmas
/-
  Property C09, the idle clause: "a slot is released when a served client ... stays idle for the
  configured timeout (and not earlier than that timeout)".

  `Props/C09.lean` treats idle expiry as an environment step (`finish c .idleTimeout`) and says
  nothing about WHEN it may fire. Here the server side of the I/O-trace / symbolic-clock model:

    * tcp_transport.go `ReadRequest` = `SetDeadline(now + timeout)` ONCE, then the `Read` calls
      of one `readMBAPFrame` (`readRequestTrace`); one iteration of server.go `handleTransport`
      = `ReadRequest`, dispatch (no i/o), `WriteResponse` (`Iter`, `sessionTrace`); the
      iterations of the value-level model `Server.run` (`serverIters`, `serverTrace`).
    * I1  exactly one deadline per request read, armed before the header read, never inside a
          frame and never for the write alone (`C09I_deadline_per_request`, `…_server`).
    * I2  not early: under the converse runtime assumption A-deadline⁻ (`timeoutNotEarly`: a
          `Read` does not fail with the timeout error before the armed deadline) the
          `ReadRequest` that ends a session with the i/o timeout returns no earlier than `T`
          after it began; with A-deadline it returns exactly then (`C09I_idle_not_early`,
          `…_session`, `…_server`). With slack δ (TLS record layer, scheduling): within δ.
    * I3  re-armed: every iteration arms `T` relative to ITS OWN beginning, whatever deadline
          the previous iteration left (`C09I_idle_rearmed`); hence, in the timed abstraction
          `serveTimed`, a client that lets at most `T` pass between two requests is never
          dropped for idleness, and the drop comes no earlier than `T` after its last request
          arrived (`C09I_idle_rearmed_client`).

  Outside the theorems (assumptions on the Go runtime): A-deadline (`durOk`) and A-deadline⁻
  (`timeoutNotEarly`); local computation (decoding, the user's handler!) takes no time in the
  trace model - in `serveTimed` it is the explicit, arbitrary `proc` of each request.
  NOTE on what "idle" means in the code: the deadline also covers `WriteResponse` (net.Conn
  `SetDeadline` is read+write) and is armed when `ReadRequest` BEGINS, i.e. after the previous
  response was written - the time the handler takes does not count as idle time.
-/
namespace Modbus.Props.C09
open Modbus Modbus.Io

/-! ## I1. one deadline per request read -/

/-- any session (any views, any responses): the trace is the concatenation, iteration by
    iteration, of `SetDeadline(T)`, at most three `Read` calls (header, body, and the `Read` the
    stream's end cuts off) and at most one `Write`; so `SetDeadline` occurs exactly once per
    `ReadRequest`, in front of its first `Read`, and never between the reads of a frame -/
theorem C09I_deadline_per_request (T : Nat) (its : List Iter) :
    sessionTrace T its = its.flatMap (fun it =>
      .setDeadline T :: (mbapFrameReads it.view ++
        (match it.resp with | some L => [.write L] | none => []))) ∧
    (∀ it ∈ its, (∀ op ∈ mbapFrameReads it.view, op.isRead = true) ∧
      (mbapFrameReads it.view).length ≤ 3) ∧
    countDeadlines (sessionTrace T its) = its.length :=
  ⟨rfl, fun it _ => ⟨mbapFrameReads_isRead it.view, mbapFrameReads_length_le it.view⟩,
   countDeadlines_sessionTrace T its⟩

/-- the reads of `ReadRequest` are those of `readMBAPFrame` whatever transaction id a client
    would wait for; they take off the stream exactly what `Mbap.readFrame` consumes, and one of
    them hits the end of the stream exactly when `Mbap.readFrame` reports the ending error -/
theorem C09I_read_request_reads_one_frame (s : Bytes) (e : Ending) (txn : U16) :
    (mbapFrameStep txn s).ops = mbapFrameReads s ∧
    gotSum (mbapFrameReads s) + (Mbap.readFrame s e).2.length = s.length ∧
    (hasEnd (mbapFrameReads s) = true ↔ ∃ k, (Mbap.readFrame s e).1 = .err (Strm.shortErr k e)) ∧
    ((Mbap.readFrame s .timeout).1 = .err .ioTimeout ↔ hasEnd (mbapFrameReads s) = true) :=
  ⟨mbapFrameStep_ops txn s, gotSum_mbapFrameReads s e, hasEnd_mbapFrameReads s e,
   readFrame_timeout_iff s⟩

/-- the value-level server model `Server.run`: its trace has one `SetDeadline` per iteration;
    the frames written are the `respond` events, in order; every iteration but the last writes
    a response and the last one does not; so #deadlines = #responses + 1 -/
theorem C09I_deadline_per_request_server {σ : Type} (h : Server.Handler σ) (T : Nat) (st : σ)
    (s : Bytes) (e : Ending) :
    countDeadlines (serverTrace h T st s e) = (serverIters h st s e).length ∧
    writeLens (serverTrace h T st s e) = respondLens (Server.run h st s e).2 ∧
    (∃ pre v, serverIters h st s e = pre ++ [⟨v, none⟩] ∧ ∀ it ∈ pre, it.resp.isSome = true) ∧
    countDeadlines (serverTrace h T st s e) = (respondLens (Server.run h st s e).2).length + 1 := by
  have h1 := countDeadlines_sessionTrace T (serverIters h st s e)
  have h2 : writeLens (serverTrace h T st s e) = respondLens (Server.run h st s e).2 :=
    serverIters_writes h T e (s.length + 1) st s
  obtain ⟨pre, v, h3, h4, _⟩ := serverIters_shape h e (s.length + 1) st s (by omega)
  refine ⟨h1, h2, ⟨pre, v, h3, h4⟩, ?_⟩
  have hl : (writeLens (serverTrace h T st s e)).length = pre.length := by
    unfold serverTrace serverIters at *
    rw [h3, sessionTrace_append, writeLens_append]
    have : ∀ (l : List Iter), (∀ it ∈ l, it.resp.isSome = true) →
        (writeLens (sessionTrace T l)).length = l.length := by
      intro l
      induction l with
      | nil => intro _; rfl
      | cons it l ih =>
        intro hl
        rw [sessionTrace_cons, writeLens_append, writeLens_iterTrace, List.length_append,
          ih (fun x hx => hl x (List.mem_cons_of_mem _ hx))]
        have := hl it List.mem_cons_self
        cases hr : it.resp with
        | none => rw [hr] at this; cases this
        | some L => simp; omega
    rw [List.length_append, this pre h4, sessionTrace_cons, writeLens_append, writeLens_iterTrace]
    rfl
  have : (serverIters h st s e).length = pre.length + 1 := by
    unfold serverIters at *; rw [h3]; simp
  unfold serverTrace at *
  rw [h1, this, ← hl, h2]

/-! ## I2. not ended for idleness before the timeout -/

/-- one `ReadRequest` begun at `tS` on a connection whose peer is silent (or stalls inside a
    frame: `Mbap.readFrame` ends with the i/o timeout), whatever deadline was armed before:
    under A-deadline⁻ it returns - and the session ends with `ended .ioTimeout` - no earlier
    than `tS + T`; under A-deadline no later. The slot is released exactly `T` after the
    moment the last `ReadRequest` began. -/
theorem C09I_idle_not_early (ε T tS : Nat) (dl0 : Option Nat) (s : Bytes)
    (hto : (Mbap.readFrame s .timeout).1 = .err .ioTimeout)
    (durs : List (Io.Op × Nat)) (c' : Clock)
    (hmap : durs.map Prod.fst = readRequestTrace T s)
    (hrun : runWith (okSockIdle ε) ⟨tS, dl0⟩ durs = some c') :
    tS + T ≤ c'.now ∧ c'.now ≤ tS + T := by
  have hsd : SdOk (okSockIdle ε) := SdOk.mono (fun _ _ _ h => h.1) (sdOk_durOk ε)
  have hrs : Slack Io.Op.isRead 0 (okSockIdle ε) :=
    Slack.mono (fun _ _ _ h => h.1) (slack_durOk ε).reads
  exact ⟨readRequest_idle hsd (fun _ _ _ h => h.2) ((readFrame_timeout_iff s).mp hto) hmap hrun,
    (readRequest_run hsd hrs hmap hrun).2.2⟩

/-- with slack `δ` on the upper side (reads return by `deadline + δ`): within `[tS+T, tS+T+δ]` -/
theorem C09I_idle_not_early_slack (ε δ T tS : Nat) (dl0 : Option Nat) (s : Bytes)
    (hto : (Mbap.readFrame s .timeout).1 = .err .ioTimeout)
    (durs : List (Io.Op × Nat)) (c' : Clock)
    (hmap : durs.map Prod.fst = readRequestTrace T s)
    (hrun : runWith (okIdleδ ε δ) ⟨tS, dl0⟩ durs = some c') :
    tS + T ≤ c'.now ∧ c'.now ≤ tS + T + δ := by
  have hsd : SdOk (okIdleδ ε δ) := SdOk.mono (fun _ _ _ h => h.1) (sdOk_durOkδ ε δ)
  have hrs : Slack Io.Op.isRead δ (okIdleδ ε δ) :=
    Slack.mono (fun _ _ _ h => h.1) (slack_durOkδ ε δ).reads
  exact ⟨readRequest_idle hsd (fun _ _ _ h => h.2) ((readFrame_timeout_iff s).mp hto) hmap hrun,
    (readRequest_run hsd hrs hmap hrun).2.2⟩

/-- A-deadline⁻ is needed (and is an assumption on the runtime, not on the library): A-deadline
    alone lets the timed-out read return at once -/
theorem C09I_not_early_needs_assumption :
    runClock 0 ⟨5, none⟩ [(.setDeadline 100, 0), (.readEnd 7, 0)] = some ⟨5, some 105⟩ ∧
    runWith (okSockIdle 0) ⟨5, none⟩ [(.setDeadline 100, 0), (.readEnd 7, 0)] = none ∧
    runWith (okSockIdle 0) ⟨5, none⟩ [(.setDeadline 100, 0), (.readEnd 7, 100)] = some ⟨105, some 105⟩ := by
  decide

/-- a whole session, any number of answered requests first: if the `ReadRequest` of its last
    iteration ends with the i/o timeout, every run of the session's trace splits into the run
    of the earlier iterations, which ends at `cS` - the moment the last `ReadRequest` begins -
    and the run of that `ReadRequest`, which ends - with the session - at `cS.now + T` -/
theorem C09I_idle_not_early_session (ε T : Nat) (pre : List Iter) (v : Bytes)
    (hto : (Mbap.readFrame v .timeout).1 = .err .ioTimeout)
    (c0 c' : Clock) (durs : List (Io.Op × Nat))
    (hmap : durs.map Prod.fst = sessionTrace T (pre ++ [⟨v, none⟩]))
    (hrun : runWith (okSockIdle ε) c0 durs = some c') :
    ∃ dpre dlast cS, durs = dpre ++ dlast ∧ dpre.map Prod.fst = sessionTrace T pre ∧
      dlast.map Prod.fst = readRequestTrace T v ∧
      runWith (okSockIdle ε) c0 dpre = some cS ∧ runWith (okSockIdle ε) cS dlast = some c' ∧
      c0.now ≤ cS.now ∧ c'.now = cS.now + T := by
  have hsd : SdOk (okSockIdle ε) := SdOk.mono (fun _ _ _ h => h.1) (sdOk_durOk ε)
  have hrs : Slack Io.Op.isRead 0 (okSockIdle ε) :=
    Slack.mono (fun _ _ _ h => h.1) (slack_durOk ε).reads
  obtain ⟨dpre, dreq, drest, cS, cR, hd, h1, h2, h3, r1, r2, r3, hm, _, _, hle⟩ :=
    session_iter_run hsd hrs hmap hrun
  have hnil : drest.map Prod.fst = [] := by simpa [sessionTrace] using h3
  have hc : c' = cR := runWith_nil_inv hnil r3
  have hdn : drest = [] := by simpa using hnil
  subst hc hdn
  obtain ⟨tS, dlS⟩ := cS
  have hge := readRequest_idle hsd (fun _ _ _ h => h.2) ((readFrame_timeout_iff v).mp hto) h2 r2
  exact ⟨dpre, dreq, ⟨tS, dlS⟩, by simpa using hd, h1, h2, r1, r2, hm, by simp only at hge hle ⊢; omega⟩

/-- the value-level server model: whenever `Server.run` on a stream that ends with a timeout
    reports `ended .ioTimeout`, every run of its trace ends exactly `T` after the moment the
    last `ReadRequest` began (`cS`), and that `ReadRequest` is a suffix of the trace -/
theorem C09I_idle_not_early_server {σ : Type} (h : Server.Handler σ) (ε T : Nat) (st : σ)
    (s : Bytes) (hend : Server.Event.ended .ioTimeout ∈ (Server.run h st s .timeout).2)
    (c0 c' : Clock) (durs : List (Io.Op × Nat))
    (hmap : durs.map Prod.fst = serverTrace h T st s .timeout)
    (hrun : runWith (okSockIdle ε) c0 durs = some c') :
    ∃ dpre dlast cS v, durs = dpre ++ dlast ∧ dlast.map Prod.fst = readRequestTrace T v ∧
      runWith (okSockIdle ε) c0 dpre = some cS ∧ runWith (okSockIdle ε) cS dlast = some c' ∧
      c0.now ≤ cS.now ∧ c'.now = cS.now + T := by
  obtain ⟨pre, v, h1, _, h3⟩ := serverIters_shape h .timeout (s.length + 1) st s (by omega)
  have hto := h3 .ioTimeout hend
  unfold serverTrace serverIters at hmap
  rw [h1] at hmap
  obtain ⟨dpre, dlast, cS, g1, _, g3, g4, g5, g6, g7⟩ :=
    C09I_idle_not_early_session ε T pre v hto c0 c' durs hmap hrun
  exact ⟨dpre, dlast, cS, v, g1, g3, g4, g5, g6, g7⟩

/-! ## I3. the idle clock starts afresh with every request -/

/-- iteration `it` of any session, in any run (A-deadline, slack δ): let `cS` be the clock when
    its `ReadRequest` begins (after the previous response was written) and `cR` the clock when
    it returns. Whatever deadline the previous iterations left armed, the deadline during its
    reads is `cS.now + T` - relative to ITS OWN beginning - and it returns by `cS.now + T + δ`. -/
theorem C09I_idle_rearmed (ε δ T : Nat) (pre post : List Iter) (it : Iter) (c0 c' : Clock)
    (durs : List (Io.Op × Nat))
    (hmap : durs.map Prod.fst = sessionTrace T (pre ++ it :: post))
    (hrun : runWith (durOkδ ε δ) c0 durs = some c') :
    ∃ dpre dreq drest cS cR, durs = dpre ++ (dreq ++ drest) ∧
      dpre.map Prod.fst = sessionTrace T pre ∧ dreq.map Prod.fst = readRequestTrace T it.view ∧
      runWith (durOkδ ε δ) c0 dpre = some cS ∧ runWith (durOkδ ε δ) cS dreq = some cR ∧
      runWith (durOkδ ε δ) cR drest = some c' ∧
      c0.now ≤ cS.now ∧ cR.deadline = some (cS.now + T) ∧ cS.now ≤ cR.now ∧
      cR.now ≤ cS.now + T + δ := by
  obtain ⟨dpre, dreq, drest, cS, cR, hd, h1, h2, _, r1, r2, r3, g1, g2, g3, g4⟩ :=
    session_iter_run (sdOk_durOkδ ε δ) (slack_durOkδ ε δ).reads hmap hrun
  exact ⟨dpre, dreq, drest, cS, cR, hd, h1, h2, r1, r2, r3, g1, g2, g3, g4⟩

/-- what the `ReadRequest` that begins at `tS` sees of a request frame that is completely in the
    receive buffer at `a` (clocked outcomes, `Io.seen`): all of it iff `a ≤ tS + T` -/
theorem C09I_request_in_time_is_seen (T tS a : Nat) (req : Bytes) (e : Ending) :
    (a ≤ tS + T → seen tS (tS + T) a req e = (req, e)) ∧
    (tS + T < a → seen tS (tS + T) a req e = ([], .timeout)) := by
  unfold seen
  refine ⟨fun h => ?_, fun h => ?_⟩
  · rw [if_neg (by omega), if_pos h]
  · rw [if_neg (by omega), if_neg (by omega)]

/-- timed abstraction of the loop (`serveTimed`: the `ReadRequest` begun at `tS` arms `tS + T`;
    request `i` is in the buffer at `aᵢ`, its response written `procᵢ` after the read returned):
    a client whose first request comes within `T` of the start of the session and which never
    lets more than `T` pass between two requests gets ALL its requests answered, and the
    session is ended for idleness no earlier than `T` after its last request arrived -/
theorem C09I_idle_rearmed_client (T tS : Nat) (reqs : List (Nat × Nat)) (h : spaced T tS reqs) :
    (serveTimed T tS reqs).1 = reqs.length ∧
    lastArrival tS reqs + T ≤ (serveTimed T tS reqs).2 :=
  serveTimed_spaced T reqs tS h

/-- for every client: never ended for idleness before `T` after the session began -/
theorem C09I_idle_end_not_early (T tS : Nat) (reqs : List (Nat × Nat)) :
    tS + T ≤ (serveTimed T tS reqs).2 :=
  serveTimed_not_early T reqs tS

/-! ## non-vacuity -/

section examples

-- silence: ReadRequest = SetDeadline, one Read cut off by the deadline
example : readRequestTrace 30000000000 [] = [.setDeadline 30000000000, .readEnd 7] := by decide
-- a stall inside the body
example : readRequestTrace 1000 ((Mbap.assemble 7 ⟨1, 3, [0, 0, 0, 1]⟩).take 9) =
    [.setDeadline 1000, .read 7 7, .read 5 2, .readEnd 3] := by decide
example : (Mbap.readFrame ((Mbap.assemble 7 ⟨1, 3, [0, 0, 0, 1]⟩).take 9) .timeout).1 = .err .ioTimeout := by
  decide
example : (Mbap.readFrame [] .timeout).1 = .err .ioTimeout := by decide

-- two answered requests, then silence: three deadlines, none inside a frame
example : sessionTrace 1000 [⟨Mbap.assemble 7 ⟨1, 3, [0, 0, 0, 1]⟩, some 11⟩,
    ⟨Mbap.assemble 8 ⟨1, 3, [0, 0, 0, 1]⟩, some 11⟩, ⟨[], none⟩] =
    [.setDeadline 1000, .read 7 7, .read 5 5, .write 11,
     .setDeadline 1000, .read 7 7, .read 5 5, .write 11,
     .setDeadline 1000, .readEnd 7] := by decide

-- `C09I_idle_not_early_session`: T = 1000; first request answered at 400, second at 900;
-- the third ReadRequest begins at 910 and ends the session at 1910 = 910 + T
-- (NOT at 1000 = start of the session + T)
example : runWith (okSockIdle 0) ⟨0, none⟩
    [(.setDeadline 1000, 0), (.read 7 7, 390), (.read 5 5, 0), (.write 11, 10),
     (.setDeadline 1000, 0), (.read 7 7, 490), (.read 5 5, 0), (.write 11, 20),
     (.setDeadline 1000, 0), (.readEnd 7, 1000)] = some ⟨1910, some 1910⟩ := by decide
-- ... ending it one nanosecond earlier violates A-deadline⁻, one later A-deadline
example : runWith (okSockIdle 0) ⟨0, none⟩
    [(.setDeadline 1000, 0), (.read 7 7, 390), (.read 5 5, 0), (.write 11, 10),
     (.setDeadline 1000, 0), (.read 7 7, 490), (.read 5 5, 0), (.write 11, 20),
     (.setDeadline 1000, 0), (.readEnd 7, 999)] = none := by decide
example : runWith (okSockIdle 0) ⟨0, none⟩
    [(.setDeadline 1000, 0), (.read 7 7, 390), (.read 5 5, 0), (.write 11, 10),
     (.setDeadline 1000, 0), (.read 7 7, 490), (.read 5 5, 0), (.write 11, 20),
     (.setDeadline 1000, 0), (.readEnd 7, 1001)] = none := by decide

-- `C09I_idle_rearmed_client`: T = 100, requests at 50, 120, 190, 260 (one every 70 < 100):
-- all four answered, idle end at 361 ≥ 260 + 100; a server with ONE deadline for the whole
-- session would have dropped the client at 100 after one answer
example : spaced 100 0 [(50, 1), (120, 1), (190, 1), (260, 1)] := by decide
example : serveTimed 100 0 [(50, 1), (120, 1), (190, 1), (260, 1)] = (4, 361) := by decide
example : lastArrival 0 [(50, 1), (120, 1), (190, 1), (260, 1)] = 260 := by decide
example : serveTimedOnce 100 0 [(50, 1), (120, 1), (190, 1), (260, 1)] = (1, 100) := by decide
-- a gap of more than T: dropped, but not before T after the previous ReadRequest began
example : serveTimed 100 0 [(50, 1), (200, 1)] = (1, 151) := by decide

-- the value-level server: one valid request, then silence
example : (serverIters (σ := Unit)
    ⟨fun s _ => (s, .ok [true]), fun s _ => (s, .ok [true]), fun s _ => (s, .ok [0x1234]),
     fun s _ => (s, .ok [0x1234])⟩ () (Mbap.assemble 7 ⟨1, 3, [0, 0, 0, 1]⟩) .timeout) =
    [⟨Mbap.assemble 7 ⟨1, 3, [0, 0, 0, 1]⟩, some 11⟩, ⟨[], none⟩] := by decide +kernel

end examples

#print axioms C09I_deadline_per_request
#print axioms C09I_read_request_reads_one_frame
#print axioms C09I_deadline_per_request_server
#print axioms C09I_idle_not_early
#print axioms C09I_idle_not_early_slack
#print axioms C09I_not_early_needs_assumption
#print axioms C09I_idle_not_early_session
#print axioms C09I_idle_not_early_server
#print axioms C09I_idle_rearmed
#print axioms C09I_request_in_time_is_seen
#print axioms C09I_idle_rearmed_client
#print axioms C09I_idle_end_not_early

end Modbus.Props.C09
