import ModbusVerif.Lemmas.CliExtLemmas
import ModbusVerif.Props.C20
import ModbusVerif.Props.C04
/-
  Property C20, extension (closes the gaps an audit of the statements of Props/C20.lean found).

  "Each modbus-cli command (rc, rdi, rh, ri, wc, wr, sid, with any type, address, +count,
   endianness, word-order and unit-id option) issues exactly the requests documented in its help
   text: what it prints equals the device's contents at the addressed locations interpreted in
   the requested type, and what it writes lands in the addressed registers in the requested
   layout. Malformed commands are refused before any request is sent."

  Props/C20.lean stops at "the command makes the library call X"; here the library call is
  executed: the CLI model (`Modbus.Cli`) is composed with the closed loop of C04
  (`Modbus.System`: client model ∘ MBAP stream ∘ server model ∘ memory handler with memory `mem`).

  MODEL GLUE (Lemmas/CliExtLemmas.lean, section B; the same pipeline as `cliRun` in
  Driver/Main.lean, which the C20 harness compares with the real binary):
    `cmdsOf ops`      the run loop as a history of `System`: `sid` is `SetUnitId`, every other
                      modelled operation is its client call(s) (`Cli.execute`)
    `sessionCmds out` `cmdsOf` of the run list of an invocation that reaches the run loop; nothing
                      otherwise
    `sessionCfg k out` the client as `main` sets it up: transport `k` (from --target),
                      `SetEncoding(--endianness, --word-order)`, `SetUnitId(--unit-id)`
    `runWritten`      the frames `System.step` writes to the connection during a history

  SCOPE OF THE OPTIONS (cmd/modbus-cli.go, `main`).  --endianness, --word-order and --unit-id
  are `flag` options: they must precede the first command (Go's `flag.Parse` stops at the first
  non-flag argument; an option placed after a command is taken as a command and refused, exit
  status 2) and are GLOBAL: `client.SetEncoding` and `client.SetUnitId` are called once, after
  all arguments were parsed and before `client.Open` (lines 419–431).  Only the unit id can change
  afterwards: `sid:<n>` applies to the commands that FOLLOW it (`Cli.trace`, `nextUnit`).  In the
  model the options are the fields of `Invocation`; one `Cfg` (endianness × word order) holds for
  the whole session.  All end-to-end theorems below quantify over every such `Cfg`
  (`cfg.endian ≠ .invalid`, `cfg.word ≠ .invalid`: the four combinations `SetEncoding` accepts —
  `C20X_session_cfg` shows `invoke` produces only these), every unit id, every transaction
  counter and EVERY memory contents — so they apply to each command of a command line in the
  state the preceding commands left behind (`C20X_session_refines`).

  SPECIFICATION VOCABULARY (Lemmas/CliExtLemmas.lean):
    `UNumeral s n`, `SNumeral s z`  the numeral grammar (section 2 below)
    `Holds ty e w t a n v`  "v is the n values of type ty at address a of table t": value i
                      occupies 1/2/4 registers from a + 1/2/4·i and its documented layout
                      (`Spec.layout16/32/64 e w`, Spec/Layout.lean) is the content of these
                      registers (`Spec.wireImage`: two bytes per register, high byte first);
                      `bytes`: byte j is the high (LITTLE_ENDIAN: low) half of register a + j/2
                      for even j, the other half for odd j (`byteAt`)
    `valueLayout e w v`, `valueRegs v`  the documented register bytes / register count of a
                      `wr` value
    `wireSpec cfg txn calls`  the frames on the wire for a list of (unit id, library call):
                      `Spec.request` (C01) of every call within the limits, in order, with
                      consecutive transaction ids

  FLOATS.  `strconv.ParseFloat` is NOT modelled and not a parameter of the model either: the
  model's input convention (Model/Cli.lean) is that the <value> of `wr:float32/64` is the
  numeral of the IEEE-754 bit pattern Go's parser produced; the harness performs the
  substitution (harness/c20.go).  So the theorems of section 3 are relative to that oracle: they
  hold for EVERY bit pattern (NaN with any payload, ±Inf, −0 included) and say nothing about
  which spelling yields which pattern.

  Sections: 1 end to end (reads print contents, writes land, frame) · 2 numeral grammar for all
  strings · 3 floats · 4 +count / spans leaving the address space · 5 order and refusal ·
  6 printed values · 6b every argument string accepted iff documented form · 7 non-vacuity.

  Only statements live here; proofs are in Lemmas/CliExtLemmas.lean.
-/
namespace Modbus.Props.C20
open Modbus Modbus.Cli Modbus.Spec Modbus.CliLemmas Modbus.CliExt
open Modbus.Client (Op Cfg TState Val Kind)
open Modbus.System (Mem memHandler)
open Modbus.SystemLemmas (IsTcp)

/-! ## 1. end to end: reads print the device's contents, writes land -/

/-- `rh:<type>:<addr>[+n]` / `ri:…` (every type, every spelling) within the protocol limits,
    executed through the closed loop against a device with memory `mem`: the argument is
    accepted, the run loop makes one client call, and the VALUE that call returns — the value
    `printedLines` formats, one line per item — is the contents of the holding (input) registers
    `addr … addr + regs·(1+n) − 1` interpreted in the requested type under the session's byte and
    word order (`Holds`).  The device's memory is unchanged. -/
theorem C20X_read_prints_contents (holding : Bool) (ty : CliType) (a : U16) (e : Option U16)
    (sty : Style) (cfg : Cfg) (st : TState) (mem : Mem)
    (hk : IsTcp cfg.kind) (he : cfg.endian ≠ .invalid) (hw : cfg.word ≠ .invalid)
    (hp : st.pending = [])
    (hlim : ty.regsFor (count e) ≤ 125 ∧ a.toNat + ty.regsFor (count e) ≤ 65536) :
    ∃ o op v,
      parseArg (render (if holding then .readHolding ty a e else .readInput ty a e) sty) = .ok o ∧
      execute o = [op] ∧
      (System.step memHandler cfg st mem op).1.result = some (.ok v) ∧
      Holds ty cfg.endian cfg.word (if holding then mem.holding else mem.input)
        a.toNat (count e) v ∧
      (System.step memHandler cfg st mem op).2 = mem := by
  cases holding
  · obtain ⟨v, h1, h2, h3, _⟩ :=
      step_read_typed cfg st mem hk he hw hp ty a e 1 (.inr rfl) hlim
    refine ⟨_, _, v, parseArg_render (.readInput ty a e) sty trivial, ?_, h1, ?_, h3⟩
    · rw [execute_expected]; rfl
    · simpa using h2
  · obtain ⟨v, h1, h2, h3, _⟩ :=
      step_read_typed cfg st mem hk he hw hp ty a e 0 (.inl rfl) hlim
    refine ⟨_, _, v, parseArg_render (.readHolding ty a e) sty trivial, ?_, h1, ?_, h3⟩
    · rw [execute_expected]; rfl
    · simpa using h2

/-- `Holds` determines the value: the documented layouts are injective -/
theorem C20X_layout_injective (e : Endian) (w : WordOrder) (he : e ≠ .invalid)
    (hw : w ≠ .invalid) :
    (∀ x y : U16, layout16 e x = layout16 e y → x = y) ∧
    (∀ x y : U32, layout32 e w x = layout32 e w y → x = y) ∧
    (∀ x y : U64, layout64 e w x = layout64 e w y → x = y) :=
  ⟨fun _ _ h => layout16_inj e he h, fun _ _ h => layout32_inj e w he hw h,
   fun _ _ h => layout64_inj e w he hw h⟩

/-- `rc:<addr>[+n]` / `rdi:…` within the limits: the bits obtained are the coils (discrete
    inputs) `addr … addr + n` -/
theorem C20X_read_bits_prints_contents (coil : Bool) (a : U16) (e : Option U16) (sty : Style)
    (cfg : Cfg) (st : TState) (mem : Mem)
    (hk : IsTcp cfg.kind) (he : cfg.endian ≠ .invalid) (hw : cfg.word ≠ .invalid)
    (hp : st.pending = []) (hlim : count e ≤ 2000 ∧ a.toNat + count e ≤ 65536) :
    ∃ o op,
      parseArg (render (if coil then .readCoils a e else .readDiscrete a e) sty) = .ok o ∧
      execute o = [op] ∧
      (System.step memHandler cfg st mem op).1.result =
        some (.ok (.bools ((List.range (count e)).map
          (fun i => (if coil then mem.coils else mem.discrete) (a.toNat + i))))) ∧
      (System.step memHandler cfg st mem op).2 = mem := by
  have h := step_read_bools cfg st mem hk he hw hp coil a e hlim
  cases coil
  · refine ⟨_, _, parseArg_render (.readDiscrete a e) sty trivial, ?_, h.1, h.2.1⟩
    rw [execute_expected]; rfl
  · refine ⟨_, _, parseArg_render (.readCoils a e) sty trivial, ?_, h.1, h.2.1⟩
    rw [execute_expected]; rfl

/-- `wr:<type>:<addr>:<value>` (every type incl. negative values, floats as bit patterns,
    byte strings; every spelling) that fits the address space: accepted, one client call, it
    succeeds, and afterwards the holding registers `addr … addr + regs − 1` hold exactly the
    documented layout of the value (two bytes per register, high byte first) -/
theorem C20X_write_lands (a : U16) (v : CliValue) (sty : Style) (cfg : Cfg) (st : TState)
    (mem : Mem) (hk : IsTcp cfg.kind) (he : cfg.endian ≠ .invalid) (hw : cfg.word ≠ .invalid)
    (hp : st.pending = []) (hr : v.inRange)
    (hfit : 1 ≤ valueRegs v ∧ valueRegs v ≤ 123 ∧ a.toNat + valueRegs v ≤ 65536) :
    ∃ o op,
      parseArg (render (.writeReg a v) sty) = .ok o ∧ execute o = [op] ∧
      (System.step memHandler cfg st mem op).1.result = some (.ok .unit) ∧
      wireImage (window (System.step memHandler cfg st mem op).2.holding a.toNat (valueRegs v))
        = valueLayout cfg.endian cfg.word v := by
  have h := step_write_typed cfg st mem hk he hw hp a v hfit
  refine ⟨_, _, parseArg_render (.writeReg a v) sty hr, ?_, h.1, h.2.1⟩
  rw [execute_expected]; rfl

/-- … and every other address of the holding table, and the three other tables, are unchanged -/
theorem C20X_write_frame (a : U16) (v : CliValue) (sty : Style) (cfg : Cfg) (st : TState)
    (mem : Mem) (hk : IsTcp cfg.kind) (he : cfg.endian ≠ .invalid) (hw : cfg.word ≠ .invalid)
    (hp : st.pending = []) (hr : v.inRange)
    (hfit : 1 ≤ valueRegs v ∧ valueRegs v ≤ 123 ∧ a.toNat + valueRegs v ≤ 65536) :
    ∃ o op,
      parseArg (render (.writeReg a v) sty) = .ok o ∧ execute o = [op] ∧
      (∀ x, x < a.toNat ∨ a.toNat + valueRegs v ≤ x →
        (System.step memHandler cfg st mem op).2.holding x = mem.holding x) ∧
      (System.step memHandler cfg st mem op).2.coils = mem.coils ∧
      (System.step memHandler cfg st mem op).2.discrete = mem.discrete ∧
      (System.step memHandler cfg st mem op).2.input = mem.input := by
  have h := step_write_typed cfg st mem hk he hw hp a v hfit
  refine ⟨_, _, parseArg_render (.writeReg a v) sty hr, ?_, h.2.2.1, h.2.2.2.1, h.2.2.2.2.1,
    h.2.2.2.2.2.1⟩
  rw [execute_expected]; rfl

/-- the fit hypothesis is automatic for the numeric types except at the very top of the address
    space; for `bytes` it says 1 … 246 bytes -/
theorem C20X_value_regs (v : CliValue) :
    valueRegs v = v.ty.regsFor (match v with | .bytes bs => bs.length | _ => 1) ∧
    (v.ty ≠ .bytes → 1 ≤ valueRegs v ∧ valueRegs v ≤ 4) := by
  cases v <;> simp [valueRegs, CliValue.ty, CliType.regsFor]

/-- `wc:<addr>:<true|false>`: the coil is set to the value, nothing else changes -/
theorem C20X_write_coil_lands (a : U16) (b : Bool) (sty : Style) (cfg : Cfg) (st : TState)
    (mem : Mem) (hk : IsTcp cfg.kind) (he : cfg.endian ≠ .invalid) (hw : cfg.word ≠ .invalid)
    (hp : st.pending = []) :
    ∃ o op,
      parseArg (render (.writeCoil a b) sty) = .ok o ∧ execute o = [op] ∧
      (System.step memHandler cfg st mem op).1.result = some (.ok .unit) ∧
      (System.step memHandler cfg st mem op).2.coils a.toNat = b ∧
      (∀ x, x ≠ a.toNat → (System.step memHandler cfg st mem op).2.coils x = mem.coils x) ∧
      (System.step memHandler cfg st mem op).2.holding = mem.holding ∧
      (System.step memHandler cfg st mem op).2.discrete = mem.discrete ∧
      (System.step memHandler cfg st mem op).2.input = mem.input := by
  have h := step_write_coil cfg st mem hk he hw hp a b
  exact ⟨_, _, parseArg_render (.writeCoil a b) sty trivial, rfl, h⟩

/-- write, then read the same type at the same address (any numeric type, any spelling of either
    command): the run loop obtains the written value bit for bit; for the signed types the
    number printed is the number written -/
theorem C20X_write_then_read (a : U16) (v : CliValue) (sty1 sty2 : Style) (cfg : Cfg)
    (st : TState) (mem : Mem) (hk : IsTcp cfg.kind) (he : cfg.endian ≠ .invalid)
    (hw : cfg.word ≠ .invalid) (hp : st.pending = []) (hr : v.inRange) (hnb : v.ty ≠ .bytes)
    (hfit : a.toNat + valueRegs v ≤ 65536) :
    ∃ o1 o2,
      run [render (.writeReg a v) sty1, render (.readHolding v.ty a none) sty2] = .ok [o1, o2] ∧
      (System.run memHandler cfg st mem (cmdsOf [o1, o2])).1
        = [some (.ok .unit), some (.ok (readBack v))] := by
  have hrun := run_render [(.writeReg a v, sty1), (.readHolding v.ty a none, sty2)] (by
    intro p hp'
    simp only [List.mem_cons, List.not_mem_nil, or_false] at hp'
    rcases hp' with rfl | rfl
    · exact hr
    · show count none ≤ 65535; decide)
  refine ⟨_, _, hrun, ?_⟩
  have hregs : 1 ≤ valueRegs v ∧ valueRegs v ≤ 4 := (C20X_value_regs v).2 hnb
  have h1 := (step_write_typed cfg st mem hk he hw hp a v ⟨hregs.1, by omega, hfit⟩).1
  have h2 := step_write_read cfg st mem hk he hw hp a v hnb hfit
  have hc : cmdsOf [expectedOp (.writeReg a v), expectedOp (.readHolding v.ty a none)] =
      [.op (writeTyped a v), .op (readTyped v.ty a (count none) 0)] := by
    have e1 : execute (expectedOp (.writeReg a v)) = [writeTyped a v] := execute_expected _
    have e2 : execute (expectedOp (.readHolding v.ty a none)) = [readTyped v.ty a (count none) 0] :=
      execute_expected _
    have o1 := (opCmds_not_sid (expectedOp (.writeReg a v)) (by cases v <;> intro u h <;> cases h)).1
    have o2 := (opCmds_not_sid (expectedOp (.readHolding v.ty a none)) (by intro u h; cases h)).1
    simp [cmdsOf, o1, o2, e1, e2]
  show (System.run memHandler cfg st mem (cmdsOf [expectedOp _, expectedOp _])).1 = _
  rw [hc]
  simp only [System.run, System.exec]
  rw [h1, h2]

theorem C20X_read_back_signed (z : Int) :
    (-32768 ≤ z ∧ z ≤ 32767 → readBack (.int16 z) = .u16s [BitVec.ofInt 16 z] ∧
      (BitVec.ofInt 16 z).toInt = z) ∧
    (-2147483648 ≤ z ∧ z ≤ 2147483647 → readBack (.int32 z) = .u32s [BitVec.ofInt 32 z] ∧
      (BitVec.ofInt 32 z).toInt = z) ∧
    (-9223372036854775808 ≤ z ∧ z ≤ 9223372036854775807 →
      readBack (.int64 z) = .u64s [BitVec.ofInt 64 z] ∧ (BitVec.ofInt 64 z).toInt = z) :=
  ⟨fun h => ⟨rfl, toInt_ofInt_range (by omega) (by simp; omega)⟩,
   fun h => ⟨rfl, toInt_ofInt_range (by omega) (by simp; omega)⟩,
   fun h => ⟨rfl, toInt_ofInt_range (by omega) (by simp; omega)⟩⟩


/-! ## 2. the numeral grammar: a theorem about ALL strings

  Every numeric field of the CLI goes through `strconv.ParseUint(s, 0, bits)` (addresses,
  additional quantity, unsigned values, unit id: parseUint16/32/64, parseUnitId, lines 788–907 of
  cmd/modbus-cli.go) or `strconv.ParseInt(s, 0, bits)` (int16/32/64 values) — always base 0.
  The model transcribes Go 1.23 `strconv/atoi.go` including `underscoreOK`; it implements ALL of
  base 0 (prefixes 0x/0X 0b/0B 0o/0O, leading 0 = octal, underscores), so there is no
  model/implementation gap here.  The grammar below is written independently, from the Go
  language specification of integer literals:

    `Tail b acc s v`   s is a sequence of base-b digits, each optionally preceded by ONE
                       underscore; reading it from accumulator acc gives v (Horner)
    `UNumeral s n`     dec:  a digit 1–9, then `Tail 10`
                       oct:  `0`, then `Tail 8`              ("0", "017", "0_17")
                       bin / octP / hex:  `0b`|`0B`, `0o`|`0O`, `0x`|`0X`, then a NON-EMPTY
                                          `Tail 2 / 8 / 16` (hex digits of either case)
    `SNumeral s z`     a `UNumeral`, optionally preceded by ONE `+` or `-`

  (digit values: `Cli.digitVal`, '0'–'9' → 0–9, letters of either case → 10–35).  No other
  character is accepted anywhere: no spaces, no second sign, no non-ASCII digit, no exponent,
  no empty string. -/

/-- **`strconv.ParseUint(s, 0, bits)`** returns `n` without error iff `s` is a numeral of the
    grammar with value `n < 2^bits` — for EVERY string -/
theorem C20X_uint_value (bits : Nat) (hb : bits ≤ 64) (s : String) (n : Nat) :
    parseUint bits s = some n ↔ UNumeral s.toList n ∧ n < 2 ^ bits := by
  unfold parseUint parseUintL
  rw [← parseUintE_iff hb]
  cases parseUintE bits s.toList <;> simp [Except.toOption]

/-- every other string is refused -/
theorem C20X_uint_refused (bits : Nat) (hb : bits ≤ 64) (s : String) :
    parseUint bits s = none ↔ ¬ ∃ n, UNumeral s.toList n ∧ n < 2 ^ bits := by
  constructor
  · rintro h ⟨n, hn⟩
    rw [(C20X_uint_value bits hb s n).mpr hn] at h; cases h
  · intro h
    cases hx : parseUint bits s with
    | none => rfl
    | some n => exact absurd ⟨n, (C20X_uint_value bits hb s n).mp hx⟩ h

/-- **`strconv.ParseInt(s, 0, bits)`** returns `z` without error iff `s` is an optionally signed
    numeral of the grammar with value `z` in the two's-complement range of `bits` bits -/
theorem C20X_int_value (bits : Nat) (h2 : 2 ≤ bits) (hb : bits ≤ 64) (s : String) (z : Int) :
    parseInt bits s = some z ↔
      SNumeral s.toList z ∧ -(2 ^ (bits - 1) : Int) ≤ z ∧ z < (2 ^ (bits - 1) : Int) := by
  unfold parseInt parseIntL
  rw [← parseIntE_iff h2 hb]
  cases parseIntE bits s.toList <;> simp [Except.toOption]

theorem C20X_int_refused (bits : Nat) (h2 : 2 ≤ bits) (hb : bits ≤ 64) (s : String) :
    parseInt bits s = none ↔
      ¬ ∃ z, SNumeral s.toList z ∧ -(2 ^ (bits - 1) : Int) ≤ z ∧ z < (2 ^ (bits - 1) : Int) := by
  constructor
  · rintro h ⟨z, hz⟩
    rw [(C20X_int_value bits h2 hb s z).mpr hz] at h; cases h
  · intro h
    cases hx : parseInt bits s with
    | none => rfl
    | some z => exact absurd ⟨z, (C20X_int_value bits h2 hb s z).mp hx⟩ h

/-- the grammar is unambiguous: a string has at most one value -/
theorem C20X_numeral_unique (s : List Char) (n m : Nat) (h1 : UNumeral s n) (h2 : UNumeral s m) :
    n = m := h1.unique h2

/-- a well-formed numeral that is too large is refused as "value out of range" (any other
    refusal of a numeric field is "invalid syntax", or out of range found before a bad character) -/
theorem C20X_uint_out_of_range (bits : Nat) (hb : bits ≤ 64) (s : List Char) (n : Nat)
    (h : UNumeral s n) (hn : 2 ^ bits ≤ n) : parseUintE bits s = .error .range :=
  parseUintE_range_of hb h hn

/-- the numeric fields of the CLI, as the program uses them: address / additional quantity /
    uint16 value, uint32, uint64, unit id; and the signed values, where the register written is
    the two's complement: read as a signed number it is the integer the numeral denotes -/
theorem C20X_cli_fields (s : String) :
    (∀ a : U16, parseUint16 s = some a ↔ UNumeral s.toList a.toNat) ∧
    (∀ a : U32, parseUint32 s = some a ↔ UNumeral s.toList a.toNat) ∧
    (∀ a : U64, parseUint64 s = some a ↔ UNumeral s.toList a.toNat) ∧
    (∀ a : Byte, parseUnitId s = some a ↔ UNumeral s.toList a.toNat) ∧
    (∀ a : U16, parseInt16 s = some a ↔ SNumeral s.toList a.toInt) ∧
    (∀ a : U32, parseInt32 s = some a ↔ SNumeral s.toList a.toInt) ∧
    (∀ a : U64, parseInt64 s = some a ↔ SNumeral s.toList a.toInt) := by
  refine ⟨fun a => ?_, fun a => ?_, fun a => ?_, fun a => ?_, fun a => ?_, fun a => ?_, fun a => ?_⟩
  · rw [← parseUint16E_iff]; unfold parseUint16
    cases parseUint16E s.toList <;> simp [Except.toOption]
  · rw [← parseUint32E_iff]; unfold parseUint32
    cases parseUint32E s.toList <;> simp [Except.toOption]
  · rw [← parseUint64E_iff]; unfold parseUint64
    cases parseUint64E s.toList <;> simp [Except.toOption]
  · rw [← parseUnitIdE_iff]; unfold parseUnitId
    cases parseUnitIdE s.toList <;> simp [Except.toOption]
  · rw [← parseIntBV_iff (bits := 16) (by omega) (by omega)]; unfold parseInt16 parseInt16E
    cases parseIntE 16 s.toList <;> simp [Except.toOption, Except.map]
  · rw [← parseIntBV_iff (bits := 32) (by omega) (by omega)]; unfold parseInt32 parseInt32E
    cases parseIntE 32 s.toList <;> simp [Except.toOption, Except.map]
  · rw [← parseIntBV_iff (bits := 64) (by omega) (by omega)]; unfold parseInt64 parseInt64E
    cases parseIntE 64 s.toList <;> simp [Except.toOption, Except.map]

/-- the two documented spellings (decimal without leading zeros, 0x-hexadecimal) are in the
    grammar -/
theorem C20X_documented_numerals (n : Nat) (h : n < 2 ^ 64) :
    UNumeral (toDecimalL n) n ∧ UNumeral (toHexL n) n := by
  constructor
  · have := parseUintE_dec (bits := 64) (by omega) n
    rw [if_pos h] at this
    exact ((parseUintE_iff (by omega) _ _).mp this).1
  · have := parseUintE_hex (bits := 64) (by omega) n
    rw [if_pos h] at this
    exact ((parseUintE_iff (by omega) _ _).mp this).1

/-- membership in the grammar is decided by the parser itself (64 bits cover every field) -/
theorem C20X_grammar_decidable (s : List Char) (n : Nat) (h : n < 2 ^ 64) :
    UNumeral s n ↔ parseUintE 64 s = .ok n := by
  rw [parseUintE_iff (by omega)]; exact ⟨fun h' => ⟨h', h⟩, fun h' => h'.1⟩


/-! ## 3. floats (relative to the float oracle, see the header) -/

/-- whatever float32 bit pattern `f` the parser returns for the text — ANY of the 2^32 patterns,
    NaN payloads, ±Inf and −0 included: the command is accepted, the client call succeeds and the
    two registers receive exactly `layout32 endianness wordorder f`; likewise float64 with four
    registers -/
theorem C20X_float_write (a : U16) (sty : Style) (cfg : Cfg) (st : TState) (mem : Mem)
    (hk : IsTcp cfg.kind) (he : cfg.endian ≠ .invalid) (hw : cfg.word ≠ .invalid)
    (hp : st.pending = []) :
    (∀ f : U32, a.toNat + 2 ≤ 65536 → ∃ o,
      parseArg (render (.writeReg a (.float32 f)) sty) = .ok o ∧
      execute o = [.writeFloat32 a f] ∧
      (System.step memHandler cfg st mem (.writeFloat32 a f)).1.result = some (.ok .unit) ∧
      wireImage (window (System.step memHandler cfg st mem (.writeFloat32 a f)).2.holding a.toNat 2)
        = layout32 cfg.endian cfg.word f) ∧
    (∀ f : U64, a.toNat + 4 ≤ 65536 → ∃ o,
      parseArg (render (.writeReg a (.float64 f)) sty) = .ok o ∧
      execute o = [.writeFloat64 a f] ∧
      (System.step memHandler cfg st mem (.writeFloat64 a f)).1.result = some (.ok .unit) ∧
      wireImage (window (System.step memHandler cfg st mem (.writeFloat64 a f)).2.holding a.toNat 4)
        = layout64 cfg.endian cfg.word f) := by
  constructor
  · intro f hfit
    have h := step_write_typed cfg st mem hk he hw hp a (.float32 f)
      ⟨by simp [valueRegs], by simp [valueRegs], hfit⟩
    exact ⟨_, parseArg_render (.writeReg a (.float32 f)) sty trivial, rfl, h.1, h.2.1⟩
  · intro f hfit
    have h := step_write_typed cfg st mem hk he hw hp a (.float64 f)
      ⟨by simp [valueRegs], by simp [valueRegs], hfit⟩
    exact ⟨_, parseArg_render (.writeReg a (.float64 f)) sty trivial, rfl, h.1, h.2.1⟩

/-- the <value> text of `wr:float32` / `wr:float64` is handed to the float oracle and to nothing
    else: for ANY text, if the oracle yields the pattern `f` the operation writes `f`; if the
    oracle refuses, the command is refused (exit status 2, nothing sent) -/
theorem C20X_float_oracle (nm a lit : List Char) (addr : U16) (h : cmdOf nm = some .wr)
    (ha : parseUint16E a = .ok addr) :
    (∀ f, parseUint32E lit = .ok f →
      (parseParts [nm, "float32".toList, a, lit]).map execute = .ok [.writeFloat32 addr f]) ∧
    (∀ e, parseUint32E lit = .error e → Refused (parseParts [nm, "float32".toList, a, lit])) ∧
    (∀ f, parseUint64E lit = .ok f →
      (parseParts [nm, "float64".toList, a, lit]).map execute = .ok [.writeFloat64 addr f]) ∧
    (∀ e, parseUint64E lit = .error e → Refused (parseParts [nm, "float64".toList, a, lit])) := by
  refine ⟨fun f hf => ?_, (parts_wr_float32 h ha).2, fun f hf => ?_, (parts_wr_float64 h ha).2⟩
  · rw [(parts_wr_float32 h ha).1 f hf]; rfl
  · rw [(parts_wr_float64 h ha).1 f hf]; rfl

/-- NaN / Inf / −0 pass through unchanged: written with `wr:float32`, read with `rh:float32`,
    the same 32 bits come back (they are never converted, compared or canonicalised on the way);
    likewise float64 — instance of `C20X_write_then_read` -/
theorem C20X_float_passthrough (a : U16) (sty1 sty2 : Style) (cfg : Cfg) (st : TState) (mem : Mem)
    (hk : IsTcp cfg.kind) (he : cfg.endian ≠ .invalid) (hw : cfg.word ≠ .invalid)
    (hp : st.pending = []) :
    (∀ f : U32, a.toNat + 2 ≤ 65536 → ∃ o1 o2,
      run [render (.writeReg a (.float32 f)) sty1, render (.readHolding .float32 a none) sty2]
        = .ok [o1, o2] ∧
      (System.run memHandler cfg st mem (cmdsOf [o1, o2])).1
        = [some (.ok .unit), some (.ok (.u32s [f]))]) ∧
    (∀ f : U64, a.toNat + 4 ≤ 65536 → ∃ o1 o2,
      run [render (.writeReg a (.float64 f)) sty1, render (.readHolding .float64 a none) sty2]
        = .ok [o1, o2] ∧
      (System.run memHandler cfg st mem (cmdsOf [o1, o2])).1
        = [some (.ok .unit), some (.ok (.u64s [f]))]) :=
  ⟨fun f hfit => C20X_write_then_read a (.float32 f) sty1 sty2 cfg st mem hk he hw hp trivial
      (by simp [CliValue.ty]) hfit,
   fun f hfit => C20X_write_then_read a (.float64 f) sty1 sty2 cfg st mem hk he hw hp trivial
      (by simp [CliValue.ty]) hfit⟩

/-! ## 4. `+count` and spans that leave the address space -/

/-- a read command (ANY additional quantity, the wrapping `+65535` included) whose documented
    span needs more than 125 registers or runs past address 65535 — e.g. `rh:uint32:65535+2`,
    `rh:uint16:65535+1`, `rh:uint64:0+31`, `rh:uint16:0+65535` — is ACCEPTED by the argument
    parser (it is a well-formed command; exit status is not 2), and its client call is refused
    LOCALLY by the client's parameter check: ErrUnexpectedParameters, NOTHING is written to the
    connection, the server sees no event, the transaction counter and the device are untouched.
    (The run loop prints "failed to read holding/input registers: …" and continues with the next
    command: `System.run` / `cmdsOf`.)  Holds for any handler. -/
theorem C20X_span_overflow (holding : Bool) (ty : CliType) (a : U16) (e : Option U16)
    (sty : Style) (h : Server.Handler Mem) (cfg : Cfg) (st : TState) (mem : Mem)
    (he : cfg.endian ≠ .invalid) (hw : cfg.word ≠ .invalid)
    (hover : ty.regsFor (count e) > 125 ∨ a.toNat + ty.regsFor (count e) > 65536) :
    ∃ o op,
      parseArg (render (if holding then .readHolding ty a e else .readInput ty a e) sty) = .ok o ∧
      execute o = [op] ∧
      System.stepFull h cfg st mem op =
        ({ written := none, result := some (.error .unexpectedParameters), state := st }, mem, []) := by
  cases holding
  · refine ⟨_, _, parseArg_render (.readInput ty a e) sty trivial, ?_,
      SystemLemmas.stepFull_rejected h st mem he hw
        ((breaks_readTyped ty a e 1 (.inr rfl)).mpr hover)⟩
    rw [execute_expected]; rfl
  · refine ⟨_, _, parseArg_render (.readHolding ty a e) sty trivial, ?_,
      SystemLemmas.stepFull_rejected h st mem he hw
        ((breaks_readTyped ty a e 0 (.inl rfl)).mpr hover)⟩
    rw [execute_expected]; rfl

/-- so for every read command exactly one of the two happens: contents (`C20X_read_prints_contents`)
    or local refusal (`C20X_span_overflow`) -/
theorem C20X_read_dichotomy (ty : CliType) (a : U16) (e : Option U16) :
    (ty.regsFor (count e) ≤ 125 ∧ a.toNat + ty.regsFor (count e) ≤ 65536) ∨
    (ty.regsFor (count e) > 125 ∨ a.toNat + ty.regsFor (count e) > 65536) := by omega

/-- the same for coils / discrete inputs (limit 2000) -/
theorem C20X_span_overflow_bits (coil : Bool) (a : U16) (e : Option U16) (sty : Style)
    (h : Server.Handler Mem) (cfg : Cfg) (st : TState) (mem : Mem)
    (he : cfg.endian ≠ .invalid) (hw : cfg.word ≠ .invalid)
    (hover : count e > 2000 ∨ a.toNat + count e > 65536) :
    ∃ o op,
      parseArg (render (if coil then .readCoils a e else .readDiscrete a e) sty) = .ok o ∧
      execute o = [op] ∧
      System.stepFull h cfg st mem op =
        ({ written := none, result := some (.error .unexpectedParameters), state := st }, mem, []) := by
  have hb := (breaks_readBools coil a e).mpr hover
  cases coil
  · refine ⟨_, _, parseArg_render (.readDiscrete a e) sty trivial, ?_,
      SystemLemmas.stepFull_rejected h st mem he hw hb⟩
    rw [execute_expected]; rfl
  · refine ⟨_, _, parseArg_render (.readCoils a e) sty trivial, ?_,
      SystemLemmas.stepFull_rejected h st mem he hw hb⟩
    rw [execute_expected]; rfl

/-- and for writes: a value whose registers would run past address 65535 (`wr:uint32:65535:1`),
    an empty byte string or one of more than 246 bytes: accepted by the parser, refused locally,
    nothing sent, nothing written -/
theorem C20X_write_span_overflow (a : U16) (v : CliValue) (sty : Style) (h : Server.Handler Mem)
    (cfg : Cfg) (st : TState) (mem : Mem) (he : cfg.endian ≠ .invalid) (hw : cfg.word ≠ .invalid)
    (hr : v.inRange)
    (hover : valueRegs v = 0 ∨ valueRegs v > 123 ∨ a.toNat + valueRegs v > 65536) :
    ∃ o op,
      parseArg (render (.writeReg a v) sty) = .ok o ∧ execute o = [op] ∧
      System.stepFull h cfg st mem op =
        ({ written := none, result := some (.error .unexpectedParameters), state := st }, mem, []) := by
  refine ⟨_, _, parseArg_render (.writeReg a v) sty hr, ?_,
    SystemLemmas.stepFull_rejected h st mem he hw ((breaks_writeTyped a v).mpr hover)⟩
  rw [execute_expected]; rfl


/-! ## 5. order: all arguments are parsed first, then executed in order -/

/-- the client the run loop uses is configured from the options, once, for the whole session -/
theorem C20X_session_cfg (cs : List (Command × Style)) (h : ∀ p ∈ cs, p.1.documented)
    (hne : cs ≠ []) (e : Endian) (w : WordOrder) (es ws : String) (uid : Nat) (k : Kind)
    (he : (es = "big" ∧ e = .big) ∨ (es = "little" ∧ e = .little))
    (hw : ((ws = "highfirst" ∨ ws = "hf") ∧ w = .highFirst) ∨
          ((ws = "lowfirst" ∨ ws = "lf") ∧ w = .lowFirst))
    (hu : uid ≤ 255) :
    let out := invoke { endianness := es, wordOrder := ws, unitId := uid,
                        args := cs.map (fun p => render p.1 p.2) }
    sessionCfg k out = { kind := k, unitId := BitVec.ofNat 8 uid, endian := e, word := w } ∧
    sessionCmds out = cmdsOf (cs.map (fun p => expectedOp p.1)) ∧
    (sessionCfg k out).endian ≠ .invalid ∧ (sessionCfg k out).word ≠ .invalid := by
  have h1 := (C20_options cs h hne e w es ws uid he hw hu).1
  simp only at h1 ⊢
  rw [h1]
  refine ⟨rfl, rfl, ?_, ?_⟩
  · rcases he with ⟨_, rfl⟩ | ⟨_, rfl⟩ <;> simp [sessionCfg]
  · rcases hw with ⟨_, rfl⟩ | ⟨_, rfl⟩ <;> simp [sessionCfg]

/-- `invoke` never produces another encoding, whatever the option strings -/
theorem C20X_session_valid (i : Invocation) (k : Kind) (hk : IsTcp k) :
    IsTcp (sessionCfg k (invoke i)).kind ∧ (sessionCfg k (invoke i)).endian ≠ .invalid ∧
    (sessionCfg k (invoke i)).word ≠ .invalid := sessionCfg_valid k hk i

/-- the whole session refines the abstract register file (instance of C04_refines): the
    per-command theorems of section 1 apply to each command in the memory its predecessors left -/
theorem C20X_session_refines (i : Invocation) (k : Kind) (hk : IsTcp k) (st : TState) (mem : Mem)
    (hp : st.pending = []) :
    let cfg := sessionCfg k (invoke i)
    let cmds := sessionCmds (invoke i)
    (System.run memHandler cfg st mem cmds).1 = (Spec.regfileRun cfg mem cmds).1.map some ∧
    (System.run memHandler cfg st mem cmds).2.2.2 = (Spec.regfileRun cfg mem cmds).2.2 := by
  have hv := sessionCfg_valid k hk i
  have := C04.C04_refines (sessionCmds (invoke i)) (sessionCfg k (invoke i)) st mem hv.1 hv.2.1
    hv.2.2 hp
  exact ⟨this.1, this.2.2.1⟩

/-- **ORDER, on the wire.**  For EVERY invocation (any option strings, any argument strings): the
    frames the closed loop writes to the connection during the run loop are, in order, the
    request frames of the specification (`Spec.request`, C01) for the client calls
    `Outcome.requests` lists — `Cli.trace`: by definition the concatenation, in argument order, of
    the calls of each argument (`execute`), each under the unit id in force — with consecutive
    transaction ids; calls the client refuses locally put nothing on the wire and do not stop
    the run loop. -/
theorem C20X_order_wire (i : Invocation) (k : Kind) (hk : IsTcp k) (st : TState) (mem : Mem)
    (hp : st.pending = []) :
    runWritten memHandler (sessionCfg k (invoke i)) st mem (sessionCmds (invoke i)) =
      wireSpec (sessionCfg k (invoke i)) st.lastTxn (invoke i).requests :=
  session_wire i k hk st mem hp

/-- **ORDER, combined statement for documented command lines**: the frames on the wire are those
    of `documentedTrace`: the documented calls of the first command, then those of the second, …
    (`C20X_order_concat`), each with the unit id of the last preceding `sid` (or --unit-id) -/
theorem C20X_order (cs : List (Command × Style)) (h : ∀ p ∈ cs, p.1.documented)
    (hne : cs ≠ []) (e : Endian) (w : WordOrder) (es ws : String) (uid : Nat)
    (he : (es = "big" ∧ e = .big) ∨ (es = "little" ∧ e = .little))
    (hw : ((ws = "highfirst" ∨ ws = "hf") ∧ w = .highFirst) ∨
          ((ws = "lowfirst" ∨ ws = "lf") ∧ w = .lowFirst))
    (hu : uid ≤ 255) (k : Kind) (hk : IsTcp k) (st : TState) (mem : Mem) (hp : st.pending = []) :
    let out := invoke { endianness := es, wordOrder := ws, unitId := uid,
                        args := cs.map (fun p => render p.1 p.2) }
    runWritten memHandler (sessionCfg k out) st mem (sessionCmds out) =
      wireSpec { kind := k, unitId := BitVec.ofNat 8 uid, endian := e, word := w } st.lastTxn
        (documentedTrace (BitVec.ofNat 8 uid) (cs.map Prod.fst)) := by
  intro out
  have h1 := C20X_order_wire { endianness := es, wordOrder := ws, unitId := uid,
                               args := cs.map (fun p => render p.1 p.2) } k hk st mem hp
  have h2 := (C20_options cs h hne e w es ws uid he hw hu).2
  have h3 := (C20X_session_cfg cs h hne e w es ws uid k he hw hu).1
  show runWritten memHandler (sessionCfg k (invoke _)) st mem (sessionCmds (invoke _)) = _
  rw [h1, h2, h3]

/-- the calls, and the frames, of a command line are the concatenation of those of its parts;
    the second part starts with the unit id and the transaction counter the first part left -/
theorem C20X_order_concat (cfg : Cfg) (txn : U16) (u : Byte) (cs1 cs2 : List Command) :
    documentedTrace u (cs1 ++ cs2) =
      documentedTrace u cs1 ++ documentedTrace (cs1.foldl documentedUnit u) cs2 ∧
    wireSpec cfg txn (documentedTrace u (cs1 ++ cs2)) =
      wireSpec cfg txn (documentedTrace u cs1) ++
      wireSpec cfg (txn + BitVec.ofNat 16 (sentCount (documentedTrace u cs1)))
        (documentedTrace (cs1.foldl documentedUnit u) cs2) := by
  refine ⟨documentedTrace_append cs1 cs2 u, ?_⟩
  rw [documentedTrace_append, wireSpec_append]

/-- one command contributes the frames of its documented calls under the current unit id -/
theorem C20X_order_single (u : Byte) (c : Command) :
    documentedTrace u [c] = (documentedOps c).map (fun o => (u, o)) := by
  simp [documentedTrace]

/-- the same for arbitrary accepted argument lists (documented or not): `Cli.trace` concatenates -/
theorem C20X_order_concat_ops (u : Byte) (ops1 ops2 : List Operation) :
    trace u (ops1 ++ ops2) = trace u ops1 ++ trace (ops1.foldl nextUnit u) ops2 :=
  trace_append ops1 ops2 u

/-- **ORDER, seen by the device**, for ANY handler: the handler invocations of the session are
    the request objects of the specification for the same calls, in the same order -/
theorem C20X_order_device (hnd : Server.Handler Mem) (i : Invocation) (k : Kind) (hk : IsTcp k)
    (st : TState) (mem : Mem) :
    System.runCalls hnd (sessionCfg k (invoke i)) st mem (sessionCmds (invoke i)) =
      deviceSpec (sessionCfg k (invoke i)) (invoke i).requests := by
  have hv := sessionCfg_valid k hk i
  rw [C04.C04_refines_calls hnd _ _ st mem hv.1 hv.2.1 hv.2.2]
  cases h : invoke i with
  | go e w u ops => exact regfileCalls_cmdsOf ops _
  | _ => rfl

/-- **REFUSAL**: if ANY argument is refused — the first, one in the middle, or the last — the
    process ends (exit status 2, or 1 for a bad option) before `NewClient` / `Open`: the run loop
    is empty, zero frames are written, the handler is never invoked and the device's memory is
    untouched, whatever the other (well-formed) arguments are -/
theorem C20X_order_refused (i : Invocation) (h : ∃ a ∈ i.args, Refused (parseArg a))
    (hnd : Server.Handler Mem) (k : Kind) (st : TState) (mem : Mem) :
    ((∃ m, invoke i = .usage m) ∨ (∃ m, invoke i = .refused m)) ∧
    (invoke i).requests = [] ∧
    runWritten hnd (sessionCfg k (invoke i)) st mem (sessionCmds (invoke i)) = [] ∧
    System.runCalls hnd (sessionCfg k (invoke i)) st mem (sessionCmds (invoke i)) = [] ∧
    (System.run hnd (sessionCfg k (invoke i)) st mem (sessionCmds (invoke i))).2.2.2 = mem := by
  obtain ⟨h1, h2⟩ := session_refused i h
  refine ⟨invoke_refuse i h, h2, ?_, ?_, ?_⟩ <;> rw [h1] <;> rfl


/-! ## 6. what is printed for the values obtained -/

/-- the decimal number printed for a value (`%v` of the uint / of the intN conversion) denotes
    that value — by the numeral syntax of section 2: unsigned types print `x.toNat`, signed types
    the two's-complement reading `x.toInt` -/
theorem C20X_printed_value_denotes :
    (∀ x : U16, parseUint 16 (decStr x.toNat) = some x.toNat ∧
                parseInt 16 (intStr x.toInt) = some x.toInt) ∧
    (∀ x : U32, parseUint 32 (decStr x.toNat) = some x.toNat ∧
                parseInt 32 (intStr x.toInt) = some x.toInt) ∧
    (∀ x : U64, parseUint 64 (decStr x.toNat) = some x.toNat ∧
                parseInt 64 (intStr x.toInt) = some x.toInt) :=
  ⟨fun x => ⟨printed_unsigned (by omega) x, printed_signed (by omega) (by omega) x⟩,
   fun x => ⟨printed_unsigned (by omega) x, printed_signed (by omega) (by omega) x⟩,
   fun x => ⟨printed_unsigned (by omega) x, printed_signed (by omega) (by omega) x⟩⟩

/-- the address column of line `i` — computed by the program in uint16 arithmetic as
    `addr + i·k` (k = 1, 2, 4 registers per value; 8 per line of 16 bytes) — is the address of
    the first register of item `i` as `Holds` counts it, as long as the span stays inside the
    address space (which `C20X_read_prints_contents` assumes) -/
theorem C20X_printed_address (a : U16) (i k : Nat) (hk : k = 1 ∨ k = 2 ∨ k = 4 ∨ k = 8)
    (h : a.toNat + k * i < 65536) :
    (a + BitVec.ofNat 16 i * BitVec.ofNat 16 k).toNat = a.toNat + k * i :=
  addr_column a i k hk h

/-- one line per value -/
theorem C20X_printed_line_count (ty : RegTy) (h : Bool) (a q : U16) :
    (∀ vs, ty = .uint16 ∨ ty = .int16 → (printedLines (.readRegs ty h a q) (.u16s vs)).length = vs.length) ∧
    (∀ vs, ty = .uint32 ∨ ty = .int32 ∨ ty = .float32 →
      (printedLines (.readRegs ty h a q) (.u32s vs)).length = vs.length) ∧
    (∀ vs, ty = .uint64 ∨ ty = .int64 ∨ ty = .float64 →
      (printedLines (.readRegs ty h a q) (.u64s vs)).length = vs.length) ∧
    (∀ c bs, (printedLines (.readBools c a q) (.bools bs)).length = bs.length) := by
  refine ⟨fun vs h => ?_, fun vs h => ?_, fun vs h => ?_, fun c bs => ?_⟩
  · rcases h with rfl | rfl <;> simp [printedLines, enum]
  · rcases h with rfl | rfl | rfl <;> simp [printedLines, enum]
  · rcases h with rfl | rfl | rfl <;> simp [printedLines, enum]
  · simp [printedLines, enum]

/-! ## 6b. every argument string: accepted iff it is one of the documented forms

  `Accepts parts o` (Lemmas/CliExtLemmas.lean) is the explicit grammar of the seven documented
  commands on the ':'-separated parts of an argument: the accepted command names (all aliases),
  the arity, the nine type names (+ `string` for wr), `AddrField` (= one numeral, or two numerals
  separated by ONE '+'), `true`/`false`, and `WrValue` (a `UNumeral` for unsigned types and for
  the float bit pattern, an `SNumeral` for signed types, `hex.DecodeString` for bytes, anything
  for string) — everything in terms of the numeral grammar of section 2. -/

/-- `strings.Split(arg, ":")`: the parts contain no ':' and joined with ':' give the argument -/
theorem C20X_split (s : List Char) (parts : List (List Char)) :
    splitOn ':' s = parts ↔ parts ≠ [] ∧ joinWith ':' parts = s ∧ ∀ p ∈ parts, ':' ∉ p :=
  splitOn_iff ':' s parts

/-- for EVERY argument string and every operation of the seven documented commands: the argument
    is accepted with that operation iff it has the documented form -/
theorem C20X_accepted_iff (arg : String) (o : Operation) (hm : Modelled o) :
    parseArg arg = .ok o ↔ Accepts (splitOn ':' arg.toList) o :=
  parseParts_iff _ o hm

/-- the `<addr>[+n]` field for every string -/
theorem C20X_addr_field (f : List Char) (a q : U16) :
    parseAddressAndQuantityE f = .ok (a, q) ↔
      (UNumeral f a.toNat ∧ q = 0) ∨
      (∃ p0 p1, f = p0 ++ '+' :: p1 ∧ UNumeral p0 a.toNat ∧ UNumeral p1 q.toNat) :=
  parseAQ_iff f a q

/-- **malformed commands are refused** — for every string: an argument that has none of the
    documented forms, and does not name one of the five commands outside the property (sleep,
    repeat, date, scan, ping), is refused; with `C20X_order_refused`: nothing is sent -/
theorem C20X_malformed_refused (arg : String)
    (h : ∀ o, ¬ Accepts (splitOn ':' arg.toList) o)
    (hn : ∀ nm args, splitOn ':' arg.toList = nm :: args →
      String.ofList nm ∉ ["sleep", "repeat", "date", "scan", "ping"]) :
    Refused (parseArg arg) :=
  malformed_refused _ h hn

/-! ## 7. non-vacuity -/

/-- a whole invocation through the closed loop, starting from the initial memory: results of the
    client calls, holding registers 9…12 afterwards, frames written -/
def demo (es ws : String) (u : Nat) (args : List String) :
    List (Option (Except Err Val)) × List U16 × List Bytes :=
  let out := invoke { endianness := es, wordOrder := ws, unitId := u, args := args }
  let r := System.run memHandler (sessionCfg .tcp out) ⟨0, []⟩ Mem.init (sessionCmds out)
  (r.1, window r.2.2.2.holding 9 4,
   runWritten memHandler (sessionCfg .tcp out) ⟨0, []⟩ Mem.init (sessionCmds out))

/-- `--endianness little --word-order lf wr:int32:10:-2 rh:int32:10`: the read obtains
    0xfffffffe, printed as −2; register 10 holds the LOW word with its bytes swapped (0xfffe →
    0xfeff), register 11 the high word; registers 9 and 12 untouched; two frames, transaction
    ids 1 and 2 -/
example : demo "little" "lf" 1 ["wr:int32:10:-2", "rh:int32:10"] =
    ([some (.ok .unit), some (.ok (.u32s [0xfffffffe#32]))],
     [0x0000#16, 0xfeff#16, 0xffff#16, 0x0000#16],
     [[0x00, 0x01, 0x00, 0x00, 0x00, 0x0b, 0x01, 0x10, 0x00, 0x0a, 0x00, 0x02, 0x04,
       0xfe, 0xff, 0xff, 0xff],
      [0x00, 0x02, 0x00, 0x00, 0x00, 0x06, 0x01, 0x03, 0x00, 0x0a, 0x00, 0x02]]) := by
  decide +kernel
example : printedLines (.readRegs .int32 true 10 0) (.u32s [0xfffffffe#32]) =
    ["0x000a\t10    : 0xfffffffe\t-2"] := by decide +kernel
/-- the same with the default options: high word first, bytes not swapped; read back as two
    uint16 -/
example : demo "big" "highfirst" 1 ["wr:int32:10:-2", "rh:int32:10", "rh:uint16:10+1"] =
    ([some (.ok .unit), some (.ok (.u32s [0xfffffffe#32])),
      some (.ok (.u16s [0xffff#16, 0xfffe#16]))],
     [0x0000#16, 0xffff#16, 0xfffe#16, 0x0000#16],
     [[0x00, 0x01, 0x00, 0x00, 0x00, 0x0b, 0x01, 0x10, 0x00, 0x0a, 0x00, 0x02, 0x04,
       0xff, 0xff, 0xff, 0xfe],
      [0x00, 0x02, 0x00, 0x00, 0x00, 0x06, 0x01, 0x03, 0x00, 0x0a, 0x00, 0x02],
      [0x00, 0x03, 0x00, 0x00, 0x00, 0x06, 0x01, 0x03, 0x00, 0x0a, 0x00, 0x02]]) := by
  decide +kernel
/-- `Holds` on the concrete case: the value read is the one whose layout is registers 10, 11 -/
example : Holds .int32 .little .lowFirst (fun a => if a = 10 then 0xfeff else if a = 11 then 0xffff else 0)
    10 1 (.u32s [0xfffffffe#32]) := by
  refine ⟨rfl, fun i x h => ?_⟩
  match i, h with
  | 0, h => injection h with h; subst h; decide +kernel
/-- a type / value mismatch never `Holds` -/
example (e w t a n) (vs : List U16) : ¬ Holds .int32 e w t a n (.u16s vs) := fun h => h

/-- spans that leave the address space: `rh:uint32:65535+2`, `rh:uint16:65535+1` and the wrapped
    `rc:0+65535` are refused locally (nothing on the wire, the run loop continues);
    `rh:uint16:65535` in between is sent: exactly one frame -/
example : demo "big" "hf" 1 ["rh:uint32:65535+2", "rh:uint16:65535+1", "rh:uint16:65535", "rc:0+65535"] =
    ([some (.error .unexpectedParameters), some (.error .unexpectedParameters),
      some (.ok (.u16s [0x0000#16])), some (.error .unexpectedParameters)],
     [0, 0, 0, 0],
     [[0x00, 0x01, 0x00, 0x00, 0x00, 0x06, 0x01, 0x03, 0xff, 0xff, 0x00, 0x01]]) := by
  decide +kernel
example : (3 : Nat) = count (some 2) ∧ (65535 : U16).toNat + CliType.regsFor .uint32 (count (some 2)) > 65536 := by
  decide

/-- order and unit id: `sid:7` applies to the commands that follow it -/
example : demo "big" "hf" 1 ["rh:uint16:0", "sid:7", "rh:uint16:0", "wc:3:true"] =
    ([some (.ok (.u16s [0x0000#16])), some (.ok .unit), some (.ok (.u16s [0x0000#16])),
      some (.ok .unit)],
     [0, 0, 0, 0],
     [[0x00, 0x01, 0x00, 0x00, 0x00, 0x06, 0x01, 0x03, 0x00, 0x00, 0x00, 0x01],
      [0x00, 0x02, 0x00, 0x00, 0x00, 0x06, 0x07, 0x03, 0x00, 0x00, 0x00, 0x01],
      [0x00, 0x03, 0x00, 0x00, 0x00, 0x06, 0x07, 0x05, 0x00, 0x03, 0xff, 0x00]]) := by
  decide +kernel

/-- a refusal of the LAST argument: nothing at all happens, although the first argument is a
    well-formed write -/
example : demo "big" "hf" 1 ["wr:uint16:10:5", "rc:0x"] = ([], [0, 0, 0, 0], []) := by
  decide +kernel
example : ∃ a ∈ ["wr:uint16:10:5", "rc:0x"], Refused (parseArg a) :=
  ⟨"rc:0x", by simp, by decide⟩
/-- … and with a bad option -/
example : demo "middle" "hf" 1 ["wr:uint16:10:5"] = ([], [0, 0, 0, 0], []) := by decide +kernel

/-- floats: a NaN with payload and −0 written (bit patterns from the oracle) and read back
    unchanged; −Inf as float64 under LITTLE_ENDIAN -/
example : demo "big" "hf" 1 ["wr:float32:9:0x7fc00001", "wr:float32:11:0x80000000", "rh:float32:9+1"] =
    ([some (.ok .unit), some (.ok .unit), some (.ok (.u32s [0x7fc00001#32, 0x80000000#32]))],
     [0x7fc0#16, 0x0001#16, 0x8000#16, 0x0000#16],
     [[0x00, 0x01, 0x00, 0x00, 0x00, 0x0b, 0x01, 0x10, 0x00, 0x09, 0x00, 0x02, 0x04,
       0x7f, 0xc0, 0x00, 0x01],
      [0x00, 0x02, 0x00, 0x00, 0x00, 0x0b, 0x01, 0x10, 0x00, 0x0b, 0x00, 0x02, 0x04,
       0x80, 0x00, 0x00, 0x00],
      [0x00, 0x03, 0x00, 0x00, 0x00, 0x06, 0x01, 0x03, 0x00, 0x09, 0x00, 0x04]]) := by
  decide +kernel
example : (demo "little" "hf" 1 ["wr:float64:9:0xfff0000000000000", "rh:float64:9"]).1 =
    [some (.ok .unit), some (.ok (.u64s [0xfff0000000000000#64]))] ∧
    (demo "little" "hf" 1 ["wr:float64:9:0xfff0000000000000", "rh:float64:9"]).2.1 =
    [0xf0ff#16, 0x0000#16, 0x0000#16, 0x0000#16] := by decide +kernel
/-- byte strings: five bytes in three registers, swapped per register under LITTLE_ENDIAN -/
example : (demo "little" "hf" 1 ["wr:bytes:9:0102030405", "rh:bytes:9+4"]).1 =
    [some (.ok .unit), some (.ok (.bytes [1, 2, 3, 4, 5]))] ∧
    (demo "little" "hf" 1 ["wr:bytes:9:0102030405", "rh:bytes:9+4"]).2.1 =
    [0x0201#16, 0x0403#16, 0x0005#16, 0x0000#16] := by decide +kernel

/-- numerals: the grammar on tricky spellings (same answers as Go 1.23 `strconv`, checked
    separately with a Go program) -/
example : ["+5", "-0", "0x", "0X1f", "1_000", "0b101", "0o17", "017", "00", "-0x10", " 5", "5 ",
           "", "٣", "1e3", "0x1p4", "0_7", "0x_1F", "1__0", "_1", "1_", "08", "0b2", "0B_1", "-_1",
           "+-1", "0o", "0_", "65536", "0xFFFF", "0177777", "0200000", "00_0", "0_x1"].map
          (fun s => (parseUint 16 s, parseInt 16 s)) =
    [(none, some 5), (none, some 0), (none, none), (some 31, some 31), (some 1000, some 1000),
     (some 5, some 5), (some 15, some 15), (some 15, some 15), (some 0, some 0), (none, some (-16)),
     (none, none), (none, none), (none, none), (none, none), (none, none), (none, none),
     (some 7, some 7), (some 31, some 31), (none, none), (none, none), (none, none), (none, none),
     (none, none), (some 1, some 1), (none, none), (none, none), (none, none), (none, none),
     (none, none), (some 65535, none), (some 65535, none), (none, none), (some 0, some 0),
     (none, none)] := by decide +kernel
/-- … as facts about the grammar -/
example : UNumeral "0x_1F".toList 31 ∧ UNumeral "017".toList 15 ∧ UNumeral "1_000".toList 1000 ∧
    SNumeral "-0x10".toList (-16) ∧ SNumeral "+5".toList 5 :=
  ⟨((C20X_uint_value 16 (by omega) _ _).mp (by decide +kernel)).1,
   ((C20X_uint_value 16 (by omega) _ _).mp (by decide +kernel)).1,
   ((C20X_uint_value 16 (by omega) _ _).mp (by decide +kernel)).1,
   ((C20X_int_value 16 (by omega) (by omega) _ _).mp (by decide +kernel)).1,
   ((C20X_int_value 16 (by omega) (by omega) _ _).mp (by decide +kernel)).1⟩
example : (¬ ∃ n, UNumeral "1__0".toList n ∧ n < 2 ^ 16) ∧ (¬ ∃ n, UNumeral "0x".toList n ∧ n < 2 ^ 16) ∧
    (¬ ∃ n, UNumeral "+5".toList n ∧ n < 2 ^ 16) ∧ (¬ ∃ n, UNumeral "".toList n ∧ n < 2 ^ 16) :=
  ⟨(C20X_uint_refused 16 (by omega) _).mp (by decide +kernel),
   (C20X_uint_refused 16 (by omega) _).mp (by decide +kernel),
   (C20X_uint_refused 16 (by omega) _).mp (by decide +kernel),
   (C20X_uint_refused 16 (by omega) _).mp (by decide +kernel)⟩
/-- in the address field `+` is the count separator, so a signed address is refused; in a signed
    value it is a sign -/
example : Refused (parseArg "rc:+5") ∧ Refused (parseArg "rc:1++2") ∧
    (parseArg "wr:int16:1:+5").map execute = .ok [.writeRegister 1 5] ∧
    (parseArg "rh:uint16:0b1_0+0o1_7").map execute = .ok [.readRegisters 2 16 0] := by
  decide +kernel

/-- `Accepts` on concrete arguments -/
example : Accepts (splitOn ':' "rh:int32:0x10+0b1".toList) (.readRegs .int32 true 16 1) :=
  (C20X_accepted_iff "rh:int32:0x10+0b1" (.readRegs .int32 true 16 1) trivial).mp (by decide +kernel)
example : ¬ Accepts (splitOn ':' "rh:int32:0x10+".toList) (.readRegs .int32 true 16 0) := fun h =>
  absurd ((C20X_accepted_iff "rh:int32:0x10+" (.readRegs .int32 true 16 0) trivial).mpr h)
    (by decide +kernel)

#print axioms C20X_read_prints_contents
#print axioms C20X_layout_injective
#print axioms C20X_read_bits_prints_contents
#print axioms C20X_write_lands
#print axioms C20X_write_frame
#print axioms C20X_value_regs
#print axioms C20X_write_coil_lands
#print axioms C20X_write_then_read
#print axioms C20X_read_back_signed
#print axioms C20X_uint_value
#print axioms C20X_uint_refused
#print axioms C20X_int_value
#print axioms C20X_int_refused
#print axioms C20X_numeral_unique
#print axioms C20X_uint_out_of_range
#print axioms C20X_cli_fields
#print axioms C20X_documented_numerals
#print axioms C20X_grammar_decidable
#print axioms C20X_float_write
#print axioms C20X_float_oracle
#print axioms C20X_float_passthrough
#print axioms C20X_span_overflow
#print axioms C20X_read_dichotomy
#print axioms C20X_span_overflow_bits
#print axioms C20X_write_span_overflow
#print axioms C20X_session_cfg
#print axioms C20X_session_valid
#print axioms C20X_session_refines
#print axioms C20X_order_wire
#print axioms C20X_order
#print axioms C20X_order_concat
#print axioms C20X_order_single
#print axioms C20X_order_concat_ops
#print axioms C20X_order_device
#print axioms C20X_order_refused
#print axioms C20X_split
#print axioms C20X_accepted_iff
#print axioms C20X_addr_field
#print axioms C20X_malformed_refused
#print axioms C20X_printed_value_denotes
#print axioms C20X_printed_address
#print axioms C20X_printed_line_count

end Modbus.Props.C20
