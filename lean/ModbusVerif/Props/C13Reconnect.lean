import ModbusVerif.Model.Reconnect
import ModbusVerif.Model.Timing
import ModbusVerif.Props.C13Client
/-
  C13 (reconnect) — "A connection cut at any byte offset of a request or reply ... makes the call
  fail with an error; a subsequent call on a re-established connection ... behaves like a call on
  a fresh connection."

  C13Client.lean proves the first half per call and models the reconnect by the hypothesis
  `st.pending = []` / the literal state `⟨0, []⟩`. Here `Close()` and `Open()` are model steps
  (ModbusVerif/Model/Reconnect.lean, with the code facts and line numbers in its header):

    Open   installs a NEW transport object over a NEW link: transaction counter 0, no unread
           input except what arrives on the new link (rtu / rtuovertcp additionally drop up to
           1024 early bytes, `discard`); nothing is taken from the previous transport.
    Close  closes the link; the (closed) transport object stays installed.
    call   on a closed transport: i/o error, nothing sent; with no transport at all: Go panic.
-/
namespace Modbus.Props.C13
open Modbus Modbus.Strm Modbus.Client Modbus.Props.C06 Modbus.Reconnect

/-! ### the steps -/

/-- a call on a live connection is `Op.run` on the installed transport's state -/
theorem C13R_call_live {op : Op} {cfg : Cfg} {c : Conn} (arr : Bytes) (e : Ending)
    (h : c.link = .live) :
    call op cfg c arr e =
      (op.run cfg c.st arr e, { st := (op.run cfg c.st arr e).state, link := .live }) := by
  unfold call
  rw [h]

/-- `Open` that succeeds: the connection afterwards does not depend on the connection before
    (never opened, live, closed; any counter; any unread input) -/
theorem C13R_open_installs_fresh (k : Kind) (c : Conn) (early : Bytes) :
    openNew k c (some early) = (⟨⟨0, openResidue k early⟩, .live⟩, true) := rfl

/-- ... and with nothing received during `Open` it is exactly the fresh transport state -/
theorem C13R_open_installs_fresh_nil (k : Kind) (c : Conn) :
    openNew k c (some []) = (⟨TState.fresh, .live⟩, true) := by
  cases k <;> rfl

/-- `Open` that fails (dial / port error): error returned, connection unchanged -/
theorem C13R_open_failed_keeps (k : Kind) (c : Conn) : openNew k c none = (c, false) := rfl

/-- what `Open` keeps of early bytes on the new link: rtu / rtuovertcp flush up to 1 kB -/
theorem C13R_open_residue (early : Bytes) :
    openResidue .rtu early = early.drop 1024 ∧ openResidue .rtuOverTcp early = early.drop 1024 ∧
    openResidue .rtuOverUdp early = early ∧ openResidue .tcp early = early ∧
    openResidue .tcpTls early = early ∧ openResidue .udp early = early :=
  ⟨rfl, rfl, rfl, rfl, rfl, rfl⟩

/-- `Close`: a transport, once installed, stays installed but closed; its bookkeeping is kept;
    closing twice or closing a never-opened client changes nothing -/
theorem C13R_close (c : Conn) :
    (c.link = .absent → close c = c) ∧
    (c.link ≠ .absent → close c = ⟨c.st, .closed⟩) ∧
    close (close c) = close c ∧ (close c).open = false := by
  obtain ⟨st, l⟩ := c
  cases l <;> simp [close, Conn.open]

/-- a call after `Close()` (and before a successful `Open()`): never a success, never a write,
    and the connection is left as it was. Precisely: a panic of the typed wrapper, or the error
    of the local parameter check, or else the i/o error of the closed link. -/
theorem C13R_call_closed (op : Op) (cfg : Cfg) (c : Conn) (arr : Bytes) (e : Ending)
    (h : c.link = .closed) :
    (call op cfg c arr e).2 = c ∧ (call op cfg c arr e).1.written = none ∧
    (call op cfg c arr e).1.state = c.st ∧
    (∀ v, (call op cfg c arr e).1.result ≠ some (.ok v)) ∧
    (∀ core fc payload, op.core cfg = some core → core.request = .ok (fc, payload) →
      (call op cfg c arr e).1.result = some (.error .ioOther)) ∧
    (∀ core err, op.core cfg = some core → core.request = .error err →
      (call op cfg c arr e).1.result = some (.error err)) := by
  obtain ⟨st, l⟩ := c
  simp only at h
  subst h
  simp only [call]
  cases hc : op.core cfg with
  | none => simp
  | some core =>
    cases hr : core.request with
    | error err =>
      simp [hr]
      constructor <;> (intros; subst_vars; simp_all)
    | ok fp =>
      simp [hr]
      intros; subst_vars; simp_all

/-- the result of a call on a closed connection does not depend on what the closed transport
    still holds, nor on what the network does -/
theorem C13R_call_closed_independent (op : Op) (cfg : Cfg) (st₁ st₂ : TState) (a₁ a₂ : Bytes)
    (e₁ e₂ : Ending) :
    (call op cfg ⟨st₁, .closed⟩ a₁ e₁).1.result = (call op cfg ⟨st₂, .closed⟩ a₂ e₂).1.result ∧
    (call op cfg ⟨st₁, .closed⟩ a₁ e₁).1.written = (call op cfg ⟨st₂, .closed⟩ a₂ e₂).1.written := by
  simp only [call]
  cases op.core cfg with
  | none => simp
  | some core => cases hr : core.request <;> simp [hr]

/-- a call on a client that was never opened (`mc.transport == nil`): once the wrapper and the
    local checks passed, `mc.transport.ExecuteRequest` is a method call on a nil interface —
    a Go run-time panic (`none`). A parameter error is still returned as an error. -/
theorem C13R_call_never_opened (op : Op) (cfg : Cfg) (st : TState) (arr : Bytes) (e : Ending) :
    (∀ core fc payload, op.core cfg = some core → core.request = .ok (fc, payload) →
      (call op cfg ⟨st, .absent⟩ arr e).1.result = none) ∧
    (∀ core err, op.core cfg = some core → core.request = .error err →
      (call op cfg ⟨st, .absent⟩ arr e).1.result = some (.error err)) ∧
    (call op cfg ⟨st, .absent⟩ arr e).1.written = none ∧
    (call op cfg ⟨st, .absent⟩ arr e).2 = ⟨st, .absent⟩ := by
  simp only [call]
  cases hc : op.core cfg with
  | none => simp
  | some core =>
    cases hr : core.request with
    | error err =>
      simp [hr]
      constructor <;> (intros; subst_vars; simp_all)
    | ok fp =>
      simp [hr]
      intros; subst_vars; simp_all

-- non-vacuity: `ReadRegisters(0, 2, HOLDING)` on a new client panics; after Open+Close it errors;
-- quantity 0 is rejected locally in both cases
example : (call (Op.readRegisters 0 2 0) exCfgTcp Conn.new [] .timeout).1.result = none := by decide
example : (call (Op.readRegisters 0 0 0) exCfgTcp Conn.new [] .timeout).1.result =
    some (.error .unexpectedParameters) := by decide
example : (call (Op.readRegisters 0 2 0) exCfgTcp
    (close (openNew .tcp Conn.new (some [])).1) (Mbap.assemble 1 exReply) .timeout).1 =
    { written := none, result := some (.error .ioOther), state := ⟨0, []⟩ } := by decide

/-! ### reconnect forgets everything -/

/-- Close + Open + call, from ANY connection state (any counter, any unread input, any link
    state): the call is `Op.run` on transaction counter 0 and the new link's early bytes. -/
theorem C13R_reconnect_forgets (op : Op) (cfg : Cfg) (c : Conn) (early a : Bytes) (e : Ending) :
    call op cfg (openNew cfg.kind (close c) (some early)).1 a e =
      (op.run cfg ⟨0, openResidue cfg.kind early⟩ a e,
       ⟨(op.run cfg ⟨0, openResidue cfg.kind early⟩ a e).state, .live⟩) :=
  C13R_call_live a e rfl

/-- a re-established connection is indistinguishable from the first connection of a newly
    created client -/
theorem C13R_reconnect_like_new_client (op : Op) (cfg : Cfg) (c : Conn) (early a : Bytes)
    (e : Ending) :
    call op cfg (openNew cfg.kind (close c) (some early)).1 a e =
      call op cfg (openNew cfg.kind Conn.new (some early)).1 a e := rfl

theorem steps_append (cfg : Cfg) (ss₁ ss₂ : List Step) :
    ∀ c : Conn, steps cfg c (ss₁ ++ ss₂) =
      ((steps cfg c ss₁).1 ++ (steps cfg (steps cfg c ss₁).2 ss₂).1,
       (steps cfg (steps cfg c ss₁).2 ss₂).2) := by
  induction ss₁ with
  | nil => intro c; rfl
  | cons s ss ih => intro c; simp only [List.cons_append, steps, ih]

/-- the same after an arbitrary connection history `pre` (calls that succeed, fail, are cut;
    closes; failed and successful opens): the observations of `Close; Open; call op` at the end
    are those of a fresh client, whatever happened before -/
theorem C13R_reconnect_forgets_history (cfg : Cfg) (c : Conn) (pre : List Step) (op : Op)
    (early a : Bytes) (e : Ending) :
    steps cfg c (pre ++ [.close, .openNew (some early), .call op a e]) =
      ((steps cfg c pre).1 ++
        [.done true, .done true, .result (op.run cfg ⟨0, openResidue cfg.kind early⟩ a e)],
       ⟨(op.run cfg ⟨0, openResidue cfg.kind early⟩ a e).state, .live⟩) := by
  rw [steps_append]
  rfl

/-! ### the C13 story: cut, Close, Open, next call -/

/-- the frame a server sends in reply to the outstanding request of transport state `st` -/
def replyFrame (cfg : Cfg) (st : TState) (res : Pdu) : Bytes :=
  if cfg.kind.isRtu then Rtu.assemble res else Mbap.assemble (st.lastTxn + 1) res

/-- C13R-6. Every transport kind, every public method `op1` (core call `c1`), every valid reply
    `res` to it, every cut offset `k` inside the reply frame, every way the stream ends
    (timeout, EOF, reset), on a live connection with nothing unread and any transaction counter:

      call op1  (only the first k bytes of the reply arrive)   → an error, never a value/panic
      Close(); Open()  (nothing received during Open)
      call op2  (arrivals a2, ending e2)

    The second call's whole record (request frame written — transaction id 1 on MBAP —, value or
    error returned, transport state afterwards) is EXACTLY that of a fresh transport state
    running `op2` on `a2`: neither unread bytes nor the transaction counter of the cut exchange
    reach it. -/
theorem C13R_cut_then_reconnect {op1 op2 : Op} {c1 : Core} {cfg : Cfg} {c : Conn} {res : Pdu}
    {raw : Raw} {k : Nat} (en : Ending) (a2 : Bytes) (e2 : Ending)
    (hlive : c.link = .live) (hp : c.st.pending = [])
    (hop : op1.core cfg = some c1) (ha : AnswersWith c1 cfg res raw)
    (hk : k < (replyFrame cfg c.st res).length) :
    let x1 := call op1 cfg c ((replyFrame cfg c.st res).take k) en
    let c2 := (openNew cfg.kind (close x1.2) (some [])).1
    let x2 := call op2 cfg c2 a2 e2
    (∃ err, x1.1.result = some (.error err)) ∧
    x2.1 = op2.run cfg TState.fresh a2 e2 ∧
    x2.2 = ⟨(op2.run cfg TState.fresh a2 e2).state, .live⟩ := by
  intro x1 c2 x2
  have hc2 : c2 = ⟨TState.fresh, .live⟩ :=
    congrArg Prod.fst (C13R_open_installs_fresh_nil cfg.kind (close x1.2))
  refine ⟨?_, ?_, ?_⟩
  · show ∃ err, (call op1 cfg c ((replyFrame cfg c.st res).take k) en).1.result = some (.error err)
    rw [C13R_call_live _ en hlive]
    simp only []
    unfold replyFrame at hk ⊢
    cases hkind : cfg.kind.isRtu with
    | true =>
      rw [hkind] at hk
      exact C13_public_prefix_rtu en hop hkind hp (Answers.consistent ⟨raw, ha⟩) hk
    | false =>
      rw [hkind] at hk
      exact C13_public_prefix_mbap en hop hkind (by rw [hp]; exact .nil)
        (answersWith_payload_le ha) hk
  · show (call op2 cfg c2 a2 e2).1 = _
    rw [hc2, C13R_call_live a2 e2 rfl]
  · show (call op2 cfg c2 a2 e2).2 = _
    rw [hc2, C13R_call_live a2 e2 rfl]

/-- C13R-6 with bytes that arrive on the new link while `Open` runs: they are the first input of
    the next call, except that rtu / rtuovertcp drop up to 1024 of them (`discard` in `Open`) -/
theorem C13R_cut_then_reconnect_early {op1 op2 : Op} {c1 : Core} {cfg : Cfg} {c : Conn}
    {res : Pdu} {raw : Raw} {k : Nat} (en : Ending) (early a2 : Bytes) (e2 : Ending)
    (hlive : c.link = .live) (hp : c.st.pending = [])
    (hop : op1.core cfg = some c1) (ha : AnswersWith c1 cfg res raw)
    (hk : k < (replyFrame cfg c.st res).length) :
    let x1 := call op1 cfg c ((replyFrame cfg c.st res).take k) en
    let c2 := (openNew cfg.kind (close x1.2) (some early)).1
    let x2 := call op2 cfg c2 a2 e2
    (∃ err, x1.1.result = some (.error err)) ∧
    x2.1 = op2.run cfg ⟨0, openResidue cfg.kind early⟩ a2 e2 := by
  intro x1 c2 x2
  refine ⟨(C13R_cut_then_reconnect (op2 := op2) en a2 e2 hlive hp hop ha hk).1, ?_⟩
  exact congrArg Prod.fst (C13R_reconnect_forgets op2 cfg x1.2 early a2 e2)

/-- C13R-6 as one connection history -/
theorem C13R_cut_then_reconnect_history {op1 op2 : Op} {c1 : Core} {cfg : Cfg} {c : Conn}
    {res : Pdu} {raw : Raw} {k : Nat} (en : Ending) (a2 : Bytes) (e2 : Ending)
    (hlive : c.link = .live) (hp : c.st.pending = [])
    (hop : op1.core cfg = some c1) (ha : AnswersWith c1 cfg res raw)
    (hk : k < (replyFrame cfg c.st res).length) :
    ∃ r1 err, r1.result = some (.error err) ∧
      steps cfg c [.call op1 ((replyFrame cfg c.st res).take k) en, .close, .openNew (some []),
                   .call op2 a2 e2] =
        ([.result r1, .done true, .done true, .result (op2.run cfg TState.fresh a2 e2)],
         ⟨(op2.run cfg TState.fresh a2 e2).state, .live⟩) := by
  obtain ⟨⟨err, h1⟩, h2, h3⟩ := C13R_cut_then_reconnect (op2 := op2) en a2 e2 hlive hp hop ha hk
  refine ⟨_, err, h1, ?_⟩
  simp only [steps, step]
  rw [h2, h3]
  simp [openNew]

/-- and then a complete correct reply to the repeated request is accepted (first id after Open
    is 1): the C13 end-to-end statement with Close/Open as steps -/
theorem C13R_cut_reconnect_retry {op : Op} {c1 : Core} {cfg : Cfg} {c : Conn} {res : Pdu}
    {raw : Raw} {k : Nat} (en : Ending) (post : Bytes) (e2 : Ending)
    (hlive : c.link = .live) (hp : c.st.pending = [])
    (hop : op.core cfg = some c1) (ha : AnswersWith c1 cfg res raw)
    (hk : k < (replyFrame cfg c.st res).length) :
    let x1 := call op cfg c ((replyFrame cfg c.st res).take k) en
    let c2 := (openNew cfg.kind (close x1.2) (some [])).1
    let x2 := call op cfg c2 (replyFrame cfg TState.fresh res ++ post) e2
    (∃ err, x1.1.result = some (.error err)) ∧
    x2.1.result = (op.decode cfg raw).map .ok := by
  intro x1 c2 x2
  obtain ⟨h1, h2, _⟩ := C13R_cut_then_reconnect (op2 := op) en
    (replyFrame cfg TState.fresh res ++ post) e2 hlive hp hop ha hk
  refine ⟨h1, ?_⟩
  show (call op cfg c2 _ e2).1.result = _
  rw [h2]
  exact C13_reopen_fresh_public post e2 hop ha

/-! ### without Close/Open -/

/-- what a success without reconnect must look like (MBAP kinds; relates to C05): whatever is left
    over from earlier exchanges (`st.pending`) or arrives (`arr`), a call returns a value only
    if that byte stream consists of whole skippable frames followed by a complete well-formed
    frame carrying exactly the new transaction id, whose PDU passes the validation of THIS
    request. Leftover bytes of a cut reply can therefore make the next call fail or lose its
    reply (they are parsed as a header), or — only if they themselves contain such a frame —
    be taken for the reply; they can never turn a frame with a foreign id into a result. -/
theorem C13R_without_reconnect_partial {c : Core} {cfg : Cfg} {st : TState} {arr : Bytes}
    {en : Ending} {raw : Raw} (hk : cfg.kind.isRtu = false)
    (h : (c.exchange cfg st arr en).result = some (.ok raw)) :
    ∃ fc payload pre res rest, c.request = .ok (fc, payload) ∧
      Mbap.Skippable (st.lastTxn + 1) pre ∧ res.payload.length ≤ 252 ∧
      st.pending ++ arr = pre ++ Mbap.assemble (st.lastTxn + 1) res ++ rest ∧
      c.validate fc res = some (.ok raw) ∧
      (c.exchange cfg st arr en).state = ⟨st.lastTxn + 1, rest⟩ := by
  cases hreq : c.request with
  | error err => rw [exchange_request_error cfg st arr en hreq] at h; cases h
  | ok fp =>
    obtain ⟨fc, payload⟩ := fp
    obtain ⟨h1, h2⟩ := exchange_mbap_parts st arr en hk hreq
    rw [h1] at h
    cases hu : unitCheck cfg.unitId (Mbap.readResponse (st.lastTxn + 1) (st.pending ++ arr) en).1 with
    | error err => rw [hu] at h; cases h
    | ok res =>
      rw [hu] at h
      have hr := unitCheck_ok_inv hu
      have hrr : Mbap.readResponse (st.lastTxn + 1) (st.pending ++ arr) en =
          (.ok res, (Mbap.readResponse (st.lastTxn + 1) (st.pending ++ arr) en).2) :=
        Prod.ext hr rfl
      obtain ⟨pre, hpre, hlen, hs⟩ := C05.C05_returned_has_own_id hrr
      exact ⟨fc, payload, pre, res, _, rfl, hpre, hlen, hs, h, h2⟩

/-! The statement "without Close/Open the next call ends in an error or skips the leftover, never
    in a wrong success" is FALSE for a call that timed out inside the reply (the connection is
    still usable, the rest of the reply arrives later). Kept as a comment:

      theorem C13R_without_reconnect_never_wrong_success ... :
        (call op2 cfg (call op1 cfg c (frame.take k) .timeout).2
            (frame.drop k ++ replyFrame to op2) e2).1.result
          = the value carried by the true reply to op2  ∨  an error

    Counterexample below: the tail of the cut reply is register DATA; when those data bytes spell
    a well-formed MBAP frame with the next transaction id, the next call returns them as its
    result although the server answered it correctly with something else. With Close/Open the
    same second call returns the server's value. -/

/-- MBAP/TCP, unit 1. op1 = ReadRegisters(0, 8): the reply's 16 data bytes are
    `00 00 00 00 00 | 00 02 00 00 00 05 01 03 02 BE EF`; it is cut by a timeout after 14 bytes
    (header, function code, byte count, 5 data bytes). The remaining 11 data bytes arrive later. -/
def exReplyBig : Pdu :=
  ⟨1, 3, [16, 0, 0, 0, 0, 0,  0, 2, 0, 0, 0, 5, 1, 3, 2, 0xBE, 0xEF]⟩

/-- the server's true reply to op2 = ReadRegister(7): register 7 holds 0x0007 -/
def exTrueReply2 : Pdu := ⟨1, 3, [2, 0x00, 0x07]⟩

example : (Mbap.assemble 1 exReplyBig).length = 25 := by decide
example : (Mbap.assemble 1 exReplyBig).drop 14 = Mbap.assemble 2 ⟨1, 3, [2, 0xBE, 0xEF]⟩ := by decide
example : AnswersWith (.readRegs 0 8 0) exCfgTcp exReplyBig
    (.bytes [0, 0, 0, 0, 0, 0, 2, 0, 0, 0, 5, 1, 3, 2, 0xBE, 0xEF]) :=
  ⟨0x03, [0, 0, 0, 8], by decide, rfl, by decide⟩

/-- the live connection of a client just opened -/
def exLive : Conn := (openNew .tcp Conn.new (some [])).1

/-- counterexample: NO Close/Open after the timed-out call. The second call returns 0xBEEF —
    bytes of the first reply — instead of the server's 0x0007, with no error; the server's true
    reply stays unread. -/
theorem C13R_without_reconnect_example :
    steps exCfgTcp exLive
      [ .call (Op.readRegisters 0 8 0) ((Mbap.assemble 1 exReplyBig).take 14) .timeout,
        .call (Op.readRegister 7 0)
          ((Mbap.assemble 1 exReplyBig).drop 14 ++ Mbap.assemble 2 exTrueReply2) .timeout ] =
    ([ .result { written := some [0, 1, 0, 0, 0, 6, 1, 3, 0, 0, 0, 8],
                 result := some (.error .requestTimedOut), state := ⟨1, []⟩ },
       .result { written := some [0, 2, 0, 0, 0, 6, 1, 3, 0, 7, 0, 1],
                 result := some (.ok (.u16s [0xBEEF])),
                 state := ⟨2, Mbap.assemble 2 exTrueReply2⟩ } ],
     ⟨⟨2, Mbap.assemble 2 exTrueReply2⟩, .live⟩) := by decide +kernel

/-- the same two calls WITH Close/Open in between (the server answers on the new connection,
    where the request carries transaction id 1): the second call returns the server's value -/
theorem C13R_with_reconnect_example :
    steps exCfgTcp exLive
      [ .call (Op.readRegisters 0 8 0) ((Mbap.assemble 1 exReplyBig).take 14) .timeout,
        .close, .openNew (some []),
        .call (Op.readRegister 7 0) (Mbap.assemble 1 exTrueReply2) .timeout ] =
    ([ .result { written := some [0, 1, 0, 0, 0, 6, 1, 3, 0, 0, 0, 8],
                 result := some (.error .requestTimedOut), state := ⟨1, []⟩ },
       .done true, .done true,
       .result { written := some [0, 1, 0, 0, 0, 6, 1, 3, 0, 7, 0, 1],
                 result := some (.ok (.u16s [0x0007])), state := ⟨1, []⟩ } ],
     ⟨⟨1, []⟩, .live⟩) := by decide +kernel

/-- the usual outcome without reconnect: the leftover is not a frame. Reply `.. 04 20 f0 12 34`
    to ReadRegisters(0, 2) cut after 9 bytes; the 4 remaining data bytes are parsed as the start
    of a header (protocol id 0x1234: skipped as a 9-byte frame), which shifts the framing of the
    server's correct reply to the next call: that call fails with ErrProtocolError and the
    reply is lost — an error, not a wrong value. -/
theorem C13R_without_reconnect_example_error :
    steps exCfgTcp exLive
      [ .call (Op.readRegisters 0 2 0) ((Mbap.assemble 1 exReply).take 9) .timeout,
        .call (Op.readRegister 7 0)
          ((Mbap.assemble 1 exReply).drop 9 ++ Mbap.assemble 2 exTrueReply2) .timeout ] =
    ([ .result { written := some [0, 1, 0, 0, 0, 6, 1, 3, 0, 0, 0, 2],
                 result := some (.error .requestTimedOut), state := ⟨1, []⟩ },
       .result { written := some [0, 2, 0, 0, 0, 6, 1, 3, 0, 7, 0, 1],
                 result := some (.error .protocolError), state := ⟨2, []⟩ } ],
     ⟨⟨2, []⟩, .live⟩) := by decide +kernel

/-- the hypotheses of C13R-6 hold for the first call of these examples (non-vacuity), and its
    conclusion instantiates to the computed history -/
example : ∃ r1 err, r1.result = some (.error err) ∧
    steps exCfgTcp exLive
      [ .call (Op.readRegisters 0 8 0) ((replyFrame exCfgTcp exLive.st exReplyBig).take 14) .timeout,
        .close, .openNew (some []),
        .call (Op.readRegister 7 0) (Mbap.assemble 1 exTrueReply2) .timeout ] =
    ([ .result r1, .done true, .done true,
       .result ((Op.readRegister 7 0).run exCfgTcp TState.fresh (Mbap.assemble 1 exTrueReply2) .timeout) ],
     ⟨((Op.readRegister 7 0).run exCfgTcp TState.fresh (Mbap.assemble 1 exTrueReply2) .timeout).state,
      .live⟩) :=
  C13R_cut_then_reconnect_history (c1 := .readRegs 0 8 0)
    (raw := .bytes [0, 0, 0, 0, 0, 0, 2, 0, 0, 0, 5, 1, 3, 2, 0xBE, 0xEF]) .timeout _ .timeout
    rfl rfl (by decide) ⟨0x03, [0, 0, 0, 8], by decide, rfl, by decide⟩ (by decide)

-- RTU (rtuovertcp): every cut of the 9-byte reply, EOF; Close; Open with 3 stale bytes readable
-- on the new link (flushed by `discard`); the retried request succeeds
example : ∀ k ∈ List.range 9,
    (steps ⟨.rtuOverTcp, 1, .big, .highFirst⟩ (openNew .rtuOverTcp Conn.new (some [])).1
      [ .call (Op.readRegisters 0 2 0) ((Rtu.assemble exReply).take k) .eof,
        .close, .openNew (some [0x12, 0x34, 0x56]),
        .call (Op.readRegisters 0 2 0) (Rtu.assemble exReply) .timeout ]).1.drop 1 =
    [ .done true, .done true,
      .result { written := some (Rtu.assemble ⟨1, 3, [0, 0, 0, 2]⟩),
                result := some (.ok (.u16s [0x20f0, 0x1234])), state := ⟨0, []⟩ } ] := by
  decide +kernel

/-! ### RTU: `lastActivity` restarts -/

/-- the new `rtuTransport` has the zero `lastActivity`: its first request is not delayed by the
    t3.5 rule (clock readings are ≥ t3.5 after the zero time) -/
theorem C13R_rtu_first_request_not_delayed (rate now : Nat) (h : Timing.t35 rate ≤ now) :
    Timing.txStart now 0 rate = now := by
  unfold Timing.txStart
  omega

end Modbus.Props.C13

#print axioms Modbus.Props.C13.C13R_call_live
#print axioms Modbus.Props.C13.C13R_open_installs_fresh
#print axioms Modbus.Props.C13.C13R_open_installs_fresh_nil
#print axioms Modbus.Props.C13.C13R_open_failed_keeps
#print axioms Modbus.Props.C13.C13R_open_residue
#print axioms Modbus.Props.C13.C13R_close
#print axioms Modbus.Props.C13.C13R_call_closed
#print axioms Modbus.Props.C13.C13R_call_closed_independent
#print axioms Modbus.Props.C13.C13R_call_never_opened
#print axioms Modbus.Props.C13.C13R_reconnect_forgets
#print axioms Modbus.Props.C13.C13R_reconnect_like_new_client
#print axioms Modbus.Props.C13.C13R_reconnect_forgets_history
#print axioms Modbus.Props.C13.C13R_cut_then_reconnect
#print axioms Modbus.Props.C13.C13R_cut_then_reconnect_early
#print axioms Modbus.Props.C13.C13R_cut_then_reconnect_history
#print axioms Modbus.Props.C13.C13R_cut_reconnect_retry
#print axioms Modbus.Props.C13.C13R_without_reconnect_partial
#print axioms Modbus.Props.C13.C13R_without_reconnect_example
#print axioms Modbus.Props.C13.C13R_with_reconnect_example
#print axioms Modbus.Props.C13.C13R_without_reconnect_example_error
#print axioms Modbus.Props.C13.C13R_rtu_first_request_not_delayed
