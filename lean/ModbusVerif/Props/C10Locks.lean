/-
  C10 (locking part) — `ModbusServer`'s shared state (`started`, `tcpListener`, `tcpClients`) is
  race-free: `Start`/`Stop` called from any number of goroutines, the accept goroutines and the
  per-connection handler goroutines, under every schedule.

  Model under test: the access tables `Modbus.Gen.accessTables` ("ModbusServer." keys), regenerated
  from /repo/server.go by the translator on every run (`ModbusVerif/Generated/Facts.lean`), fed
  through `conv` into the lockset checker `Locking.disciplineOk`
  (`ModbusVerif/Model/Locking.lean`); soundness of the checker: `Locking.no_race`,
  `Locking.mutex_exclusive`, `Locking.critical_sections_contiguous`, `Locking.wellLocked_append`
  (`ModbusVerif/Lemmas/LockingLemmas.lean`, restated in `ModbusVerif/Props/C08.lean`).

  Thread entry points: the exported methods `Start`, `Stop`, and the `go` targets
  `acceptTCPClients` (spawned by `Start`) and `handleTCPClient` (spawned per accepted connection).
  The accept loop's table is one pass over the loop body; n iterations are n consecutive "calls" of
  that entry (entries are closed under concatenation, T3), so `calls` below covers loops.
  `handleTransport`, `startTLS`, `extractRole` run without the mutex and must not touch a mutable
  field: `disciplineOk` decides that (they are inlined into `handleTCPClient`), and
  `C10_unlocked_helpers` states it separately.

  Trusted: the translator; that every branch's accesses are listed (the tables are a straight-line
  over-approximation of each body in source order).
-/
import ModbusVerif.Generated.Facts
import ModbusVerif.Model.Locking
import ModbusVerif.Lemmas.LockingLemmas

namespace Modbus.Props.C10
open Modbus Modbus.Locking

/-! ### from the generated tables to the checker's input (computed, not copied) -/

def convKind : Gen.ActKind → AK
  | .acq => .acq | .rel => .rel | .rd => .rd | .wr => .wr | .call => .call | .go => .go

/-- methods keep their full key `ModbusServer.m`; the targets of `call`/`go` get the prefix too -/
def conv (a : Gen.Act) : Act := ⟨convKind a.kind, qualify "ModbusServer." (convKind a.kind) a.name⟩

/-- the translator's tables for `ModbusServer` (keys "ModbusServer.…"), with the `held` flags -/
def serverRaw : List (String × List Gen.Act) := selectType "ModbusServer." Gen.accessTables

def serverProg : Program := serverRaw.map (fun p => (p.1, p.2.map conv))

/-- exported methods: the name after "ModbusServer." starts with an upper-case letter -/
def serverPublic : List String :=
  (serverProg.map (·.1)).filter (isExportedAfter "ModbusServer.")

/-- `NewServer` is a function, not a method: no constructor in the table -/
def serverCtors : List String := []

/-- nesting depth of calls allowed when inlining
    (handleTCPClient → startTLS → extractRole is the deepest chain) -/
def fuel : Nat := 4

def serverMutable : List String := mutableFields serverProg serverCtors

def serverEntries : List String := entries serverProg serverPublic

/-! ### the server tables -/

/-- every server thread entry, with all calls inlined, takes the mutex before it touches a mutable
    field, never locks recursively, and ends without the mutex -/
theorem C10_discipline : disciplineOk serverProg serverPublic serverCtors fuel = true := by
  decide +kernel

/-- what the mutex protects: the fields written by some method -/
theorem C10_mutable_fields :
    mutableFields serverProg serverCtors = ["tcpListener", "started", "tcpClients"] := by
  decide +kernel

/-- the thread entry points: exported methods, then the `go` targets -/
theorem C10_entries :
    serverPublic = ["ModbusServer.Start", "ModbusServer.Stop"] ∧
    entries serverProg serverPublic =
      ["ModbusServer.Start", "ModbusServer.Stop",
       "ModbusServer.acceptTCPClients", "ModbusServer.handleTCPClient"] := by
  decide +kernel

/-- the helpers that run without the mutex perform no lock operation and touch no mutable field -/
theorem C10_unlocked_helpers :
    ∀ m ∈ ["ModbusServer.handleTransport", "ModbusServer.startTLS", "ModbusServer.extractRole"],
      (entrySteps serverProg fuel m).all
        (fun st => match st with
          | .rd f => !serverMutable.contains f
          | .wr f => !serverMutable.contains f
          | _ => false) = true := by
  decide +kernel

/-- the translator's `held` flag equals the simulated holding state at every action of every thread
    entry (calls inlined; every call returns in the holding state it was made in) -/
theorem C10_held_flags_agree :
    (serverRaw.filter (fun p => serverEntries.contains p.1)).all
      (fun p => heldAgrees serverProg fuel false (p.2.map (fun a => (conv a, a.held)))) = true := by
  decide +kernel

/-- no race, mutual exclusion, critical sections not interleaved: any number of goroutines
    (`calls.length`), goroutine k running the entries `calls[k]` in order (callers of `Start`/`Stop`,
    accept loops = repeated `acceptTCPClients`, connection handlers), any schedule. -/
theorem C10_no_race_server (calls : List (List String))
    (hc : ∀ ms ∈ calls, ∀ m ∈ ms, m ∈ serverEntries) (sched : List Nat) :
    -- no two goroutines are ever about to perform conflicting accesses to a mutable field
    ¬ RaceAt serverMutable (run (initState serverProg fuel calls) sched) ∧
    -- at most one goroutine is inside a critical section
    (∀ (i j : Nat) (ti tj : Thread),
        (run (initState serverProg fuel calls) sched).threads[i]? = some ti →
        (run (initState serverProg fuel calls) sched).threads[j]? = some tj →
        ti.holding = true → tj.holding = true → i = j) ∧
    -- while goroutine i is inside a critical section nobody else locks, unlocks or touches a
    -- mutable field (e.g. the admission test-and-append on `tcpClients` in the accept loop and the
    -- removal loop in `handleTCPClient` are atomic w.r.t. each other and w.r.t. `Stop`)
    (∀ i pre mid rest,
        trace (initState serverProg fuel calls) sched = pre ++ (i, Step.acq) :: (mid ++ rest) →
        (i, Step.rel) ∉ mid →
        ∀ p ∈ mid, p.1 ≠ i → p.2 ≠ .acq ∧ p.2 ≠ .rel ∧ ¬ p.2.touchesMut serverMutable) := by
  refine ⟨discipline_no_race C10_discipline calls hc sched, ?_, ?_⟩
  · intro i j ti tj hi hj hhi hhj
    exact discipline_mutex_exclusive C10_discipline calls hc sched hi hj hhi hhj
  · intro i pre mid rest htr hnorel
    exact discipline_sections_contiguous C10_discipline calls hc sched htr hnorel

/-! ### non-vacuity and sensitivity -/

/-- replace the body of method `m` -/
def withBody (prog : Program) (m : String) (body : List Act) : Program :=
  prog.map (fun p => if p.1 = m then (m, body) else p)

/-- (c) the bug that was fixed (F5): the accept loop as it was — `ms.tcpListener.Accept()` reads the
    field without the mutex while `Start` writes it under the mutex -/
def oldAccept : Program :=
  withBody serverProg "ModbusServer.acceptTCPClients"
    (⟨.rd, "tcpListener"⟩ :: (lookup serverProg "ModbusServer.acceptTCPClients").getD [])

example : disciplineOk oldAccept serverPublic serverCtors fuel = false := by decide +kernel

/-- … and the checker names the offender -/
example :
    (entries oldAccept serverPublic).filter
      (fun m => !entryOk (mutableFields oldAccept serverCtors) (entrySteps oldAccept fuel m)) =
      ["ModbusServer.acceptTCPClients"] := by
  decide +kernel

/-- a helper that runs without the mutex must not touch a mutable field: `handleTransport` peeking at
    `started` — rejected (through its caller `handleTCPClient`) -/
example :
    disciplineOk
      (withBody serverProg "ModbusServer.handleTransport" [⟨.rd, "handler"⟩, ⟨.rd, "started"⟩])
      serverPublic serverCtors fuel = false := by
  decide +kernel

/-- (b) locking twice: `Stop` calling `Start` with the mutex held — rejected -/
example :
    disciplineOk
      (withBody serverProg "ModbusServer.Stop"
        [⟨.acq, "lock"⟩, ⟨.wr, "started"⟩, ⟨.call, "ModbusServer.Start"⟩, ⟨.rel, "lock(deferred)"⟩])
      serverPublic serverCtors fuel = false := by
  decide +kernel

/-- `go` does not inline the spawned method into the spawner: `Start` after inlining -/
example :
    entrySteps serverProg fuel "ModbusServer.Start" =
      [.acq, .rd "started", .rd "transportType", .rd "conf", .wr "tcpListener", .rd "tcpListener",
       .wr "started", .rel] := by
  decide +kernel

/-- one pass of the accept loop: the admission test-and-append is one critical section -/
example :
    entrySteps serverProg fuel "ModbusServer.acceptTCPClients" =
      [.rd "logger", .acq, .rd "started", .rd "tcpClients", .rd "conf", .rd "tcpClients",
       .wr "tcpClients", .rel, .rd "logger"] := by
  decide +kernel

/-- the hypotheses of T1 are satisfiable and `run` computes: a `Stop` caller, an accept loop doing
    two passes, a connection handler -/
def exState : State :=
  initState serverProg fuel
    [["ModbusServer.Stop"],
     ["ModbusServer.acceptTCPClients", "ModbusServer.acceptTCPClients"],
     ["ModbusServer.handleTCPClient"]]

example : exState.holder = none ∧
    ∀ t ∈ exState.threads, t.holding = false ∧ wellLocked serverMutable false t.todo = true := by
  decide +kernel

example :
    trace exState [1, 1, 0, 1, 0, 2, 1, 1, 1, 1, 1, 0, 1, 0] =
      [(1, .rd "logger"), (1, .acq), (1, .rd "started"), (2, .rd "transportType"),
       (1, .rd "tcpClients"), (1, .rd "conf"), (1, .rd "tcpClients"), (1, .wr "tcpClients"),
       (1, .rel), (0, .acq), (1, .rd "logger"), (0, .rd "started")] ∧
    (run exState [1, 1, 0, 1, 0, 2, 1, 1, 1, 1, 1, 0, 1, 0]).holder = some 0 := by
  decide +kernel

/-- the semantics does exhibit the old race: the acceptor about to read `tcpListener` while a
    `Start` caller, inside its critical section, is about to write it -/
example :
    RaceAt serverMutable
      (run ⟨[⟨[.rd "tcpListener"], false⟩, ⟨[.acq, .wr "tcpListener", .rel], false⟩], none⟩ [1]) :=
  ⟨0, 1, "tcpListener", .rd "tcpListener", .wr "tcpListener", by decide, by decide +kernel,
    by decide +kernel, by decide +kernel, Or.inl rfl, Or.inr rfl, Or.inr rfl⟩

end Modbus.Props.C10

#print axioms Modbus.Props.C10.C10_discipline
#print axioms Modbus.Props.C10.C10_mutable_fields
#print axioms Modbus.Props.C10.C10_entries
#print axioms Modbus.Props.C10.C10_unlocked_helpers
#print axioms Modbus.Props.C10.C10_held_flags_agree
#print axioms Modbus.Props.C10.C10_no_race_server
