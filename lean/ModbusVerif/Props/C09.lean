import ModbusVerif.Lemmas.LifecycleLemmas
/-
  C09 — "At every instant at most MaxClients connections are being served, and a connection that
  arrives while the limit is reached is closed without any of its requests reaching a handler.
  A slot is released whenever a served client disconnects, is dropped for a protocol error, or
  stays idle for the configured timeout, so that a later connection is served again — for every
  order."

  Model: `Modbus.Lifecycle` (Model/Lifecycle.lean), one step per atomic unit of server.go between
  two `verifYield` points.  Every theorem quantifies over ALL step lists from `init m`
  (= all interleavings, any number of connections, any MaxClients `m`), through the inductive
  invariant `Inv` (`inv_init`, `inv_step` in Lemmas/LifecycleLemmas.lean).
  Idle expiry is the environment step `finish c .idleTimeout`; *when* it fires is real time and
  is not part of this model (C07-style trace facts cover the deadline arithmetic).
-/
namespace Modbus.Props.C09
open Modbus.Lifecycle

/-! ### 1. the bound -/

/-- in every reachable state: #serving ≤ len(tcpClients) ≤ MaxClients -/
theorem C09_bound (m : Nat) (steps : List Step) :
    let s := run (init m) steps
    s.servingConns.length ≤ s.clients.length ∧ s.clients.length ≤ s.maxClients ∧
      s.maxClients = m := by
  intro s
  have hi : Inv s := inv_run (inv_init m) steps
  exact ⟨servingConns_le_clients hi, hi.clients_le, maxClients_run (init m) steps⟩

/-- `servingConns` really is the set of connections inside handleTransport, without repetition -/
theorem C09_serving_set (m : Nat) (steps : List Step) :
    let s := run (init m) steps
    s.servingConns.Nodup ∧ ∀ c, c ∈ s.servingConns ↔ (s.conn c).phase = .serving := by
  intro s
  have hi : Inv s := inv_run (inv_init m) steps
  exact ⟨nodup_servingConns hi, mem_servingConns hi⟩

/-- the same bound without reference to the representation: ANY duplicate-free collection of
    connections that are being served has at most len(tcpClients) ≤ MaxClients elements -/
theorem C09_bound_any_set (m : Nat) (steps : List Step) (L : List ConnId) (hn : L.Nodup)
    (hL : ∀ c ∈ L, ((run (init m) steps).conn c).phase = .serving) :
    L.length ≤ (run (init m) steps).clients.length ∧ L.length ≤ m := by
  have hi : Inv (run (init m) steps) := inv_run (inv_init m) steps
  have h1 := serving_le_clients hi L hn hL
  have h2 := hi.clients_le
  rw [maxClients_run] at h2
  exact ⟨h1, Nat.le_trans h1 h2⟩

/-- `tcpClients` = exactly the connections that were admitted and whose removal step has not run
    (admitted-not-yet-launched, serving, finished-not-yet-removed), each once -/
theorem C09_no_leak (m : Nat) (steps : List Step) :
    let s := run (init m) steps
    s.clients.Nodup ∧
      (∀ c, c ∈ s.clients ↔ (s.conn c).phase = .admitted ∨ (s.conn c).phase = .serving ∨
        (s.conn c).phase = .finished) ∧
      (∀ c, c ∈ s.clients ↔ Event.admit c ∈ s.log ∧ (s.conn c).phase ≠ .removed ∧
        (s.conn c).phase ≠ .closed) := by
  intro s
  have hi : Inv s := inv_run (inv_init m) steps
  refine ⟨hi.clients_nodup, fun c => ?_, fun c => ?_⟩
  · rw [hi.clients_iff c]; cases (s.conn c).phase <;> simp [Phase.inList]
  · rw [hi.clients_iff c, hi.admit_iff c]
    cases (s.conn c).phase <;> simp [Phase.inList, Phase.wasAdmitted]

/-! ### 2. a rejected connection is never served -/

/-- whatever the schedule: a connection whose admission took the reject branch has no `served`
    event — neither before nor after (the log only grows, the statement is about every prefix) -/
theorem C09_rejected_never_served (m : Nat) (steps : List Step) (c : ConnId)
    (h : Event.reject c ∈ (run (init m) steps).log) :
    Event.served c ∉ (run (init m) steps).log := by
  have hi : Inv (run (init m) steps) := inv_run (inv_init m) steps
  intro hs
  have h1 := (hi.reject_iff c).mp h
  have h2 := hi.served_phase c hs
  revert h1 h2
  cases ((run (init m) steps).conn c).phase <;> simp [Phase.isRejected, Phase.session]

/-- step form: from any reachable state in which `decide c` takes the else branch (server
    stopped, or the list is full), in every continuation: no request on `c` reaches a handler,
    and `c` only ever gets closed by the accept loop -/
theorem C09_rejected_never_served_later {s : State} (hs : Reachable s) (c : ConnId)
    (hp : (s.conn c).phase = .accepted)
    (hfull : ¬(s.started = true ∧ s.clients.length < s.maxClients)) (steps : List Step) :
    let s' := run (step s (.decide c)) steps
    Event.served c ∉ s'.log ∧ s'.wouldServe c = false ∧
      ((s'.conn c).phase = .rejecting ∨ (s'.conn c).phase = .rejected) := by
  intro s'
  obtain ⟨m, pre, rfl⟩ := hs
  have hrej : Event.reject c ∈ (step (run (init m) pre) (.decide c)).log := by
    rw [(decide_rejects _ c hp hfull).2.2]; simp
  have hs' : s' = run (init m) (pre ++ [.decide c] ++ steps) := by
    simp only [run_append]; rfl
  have hlog : Event.reject c ∈ s'.log := log_mono steps hrej
  have hi : Inv s' := by rw [hs']; exact inv_run (inv_init m) _
  have hph := (hi.reject_iff c).mp hlog
  refine ⟨by rw [hs'] at hlog ⊢; exact C09_rejected_never_served m _ c hlog, ?_, ?_⟩
  · revert hph; unfold State.wouldServe
    cases (s'.conn c).phase <;> simp [Phase.isRejected]
  · revert hph
    cases (s'.conn c).phase <;> simp [Phase.isRejected]

/-! ### 3. the removal loop removes exactly its own entry, at every position -/

theorem C09_remove_exact (l : List ConnId) (c : ConnId) (_hn : l.Nodup) (hc : c ∈ l) :
    (swapRemove l c).Perm (l.erase c) := swapRemove_perm l c hc

theorem C09_remove_absent (l : List ConnId) (c : ConnId) (hc : c ∉ l) : swapRemove l c = l :=
  swapRemove_not_mem l c hc

theorem C09_remove_exact' (l : List ConnId) (c : ConnId) (hn : l.Nodup) (hc : c ∈ l) :
    (swapRemove l c).Nodup ∧ (swapRemove l c).length + 1 = l.length ∧
      ∀ x, x ∈ swapRemove l c ↔ x ∈ l ∧ x ≠ c :=
  ⟨nodup_swapRemove hn c, length_swapRemove hc, mem_swapRemove hn c⟩

/-! ### 4. slots are reclaimed -/

/-- the admission test is exactly `started ∧ len(tcpClients) < MaxClients` -/
theorem C09_admit_iff (s : State) (c : ConnId) (hp : (s.conn c).phase = .accepted) :
    (((step s (.decide c)).conn c).phase = .admitted ↔
        (s.started = true ∧ s.clients.length < s.maxClients)) ∧
    (((step s (.decide c)).conn c).phase = .rejecting ↔
        ¬(s.started = true ∧ s.clients.length < s.maxClients)) := by
  by_cases h : s.started = true ∧ s.clients.length < s.maxClients
  · have := (decide_admits s c hp h).1
    simp [this, h]
  · have := (decide_rejects s c hp h).1
    simp [this, h]

/-- a served session that ends because the peer disconnected, because of a protocol error, or
    because it stayed idle for the timeout: that ending is always possible, then the removal step
    is enabled, and after it exactly this session's slot is free again -/
theorem C09_reclaim {s : State} (hs : Reachable s) (c : ConnId) (r : Reason)
    (hp : (s.conn c).phase = .serving) (hr : r ≠ .socketClosedByServer) :
    let s₁ := step s (.finish c r)
    let s₂ := step s₁ (.remove c)
    enabled s (.finish c r) = true ∧ enabled s₁ (.remove c) = true ∧
      s₂.clients.length + 1 = s.clients.length ∧ c ∉ s₂.clients ∧
      (∀ c', c' ≠ c → (c' ∈ s₂.clients ↔ c' ∈ s.clients)) ∧
      s₂.started = s.started ∧ s₂.maxClients = s.maxClients := by
  have he : enabled s (.finish c r) = true := by
    cases r <;> simp_all [enabled]
  obtain ⟨h1, _, h3, h4, h5, h6, h7⟩ := reclaim hs.inv c r he
  exact ⟨he, h1, h3, h4, h5, h6, h7⟩

/-- once every admitted session has finished and been removed, the list is empty … -/
theorem C09_all_removed_empty {s : State} (hs : Reachable s)
    (h : ∀ c, (s.conn c).phase ≠ .admitted ∧ (s.conn c).phase ≠ .serving ∧
      (s.conn c).phase ≠ .finished) : s.clients = [] := by
  apply clients_nil_of_no_sessions hs.inv
  intro c
  have := h c
  revert this
  cases (s.conn c).phase <;> simp [Phase.inList]

/-- … and the next MaxClients connections (server started, its acceptor `a` waiting in Accept)
    are all admitted and served -/
theorem C09_next_max_admitted {s : State} (hs : Reachable s)
    (h : ∀ c, (s.conn c).phase ≠ .admitted ∧ (s.conn c).phase ≠ .serving ∧
      (s.conn c).phase ≠ .finished)
    (hst : s.started = true) (a : Nat) (ha : s.acceptors[a]? = some ⟨s.gen, .accepting⟩)
    (cs : List ConnId) (hn : cs.Nodup) (hf : ∀ c ∈ cs, (s.conn c).phase = .fresh)
    (hlen : cs.length ≤ s.maxClients) :
    let s' := run s (cs.flatMap (admitSeq a))
    s'.clients = cs ∧ (∀ c ∈ cs, (s'.conn c).phase = .serving ∧ s'.wouldServe c = true) ∧
      s'.log = s.log ++ cs.map .admit := by
  have he := C09_all_removed_empty hs h
  have hop : s.listenerOpen = true := by rw [← hs.inv.started_open]; exact hst
  obtain ⟨h1, h2, h3, _⟩ := run_admitSeqs (s := s) a cs hst hop ha hf hn (by rw [he]; simpa using hlen)
  refine ⟨by rw [h1, he]; rfl, fun c hc => ?_, h3⟩
  obtain ⟨p, q⟩ := h2 c hc
  exact ⟨p, by simp [State.wouldServe, p, q]⟩

/-- more generally, with `k` free slots the next `k` connections are admitted -/
theorem C09_free_slots_admitted {s : State} (hs : Reachable s)
    (hst : s.started = true) (a : Nat) (ha : s.acceptors[a]? = some ⟨s.gen, .accepting⟩)
    (cs : List ConnId) (hn : cs.Nodup) (hf : ∀ c ∈ cs, (s.conn c).phase = .fresh)
    (hroom : s.clients.length + cs.length ≤ s.maxClients) :
    let s' := run s (cs.flatMap (admitSeq a))
    s'.clients = s.clients ++ cs ∧ ∀ c ∈ cs, (s'.conn c).phase = .serving ∧ s'.wouldServe c = true := by
  have hop : s.listenerOpen = true := by rw [← hs.inv.started_open]; exact hst
  obtain ⟨h1, h2, _, _⟩ := run_admitSeqs (s := s) a cs hst hop ha hf hn hroom
  refine ⟨h1, fun c hc => ?_⟩
  obtain ⟨p, q⟩ := h2 c hc
  exact ⟨p, by simp [State.wouldServe, p, q]⟩

/-! ### non-vacuity (MaxClients = 1) -/

/-- two arrivals: the second is rejected, closed by the accept loop, its requests never served -/
def twoArrivals : List Step :=
  [.start, .arrive 1, .accept 0 1, .decide 1, .launch 1, .request 1,
   .arrive 2, .accept 0 2, .request 2, .decide 2, .request 2, .launch 2, .request 2]

example : (run (init 1) twoArrivals).clients = [1] := by decide
example : ((run (init 1) twoArrivals).conn 2).phase = .rejected ∧
    ((run (init 1) twoArrivals).conn 2).sockClosed = true := by decide
example : (run (init 1) twoArrivals).log = [.admit 1, .served 1, .reject 2] := by decide
example : (run (init 1) twoArrivals).servingConns = [1] := by decide

/-- the first one finishes (idle timeout), is removed: the third arrival is admitted and served -/
def thenThird : List Step :=
  twoArrivals ++ [.finish 1 .idleTimeout, .remove 1, .close 1,
    .arrive 3, .accept 0 3, .decide 3, .launch 3, .request 3]

example : (run (init 1) thenThird).clients = [3] := by decide +kernel
example : (run (init 1) thenThird).log =
    [.admit 1, .served 1, .reject 2, .admit 3, .served 3] := by decide +kernel
example : ((run (init 1) thenThird).conn 1).phase = .closed := by decide +kernel

/-- without the removal step the slot is still taken (the bound is on the list, not on #serving) -/
example : ((run (init 1) (twoArrivals ++ [.finish 1 .peerClosed,
    .arrive 3, .accept 0 3, .decide 3])).conn 3).phase = .rejecting := by decide

/-- hypotheses of `C09_next_max_admitted` are satisfiable, MaxClients = 2 -/
example : (run (run (init 2) [.start]) ([5, 7].flatMap (admitSeq 0))).clients = [5, 7] := by decide
example : (run (init 2) [.start]).acceptors[0]? = some ⟨(run (init 2) [.start]).gen, .accepting⟩ := by
  decide

example : swapRemove [1, 2, 3] 1 = [3, 2] := by decide
example : swapRemove [1, 2, 3] 2 = [1, 3] := by decide
example : swapRemove [1, 2, 3] 3 = [1, 2] := by decide
example : swapRemove [1, 2, 3] 4 = [1, 2, 3] := by decide
example : swapRemove [1] 1 = [] := by decide
/-- with a duplicate only the FIRST match goes (cannot occur: `C09_no_leak` gives Nodup) -/
example : swapRemove [1, 2, 1, 3] 1 = [3, 2, 1] := by decide

#print axioms C09_bound
#print axioms C09_serving_set
#print axioms C09_bound_any_set
#print axioms C09_no_leak
#print axioms C09_rejected_never_served
#print axioms C09_rejected_never_served_later
#print axioms C09_remove_exact
#print axioms C09_remove_absent
#print axioms C09_remove_exact'
#print axioms C09_admit_iff
#print axioms C09_reclaim
#print axioms C09_all_removed_empty
#print axioms C09_next_max_admitted
#print axioms C09_free_slots_admitted

end Modbus.Props.C09
